package c29

import (
	"fmt"

	"github.com/cockroachdb/pebble/internal/base"
	"github.com/cockroachdb/pebble/internal/testkeys"
	"github.com/cockroachdb/pebble/sstable"
	"github.com/cockroachdb/pebble/sstable/virtual"
)

// Xform is a transform combination.
type Xform struct {
	Seq    uint64 `json:"seq"`    // synthetic sequence number (0 = none)
	Prefix string `json:"prefix"` // synthetic prefix (prepended)
	Suffix string `json:"suffix"` // synthetic suffix (replaces)
	Hide   bool   `json:"hide"`   // HideObsoletePoints (+ the obsolete-key block property filter, as the file cache adds it)
}

func (x Xform) String() string {
	s := "xform{"
	if x.Seq != 0 {
		s += fmt.Sprintf("seq=%d ", x.Seq)
	}
	if x.Prefix != "" {
		s += fmt.Sprintf("prefix=%q ", x.Prefix)
	}
	if x.Suffix != "" {
		s += fmt.Sprintf("suffix=%q ", x.Suffix)
	}
	if x.Hide {
		s += "hide-obsolete "
	}
	if s == "xform{" {
		return "xform{none}"
	}
	return s[:len(s)-1] + "}"
}

func (x Xform) iter() sstable.IterTransforms {
	return sstable.IterTransforms{
		SyntheticSeqNum:          sstable.SyntheticSeqNum(x.Seq),
		HideObsoletePoints:       x.Hide,
		SyntheticPrefixAndSuffix: sstable.MakeSyntheticPrefixAndSuffix([]byte(x.Prefix), []byte(x.Suffix)),
	}
}

func (x Xform) frag() sstable.FragmentIterTransforms {
	return sstable.FragmentIterTransforms{
		SyntheticSeqNum:          sstable.SyntheticSeqNum(x.Seq),
		SyntheticPrefixAndSuffix: sstable.MakeSyntheticPrefixAndSuffix([]byte(x.Prefix), []byte(x.Suffix)),
	}
}

// xformMenu lists the transform combinations, simplest first. suffixOK selects the menu for tables
// that satisfy the synthetic-suffix preconditions (it then also contains the suffix transforms).
func xformMenu(thorough, suffixOK bool) []Xform {
	var m []Xform
	if thorough {
		m = []Xform{{}, {Seq: synSeq}, {Prefix: synPrefix}, {Seq: synSeq, Prefix: synPrefix}, {Hide: true}, {Hide: true, Seq: synSeq, Prefix: synPrefix}}
	} else {
		m = []Xform{{}, {Hide: true, Seq: synSeq, Prefix: synPrefix}}
	}
	if suffixOK {
		if thorough {
			m = append(m, Xform{Suffix: synSuffix}, Xform{Suffix: synSuffix, Seq: synSeq}, Xform{Suffix: synSuffix, Prefix: synPrefix}, Xform{Suffix: synSuffix, Prefix: synPrefix, Seq: synSeq})
		} else {
			m = append(m, Xform{Suffix: synSuffix, Prefix: synPrefix, Seq: synSeq})
		}
	}
	return m
}

// VB is a pair of virtual bounds in position space (the synthetic prefix is prepended on use).
type VB struct {
	Lo   string `json:"lo"`
	Hi   string `json:"hi"`
	Excl bool   `json:"excl"` // upper bound is an exclusive sentinel (as excise creates for a left remainder)
}

func (v VB) String() string {
	if v.Excl {
		return fmt.Sprintf("[%s,%s)", v.Lo, v.Hi)
	}
	return fmt.Sprintf("[%s,%s]", v.Lo, v.Hi)
}

func (v VB) params(prefix string) *virtual.VirtualReaderParams {
	lo, hi := []byte(prefix+v.Lo), []byte(prefix+v.Hi)
	p := &virtual.VirtualReaderParams{
		// As looseRightTableBounds / external ingestion build a lower bound.
		Lower:   base.MakeInternalKey(lo, 0, base.InternalKeyKindMaxForSSTable),
		FileNum: 7,
	}
	if v.Excl {
		p.Upper = base.MakeExclusiveSentinelKey(base.InternalKeyKindRangeDelete, hi)
	} else {
		p.Upper = base.MakeInternalKey(hi, 0, base.InternalKeyKindSet)
	}
	return p
}

// positions are the keys used as virtual bounds / iterator bounds (bnd) and as seek keys (prb),
// in comparer order, without the synthetic prefix.
type positions struct {
	bnd, prb []string
}

func positionsFor(thorough bool, suffix string) positions {
	var p positions
	switch {
	case suffix == "" && thorough:
		p.bnd = []string{"a", "a@5", "a@4", "a@3", "a@1", "b", "b@9", "b@4", "c", "c@5", "d", "d@2", "e"}
		p.prb = []string{"a", "a@5", "a@4", "a@3", "a@1", "b", "b@9", "b@4", "b@1", "c", "c@5", "c@1", "d", "d@2", "d@1", "e"}
	case suffix == "":
		p.bnd = []string{"a", "a@5", "a@4", "a@3", "a@1", "b", "b@9", "b@4", "c", "c@5", "d"}
		p.prb = []string{"a", "a@5", "a@4", "a@3", "a@1", "b", "b@9", "b@4", "b@1", "c", "c@5", "c@1", "d"}
	case thorough:
		p.bnd = []string{"a", "a@9", "a@5", "b", "b@9", "b@4", "c", "c@9", "c@5", "d", "d@9", "d@2", "e"}
		p.prb = []string{"a", "a@10", "a@9", "a@5", "b", "b@9", "b@4", "c", "c@10", "c@9", "c@5", "d", "d@9", "d@2", "e"}
	default:
		p.bnd = []string{"a", "a@9", "a@5", "b", "b@9", "b@4", "c", "c@9", "c@5", "d"}
		p.prb = []string{"a", "a@10", "a@9", "a@5", "b", "b@9", "b@4", "c", "c@10", "c@9", "c@5", "d"}
	}
	for _, l := range [][]string{p.bnd, p.prb} {
		for i := 1; i < len(l); i++ {
			if cmp([]byte(l[i-1]), []byte(l[i])) >= 0 {
				panic(fmt.Sprintf("positions not sorted: %s %s", l[i-1], l[i]))
			}
		}
	}
	return p
}

// allVB enumerates every virtual bound pair over the bound positions: inclusive [lo,hi] with
// lo <= hi and exclusive [lo,hi) with lo < hi.
func allVB(p positions) []VB {
	var out []VB
	for i := range p.bnd {
		for j := i; j < len(p.bnd); j++ {
			out = append(out, VB{Lo: p.bnd[i], Hi: p.bnd[j]})
			if j > i {
				out = append(out, VB{Lo: p.bnd[i], Hi: p.bnd[j], Excl: true})
			}
		}
	}
	return out
}

// lent is a logical (transformed) point entry.
type lent struct {
	uk      []byte
	trailer base.InternalKeyTrailer
	val     []byte
	phys    Ent
}

func (l lent) String() string {
	return fmt.Sprintf("%s#%d,%s=%q", l.uk, l.trailer.SeqNum(), l.trailer.Kind(), l.val)
}

// obsoleteFlags computes which entries the writer marks obsolete (colblk_writer.go /
// rowblk_writer.go: same user key as the previous entry and the previous entry was obsolete or not a
// MERGE; or forceObsolete).
func obsoleteFlags(es []Ent) []bool {
	out := make([]bool, len(es))
	for i, e := range es {
		o := e.Force
		if i > 0 && es[i-1].K == e.K && (out[i-1] || es[i-1].Kind != base.InternalKeyKindMerge) {
			o = true
		}
		out[i] = o
	}
	return out
}

// logicalEntries is transform(physical entries): obsolete entries removed if hiding, synthetic
// suffix replacing the suffix (also on unsuffixed keys, as both block iterators do), synthetic
// prefix prepended, synthetic sequence number substituted. The order is unchanged because the
// preconditions guarantee it.
func logicalEntries(ts TableSpec, x Xform) []lent {
	es := ts.ents()
	obs := obsoleteFlags(es)
	var out []lent
	for i, e := range es {
		if x.Hide && obs[i] {
			continue
		}
		k := e.K
		if x.Suffix != "" {
			k = string(testkeys.Comparer.Split.Prefix([]byte(k))) + x.Suffix
		}
		k = x.Prefix + k
		seq := e.Seq
		if x.Seq != 0 {
			seq = x.Seq
		}
		l := lent{uk: []byte(k), trailer: base.MakeTrailer(base.SeqNum(seq), e.Kind), phys: e}
		if e.V != "" {
			l.val = []byte(e.V)
		}
		out = append(out, l)
	}
	for i := 1; i < len(out); i++ {
		if c := cmp(out[i-1].uk, out[i].uk); c > 0 || (c == 0 && out[i-1].trailer <= out[i].trailer && x.Seq == 0) {
			panic(fmt.Sprintf("model: transformed entries out of order: %s %s", out[i-1], out[i]))
		}
	}
	return out
}

// lb returns the index of the first entry with user key >= k; ub the first with user key > k.
func lb(es []lent, k []byte) int {
	for i := range es {
		if cmp(es[i].uk, k) >= 0 {
			return i
		}
	}
	return len(es)
}

func ub(es []lent, k []byte) int {
	for i := range es {
		if cmp(es[i].uk, k) > 0 {
			return i
		}
	}
	return len(es)
}

// vrange is the index range of the entries inside the virtual bounds.
func vrange(es []lent, v VB, prefix string) (int, int) {
	lo := lb(es, []byte(prefix+v.Lo))
	var hi int
	if v.Excl {
		hi = lb(es, []byte(prefix+v.Hi))
	} else {
		hi = ub(es, []byte(prefix+v.Hi))
	}
	if hi < lo {
		hi = lo
	}
	return lo, hi
}

func (e *env) runItem(it item, idx int) {
	switch it.part {
	case "point":
		e.runPointTable(it.tab, idx)
	case "span":
		e.runSpanTable(it.tab, idx)
	case "copy":
		e.runCopyTable(it.tab, idx)
	}
}

// runCase re-runs one case (replay).
func (e *env) runCase(cs Case) *failure {
	obj, err := buildTable(cs.Tab)
	if err != nil {
		return &failure{"build-error", err.Error()}
	}
	switch cs.Part {
	case "point":
		r, err := e.openReader(obj)
		if err != nil {
			return &failure{"open-error", err.Error()}
		}
		defer r.Close()
		return e.pointCase(r, cs.Tab, cs.X, cs.VB)
	case "span":
		r, err := e.openReader(obj)
		if err != nil {
			return &failure{"open-error", err.Error()}
		}
		defer r.Close()
		return e.spanCase(r, cs.Tab, cs.X, cs.VB)
	case "copy":
		return e.copyCase(obj, cs.Tab, cs.Warm, cs.Start, cs.End)
	}
	return &failure{"bad-replay", "unknown part " + cs.Part}
}
