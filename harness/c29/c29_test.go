// C29: virtual tables, iterator transforms and span copies present the right keys.
//
// Bounded exhaustive exploration of the real sstable reader through the entry points the DB's
// file cache uses (Reader.NewPointIter with IterOptions{Lower,Upper,Transforms,Env{Virtual}},
// NewCompactionIter, NewRawRangeDelIter, NewRawRangeKeyIter) and of sstable.CopySpan, compared
// with a sorted-list model: transform the physical entries, then filter them by the virtual
// bounds. Three sub-spaces (see checks.d/C29.json "rule"):
//
//	point: every non-empty subset of the point universe x table layouts x 2 formats x every
//	       virtual bound pair x transforms allowed by their preconditions x every iterator
//	       bound pair overlapping the virtual bounds x every probe key.
//	span:  range-del / range-key menus x virtual bounds x transforms; fragment iterators.
//	copy:  every subset x layouts x formats x block-cache residency patterns x every span.
package c29

import (
	"fmt"
	"runtime/debug"
	"sort"
	"strings"
	"testing"

	"github.com/cockroachdb/pebble/internal/verif/vlib"
)

// Case is the replay artefact: one (table, transform, virtual bounds) point or span case, or one
// (table, warm pattern, span) copy case.
type Case struct {
	Part  string    `json:"part"` // "point" | "span" | "copy"
	Tier  string    `json:"tier"` // position universe of the tier the case came from
	Tab   TableSpec `json:"tab"`
	X     Xform     `json:"x"`
	VB    VB        `json:"vb"`
	Start string    `json:"start,omitempty"` // copy
	End   string    `json:"end,omitempty"`   // copy
	Warm  uint32    `json:"warm,omitempty"`  // copy: entries whose block is pulled into the cache first
}

func (cs Case) String() string {
	switch cs.Part {
	case "copy":
		return fmt.Sprintf("copy %s warm=%07b span=[%s,%s)", cs.Tab, cs.Warm, cs.Start, cs.End)
	}
	return fmt.Sprintf("%s %s %s vb=%s", cs.Part, cs.Tab, cs.X, cs.VB)
}

type failure struct {
	class string
	desc  string
}

// item is one unit of parallel work: one physical table and everything enumerated over it.
type item struct {
	part string
	tab  TableSpec
}

func plan(thorough bool) []item {
	var items []item
	n := quickN
	if thorough {
		n = len(universe)
	}
	layouts := []int{0, 1, 2}
	if thorough {
		layouts = []int{0, 1, 2, 3}
	}
	// Simplest first: small subsets (by mask value) before large ones, formats and layouts inside.
	for mask := uint32(1); mask < 1<<uint(n); mask++ {
		for _, f := range formats {
			for _, l := range layouts {
				items = append(items, item{"point", TableSpec{Mask: mask, Layout: l, Format: f}})
			}
		}
	}
	// many versions of one user key (TableSpec.Deep): every subset of {a@5, b, c@5#9, c@5#2} plus the
	// three extra versions of c@5
	for _, mask := range []uint32{0, 0b00001, 0b00010, 0b00011, 0b00100, 0b00101, 0b00111, 0b10000, 0b10100, 0b10111} {
		for _, f := range formats {
			for _, l := range layouts {
				items = append(items, item{"point", TableSpec{Mask: mask, Layout: l, Format: f, Deep: true}})
			}
		}
	}
	for _, pm := range []uint32{0, 0b111} {
		for rd := 0; rd < len(rdMenu); rd++ {
			for rk := 0; rk < len(rkMenu); rk++ {
				if rd == 0 && rk == 0 {
					continue
				}
				for _, f := range formats {
					items = append(items, item{"span", TableSpec{Mask: pm, RD: rd, RK: rk, Layout: 0, Format: f}})
				}
			}
		}
	}
	for mask := uint32(1); mask < 1<<uint(n); mask++ {
		for _, f := range formats {
			for _, l := range layouts {
				items = append(items, item{"copy", TableSpec{Mask: mask, Layout: l, Format: f, NoValBlk: true}})
			}
		}
	}
	full := uint32(1)<<uint(n) - 1
	// Unsupported features (range tombstones, range keys, value blocks): whole-file copies.
	for _, sp := range [][2]int{{1, 0}, {0, 1}, {2, 3}} {
		for _, f := range formats {
			items = append(items, item{"copy", TableSpec{Mask: full, RD: sp[0], RK: sp[1], Layout: 1, Format: f, NoValBlk: true}})
		}
	}
	for _, f := range formats {
		items = append(items, item{"copy", TableSpec{Mask: full, Layout: 1, Format: f}})
	}
	// Interleave the three parts proportionally (each part stays in its simplest-first order) so
	// that a run cut short by the budget has covered the small tables of every part.
	var parts [3][]item
	for _, it := range items {
		switch it.part {
		case "point":
			parts[0] = append(parts[0], it)
		case "span":
			parts[1] = append(parts[1], it)
		default:
			parts[2] = append(parts[2], it)
		}
	}
	out := make([]item, 0, len(items))
	var next [3]int
	for len(out) < len(items) {
		best, bestFrac := -1, 2.0
		for p := range parts {
			if next[p] < len(parts[p]) {
				if f := float64(next[p]) / float64(len(parts[p])); f < bestFrac {
					best, bestFrac = p, f
				}
			}
		}
		out = append(out, parts[best][next[best]])
		next[best]++
	}
	return out
}

func TestCheck(t *testing.T) {
	debug.SetGCPercent(800)
	vlib.Main(t, "C29", func(c *vlib.Ctx) {
		if c.ReplayPath() != "" {
			var cs Case
			if err := c.LoadReplay(&cs); err != nil {
				t.Fatal(err)
			}
			fmt.Printf("replay: %s\n", cs)
			e := newEnv(c, cs.Tier == "thorough")
			e.verbose = true
			f := e.runCase(cs)
			c.Eval(1)
			if f != nil {
				fmt.Printf("replay: VIOLATION class=%s\n%s\n", f.class, f.desc)
				c.Violation(f.class, f.desc, cs)
			} else {
				fmt.Printf("replay: no disagreement\n")
			}
			return
		}
		thorough := c.Thorough()
		items := plan(thorough)
		var counts [3]int
		for _, it := range items {
			switch it.part {
			case "point":
				counts[0]++
			case "span":
				counts[1]++
			default:
				counts[2]++
			}
		}
		// The first table of each part and a few tables spread over the plan contribute one sample each.
		stride := len(items)/3 + 1
		first := map[string]int{}
		for i, it := range items {
			if _, ok := first[it.part]; !ok {
				first[it.part] = i
			}
		}
		done, complete := c.Each(len(items), func(i int) {
			e := newEnv(c, thorough)
			e.sample = first[items[i].part] == i || (i > 0 && i%stride == 0)
			e.runItem(items[i], i)
			e.close()
		})
		if !complete {
			c.Incomplete(fmt.Sprintf("budget expired after %d of %d physical tables (point, span and copy tables interleaved proportionally, each part ordered by subset mask / menu index); every finished table was explored completely", done, len(items)))
		}
		ps := positionsFor(thorough, "")
		px := positionsFor(thorough, synSuffix)
		c.Note("scope", map[string]any{
			"point_tables":       counts[0],
			"span_tables":        counts[1],
			"copy_tables":        counts[2],
			"universe":           entStrings(thorough),
			"bound_positions":    strings.Join(ps.bnd, " "),
			"probe_positions":    strings.Join(ps.prb, " "),
			"bound_positions_sx": strings.Join(px.bnd, " "),
			"probe_positions_sx": strings.Join(px.prb, " "),
			"formats":            formats,
			"layouts":            layoutNames(thorough),
			"transforms":         xformNames(thorough),
		})
	})
}

func entStrings(thorough bool) []string {
	n := quickN
	if thorough {
		n = len(universe)
	}
	var out []string
	for _, e := range universe[:n] {
		out = append(out, e.String())
	}
	return out
}

func layoutNames(thorough bool) []string {
	var out []string
	menu := layoutMenu
	if !thorough {
		menu = layoutMenu[:3]
	}
	for _, l := range menu {
		out = append(out, fmt.Sprintf("%s(block=%d,index=%d)", l.Name, l.Block, l.Index))
	}
	return out
}

func xformNames(thorough bool) []string {
	var out []string
	for _, x := range xformMenu(thorough, false) {
		out = append(out, x.String())
	}
	for _, x := range xformMenu(thorough, true) {
		if x.Suffix != "" {
			out = append(out, x.String())
		}
	}
	sort.Strings(out)
	return out
}
