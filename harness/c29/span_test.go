package c29

import (
	"bytes"
	"context"
	"fmt"
	"sort"
	"strings"

	"github.com/cockroachdb/pebble/internal/base"
	"github.com/cockroachdb/pebble/internal/keyspan"
	"github.com/cockroachdb/pebble/internal/verif/vlib"
	"github.com/cockroachdb/pebble/sstable"
)

// mspan is a model span (logical, truncated).
type mspan struct {
	start, end []byte
	keys       []string // canonical key strings, sorted
}

func (m mspan) String() string {
	return fmt.Sprintf("[%s,%s){%s}", m.start, m.end, strings.Join(m.keys, " "))
}

func keyString(t base.InternalKeyTrailer, suffix, value []byte) string {
	return fmt.Sprintf("#%d,%s,%q=%q", t.SeqNum(), t.Kind(), suffix, value)
}

// logicalSpans is truncate(transform(physical spans)).
func logicalSpans(phys []SpanSpec, x Xform, vb VB) []mspan {
	vlo, vhi := []byte(x.Prefix+vb.Lo), []byte(x.Prefix+vb.Hi)
	var out []mspan
	for _, s := range phys {
		m := mspan{start: []byte(x.Prefix + s.Start), end: []byte(x.Prefix + s.End)}
		for _, k := range s.Keys {
			seq := k.Seq
			if x.Seq != 0 {
				seq = x.Seq
			}
			suffix := k.Suffix
			if x.Suffix != "" && k.Kind == base.InternalKeyKindRangeKeySet && suffix != "" {
				suffix = x.Suffix
			}
			m.keys = append(m.keys, keyString(base.MakeTrailer(base.SeqNum(seq), k.Kind), []byte(suffix), []byte(k.Value)))
		}
		sort.Strings(m.keys)
		if cmp(m.start, vlo) < 0 {
			m.start = vlo
		}
		// With an inclusive upper bound the precondition (no span contains the bound) makes
		// truncation at the bound key equivalent: spans end at or before it, or start after it.
		if cmp(m.end, vhi) > 0 {
			m.end = vhi
		}
		if cmp(m.start, m.end) < 0 {
			out = append(out, m)
		}
	}
	return out
}

// inclusiveBoundInsideSpan reports whether a span contains the (inclusive) upper bound key, which
// keyspan.Truncate documents as a caller error.
func inclusiveBoundInsideSpan(phys []SpanSpec, vb VB) bool {
	if vb.Excl {
		return false
	}
	for _, s := range phys {
		if cmp([]byte(s.Start), []byte(vb.Hi)) <= 0 && cmp([]byte(vb.Hi), []byte(s.End)) < 0 {
			return true
		}
	}
	return false
}

func (e *env) runSpanTable(ts TableSpec, idx int) {
	c := e.c
	obj, err := buildTable(ts)
	if err != nil {
		c.Violation("build-error", fmt.Sprintf("%s: %v", ts, err), Case{Part: "span", Tier: e.tierName(), Tab: ts})
		return
	}
	r, err := e.openReader(obj)
	if err != nil {
		c.Violation("open-error", fmt.Sprintf("%s: %v", ts, err), Case{Part: "span", Tier: e.tierName(), Tab: ts})
		return
	}
	defer r.Close()
	n := 0
	for _, x := range spanXforms(ts) {
		pos := positionsFor(e.thorough, x.Suffix)
		for _, vb := range allVB(pos) {
			cs := Case{Part: "span", Tier: e.tierName(), Tab: ts, X: x, VB: vb}
			e.trans = 0
			f := catch("span-iter-panic", func() *failure { return e.spanCase(r, ts, x, vb) })
			if f == nil {
				// The point iterator of a table that also has range blocks (or only range blocks).
				f = catch("point-iter-panic", func() *failure { return e.pointCase(r, ts, x, vb) })
			}
			c.Eval(1)
			c.Trans(e.trans)
			rd := logicalSpans(rdMenu[ts.RD], x, vb)
			rk := logicalSpans(rkMenu[ts.RK], x, vb)
			c.State(vlib.Hash("span", fmt.Sprint(rd), fmt.Sprint(rk)))
			cut := false
			for _, s := range append(append([]SpanSpec{}, rdMenu[ts.RD]...), rkMenu[ts.RK]...) {
				lo, hi := []byte(vb.Lo), []byte(vb.Hi)
				if (cmp([]byte(s.Start), lo) < 0 && cmp(lo, []byte(s.End)) < 0) || (cmp([]byte(s.Start), hi) < 0 && cmp(hi, []byte(s.End)) < 0) {
					cut = true
				}
			}
			if cut {
				c.Nontrivial(vlib.Hash("span", ts.Mask, ts.RD, ts.RK, ts.Format, x.String(), vb.String()))
			}
			if f != nil {
				c.Violation(f.class, fmt.Sprintf("%s: %s", cs, f.desc), cs)
				c.Outcome("span:" + f.class)
			} else if cut {
				c.Outcome("span:agree-truncated")
			} else if len(rd)+len(rk) == 0 {
				c.Outcome("span:agree-nothing-visible")
			} else {
				c.Outcome("span:agree-untruncated")
			}
			if n++; e.sample && n > 41 && cut && len(rd)+len(rk) > 0 {
				e.sample = false
				c.Sample(map[string]any{"case": cs.String(), "rangedels": fmt.Sprint(rd), "rangekeys": fmt.Sprint(rk)})
			}
		}
	}
}

// spanXforms lists the transforms a span table may be read with: sequence number and prefix
// always; the suffix only without range tombstones and without RANGEKEYUNSET (documented on
// blockiter.SyntheticSuffix).
func spanXforms(ts TableSpec) []Xform {
	m := []Xform{{}, {Seq: synSeq}, {Prefix: synPrefix}, {Seq: synSeq, Prefix: synPrefix}}
	if ts.RD == 0 && !rkHasUnset(ts.RK) {
		m = append(m, Xform{Suffix: synSuffix}, Xform{Suffix: synSuffix, Seq: synSeq, Prefix: synPrefix})
	}
	return m
}

func (e *env) spanCase(r *sstable.Reader, ts TableSpec, x Xform, vb VB) *failure {
	params := vb.params(x.Prefix)
	renv := sstable.ReadEnv{Virtual: params}
	pos := positionsFor(e.thorough, x.Suffix)
	var prb [][]byte
	if x.Prefix != "" {
		prb = append(prb, []byte("o"))
	}
	for _, s := range pos.prb {
		prb = append(prb, []byte(x.Prefix+s))
	}
	if x.Prefix != "" {
		prb = append(prb, []byte("q"))
	}
	for _, kind := range []string{"rangedel", "rangekey"} {
		phys := rdMenu[ts.RD]
		if kind == "rangekey" {
			phys = rkMenu[ts.RK]
		}
		if inclusiveBoundInsideSpan(phys, vb) {
			continue
		}
		var it keyspan.FragmentIterator
		var err error
		if kind == "rangedel" {
			it, err = r.NewRawRangeDelIter(context.Background(), x.frag(), renv)
		} else {
			it, err = r.NewRawRangeKeyIter(context.Background(), x.frag(), renv)
		}
		if err != nil {
			return &failure{kind + "-iter-error", err.Error()}
		}
		if it == nil {
			if len(phys) != 0 {
				return &failure{kind + "-iter-mismatch", "no iterator although the table has spans"}
			}
			continue
		}
		model := logicalSpans(phys, x, vb)
		p := &sprober{e: e, it: it, model: model, ctxt: kind + "-iter"}
		ok := p.run(prb)
		it.Close()
		if !ok {
			p.fail.class = kind + "-" + p.fail.class
			return p.fail
		}
	}
	return nil
}

type sprober struct {
	e     *env
	it    keyspan.FragmentIterator
	model []mspan
	ctxt  string
	ops   []string
	fail  *failure
}

func spanStr(s *keyspan.Span) string {
	if s == nil {
		return "nil"
	}
	var ks []string
	for _, k := range s.Keys {
		ks = append(ks, keyString(k.Trailer, k.Suffix, k.Value))
	}
	sort.Strings(ks)
	return fmt.Sprintf("[%s,%s){%s}", s.Start, s.End, strings.Join(ks, " "))
}

func (p *sprober) expect(s *keyspan.Span, err error, idx int, op string) bool {
	p.e.trans++
	p.ops = append(p.ops, op)
	want := "nil"
	ok := false
	if err == nil {
		if idx < 0 || idx >= len(p.model) {
			ok = s == nil
		} else {
			m := p.model[idx]
			want = m.String()
			ok = s != nil && bytes.Equal(s.Start, m.start) && bytes.Equal(s.End, m.end) && spanStr(s) == want
		}
	}
	if p.e.verbose {
		fmt.Printf("    %s %s -> %s err=%v (model %s)\n", p.ctxt, strings.Join(p.ops, " "), spanStr(s), err, want)
	}
	if !ok {
		if err != nil {
			p.fail = &failure{"iter-error", fmt.Sprintf("%s %s: error %v (model %s)", p.ctxt, strings.Join(p.ops, " "), err, want)}
		} else {
			p.fail = &failure{"iter-mismatch", fmt.Sprintf("%s %s: got %s, model %s", p.ctxt, strings.Join(p.ops, " "), spanStr(s), want)}
		}
	}
	return ok
}

func (p *sprober) forwardFrom(idx int) bool {
	for idx < len(p.model) {
		idx++
		s, err := p.it.Next()
		if !p.expect(s, err, idx, "Next") {
			return false
		}
	}
	return true
}

func (p *sprober) backwardFrom(idx int) bool {
	for idx >= 0 {
		idx--
		s, err := p.it.Prev()
		if !p.expect(s, err, idx, "Prev") {
			return false
		}
	}
	return true
}

func (p *sprober) run(prb [][]byte) bool {
	it := p.it
	n := len(p.model)
	p.ops = p.ops[:0]
	s, err := it.First()
	if !p.expect(s, err, 0, "First") || !p.forwardFrom(0) {
		return false
	}
	s, err = it.Prev()
	if !p.expect(s, err, n-1, "Prev") {
		return false
	}
	p.ops = p.ops[:0]
	s, err = it.Last()
	if !p.expect(s, err, n-1, "Last") || !p.backwardFrom(n-1) {
		return false
	}
	s, err = it.Next()
	if !p.expect(s, err, 0, "Next") {
		return false
	}
	for _, k := range prb {
		ge := n // first span with end > k
		for i, m := range p.model {
			if cmp(m.end, k) > 0 {
				ge = i
				break
			}
		}
		lt := -1 // last span with start < k
		for i, m := range p.model {
			if cmp(m.start, k) < 0 {
				lt = i
			}
		}
		p.ops = p.ops[:0]
		s, err = it.SeekGE(k)
		if !p.expect(s, err, ge, fmt.Sprintf("SeekGE(%s)", k)) || (ge < n && !p.forwardFrom(ge)) {
			return false
		}
		p.ops = p.ops[:0]
		s, err = it.SeekGE(k)
		if !p.expect(s, err, ge, fmt.Sprintf("SeekGE(%s)", k)) {
			return false
		}
		s, err = it.Prev()
		if !p.expect(s, err, ge-1, "Prev") {
			return false
		}
		p.ops = p.ops[:0]
		s, err = it.SeekLT(k)
		if !p.expect(s, err, lt, fmt.Sprintf("SeekLT(%s)", k)) || (lt >= 0 && !p.backwardFrom(lt)) {
			return false
		}
		p.ops = p.ops[:0]
		s, err = it.SeekLT(k)
		if !p.expect(s, err, lt, fmt.Sprintf("SeekLT(%s)", k)) {
			return false
		}
		s, err = it.Next()
		if !p.expect(s, err, lt+1, "Next") {
			return false
		}
	}
	return true
}
