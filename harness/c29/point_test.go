package c29

import (
	"bytes"
	"context"
	"fmt"
	"strings"

	"github.com/cockroachdb/pebble/internal/base"
	"github.com/cockroachdb/pebble/internal/testkeys"
	"github.com/cockroachdb/pebble/internal/verif/vlib"
	"github.com/cockroachdb/pebble/sstable"
)

func (e *env) runPointTable(ts TableSpec, idx int) {
	c := e.c
	obj, err := buildTable(ts)
	if err != nil {
		c.Violation("build-error", fmt.Sprintf("%s: %v", ts, err), Case{Part: "point", Tier: e.tierName(), Tab: ts})
		return
	}
	r, err := e.openReader(obj)
	if err != nil {
		c.Violation("open-error", fmt.Sprintf("%s: %v", ts, err), Case{Part: "point", Tier: e.tierName(), Tab: ts})
		return
	}
	defer r.Close()
	n := 0
	for _, x := range xformMenu(e.thorough, ts.singleVersion()) {
		es := logicalEntries(ts, x)
		if x.Seq != 0 && hasDupUserKey(es) {
			// A synthetic sequence number means all keys of the file share one sequence number; two
			// visible internal keys of one user key cannot exist in such a file.
			c.Outcome("point:skipped-seqnum-precondition")
			continue
		}
		pos := positionsFor(e.thorough, x.Suffix)
		for _, vb := range allVB(pos) {
			cs := Case{Part: "point", Tier: e.tierName(), Tab: ts, X: x, VB: vb}
			e.trans = 0
			f := catch("point-iter-panic", func() *failure { return e.pointCase(r, ts, x, vb) })
			c.Eval(1)
			c.Trans(e.trans)
			lo, hi := vrange(es, vb, x.Prefix)
			c.State(vlib.Hash("point", visibleString(es[lo:hi])))
			if hi-lo >= 1 && hi-lo < len(es) {
				c.Nontrivial(vlib.Hash("point", ts.Mask, ts.Layout, ts.Format, x.String(), vb.String()))
			}
			if f != nil {
				c.Violation(f.class, fmt.Sprintf("%s: %s", cs, f.desc), cs)
				c.Outcome("point:" + f.class)
			} else if hi == lo {
				c.Outcome("point:agree-nothing-visible")
			} else if hi-lo == len(es) {
				c.Outcome("point:agree-all-visible")
			} else {
				c.Outcome("point:agree-some-visible")
			}
			if n++; e.sample && n > 41 && hi-lo >= 1 && hi-lo < len(es) {
				e.sample = false
				c.Sample(map[string]any{"case": cs.String(), "visible": visibleString(es[lo:hi]), "iterator_calls": e.trans})
			}
		}
	}
}

func hasDupUserKey(es []lent) bool {
	for i := 1; i < len(es); i++ {
		if bytes.Equal(es[i].uk, es[i-1].uk) {
			return true
		}
	}
	return false
}

func visibleString(es []lent) string {
	var parts []string
	for _, l := range es {
		parts = append(parts, l.String())
	}
	return strings.Join(parts, " ")
}

// prober drives one sstable point iterator against the model range [lo,hi) of es.
type prober struct {
	e      *env
	es     []lent
	lo, hi int // visible index range under virtual bounds and iterator bounds
	it     sstable.Iterator
	ctxt   string // description of the iterator
	mode   string
	lower  []byte
	upper  []byte
	fail   *failure
}

// opRec is one iterator call; formatted only when a description is needed.
type opRec struct {
	name string
	key  []byte
	tsun bool
}

func opsString(ops []opRec) string {
	var b strings.Builder
	for i, o := range ops {
		if i > 0 {
			b.WriteByte(' ')
		}
		b.WriteString(o.name)
		switch o.name {
		case "SeekGE", "SeekLT", "NextPrefix":
			fmt.Fprintf(&b, "(%q", o.key)
			if o.tsun {
				b.WriteString(",try-seek-using-next")
			}
			b.WriteByte(')')
		case "SeekPrefixGE":
			fmt.Fprintf(&b, "(%q,%q", o.key[:testkeys.Comparer.Split(o.key)], o.key)
			if o.tsun {
				b.WriteString(",try-seek-using-next")
			}
			b.WriteByte(')')
		}
	}
	return b.String()
}

func keyStr(k []byte) string {
	if k == nil {
		return "nil"
	}
	return string(k)
}

func kvStr(kv *base.InternalKV) string {
	if kv == nil {
		return "nil"
	}
	v, _, err := kv.Value(nil)
	if err != nil {
		return fmt.Sprintf("%s#%d,%s=<err %v>", kv.K.UserKey, kv.K.SeqNum(), kv.K.Kind(), err)
	}
	return fmt.Sprintf("%s#%d,%s=%q", kv.K.UserKey, kv.K.SeqNum(), kv.K.Kind(), v)
}

// expect compares kv with entry idx (idx outside [lo,hi) means nil is expected).
func (p *prober) expect(kv *base.InternalKV, idx int, op string) bool {
	return p.expectK(kv, idx, op, nil, false)
}

func (p *prober) expectK(kv *base.InternalKV, idx int, op string, key []byte, tsun bool) bool {
	p.e.trans++
	p.e.ops = append(p.e.ops, opRec{op, key, tsun})
	ok := false
	if idx < p.lo || idx >= p.hi {
		ok = kv == nil
	} else {
		l := &p.es[idx]
		if kv != nil && bytes.Equal(kv.K.UserKey, l.uk) && kv.K.Trailer == l.trailer {
			v, _, err := kv.Value(nil)
			ok = err == nil && bytes.Equal(v, l.val)
		}
	}
	if ok && !p.e.verbose {
		return true
	}
	want := "nil"
	if idx >= p.lo && idx < p.hi {
		want = p.es[idx].String()
	}
	if p.ctxt == "" {
		p.ctxt = fmt.Sprintf("iter(%s lower=%s upper=%s)", p.mode, keyStr(p.lower), keyStr(p.upper))
	}
	if p.e.verbose {
		fmt.Printf("    %s %s -> %s (model %s)\n", p.ctxt, opsString(p.e.ops), kvStr(kv), want)
	}
	if !ok {
		if err := p.it.Error(); err != nil && kv == nil {
			p.fail = &failure{"point-iter-error", fmt.Sprintf("%s %s: iterator error %v (model %s)", p.ctxt, opsString(p.e.ops), err, want)}
		} else {
			p.fail = &failure{"point-iter-mismatch", fmt.Sprintf("%s %s: got %s, model %s", p.ctxt, opsString(p.e.ops), kvStr(kv), want)}
		}
	}
	return ok
}

func (p *prober) start() { p.e.ops = p.e.ops[:0] }

// forwardFrom walks Next from entry idx (the entry just returned) to exhaustion.
func (p *prober) forwardFrom(idx int) bool {
	for idx < p.hi {
		idx++
		if !p.expect(p.it.Next(), idx, "Next") {
			return false
		}
	}
	return true
}

func (p *prober) backwardFrom(idx int) bool {
	for idx >= p.lo {
		idx--
		if !p.expect(p.it.Prev(), idx, "Prev") {
			return false
		}
	}
	return true
}

// pointCase runs every iterator-bound pair and probe for one (table, transform, virtual bounds).
func (e *env) pointCase(r *sstable.Reader, ts TableSpec, x Xform, vb VB) *failure {
	es := logicalEntries(ts, x)
	vlo, vhi := vrange(es, vb, x.Prefix)
	params := vb.params(x.Prefix)
	pos := positionsFor(e.thorough, x.Suffix)
	var ib, prb [][]byte
	if x.Prefix != "" {
		// Keys without the synthetic prefix, below and above every key of the table.
		ib = append(ib, []byte("o"))
		prb = append(prb, []byte("o"))
	}
	for _, s := range pos.bnd {
		ib = append(ib, []byte(x.Prefix+s))
	}
	for _, s := range pos.prb {
		prb = append(prb, []byte(x.Prefix+s))
	}
	if x.Prefix != "" {
		ib = append(ib, []byte("q"))
		prb = append(prb, []byte("q"))
	}
	vloK, vhiK := params.Lower.UserKey, params.Upper.UserKey
	belowVHi := func(k []byte) bool { // k is inside or below the virtual bounds
		c := cmp(k, vhiK)
		return c < 0 || (c == 0 && !vb.Excl)
	}
	var ikb base.InternalKeyBounds
	ikb.SetInternalKeyBounds(params.Lower, params.Upper)
	renv := sstable.ReadEnv{Virtual: params, InternalBounds: &ikb}
	transforms := x.iter()

	newIter := func(lower, upper []byte) (sstable.Iterator, *failure) {
		var filterer *sstable.BlockPropertiesFilterer
		if x.Hide {
			// What fileCacheHandle.newPointIter does: the obsolete-key block property filter
			// accompanies HideObsoletePoints.
			hide, filters := r.TryAddBlockPropertyFilterForHideObsoletePoints(base.SeqNumMax, 100, nil)
			if !hide {
				return nil, &failure{"harness-error", "TryAddBlockPropertyFilterForHideObsoletePoints refused"}
			}
			var err error
			filterer, err = sstable.IntersectsTable(filters, nil, r.UserProperties, sstable.SyntheticSuffix(x.Suffix))
			if err != nil {
				return nil, &failure{"point-iter-error", "IntersectsTable: " + err.Error()}
			}
			if filterer == nil {
				// The file cache returns no point iterator at all: every point must be obsolete.
				if len(es) != 0 {
					return nil, &failure{"point-iter-mismatch", fmt.Sprintf("table-level obsolete filter excludes the table but the model has visible entries %s", visibleString(es))}
				}
				return nil, nil
			}
		}
		it, err := r.NewPointIter(context.Background(), sstable.IterOptions{
			Lower:                lower,
			Upper:                upper,
			Transforms:           transforms,
			Filterer:             filterer,
			FilterBlockSizeLimit: sstable.AlwaysUseFilterBlock,
			Env:                  renv,
			ReaderProvider:       sstable.MakeTrivialReaderProvider(r),
			BlobContext:          sstable.AssertNoBlobHandles,
		})
		if err != nil {
			return nil, &failure{"point-iter-error", "NewPointIter: " + err.Error()}
		}
		return it, nil
	}

	// Compaction iterator: First/Next over the whole virtual table.
	{
		it, err := r.NewCompactionIter(context.Background(), transforms, renv, sstable.MakeTrivialReaderProvider(r), sstable.AssertNoBlobHandles)
		if err != nil {
			return &failure{"point-iter-error", "NewCompactionIter: " + err.Error()}
		}
		p := &prober{e: e, es: es, lo: vlo, hi: vhi, it: it, ctxt: "compaction-iter"}
		p.start()
		ok := p.expect(it.First(), vlo, "First") && p.forwardFrom(vlo)
		if cerr := it.Close(); cerr != nil && ok {
			return &failure{"point-iter-error", "compaction iterator Close: " + cerr.Error()}
		}
		if !ok {
			p.fail.class = "compaction-" + p.fail.class
			return p.fail
		}
	}

	var it sstable.Iterator
	defer func() {
		if it != nil {
			it.Close()
		}
	}()
	pair := 0
	// Iterator bounds: nil, every position inside the virtual bounds, and on each side the nearest
	// position outside them (plus the keys without the synthetic prefix); bounds further outside
	// take the same ConstrainBounds branch as the nearest one. Pairs that do not overlap the
	// virtual bounds are not generated (ConstrainBounds assumes overlap).
	nearBelow, nearAbove := -1, -1
	for i, k := range ib {
		if cmp(k, vloK) < 0 {
			nearBelow = i
		}
		if cmp(k, vhiK) > 0 && nearAbove < 0 {
			nearAbove = i
		}
	}
	foreign := func(k []byte) bool { return x.Prefix != "" && !bytes.HasPrefix(k, []byte(x.Prefix)) }
	for li := -1; li < len(ib); li++ {
		var lower []byte
		if li >= 0 {
			lower = ib[li]
			if !belowVHi(lower) {
				continue
			}
			if cmp(lower, vloK) < 0 && li != nearBelow && !foreign(lower) {
				continue
			}
		}
		for ui := len(ib); ui > li; ui-- {
			var upper []byte
			if ui < len(ib) {
				upper = ib[ui]
				if cmp(upper, vloK) <= 0 {
					continue
				}
				if cmp(upper, vhiK) > 0 && ui != nearAbove && !foreign(upper) {
					continue
				}
			}
			lo, hi := vlo, vhi
			if lower != nil {
				lo = max(lo, lb(es, lower))
			}
			if upper != nil {
				hi = min(hi, lb(es, upper))
			}
			if hi < lo {
				hi = lo
			}
			// Alternate between a fresh iterator (bounds in IterOptions) and SetBounds on the
			// previous one, the two ways the DB hands bounds to a table iterator.
			mode := "new"
			if it != nil && pair%2 == 1 {
				it.SetBounds(lower, upper)
				mode = "setbounds"
			} else {
				if it != nil {
					if err := it.Close(); err != nil {
						return &failure{"point-iter-error", "Close: " + err.Error()}
					}
					it = nil
				}
				var f *failure
				it, f = newIter(lower, upper)
				if f != nil {
					return f
				}
				if it == nil {
					return nil // table excluded as a whole by the obsolete filter (model agrees)
				}
			}
			pair++
			p := &prober{e: e, es: es, lo: lo, hi: hi, it: it, mode: mode, lower: lower, upper: upper}
			if !e.probe(p, lower, upper, prb, vloK, belowVHi) {
				return p.fail
			}
		}
	}
	return nil
}

// probe runs the scans and seeks for one iterator-bound pair.
func (e *env) probe(p *prober, lower, upper []byte, prb [][]byte, vloK []byte, belowVHi func([]byte) bool) bool {
	it := p.it
	lo, hi := p.lo, p.hi
	es := p.es
	split := testkeys.Comparer.Split
	// Forward scan, then one step back from exhaustion.
	p.start()
	var kv *base.InternalKV
	if lower == nil {
		kv = it.First()
		if !p.expect(kv, lo, "First") {
			return false
		}
	} else {
		kv = it.SeekGE(lower, base.SeekGEFlagsNone)
		if !p.expectK(kv, lo, "SeekGE", lower, false) {
			return false
		}
	}
	if !p.forwardFrom(lo) {
		return false
	}
	if !p.expect(it.Prev(), hi-1, "Prev") {
		return false
	}
	// Backward scan, then one step forward from exhaustion.
	p.start()
	if upper == nil {
		kv = it.Last()
		if !p.expect(kv, hi-1, "Last") {
			return false
		}
	} else {
		kv = it.SeekLT(upper, base.SeekLTFlagsNone)
		if !p.expectK(kv, hi-1, "SeekLT", upper, false) {
			return false
		}
	}
	if !p.backwardFrom(hi - 1) {
		return false
	}
	if !p.expect(it.Next(), lo, "Next") {
		return false
	}
	for _, k := range prb {
		if lower != nil && cmp(k, lower) < 0 {
			continue
		}
		if upper != nil && cmp(k, upper) > 0 {
			continue
		}
		ge := max(lo, lb(es, k)) // first visible entry >= k
		if ge > hi {
			ge = hi
		}
		lt := min(hi, lb(es, k)) - 1 // last visible entry < k
		if lt < lo-1 {
			lt = lo - 1
		}
		// SeekGE + Next*.
		p.start()
		if !p.expectK(it.SeekGE(k, base.SeekGEFlagsNone), ge, "SeekGE", k, false) {
			return false
		}
		if ge < hi && !p.forwardFrom(ge) {
			return false
		}
		// SeekGE + Prev (only for seek keys a caller that respects the table bounds can use).
		if belowVHi(k) {
			p.start()
			if !p.expectK(it.SeekGE(k, base.SeekGEFlagsNone), ge, "SeekGE", k, false) {
				return false
			}
			if !p.expect(it.Prev(), ge-1, "Prev") {
				return false
			}
		}
		// SeekGE + NextPrefix + Next.
		if ge < hi {
			p.start()
			if !p.expectK(it.SeekGE(k, base.SeekGEFlagsNone), ge, "SeekGE", k, false) {
				return false
			}
			succ := append(append([]byte{}, es[ge].uk[:split(es[ge].uk)]...), 0) // testkeys ImmediateSuccessor of the prefix
			np := min(hi, lb(es, succ))
			if !p.expectK(it.NextPrefix(succ), np, "NextPrefix", succ, false) {
				return false
			}
			if np < hi && !p.expect(it.Next(), np+1, "Next") {
				return false
			}
		}
		// SeekLT + Prev*.
		p.start()
		if !p.expectK(it.SeekLT(k, base.SeekLTFlagsNone), lt, "SeekLT", k, false) {
			return false
		}
		if lt >= lo && !p.backwardFrom(lt) {
			return false
		}
		// SeekLT + Next.
		if cmp(k, vloK) > 0 {
			p.start()
			if !p.expectK(it.SeekLT(k, base.SeekLTFlagsNone), lt, "SeekLT", k, false) {
				return false
			}
			if !p.expect(it.Next(), lt+1, "Next") {
				return false
			}
		}
		// SeekPrefixGE + Next* inside the prefix. Not generated when the seek key is below the
		// virtual lower bound and that bound has a different prefix: levelIter.loadFile never
		// hands a table a prefix smaller than the prefix of the table's smallest key, and after
		// the internal clamp to the lower bound the block iterator matches against the bound's
		// prefix (the InternalIterator contract lets SeekPrefixGE return other prefixes).
		prefix := k[:split(k)]
		if cmp(k, vloK) < 0 && !bytes.Equal(vloK[:split(vloK)], prefix) {
			continue
		}
		pge := ge
		if pge < hi && !bytes.Equal(es[pge].uk[:split(es[pge].uk)], prefix) {
			pge = hi
		}
		p.start()
		if !p.expectK(it.SeekPrefixGE(prefix, k, base.SeekGEFlagsNone), pge, "SeekPrefixGE", k, false) {
			return false
		}
		for j := pge; j < hi; {
			j++
			want := j
			if j < hi && !bytes.Equal(es[j].uk[:split(es[j].uk)], prefix) {
				want = hi
			}
			if !p.expect(it.Next(), want, "Next") {
				return false
			}
			if want == hi {
				break
			}
		}
	}
	// Monotone seek chains with TrySeekUsingNext (the caller promises that the iterator is not
	// positioned beyond the first key >= the new seek key; true for ascending seek keys).
	p.start()
	flags := base.SeekGEFlagsNone
	for _, k := range prb {
		if (lower != nil && cmp(k, lower) < 0) || (upper != nil && cmp(k, upper) > 0) {
			continue
		}
		ge := min(hi, max(lo, lb(es, k)))
		if !p.expectK(it.SeekGE(k, flags), ge, "SeekGE", k, flags.TrySeekUsingNext()) {
			return false
		}
		flags = base.SeekGEFlagsNone.EnableTrySeekUsingNext()
	}
	p.start()
	flags = base.SeekGEFlagsNone
	for _, k := range prb {
		if (lower != nil && cmp(k, lower) < 0) || (upper != nil && cmp(k, upper) > 0) {
			continue
		}
		prefix := k[:split(k)]
		if cmp(k, vloK) < 0 && !bytes.Equal(vloK[:split(vloK)], prefix) {
			continue
		}
		pge := min(hi, max(lo, lb(es, k)))
		if pge < hi && !bytes.Equal(es[pge].uk[:split(es[pge].uk)], prefix) {
			pge = hi
		}
		if !p.expectK(it.SeekPrefixGE(prefix, k, flags), pge, "SeekPrefixGE", k, flags.TrySeekUsingNext()) {
			return false
		}
		flags = base.SeekGEFlagsNone.EnableTrySeekUsingNext()
	}
	return true
}
