package c29

import (
	"context"
	"fmt"
	"sort"
	"strings"
	"sync/atomic"

	"github.com/cockroachdb/pebble/internal/base"
	"github.com/cockroachdb/pebble/internal/cache"
	"github.com/cockroachdb/pebble/internal/keyspan"
	"github.com/cockroachdb/pebble/internal/sstableinternal"
	"github.com/cockroachdb/pebble/internal/testkeys"
	"github.com/cockroachdb/pebble/internal/verif/vlib"
	"github.com/cockroachdb/pebble/objstorage"
	"github.com/cockroachdb/pebble/sstable"
	"github.com/cockroachdb/pebble/sstable/block"
	"github.com/cockroachdb/pebble/sstable/colblk"
	"github.com/cockroachdb/pebble/sstable/tablefilters/bloom"
)

var cmp = testkeys.Comparer.Compare
var keySchema = colblk.DefaultKeySchema(testkeys.Comparer, 16)

// Ent is one physical point entry.
type Ent struct {
	K     string
	Seq   uint64
	Kind  base.InternalKeyKind
	V     string
	Force bool // written with forceObsolete=true
}

func (e Ent) String() string {
	s := fmt.Sprintf("%s#%d,%s", e.K, e.Seq, e.Kind)
	if e.Force {
		s += "(obsolete)"
	}
	return s
}

// The point universe, simplest first. Prefix a has two versions (a@5, a@3; a@3 is written with
// forceObsolete as if a range tombstone of the same table covered it), prefix b has an unsuffixed
// key and a suffixed tombstone, user key c@5 has two internal keys (the older one is marked obsolete
// by the writer), prefix d has a MERGE. The quick tier uses the first quickN entries.
var universe = []Ent{
	{K: "a@5", Seq: 5, Kind: base.InternalKeyKindSet, V: "0"},
	{K: "b", Seq: 7, Kind: base.InternalKeyKindSet, V: "1"},
	{K: "c@5", Seq: 9, Kind: base.InternalKeyKindSet, V: "2"},
	{K: "a@3", Seq: 4, Kind: base.InternalKeyKindSet, V: "3", Force: true},
	{K: "c@5", Seq: 2, Kind: base.InternalKeyKindSet, V: "4"},
	{K: "b@4", Seq: 6, Kind: base.InternalKeyKindDelete},
	{K: "d@2", Seq: 3, Kind: base.InternalKeyKindMerge, V: "6"},
}

const quickN = 6

const synSuffix = "@9" // sorts before every suffix of the universe
const synPrefix = "p"
const synSeq = 15

var formats = []string{"v8", "v4"}

func tableFormat(s string) sstable.TableFormat {
	if s == "v4" {
		return sstable.TableFormatPebblev4 // newest row-oriented format; first format with virtual tables
	}
	return sstable.TableFormatMax // newest columnar format
}

type layout struct {
	Name         string
	Block, Index int
}

var layoutMenu = []layout{
	{"one-block", 4096, 4096},
	{"entry-per-block", 1, 4096},
	{"entry-per-block-two-level-index", 1, 1},
	{"two-entries-per-block", 44, 4096},
}

// SpanSpec is one fragment of a range-del or range-key menu entry.
type SpanSpec struct {
	Start, End string
	Keys       []SpanKey
}
type SpanKey struct {
	Seq    uint64
	Kind   base.InternalKeyKind
	Suffix string
	Value  string
}

var rdMenu = [][]SpanSpec{
	nil,
	{{"a@3", "c", []SpanKey{{Seq: 8, Kind: base.InternalKeyKindRangeDelete}}}},
	{
		{"a@5", "b", []SpanKey{{Seq: 6, Kind: base.InternalKeyKindRangeDelete}}},
		{"b", "d", []SpanKey{{Seq: 8, Kind: base.InternalKeyKindRangeDelete}, {Seq: 6, Kind: base.InternalKeyKindRangeDelete}}},
	},
}

var rkMenu = [][]SpanSpec{
	nil,
	{{"a@3", "c", []SpanKey{{Seq: 7, Kind: base.InternalKeyKindRangeKeySet, Suffix: "@3", Value: "x"}}}},
	{{"b", "c@5", []SpanKey{
		{Seq: 9, Kind: base.InternalKeyKindRangeKeySet, Suffix: "@4", Value: "y"},
		{Seq: 6, Kind: base.InternalKeyKindRangeKeySet, Suffix: "", Value: "z"},
		{Seq: 3, Kind: base.InternalKeyKindRangeKeyDelete},
	}}},
	{
		{"b", "c@5", []SpanKey{
			{Seq: 9, Kind: base.InternalKeyKindRangeKeySet, Suffix: "@4", Value: "y"},
			{Seq: 5, Kind: base.InternalKeyKindRangeKeyUnset, Suffix: "@2"},
		}},
		{"c@5", "d", []SpanKey{{Seq: 4, Kind: base.InternalKeyKindRangeKeyDelete}}},
	},
}

func rkHasUnset(i int) bool {
	for _, s := range rkMenu[i] {
		for _, k := range s.Keys {
			if k.Kind == base.InternalKeyKindRangeKeyUnset {
				return true
			}
		}
	}
	return false
}

// TableSpec identifies a physical table.
type TableSpec struct {
	Mask   uint32 `json:"mask"` // subset of universe
	RD     int    `json:"rd"`   // rdMenu index
	RK     int    `json:"rk"`   // rkMenu index
	Layout int    `json:"layout"`
	Format string `json:"format"`
	// NoValBlk disables value blocks (used by the copy tables: CopySpan copies a table with value
	// blocks as a whole file, and the older c@5 version would otherwise go to a value block).
	NoValBlk bool `json:"novalblk,omitempty"`
	// Deep adds three more versions of user key c@5 (sequence numbers 8, 7, 6): with one entry per
	// block a single user key then spans up to five data blocks whose index separators are all
	// that user key - the case in which positioning at an inclusive virtual bound has to step over
	// several index entries.
	Deep bool `json:"deep,omitempty"`
}

var deepVersions = []Ent{
	{K: "c@5", Seq: 8, Kind: base.InternalKeyKindSet, V: "7"},
	{K: "c@5", Seq: 7, Kind: base.InternalKeyKindDelete},
	{K: "c@5", Seq: 6, Kind: base.InternalKeyKindSet, V: "8"},
}

func (ts TableSpec) ents() []Ent {
	var out []Ent
	for i, e := range universe {
		if ts.Mask&(1<<uint(i)) != 0 {
			out = append(out, e)
		}
	}
	if ts.Deep {
		out = append(out, deepVersions...)
	}
	sort.SliceStable(out, func(i, j int) bool {
		if c := cmp([]byte(out[i].K), []byte(out[j].K)); c != 0 {
			return c < 0
		}
		return out[i].Seq > out[j].Seq
	})
	return out
}

func (ts TableSpec) String() string {
	var parts []string
	for _, e := range ts.ents() {
		parts = append(parts, e.String())
	}
	s := fmt.Sprintf("table{%s", strings.Join(parts, " "))
	if ts.RD != 0 {
		s += fmt.Sprintf(" rangedel=%v", spanStrings(rdMenu[ts.RD]))
	}
	if ts.RK != 0 {
		s += fmt.Sprintf(" rangekey=%v", spanStrings(rkMenu[ts.RK]))
	}
	if ts.NoValBlk {
		s += " no-value-blocks"
	}
	if ts.Deep {
		s += " deep"
	}
	return s + fmt.Sprintf(" %s %s}", ts.Format, layoutMenu[ts.Layout].Name)
}

func spanStrings(ss []SpanSpec) []string {
	var out []string
	for _, s := range ss {
		var ks []string
		for _, k := range s.Keys {
			ks = append(ks, fmt.Sprintf("#%d,%s,%q=%q", k.Seq, k.Kind, k.Suffix, k.Value))
		}
		out = append(out, fmt.Sprintf("[%s,%s){%s}", s.Start, s.End, strings.Join(ks, " ")))
	}
	return out
}

// singleVersion reports whether no two entries share a prefix (precondition 1 of a synthetic suffix).
func (ts TableSpec) singleVersion() bool {
	seen := map[string]bool{}
	for _, e := range ts.ents() {
		p := string(testkeys.Comparer.Split.Prefix([]byte(e.K)))
		if seen[p] {
			return false
		}
		seen[p] = true
	}
	return true
}

// dupUserKey reports whether two entries share a user key.
func (ts TableSpec) dupUserKey() bool {
	es := ts.ents()
	for i := 1; i < len(es); i++ {
		if es[i].K == es[i-1].K {
			return true
		}
	}
	return false
}

func toSpan(s SpanSpec) keyspan.Span {
	sp := keyspan.Span{Start: []byte(s.Start), End: []byte(s.End)}
	for _, k := range s.Keys {
		kk := keyspan.Key{Trailer: base.MakeTrailer(base.SeqNum(k.Seq), k.Kind)}
		if k.Suffix != "" {
			kk.Suffix = []byte(k.Suffix)
		}
		if k.Value != "" {
			kk.Value = []byte(k.Value)
		}
		sp.Keys = append(sp.Keys, kk)
	}
	return sp
}

func writerOptions(ts TableSpec) sstable.WriterOptions {
	l := layoutMenu[ts.Layout]
	return sstable.WriterOptions{
		Comparer:       testkeys.Comparer,
		KeySchema:      &keySchema,
		TableFormat:    tableFormat(ts.Format),
		BlockSize:      l.Block,
		IndexBlockSize: l.Index,
		FilterPolicy:   bloom.FilterPolicy(10),
		Compression:    sstable.NoCompression,

		DisableValueBlocks: ts.NoValBlk,
	}
}

// buildTable writes the physical table with the raw writer (internal keys with their own sequence
// numbers, as a flush or compaction would).
func buildTable(ts TableSpec) (*objstorage.MemObj, error) {
	obj := &objstorage.MemObj{}
	w := sstable.NewRawWriter(obj, writerOptions(ts))
	for _, e := range ts.ents() {
		var v []byte
		if e.V != "" {
			v = []byte(e.V)
		}
		if err := w.Add(base.MakeInternalKey([]byte(e.K), base.SeqNum(e.Seq), e.Kind), v, e.Force, base.KVMeta{}); err != nil {
			return nil, err
		}
	}
	for _, s := range rdMenu[ts.RD] {
		if err := w.EncodeSpan(toSpan(s)); err != nil {
			return nil, err
		}
	}
	for _, s := range rkMenu[ts.RK] {
		if err := w.EncodeSpan(toSpan(s)); err != nil {
			return nil, err
		}
	}
	if err := w.Close(); err != nil {
		return nil, err
	}
	return obj, nil
}

var nextFileNum atomic.Uint64

// env is the per-worker environment: a block cache and the tier's position universe.
type env struct {
	c        *vlib.Ctx
	thorough bool
	verbose  bool
	sample   bool
	cache    *cache.Cache
	ch       *cache.Handle
	trans    int
	ops      []opRec // point-iterator calls since the last absolute positioning (for descriptions)
}

func newEnv(c *vlib.Ctx, thorough bool) *env {
	e := &env{c: c, thorough: thorough}
	e.cache = cache.NewWithShards(4<<20, 1)
	e.ch = e.cache.NewHandle()
	return e
}

func (e *env) close() {
	e.ch.Close()
	e.cache.Unref()
}

func (e *env) tierName() string {
	if e.thorough {
		return "thorough"
	}
	return "quick"
}

func (e *env) logf(format string, args ...any) {
	if e.verbose {
		fmt.Printf(format+"\n", args...)
	}
}

// openReader opens a reader over obj under a fresh file number (a fresh block-cache namespace).
func (e *env) openReader(obj *objstorage.MemObj) (*sstable.Reader, error) {
	opts := sstable.ReaderOptions{
		Comparer:       testkeys.Comparer,
		KeySchemas:     sstable.KeySchemas{keySchema.Name: &keySchema},
		FilterDecoders: []base.TableFilterDecoder{bloom.Decoder},
		ReaderOptions: block.ReaderOptions{
			CacheOpts: sstableinternal.CacheOptions{
				CacheHandle: e.ch,
				FileNum:     base.DiskFileNum(nextFileNum.Add(1)),
			},
		},
	}
	return sstable.NewReader(context.Background(), obj, opts)
}

func catch(class string, f func() *failure) (out *failure) {
	defer func() {
		if r := recover(); r != nil {
			out = &failure{class: class, desc: fmt.Sprintf("panic: %v", r)}
		}
	}()
	return f()
}
