package c29

import (
	"bytes"
	"context"
	"errors"
	"fmt"
	"strings"

	"github.com/cockroachdb/pebble/internal/base"
	"github.com/cockroachdb/pebble/internal/keyspan"
	"github.com/cockroachdb/pebble/internal/verif/vlib"
	"github.com/cockroachdb/pebble/objstorage"
	"github.com/cockroachdb/pebble/sstable"
)

func (e *env) runCopyTable(ts TableSpec, idx int) {
	c := e.c
	obj, err := buildTable(ts)
	if err != nil {
		c.Violation("build-error", fmt.Sprintf("%s: %v", ts, err), Case{Part: "copy", Tier: e.tierName(), Tab: ts})
		return
	}
	n := len(ts.ents())
	pos := positionsFor(e.thorough, "")
	// Block-cache residency: CopySpan copies cached blocks one by one and runs of uncached blocks
	// with one read. With one entry per block every subset of blocks is made resident; the other
	// layouts are tried cold and fully warm.
	var warms []uint32
	if ts.Layout == 1 && ts.RD == 0 && ts.RK == 0 && ts.NoValBlk {
		for w := uint32(0); w < 1<<uint(n); w++ {
			warms = append(warms, w)
		}
	} else {
		warms = []uint32{0, 1<<uint(n) - 1}
	}
	k := 0
	for _, warm := range warms {
		for i := range pos.bnd {
			for j := i + 1; j < len(pos.bnd); j++ {
				cs := Case{Part: "copy", Tier: e.tierName(), Tab: ts, Warm: warm, Start: pos.bnd[i], End: pos.bnd[j]}
				e.trans = 0
				var res copyResult
				f := catch("copyspan-panic", func() *failure {
					var f *failure
					res, f = e.copyCaseRes(obj, ts, warm, cs.Start, cs.End)
					return f
				})
				c.Eval(1)
				c.Trans(e.trans)
				c.State(vlib.Hash("copy", res.out))
				if res.inSpan > 0 && res.inSpan < n {
					c.Nontrivial(vlib.Hash("copy", ts.Mask, ts.Layout, ts.Format, warm, cs.Start, cs.End))
				}
				switch {
				case f != nil:
					c.Violation(f.class, fmt.Sprintf("%s: %s", cs, f.desc), cs)
					c.Outcome("copy:" + f.class)
				case res.emptySpanErr:
					c.Outcome("copy:ErrEmptySpan-and-span-empty")
				case res.whole:
					c.Outcome("copy:whole-file-copied")
				case res.extra == 0:
					c.Outcome("copy:exact")
				default:
					c.Outcome("copy:superset")
				}
				if res.endKeyMissed != "" {
					// Informational: CopySpan documents [start,end); the copy compaction passes
					// the virtual table's Largest() (inclusive when it is a point key).
					c.Outcome("copy:info-entry-with-user-key-equal-to-end-not-copied")
					c.Note("info_end_key_not_copied_example", fmt.Sprintf("%s: %s", cs, res.endKeyMissed))
				}
				if k++; e.sample && k > 41 && res.inSpan > 0 && (res.inSpan < n || n == 1) {
					e.sample = false
					c.Sample(map[string]any{"case": cs.String(), "output": res.out})
				}
			}
		}
	}
}

type copyResult struct {
	out          string // output entries
	inSpan       int    // input entries inside [start,end)
	extra        int    // output entries outside the span
	emptySpanErr bool
	whole        bool
	endKeyMissed string
}

func (e *env) copyCase(obj *objstorage.MemObj, ts TableSpec, warm uint32, start, end string) *failure {
	_, f := e.copyCaseRes(obj, ts, warm, start, end)
	return f
}

type pent struct {
	uk      []byte
	trailer base.InternalKeyTrailer
	val     []byte
}

func (p pent) String() string {
	return fmt.Sprintf("%s#%d,%s=%q", p.uk, p.trailer.SeqNum(), p.trailer.Kind(), p.val)
}

func (e *env) readAll(r *sstable.Reader) ([]pent, error) {
	it, err := r.NewIter(sstable.NoTransforms, nil, nil, sstable.AssertNoBlobHandles)
	if err != nil {
		return nil, err
	}
	var out []pent
	for kv := it.First(); kv != nil; kv = it.Next() {
		e.trans++
		v, _, err := kv.Value(nil)
		if err != nil {
			it.Close()
			return nil, err
		}
		out = append(out, pent{uk: bytes.Clone(kv.K.UserKey), trailer: kv.K.Trailer, val: bytes.Clone(v)})
	}
	if err := it.Error(); err != nil {
		it.Close()
		return nil, err
	}
	return out, it.Close()
}

func readSpans(it keyspan.FragmentIterator, err error) (string, error) {
	if err != nil {
		return "", err
	}
	if it == nil {
		return "", nil
	}
	defer it.Close()
	var parts []string
	s, err := it.First()
	for ; s != nil; s, err = it.Next() {
		parts = append(parts, spanStr(s))
	}
	return strings.Join(parts, " "), err
}

func (e *env) copyCaseRes(obj *objstorage.MemObj, ts TableSpec, warm uint32, start, end string) (res copyResult, _ *failure) {
	ents := ts.ents()
	r, err := e.openReader(obj)
	if err != nil {
		return res, &failure{"open-error", err.Error()}
	}
	defer r.Close()
	if warm != 0 {
		it, err := r.NewIter(sstable.NoTransforms, nil, nil, sstable.AssertNoBlobHandles)
		if err != nil {
			return res, &failure{"open-error", err.Error()}
		}
		for i, en := range ents {
			if warm&(1<<uint(i)) == 0 {
				continue
			}
			kv := it.SeekGE([]byte(en.K), base.SeekGEFlagsNone)
			for kv != nil && !(string(kv.K.UserKey) == en.K && uint64(kv.K.SeqNum()) == en.Seq) {
				kv = it.Next()
			}
			if kv == nil {
				it.Close()
				return res, &failure{"harness-error", "warm-up did not find " + en.String()}
			}
		}
		it.Close()
	}
	inSpan := func(uk []byte) bool { return cmp(uk, []byte(start)) >= 0 && cmp(uk, []byte(end)) < 0 }
	for _, en := range ents {
		if inSpan([]byte(en.K)) {
			res.inSpan++
		}
	}
	out := &objstorage.MemObj{}
	wo := writerOptions(ts)
	// As runCopyCompaction passes them: the smallest key of the virtual table and an exclusive
	// upper bound. CopySpan only uses the user keys.
	size, err := sstable.CopySpan(context.Background(), obj, r, 0, out, wo,
		base.MakeInternalKey([]byte(start), 0, base.InternalKeyKindMaxForSSTable),
		base.MakeRangeDeleteSentinelKey([]byte(end)))
	e.trans++
	if err != nil {
		if errors.Is(err, sstable.ErrEmptySpan) {
			e.logf("    CopySpan -> ErrEmptySpan (span holds %d input entries)", res.inSpan)
			res.out = "ErrEmptySpan"
			res.emptySpanErr = true
			if res.inSpan != 0 {
				return res, &failure{"copyspan-empty-span-error-for-nonempty-span", fmt.Sprintf("ErrEmptySpan although %d input entries lie in the span", res.inSpan)}
			}
			return res, nil
		}
		return res, &failure{"copyspan-error", err.Error()}
	}
	if int(size) != len(out.Data()) {
		return res, &failure{"copyspan-size", fmt.Sprintf("returned size %d, object has %d bytes", size, len(out.Data()))}
	}
	r2, err := e.openReader(out)
	if err != nil {
		return res, &failure{"copyspan-output-unreadable", "open: " + err.Error()}
	}
	defer r2.Close()
	got, err := e.readAll(r2)
	if err != nil {
		return res, &failure{"copyspan-output-unreadable", "scan: " + err.Error()}
	}
	var gs []string
	for _, g := range got {
		gs = append(gs, g.String())
	}
	res.out = strings.Join(gs, " ")
	e.logf("    CopySpan -> %d bytes, output {%s}", size, res.out)
	// Output is strictly increasing and a subset of the input.
	for i := 1; i < len(got); i++ {
		if base.InternalCompare(cmp, base.InternalKey{UserKey: got[i-1].uk, Trailer: got[i-1].trailer}, base.InternalKey{UserKey: got[i].uk, Trailer: got[i].trailer}) >= 0 {
			return res, &failure{"copyspan-output-order", fmt.Sprintf("output not strictly increasing: {%s}", res.out)}
		}
	}
	find := func(en Ent) bool {
		for _, g := range got {
			if string(g.uk) == en.K && uint64(g.trailer.SeqNum()) == en.Seq && g.trailer.Kind() == en.Kind && string(g.val) == en.V {
				return true
			}
		}
		return false
	}
	for _, g := range got {
		ok := false
		for _, en := range ents {
			if string(g.uk) == en.K && uint64(g.trailer.SeqNum()) == en.Seq && g.trailer.Kind() == en.Kind && string(g.val) == en.V {
				ok = true
			}
		}
		if !ok {
			return res, &failure{"copyspan-foreign-entry", fmt.Sprintf("output entry %s is not an entry of the input; output {%s}", g, res.out)}
		}
		if !inSpan(g.uk) {
			res.extra++
		}
	}
	for _, en := range ents {
		if inSpan([]byte(en.K)) && !find(en) {
			return res, &failure{"copyspan-missing-entry", fmt.Sprintf("input entry %s lies in the span but is not in the output {%s}", en, res.out)}
		}
	}
	// Informational: versions of the user key equal to the end key split by the copy (a newer
	// version copied, an older one not). Irrelevant for the documented half-open span.
	copiedAtEnd := false
	for _, en := range ents {
		if en.K != end {
			continue
		}
		if find(en) {
			copiedAtEnd = true
		} else if copiedAtEnd && res.endKeyMissed == "" {
			res.endKeyMissed = fmt.Sprintf("entry %s (user key = end key) not in output {%s} although a newer version of the key is", en, res.out)
		}
	}
	if ts.RD != 0 || ts.RK != 0 || r.Attributes.Has(sstable.AttributeValueBlocks) {
		// Unsupported features: documented to copy the whole file.
		res.whole = true
		if len(got) != len(ents) {
			return res, &failure{"copyspan-missing-entry", fmt.Sprintf("whole-file copy has %d of %d entries", len(got), len(ents))}
		}
		for _, kind := range []string{"rangedel", "rangekey"} {
			var a, b string
			var ea, eb error
			if kind == "rangedel" {
				a, ea = readSpans(r.NewRawRangeDelIter(context.Background(), sstable.NoFragmentTransforms, sstable.NoReadEnv))
				b, eb = readSpans(r2.NewRawRangeDelIter(context.Background(), sstable.NoFragmentTransforms, sstable.NoReadEnv))
			} else {
				a, ea = readSpans(r.NewRawRangeKeyIter(context.Background(), sstable.NoFragmentTransforms, sstable.NoReadEnv))
				b, eb = readSpans(r2.NewRawRangeKeyIter(context.Background(), sstable.NoFragmentTransforms, sstable.NoReadEnv))
			}
			if ea != nil || eb != nil || a != b {
				return res, &failure{"copyspan-spans-differ", fmt.Sprintf("%s spans: input {%s} err=%v, output {%s} err=%v", kind, a, ea, b, eb)}
			}
		}
	}
	return res, nil
}
