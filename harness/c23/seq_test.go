package c23

// Part (b): sequences of edits that are valid to apply in order. The same sequence is applied
//   P1  one edit at a time (Accumulate + Apply per edit, as versionSet.UpdateVersionLocked does),
//   P2  accumulated into one BulkVersionEdit and applied once,
//   P3  encoded, decoded and accumulated into one BulkVersionEdit with AllAddedTables set, applied
//       once (what recoverVersion does when it replays a MANIFEST),
// and the three resulting versions must be identical and must match a small placement model.

import (
	"bytes"
	"fmt"
	"sort"
	"strings"

	"github.com/cockroachdb/pebble/internal/base"
	"github.com/cockroachdb/pebble/internal/manifest"
)

// Atom is one elementary change. Tables 1..3 are physical (1 plain, 2 with range keys, 3 with a
// reference to blob file B7); table t+3 is the virtual table created by virtualizing table t.
type Atom struct {
	K string `json:"k"`
	T int    `json:"t,omitempty"`
	L int    `json:"l,omitempty"`
}

func (a Atom) String() string {
	switch a.K {
	case "add", "move":
		return fmt.Sprintf("%s(%d,L%d)", a.K, a.T, a.L)
	case "del", "virt", "rmback", "mark":
		return fmt.Sprintf("%s(%d)", a.K, a.T)
	}
	return a.K
}

// universe of atoms, simplest first; the atoms of one edit appear in this order.
var atomUniverse = func() []Atom {
	var u []Atom
	for _, t := range []int{1, 2} {
		for l := 0; l < 3; l++ {
			u = append(u, Atom{K: "add", T: t, L: l})
		}
	}
	u = append(u, Atom{K: "newblob"})
	for l := 0; l < 3; l++ {
		u = append(u, Atom{K: "add", T: 3, L: l})
	}
	for t := 1; t <= 6; t++ {
		u = append(u, Atom{K: "del", T: t})
	}
	for t := 1; t <= 6; t++ {
		for l := 0; l < 3; l++ {
			u = append(u, Atom{K: "move", T: t, L: l})
		}
	}
	for t := 1; t <= 6; t++ {
		u = append(u, Atom{K: "mark", T: t})
	}
	for t := 1; t <= 3; t++ {
		u = append(u, Atom{K: "virt", T: t})
	}
	for t := 1; t <= 3; t++ {
		u = append(u, Atom{K: "rmback", T: t})
	}
	u = append(u, Atom{K: "delblob"}, Atom{K: "replblob"}, Atom{K: "scalars"})
	return u
}()

type mstate struct {
	lvl      [7]int8 // level of a present table, -1 if absent
	ever     [7][3]bool
	used     [7]bool
	back     [4]int8 // backing of table t: 0 never created, 1 live, 2 removed
	blob     int8    // physical file number of B7 (7, 8, 9), 0 if absent
	blobEver bool
	marked   [7]bool
}

func initialState() mstate {
	var s mstate
	for i := range s.lvl {
		s.lvl[i] = -1
	}
	return s
}

// per-edit context for the "same edit" preconditions
type editCtx struct {
	touched     [7]bool
	blobTouched bool
	backTouched [4]bool
}

func refsBlob(t int) bool { return t == 3 || t == 6 }

func (s *mstate) valid(a Atom, c *editCtx) bool {
	if a.T > 0 && a.K != "rmback" && c.touched[a.T] {
		return false // one change per table per edit (covers "not added and removed at a level in one edit")
	}
	switch a.K {
	case "add":
		if s.used[a.T] {
			return false // file numbers are never reused
		}
		return a.T != 3 || s.blob != 0 // a referenced blob file must exist
	case "del":
		return s.lvl[a.T] >= 0
	case "move":
		return s.lvl[a.T] >= 0 && int(s.lvl[a.T]) != a.L && !s.ever[a.T][a.L] // never added to a level twice
	case "mark":
		return s.lvl[a.T] >= 0 && !s.marked[a.T]
	case "virt":
		return s.lvl[a.T] >= 0 && s.back[a.T] == 0 && !c.touched[a.T+3]
	case "rmback":
		// only after a prior edit created it, not in the edit that creates it, and unused
		return s.back[a.T] == 1 && !c.backTouched[a.T] && s.lvl[a.T+3] < 0
	case "newblob":
		return !s.blobEver && !c.blobTouched
	case "delblob":
		return s.blob != 0 && !c.blobTouched && s.lvl[3] < 0 && s.lvl[6] < 0
	case "replblob":
		return s.blob != 0 && s.blob < 9 && !c.blobTouched
	case "scalars":
		return true
	}
	return false
}

func (s *mstate) apply(a Atom, c *editCtx) {
	if a.T > 0 && a.K != "rmback" {
		c.touched[a.T] = true
	}
	switch a.K {
	case "add":
		s.used[a.T], s.lvl[a.T], s.ever[a.T][a.L] = true, int8(a.L), true
	case "del":
		s.lvl[a.T], s.marked[a.T] = -1, false
	case "move":
		s.lvl[a.T], s.ever[a.T][a.L], s.marked[a.T] = int8(a.L), true, false
	case "mark":
		s.marked[a.T] = true
	case "virt":
		v := a.T + 3
		c.touched[v], c.backTouched[a.T] = true, true
		s.used[v], s.lvl[v], s.ever[v][s.lvl[a.T]] = true, s.lvl[a.T], true
		s.lvl[a.T], s.marked[a.T], s.back[a.T] = -1, false, 1
	case "rmback":
		s.back[a.T] = 2
		c.backTouched[a.T] = true
	case "newblob":
		s.blob, s.blobEver, c.blobTouched = 7, true, true
	case "delblob":
		s.blob, c.blobTouched = 0, true
	case "replblob":
		s.blob++
		c.blobTouched = true
	}
}

// validEdits lists the edits with at most maxAtoms atoms that are valid in state s.
func validEdits(s mstate, maxAtoms int) [][]Atom {
	var out [][]Atom
	for k := 1; k <= maxAtoms; k++ {
		var rec func(start int, st mstate, c editCtx, cur []Atom)
		rec = func(start int, st mstate, c editCtx, cur []Atom) {
			if len(cur) == k {
				out = append(out, append([]Atom(nil), cur...))
				return
			}
			for i := start; i < len(atomUniverse); i++ {
				a := atomUniverse[i]
				if !st.valid(a, &c) {
					continue
				}
				st2, c2 := st, c
				st2.apply(a, &c2)
				rec(i+1, st2, c2, append(cur, a))
			}
		}
		rec(0, s, editCtx{}, nil)
	}
	return out
}

func applyEditToState(s mstate, e []Atom) mstate {
	var c editCtx
	for _, a := range e {
		s.apply(a, &c)
	}
	return s
}

// enumSeqs lists every valid sequence of 1..depth edits from state s0; atomsAt[i] bounds the atoms of
// the i-th edit.
func enumSeqs(s0 mstate, atomsAt []int) [][][]Atom {
	var out [][][]Atom
	var rec func(s mstate, cur [][]Atom)
	rec = func(s mstate, cur [][]Atom) {
		if len(cur) > 0 {
			cp := make([][]Atom, len(cur))
			copy(cp, cur)
			out = append(out, cp)
		}
		if len(cur) == len(atomsAt) {
			return
		}
		for _, e := range validEdits(s, atomsAt[len(cur)]) {
			rec(applyEditToState(s, e), append(cur, e))
		}
	}
	rec(s0, nil)
	// shortest first
	sort.SliceStable(out, func(i, j int) bool { return len(out[i]) < len(out[j]) })
	return out
}

func seqString(seq [][]Atom) string {
	var es []string
	for _, e := range seq {
		var as []string
		for _, a := range e {
			as = append(as, a.String())
		}
		es = append(es, "{"+strings.Join(as, " ")+"}")
	}
	return strings.Join(es, " ; ")
}

// ---- building real edits ----

// world holds the in-memory objects of one execution path (metadata is reference counted and
// mutated by Apply, so paths never share objects).
type world struct {
	tables [7]*manifest.TableMetadata
	blob   *manifest.PhysicalBlobFile
	nedit  int
}

var tableSpan = [4][2]string{{}, {"a", "c"}, {"d", "f"}, {"h", "j"}}

func mkPhysical(t int) *manifest.TableMetadata {
	lo, hi := base.SeqNum(10*t), base.SeqNum(10*t+5)
	// CreationTime is non-zero as in production (see the newfile5-without-custom-fields finding of part (a)).
	m := &manifest.TableMetadata{TableNum: base.TableNum(t), Size: uint64(1000 * t), CreationTime: int64(1700000000 + t),
		SeqNums: base.SeqNumRange{Low: lo, High: hi}, LargestSeqNumAbsolute: hi}
	if t == 3 {
		m.BlobReferences = manifest.BlobReferences{{FileID: 7, ValueSize: 100, BackingValueSize: 100}}
		m.BlobReferenceDepth = 1
	}
	m.ExtendPointKeyBounds(cmp, ik(tableSpan[t][0], hi, base.InternalKeyKindSet), ik(tableSpan[t][1], lo, base.InternalKeyKindSet))
	if t == 2 {
		m.ExtendRangeKeyBounds(cmp, manifest.AnyRangeKeys, ik("d", lo, base.InternalKeyKindRangeKeySet),
			base.MakeExclusiveSentinelKey(base.InternalKeyKindRangeKeySet, []byte("g")))
	}
	m.InitPhysicalBacking()
	return m
}

// mkVirtual mirrors what excise produces: same seqnums, narrower bounds, blob references with a
// scaled ValueSize and the physical table's value size as BackingValueSize.
func mkVirtual(t int, phys *manifest.TableMetadata) *manifest.TableMetadata {
	m := &manifest.TableMetadata{TableNum: base.TableNum(t + 3), Size: phys.Size / 2, Virtual: true, CreationTime: int64(1700000100 + t),
		SeqNums: phys.SeqNums, LargestSeqNumAbsolute: phys.LargestSeqNumAbsolute}
	for _, r := range phys.BlobReferences {
		m.BlobReferences = append(m.BlobReferences, manifest.BlobReference{FileID: r.FileID, ValueSize: r.ValueSize / 2, BackingValueSize: r.ValueSize})
	}
	m.BlobReferenceDepth = phys.BlobReferenceDepth
	m.ExtendPointKeyBounds(cmp, ik(tableSpan[t][0], phys.SeqNums.High, base.InternalKeyKindSet),
		ik(tableSpan[t][0]+"m", phys.SeqNums.Low, base.InternalKeyKindSet))
	if t == 2 {
		m.ExtendRangeKeyBounds(cmp, manifest.AnyRangeKeys, ik("d", phys.SeqNums.Low, base.InternalKeyKindRangeKeySet),
			base.MakeExclusiveSentinelKey(base.InternalKeyKindRangeKeySet, []byte("e")))
	}
	m.AttachVirtualBacking(phys.TableBacking)
	return m
}

// buildSeqEdit turns the atoms of one edit into a VersionEdit built the way the engine builds
// in-memory edits (metadata pointers in DeletedTables / TablesMarkedForCompaction / DeletedBlobFiles).
func (w *world) buildSeqEdit(s mstate, e []Atom) *manifest.VersionEdit {
	ve := &manifest.VersionEdit{}
	w.nedit++
	del := func(level int, t int) {
		if ve.DeletedTables == nil {
			ve.DeletedTables = map[manifest.DeletedTableEntry]*manifest.TableMetadata{}
		}
		ve.DeletedTables[manifest.DeletedTableEntry{Level: level, FileNum: base.TableNum(t)}] = w.tables[t]
	}
	delBlob := func() {
		if ve.DeletedBlobFiles == nil {
			ve.DeletedBlobFiles = map[manifest.DeletedBlobFileEntry]*manifest.PhysicalBlobFile{}
		}
		ve.DeletedBlobFiles[manifest.DeletedBlobFileEntry{FileID: 7, FileNum: w.blob.FileNum}] = w.blob
	}
	var c editCtx
	for _, a := range e {
		switch a.K {
		case "add":
			w.tables[a.T] = mkPhysical(a.T)
			ve.NewTables = append(ve.NewTables, manifest.NewTableEntry{Level: a.L, Meta: w.tables[a.T]})
		case "del":
			del(int(s.lvl[a.T]), a.T)
		case "move":
			del(int(s.lvl[a.T]), a.T)
			ve.NewTables = append(ve.NewTables, manifest.NewTableEntry{Level: a.L, Meta: w.tables[a.T]})
		case "mark":
			ve.TablesMarkedForCompaction = append(ve.TablesMarkedForCompaction,
				manifest.TableMarkedForCompactionEntry{Level: int(s.lvl[a.T]), TableNum: base.TableNum(a.T), Meta: w.tables[a.T]})
		case "virt":
			phys := w.tables[a.T]
			del(int(s.lvl[a.T]), a.T)
			ve.CreatedBackingTables = append(ve.CreatedBackingTables, phys.TableBacking)
			w.tables[a.T+3] = mkVirtual(a.T, phys)
			ve.NewTables = append(ve.NewTables, manifest.NewTableEntry{Level: int(s.lvl[a.T]), Meta: w.tables[a.T+3]})
		case "rmback":
			ve.RemovedBackingTables = append(ve.RemovedBackingTables, base.DiskFileNum(a.T))
		case "newblob":
			w.blob = &manifest.PhysicalBlobFile{FileNum: 7, Size: 1000, ValueSize: 2000, CreationTime: 42}
			ve.NewBlobFiles = append(ve.NewBlobFiles, manifest.BlobFileMetadata{FileID: 7, Physical: w.blob})
		case "delblob":
			delBlob()
		case "replblob":
			// The replacement keeps the Size:ValueSize ratio: BlobReference.EstimatedPhysicalSize is
			// derived by Apply from whichever physical file is current at that moment and is an estimate.
			delBlob()
			w.blob = &manifest.PhysicalBlobFile{FileNum: w.blob.FileNum + 1, Size: w.blob.Size / 2, ValueSize: w.blob.ValueSize / 2, CreationTime: 43}
			ve.NewBlobFiles = append(ve.NewBlobFiles, manifest.BlobFileMetadata{FileID: 7, Physical: w.blob})
		case "scalars":
			ve.MinUnflushedLogNum = base.DiskFileNum(10 + w.nedit)
			ve.NextFileNum = uint64(100 + w.nedit)
			ve.LastSeqNum = base.SeqNum(1000 + w.nedit)
		}
		s.apply(a, &c)
	}
	return ve
}

// ---- comparing versions ----

type backingFold struct {
	live        map[base.DiskFileNum]bool
	removedBase []base.DiskFileNum
}

func (f *backingFold) add(bve *manifest.BulkVersionEdit) {
	if f.live == nil {
		f.live = map[base.DiskFileNum]bool{}
	}
	for n := range bve.AddedFileBacking {
		f.live[n] = true
	}
	for _, n := range bve.RemovedFileBacking {
		if f.live[n] {
			delete(f.live, n)
		} else {
			f.removedBase = append(f.removedBase, n)
		}
	}
}

func (f *backingFold) String() string {
	var l []int
	for n := range f.live {
		l = append(l, int(n))
	}
	sort.Ints(l)
	var r []int
	for _, n := range f.removedBase {
		r = append(r, int(n))
	}
	sort.Ints(r)
	return fmt.Sprintf("backings created+live=%v removed-from-base=%v", l, r)
}

func dumpVersion(v *manifest.Version) string {
	var b strings.Builder
	for l := 0; l < manifest.NumLevels; l++ {
		lm := &v.Levels[l]
		if lm.Len() == 0 && v.RangeKeyLevels[l].Len() == 0 {
			continue
		}
		fmt.Fprintf(&b, "L%d: n=%d tableSize=%d aggSize=%d refSize=%d virtual=%+v\n", l, lm.Len(), lm.TableSize(), lm.AggregateSize(),
			lm.EstimatedReferenceSize(), lm.VirtualTables())
		for t := range lm.All() {
			fmt.Fprintf(&b, "  %s est=[", canonTable(t, 0))
			for _, r := range t.BlobReferences {
				fmt.Fprintf(&b, "%d ", r.EstimatedPhysicalSize)
			}
			b.WriteString("]")
			if t.Virtual && t.TableBacking != nil {
				fmt.Fprintf(&b, " backing(size=%d blobTotal=%d)", t.TableBacking.Size, t.TableBacking.ReferencedBlobValueSizeTotal)
			}
			b.WriteString("\n")
		}
		b.WriteString("  range-key tables:")
		for t := range v.RangeKeyLevels[l].All() {
			fmt.Fprintf(&b, " %d", uint64(t.TableNum))
		}
		b.WriteString("\n")
	}
	for f := range v.BlobFiles.All() {
		fmt.Fprintf(&b, "blob %d phys=%d size=%d vals=%d ctime=%d\n", uint64(f.FileID), uint64(f.Physical.FileNum), f.Physical.Size, f.Physical.ValueSize, f.Physical.CreationTime)
	}
	for m, l := range v.MarkedForCompaction.Ascending() {
		fmt.Fprintf(&b, "marked L%d.%d\n", l, uint64(m.TableNum))
	}
	b.WriteString("debug:\n" + v.DebugString())
	return b.String()
}

// placement is what the model predicts.
func (s *mstate) placement() string {
	var b strings.Builder
	for l := 0; l < 3; l++ {
		var ts []int
		for t := 1; t <= 6; t++ {
			if int(s.lvl[t]) == l {
				ts = append(ts, t)
			}
		}
		fmt.Fprintf(&b, "L%d=%v ", l, ts)
	}
	fmt.Fprintf(&b, "blob=%d marked=[", s.blob)
	for l := 2; l >= 0; l-- { // MarkedForCompactionSet order: decreasing level, then seqnum (= table order here)
		for _, t := range []int{1, 4, 2, 5, 3, 6} {
			if s.marked[t] && int(s.lvl[t]) == l {
				fmt.Fprintf(&b, "L%d.%d ", l, t)
			}
		}
	}
	b.WriteString("]")
	return b.String()
}

func versionPlacement(v *manifest.Version) string {
	var b strings.Builder
	for l := 0; l < 3; l++ {
		var ts []int
		for t := range v.Levels[l].All() {
			ts = append(ts, int(t.TableNum))
		}
		sort.Ints(ts)
		fmt.Fprintf(&b, "L%d=%v ", l, ts)
	}
	blob := 0
	for f := range v.BlobFiles.All() {
		if f.FileID == 7 {
			blob = int(f.Physical.FileNum)
		} else {
			blob = -int(f.FileID)
		}
	}
	fmt.Fprintf(&b, "blob=%d marked=[", blob)
	for m, l := range v.MarkedForCompaction.Ascending() {
		fmt.Fprintf(&b, "L%d.%d ", l, uint64(m.TableNum))
	}
	b.WriteString("]")
	for l := 3; l < manifest.NumLevels; l++ {
		if v.Levels[l].Len() != 0 {
			fmt.Fprintf(&b, " L%d!=empty", l)
		}
	}
	return b.String()
}

// SeqCase is the replay artefact of part (b).
type SeqCase struct {
	Base [][]Atom `json:"base"`
	Seq  [][]Atom `json:"seq"`
}

type pathResult struct {
	dump     string
	place    string
	backings string
}

// buildBase applies the base edits one at a time with objects of world w.
func buildBase(w *world, baseEdits [][]Atom) (*manifest.Version, mstate, error) {
	v := manifest.NewInitialVersion(base.DefaultComparer)
	s := initialState()
	for _, e := range baseEdits {
		ve := w.buildSeqEdit(s, e)
		var bve manifest.BulkVersionEdit
		if err := bve.Accumulate(ve); err != nil {
			return nil, s, err
		}
		nv, err := bve.Apply(v, 0)
		if err != nil {
			return nil, s, err
		}
		v, s = nv, applyEditToState(s, e)
	}
	return v, s, nil
}

func runPath(path int, cs SeqCase) (res pathResult, steps int, err error) {
	w := &world{}
	var fold backingFold
	if path == 3 {
		// Recovery: every edit since the empty version goes through Encode/Decode into ONE bulk edit.
		v := manifest.NewInitialVersion(base.DefaultComparer)
		s := initialState()
		var bve manifest.BulkVersionEdit
		bve.AllAddedTables = map[base.TableNum]*manifest.TableMetadata{}
		all := append(append([][]Atom{}, cs.Base...), cs.Seq...)
		for i, e := range all {
			enc, err := encode(w.buildSeqEdit(s, e))
			if err != nil {
				return res, steps, fmt.Errorf("edit %d Encode: %w", i-len(cs.Base), err)
			}
			ve := &manifest.VersionEdit{}
			if err := ve.Decode(bytes.NewReader(enc)); err != nil {
				return res, steps, fmt.Errorf("edit %d Decode: %w", i-len(cs.Base), err)
			}
			if err := bve.Accumulate(ve); err != nil {
				return res, steps, fmt.Errorf("edit %d Accumulate: %w", i-len(cs.Base), err)
			}
			s = applyEditToState(s, e)
			steps += 3
		}
		nv, err := bve.Apply(v, 0)
		if err != nil {
			return res, steps, fmt.Errorf("Apply: %w", err)
		}
		steps++
		fold.add(&bve)
		return pathResult{dump: dumpVersion(nv), place: versionPlacement(nv), backings: fold.String()}, steps, nil
	}
	v, s, err := buildBase(w, cs.Base)
	if err != nil {
		return res, 0, fmt.Errorf("base: %w", err)
	}
	switch path {
	case 1:
		for i, e := range cs.Seq {
			ve := w.buildSeqEdit(s, e)
			var bve manifest.BulkVersionEdit
			if err := bve.Accumulate(ve); err != nil {
				return res, steps, fmt.Errorf("edit %d Accumulate: %w", i, err)
			}
			nv, err := bve.Apply(v, 0)
			if err != nil {
				return res, steps, fmt.Errorf("edit %d Apply: %w", i, err)
			}
			fold.add(&bve)
			v, s = nv, applyEditToState(s, e)
			steps += 2
		}
	case 2:
		var bve manifest.BulkVersionEdit
		for i, e := range cs.Seq {
			if err := bve.Accumulate(w.buildSeqEdit(s, e)); err != nil {
				return res, steps, fmt.Errorf("edit %d Accumulate: %w", i, err)
			}
			s = applyEditToState(s, e)
			steps++
		}
		nv, err := bve.Apply(v, 0)
		if err != nil {
			return res, steps, fmt.Errorf("Apply: %w", err)
		}
		steps++
		fold.add(&bve)
		v = nv
	}
	return pathResult{dump: dumpVersion(v), place: versionPlacement(v), backings: fold.String()}, steps, nil
}

var pathName = map[int]string{1: "one-at-a-time", 2: "bulk", 3: "bulk-after-encode/decode (replay)"}

// checkSeq runs the three paths; it returns the state hash material and the failure.
func checkSeq(cs SeqCase, verbose bool) (dump string, steps int, fl *failure) {
	var rs [4]pathResult
	for p := 1; p <= 3; p++ {
		var err error
		var n int
		if fl := catch(pathName[p], func() { rs[p], n, err = runPath(p, cs) }); fl != nil {
			return "", steps, fl
		}
		steps += n
		if err != nil {
			return "", steps, &failure{"valid-sequence-rejected", fmt.Sprintf("path %s: %v", pathName[p], err)}
		}
		if verbose {
			fmt.Printf("=== %s\n%s%s\n", pathName[p], rs[p].dump, rs[p].backings)
		}
	}
	// model
	s := initialState()
	for _, e := range cs.Base {
		s = applyEditToState(s, e)
	}
	s0 := s
	for _, e := range cs.Seq {
		s = applyEditToState(s, e)
	}
	var live, removed []int
	for t := 1; t <= 3; t++ {
		if s0.back[t] == 0 && s.back[t] == 1 {
			live = append(live, t)
		}
		if s0.back[t] == 1 && s.back[t] == 2 {
			removed = append(removed, t)
		}
	}
	wantBack := fmt.Sprintf("backings created+live=%v removed-from-base=%v", live, removed)
	if verbose {
		fmt.Printf("=== model\n%s\n%s\n", s.placement(), wantBack)
	}
	var liveAll []int
	for t := 1; t <= 3; t++ {
		if s.back[t] == 1 {
			liveAll = append(liveAll, t)
		}
	}
	wantBack3 := fmt.Sprintf("backings created+live=%v removed-from-base=[]", liveAll)
	for p := 2; p <= 3; p++ {
		if rs[p].dump != rs[1].dump {
			return rs[1].dump, steps, &failure{"bulk-differs-from-sequential", fmt.Sprintf("%s gives a different version than %s\n--- %s\n%s--- %s\n%s",
				pathName[p], pathName[1], pathName[1], rs[1].dump, pathName[p], rs[p].dump)}
		}
	}
	if rs[2].backings != rs[1].backings {
		return rs[1].dump, steps, &failure{"bulk-backings-differ", fmt.Sprintf("%s: %s, but %s: %s", pathName[2], rs[2].backings, pathName[1], rs[1].backings)}
	}
	if rs[3].backings != wantBack3 {
		return rs[1].dump, steps, &failure{"replay-backings-differ-from-model", fmt.Sprintf("%s: %s, expected %s", pathName[3], rs[3].backings, wantBack3)}
	}
	if rs[1].place != s.placement() {
		return rs[1].dump, steps, &failure{"version-differs-from-model", fmt.Sprintf("applying the edits gives %s, expected %s", rs[1].place, s.placement())}
	}
	if rs[1].backings != wantBack {
		return rs[1].dump, steps, &failure{"backings-differ-from-model", fmt.Sprintf("got %s, expected %s", rs[1].backings, wantBack)}
	}
	return rs[1].dump, steps, nil
}

// interacting reports whether two different edits (or the base and an edit) touch the same table
// number, backing or the blob file: only then Accumulate has something to reconcile.
func interacting(cs SeqCase) bool {
	seen := map[string]map[int]bool{}
	all := append(append([][]Atom{}, cs.Base...), cs.Seq...)
	for i, e := range all {
		idx := i - len(cs.Base) + 1
		if idx < 0 {
			idx = 0 // the base counts as one edit
		}
		for _, a := range e {
			var keys []string
			switch a.K {
			case "add", "del", "move", "mark":
				keys = []string{fmt.Sprint("t", a.T)}
				if refsBlob(a.T) {
					keys = append(keys, "blob")
				}
			case "virt":
				keys = []string{fmt.Sprint("t", a.T), fmt.Sprint("t", a.T+3), fmt.Sprint("b", a.T)}
			case "rmback":
				keys = []string{fmt.Sprint("b", a.T)}
			case "newblob", "delblob", "replblob":
				keys = []string{"blob"}
			}
			for _, k := range keys {
				if seen[k] == nil {
					seen[k] = map[int]bool{}
				}
				seen[k][idx] = true
			}
		}
	}
	for _, m := range seen {
		if len(m) >= 2 {
			return true
		}
	}
	return false
}
