package c23

// Part (c): arbitrary input. A small independent model of the record *syntax* (which varints are
// lengths, which tags exist) predicts whether Decode accepts an input and how much memory the length
// prefixes it meets ask for. It serves two purposes: a differential oracle on accept/reject, and a
// guard that keeps the harness from executing a Decode that would try to allocate terabytes (which
// the Go runtime turns into an unrecoverable fatal error instead of a panic).

import (
	"bytes"
	"encoding/binary"
	"fmt"

	"github.com/cockroachdb/pebble/internal/base"
	"github.com/cockroachdb/pebble/internal/manifest"
)

type scan struct {
	in       []byte
	pos      int
	maxClaim uint64 // largest number of bytes a single length/count prefix asks the decoder to allocate
	hugeN    bool   // a count prefix whose byte size overflows
}

var errStop = fmt.Errorf("reject")

func (s *scan) uv() (uint64, error) {
	// Same acceptance as binary.ReadUvarint: at most 10 bytes, the 10th at most 1.
	var x uint64
	var sh uint
	for i := 0; i < binary.MaxVarintLen64; i++ {
		if s.pos >= len(s.in) {
			return 0, errStop
		}
		b := s.in[s.pos]
		s.pos++
		if b < 0x80 {
			if i == binary.MaxVarintLen64-1 && b > 1 {
				return 0, errStop
			}
			return x | uint64(b)<<sh, nil
		}
		x |= uint64(b&0x7f) << sh
		sh += 7
	}
	return 0, errStop
}

func (s *scan) byteField() ([]byte, error) {
	n, err := s.uv()
	if err != nil {
		return nil, err
	}
	if n > s.maxClaim {
		s.maxClaim = n
	}
	if n > uint64(len(s.in)-s.pos) {
		s.pos = len(s.in)
		return nil, errStop
	}
	f := s.in[s.pos : s.pos+int(n)]
	s.pos += int(n)
	return f, nil
}

func (s *scan) level() error {
	l, err := s.uv()
	if err != nil {
		return err
	}
	if l >= manifest.NumLevels {
		return errStop
	}
	return nil
}

func (s *scan) uvs(n int) error {
	for i := 0; i < n; i++ {
		if _, err := s.uv(); err != nil {
			return err
		}
	}
	return nil
}

func (s *scan) fields(n int) error {
	for i := 0; i < n; i++ {
		if _, err := s.byteField(); err != nil {
			return err
		}
	}
	return nil
}

const blobRefSize = 32 // unsafe.Sizeof(manifest.BlobReference{})

// run returns true if the syntax model accepts the whole input.
func (s *scan) run() bool {
	for {
		if s.pos == len(s.in) {
			return true
		}
		tag, err := s.uv()
		if err != nil {
			return false
		}
		switch tag {
		case 1:
			err = s.fields(1)
		case 2, 3, 4, 9, 106:
			err = s.uvs(1)
		case 5:
			if err = s.level(); err == nil {
				err = s.fields(1)
			}
		case 105, 108, 11:
			err = s.uvs(2)
		case 6:
			if err = s.level(); err == nil {
				err = s.uvs(1)
			}
		case 107:
			err = s.uvs(5)
		case 10:
			if err = s.fields(2); err == nil {
				err = s.uvs(2)
			}
		case 7, 100, 102, 103, 104:
			err = s.newFile(tag)
		default:
			return false
		}
		if err != nil {
			return false
		}
	}
}

func (s *scan) newFile(tag uint64) error {
	if err := s.level(); err != nil {
		return err
	}
	n := 2 // file number, size
	if tag == 102 {
		n = 3 // path id
	}
	if err := s.uvs(n); err != nil {
		return err
	}
	if tag != 104 {
		if err := s.fields(2); err != nil {
			return err
		}
	} else {
		if s.pos >= len(s.in) {
			return errStop
		}
		marker := s.in[s.pos]
		s.pos++
		if marker&1 != 0 {
			if err := s.fields(2); err != nil {
				return err
			}
		} else if marker&6 != 0 {
			return errStop
		}
		if err := s.fields(2); err != nil {
			return err
		}
	}
	if tag != 7 {
		if err := s.uvs(2); err != nil {
			return err
		}
	}
	if tag != 103 && tag != 104 {
		return nil
	}
	for {
		ct, err := s.uv()
		if err != nil {
			return err
		}
		switch ct {
		case 1:
			return nil
		case 2: // deprecated needs-compaction: accepted with a 1-byte field in non-invariants builds
			f, err := s.byteField()
			if err != nil {
				return err
			}
			if len(f) != 1 {
				return errStop
			}
		case 6:
			f, err := s.byteField()
			if err != nil {
				return err
			}
			if _, n := binary.Uvarint(f); n != len(f) {
				return errStop
			}
		case 7:
			f, err := s.byteField()
			if err != nil {
				return err
			}
			if len(f) != 0 {
				return errStop
			}
		case 65:
			return errStop
		case 66:
			if err := s.uvs(1); err != nil {
				return err
			}
		case 67, 68:
			if err := s.fields(1); err != nil {
				return err
			}
		case 69, 70:
			if err := s.uvs(1); err != nil {
				return err
			}
			n, err := s.uv()
			if err != nil {
				return err
			}
			if n > (1<<63)/blobRefSize {
				s.hugeN = true
				s.maxClaim = 1 << 63
			} else if n*blobRefSize > s.maxClaim {
				s.maxClaim = n * blobRefSize
			}
			per := 2
			if ct == 70 {
				per = 3
			}
			for i := uint64(0); i < n; i++ {
				if err := s.uvs(per); err != nil {
					return err
				}
			}
		default:
			if ct&64 != 0 {
				return errStop
			}
			if err := s.fields(1); err != nil {
				return err
			}
		}
	}
}

const (
	// Inputs whose largest length claim is above runLimit are not executed unless the claim is above
	// panicLimit, where runtime.makeslice panics before allocating anything (maxAlloc = 2^48).
	runLimit   = 1 << 16
	panicLimit = 1 << 48
)

type decodeResult struct {
	outcome string
	fl      *failure
	canon   string
}

// dropPhysicalBackingValueSize zeroes the one attribute canonTable ignores, so that DebugString (which
// prints it) can be compared as well.
func dropPhysicalBackingValueSize(ve *manifest.VersionEdit) {
	for _, nt := range ve.NewTables {
		if !nt.Meta.Virtual {
			for i := range nt.Meta.BlobReferences {
				nt.Meta.BlobReferences[i].BackingValueSize = 0
			}
		}
	}
}

// checkArbitrary applies the third clause of the property to one input. deep additionally compares
// DebugString/String of the two decoded edits and re-encodes a second time.
func checkArbitrary(in []byte, deep, verbose bool) decodeResult {
	r := checkArbitrary1(in, deep, verbose)
	return r
}

func checkArbitrary1(in []byte, deep, verbose bool) decodeResult {
	s := scan{in: in}
	accept := s.run()
	if verbose {
		fmt.Printf("input %x\nsyntax model: accept=%v largest length claim=%d bytes\n", in, accept, s.maxClaim)
	}
	if s.maxClaim > runLimit && s.maxClaim <= panicLimit {
		return decodeResult{outcome: "not-run:length-prefix-claims>64KiB"}
	}
	var ve manifest.VersionEdit
	var err error
	if fl := catch("Decode", func() { err = ve.Decode(bytes.NewReader(in)) }); fl != nil {
		if s.maxClaim > panicLimit {
			// Own class: a length prefix read from the input is passed to make() unchecked.
			fl.class = "panic-decode-length-prefix"
			fl.desc += fmt.Sprintf(" (a length prefix in the input claims %d bytes)", s.maxClaim)
			return decodeResult{outcome: "panic:length-prefix", fl: fl}
		}
		return decodeResult{outcome: "panic", fl: fl}
	}
	if verbose {
		fmt.Printf("Decode: err=%v\n", err)
	}
	if (err == nil) != accept {
		return decodeResult{outcome: "syntax-model-mismatch", fl: &failure{"syntax-model-mismatch",
			fmt.Sprintf("Decode err=%v but the record syntax model says accept=%v", err, accept)}}
	}
	if err != nil {
		return decodeResult{outcome: "error"}
	}
	resolveBackings(&ve, nil)
	// findings with their own class
	known := ""
	if bareNewFile5(&ve) {
		known = classBareNewFile5
	} else if k := lossyDecodedTable(&ve); k != "" {
		known = k
	}
	fail := func(outcome, class, desc string) decodeResult {
		if known != "" {
			return decodeResult{outcome: "finding:" + known, fl: &failure{known, desc}}
		}
		return decodeResult{outcome: outcome, fl: &failure{class, desc}}
	}
	var enc []byte
	if fl := catch("Encode(decoded)", func() { enc, err = encode(&ve) }); fl != nil {
		return decodeResult{outcome: "panic", fl: fl}
	}
	if err != nil {
		return fail("reencode-error", "arbitrary-reencode-error", "Decode accepted the input but Encode of the result fails: "+err.Error())
	}
	var ve2 manifest.VersionEdit
	if fl := catch("Decode(reencoded)", func() { err = ve2.Decode(bytes.NewReader(enc)) }); fl != nil {
		return decodeResult{outcome: "panic", fl: fl}
	}
	if err != nil {
		return fail("redecode-error", "arbitrary-redecode-error",
			fmt.Sprintf("Decode accepted the input, but its re-encoding %x is rejected: %v", enc, err))
	}
	resolveBackings(&ve2, nil)
	c1, c2 := canonEdit(&ve), canonEdit(&ve2)
	if verbose {
		fmt.Printf("decoded:\n%sre-encoded %x\ndecoded again:\n%s", c1, enc, c2)
	}
	if c1 != c2 {
		return fail("not-stable", "arbitrary-not-stable",
			fmt.Sprintf("Decode accepted the input but Decode(Encode(edit)) is a different edit\n--- decoded\n%s--- re-encoded %x decodes to\n%s", c1, enc, c2))
	}
	if deep {
		dropPhysicalBackingValueSize(&ve)
		dropPhysicalBackingValueSize(&ve2)
		var d1, d2 string
		if fl := catch("DebugString", func() { d1, d2 = debugStrings(&ve), debugStrings(&ve2) }); fl != nil {
			return decodeResult{outcome: "panic", fl: fl}
		}
		if d1 != d2 {
			return fail("not-stable", "arbitrary-debugstring-not-stable",
				fmt.Sprintf("DebugString differs after re-encoding\n--- decoded\n%s--- again\n%s", d1, d2))
		}
		var enc2 []byte
		if fl := catch("Encode(decoded twice)", func() { enc2, err = encode(&ve2) }); fl != nil {
			return decodeResult{outcome: "panic", fl: fl}
		}
		if err != nil || !sameEncoding(&ve, enc, enc2) {
			return fail("not-stable", "arbitrary-reencode-differs",
				fmt.Sprintf("second re-encoding differs (err=%v)\n first %x\nsecond %x", err, enc, enc2))
		}
	}
	out := "ok-nonempty"
	if len(enc) == 0 {
		out = "ok-empty-edit"
	}
	return decodeResult{outcome: out, canon: c1}
}

var _ = base.SeqNumMax
