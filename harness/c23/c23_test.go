// C23: version edits round-trip and replay deterministically.
//
//	(a) every valid edit built from <= 2 (quick) / <= 3 (thorough) populated field groups of the menu in
//	    edits_test.go: Encode -> Decode -> Encode is byte-equal and the decoded edit equals the original
//	    (canonical form, DebugString, String);
//	(b) every valid sequence of <= 3 edits over 3 physical + 3 virtual table numbers, one blob file and
//	    3 backings (seq_test.go): one-at-a-time application = one BulkVersionEdit = MANIFEST-style replay
//	    of the encoded edits = placement model;
//	(c) arbitrary input (wire_test.go): every byte string up to length 2 / 3, every truncation and every
//	    single-byte substitution (all 255 other values) of every encoding produced in (a): Decode returns
//	    an error, or an edit whose encoding decodes back to an equal edit; never a panic.
package c23

import (
	"encoding/hex"
	"fmt"
	"sort"
	"sync"
	"testing"

	"github.com/cockroachdb/pebble/internal/verif/vlib"
)

// Case is the replay artefact.
type Case struct {
	Part   string   `json:"part"` // roundtrip | sequence | arbitrary
	Picks  []Pick   `json:"picks,omitempty"`
	What   string   `json:"what,omitempty"`
	Seq    *SeqCase `json:"seq,omitempty"`
	Input  string   `json:"input_hex,omitempty"`
	Origin string   `json:"origin,omitempty"`
}

// base version used by part (b) besides the empty one: table 3 (blob reference, marked for
// compaction) and virtual table 4 (backing 1) on L1, blob file B7.
var baseB1 = [][]Atom{
	{{K: "newblob"}, {K: "add", T: 3, L: 1}},
	{{K: "add", T: 1, L: 1}},
	{{K: "virt", T: 1}},
	{{K: "mark", T: 3}},
}

func replay(c *vlib.Ctx, cs Case) {
	var fl *failure
	switch cs.Part {
	case "roundtrip":
		fmt.Printf("edit: %s\n", pickNames(cs.Picks))
		ve, prior := buildEdit(cs.Picks)
		_, fl = roundTrip(ve, prior, true)
	case "sequence":
		fmt.Printf("base: %s\nsequence: %s\n", seqString(cs.Seq.Base), seqString(cs.Seq.Seq))
		_, _, fl = checkSeq(*cs.Seq, true)
	case "arbitrary":
		in, err := hex.DecodeString(cs.Input)
		if err != nil {
			c.T.Fatal(err)
		}
		fmt.Printf("origin: %s\n", cs.Origin)
		r := checkArbitrary(in, true, true)
		fmt.Printf("outcome: %s\n", r.outcome)
		fl = r.fl
	default:
		c.T.Fatalf("unknown part %q", cs.Part)
	}
	if fl != nil {
		fmt.Printf("replay: FAIL class=%s\n%s\n", fl.class, fl.desc)
		c.Violation(fl.class, fl.desc, cs)
	} else {
		fmt.Printf("replay: ok\n")
	}
	c.Eval(1)
	c.Trans(1)
}

func TestCheck(t *testing.T) {
	vlib.Main(t, "C23", func(c *vlib.Ctx) {
		if c.ReplayPath() != "" {
			var cs Case
			if err := c.LoadReplay(&cs); err != nil {
				t.Fatal(err)
			}
			replay(c, cs)
			return
		}
		scope := map[string]any{}
		// vlib keeps 5 artefacts per class; do not build more than a few reports per class.
		var vmu sync.Mutex
		vcount := map[string]int{}
		report := func(class string) bool {
			vmu.Lock()
			defer vmu.Unlock()
			vcount[class]++
			return vcount[class] <= 8
		}

		// ---------- (a) round trip ----------
		maxGroups := 2
		if c.Thorough() {
			maxGroups = 3
		}
		edits := enumEdits(maxGroups)
		var mu sync.Mutex
		type seed struct {
			name    string
			ngroups int
		}
		encs := map[string]seed{} // encoding -> simplest edit that produced it
		doneA, completeA := c.Each(len(edits), func(i int) {
			ps := edits[i]
			ve, prior := buildEdit(ps)
			enc, fl := roundTrip(ve, prior, false)
			c.Eval(1)
			c.Trans(3)
			if fl != nil {
				c.Outcome("a:" + fl.class)
				if report(fl.class) {
					c.Violation(fl.class, "edit "+pickNames(ps)+": "+fl.desc, Case{Part: "roundtrip", Picks: ps, What: pickNames(ps)})
				}
			} else {
				c.Outcome("a:roundtrip-equal")
			}
			if enc != nil {
				c.State(vlib.Hash("a", enc))
			}
			// Seeds of part (c). Edits with two or more DeletedTables / DeletedBlobFiles entries are left
			// out: Encode walks those maps, so their record order differs from run to run.
			if enc != nil && len(ve.DeletedTables) <= 1 && len(ve.DeletedBlobFiles) <= 1 {
				mu.Lock()
				if old, ok := encs[string(enc)]; !ok || len(ps) < old.ngroups {
					encs[string(enc)] = seed{pickNames(ps), len(ps)}
				}
				mu.Unlock()
			}
			if len(ps) >= 2 {
				c.Nontrivial(vlib.Hash("a", fmt.Sprint(ps)))
			}
			if i%977 == 5 {
				c.Sample(map[string]any{"part": "roundtrip", "edit": pickNames(ps), "encoding": hex.EncodeToString(enc)})
			}
		})
		scope["a_edits"] = fmt.Sprintf("%d of %d edits with <= %d populated field groups out of %d groups", doneA, len(edits), maxGroups, len(groups))
		if !completeA {
			c.Incomplete(fmt.Sprintf("budget expired in part (a) after %d of %d edits", doneA, len(edits)))
		}

		// ---------- (b) sequences ----------
		type plan struct {
			name    string
			base    [][]Atom
			atomsAt []int
		}
		var plans []plan
		if !c.Thorough() {
			plans = []plan{
				{"empty/3 edits of 1 atom", nil, []int{1, 1, 1}},
				{"empty/2 edits of <=2 atoms", nil, []int{2, 2}},
				{"B1/2 edits of <=2 atoms", baseB1, []int{2, 2}},
			}
		} else {
			plans = []plan{
				{"empty/3 edits of <=2 atoms", nil, []int{2, 2, 2}},
				{"B1/3 edits of <=2,<=2,1 atoms", baseB1, []int{2, 2, 1}},
			}
		}
		var planNotes []string
		for _, p := range plans {
			if !completeA {
				break
			}
			s0 := initialState()
			for _, e := range p.base {
				s0 = applyEditToState(s0, e)
			}
			seqs := enumSeqs(s0, p.atomsAt)
			done, complete := c.Each(len(seqs), func(i int) {
				cs := SeqCase{Base: p.base, Seq: seqs[i]}
				dump, steps, fl := checkSeq(cs, false)
				c.Eval(1)
				c.Trans(steps)
				if fl != nil {
					c.Outcome("b:" + fl.class)
					if report(fl.class) {
						c.Violation(fl.class, fmt.Sprintf("base [%s] sequence [%s]: %s", seqString(p.base), seqString(seqs[i]), fl.desc), Case{Part: "sequence", Seq: &cs})
					}
				} else {
					c.Outcome("b:three-paths-and-model-agree")
					c.State(vlib.Hash("b", dump))
				}
				if interacting(cs) {
					c.Nontrivial(vlib.Hash("b", seqString(p.base), seqString(seqs[i])))
				}
				if i%20011 == 7 {
					c.Sample(map[string]any{"part": "sequence", "base": seqString(p.base), "seq": seqString(seqs[i])})
				}
			})
			planNotes = append(planNotes, fmt.Sprintf("%s: %d of %d valid sequences", p.name, done, len(seqs)))
			if !complete {
				c.Incomplete(fmt.Sprintf("budget expired in part (b) plan %q after %d of %d sequences; part (a) and earlier plans complete", p.name, done, len(seqs)))
				completeA = false
			}
		}
		scope["b_sequences"] = planNotes

		// ---------- (c) arbitrary input ----------
		type local struct {
			out     map[string]int64
			states  map[uint64]struct{}
			accepts int64
		}
		flush := func(l *local) {
			for k, n := range l.out {
				c.OutcomeN("c:"+k, n)
			}
			for h := range l.states {
				c.State(h)
			}
			c.NoteAdd("arbitrary_inputs_accepted_nonempty", l.accepts)
		}
		one := func(l *local, in []byte, deep bool, origin func() string) {
			r := checkArbitrary(in, deep, false)
			c.Eval(1)
			c.Trans(1)
			l.out[r.outcome]++
			if r.fl != nil && report(r.fl.class) {
				c.Violation(r.fl.class, fmt.Sprintf("input %x (%s): %s", in, origin(), r.fl.desc),
					Case{Part: "arbitrary", Input: hex.EncodeToString(in), Origin: origin()})
			}
			if r.outcome == "ok-nonempty" {
				l.accepts++
				if deep {
					l.states[vlib.Hash("c", r.canon)] = struct{}{}
				}
			}
		}
		maxLen := 2
		if c.Thorough() {
			maxLen = 3
		}
		if completeA {
			// outer index: the first min(len,2) bytes; the third byte is looped inside.
			n := 1 + 256 + 65536
			done, complete := c.Each(n, func(i int) {
				l := &local{out: map[string]int64{}, states: map[uint64]struct{}{}}
				defer flush(l)
				var in []byte
				switch {
				case i == 0:
				case i <= 256:
					in = []byte{byte(i - 1)}
				default:
					in = []byte{byte((i - 257) >> 8), byte(i - 257)}
				}
				origin := func() string { return "short byte string" }
				one(l, in, true, origin)
				if len(in) == 2 && maxLen >= 3 {
					for b := 0; b < 256; b++ {
						one(l, []byte{in[0], in[1], byte(b)}, true, origin)
					}
				}
				if i%9973 == 3 {
					c.Sample(map[string]any{"part": "arbitrary", "input_hex": hex.EncodeToString(in), "outcome": checkArbitrary(in, true, false).outcome})
				}
			})
			scope["c_short_strings"] = fmt.Sprintf("every byte string of length <= %d (%d of %d two-byte prefixes)", maxLen, done, n)
			if !complete {
				c.Incomplete(fmt.Sprintf("budget expired in part (c) short strings after %d of %d prefixes; parts (a), (b) complete", done, n))
				completeA = false
			}
		}
		if completeA {
			var list []string
			for e := range encs {
				list = append(list, e)
			}
			sort.Slice(list, func(i, j int) bool {
				if len(list[i]) != len(list[j]) {
					return len(list[i]) < len(list[j])
				}
				return list[i] < list[j]
			})
			// Substitution values: all 255 other values for encodings of edits with fewer than maxGroups
			// groups; for edits with exactly maxGroups groups the stated subset
			// {b^01, b^80, b+1, b-1, 00, 01, 7f, ff} of the original byte b.
			var total, full int64
			for _, e := range list {
				total += int64(len(e))
				if encs[e].ngroups < maxGroups {
					full++
				}
			}
			done, complete := c.Each(len(list), func(i int) {
				l := &local{out: map[string]int64{}, states: map[uint64]struct{}{}}
				defer flush(l)
				enc := []byte(list[i])
				sd := encs[list[i]]
				name := sd.name
				for k := 0; k < len(enc); k++ {
					one(l, enc[:k], true, func() string {
						return fmt.Sprintf("encoding of edit %q truncated to %d of %d bytes", name, k, len(enc))
					})
				}
				buf := make([]byte, len(enc))
				for k := 0; k < len(enc); k++ {
					copy(buf, enc)
					try := func(b byte) {
						if b == enc[k] {
							return
						}
						buf[k] = b
						one(l, buf, false, func() string {
							return fmt.Sprintf("encoding %x of edit %q with byte %d changed from %02x to %02x", enc, name, k, enc[k], b)
						})
					}
					if sd.ngroups < maxGroups {
						for b := 0; b < 256; b++ {
							try(byte(b))
						}
					} else {
						o := enc[k]
						var seen [256]bool
						for _, b := range []byte{o ^ 0x01, o ^ 0x80, o + 1, o - 1, 0x00, 0x01, 0x7f, 0xff} {
							if !seen[b] {
								seen[b] = true
								try(b)
							}
						}
					}
				}
				if i%499 == 11 {
					c.Sample(map[string]any{"part": "arbitrary", "mutated_encoding_of": name, "encoding": hex.EncodeToString(enc)})
				}
			})
			scope["c_mutations"] = fmt.Sprintf("%d of %d distinct valid encodings (total %d bytes): every truncation; every single-byte substitution with all 255 other values for the %d encodings of edits with < %d groups, with {b^01,b^80,b+1,b-1,00,01,7f,ff} for the rest", done, len(list), total, full, maxGroups)
			if !complete {
				c.Incomplete(fmt.Sprintf("budget expired in part (c) mutations after %d of %d encodings; parts (a), (b) and short strings complete", done, len(list)))
			}
		}
		c.Note("scope", scope)
	})
}
