package c23

// Part (a): the menu of valid version edits, the canonical ("semantic") form of an edit, and the
// encode -> decode -> encode round-trip oracle.

import (
	"bytes"
	"fmt"
	"slices"
	"sort"
	"strconv"
	"strings"

	"github.com/cockroachdb/pebble/internal/base"
	"github.com/cockroachdb/pebble/internal/manifest"
	"github.com/cockroachdb/pebble/sstable"
)

var cmp = base.DefaultComparer.Compare

func ik(k string, seq base.SeqNum, kind base.InternalKeyKind) base.InternalKey {
	return base.MakeInternalKey([]byte(k), seq, kind)
}

// ---- table constructors (fresh objects on every call: TableMetadata is reference counted) ----

func tPlain(num base.TableNum) *manifest.TableMetadata {
	m := (&manifest.TableMetadata{TableNum: num, Size: 1}).ExtendPointKeyBounds(cmp,
		ik("a", 0, base.InternalKeyKindSet), ik("c", 0, base.InternalKeyKindSet))
	m.InitPhysicalBacking()
	return m
}

func tPlainBig(num base.TableNum) *manifest.TableMetadata {
	m := (&manifest.TableMetadata{TableNum: num, Size: 1 << 33, CreationTime: 1700000000,
		SeqNums: base.SeqNumRange{Low: 300, High: 1 << 40}, LargestSeqNumAbsolute: 1 << 40,
	}).ExtendPointKeyBounds(cmp,
		ik("", 300, base.InternalKeyKindRangeDelete),
		base.MakeExclusiveSentinelKey(base.InternalKeyKindRangeDelete, []byte("m\x00\xff")))
	m.InitPhysicalBacking()
	return m
}

func tRangeOnly(num base.TableNum) *manifest.TableMetadata {
	m := (&manifest.TableMetadata{TableNum: num, Size: 807, SeqNums: base.SeqNumRange{Low: 4, High: 4}, LargestSeqNumAbsolute: 4}).
		ExtendRangeKeyBounds(cmp, manifest.AnyRangeKeys,
			ik("aaa", 4, base.InternalKeyKindRangeKeySet),
			base.MakeExclusiveSentinelKey(base.InternalKeyKindRangeKeySet, []byte("zzz")))
	m.InitPhysicalBacking()
	return m
}

// points a..m, range keys l..z: smallest bound is a point key, largest a range key (marker 0b011).
func tPointRange(num base.TableNum) *manifest.TableMetadata {
	m := (&manifest.TableMetadata{TableNum: num, Size: 8090, CreationTime: 809060,
		SeqNums: base.SeqNumRange{Low: 9, High: 11}, LargestSeqNumAbsolute: 11}).
		ExtendPointKeyBounds(cmp, ik("a", 9, base.InternalKeyKindSet), ik("m", 11, base.InternalKeyKindDelete)).
		ExtendRangeKeyBounds(cmp, manifest.AnyRangeKeys,
			ik("l", 10, base.InternalKeyKindRangeKeySet),
			base.MakeExclusiveSentinelKey(base.InternalKeyKindRangeKeySet, []byte("z")))
	m.InitPhysicalBacking()
	return m
}

// range keys b..y (no sets) inside points a..z: both overall bounds are point keys (marker 0b111).
func tRangeInsideNoSets(num base.TableNum) *manifest.TableMetadata {
	m := (&manifest.TableMetadata{TableNum: num, Size: 813, SeqNums: base.SeqNumRange{Low: 12, High: 14}, LargestSeqNumAbsolute: 14}).
		ExtendRangeKeyBounds(cmp, manifest.OnlyRangeKeyUnsetAndDelete,
			ik("b", 12, base.InternalKeyKindRangeKeyUnset),
			base.MakeExclusiveSentinelKey(base.InternalKeyKindRangeKeyDelete, []byte("y"))).
		ExtendPointKeyBounds(cmp, ik("a", 13, base.InternalKeyKindMerge), ik("z", 14, base.InternalKeyKindSingleDelete))
	m.InitPhysicalBacking()
	return m
}

// range keys a..z (no sets) around points b..c: both overall bounds are range keys (marker 0b001).
func tRangeOutsideNoSets(num base.TableNum) *manifest.TableMetadata {
	m := (&manifest.TableMetadata{TableNum: num, Size: 814, SeqNums: base.SeqNumRange{Low: 1, High: 2}, LargestSeqNumAbsolute: 2}).
		ExtendPointKeyBounds(cmp, ik("b", 1, base.InternalKeyKindSetWithDelete), ik("c", 2, base.InternalKeyKindDeleteSized)).
		ExtendRangeKeyBounds(cmp, manifest.OnlyRangeKeyUnsetAndDelete,
			ik("a", 2, base.InternalKeyKindRangeKeyDelete),
			base.MakeExclusiveSentinelKey(base.InternalKeyKindRangeKeyUnset, []byte("z")))
	m.InitPhysicalBacking()
	return m
}

// Physical table with blob references. In production (ingest.go, valsep) a physical table's
// BackingValueSize equals its ValueSize.
func tBlobRefs(num base.TableNum, n int) *manifest.TableMetadata {
	m := &manifest.TableMetadata{TableNum: num, Size: 4096, SeqNums: base.SeqNumRange{Low: 20, High: 29}, LargestSeqNumAbsolute: 29}
	for i := 0; i < n; i++ {
		vs := uint64(1024) << (uint(i) * 20)
		m.BlobReferences = append(m.BlobReferences, manifest.BlobReference{FileID: base.BlobFileID(900 + 10*i), ValueSize: vs, BackingValueSize: vs})
	}
	m.BlobReferenceDepth = manifest.BlobReferenceDepth(n)
	m.ExtendPointKeyBounds(cmp, ik("d", 29, base.InternalKeyKindSet), ik("f", 20, base.InternalKeyKindSet))
	m.InitPhysicalBacking()
	return m
}

type vopt struct {
	backing     base.DiskFileNum
	backingSize uint64
	prefix      string
	suffix      string
	refs        int  // number of blob references
	bvs         bool // references carry a BackingValueSize (FormatBackingValueSize and later)
	ctime       int64
	rangeKeys   bool
}

func tVirtual(num base.TableNum, o vopt, backing *manifest.TableBacking) *manifest.TableMetadata {
	m := &manifest.TableMetadata{TableNum: num, Size: 77, Virtual: true, CreationTime: o.ctime,
		SeqNums: base.SeqNumRange{Low: 20, High: 29}, LargestSeqNumAbsolute: 29}
	if o.prefix != "" || o.suffix != "" {
		m.SyntheticPrefixAndSuffix = sstable.MakeSyntheticPrefixAndSuffix([]byte(o.prefix), []byte(o.suffix))
	}
	for i := 0; i < o.refs; i++ {
		r := manifest.BlobReference{FileID: base.BlobFileID(900 + 10*i), ValueSize: 512 + uint64(i)}
		if o.bvs {
			// i=0: BackingValueSize > ValueSize; i=1: equal (regression case of the package's own test).
			r.BackingValueSize = 1024
			if i == 1 {
				r.BackingValueSize = r.ValueSize
			}
		}
		m.BlobReferences = append(m.BlobReferences, r)
	}
	if o.refs > 0 {
		m.BlobReferenceDepth = 1
	}
	// Bounds carry the synthetic prefix (TableMetadata.Validate requires it).
	m.ExtendPointKeyBounds(cmp, ik(o.prefix+"d", 29, base.InternalKeyKindSet), ik(o.prefix+"e", 20, base.InternalKeyKindSet))
	if o.rangeKeys {
		m.ExtendRangeKeyBounds(cmp, manifest.AnyRangeKeys, ik(o.prefix+"d", 21, base.InternalKeyKindRangeKeySet),
			base.MakeExclusiveSentinelKey(base.InternalKeyKindRangeKeySet, []byte(o.prefix+"f")))
	}
	if backing == nil {
		backing = &manifest.TableBacking{DiskFileNum: o.backing, Size: o.backingSize}
	}
	m.AttachVirtualBacking(backing)
	return m
}

// ---- the menu ----

// An option populates one field group of an edit. build may touch several fields when the code
// documents that they must appear together (CreatedBackingTables, blob file replacement).
// prior records backings that a *previous* edit created (the decoder's caller resolves those).
type option struct {
	name  string
	build func(ve *manifest.VersionEdit, prior map[base.DiskFileNum]uint64)
}

type group struct {
	name string
	opts []option
}

func newTable(level int, m *manifest.TableMetadata) manifest.NewTableEntry {
	return manifest.NewTableEntry{Level: level, Meta: m}
}

func addDeleted(ve *manifest.VersionEdit, level int, num base.TableNum) {
	if ve.DeletedTables == nil {
		ve.DeletedTables = map[manifest.DeletedTableEntry]*manifest.TableMetadata{}
	}
	// In-memory edits carry the metadata of the deleted table.
	ve.DeletedTables[manifest.DeletedTableEntry{Level: level, FileNum: num}] = tPlain(num)
}

func addDeletedBlob(ve *manifest.VersionEdit, id base.BlobFileID, num base.DiskFileNum) {
	if ve.DeletedBlobFiles == nil {
		ve.DeletedBlobFiles = map[manifest.DeletedBlobFileEntry]*manifest.PhysicalBlobFile{}
	}
	ve.DeletedBlobFiles[manifest.DeletedBlobFileEntry{FileID: id, FileNum: num}] = &manifest.PhysicalBlobFile{FileNum: num, Size: 10, ValueSize: 20}
}

// File numbers are disjoint between groups so that any combination of options respects the
// documented invariants (no table added and deleted at one level in one edit, no blob file both
// added and deleted, no backing both created and removed).
var groups = []group{
	{"comparer", []option{
		{"leveldb", func(ve *manifest.VersionEdit, _ map[base.DiskFileNum]uint64) {
			ve.ComparerName = "leveldb.BytewiseComparator"
		}},
		{"long", func(ve *manifest.VersionEdit, _ map[base.DiskFileNum]uint64) {
			ve.ComparerName = strings.Repeat("c", 130) // two-byte length varint
		}},
	}},
	{"log-num", []option{
		{"2", func(ve *manifest.VersionEdit, _ map[base.DiskFileNum]uint64) { ve.MinUnflushedLogNum = 2 }},
		{"2^35", func(ve *manifest.VersionEdit, _ map[base.DiskFileNum]uint64) { ve.MinUnflushedLogNum = 1 << 35 }},
	}},
	{"prev-log-num", []option{
		{"1", func(ve *manifest.VersionEdit, _ map[base.DiskFileNum]uint64) { ve.ObsoletePrevLogNum = 1 }},
		{"max", func(ve *manifest.VersionEdit, _ map[base.DiskFileNum]uint64) { ve.ObsoletePrevLogNum = ^uint64(0) }},
	}},
	{"next-file-num", []option{
		{"5", func(ve *manifest.VersionEdit, _ map[base.DiskFileNum]uint64) { ve.NextFileNum = 5 }},
		{"2^32", func(ve *manifest.VersionEdit, _ map[base.DiskFileNum]uint64) { ve.NextFileNum = 1 << 32 }},
	}},
	{"last-seq-num", []option{
		{"7", func(ve *manifest.VersionEdit, _ map[base.DiskFileNum]uint64) { ve.LastSeqNum = 7 }},
		{"max", func(ve *manifest.VersionEdit, _ map[base.DiskFileNum]uint64) { ve.LastSeqNum = base.SeqNumMax }},
	}},
	{"deleted-tables", []option{
		{"L0.2", func(ve *manifest.VersionEdit, _ map[base.DiskFileNum]uint64) { addDeleted(ve, 0, 2) }},
		{"L6.300", func(ve *manifest.VersionEdit, _ map[base.DiskFileNum]uint64) { addDeleted(ve, 6, 300) }},
		{"L1.2+L2.3+L2.300", func(ve *manifest.VersionEdit, _ map[base.DiskFileNum]uint64) {
			addDeleted(ve, 1, 2)
			addDeleted(ve, 2, 3)
			addDeleted(ve, 2, 300)
		}},
	}},
	{"new-tables", []option{
		{"plain", func(ve *manifest.VersionEdit, _ map[base.DiskFileNum]uint64) {
			ve.NewTables = append(ve.NewTables, newTable(0, tPlain(4)))
		}},
		{"plain-big", func(ve *manifest.VersionEdit, _ map[base.DiskFileNum]uint64) {
			ve.NewTables = append(ve.NewTables, newTable(6, tPlainBig(400)))
		}},
		{"range-only", func(ve *manifest.VersionEdit, _ map[base.DiskFileNum]uint64) {
			ve.NewTables = append(ve.NewTables, newTable(5, tRangeOnly(5)))
		}},
		{"range-only-ctime", func(ve *manifest.VersionEdit, _ map[base.DiskFileNum]uint64) {
			m := tRangeOnly(5)
			m.CreationTime = 1
			ve.NewTables = append(ve.NewTables, newTable(5, m))
		}},
		{"point+range", func(ve *manifest.VersionEdit, _ map[base.DiskFileNum]uint64) {
			ve.NewTables = append(ve.NewTables, newTable(3, tPointRange(6)))
		}},
		{"range-inside-nosets", func(ve *manifest.VersionEdit, _ map[base.DiskFileNum]uint64) {
			ve.NewTables = append(ve.NewTables, newTable(2, tRangeInsideNoSets(7)))
		}},
		{"range-outside-nosets", func(ve *manifest.VersionEdit, _ map[base.DiskFileNum]uint64) {
			ve.NewTables = append(ve.NewTables, newTable(1, tRangeOutsideNoSets(8)))
		}},
		{"blobrefs1", func(ve *manifest.VersionEdit, _ map[base.DiskFileNum]uint64) {
			ve.NewTables = append(ve.NewTables, newTable(0, tBlobRefs(9, 1)))
		}},
		{"blobrefs3", func(ve *manifest.VersionEdit, _ map[base.DiskFileNum]uint64) {
			ve.NewTables = append(ve.NewTables, newTable(4, tBlobRefs(9, 3)))
		}},
		{"virtual", func(ve *manifest.VersionEdit, prior map[base.DiskFileNum]uint64) {
			prior[60] = 600
			ve.NewTables = append(ve.NewTables, newTable(1, tVirtual(10, vopt{backing: 60, backingSize: 600}, nil)))
		}},
		{"virtual-ctime-rangekeys", func(ve *manifest.VersionEdit, prior map[base.DiskFileNum]uint64) {
			prior[1<<21] = 1 << 30
			ve.NewTables = append(ve.NewTables, newTable(6, tVirtual(11, vopt{backing: 1 << 21, backingSize: 1 << 30, ctime: 5, rangeKeys: true}, nil)))
		}},
		{"virtual-blobrefs", func(ve *manifest.VersionEdit, prior map[base.DiskFileNum]uint64) {
			prior[60] = 600
			ve.NewTables = append(ve.NewTables, newTable(1, tVirtual(10, vopt{backing: 60, backingSize: 600, refs: 2}, nil)))
		}},
		{"virtual-blobrefs-bvs", func(ve *manifest.VersionEdit, prior map[base.DiskFileNum]uint64) {
			prior[60] = 600
			ve.NewTables = append(ve.NewTables, newTable(1, tVirtual(10, vopt{backing: 60, backingSize: 600, refs: 2, bvs: true}, nil)))
		}},
		{"virtual-prefix+suffix", func(ve *manifest.VersionEdit, prior map[base.DiskFileNum]uint64) {
			prior[60] = 600
			ve.NewTables = append(ve.NewTables, newTable(2, tVirtual(10, vopt{backing: 60, backingSize: 600, prefix: "after", suffix: "foo"}, nil)))
		}},
		{"virtual-prefix", func(ve *manifest.VersionEdit, prior map[base.DiskFileNum]uint64) {
			prior[60] = 600
			ve.NewTables = append(ve.NewTables, newTable(2, tVirtual(10, vopt{backing: 60, backingSize: 600, prefix: "p"}, nil)))
		}},
		{"virtual-suffix", func(ve *manifest.VersionEdit, prior map[base.DiskFileNum]uint64) {
			prior[60] = 600
			ve.NewTables = append(ve.NewTables, newTable(2, tVirtual(10, vopt{backing: 60, backingSize: 600, suffix: "@9"}, nil)))
		}},
		{"plain+2virtual-one-backing", func(ve *manifest.VersionEdit, prior map[base.DiskFileNum]uint64) {
			prior[60] = 600
			b := &manifest.TableBacking{DiskFileNum: 60, Size: 600}
			ve.NewTables = append(ve.NewTables, newTable(0, tPlain(4)),
				newTable(1, tVirtual(10, vopt{}, b)), newTable(2, tVirtual(12, vopt{suffix: "s", refs: 1, bvs: true}, b)))
		}},
	}},
	// CreatedBackingTables: the code documents that a backing is created in the edit that deletes the
	// physical table and adds at least one virtual table using it, so the option populates all three.
	{"created-backing", []option{
		{"virtualize-20", func(ve *manifest.VersionEdit, _ map[base.DiskFileNum]uint64) {
			phys := tPlain(20)
			if ve.DeletedTables == nil {
				ve.DeletedTables = map[manifest.DeletedTableEntry]*manifest.TableMetadata{}
			}
			ve.DeletedTables[manifest.DeletedTableEntry{Level: 3, FileNum: 20}] = phys
			ve.CreatedBackingTables = append(ve.CreatedBackingTables, phys.TableBacking)
			ve.NewTables = append(ve.NewTables, newTable(3, tVirtual(21, vopt{}, phys.TableBacking)))
		}},
		{"virtualize-20-and-2^33", func(ve *manifest.VersionEdit, _ map[base.DiskFileNum]uint64) {
			if ve.DeletedTables == nil {
				ve.DeletedTables = map[manifest.DeletedTableEntry]*manifest.TableMetadata{}
			}
			p1, p2 := tBlobRefs(20, 2), tPlainBig(1<<33)
			ve.DeletedTables[manifest.DeletedTableEntry{Level: 3, FileNum: 20}] = p1
			ve.DeletedTables[manifest.DeletedTableEntry{Level: 4, FileNum: 1 << 33}] = p2
			ve.CreatedBackingTables = append(ve.CreatedBackingTables, p1.TableBacking, p2.TableBacking)
			ve.NewTables = append(ve.NewTables,
				newTable(3, tVirtual(21, vopt{refs: 2, bvs: true}, p1.TableBacking)),
				newTable(3, tVirtual(22, vopt{prefix: "x"}, p1.TableBacking)),
				newTable(4, tVirtual(23, vopt{ctime: 1 << 31}, p2.TableBacking)))
		}},
	}},
	{"removed-backing", []option{
		{"70", func(ve *manifest.VersionEdit, _ map[base.DiskFileNum]uint64) {
			ve.RemovedBackingTables = append(ve.RemovedBackingTables, 70)
		}},
		{"71+2^40", func(ve *manifest.VersionEdit, _ map[base.DiskFileNum]uint64) {
			ve.RemovedBackingTables = append(ve.RemovedBackingTables, 71, 1<<40)
		}},
	}},
	{"new-blob-files", []option{
		{"B30", func(ve *manifest.VersionEdit, _ map[base.DiskFileNum]uint64) {
			ve.NewBlobFiles = append(ve.NewBlobFiles, manifest.BlobFileMetadata{FileID: 30,
				Physical: &manifest.PhysicalBlobFile{FileNum: 30, Size: 20535, ValueSize: 25935}})
		}},
		{"B30-ctime+B32->33", func(ve *manifest.VersionEdit, _ map[base.DiskFileNum]uint64) {
			ve.NewBlobFiles = append(ve.NewBlobFiles,
				manifest.BlobFileMetadata{FileID: 30, Physical: &manifest.PhysicalBlobFile{FileNum: 30, Size: 1 << 34, ValueSize: 1 << 35, CreationTime: 1718851200}},
				manifest.BlobFileMetadata{FileID: 32, Physical: &manifest.PhysicalBlobFile{FileNum: 33, Size: 1, ValueSize: 1}})
		}},
	}},
	{"deleted-blob-files", []option{
		{"B40", func(ve *manifest.VersionEdit, _ map[base.DiskFileNum]uint64) { addDeletedBlob(ve, 40, 40) }},
		{"B40+B41/43", func(ve *manifest.VersionEdit, _ map[base.DiskFileNum]uint64) {
			addDeletedBlob(ve, 40, 40)
			addDeletedBlob(ve, 41, 43)
		}},
		// Replacement: the code documents that NewBlobFiles must then contain the same BlobFileID.
		{"replace-B40/40->44", func(ve *manifest.VersionEdit, _ map[base.DiskFileNum]uint64) {
			addDeletedBlob(ve, 40, 40)
			ve.NewBlobFiles = append(ve.NewBlobFiles, manifest.BlobFileMetadata{FileID: 40,
				Physical: &manifest.PhysicalBlobFile{FileNum: 44, Size: 5, ValueSize: 10, CreationTime: 3}})
		}},
	}},
	{"excise", []option{
		{"[b,d)#5", func(ve *manifest.VersionEdit, _ map[base.DiskFileNum]uint64) {
			ve.ExciseBoundsRecord = append(ve.ExciseBoundsRecord, manifest.ExciseOpEntry{
				Bounds: base.UserKeyBounds{Start: []byte("b"), End: base.UserKeyExclusive([]byte("d"))}, SeqNum: 5})
		}},
		{"[,zz]#0+[k,k\\xff)#max", func(ve *manifest.VersionEdit, _ map[base.DiskFileNum]uint64) {
			ve.ExciseBoundsRecord = append(ve.ExciseBoundsRecord,
				manifest.ExciseOpEntry{Bounds: base.UserKeyBounds{Start: []byte(""), End: base.UserKeyInclusive([]byte("zz"))}, SeqNum: 0},
				manifest.ExciseOpEntry{Bounds: base.UserKeyBounds{Start: []byte("k"), End: base.UserKeyExclusive([]byte("k\xff"))}, SeqNum: base.SeqNumMax})
		}},
	}},
	{"marked-for-compaction", []option{
		{"L0.1", func(ve *manifest.VersionEdit, _ map[base.DiskFileNum]uint64) {
			ve.TablesMarkedForCompaction = append(ve.TablesMarkedForCompaction,
				manifest.TableMarkedForCompactionEntry{Level: 0, TableNum: 1, Meta: tPlain(1)})
		}},
		{"L6.50+L3.2^20", func(ve *manifest.VersionEdit, _ map[base.DiskFileNum]uint64) {
			ve.TablesMarkedForCompaction = append(ve.TablesMarkedForCompaction,
				manifest.TableMarkedForCompactionEntry{Level: 6, TableNum: 50, Meta: tPlain(50)},
				manifest.TableMarkedForCompactionEntry{Level: 3, TableNum: 1 << 20, Meta: tPlain(1 << 20)})
		}},
	}},
}

// Pick selects option Opt of group Grp.
type Pick struct {
	Grp int `json:"g"`
	Opt int `json:"o"`
}

func pickNames(ps []Pick) string {
	var s []string
	for _, p := range ps {
		s = append(s, groups[p.Grp].name+"="+groups[p.Grp].opts[p.Opt].name)
	}
	if len(s) == 0 {
		return "(empty edit)"
	}
	return strings.Join(s, " & ")
}

// enumEdits lists every choice of at most maxGroups groups (in menu order) with one option each,
// fewest groups first, simplest options first.
func enumEdits(maxGroups int) [][]Pick {
	var out [][]Pick
	for k := 0; k <= maxGroups; k++ {
		var rec func(start int, cur []Pick)
		rec = func(start int, cur []Pick) {
			if len(cur) == k {
				out = append(out, slices.Clone(cur))
				return
			}
			for g := start; g < len(groups); g++ {
				for o := range groups[g].opts {
					rec(g+1, append(cur, Pick{g, o}))
				}
			}
		}
		rec(0, nil)
	}
	return out
}

func buildEdit(ps []Pick) (*manifest.VersionEdit, map[base.DiskFileNum]uint64) {
	ve := &manifest.VersionEdit{}
	prior := map[base.DiskFileNum]uint64{}
	for _, p := range ps {
		groups[p.Grp].opts[p.Opt].build(ve, prior)
	}
	return ve, prior
}

// ---- canonical form ----

type cbuf struct{ b []byte }

func (c *cbuf) s(x string) *cbuf  { c.b = append(c.b, x...); return c }
func (c *cbuf) u(x uint64) *cbuf  { c.b = strconv.AppendUint(c.b, x, 10); return c }
func (c *cbuf) i(x int64) *cbuf   { c.b = strconv.AppendInt(c.b, x, 10); return c }
func (c *cbuf) q(x []byte) *cbuf  { c.b = strconv.AppendQuote(c.b, string(x)); return c }
func (c *cbuf) key(k base.InternalKey) *cbuf {
	return c.q(k.UserKey).s("/").u(uint64(k.Trailer))
}

// canonTable renders every persisted attribute of a table. Deliberately normalised:
//   - nil and empty user keys are the same key;
//   - BackingValueSize of a blob reference is compared for virtual tables only: blob_metadata.go
//     documents "For non-virtual sstables, this is the same as ValueSize", every consumer uses
//     max(BackingValueSize, ValueSize), and Encode does not persist it for physical tables.
func (c *cbuf) table(m *manifest.TableMetadata, backingFileNum base.DiskFileNum) {
	c.s("T").u(uint64(m.TableNum)).s(" size=").u(m.Size).s(" ctime=").i(m.CreationTime).
		s(" seq=[").u(uint64(m.SeqNums.Low)).s(",").u(uint64(m.SeqNums.High)).s("] abs=").u(uint64(m.LargestSeqNumAbsolute))
	c.s(" bounds=[").key(m.Smallest()).s(",").key(m.Largest()).s("]")
	if m.HasPointKeys {
		c.s(" points=[").key(m.PointKeyBounds.Smallest()).s(",").key(m.PointKeyBounds.Largest()).s("]")
	}
	if m.HasRangeKeys {
		if m.RangeKeyBounds == nil {
			c.s(" ranges=<nil bounds>")
		} else {
			c.s(" ranges=[").key(m.RangeKeyBounds.Smallest()).s(",").key(m.RangeKeyBounds.Largest()).s("]")
		}
	}
	c.s(" rkk=").u(uint64(m.RangeKeyKinds))
	if m.Virtual {
		bn := backingFileNum
		if m.TableBacking != nil {
			bn = m.TableBacking.DiskFileNum
		}
		c.s(" virtual(backing=").u(uint64(bn)).s(")")
	} else if m.TableBacking != nil {
		c.s(" physical(backing=").u(uint64(m.TableBacking.DiskFileNum)).s(",size=").u(m.TableBacking.Size).s(")")
	} else {
		c.s(" physical(no backing)")
	}
	c.s(" prefix=").q(m.SyntheticPrefixAndSuffix.Prefix()).s(" suffix=").q(m.SyntheticPrefixAndSuffix.Suffix())
	c.s(" depth=").i(int64(m.BlobReferenceDepth)).s(" refs=[")
	for _, r := range m.BlobReferences {
		c.s("(").u(uint64(r.FileID)).s(":").u(r.ValueSize)
		if m.Virtual {
			c.s("/").u(r.BackingValueSize)
		}
		c.s(")")
	}
	c.s("]")
}

func canonTable(m *manifest.TableMetadata, backingFileNum base.DiskFileNum) string {
	var c cbuf
	c.table(m, backingFileNum)
	return string(c.b)
}

func canonEdit(ve *manifest.VersionEdit) string {
	c := &cbuf{b: make([]byte, 0, 512)}
	c.s("comparer=").q([]byte(ve.ComparerName)).s(" log=").u(uint64(ve.MinUnflushedLogNum)).s(" prevlog=").u(ve.ObsoletePrevLogNum).
		s(" next=").u(ve.NextFileNum).s(" lastseq=").u(uint64(ve.LastSeqNum)).s("\n")
	if len(ve.DeletedTables) > 0 {
		dels := make([]manifest.DeletedTableEntry, 0, len(ve.DeletedTables))
		for d := range ve.DeletedTables {
			dels = append(dels, d)
		}
		sort.Slice(dels, func(i, j int) bool {
			if dels[i].Level != dels[j].Level {
				return dels[i].Level < dels[j].Level
			}
			return dels[i].FileNum < dels[j].FileNum
		})
		for _, d := range dels {
			c.s("del L").i(int64(d.Level)).s(".").u(uint64(d.FileNum)).s("\n")
		}
	}
	for _, nt := range ve.NewTables {
		c.s("add L").i(int64(nt.Level)).s(" ")
		c.table(nt.Meta, nt.BackingFileNum)
		c.s("\n")
	}
	for _, cb := range ve.CreatedBackingTables {
		c.s("add-backing ").u(uint64(cb.DiskFileNum)).s(" size=").u(cb.Size).s("\n")
	}
	for _, n := range ve.RemovedBackingTables {
		c.s("del-backing ").u(uint64(n)).s("\n")
	}
	for _, bf := range ve.NewBlobFiles {
		c.s("add-blob ").u(uint64(bf.FileID)).s(" phys=").u(uint64(bf.Physical.FileNum)).s(" size=").u(bf.Physical.Size).
			s(" vals=").u(bf.Physical.ValueSize).s(" ctime=").u(bf.Physical.CreationTime).s("\n")
	}
	if len(ve.DeletedBlobFiles) > 0 {
		dels := make([]manifest.DeletedBlobFileEntry, 0, len(ve.DeletedBlobFiles))
		for d := range ve.DeletedBlobFiles {
			dels = append(dels, d)
		}
		sort.Slice(dels, func(i, j int) bool {
			if dels[i].FileID != dels[j].FileID {
				return dels[i].FileID < dels[j].FileID
			}
			return dels[i].FileNum < dels[j].FileNum
		})
		for _, d := range dels {
			c.s("del-blob ").u(uint64(d.FileID)).s("/").u(uint64(d.FileNum)).s("\n")
		}
	}
	for _, e := range ve.ExciseBoundsRecord {
		c.s("excise ").q(e.Bounds.Start).s(" ").q(e.Bounds.End.Key).s(" kind=").u(uint64(e.Bounds.End.Kind)).s(" #").u(uint64(e.SeqNum)).s("\n")
	}
	for _, e := range ve.TablesMarkedForCompaction {
		c.s("mark L").i(int64(e.Level)).s(".").u(uint64(e.TableNum)).s("\n")
	}
	return string(c.b)
}

// resolveBackings does what Decode leaves to its caller: it gives every decoded virtual table a
// TableBacking, taken from the edit's own CreatedBackingTables, else from the backings a prior edit
// created (prior), else a bare one carrying only the decoded BackingFileNum.
func resolveBackings(ve *manifest.VersionEdit, prior map[base.DiskFileNum]uint64) {
	own := map[base.DiskFileNum]*manifest.TableBacking{}
	for _, b := range ve.CreatedBackingTables {
		if _, ok := own[b.DiskFileNum]; !ok {
			own[b.DiskFileNum] = b
		}
	}
	for i := range ve.NewTables {
		m := ve.NewTables[i].Meta
		if !m.Virtual || m.TableBacking != nil {
			continue
		}
		n := ve.NewTables[i].BackingFileNum
		b := own[n]
		if b == nil {
			b = &manifest.TableBacking{DiskFileNum: n, Size: prior[n]}
			own[n] = b
		}
		m.TableBacking = b
	}
}

// sameEncoding compares two encodings. Encode iterates the DeletedTables and DeletedBlobFiles maps, so
// with two or more entries in either the record order is not deterministic; then only length and byte
// multiset are compared here (the canonical forms are compared separately).
func sameEncoding(ve *manifest.VersionEdit, a, b []byte) bool {
	if len(ve.DeletedTables) <= 1 && len(ve.DeletedBlobFiles) <= 1 {
		return bytes.Equal(a, b)
	}
	if len(a) != len(b) {
		return false
	}
	x, y := slices.Clone(a), slices.Clone(b)
	slices.Sort(x)
	slices.Sort(y)
	return bytes.Equal(x, y)
}

// Structural conditions of the findings this check reported on the unchanged tree. A failure on a case
// that meets one of them gets that finding's own class, so that it can be tracked as a known finding
// without hiding anything else.

// bareNewFile5: a table for which Encode chooses tagNewFile5 (range keys) but writes no custom-field
// section (no creation time, not virtual, no blob references, range key sets possible). Decode expects
// the section - and its terminator - after every tagNewFile5 record.
func bareNewFile5(ve *manifest.VersionEdit) bool {
	for _, nt := range ve.NewTables {
		m := nt.Meta
		if m.HasRangeKeys && m.CreationTime == 0 && !m.Virtual && len(m.BlobReferences) == 0 && m.RangeKeyKinds != manifest.OnlyRangeKeyUnsetAndDelete {
			return true
		}
	}
	return false
}

const classBareNewFile5 = "newfile5-without-custom-fields"

// lossyDecodedTable: attributes Decode accepts but Encode never writes back.
func lossyDecodedTable(ve *manifest.VersionEdit) string {
	for _, nt := range ve.NewTables {
		m := nt.Meta
		custom := m.CreationTime != 0 || m.Virtual || len(m.BlobReferences) > 0 || m.RangeKeyKinds == manifest.OnlyRangeKeyUnsetAndDelete
		if !custom && (m.SyntheticPrefixAndSuffix.HasPrefix() || m.SyntheticPrefixAndSuffix.HasSuffix()) {
			return "decode-accepts-synthetic-affix-encode-drops"
		}
	}
	for _, nt := range ve.NewTables {
		if len(nt.Meta.BlobReferences) == 0 && nt.Meta.BlobReferenceDepth != 0 {
			return "decode-accepts-blob-depth-without-refs-encode-drops"
		}
	}
	return ""
}

type failure struct {
	class string
	desc  string
}

func catch(where string, f func()) (fl *failure) {
	defer func() {
		if r := recover(); r != nil {
			fl = &failure{"panic", fmt.Sprintf("panic in %s: %v", where, r)}
		}
	}()
	f()
	return nil
}

func encode(ve *manifest.VersionEdit) ([]byte, error) {
	var buf bytes.Buffer
	err := ve.Encode(&buf)
	return buf.Bytes(), err
}

func debugStrings(ve *manifest.VersionEdit) string {
	return ve.DebugString(base.DefaultFormatter) + "----\n" + ve.String()
}

// roundTrip checks one valid edit; it returns the encoding and nil, or the failure.
func roundTrip(ve *manifest.VersionEdit, prior map[base.DiskFileNum]uint64, verbose bool) (enc []byte, fl *failure) {
	enc, fl = roundTrip1(ve, prior, verbose)
	if fl != nil && fl.class != "panic" && bareNewFile5(ve) {
		fl.class = classBareNewFile5
	}
	return enc, fl
}

func roundTrip1(ve *manifest.VersionEdit, prior map[base.DiskFileNum]uint64, verbose bool) (enc []byte, fl *failure) {
	var err error
	if fl = catch("Encode", func() { enc, err = encode(ve) }); fl != nil {
		return nil, fl
	}
	if err != nil {
		return nil, &failure{"encode-error", "Encode of a valid edit failed: " + err.Error()}
	}
	var dec manifest.VersionEdit
	if fl = catch("Decode", func() { err = dec.Decode(bytes.NewReader(enc)) }); fl != nil {
		return enc, fl
	}
	if err != nil {
		return enc, &failure{"decode-error", fmt.Sprintf("Decode of the encoding of a valid edit failed: %v (encoding %x)", err, enc)}
	}
	resolveBackings(&dec, prior)
	c0, c1 := canonEdit(ve), canonEdit(&dec)
	if verbose {
		fmt.Printf("encoding: %x\noriginal:\n%sdecoded:\n%s", enc, c0, c1)
	}
	if c0 != c1 {
		return enc, &failure{"roundtrip-not-equal", fmt.Sprintf("decoded edit differs from the original\n--- original\n%s--- decoded\n%s", c0, c1)}
	}
	var enc2 []byte
	if fl = catch("Encode(decoded)", func() { enc2, err = encode(&dec) }); fl != nil {
		return enc, fl
	}
	if err != nil {
		return enc, &failure{"encode-error", "Encode of the decoded edit failed: " + err.Error()}
	}
	if !sameEncoding(ve, enc, enc2) {
		return enc, &failure{"reencode-differs", fmt.Sprintf("Encode(Decode(Encode(e))) != Encode(e)\n first %x\nsecond %x", enc, enc2)}
	}
	var d0, d1 string
	if fl = catch("DebugString", func() { d0, d1 = debugStrings(ve), debugStrings(&dec) }); fl != nil {
		return enc, fl
	}
	if d0 != d1 {
		return enc, &failure{"roundtrip-debugstring-differs", fmt.Sprintf("DebugString/String differ\n--- original\n%s--- decoded\n%s", d0, d1)}
	}
	return enc, nil
}
