// C18: record log round trip; truncation, zeroed tail and recycled files yield a clean prefix.
package recordh

import (
	"bytes"
	"fmt"
	"io"
	"sort"
	"sync"
	"sync/atomic"

	"github.com/cockroachdb/pebble/internal/verif/vlib"
	"github.com/cockroachdb/pebble/record"
)

// Record sizes, simplest first. The small family keeps whole logs below 150 bytes; the boundary
// family places chunk ends at every distance from the end of the 32 KiB block that one of the three
// header sizes (7, 11, 19) distinguishes.
var smallFam = []int{0, 1, 2, 3, 5, 7, 11, 12, 19, 20, 28, 40}

// blockSize - x for: header - {0,1,2} of each format (x = 7,8,9, 11,12,13, 19,20,21) and remainders that
// are just too small / just large enough for another header (legacy 6,7: x = 13,14; recyclable 10,11:
// x = 21,22; WAL-sync 11,18,19: x = 30,37,38).
var boundaryX = []int{7, 8, 9, 11, 12, 13, 14, 19, 20, 21, 22, 30, 37, 38}

func alphabet18() []int {
	a := append([]int(nil), smallFam...)
	for i := len(boundaryX) - 1; i >= 0; i-- {
		a = append(a, blockSize-boundaryX[i])
	}
	return append(a, blockSize, blockSize+1, 2*blockSize+3)
}

// The reduced alphabet of the depth-3 sequences of the thorough tier.
func alphabet18r() []int {
	return []int{0, 1, 7, 40, blockSize - 38, blockSize - 30, blockSize - 21, blockSize - 20, blockSize - 19,
		blockSize - 12, blockSize - 11, blockSize - 8, blockSize - 7, blockSize, blockSize + 1, 2*blockSize + 3}
}

// inReduced: all sizes belong to the reduced alphabet.
func inReduced(sizes []int) bool {
	for _, s := range sizes {
		ok := false
		for _, r := range alphabet18r() {
			ok = ok || r == s
		}
		if !ok {
			return false
		}
	}
	return true
}

func isSmallShape(sizes []int) bool {
	for _, s := range sizes {
		if s > 40 {
			return false
		}
	}
	return true
}

const newLogNum, oldLogNum = 8, 7

// Case is the replay artefact of both checks.
type Case struct {
	Prop   string `json:"prop"`
	Format int    `json:"format"` // 0 legacy, 1 recyclable, 2 walsync
	LogNum uint32 `json:"lognum"`
	Sizes  []int  `json:"sizes"`
	// C18: Kind is full | cut | zerotail | recycled; Off the cut offset / first zeroed offset /
	// number of bytes of the new log that overwrite the old one.
	// C19: Kind is the corruption pattern xor01 | xor80 | xorff | zerochunk | zeropage at offset Off.
	Kind      string `json:"kind"`
	Off       int    `json:"off"`
	OldFormat int    `json:"old_format,omitempty"`
	OldSizes  []int  `json:"old_sizes,omitempty"`
	NoDiag    bool   `json:"no_bitflip_diag,omitempty"`
	ImgHash   uint64 `json:"img_hash,omitempty"`
	Note      string `json:"note,omitempty"`
}

// cuts18 returns the truncation offsets of a log: every offset for logs up to one page; otherwise
// every offset within 40 bytes of a chunk start, payload start, chunk end or block boundary, plus
// every stride-th offset.
func cuts18(l *logImg, stride int) []int {
	L := len(l.Data)
	if L <= pageSize {
		out := make([]int, L)
		for i := range out {
			out[i] = i
		}
		return out
	}
	mark := make([]bool, L)
	around := func(b int) {
		for t := b - 40; t <= b+40; t++ {
			if t >= 0 && t < L {
				mark[t] = true
			}
		}
	}
	for _, c := range l.Chunks {
		around(c.Off)
		around(c.Off + c.Hdr)
		around(c.End())
	}
	for b := 0; b <= L; b += blockSize {
		around(b)
	}
	around(L)
	for t := 0; t < L; t += stride {
		mark[t] = true
	}
	var out []int
	for t, m := range mark {
		if m {
			out = append(out, t)
		}
	}
	return out
}

// zeroStarts18: first zeroed offset. Every offset for logs up to one page, else every 4 KiB boundary;
// always also the end of the log (zeros appended only).
func zeroStarts18(l *logImg) []int {
	L := len(l.Data)
	var out []int
	if L <= pageSize {
		for p := 0; p < L; p++ {
			out = append(out, p)
		}
	} else {
		for p := 0; p < L; p += pageSize {
			out = append(out, p)
		}
	}
	return append(out, L)
}

// overlayCuts18: how many bytes of the new log have reached the recycled file. The whole log, and the
// crash points at every chunk start, payload start, chunk end and block boundary (pm1: each -1/+0/+1).
func overlayCuts18(l *logImg, pm1 bool) []int {
	L := len(l.Data)
	set := map[int]bool{L: true}
	d := 0
	if pm1 {
		d = 1
	}
	add := func(b int) {
		for t := b - d; t <= b+d; t++ {
			if t >= 0 && t <= L {
				set[t] = true
			}
		}
	}
	for _, c := range l.Chunks {
		add(c.Off)
		add(c.Off + c.Hdr)
		add(c.End())
	}
	for b := blockSize; b <= L; b += blockSize {
		add(b)
	}
	out := make([]int, 0, len(set))
	for t := range set {
		out = append(out, t)
	}
	sort.Ints(out)
	return out
}

type run18 struct {
	c      *vlib.Ctx
	stride int
	cases  atomic.Int64
}

type outKey struct {
	format int
	kind   string
	ec     string
	all    bool
}

// acc collects the counters of one work item and hands them to vlib in one go.
type acc struct {
	outcomes      map[outKey]int64
	states, nontr map[uint64]struct{}
	evals, trans  int
}

func newAcc() *acc {
	return &acc{outcomes: map[outKey]int64{}, states: map[uint64]struct{}{}, nontr: map[uint64]struct{}{}}
}

func (a *acc) flush(r *run18) {
	c := r.c
	c.Eval(a.evals)
	c.Trans(a.trans)
	r.cases.Add(int64(a.evals))
	for k, n := range a.outcomes {
		c.OutcomeN(fmt.Sprintf("%s/%s: %s after %s", fmtName[k.format], k.kind, k.ec, map[bool]string{true: "all records", false: "a strict prefix"}[k.all]), n)
	}
	for h := range a.states {
		c.State(h)
	}
	for h := range a.nontr {
		c.Nontrivial(h)
	}
}

// verdict18 applies the oracle to one read. minN: records that must be returned (those lying entirely
// in the intact part); exact: the image is a complete log, so all records and a clean io.EOF are due.
func verdict18(l *logImg, res readRes, minN int, exact bool) (class, desc string) {
	switch {
	case res.Panic != "":
		return "panic", "reader panicked: " + res.Panic
	case res.Bad != "" && res.Partial:
		return "partial-record", res.Bad
	case res.Bad != "":
		return "foreign-record", res.Bad
	case exact && (res.N != len(l.Recs) || res.Err != io.EOF):
		return "roundtrip-mismatch", fmt.Sprintf("complete log: %d of %d records returned, then %v (want all, then io.EOF)", res.N, len(l.Recs), res.Err)
	case res.N < minN:
		return "lost-complete-record", fmt.Sprintf("%d records lie entirely in the intact part but only %d were returned (then %v)", minN, res.N, res.Err)
	case !isEndOfLog(res.Err):
		return "unexpected-error", fmt.Sprintf("after %d records the log ended with %v, which is neither io.EOF nor an end-of-log error", res.N, res.Err)
	}
	return "", ""
}

// account: logKey identifies the log (and, for recycled files, the old log underneath).
func (a *acc) account(l *logImg, logKey uint64, kind string, off int, res readRes) {
	a.evals++
	a.trans += res.Calls
	ec := errClass(res.Err)
	a.outcomes[outKey{l.Format, kind, ec, res.N == len(l.Recs)}]++
	if kind == "recycled" {
		// the state of a recycled read: (new log, bytes of it written, records returned, end)
		a.states[vlib.Hash(l.Format, fmt.Sprint(l.Sizes), kind, off, res.N, ec)] = struct{}{}
	} else {
		a.states[vlib.Hash(logKey, kind, res.N, ec)] = struct{}{}
	}
	if res.N > 0 && res.N < len(l.Recs) {
		a.nontr[vlib.Hash(logKey, kind, l.chunkAt(off))] = struct{}{}
	}
}

// oneLog writes one log and runs the round trip, every cut and every zeroed tail on it.
func (r *run18) oneLog(format int, sizes []int, noDiag bool, verbose bool) *logImg {
	c := r.c
	l, err := writeLog(format, newLogNum, newLogNum, sizes)
	if err != nil {
		c.Violation("writer-error", fmt.Sprintf("%s sizes=%v: %v", fmtName[format], sizes, err),
			Case{Prop: "C18", Format: format, LogNum: newLogNum, Sizes: sizes, Kind: "full", NoDiag: noDiag})
		return nil
	}
	mk := func(kind string, off int) Case {
		return Case{Prop: "C18", Format: format, LogNum: newLogNum, Sizes: sizes, Kind: kind, Off: off, NoDiag: noDiag, ImgHash: vlib.Hash(l.Data)}
	}
	a := newAcc()
	defer a.flush(r)
	lk := vlib.Hash(l.Format, fmt.Sprint(l.Sizes))
	// (1) round trip
	res := readLog(bytes.NewReader(l.Data), l.LogNum, l.Recs, verbose)
	a.account(l, lk, "full", 0, res)
	if cl, d := verdict18(l, res, len(l.Recs), true); cl != "" {
		c.Violation(cl, fmt.Sprintf("%s: %s", l, d), mk("full", 0))
	}
	// (2) truncation
	for _, t := range cuts18(l, r.stride) {
		res := readLog(bytes.NewReader(l.Data[:t]), l.LogNum, l.Recs, false)
		a.account(l, lk, "cut", t, res)
		if cl, d := verdict18(l, res, l.complete(t), false); cl != "" {
			c.Violation(cl, fmt.Sprintf("%s cut at %d: %s", l, t, d), mk("cut", t))
		}
	}
	// (3) zeroed tail
	for _, p := range zeroStarts18(l) {
		res := readLog(zeroTailImage(l, p), l.LogNum, l.Recs, false)
		a.account(l, lk, "zerotail", p, res)
		if cl, d := verdict18(l, res, l.complete(p), false); cl != "" {
			c.Violation(cl, fmt.Sprintf("%s zeroed from %d: %s", l, p, d), mk("zerotail", p))
		}
	}
	return l
}

// zeroTailImage: the log up to p, then zeros up to the end of the page after the one holding the
// original end of the log (a preallocated file whose tail never reached the disk).
func zeroTailImage(l *logImg, p int) io.Reader {
	total := (len(l.Data)+pageSize-1)/pageSize*pageSize + pageSize
	return io.MultiReader(bytes.NewReader(l.Data[:p]), &zeros{total - p})
}

// recycled runs the new log written over every longer old log.
func (r *run18) recycled(nl *logImg, olds []*logImg, smallOnly bool, pm1 bool, reducedOnly bool) {
	c := r.c
	cuts := overlayCuts18(nl, pm1)
	a := newAcc()
	defer a.flush(r)
	for _, ol := range olds {
		if len(ol.Data) <= len(nl.Data) || (reducedOnly && !inReduced(ol.Sizes)) {
			continue
		}
		small := isSmallShape(ol.Sizes) && isSmallShape(nl.Sizes)
		if small != smallOnly {
			continue
		}
		lk := vlib.Hash(nl.Format, fmt.Sprint(nl.Sizes), ol.Format, fmt.Sprint(ol.Sizes))
		a.nontr[lk] = struct{}{}
		for _, t := range cuts {
			res := readLog(twoPart(nl.Data, ol.Data, t), nl.LogNum, nl.Recs, false)
			a.account(nl, lk, "recycled", t, res)
			exact := t == len(nl.Data)
			if cl, d := verdict18(nl, res, nl.complete(t), exact); cl != "" {
				if exact && cl == "roundtrip-mismatch" {
					cl = "recycled-unclean-end"
				}
				c.Violation(cl, fmt.Sprintf("new %s (first %d bytes written) over old %s: %s", nl, t, ol, d),
					Case{Prop: "C18", Format: nl.Format, LogNum: nl.LogNum, Sizes: nl.Sizes, Kind: "recycled", Off: t,
						OldFormat: ol.Format, OldSizes: ol.Sizes, NoDiag: !small})
			}
		}
	}
}

func replay18(c *vlib.Ctx, cs Case) {
	record.VerifDisableBitFlipCheck(cs.NoDiag)
	l, err := writeLog(cs.Format, cs.LogNum, cs.LogNum, cs.Sizes)
	if err != nil {
		fmt.Println("writer:", err)
		c.Violation("writer-error", err.Error(), cs)
		return
	}
	fmt.Printf("log: %s\n", l)
	for _, ch := range l.Chunks {
		fmt.Println("  ", ch)
	}
	if cs.ImgHash != 0 && cs.ImgHash != vlib.Hash(l.Data) {
		fmt.Println("note: the regenerated log differs from the one of the original run (synced-offset fields depend on flush timing for records that fill whole blocks)")
	}
	var src io.Reader
	minN, exact := 0, false
	switch cs.Kind {
	case "full":
		src, minN, exact = bytes.NewReader(l.Data), len(l.Recs), true
	case "cut":
		src, minN = bytes.NewReader(l.Data[:cs.Off]), l.complete(cs.Off)
	case "zerotail":
		src, minN = zeroTailImage(l, cs.Off), l.complete(cs.Off)
	case "recycled":
		ol, err := writeLog(cs.OldFormat, cs.LogNum-1, cs.LogNum-1, cs.OldSizes)
		if err != nil {
			fmt.Println("writer (old log):", err)
			return
		}
		fmt.Printf("old log underneath: %s\n", ol)
		for _, ch := range ol.Chunks {
			fmt.Println("  ", ch)
		}
		src, minN, exact = twoPart(l.Data, ol.Data, cs.Off), l.complete(cs.Off), cs.Off == len(l.Data)
	default:
		fmt.Println("unknown kind", cs.Kind)
		return
	}
	fmt.Printf("reading (%s, offset %d): at least %d records due, complete=%v\n", cs.Kind, cs.Off, minN, exact)
	res := readLog(src, l.LogNum, l.Recs, true)
	cl, d := verdict18(l, res, minN, exact)
	fmt.Printf("verdict: class=%q %s\n", cl, d)
	if cl != "" {
		c.Violation(cl, d, cs)
	}
}

func check18(c *vlib.Ctx) {
	alpha := alphabet18()
	K := len(alpha)
	type item struct {
		format int
		sizes  []int
	}
	decode := func(al []int, i, lo, hi int) []int {
		seq := vlib.SeqDecode(i, len(al), lo, hi)
		s := make([]int, len(seq))
		for j, x := range seq {
			s[j] = al[x]
		}
		return s
	}
	var shapes [][]int
	for i, n := 0, vlib.SeqCount(K, 1, 2); i < n; i++ {
		shapes = append(shapes, decode(alpha, i, 1, 2))
	}
	nDepth2 := len(shapes)
	stride := 509
	recShapes := shapes // new logs of the recycled phase
	if c.Thorough() {
		stride = 61
		al3 := alphabet18r()
		recShapes = append([][]int(nil), shapes...)
		for i, n := 0, vlib.SeqCount(len(al3), 3, 3); i < n; i++ {
			recShapes = append(recShapes, decode(al3, i, 3, 3))
		}
		for i, n := 0, vlib.SeqCount(K, 3, 3); i < n; i++ {
			shapes = append(shapes, decode(alpha, i, 3, 3))
		}
	}
	r := &run18{c: c, stride: stride}
	formats := []int{fLegacy, fRecyclable, fWALSync}

	// cache of the depth<=2 logs of the two recyclable formats: the "old" logs of the recycled phase
	var mu sync.Mutex
	cache := map[string]*logImg{}
	key := func(f int, s []int) string { return fmt.Sprint(f, s) }

	var notes []string
	phase := func(name string, small bool) bool {
		record.VerifDisableBitFlipCheck(!small)
		var items []item
		for _, s := range shapes {
			if isSmallShape(s) == small {
				for _, f := range formats {
					items = append(items, item{f, s})
				}
			}
		}
		before := r.cases.Load()
		done, complete := c.Each(len(items), func(i int) {
			it := items[i]
			l := r.oneLog(it.format, it.sizes, !small, false)
			if l != nil && it.format != fLegacy && len(it.sizes) <= 2 {
				mu.Lock()
				cache[key(it.format, it.sizes)] = l
				mu.Unlock()
			}
			if l != nil && i%97 == 0 {
				c.Sample(map[string]any{"writer": fmtName[l.Format], "sizes": l.Sizes, "log_bytes": len(l.Data), "chunks": len(l.Chunks),
					"cuts": len(cuts18(l, stride)), "zeroed_tails": len(zeroStarts18(l))})
			}
		})
		notes = append(notes, fmt.Sprintf("%s: %d of %d (writer, size sequence) logs, %d images read", name, done, len(items), r.cases.Load()-before))
		if !complete {
			c.Incomplete(fmt.Sprintf("budget expired in phase %q after %d of %d logs; earlier phases complete", name, done, len(items)))
		}
		return complete
	}
	ok := phase("small logs, round trip + every cut + every zeroed tail (bit-flip diagnostic on)", true) &&
		phase("block-boundary logs, round trip + cuts near chunk/block boundaries and strided + zeroed tails at 4KiB (bit-flip diagnostic off)", false)

	if ok {
		// recycled files: new log (number 8) over every longer old log (number 7) of depth <= 2.
		// Quick: old and new of the same format. Thorough: also across the two formats.
		olds := map[int][]*logImg{}
		for _, s := range shapes[:nDepth2] {
			for _, f := range []int{fRecyclable, fWALSync} {
				l, err := writeLog(f, oldLogNum, oldLogNum, s)
				if err != nil {
					c.Violation("writer-error", fmt.Sprintf("old log %s %v: %v", fmtName[f], s, err), Case{Prop: "C18", Format: f, LogNum: oldLogNum, Sizes: s, Kind: "full"})
					continue
				}
				olds[f] = append(olds[f], l)
			}
		}
		recycledPhase := func(name string, small bool) bool {
			record.VerifDisableBitFlipCheck(!small)
			type job struct {
				nf    int
				sizes []int
			}
			var jobs []job
			// quick tier, block-sized logs: old and new logs over the reduced alphabet only
			reducedOnly := !small && !c.Thorough()
			for _, s := range recShapes {
				if (small && !isSmallShape(s)) || (reducedOnly && !inReduced(s)) {
					continue
				}
				for _, f := range []int{fRecyclable, fWALSync} {
					jobs = append(jobs, job{f, s})
				}
			}
			before := r.cases.Load()
			done, complete := c.Each(len(jobs), func(i int) {
				j := jobs[i]
				mu.Lock()
				nl := cache[key(j.nf, j.sizes)]
				mu.Unlock()
				if nl == nil {
					var err error
					if nl, err = writeLog(j.nf, newLogNum, newLogNum, j.sizes); err != nil {
						return // reported by the first phases
					}
				}
				pm1 := small || (c.Thorough() && len(j.sizes) <= 2)
				r.recycled(nl, olds[j.nf], small, pm1, reducedOnly)
				if c.Thorough() && len(j.sizes) <= 2 {
					r.recycled(nl, olds[3-j.nf], small, pm1, reducedOnly)
				}
			})
			notes = append(notes, fmt.Sprintf("%s: %d of %d new logs, %d images read", name, done, len(jobs), r.cases.Load()-before))
			if !complete {
				c.Incomplete(fmt.Sprintf("budget expired in phase %q after %d of %d new logs; earlier phases complete", name, done, len(jobs)))
			}
			return complete
		}
		_ = recycledPhase("recycled, both logs small (diagnostic on)", true) &&
			recycledPhase("recycled, a block-boundary log involved (diagnostic off)", false)
	}
	record.VerifDisableBitFlipCheck(false)
	c.Note("phases", notes)
	c.Note("scope", fmt.Sprintf("record sizes %v; sequences of 1..2 sizes (%d)%s; writers legacy/recyclable/walsync (LogWriter: SyncRecord + wait after every record); "+
		"cuts: all offsets for logs <= 4096 bytes, else all offsets within 40 bytes of every chunk start/payload start/chunk end/block boundary plus every %dth offset; "+
		"zeroed tail from every offset (logs <= 4096 bytes) or every 4 KiB boundary, file extended with zeros to a page boundary; "+
		"recycled: new log number %d over every LONGER old log number %d of 1..2 records (quick: same format, and when a log larger than 150 bytes is involved both logs over the reduced alphabet "+fmt.Sprint(alphabet18r())+"; thorough: full alphabet, both formats for new logs of 1..2 records), "+
		"new log complete or written only up to a chunk start/payload start/chunk end/block boundary (also -1/+1 when both logs are small, and in the thorough tier for new logs of 1..2 records).",
		alpha, nDepth2, map[bool]string{true: fmt.Sprintf(" plus all %d sequences of 3 sizes (recycled phase: new logs of 3 records only over %v)", len(shapes)-nDepth2, alphabet18r()), false: ""}[c.Thorough()],
		stride, newLogNum, oldLogNum))
}
