package recordh

import (
	"fmt"
	"testing"

	"github.com/cockroachdb/pebble/internal/verif/vlib"
)

func TestCheck(t *testing.T) {
	vlib.Main(t, "C18", func(c *vlib.Ctx) {
		if c.ReplayPath() != "" {
			var cs Case
			if err := c.LoadReplay(&cs); err != nil {
				t.Fatal(err)
			}
			fmt.Printf("replay of a %s case: %+v\n", cs.Prop, cs)
			if cs.Prop == "C19" {
				replay19(c, cs)
			} else {
				replay18(c, cs)
			}
			c.Eval(1)
			return
		}
		switch c.Prop {
		case "C18":
			check18(c)
		case "C19":
			check19(c)
		default:
			c.Incomplete("harness record run for unknown property " + c.Prop)
		}
	})
}
