// Package recordh is the shared harness of C18 (record log round trip / clean prefix) and C19 (WAL
// corruption inside synced data is reported). Both run the real record.Writer / record.LogWriter /
// record.Reader of /repo/record on in-memory files; nothing is mocked. The harness reads c.Prop to
// know which of the two checks it is.
//
// This file: the in-memory file, the three writers, an independent reference parser of the wire
// format (used only to know where chunks lie and what their headers say), the reader loop.
package recordh

import (
	"bytes"
	"encoding/binary"
	"fmt"
	"io"
	"runtime"
	"sync"
	"time"

	"github.com/cockroachdb/errors"
	"github.com/cockroachdb/pebble/internal/base"
	"github.com/cockroachdb/pebble/internal/crc"
	"github.com/cockroachdb/pebble/record"
)

const (
	blockSize = 32 * 1024
	pageSize  = 4096
)

// Wire formats.
const (
	fLegacy = iota
	fRecyclable
	fWALSync
)

var fmtName = []string{"legacy", "recyclable", "walsync"}
var hdrSize = []int{7, 11, 19}

// memFile is the file under the writers: Write appends, Sync records the length that is durable.
type memFile struct {
	mu    sync.Mutex
	buf   []byte
	syncs []int
}

func (f *memFile) Write(p []byte) (int, error) {
	f.mu.Lock()
	f.buf = append(f.buf, p...)
	f.mu.Unlock()
	return len(p), nil
}

func (f *memFile) Sync() error {
	f.mu.Lock()
	f.syncs = append(f.syncs, len(f.buf))
	f.mu.Unlock()
	return nil
}

func (f *memFile) synced() int {
	f.mu.Lock()
	defer f.mu.Unlock()
	if len(f.syncs) == 0 {
		return 0
	}
	return f.syncs[len(f.syncs)-1]
}

// content is the payload of record idx of the log with the given tag: deterministic, and different
// for different (tag, idx, size), so that a record of an older log, a merged or a shifted record
// can never compare equal to the expected one (records of size 0 excepted).
func content(tag uint32, idx, size int) []byte {
	b := make([]byte, size)
	x := uint64(tag)*0x9E3779B97F4A7C15 ^ uint64(idx+1)*0xBF58476D1CE4E5B9 ^ uint64(size+1)*0x94D049BB133111EB
	if x == 0 {
		x = 1
	}
	for j := range b {
		x ^= x << 13
		x ^= x >> 7
		x ^= x << 17
		b[j] = byte(x >> 29)
	}
	return b
}

// chunk is one entry of the reference parse of an intact log.
type chunk struct {
	Off     int    // offset of the header
	Hdr     int    // header size (0 for a pad)
	Len     int    // payload length (for a pad: number of padding bytes)
	Enc     byte   // chunk encoding byte
	Fmt     int    // fLegacy / fRecyclable / fWALSync
	Pos     int    // 1 full, 2 first, 3 middle, 4 last
	LogNum  uint32 // recyclable and WAL-sync formats
	Synced  uint64 // WAL-sync format
	Pad     bool   // zero padding up to the end of the block (pseudo chunk)
	Trailer bool   // EOF trailer
	Rec     int    // index of the record the chunk belongs to (pad/trailer: index of the next record)
}

func (c chunk) End() int { return c.Off + c.Hdr + c.Len }

func (c chunk) String() string {
	switch {
	case c.Pad:
		return fmt.Sprintf("[%d,%d) pad", c.Off, c.End())
	case c.Trailer:
		return fmt.Sprintf("[%d,%d) EOF-trailer lognum=%d", c.Off, c.End(), c.LogNum)
	}
	s := fmt.Sprintf("[%d,%d) rec%d %s enc=%d len=%d", c.Off, c.End(), c.Rec, []string{"", "full", "first", "middle", "last"}[c.Pos], c.Enc, c.Len)
	if c.Fmt != fLegacy {
		s += fmt.Sprintf(" lognum=%d", c.LogNum)
	}
	if c.Fmt == fWALSync {
		s += fmt.Sprintf(" synced=%d", c.Synced)
	}
	return s
}

// parseLog is an independent reading of the wire format described in the header comment of
// record.go. It is applied to intact logs only and fails on anything unexpected.
func parseLog(data []byte) (chunks []chunk, recEnd []int, err error) {
	pos, rec := 0, 0
	inRec := false
	for pos < len(data) {
		blockEnd := (pos/blockSize + 1) * blockSize
		if blockEnd > len(data) {
			blockEnd = len(data)
		}
		pad := func() error {
			for i := pos; i < blockEnd; i++ {
				if data[i] != 0 {
					return fmt.Errorf("non-zero padding byte at %d", i)
				}
			}
			chunks = append(chunks, chunk{Off: pos, Len: blockEnd - pos, Pad: true, Rec: rec})
			pos = blockEnd
			return nil
		}
		if blockEnd-pos < 7 {
			if err := pad(); err != nil {
				return nil, nil, err
			}
			continue
		}
		sum := binary.LittleEndian.Uint32(data[pos:])
		ln := int(binary.LittleEndian.Uint16(data[pos+4:]))
		enc := data[pos+6]
		if sum == 0 && ln == 0 && enc == 0 {
			if err := pad(); err != nil {
				return nil, nil, err
			}
			continue
		}
		if enc < 1 || enc > 12 {
			return nil, nil, fmt.Errorf("chunk at %d: encoding %d", pos, enc)
		}
		c := chunk{Off: pos, Len: ln, Enc: enc, Fmt: int(enc-1) / 4, Pos: int(enc-1)%4 + 1, Rec: rec}
		c.Hdr = hdrSize[c.Fmt]
		if pos+c.Hdr > blockEnd {
			return nil, nil, fmt.Errorf("chunk at %d: header crosses the block end", pos)
		}
		if c.Fmt != fLegacy {
			c.LogNum = binary.LittleEndian.Uint32(data[pos+7:])
		}
		if c.Fmt == fWALSync {
			c.Synced = binary.LittleEndian.Uint64(data[pos+11:])
		}
		if c.Fmt == fRecyclable && sum == 0 && ln == 0 && c.Pos == 1 {
			c.Trailer = true
			chunks = append(chunks, c)
			pos = c.End()
			if pos != len(data) {
				return nil, nil, fmt.Errorf("data after the EOF trailer at %d", pos)
			}
			break
		}
		if c.End() > blockEnd {
			return nil, nil, fmt.Errorf("chunk at %d: payload crosses the block end", pos)
		}
		if got := crc.New(data[pos+6 : c.End()]).Value(); got != sum {
			return nil, nil, fmt.Errorf("chunk at %d: checksum", pos)
		}
		switch c.Pos {
		case 1, 2:
			if inRec {
				return nil, nil, fmt.Errorf("chunk at %d: first chunk inside a record", pos)
			}
		case 3, 4:
			if !inRec {
				return nil, nil, fmt.Errorf("chunk at %d: continuation outside a record", pos)
			}
		}
		inRec = c.Pos == 2 || c.Pos == 3
		chunks = append(chunks, c)
		pos = c.End()
		if !inRec {
			recEnd = append(recEnd, pos)
			rec++
		}
	}
	if inRec {
		return nil, nil, fmt.Errorf("log ends inside a record")
	}
	return chunks, recEnd, nil
}

// logImg is a log written by one of the real writers together with its reference parse.
type logImg struct {
	Format  int
	LogNum  uint32
	Sizes   []int
	Recs    [][]byte
	Data    []byte
	PreSync []int // PreSync[i]: bytes known durable (last completed Sync) when record i was handed to the writer
	Chunks  []chunk
	RecEnd  []int
}

func (l *logImg) String() string {
	return fmt.Sprintf("%s lognum=%d sizes=%v len=%d", fmtName[l.Format], l.LogNum, l.Sizes, len(l.Data))
}

// complete returns how many records lie entirely below offset t.
func (l *logImg) complete(t int) int {
	n := 0
	for _, e := range l.RecEnd {
		if e <= t {
			n++
		}
	}
	return n
}

// chunkAt returns the index of the (pseudo) chunk containing offset off, or -1.
func (l *logImg) chunkAt(off int) int {
	for i, c := range l.Chunks {
		if off >= c.Off && off < c.End() {
			return i
		}
	}
	return -1
}

func walSyncCfg(on bool) record.LogWriterConfig {
	// WriteWALSyncOffsets selects the WAL-sync chunk format (true) or the recyclable one (false).
	// QueueSemChan stays nil: with a semaphore the flush loop pops one token per synced record.
	return record.LogWriterConfig{WriteWALSyncOffsets: func() bool { return on }}
}

// writeLog writes the records with the real writer of the format. LogWriter records are written with
// SyncRecord and the harness waits for the sync (and for the flush loop to finish the iteration, so
// that the next chunk header carries the new synced offset) before handing over the next record.
func writeLog(format int, logNum uint32, tag uint32, sizes []int) (img *logImg, err error) {
	recs := make([][]byte, len(sizes))
	for i, s := range sizes {
		recs[i] = content(tag, i, s)
	}
	return writeRecs(format, logNum, recs)
}

// writeRecs is writeLog for given record payloads.
func writeRecs(format int, logNum uint32, recs [][]byte) (img *logImg, err error) {
	defer func() {
		if r := recover(); r != nil {
			err = fmt.Errorf("writer panic: %v", r)
		}
	}()
	img = &logImg{Format: format, LogNum: logNum, Recs: recs}
	for _, p := range recs {
		img.Sizes = append(img.Sizes, len(p))
	}
	sizes := img.Sizes
	f := &memFile{}
	switch format {
	case fLegacy:
		w := record.NewWriter(f)
		for i, p := range img.Recs {
			img.PreSync = append(img.PreSync, 0)
			if i%2 == 0 {
				if _, err := w.WriteRecord(p); err != nil {
					return nil, err
				}
			} else {
				// the streaming interface, in two pieces
				rw, err := w.Next()
				if err != nil {
					return nil, err
				}
				if _, err := rw.Write(p[:len(p)/2]); err != nil {
					return nil, err
				}
				if _, err := rw.Write(p[len(p)/2:]); err != nil {
					return nil, err
				}
			}
		}
		if err := w.Close(); err != nil {
			return nil, err
		}
	default:
		w := record.NewLogWriter(f, base.DiskFileNum(logNum), walSyncCfg(format == fWALSync))
		for _, p := range img.Recs {
			img.PreSync = append(img.PreSync, f.synced())
			var wg sync.WaitGroup
			var serr error
			wg.Add(1)
			off, err := w.SyncRecord(p, &wg, &serr)
			if err != nil {
				return nil, err
			}
			wg.Wait()
			if serr != nil {
				return nil, serr
			}
			// The waiter is released inside the flush loop's iteration; the iteration ends (and
			// LogWriter.syncedOffset is stored) a little later. Metrics() takes the flusher mutex
			// and its byte count is updated at the very end of an iteration.
			deadline := time.Now().Add(20 * time.Second)
			for w.Metrics().WriteThroughput.Bytes < off {
				runtime.Gosched()
				if time.Now().After(deadline) {
					return nil, fmt.Errorf("flush loop did not settle")
				}
			}
		}
		if err := w.Close(); err != nil {
			return nil, err
		}
	}
	img.Data = f.buf
	img.Chunks, img.RecEnd, err = parseLog(img.Data)
	if err != nil {
		return nil, fmt.Errorf("reference parse of the written log: %v", err)
	}
	if len(img.RecEnd) != len(sizes) {
		return nil, fmt.Errorf("reference parse finds %d records, %d written", len(img.RecEnd), len(sizes))
	}
	return img, nil
}

// ---------------------------------------------------------------------------------------------

// readerSlot is reused between reads: a fresh record.Reader value (32 KiB buffer) is copied into rd
// for every image, which avoids one large heap allocation per read.
type readerSlot struct {
	rd  record.Reader
	buf []byte
}

var slotPool = sync.Pool{New: func() any { return &readerSlot{buf: make([]byte, 0, 3*blockSize)} }}

// readRes is what the real reader made of an image.
type readRes struct {
	N       int    // records returned complete and byte-identical to want[0..N)
	Err     error  // the error that ended the log
	Bad     string // non-empty: the reader returned something that is not the next expected record
	Partial bool   // Bad, and what was returned is a strict prefix of the expected record
	Panic   string
	Calls   int
}

func errClass(err error) string {
	switch {
	case err == nil:
		return "nil"
	case err == io.EOF:
		return "io.EOF"
	case errors.Is(err, record.ErrUnexpectedEOF):
		return "ErrUnexpectedEOF"
	case errors.Is(err, record.ErrInvalidChunk):
		return "ErrInvalidChunk"
	case errors.Is(err, record.ErrZeroedChunk):
		return "ErrZeroedChunk"
	case errors.Is(err, io.EOF):
		return "wrapped-io.EOF"
	}
	return "other"
}

// isEndOfLog: the clean end or one of the three end-of-log errors of the package (IsInvalidRecord).
func isEndOfLog(err error) bool {
	switch errClass(err) {
	case "io.EOF", "ErrUnexpectedEOF", "ErrInvalidChunk", "ErrZeroedChunk":
		return true
	}
	return false
}

// isCorruptionReport: the errors that replayWAL marks ErrCorruption for every WAL, also the last one
// (recovery.go: io.EOF always ends the WAL cleanly; ErrUnexpectedEOF ends the most recent WAL cleanly).
func isCorruptionReport(err error) bool {
	return errors.Is(err, record.ErrInvalidChunk) || errors.Is(err, record.ErrZeroedChunk)
}

// readLog runs the real reader over src exactly as replayWAL / wal.virtualWALReader do (Next, then
// read the record to its end) and compares every returned record with want.
func readLog(src io.Reader, logNum uint32, want [][]byte, verbose bool) (res readRes) {
	defer func() {
		if r := recover(); r != nil {
			res.Panic = fmt.Sprint(r)
		}
	}()
	slot := slotPool.Get().(*readerSlot)
	defer slotPool.Put(slot)
	sp := &slot.buf
	r := &slot.rd
	*r = *record.NewReader(src, base.DiskFileNum(logNum))
	for {
		res.Calls++
		rr, err := r.Next()
		if err != nil {
			res.Err = err
			break
		}
		buf := (*sp)[:0]
		for {
			if len(buf) == cap(buf) {
				buf = append(buf, 0)[:len(buf)]
			}
			n, err := rr.Read(buf[len(buf):cap(buf)])
			buf = buf[:len(buf)+n]
			if err == io.EOF {
				break
			}
			if err != nil {
				res.Err = err
				break
			}
		}
		*sp = buf[:0]
		if res.Err != nil {
			if verbose {
				fmt.Printf("  record %d: %d bytes then error %v\n", res.N, len(buf), res.Err)
			}
			break
		}
		if verbose {
			fmt.Printf("  record %d: %d bytes\n", res.N, len(buf))
		}
		if res.N >= len(want) {
			res.Bad = fmt.Sprintf("record %d (%d bytes) returned but only %d were written", res.N, len(buf), len(want))
			return res
		}
		if !bytes.Equal(buf, want[res.N]) {
			d := 0
			for d < len(buf) && d < len(want[res.N]) && buf[d] == want[res.N][d] {
				d++
			}
			res.Bad = fmt.Sprintf("record %d differs from the written one: got %d bytes, want %d, first difference at %d", res.N, len(buf), len(want[res.N]), d)
			if d == len(buf) {
				res.Partial = true // a strict prefix of the written record
			}
			return res
		}
		res.N++
		if res.N > len(want)+2 {
			res.Bad = "reader does not terminate"
			return res
		}
	}
	if verbose {
		fmt.Printf("  end: %v\n", res.Err)
	}
	// After the end the reader must not come back to life.
	if rr, err := r.Next(); err == nil {
		b, _ := io.ReadAll(rr)
		res.Bad = fmt.Sprintf("Next returned a record (%d bytes) after the log had ended with %v", len(b), res.Err)
	}
	return res
}

// twoPart reads a[:cut] followed by b[cut:] without copying.
func twoPart(a, b []byte, cut int) io.Reader {
	if cut >= len(b) {
		return bytes.NewReader(a[:cut])
	}
	return io.MultiReader(bytes.NewReader(a[:cut]), bytes.NewReader(b[cut:]))
}

// zeros is a reader of n zero bytes.
type zeros struct{ n int }

func (z *zeros) Read(p []byte) (int, error) {
	if z.n == 0 {
		return 0, io.EOF
	}
	n := len(p)
	if n > z.n {
		n = z.n
	}
	clear(p[:n])
	z.n -= n
	return n, nil
}
