// C19: corruption inside the synced part of a WAL-sync format log is reported, never hidden.
package recordh

import (
	"bytes"
	"encoding/binary"
	"fmt"
	"io"
	"strings"

	"github.com/cockroachdb/errors"
	"github.com/cockroachdb/pebble/internal/verif/vlib"
	"github.com/cockroachdb/pebble/record"
)

var patterns19 = []string{"xor01", "xor80", "xorff", "zerochunk", "zeropage"}

// largeChunk: chunks above this size are damaged only at boundary offsets (the reader's bit-flip
// diagnostic costs about half a second per damaged 32 KiB chunk).
const largeChunk = 256

// lastSynced is the largest synced offset recorded in any chunk header of the log.
func lastSynced(l *logImg) int {
	m := 0
	for _, c := range l.Chunks {
		if !c.Pad && !c.Trailer && c.Fmt == fWALSync && int(c.Synced) > m {
			m = int(c.Synced)
		}
	}
	return m
}

// offsets19 lists the damaged offsets of a log for the xor patterns: every offset below the last
// recorded synced offset that lies in a chunk (or padding) of at most largeChunk bytes; for larger
// chunks the header, the first and last two payload bytes and the bytes on both sides of every 4 KiB
// boundary.
func offsets19(l *logImg) []int {
	lim := lastSynced(l)
	var out []int
	for _, c := range l.Chunks {
		if c.Trailer {
			continue
		}
		for o := c.Off; o < c.End() && o < lim; o++ {
			if c.End()-c.Off <= largeChunk || o-c.Off < c.Hdr+2 || c.End()-o <= 2 || o%pageSize == 0 || o%pageSize == pageSize-1 {
				out = append(out, o)
			}
		}
	}
	return out
}

// damage19 applies a pattern. ok=false: the (offset, pattern) pair is a duplicate of another one
// (zerochunk is applied once per chunk, at its first byte; zeropage once per page, at its first byte).
func damage19(l *logImg, off int, pat string) (img []byte, lo, hi int, ok bool) {
	switch pat {
	case "xor01", "xor80", "xorff":
		lo, hi = off, off+1
	case "zerochunk":
		ci := l.chunkAt(off)
		if ci < 0 || l.Chunks[ci].Pad || l.Chunks[ci].Trailer || l.Chunks[ci].Off != off {
			return nil, 0, 0, false
		}
		lo, hi = l.Chunks[ci].Off, l.Chunks[ci].End()
	case "zeropage":
		if off%pageSize != 0 {
			return nil, 0, 0, false
		}
		lo, hi = off, off+pageSize
		if hi > len(l.Data) {
			hi = len(l.Data)
		}
	default:
		return nil, 0, 0, false
	}
	img = append([]byte(nil), l.Data...)
	switch pat {
	case "xor01":
		img[off] ^= 0x01
	case "xor80":
		img[off] ^= 0x80
	case "xorff":
		img[off] ^= 0xff
	default:
		clear(img[lo:hi])
	}
	return img, lo, hi, true
}

// verdict19 is the oracle. It looks only at the intact log's layout, at which bytes were damaged and
// at what the reader returned.
//
//	foreign-record        the reader returned something that is not the next written record
//	damaged-chunk-accepted a record whose chunk bytes were changed was returned
//	stopped-before-damage the log ended before the first damaged chunk
//	F2-eof-trailer-spoof  silent end; the only change is that the log-number field of a record-first
//	                      chunk now reads logNum+1, and the reader answered io.EOF
//	F1-readahead-same-block the reader answered ErrUnexpectedEOF; later intact chunks prove the damaged
//	                      chunk had been synced, but all of them lie in the block of the damaged chunk
//	silent-truncation     silent end although a later BLOCK holds an intact proving chunk
//
// "Silent end" = io.EOF or ErrUnexpectedEOF (replayWAL ends the most recent WAL cleanly on both);
// "reported" = ErrInvalidChunk / ErrZeroedChunk (replayWAL marks them ErrCorruption for every WAL).
func verdict19(l *logImg, off int, pat string, lo, hi int, img []byte, res readRes) (class, desc, outcome string, obligation bool) {
	if res.Panic != "" {
		return "panic", "reader panicked: " + res.Panic, "panic", false
	}
	if res.Bad != "" && res.Partial {
		return "partial-record", res.Bad, "partial", false
	}
	if res.Bad != "" {
		return "foreign-record", res.Bad, "foreign", false
	}
	// damaged (pseudo) chunks
	first := -1
	for i, c := range l.Chunks {
		if c.Off < hi && c.End() > lo {
			if first < 0 {
				first = i
			}
			if !c.Pad && !c.Trailer && c.Rec < res.N {
				return "damaged-chunk-accepted", fmt.Sprintf("chunk %s was damaged but record %d was returned", c, c.Rec), "accepted", false
			}
		}
	}
	if first < 0 {
		return "", "", "damage outside the log", false
	}
	d := l.Chunks[first]
	ec := errClass(res.Err)
	if res.N == len(l.Recs) && res.Err == io.EOF {
		return "", "", "harmless (padding or trailer): all records, io.EOF", false
	}
	if res.N < d.Rec {
		return "stopped-before-damage", fmt.Sprintf("first damaged chunk %s belongs to record %d but only %d records were returned (then %v)", d, d.Rec, res.N, res.Err), "early", false
	}
	// proving chunks: intact, later, WAL-sync, synced offset covers the whole damaged chunk
	var same, later []chunk
	for _, c := range l.Chunks {
		if c.Pad || c.Trailer || c.Fmt != fWALSync || c.Off < hi || int(c.Synced) < d.End() {
			continue
		}
		if c.Off/blockSize > d.Off/blockSize {
			later = append(later, c)
		} else {
			same = append(same, c)
		}
	}
	if len(same)+len(later) == 0 {
		if !isEndOfLog(res.Err) {
			return "unexpected-error", fmt.Sprintf("log ended with %v", res.Err), "other", false
		}
		return "", "", "no later chunk proves the sync: " + ec, false
	}
	if isCorruptionReport(res.Err) {
		where := "a later block"
		if len(later) == 0 {
			where = "the same block only"
		}
		return "", "", "reported (" + ec + "), proof in " + where, true
	}
	what := fmt.Sprintf("damaged chunk %s; reader returned %d records then %v; proving intact chunks: same block %d (first %v), later blocks %d",
		d, res.N, res.Err, len(same), firstOf(same), len(later))
	// F2: structural
	if strings.HasPrefix(pat, "xor") && !d.Pad && (d.Pos == 1 || d.Pos == 2) && d.Fmt != fLegacy &&
		off >= d.Off+7 && off < d.Off+11 && binary.LittleEndian.Uint32(img[d.Off+7:]) == l.LogNum+1 && res.Err == io.EOF && res.N == d.Rec {
		return "F2-eof-trailer-spoof", "log-number field of a record-first chunk reads logNum+1 -> clean io.EOF before the checksum is looked at; " + what, "F2", true
	}
	if len(later) == 0 && errors.Is(res.Err, record.ErrUnexpectedEOF) {
		return "F1-readahead-same-block", "read-ahead starts at the next block; " + what, "F1", true
	}
	return "silent-truncation", what, "silent", true
}

func firstOf(cs []chunk) string {
	if len(cs) == 0 {
		return "-"
	}
	return cs[0].String()
}

type spec19 struct {
	logNum uint32
	sizes  []int
}

func specs19(thorough bool) []spec19 {
	var out []spec19
	add := func(n uint32, s ...int) { out = append(out, spec19{n, s}) }
	// the log of the probe: chunk ends 39, 88, 117, 151 (+ trailer = 162 bytes)
	add(6, 20, 30, 10, 15)
	add(7, 20, 30, 10, 15)    // odd log number: xor 01 gives logNum-1
	add(0x7f, 20, 30, 10, 15) // xor ff on the low byte gives logNum+1
	small3 := []int{0, 1, 8, 30}
	small4 := []int{1, 30}
	if thorough {
		small3 = []int{0, 1, 5, 8, 20, 30}
		small4 = []int{0, 1, 8, 30}
	}
	vlib.Product([]int{len(small3), len(small3), len(small3)}, func(d []int) { add(6, small3[d[0]], small3[d[1]], small3[d[2]]) })
	vlib.Product([]int{len(small4), len(small4), len(small4), len(small4)}, func(d []int) {
		add(6, small4[d[0]], small4[d[1]], small4[d[2]], small4[d[3]])
	})
	// logs crossing the block boundary (proof can lie in a later block)
	add(6, blockSize-19-60, 10, 20, 5)          // small records on both sides, one split over the boundary
	add(6, blockSize-19-120, 10, 20, 30, 40, 5) // three small records, 3 bytes of padding, then block 1
	add(6, blockSize-19, 10, 20, 30)            // block 0 filled exactly by one chunk
	add(6, 10, 33000, 20, 30)                   // record > 32 KiB spanning blocks 0 and 1
	add(6, 33000, 10, 20, 30)
	add(6, blockSize-19-30, 10, 20, 5) // 11 bytes left in block 0: zero padding
	add(6, blockSize-19-48, 10, 20, 5) // 19 bytes left after the second record: an empty chunk fits
	if thorough {
		add(6, 10, 20, 33000, 30, 5)
		add(0x7f, 10, 33000, 20, 30)
		add(6, 10, 2*blockSize+3, 20, 30)
		for _, k := range []int{20, 29, 37, 38, 39, 49, 77, 100, 200} {
			add(6, blockSize-19-k, 10, 20, 5)
		}
	}
	return out
}

type case19 struct {
	log int
	off int
	pat string
}

func run19(c *vlib.Ctx, l *logImg, off int, pat string, verbose bool) (class, desc, outcome string, obligation bool, res readRes, ok bool) {
	img, lo, hi, ok := damage19(l, off, pat)
	if !ok {
		return "", "", "", false, readRes{}, false
	}
	res = readLog(bytes.NewReader(img), l.LogNum, l.Recs, verbose)
	class, desc, outcome, obligation = verdict19(l, off, pat, lo, hi, img, res)
	return class, desc, outcome, obligation, res, true
}

// writerChecks19: the writer-side facts the read-side check depends on.
func writerChecks19(c *vlib.Ctx, l *logImg, cs Case) (under int) {
	for _, ch := range l.Chunks {
		if ch.Pad || ch.Trailer {
			continue
		}
		if ch.Fmt != fWALSync {
			c.Violation("writer-format", fmt.Sprintf("%s: chunk %s is not in the WAL-sync format", l, ch), cs)
			continue
		}
		pre := l.PreSync[ch.Rec]
		switch {
		case int(ch.Synced) > pre:
			// a promise beyond what had been synced would make recovery report corruption after a plain crash
			c.Violation("synced-offset-overpromise", fmt.Sprintf("%s: chunk %s promises %d synced bytes but only %d were synced when the record was written", l, ch, ch.Synced, pre), cs)
		case int(ch.Synced) < pre:
			under++
			if len(l.Data) <= blockSize {
				// Inside the first block every flushed byte is counted, so the promise is exact; a stale
				// value here means completed syncs are not recorded and no corruption can ever be confirmed.
				c.Violation("synced-offset-not-recorded", fmt.Sprintf("%s: chunk %s was written after a completed sync of %d bytes but its header promises only %d", l, ch, pre, ch.Synced), cs)
			}
		}
	}
	return under
}

func replay19(c *vlib.Ctx, cs Case) {
	if strings.HasPrefix(cs.Kind, "db:") {
		fx, err := buildDBFixture()
		if err != nil {
			fmt.Println("fixture:", err)
			return
		}
		fmt.Printf("DB fixture: WAL %s rewritten as %s\n", fx.walName, fx.log)
		for _, ch := range fx.log.Chunks {
			fmt.Println("  ", ch)
		}
		fmt.Printf("damage: %s at offset %d\n", cs.Kind, cs.Off)
		class, desc, outcome, obl, ok := runDB19(fx, cs.Off, strings.TrimPrefix(cs.Kind, "db:"), true)
		fmt.Printf("applicable: %v; outcome: %s; must-report obligation: %v\nverdict: class=%q %s\n", ok, outcome, obl, class, desc)
		if class != "" {
			c.Violation(class, desc, cs)
		}
		return
	}
	l, err := writeLog(fWALSync, cs.LogNum, cs.LogNum, cs.Sizes)
	if err != nil {
		fmt.Println("writer:", err)
		c.Violation("writer-error", err.Error(), cs)
		return
	}
	fmt.Printf("log: %s, last recorded synced offset %d\n", l, lastSynced(l))
	for _, ch := range l.Chunks {
		fmt.Println("  ", ch)
	}
	if cs.ImgHash != 0 && cs.ImgHash != vlib.Hash(l.Data) {
		fmt.Println("note: the regenerated log differs from the one of the original run (synced-offset fields depend on flush timing for records that fill whole blocks)")
	}
	if cs.Kind == "writer" {
		writerChecks19(c, l, cs)
		return
	}
	fmt.Printf("damage: %s at offset %d\n", cs.Kind, cs.Off)
	class, desc, outcome, obl, res, ok := run19(c, l, cs.Off, cs.Kind, true)
	if !ok {
		fmt.Println("pattern not applicable at this offset")
		return
	}
	fmt.Printf("reader: %d records, then %v\noutcome: %s; must-report obligation: %v\nverdict: class=%q %s\n", res.N, res.Err, outcome, obl, class, desc)
	if class != "" {
		c.Violation(class, desc, cs)
	}
}

func check19(c *vlib.Ctx) {
	specs := specs19(c.Thorough())
	logs := make([]*logImg, len(specs))
	var cases []case19
	under, multi := 0, 0
	var layout []string
	for i, sp := range specs {
		wcase := Case{Prop: "C19", Format: fWALSync, LogNum: sp.logNum, Sizes: sp.sizes, Kind: "writer"}
		l, err := writeLog(fWALSync, sp.logNum, sp.logNum, sp.sizes)
		if err != nil {
			c.Violation("writer-error", fmt.Sprintf("walsync lognum=%d sizes=%v: %v", sp.logNum, sp.sizes, err), wcase)
			continue
		}
		// the same sizes must give the same bytes again (replays regenerate the log)
		if l2, err := writeLog(fWALSync, sp.logNum, sp.logNum, sp.sizes); err != nil || !bytes.Equal(l.Data, l2.Data) {
			c.Note("nondeterministic_log", fmt.Sprintf("%s: a second write of the same records gave different bytes (synced-offset fields)", l))
		}
		logs[i] = l
		c.Trans(len(sp.sizes))
		u := writerChecks19(c, l, wcase)
		if len(l.Data) > blockSize {
			multi++
			if u > 0 {
				under++
			}
			var ss []string
			for _, ch := range l.Chunks {
				if !ch.Pad && !ch.Trailer {
					ss = append(ss, fmt.Sprintf("rec%d@%d..%d:promised=%d,synced=%d", ch.Rec, ch.Off, ch.End(), ch.Synced, l.PreSync[ch.Rec]))
				}
			}
			layout = append(layout, fmt.Sprintf("%v: %s", sp.sizes, strings.Join(ss, " ")))
		}
		offs := offsets19(l)
		for _, pat := range patterns19 {
			for _, o := range offs {
				if _, _, _, ok := damage19(l, o, pat); ok {
					cases = append(cases, case19{i, o, pat})
				}
			}
		}
	}
	c.Note("multi_block_logs", map[string]any{"logs": multi, "logs_with_promise_below_synced": under, "layout": layout,
		"remark": "LogWriter.flushLoop adds only the partially flushed part of the current block to the synced offset; bytes that reach the file as queued full blocks are not counted, so promises fall behind the real synced length once the log leaves its first block. Conservative (never an over-promise); the oracle uses the promises found in the headers."})
	// DB level first (a few hundred Opens): its violations then own the replay artefacts of the classes.
	dbStage19(c)
	done, complete := c.Each(len(cases), func(i int) {
		cs := cases[i]
		l := logs[cs.log]
		class, desc, outcome, obl, res, ok := run19(c, l, cs.off, cs.pat, false)
		if !ok {
			return
		}
		c.Eval(1)
		c.Trans(res.Calls)
		c.Outcome(outcome)
		c.State(vlib.Hash(cs.log, res.N, errClass(res.Err), outcome))
		if obl {
			c.Nontrivial(vlib.Hash(cs.log, cs.off, cs.pat))
		}
		rc := Case{Prop: "C19", Format: fWALSync, LogNum: l.LogNum, Sizes: l.Sizes, Kind: cs.pat, Off: cs.off, ImgHash: vlib.Hash(l.Data)}
		if class != "" {
			c.Violation(class, fmt.Sprintf("%s, %s at offset %d: %s", l, cs.pat, cs.off, desc), rc)
		}
		if i%4001 == 0 {
			c.Sample(map[string]any{"case": rc, "returned_records": res.N, "end": fmt.Sprint(res.Err), "outcome": outcome})
		}
	})
	if !complete {
		c.Incomplete(fmt.Sprintf("budget expired after %d of %d (log, offset, pattern) cases", done, len(cases)))
	}
	var names []string
	for _, sp := range specs {
		names = append(names, fmt.Sprintf("%d:%v", sp.logNum, sp.sizes))
	}
	c.Note("scope", fmt.Sprintf("%d WAL-sync logs (lognum:sizes, every record followed by a completed sync) x every offset below the last recorded synced offset "+
		"(chunks > %d bytes: header, first/last two payload bytes and both sides of 4 KiB boundaries only) x {xor01,xor80,xorff} plus zeroing of every chunk and of every 4 KiB page "+
		"starting below that offset: %d cases. Logs: %s", len(specs), largeChunk, len(cases), strings.Join(names, " ")))
}
