// C19, DB level: the damaged WAL-sync log lies under a real pebble.DB; Open must fail with an error
// marked ErrCorruption rather than succeed with fewer keys.
package recordh

import (
	"bytes"
	"fmt"
	"io"
	"sort"
	"strconv"
	"strings"

	"github.com/cockroachdb/errors"
	"github.com/cockroachdb/pebble"
	"github.com/cockroachdb/pebble/internal/base"
	"github.com/cockroachdb/pebble/internal/verif/vlib"
	"github.com/cockroachdb/pebble/record"
	"github.com/cockroachdb/pebble/vfs"
)

type quietLogger struct{}

func (quietLogger) Infof(string, ...interface{})  {}
func (quietLogger) Errorf(string, ...interface{}) {}
func (quietLogger) Fatalf(format string, args ...interface{}) {
	panic(fmt.Sprintf("pebble Fatalf: "+format, args...))
}

func dbOpts(fs vfs.FS) *pebble.Options {
	return &pebble.Options{FS: fs, FormatMajorVersion: pebble.FormatNewest, Logger: quietLogger{},
		DisableAutomaticCompactions: true}
}

var dbKeys = []string{"k0", "k1", "k2", "k3"}
var dbValLens = []int{5, 15, 1, 3}

// dbFixture is a closed DB whose only unflushed data are four synced one-key batches in one WAL. The
// WAL is then rewritten by the harness' own LogWriter (WAL-sync format, same log number, same four
// batch payloads, a completed sync after each) so that its bytes do not depend on flush timing.
type dbFixture struct {
	files   map[string][]byte
	walName string
	log     *logImg
}

func buildDBFixture() (*dbFixture, error) {
	fs := vfs.NewMem()
	db, err := pebble.Open("db", dbOpts(fs))
	if err != nil {
		return nil, err
	}
	// One flush first: the WAL that will hold the four batches then has an even number (000004.log
	// in this tree), so that xor 01 on the low byte of a log-number field yields number+1.
	if err := db.Set([]byte("a"), []byte("flushed"), pebble.Sync); err != nil {
		return nil, err
	}
	if err := db.Flush(); err != nil {
		return nil, err
	}
	for i, k := range dbKeys {
		if err := db.Set([]byte(k), content(99, i, dbValLens[i]), pebble.Sync); err != nil {
			return nil, err
		}
	}
	if err := db.Close(); err != nil {
		return nil, err
	}
	names, err := fs.List("db")
	if err != nil {
		return nil, err
	}
	sort.Strings(names)
	fx := &dbFixture{files: map[string][]byte{}}
	for _, n := range names {
		f, err := fs.Open(fs.PathJoin("db", n))
		if err != nil {
			return nil, err
		}
		st, err := f.Stat()
		if err != nil {
			return nil, err
		}
		if st.IsDir() {
			f.Close()
			continue
		}
		b, err := io.ReadAll(f)
		f.Close()
		if err != nil {
			return nil, err
		}
		fx.files[n] = b
		if strings.HasSuffix(n, ".log") && len(b) > 0 {
			fx.walName = n // names are sorted: the highest-numbered WAL wins (older ones are obsolete after the flush)
		}
	}
	if fx.walName == "" {
		return nil, fmt.Errorf("no WAL found in %v", names)
	}
	num, err := strconv.ParseUint(strings.TrimSuffix(fx.walName, ".log"), 10, 32)
	if err != nil {
		return nil, err
	}
	// the batches the DB wrote
	var recs [][]byte
	r := record.NewReader(bytes.NewReader(fx.files[fx.walName]), base.DiskFileNum(num))
	for {
		rr, err := r.Next()
		if err == io.EOF {
			break
		}
		if err != nil {
			return nil, fmt.Errorf("reading the DB's own WAL: %v", err)
		}
		b, err := io.ReadAll(rr)
		if err != nil {
			return nil, fmt.Errorf("reading the DB's own WAL: %v", err)
		}
		recs = append(recs, b)
	}
	if len(recs) != len(dbKeys) {
		return nil, fmt.Errorf("the DB's WAL holds %d records, want %d", len(recs), len(dbKeys))
	}
	if fx.log, err = writeRecs(fWALSync, uint32(num), recs); err != nil {
		return nil, err
	}
	return fx, nil
}

// openWith puts the fixture with the given WAL bytes on a fresh MemFS, opens it and reports which
// keys are there.
func (fx *dbFixture) openWith(wal []byte) (present []bool, openErr error, other string) {
	defer func() {
		if r := recover(); r != nil {
			other = fmt.Sprint("panic: ", r)
		}
	}()
	fs := vfs.NewMem()
	if err := fs.MkdirAll("db", 0o755); err != nil {
		return nil, nil, err.Error()
	}
	for n, b := range fx.files {
		if n == fx.walName {
			b = wal
		}
		f, err := fs.Create(fs.PathJoin("db", n), vfs.WriteCategoryUnspecified)
		if err != nil {
			return nil, nil, err.Error()
		}
		if _, err := f.Write(b); err != nil {
			return nil, nil, err.Error()
		}
		if err := f.Sync(); err != nil {
			return nil, nil, err.Error()
		}
		f.Close()
	}
	db, err := pebble.Open("db", dbOpts(fs))
	if err != nil {
		return nil, err, ""
	}
	defer db.Close()
	for i, k := range dbKeys {
		v, closer, err := db.Get([]byte(k))
		switch {
		case err == pebble.ErrNotFound:
			present = append(present, false)
		case err != nil:
			return nil, nil, fmt.Sprintf("Get(%s): %v", k, err)
		default:
			if !bytes.Equal(v, content(99, i, dbValLens[i])) {
				other = fmt.Sprintf("Get(%s) returned a wrong value", k)
			}
			closer.Close()
			present = append(present, true)
		}
	}
	return present, nil, other
}

// runDB19 runs one DB-level case. The record-level verdict on the same image supplies the structural
// class; the DB-level observation decides whether there is a violation.
func runDB19(fx *dbFixture, off int, pat string, verbose bool) (class, desc, outcome string, obligation, ok bool) {
	l := fx.log
	img, lo, hi, ok := damage19(l, off, pat)
	if !ok {
		return "", "", "", false, false
	}
	res := readLog(bytes.NewReader(img), l.LogNum, l.Recs, verbose)
	rclass, rdesc, routcome, obl := verdict19(l, off, pat, lo, hi, img, res)
	present, openErr, other := fx.openWith(img)
	if verbose {
		fmt.Printf("record level: %d records then %v; outcome %q class %q\nDB level: Open error = %v; keys present = %v %s\n", res.N, res.Err, routcome, rclass, openErr, present, other)
	}
	switch {
	case other != "":
		return "db-unexpected", other, "db: unexpected", obl, true
	case openErr != nil && errors.Is(openErr, pebble.ErrCorruption):
		if rclass != "" {
			return "db-record-disagree", fmt.Sprintf("Open reports corruption (%v) but the record-level verdict is %s", openErr, rclass), "db: disagree", obl, true
		}
		return "", "", "db: Open fails with ErrCorruption", obl, true
	case openErr != nil:
		return "db-open-error-unmarked", fmt.Sprintf("Open failed with an error not marked ErrCorruption: %v", openErr), "db: other error", obl, true
	}
	n := 0
	for n < len(present) && present[n] {
		n++
	}
	for _, p := range present[n:] {
		if p {
			return "db-non-prefix-recovery", fmt.Sprintf("Open succeeded with keys %v", present), "db: non-prefix", obl, true
		}
	}
	if n == len(present) {
		if isCorruptionReport(res.Err) {
			return "db-corruption-not-marked", "the reader reported corruption but Open succeeded with all keys", "db: disagree", obl, true
		}
		return "", "", "db: Open succeeds, all keys", obl, true
	}
	if !obl {
		return "", "", "db: Open succeeds with fewer keys, no later chunk proves the sync", false, true
	}
	if rclass == "" {
		rclass = "silent-truncation"
	}
	return rclass, fmt.Sprintf("DB level: Open succeeded and only %d of %d synced keys are there (%v); %s", n, len(present), present, rdesc), "db: " + routcome, true, true
}

func dbStage19(c *vlib.Ctx) {
	fx, err := buildDBFixture()
	if err != nil {
		c.Incomplete("DB-level stage: building the fixture failed: " + err.Error())
		return
	}
	l := fx.log
	writerChecks19(c, l, Case{Prop: "C19", Format: fWALSync, LogNum: l.LogNum, Sizes: l.Sizes, Kind: "writer"})
	// sanity: the undamaged fixture recovers all keys
	if present, oerr, other := fx.openWith(l.Data); oerr != nil || other != "" || fmt.Sprint(present) != "[true true true true]" {
		c.Incomplete(fmt.Sprintf("DB-level stage: undamaged fixture does not recover: %v %v %s", present, oerr, other))
		return
	}
	var cases []case19
	for _, pat := range patterns19 {
		for _, o := range offsets19(l) {
			if _, _, _, ok := damage19(l, o, pat); ok {
				cases = append(cases, case19{0, o, pat})
			}
		}
	}
	done, complete := c.Each(len(cases), func(i int) {
		cs := cases[i]
		class, desc, outcome, obl, ok := runDB19(fx, cs.off, cs.pat, false)
		if !ok {
			return
		}
		c.Eval(1)
		c.Trans(2)
		c.Outcome(outcome)
		c.State(vlib.Hash("db", outcome))
		if obl {
			c.Nontrivial(vlib.Hash("db", cs.off, cs.pat))
		}
		if class != "" {
			c.Violation(class, fmt.Sprintf("DB with WAL %s (%s), %s at offset %d: %s", fx.walName, l, cs.pat, cs.off, desc),
				Case{Prop: "C19", Format: fWALSync, LogNum: l.LogNum, Sizes: l.Sizes, Kind: "db:" + cs.pat, Off: cs.off, ImgHash: vlib.Hash(l.Data)})
		}
	})
	if !complete {
		c.Incomplete(fmt.Sprintf("budget expired in the DB-level stage after %d of %d cases", done, len(cases)))
	}
	c.Note("db_stage", fmt.Sprintf("real DB (FormatNewest) with 4 synced one-key batches in WAL %s rewritten as %s; %d (offset, pattern) cases, each opened with pebble.Open on a fresh MemFS", fx.walName, l, len(cases)))
}
