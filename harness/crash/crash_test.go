// Crash-consistency harness (engine B) for C10, C11, C12: every history of the alphabet up to the
// depth bound runs on a real DB over a crashable MemFS behind an interception layer; before every
// mutating FS call a crash image is taken for every survival pattern of the unsynced units; every
// distinct image is recovered with the real pebble.Open and judged by the durability (subsequence)
// and prefix oracles.
package crash

import (
	"fmt"
	"os"
	"sync"
	"testing"

	"github.com/cockroachdb/pebble"
	"github.com/cockroachdb/pebble/internal/verif/crashx"
	"github.com/cockroachdb/pebble/internal/verif/hx"
	"github.com/cockroachdb/pebble/internal/verif/vlib"
	"github.com/cockroachdb/pebble/vfs"
	"github.com/cockroachdb/pebble/vfs/errorfs"
)

var universe = []string{"a", "b", "c"}
var bounds = []string{"a", "b", "c", "z"}

func sub(ops ...hx.Op) []hx.Op { return ops }

// alphabets, simplest first
var alphaSync = []hx.Op{
	{K: "set", Key: "a"},             // NoSync
	{K: "set", Key: "a", Sync: true}, //
	{K: "set", Key: "b", Sync: true},
	{K: "del", Key: "a", Sync: true},
	{K: "flush"},
	{K: "ingest", Sub: sub(hx.Op{K: "set", Key: "b"})},
	{K: "merge", Key: "a"},
	{K: "batch", Sync: true, Sub: sub(hx.Op{K: "set", Key: "a"}, hx.Op{K: "set", Key: "b"})},
	{K: "reopen"},
	{K: "delrange", Key: "a", End: "c", Sync: true},
	{K: "compact"},
	{K: "ingest", Sub: sub(hx.Op{K: "set", Key: "a"})},
	{K: "excise", Key: "a", End: "b"},
	{K: "batch", N: 1, Sync: true, Sub: sub(hx.Op{K: "del", Key: "b"}, hx.Op{K: "set", Key: "c"})}, // ApplyNoSyncWait + SyncWait
	{K: "set", Key: "b"},
	{K: "rkset", Key: "a", End: "c", Suf: "@1", Sync: true},
}

// C12: unsynced writes made durable by Flush / Close
var alphaFlush = []hx.Op{
	{K: "set", Key: "a"},
	{K: "set", Key: "b"},
	{K: "flush"},
	{K: "del", Key: "a"},
	{K: "reopen"},
	{K: "merge", Key: "b"},
	{K: "delrange", Key: "a", End: "c"},
	{K: "compact"},
	{K: "batch", Big: true, Sub: sub(hx.Op{K: "set", Key: "a"}, hx.Op{K: "set", Key: "c"})},
	{K: "rkset", Key: "a", End: "c", Suf: "@1"},
}

// C22: histories made of version edits (flush, compaction, ingest, excise) between synced writes
var alphaManifest = []hx.Op{
	{K: "set", Key: "a", Sync: true},
	{K: "flush"},
	{K: "compact"},
	{K: "ingest", Sub: sub(hx.Op{K: "set", Key: "b"})},
	{K: "set", Key: "b", Sync: true},
	{K: "excise", Key: "a", End: "b"},
	{K: "del", Key: "a", Sync: true},
	{K: "ingest", Sub: sub(hx.Op{K: "set", Key: "a"})},
	{K: "reopen"},
	{K: "batch", Sync: true, Sub: sub(hx.Op{K: "set", Key: "a"}, hx.Op{K: "del", Key: "b"})},
}

// large (flushable) batches that carry range deletions / range keys next to points: their WAL
// replay path builds a flushable batch directly
var alphaBig = []hx.Op{
	{K: "set", Key: "b", Sync: true},
	{K: "batch", Big: true, Sync: true, Sub: sub(hx.Op{K: "set", Key: "a"}, hx.Op{K: "delrange", Key: "b", End: "z"})},
	{K: "set", Key: "c", Sync: true},
	{K: "batch", Big: true, Sync: true, Sub: sub(hx.Op{K: "rkset", Key: "a", End: "c", Suf: "@1"}, hx.Op{K: "del", Key: "c"}, hx.Op{K: "set", Key: "b"})},
	{K: "flush"},
	{K: "set", Key: "a"},
	{K: "batch", Big: true, Sub: sub(hx.Op{K: "merge", Key: "b"}, hx.Op{K: "delrange", Key: "a", End: "b"})},
	{K: "reopen"},
}

// ordinary (memtable) batches whose WAL record spans several 32 KiB blocks: an unsynced one can be
// torn between blocks, with any subset of its block writes surviving; recovery must drop it whole
var alphaPad = []hx.Op{
	{K: "set", Key: "b", Sync: true},
	{K: "batch", Pad: 70000, Sync: true, Sub: sub(hx.Op{K: "set", Key: "a"})},
	{K: "batch", Pad: 40000, Sub: sub(hx.Op{K: "set", Key: "a"}, hx.Op{K: "del", Key: "b"})},
	{K: "set", Key: "c", Sync: true},
	{K: "flush"},
	{K: "reopen"},
	{K: "del", Key: "a", Sync: true},
}

// unsynced writes of every kind, a rotation of the memtable and the WAL that does NOT wait for the
// flush (a large batch), and synced writes into the new WAL
var alphaMixed = []hx.Op{
	{K: "set", Key: "a"},
	{K: "del", Key: "b"},
	{K: "batch", Big: true, Sub: sub(hx.Op{K: "set", Key: "c"})},
	{K: "set", Key: "b", Sync: true},
	{K: "merge", Key: "a"},
	{K: "delrange", Key: "a", End: "c"},
	{K: "set", Key: "c", Sync: true},
	{K: "flush"},
}

var configs = map[string]hx.Config{
	"base":         {Name: "base"},
	"tinymem":      {Name: "tinymem", MemTableSize: 16 << 10},
	"tinymanifest": {Name: "tinymanifest", TinyManifest: true},
	"nowal":        {Name: "nowal", DisableWAL: true},
	"fmv-min":      {Name: "fmv-min", FMV: 13},
	"valsep":       {Name: "valsep", ValSep: true},
	// Options.NoSyncOnClose: files are not synced when they are closed - whatever recovery relies on
	// must have been synced explicitly
	"tinymem-nosynconclose": {Name: "tinymem-nosynconclose", MemTableSize: 16 << 10, NoSyncOnClose: true},
	"nosynconclose":         {Name: "nosynconclose", NoSyncOnClose: true},
}

// Case is the replay artefact.
type Case struct {
	Cfg    hx.Config `json:"cfg"`
	Hist   []hx.Op   `json:"hist"`
	Level2 bool      `json:"level2,omitempty"`
	Image  string    `json:"image,omitempty"` // description of the failing image
	Seq    int       `json:"seq,omitempty"`
	Mask   []bool    `json:"mask,omitempty"`
	Units  []string  `json:"units,omitempty"`
}

type stats struct {
	images, recoveries, fsCalls, crashPts, capped int
	l2images                                   int
}

func ack(t *crashx.Tracker, i int, op hx.Op, cfg hx.Config) {
	switch op.K {
	case "flush":
		t.AckUpTo(i)
	case "ingest", "ingestexcise", "excise":
		t.AckOne(i)
	case "reopen":
		if !cfg.DisableWAL {
			t.AckUpTo(i)
		}
	case "compact", "logdata":
	default:
		if op.Sync && !cfg.DisableWAL {
			t.AckOne(i)
		}
	}
}

// legal applies generator-side contract guards.
func legal(cfg hx.Config, hist []hx.Op) bool {
	m := hx.NewModel(bounds...)
	for i, op := range hist {
		if op.K == "reopen" {
			if cfg.DisableWAL {
				// Without a WAL, Close legitimately drops unflushed writes; the sequential model
				// has no notion of that, so such histories are not generated.
				return false
			}
			continue
		}
		if !m.Legal(op) || !cfg.Supports(op) {
			return false
		}
		if op.Big && cfg.MemTableSize == 0 {
			// a flushable batch needs a value of half the memtable: with the 256 KiB default that is
			// 33 unsynced 4 KiB blocks per crash point; large batches are enumerated in the
			// small-memtable configuration only
			return false
		}
		if op.K == "rkset" && cfg.FMV != 0 && cfg.FMV < 13 {
			return false
		}
		m.Apply(op, fmt.Sprintf("v%d", i+1))
	}
	return true
}

// runHistory executes hist (ops numbered from 1) and returns the collector with all crash images.
func runHistory(cfg hx.Config, hist []hx.Op, verbose bool) (*crashx.Collector, error) {
	mem := vfs.NewCrashableMem()
	t := crashx.NewTracker()
	col := crashx.NewCollector(mem, t)
	fs := errorfs.Wrap(mem, col.Injector())
	// The directory is created by Open itself; crash points start at the first FS call of Open.
	col.Enable(true)
	x, err := hx.Open(fs, "db", cfg)
	if err != nil {
		return col, fmt.Errorf("open: %w", err)
	}
	for idx, op := range hist {
		i := idx + 1
		t.Start(i)
		var err error
		switch {
		case op.K == "reopen":
			if err = x.D.Close(); err == nil {
				ack(t, i, op, cfg)
				var x2 *hx.X
				x2, err = hx.Open(fs, "db", cfg)
				if err == nil {
					x = x2
				}
			}
		case op.K == "batch" && op.N == 1:
			b := x.D.NewBatch()
			if err = x.FillBatch(b, op, fmt.Sprintf("v%d", i)); err == nil {
				if err = x.D.ApplyNoSyncWait(b, pebble.Sync); err == nil {
					err = b.SyncWait()
				}
			}
			if err == nil {
				ack(t, i, op, cfg)
			}
			b.Close()
		default:
			err = x.Apply(i, op)
			if err == nil {
				ack(t, i, op, cfg)
			}
		}
		if err != nil {
			col.Enable(false)
			x.D.Close()
			return col, fmt.Errorf("op %d %s: %w", i, op, err)
		}
		if verbose {
			fmt.Printf("op %d %s done: %s\n", i, op, t.Snapshot())
		}
	}
	col.Capture("end of history")
	col.Enable(false)
	if err := x.D.Close(); err != nil {
		return col, fmt.Errorf("close: %w", err)
	}
	return col, nil
}

type recRes struct {
	state string
	err   error
}

// recCache memoises recoveries across histories: histories share prefixes, hence crash images.
var recCache sync.Map

func recoverCached(c *vlib.Ctx, cfg hx.Config, im *vfs.MemFS, hash uint64) (string, error) {
	key := fmt.Sprintf("%s/%x", cfg.Name, hash)
	if v, ok := recCache.Load(key); ok {
		c.NoteAdd("recoveries_served_from_cache", 1)
		r := v.(recRes)
		return r.state, r.err
	}
	st, err := recoverImage(cfg, cloneFS(im))
	c.NoteAdd("recoveries_executed", 1)
	recCache.Store(key, recRes{st, err})
	return st, err
}

// recoverImage opens a copy of the image with the real Open and returns the visible state.
func recoverImage(cfg hx.Config, fs vfs.FS) (string, error) {
	x, err := hx.Open(fs, "db", cfg)
	if err != nil {
		return "", fmt.Errorf("reopen failed: %w", err)
	}
	pts, err := hx.ObservePoints(x.D, universe)
	if err != nil {
		x.D.Close()
		return "", fmt.Errorf("read after recovery: %w", err)
	}
	spans, err := hx.ObserveSpans(x.D, "", "")
	if err != nil {
		x.D.Close()
		return "", fmt.Errorf("range-key read after recovery: %w", err)
	}
	if err := x.D.CheckLevels(nil); err != nil {
		x.D.Close()
		return "", fmt.Errorf("CheckLevels after recovery: %w", err)
	}
	if err := x.D.Close(); err != nil {
		return "", fmt.Errorf("close after recovery: %w", err)
	}
	return crashx.StateString(pts, spans), nil
}

type verdict struct {
	class, desc string
	prop        string
}

// judge applies the oracles of property prop to a recovered state.
func judge(prop string, o *crashx.Oracle, state string, pt crashx.Point) *verdict {
	switch prop {
	case "C10", "C12":
		if _, ok := o.SubseqOK(state, pt); !ok {
			return &verdict{class: "durable-write-lost", prop: prop,
				desc: fmt.Sprintf("recovered {%s} at %s is not the model of any subsequence of ops 1..%d that contains every acknowledged durable op", state, pt, pt.Hi)}
		}
	case "C22":
		// every write of these histories is synced, so the prefix oracle applies without exception:
		// an installed version edit (returned flush/ingest/excise) is never lost or torn
		if _, ok := o.PrefixOK(state, pt); ok {
			return nil
		}
		return &verdict{class: "version-edit-lost-or-torn", prop: prop,
			desc: fmt.Sprintf("recovered {%s} at %s is not the model state after any prefix p with max(D)<=p<=hi (prefix states: %v)", state, pt, prefixes(o, pt.Hi))}
	case "C11":
		if _, ok := o.PrefixOK(state, pt); ok {
			return nil
		}
		if s, ok := o.IngestHoleExplains(state, pt); ok {
			return &verdict{class: "ingest-hole", prop: prop,
				desc: fmt.Sprintf("recovered {%s} at %s equals ops %v: an ingest/excise survived while an earlier, key-disjoint unsynced write was lost", state, pt, s)}
		}
		return &verdict{class: "not-a-prefix", prop: prop,
			desc: fmt.Sprintf("recovered {%s} at %s is not the model state after any prefix p with max(D)<=p<=hi (prefix states: %v)", state, pt, prefixes(o, pt.Hi))}
	}
	return nil
}

func prefixes(o *crashx.Oracle, hi int) []string {
	var out []string
	for p := 0; p <= hi; p++ {
		out = append(out, fmt.Sprintf("%d:{%s}", p, o.PrefixState(p)))
	}
	return out
}

// checkHistory runs one history end to end; returns violations found.
func checkHistory(c *vlib.Ctx, cfg hx.Config, hist []hx.Op, level2 bool, verbose bool) {
	col, err := runHistory(cfg, hist, verbose)
	if err != nil {
		c.Violation("history-error", fmt.Sprintf("cfg=%s hist=[%s]: %v", cfg.Name, hx.HistString(hist), err), Case{Cfg: cfg, Hist: hist})
		return
	}
	o := crashx.NewOracle(hist, bounds)
	imgs := col.Images()
	c.Trans(col.Calls)
	c.NoteAdd("crash_points", int64(col.CrashPts))
	c.NoteAdd("crash_points_with_capped_subsets", int64(col.Capped))
	nontrivial := false
	for _, im := range imgs {
		c.Eval(1)
		c.State(im.Hash)
		state, err := recoverCached(c, cfg, im.FS, im.Hash)
		cs := Case{Cfg: cfg, Hist: hist, Image: fmt.Sprintf("crash point %d before %q, %d of %d unsynced units kept", im.Seq, im.At, im.Kept, im.Units), Seq: im.Seq, Mask: im.Mask, Units: im.UnitNames}
		if err != nil {
			c.Violation("recovery-failed", fmt.Sprintf("cfg=%s hist=[%s] %s: %v", cfg.Name, hx.HistString(hist), cs.Image, err), cs)
			continue
		}
		if verbose {
			fmt.Printf("image %s -> {%s} points %v\n", cs.Image, state, im.Points)
		}
		if im.Kept > 0 && im.Kept < im.Units {
			nontrivial = true
			c.Nontrivial(im.Hash)
		}
		for _, pt := range im.Points {
			if v := judge(c.Prop, o, state, pt); v != nil {
				c.Violation(v.class, fmt.Sprintf("cfg=%s hist=[%s] %s: %s", cfg.Name, hx.HistString(hist), cs.Image, v.desc), cs)
				c.Outcome(v.class)
			} else {
				c.Outcome("ok")
			}
		}
		if level2 {
			level2Check(c, cfg, hist, o, im, verbose)
		}
	}
	_ = nontrivial
}

func cloneFS(m *vfs.MemFS) *vfs.MemFS {
	us := m.VerifCrashUnits()
	return m.VerifCrashClone(us, make([]bool, len(us)))
}

// level2Check crashes the recovery itself: every mutating FS call of the recovering Open (and of a
// following write + Close) is again a crash point; each level-2 image must recover under the same
// requirement as its parent.
func level2Check(c *vlib.Ctx, cfg hx.Config, hist []hx.Op, o *crashx.Oracle, im *crashx.Image, verbose bool) {
	mem := cloneFS(im.FS)
	t := crashx.NewTracker()
	col := crashx.NewCollector(mem, t)
	col.MaxUnits = 6
	fs := errorfs.Wrap(mem, col.Injector())
	col.Enable(true)
	x, err := hx.Open(fs, "db", cfg)
	if err != nil {
		return // reported at level 1
	}
	col.Capture("recovered")
	col.Enable(false)
	x.D.Close()
	for _, im2 := range col.Images() {
		c.Eval(1)
		c.State(im2.Hash ^ 0x9e3779b97f4a7c15)
		c.NoteAdd("level2_images", 1)
		state, err := recoverCached(c, cfg, im2.FS, im2.Hash)
		cs := Case{Cfg: cfg, Hist: hist, Level2: true, Image: fmt.Sprintf("L1 crash point %d before %q (%d/%d kept); L2 crash point %d before %q (%d/%d kept)", im.Seq, im.At, im.Kept, im.Units, im2.Seq, im2.At, im2.Kept, im2.Units), Seq: im.Seq, Mask: im.Mask, Units: im.UnitNames}
		if err != nil {
			c.Violation("recovery-failed-after-crash-during-recovery", fmt.Sprintf("cfg=%s hist=[%s] %s: %v", cfg.Name, hx.HistString(hist), cs.Image, err), cs)
			continue
		}
		for _, pt := range im.Points {
			if v := judge(c.Prop, o, state, pt); v != nil {
				c.Violation(v.class, fmt.Sprintf("cfg=%s hist=[%s] %s: %s", cfg.Name, hx.HistString(hist), cs.Image, v.desc), cs)
			}
		}
	}
}

type plan struct {
	cfg    string
	alpha  []hx.Op
	depth  int
	level2 bool
}

func plansFor(prop string, thorough bool) []plan {
	switch prop {
	case "C22":
		if !thorough {
			return []plan{{"tinymanifest", alphaManifest, 3, false}, {"base", alphaManifest, 3, false}, {"tinymanifest", alphaManifest[:7], 2, true}}
		}
		return []plan{{"tinymanifest", alphaManifest, 4, false}, {"base", alphaManifest, 4, false}, {"valsep", alphaManifest, 3, false}, {"tinymanifest", alphaManifest[:8], 3, true}, {"fmv-min", alphaManifest, 3, false}}
	case "C12":
		if !thorough {
			return []plan{{"base", alphaFlush, 3, false}, {"nowal", alphaFlush, 3, false}, {"tinymem", alphaFlush, 3, false}, {"valsep", alphaFlush, 2, false}}
		}
		return []plan{{"base", alphaFlush, 4, false}, {"nowal", alphaFlush, 4, false}, {"tinymem", alphaFlush, 3, false}, {"tinymanifest", alphaFlush, 3, false}, {"valsep", alphaFlush, 3, false}, {"fmv-min", alphaFlush, 3, false}, {"base", alphaFlush[:6], 3, true}}
	default:
		if !thorough {
			// the small targeted plans first, the broad one last: a run cut short by its budget has then
			// covered every configuration
			return []plan{{"tinymanifest", alphaSync, 2, false}, {"tinymem", alphaSync, 2, false}, {"base", alphaSync[:8], 2, true}, {"tinymem", alphaBig, 3, false}, {"tinymem-nosynconclose", alphaMixed, 3, false}, {"base", alphaSync, 3, false}}
		}
		return []plan{{"base", alphaPad, 2, false}, {"base", alphaSync, 4, false}, {"tinymanifest", alphaSync, 3, false}, {"tinymem", alphaSync, 3, false}, {"fmv-min", alphaSync, 3, false}, {"valsep", alphaSync, 3, false}, {"base", alphaSync[:9], 3, true}, {"tinymanifest", alphaSync[:9], 2, true}, {"tinymem", alphaBig, 4, false}, {"tinymem-nosynconclose", alphaMixed, 4, false}, {"nosynconclose", alphaSync, 3, false}}
	}
}

func TestCheck(t *testing.T) {
	vlib.Main(t, "C10", func(c *vlib.Ctx) {
		if c.ReplayPath() != "" {
			var cs Case
			if err := c.LoadReplay(&cs); err != nil {
				t.Fatal(err)
			}
			checkHistory(c, cs.Cfg, cs.Hist, cs.Level2, true)
			return
		}
		var notes []string
		for pi, p := range plansFor(c.Prop, c.Thorough()) {
			if only := os.Getenv("VERIF_PLAN"); only != "" && only != fmt.Sprint(pi) {
				continue // debugging aid: run the plan with this index only
			}
			cfg := configs[p.cfg]
			k := len(p.alpha)
			n := vlib.SeqCount(k, p.depth, p.depth)
			done, complete := c.Each(n, func(i int) {
				seq := vlib.SeqDecode(i, k, p.depth, p.depth)
				hist := make([]hx.Op, len(seq))
				for j, s := range seq {
					hist[j] = p.alpha[s]
				}
				if !legal(cfg, hist) {
					c.Outcome("skipped-outside-contract")
					return
				}
				checkHistory(c, cfg, hist, p.level2, false)
				if i%997 == 0 {
					c.Sample(map[string]any{"cfg": cfg.Name, "hist": hx.HistString(hist), "level2": p.level2})
				}
			})
			notes = append(notes, fmt.Sprintf("%s alphabet %d depth %d level2=%v: %d/%d histories", p.cfg, k, p.depth, p.level2, done, n))
			if !complete {
				c.Incomplete(fmt.Sprintf("budget expired in plan %s alphabet %d depth %d level2=%v after %d of %d histories; earlier plans complete", p.cfg, k, p.depth, p.level2, done, n))
				break
			}
		}
		c.Note("plans", notes)
		if os.Getenv("VERIF_DEBUG") != "" {
			fmt.Println(notes)
		}
	})
}
