// Sub-check of C10/C22 (engine D1 + strict crash image): the objstorage provider's promise "an
// object is durable once Sync has returned" under concurrent jobs. Two or three threads each create
// (or link) a table object on one real provider over a crashable MemFS and call Sync, as a flush
// and an ingest do before they write their version edit; every FS call is a scheduling point. After
// every schedule the crash image in which nothing unsynced survives must contain every object whose
// creator's Sync returned - otherwise a MANIFEST edit could durably reference a table whose
// directory entry was never made durable, and Open would fail after a crash.
package provsync

import (
	"context"
	"fmt"
	"sort"
	"strings"
	"testing"

	"github.com/cockroachdb/pebble/internal/base"
	"github.com/cockroachdb/pebble/internal/verif/d1x"
	"github.com/cockroachdb/pebble/internal/verif/vlib"
	"github.com/cockroachdb/pebble/internal/verif/vsched"
	"github.com/cockroachdb/pebble/objstorage"
	"github.com/cockroachdb/pebble/objstorage/objstorageprovider"
	"github.com/cockroachdb/pebble/vfs"
	"github.com/cockroachdb/pebble/vfs/errorfs"
)

type job struct {
	kind string // create, link, remove+create
	num  int
}

type h struct {
	jobs    []job
	mem     *vfs.MemFS
	p       objstorage.Provider
	errs    []error
	synced  []bool // Sync returned nil for job i
	closeEr error
}

func (s *h) Setup() {
	s.mem = vfs.NewCrashableMem()
	if err := s.mem.MkdirAll("db", 0o755); err != nil {
		panic(err)
	}
	if err := s.mem.MkdirAll("ext", 0o755); err != nil {
		panic(err)
	}
	for i, j := range s.jobs {
		if j.kind == "link" {
			f, err := s.mem.Create(fmt.Sprintf("ext/src-%d.sst", i), vfs.WriteCategoryUnspecified)
			if err != nil {
				panic(err)
			}
			f.Write([]byte("external table contents"))
			f.Sync()
			f.Close()
		}
	}
	for _, d := range []string{"", "db", "ext"} {
		f, _ := s.mem.OpenDir(d)
		f.Sync()
		f.Close()
	}
	fs := errorfs.Wrap(s.mem, errorfs.InjectorFunc(func(op errorfs.Op) error {
		if t := vsched.Cur(); t != nil && op.Kind.IsWrite() {
			t.EnvPoint(fmt.Sprintf("fs.%v", op.Kind))
		}
		return nil
	}))
	p, err := objstorageprovider.Open(objstorageprovider.DefaultSettings(fs, "db"))
	if err != nil {
		panic(err)
	}
	s.p = p
	s.errs = make([]error, len(s.jobs))
	s.synced = make([]bool, len(s.jobs))
}

func (s *h) Threads() []func() {
	var fs []func()
	for i := range s.jobs {
		i := i
		fs = append(fs, func() {
			j := s.jobs[i]
			ctx := context.Background()
			switch j.kind {
			case "create":
				w, _, err := s.p.Create(ctx, base.FileTypeTable, base.DiskFileNum(j.num), objstorage.CreateOptions{})
				if err == nil {
					if err = w.Write([]byte("table contents")); err == nil {
						err = w.Finish()
					} else {
						w.Abort()
					}
				}
				s.errs[i] = err
			case "link":
				_, err := s.p.LinkOrCopyFromLocal(ctx, s.mem, fmt.Sprintf("ext/src-%d.sst", i), base.FileTypeTable, base.DiskFileNum(j.num), objstorage.CreateOptions{})
				s.errs[i] = err
			}
			if s.errs[i] == nil {
				if err := s.p.Sync(); err != nil {
					s.errs[i] = err
				} else {
					s.synced[i] = true
				}
			}
		})
	}
	return fs
}

func (s *h) Finish() { s.closeEr = s.p.Close() }

func (s *h) Teardown(bool) {}

func judge(hh vsched.Harness, x *vsched.Exec) (string, string, string) {
	s := hh.(*h)
	for i, e := range s.errs {
		if e != nil {
			return "err", "provider-error", fmt.Sprintf("job %d (%s): %v", i, s.jobs[i].kind, e)
		}
	}
	us := s.mem.VerifCrashUnits()
	img := s.mem.VerifCrashClone(us, make([]bool, len(us)))
	ls, err := img.List("db")
	if err != nil {
		return "err", "list-error", err.Error()
	}
	sort.Strings(ls)
	have := map[string]bool{}
	for _, n := range ls {
		have[n] = true
	}
	var unsynced []string
	for _, u := range us {
		unsynced = append(unsynced, fmt.Sprintf("%s#%d", u.Path, u.Block))
	}
	for i, j := range s.jobs {
		name := base.MakeFilename(base.FileTypeTable, base.DiskFileNum(j.num))
		if s.synced[i] && !have[name] {
			return "lost", "object-not-durable-after-sync", fmt.Sprintf("job %d (%s) created %s and its provider.Sync() returned nil, but the crash image in which nothing unsynced survives does not contain it (image: %v; unsynced units: %v)", i, j.kind, name, ls, unsynced)
		}
	}
	return fmt.Sprintf("image[%s] unsynced=%d", strings.Join(ls, ","), len(us)), "", ""
}

func mk(name string, jobs []job, qb, tb int, w float64) d1x.Scenario {
	return d1x.Scenario{Name: name, QuickBound: qb, ThoroughBound: tb, Weight: w, Judge: judge,
		New: func() vsched.Harness { return &h{jobs: jobs} }}
}

func TestCheck(t *testing.T) {
	vlib.Main(t, "C10", func(c *vlib.Ctx) {
		d1x.Run(t, c, []d1x.Scenario{
			mk("create+link", []job{{"create", 5}, {"link", 6}}, 2, 3, 3),
			mk("create+create", []job{{"create", 5}, {"create", 6}}, 2, 3, 2),
			mk("link+link", []job{{"link", 5}, {"link", 6}}, 2, 3, 2),
			mk("create+link+create", []job{{"create", 5}, {"link", 6}, {"create", 7}}, 1, 2, 2),
		})
	})
}
