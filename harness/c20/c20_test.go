// C20: a sync acknowledgement implies the record and all earlier ones are written and fsynced.
// Engine D1 on the real record.LogWriter: writer thread, the real flush loop, waiter threads, the
// min-sync-interval timer as a schedulable thread, write/sync errors as environment choices.
package c20

import (
	"bytes"
	"errors"
	"fmt"
	"io"
	"sync"
	"testing"
	"time"

	"github.com/cockroachdb/pebble/internal/base"
	"github.com/cockroachdb/pebble/internal/verif/d1x"
	"github.com/cockroachdb/pebble/internal/verif/vlib"
	"github.com/cockroachdb/pebble/internal/verif/vsched"
	"github.com/cockroachdb/pebble/record"
)

var errInjected = errors.New("injected I/O error")

type fakeFile struct {
	data     []byte
	synced   int
	errs     bool // offer error answers
	injected int
	writes   int
	syncs    int
}

func fsPoint(kind string) {
	if t := vsched.Cur(); t != nil {
		t.EnvPoint(kind)
	}
}

func (f *fakeFile) Write(p []byte) (int, error) {
	fsPoint("fs.Write")
	f.writes++
	if f.errs && f.injected == 0 && vsched.Choose(2, "write-error") == 1 {
		f.injected++
		return 0, errInjected
	}
	f.data = append(f.data, p...)
	return len(p), nil
}

func (f *fakeFile) Sync() error {
	fsPoint("fs.Sync")
	f.syncs++
	n := len(f.data)
	if f.errs && f.injected == 0 && vsched.Choose(2, "sync-error") == 1 {
		f.injected++
		return errInjected
	}
	f.synced = n
	return nil
}

func (f *fakeFile) Close() error { return nil }

type rec struct {
	size int
	sync bool
}

type scen struct {
	recs     []rec
	errs     bool
	minSync  bool
	walSync  bool
	external bool // failover-style pending syncs (index callback)
	// waitAcks: the writer waits for every acknowledgement before it calls Close (Close would
	// otherwise flush and acknowledge everything itself and hide a lost wake-up)
	waitAcks bool
}

type timerT struct {
	h       *h
	fn      func()
	armed   int // generation
	stopped bool
}

func (t *timerT) arm() {
	t.armed++
	gen := t.armed
	t.stopped = false
	vsched.Go(func() {
		// "the timer fires now" is the moment the scheduler picks this thread
		if t.stopped || gen != t.armed {
			return
		}
		t.h.timerFired++
		t.fn()
	})
}
func (t *timerT) Reset(time.Duration) bool { t.arm(); return true }
func (t *timerT) Stop() bool               { t.stopped = true; return true }

type h struct {
	sc         scen
	f          *fakeFile
	ends       []int64 // log size after each record
	wgs        []*sync.WaitGroup
	errs       []error
	released   []bool
	syncedAt   []int // file.synced observed when waiter i was released
	writtenAt  []int
	closeErr   error
	closed     bool
	waited     bool
	timerFired int
	payload    [][]byte
	extDone    []int64 // indexes reported done by the external callback
	extErr     []error
	extSynced  []int
}

func (s *h) Setup() {
	s.f = &fakeFile{errs: s.sc.errs}
	n := len(s.sc.recs)
	s.ends = make([]int64, n)
	s.wgs = make([]*sync.WaitGroup, n)
	s.errs = make([]error, n)
	s.released = make([]bool, n)
	s.syncedAt = make([]int, n)
	s.writtenAt = make([]int, n)
	for i, r := range s.sc.recs {
		p := bytes.Repeat([]byte{byte('a' + i)}, r.size)
		s.payload = append(s.payload, p)
		s.wgs[i] = &sync.WaitGroup{}
		if r.sync && !s.sc.external {
			s.wgs[i].Add(1) // registered before any thread runs, as the commit pipeline does
		}
	}
}

func (s *h) Threads() []func() {
	writer := func() {
		cfg := record.LogWriterConfig{
			WriteWALSyncOffsets: func() bool { return s.sc.walSync },
		}
		if s.sc.minSync {
			cfg.WALMinSyncInterval = func() time.Duration { return time.Millisecond }
		}
		if s.sc.external {
			cfg.ExternalSyncQueueCallback = func(done record.PendingSyncIndex, err error) {
				s.extDone = append(s.extDone, done.Index)
				s.extErr = append(s.extErr, err)
				s.extSynced = append(s.extSynced, s.f.synced)
			}
		}
		w := record.NewLogWriter(s.f, base.DiskFileNum(7), cfg)
		if s.sc.minSync {
			w.VerifSetAfterFunc(func(d time.Duration, fn func()) record.VerifTimer {
				t := &timerT{h: s, fn: fn}
				t.arm()
				return t
			})
		}
		for i, r := range s.sc.recs {
			var err error
			switch {
			case s.sc.external:
				idx := int64(record.NoSyncIndex)
				if r.sync {
					idx = int64(i)
				}
				s.ends[i], err = w.SyncRecordGeneralized(s.payload[i], &record.PendingSyncIndex{Index: idx})
			case r.sync:
				s.ends[i], err = w.SyncRecord(s.payload[i], s.wgs[i], &s.errs[i])
			default:
				s.ends[i], err = w.WriteRecord(s.payload[i])
			}
			if err != nil {
				s.errs[i] = err
			}
		}
		if s.sc.waitAcks {
			if s.sc.external {
				// failover-style: spin (cooperatively) until the callback has reported the last index
				for len(s.extDone) == 0 || s.extDone[len(s.extDone)-1] < int64(len(s.sc.recs)-1) {
					if len(s.extErr) > 0 && s.extErr[len(s.extErr)-1] != nil {
						break
					}
					vsched.Yield()
				}
			} else {
				for i, r := range s.sc.recs {
					if r.sync {
						s.wgs[i].Wait()
					}
				}
			}
			s.waited = true
		}
		s.closeErr = w.Close()
		s.closed = true
	}
	fs := []func(){writer}
	if !s.sc.external {
		for i, r := range s.sc.recs {
			if !r.sync {
				continue
			}
			i := i
			fs = append(fs, func() {
				// the waiter may only start waiting once the writer has registered the sync
				s.wgs[i].Wait()
				s.released[i] = true
				s.syncedAt[i] = s.f.synced
				s.writtenAt[i] = len(s.f.data)
			})
		}
	}
	return fs
}

func (s *h) Teardown(bool) {}

func judge(hh vsched.Harness, x *vsched.Exec) (string, string, string) {
	s := hh.(*h)
	out := fmt.Sprintf("writes=%d syncs=%d timer=%d injected=%d closeErr=%v", s.f.writes, s.f.syncs, s.timerFired, s.f.injected, s.closeErr != nil)
	if !s.closed {
		return out, "close-did-not-return", "writer thread did not finish"
	}
	if s.sc.external {
		for k, idx := range s.extDone {
			out += fmt.Sprintf(" cb(%d,%v)", idx, s.extErr[k] != nil)
			if s.extErr[k] == nil && idx >= 0 && int(idx) < len(s.ends) {
				// index idx and all earlier indices are synced
				if int64(s.extSynced[k]) < s.ends[idx] {
					return out, "ack-before-sync", fmt.Sprintf("external callback reported index %d synced with %d bytes synced, record ends at %d", idx, s.extSynced[k], s.ends[idx])
				}
			}
			if s.extErr[k] != nil && s.f.injected == 0 {
				return out, "spurious-error", fmt.Sprintf("callback error %v without an injected fault", s.extErr[k])
			}
		}
	} else {
		for i, r := range s.sc.recs {
			if !r.sync {
				continue
			}
			// a waiter registered after the writer's SyncRecord must be released by the time Close returned
			if !s.released[i] {
				return out, "waiter-not-released", fmt.Sprintf("waiter %d never released", i)
			}
			if s.errs[i] == nil {
				out += fmt.Sprintf(" w%d:ok", i)
				if int64(s.syncedAt[i]) < s.ends[i] {
					return out, "ack-before-sync", fmt.Sprintf("waiter %d released without error when %d bytes were synced (%d written); its record ends at offset %d", i, s.syncedAt[i], s.writtenAt[i], s.ends[i])
				}
			} else {
				out += fmt.Sprintf(" w%d:err", i)
				if s.f.injected == 0 {
					return out, "spurious-error", fmt.Sprintf("waiter %d got error %v without an injected fault", i, s.errs[i])
				}
			}
		}
	}
	if s.f.injected == 0 {
		if s.closeErr != nil {
			return out, "close-error", fmt.Sprintf("Close returned %v without an injected fault", s.closeErr)
		}
		// read the log back: all records, in order, byte-identical; everything synced at Close
		if s.f.synced != len(s.f.data) {
			return out, "close-without-sync", fmt.Sprintf("after Close %d of %d bytes are synced", s.f.synced, len(s.f.data))
		}
		r := record.NewReader(bytes.NewReader(s.f.data), base.DiskFileNum(7))
		for i := range s.sc.recs {
			rr, err := r.Next()
			if err != nil {
				return out, "readback-error", fmt.Sprintf("record %d: %v", i, err)
			}
			b, err := io.ReadAll(rr)
			if err != nil || !bytes.Equal(b, s.payload[i]) {
				return out, "readback-mismatch", fmt.Sprintf("record %d differs (err %v, %d bytes)", i, err, len(b))
			}
		}
		if _, err := r.Next(); err != io.EOF {
			return out, "readback-tail", fmt.Sprintf("expected EOF after the last record, got %v", err)
		}
	} else {
		// an injected error must reach every waiter whose data was not synced before it
		for i, r := range s.sc.recs {
			if r.sync && !s.sc.external && s.errs[i] == nil && int64(s.f.synced) < s.ends[i] {
				return out, "error-not-delivered", fmt.Sprintf("waiter %d has no error although only %d bytes are synced (record ends at %d)", i, s.f.synced, s.ends[i])
			}
		}
	}
	return out, "", ""
}

func mk(name string, sc scen, qb, tb int, w float64) d1x.Scenario {
	return d1x.Scenario{Name: name, QuickBound: qb, ThoroughBound: tb, Weight: w, Judge: judge,
		New: func() vsched.Harness { return &h{sc: sc} }}
}

func TestCheck(t *testing.T) {
	vlib.Main(t, "C20", func(c *vlib.Ctx) {
		S, N := true, false
		sc := []d1x.Scenario{
			mk("2sync", scen{recs: []rec{{10, S}, {20, S}}}, 2, 3, 6),
			mk("sync-nosync-sync", scen{recs: []rec{{10, S}, {5, N}, {20, S}}}, 1, 2, 1),
			mk("2sync-walsync-format", scen{recs: []rec{{10, S}, {20, S}}, walSync: true}, 1, 2, 1),
			mk("2sync-minsyncinterval", scen{recs: []rec{{10, S}, {20, S}}, minSync: true}, 1, 2, 4),
			mk("2sync-errors", scen{recs: []rec{{10, S}, {20, S}}, errs: true}, 1, 2, 2),
			mk("2sync-external-queue", scen{recs: []rec{{10, S}, {20, S}}, external: true}, 1, 2, 1),
			mk("bigrecord-sync", scen{recs: []rec{{40000, S}, {10, S}}}, 1, 2, 1),
			// a record that fills whole 32 KiB blocks (queued on flusher.pending) with a transient
			// write error: the error must reach the waiter although the tail write and the sync succeed
			mk("bigrecord-errors", scen{recs: []rec{{10, S}, {70000, S}}, errs: true}, 1, 2, 2),
			mk("2sync-wait-acks-then-close", scen{recs: []rec{{10, S}, {20, S}}, waitAcks: true}, 1, 2, 1),
			mk("2sync-minsync-errors-wait-acks", scen{recs: []rec{{10, S}, {20, S}}, minSync: true, errs: true, waitAcks: true}, 1, 2, 2),
		}
		d1x.Run(t, c, sc)
	})
}
