// C16: L0 sublevels are sound and compaction picks are closed.
//
// Every set of <= 3 (quick) / <= 4 (thorough) L0 files whose user-key bounds are one of the 10 closed
// intervals over {a,b,c,d} and whose seqnum ranges are disjoint in every order or legally nested
// (single-seqnum ingested files strictly inside the range of a later flushed file) is built through
// the real manifest.L0Organizer (the same entry points pebble.DB uses). For each set:
//
//  1. sublevel soundness (overlapping files in distinct sublevels, older below; files of a sublevel
//     disjoint and sorted; Version.CheckOrdering passes);
//  2. every incremental construction (all splits of the seqnum-ordered file list into consecutive
//     batches through PrepareUpdate/PerformUpdate = addL0Files, and all one-at-a-time insertion
//     orders, which exercise the canUseAddL0Files fallback) equals the from-scratch construction
//     (per-file sublevel, String(), and the complete internal state dump);
//  3. for every compacting-marking (none/base/intra per file, base markings downward closed), every
//     Lbase menu consistent with it, every PickBaseCompaction / ExtendL0ForBaseCompactionTo /
//     PickIntraL0Compaction (all legal earliestUnflushedSeqNum thresholds, several min depths) result and
//     every pick made after the first one was started (UpdateStateForStartedCompaction): an
//     independent simulation of executing the pick on the file *model* (never on Pebble's interval
//     structures) must preserve the level invariant.
package c16

import (
	"fmt"
	"sort"
	"strings"
	"sync"
	"testing"

	"github.com/cockroachdb/pebble/internal/base"
	"github.com/cockroachdb/pebble/internal/manifest"
	"github.com/cockroachdb/pebble/internal/verif/vlib"
)

// ---------------------------------------------------------------------------------------------
// enumerated space

var keyBytes = [4][]byte{[]byte("a"), []byte("b"), []byte("c"), []byte("d")}

type ival struct{ x, y int }

// The 10 closed intervals [x,y], x<=y over {a,b,c,d}; simplest (left-most, narrow) first.
var ivals = func() []ival {
	var out []ival
	for y := 0; y < 4; y++ {
		for x := 0; x <= y; x++ {
			out = append(out, ival{x, y})
		}
	}
	return out
}()

// layout is one enumerated L0 file set. Files are listed oldest to newest by LARGEST seqnum (the L0
// order of Pebble, TableMetadata.cmpSeqNum). File j has largest seqnum 10*(j+1).
//
//	mode 0 (S): a single seqnum [H,H]            (ingested file, or a one-key flush)
//	mode 1 (R): an own range    [H-3,H]          (flushed file), disjoint from every other file
//	mode 1+m (N_m): range [H(j-m)-2, H] that strictly contains the m preceding files, all of which
//	            must be mode S: ingests that happened while the memtable that was later flushed as
//	            file j was being filled (CheckOrdering "Case 1" in version.go).
type layout struct {
	k    uint8
	iv   [4]uint8
	mode [4]uint8
}

// FileSpec / BaseSpec / Case form the replay artefact.
type FileSpec struct {
	Lo   string `json:"lo"`
	Hi   string `json:"hi"`
	Low  uint64 `json:"seq_low"`
	High uint64 `json:"seq_high"`
}

type BaseSpec struct {
	Lo         string `json:"lo"`
	Hi         string `json:"hi"`
	Compacting bool   `json:"compacting"`
}

type Case struct {
	Files []FileSpec `json:"files"` // oldest -> newest by largest seqnum; file i has TableNum i+1
	// Marks[i]: 0 not compacting, 1 compacting to Lbase, 2 intra-L0 compacting. nil = structural checks only.
	Marks []int      `json:"marks,omitempty"`
	Menu  int        `json:"menu"` // index into baseMenus (-1: all)
	Base  []BaseSpec `json:"base,omitempty"`
	Check string     `json:"check"`
	Info  string     `json:"info,omitempty"`
}

func (l layout) specs() []FileSpec {
	out := make([]FileSpec, l.k)
	for j := 0; j < int(l.k); j++ {
		iv := ivals[l.iv[j]]
		h := uint64(10 * (j + 1))
		low := h
		switch m := int(l.mode[j]); {
		case m == 1:
			low = h - 3
		case m >= 2:
			low = uint64(10*(j-(m-1)+1)) - 2
		}
		out[j] = FileSpec{Lo: string(keyBytes[iv.x]), Hi: string(keyBytes[iv.y]), Low: low, High: h}
	}
	return out
}

// legal reports whether the seqnum shape of l can be produced by Pebble. A flushed file F may contain
// the seqnum b of an ingested file I only strictly (a < b < c) and only if, when I was ingested, the
// memtable (which already held the keys of F written below b, at least one) had no key inside I's
// bounds - otherwise the ingest would have forced a flush first and F would end below b. So some key
// of the universe inside F's bounds must lie outside the bounds of every file nested in F. (Keys that
// F shares with I are then necessarily newer than I, which is what the largest-seqnum order assumes.)
func (l layout) legal() bool {
	for j := 0; j < int(l.k); j++ {
		m := int(l.mode[j]) - 1
		if m < 1 {
			continue
		}
		if m > j {
			return false
		}
		f := ivals[l.iv[j]]
		free := false
		for u := f.x; u <= f.y && !free; u++ {
			covered := false
			for i := j - m; i < j; i++ {
				g := ivals[l.iv[i]]
				if g.x <= u && u <= g.y {
					covered = true
				}
			}
			free = !covered
		}
		if !free {
			return false
		}
		for i := j - m; i < j; i++ {
			if l.mode[i] != 0 {
				return false
			}
		}
	}
	return true
}

// genLayouts: all legal layouts of <= maxK files, plus (singleK > maxK) the layouts of singleK files in
// which every file has a single seqnum (all 10^singleK interval sequences, i.e. every key layout and
// order, without the seqnum-shape dimension).
func genLayouts(maxK, singleK int) []layout {
	var out []layout
	for k := 1; k <= maxK; k++ {
		rad := make([]int, 2*k)
		for j := 0; j < k; j++ {
			rad[j] = len(ivals)
			rad[k+j] = 2 + j // S, R, N_1..N_j
		}
		vlib.Product(rad, func(d []int) {
			var l layout
			l.k = uint8(k)
			for j := 0; j < k; j++ {
				l.iv[j] = uint8(d[j])
				l.mode[j] = uint8(d[k+j])
			}
			if l.legal() {
				out = append(out, l)
			}
		})
	}
	if singleK > maxK {
		rad := make([]int, singleK)
		for j := range rad {
			rad[j] = len(ivals)
		}
		vlib.Product(rad, func(d []int) {
			var l layout
			l.k = uint8(singleK)
			for j := 0; j < singleK; j++ {
				l.iv[j] = uint8(d[j])
			}
			out = append(out, l)
		})
	}
	return out
}

// Lbase menus: files of the base level (non-overlapping, key sorted). '*' = already compacting.
type baseFile struct {
	x, y       int
	compacting bool
}

var baseMenus = [][]baseFile{
	{},
	{{0, 3, false}},
	{{0, 3, true}},
	{{1, 2, false}},
	{{1, 2, true}},
	{{0, 1, false}, {2, 3, false}},
	{{0, 1, true}, {2, 3, false}},
	{{0, 1, false}, {2, 3, true}},
	{{0, 0, false}, {2, 2, false}, {3, 3, false}},
	{{0, 0, false}, {2, 2, true}, {3, 3, false}},
}

func menuSpec(m []baseFile) []BaseSpec {
	out := make([]BaseSpec, len(m))
	for i, b := range m {
		out[i] = BaseSpec{Lo: string(keyBytes[b.x]), Hi: string(keyBytes[b.y]), Compacting: b.compacting}
	}
	return out
}

const (
	flushSplitBytes = 40
	baseLevel       = 3
)

// ---------------------------------------------------------------------------------------------
// file model

type mfile struct {
	idx       int
	x, y      int
	low, high uint64
	mark      int // 0 none, 1 base compacting, 2 intra-L0 compacting
	meta      *manifest.TableMetadata
}

func overlap(ax, ay, bx, by int) bool { return ax <= by && bx <= ay }

func (f *mfile) overlaps(g *mfile) bool { return overlap(f.x, f.y, g.x, g.y) }

// older: Pebble's L0 order (largest seqnum; they are distinct in the enumerated space).
func (f *mfile) older(g *mfile) bool { return f.high < g.high }

func (f *mfile) String() string {
	s := fmt.Sprintf("%d:[%s,%s]#%d-%d", f.idx+1, keyBytes[f.x], keyBytes[f.y], f.low, f.high)
	switch f.mark {
	case 1:
		s += "(base-compacting)"
	case 2:
		s += "(intra-compacting)"
	}
	return s
}

func keyIdx(s string) int {
	for i, k := range keyBytes {
		if string(k) == s {
			return i
		}
	}
	panic("bad key " + s)
}

func newMeta(num int, x, y int, low, high uint64, size uint64) *manifest.TableMetadata {
	m := &manifest.TableMetadata{TableNum: base.TableNum(num), Size: size}
	m.SeqNums.Low = base.SeqNum(low)
	m.SeqNums.High = base.SeqNum(high)
	m.LargestSeqNumAbsolute = m.SeqNums.High
	m.ExtendPointKeyBounds(base.DefaultComparer.Compare,
		base.MakeInternalKey(keyBytes[x], base.SeqNum(high), base.InternalKeyKindSet),
		base.MakeInternalKey(keyBytes[y], base.SeqNum(low), base.InternalKeyKindSet))
	m.InitPhysicalBacking()
	return m
}

// in-progress compaction (model)
type ipc struct {
	lo, hi int
	intra  bool
}

var (
	ccMu       sync.Mutex
	ccExamples []string
)

// Distinct organizer states are collected in a sharded set and handed to vlib once at the end (one
// global mutex per observation would serialise the 16 workers).
type stateShard struct {
	mu sync.Mutex
	m  map[uint64]struct{}
	_  [40]byte
}

var stateShards [256]stateShard

func observeState(h uint64) {
	sh := &stateShards[h&255]
	sh.mu.Lock()
	if sh.m == nil {
		sh.m = map[uint64]struct{}{}
	}
	sh.m[h] = struct{}{}
	sh.mu.Unlock()
}

type errLogger struct{ errs []string }

func (l *errLogger) Infof(format string, args ...interface{}) {}
func (l *errLogger) Errorf(format string, args ...interface{}) {
	l.errs = append(l.errs, fmt.Sprintf(format, args...))
}
func (l *errLogger) Fatalf(format string, args ...interface{}) {
	l.errs = append(l.errs, "FATAL "+fmt.Sprintf(format, args...))
}

// ---------------------------------------------------------------------------------------------
// runner: all checks for one file set

type runner struct {
	c       *vlib.Ctx
	specs   []FileSpec
	files   []*mfile
	verbose bool
	only    *Case

	o, oInc *manifest.L0Organizer
	v       *manifest.Version

	marks    []int
	menu     int
	inprog   []ipc
	stage    string // coarse stage name; the details below are formatted only when a violation is reported
	stDepth  int
	stEusn   uint64
	stExtra  string
	stNext   uint32 // != 0: the first compaction (this file mask) has been started, checking the next pick
	reported map[string]bool
	nViol    int
	nFinding int // violations of class findingClass (included in nViol)

	evals, trans int
	ccOK, ccErr  int64
	ccUnflushed  int64
	lg           errLogger
	menus        [16]*menuState
	outcomes     map[string]int64
	nontrivial   bool
	thorough     bool
}

func (r *runner) logf(format string, args ...interface{}) {
	if r.verbose {
		fmt.Printf(format+"\n", args...)
	}
}

func (r *runner) describeFiles() string {
	var sb strings.Builder
	for i, f := range r.files {
		if i > 0 {
			sb.WriteString(" ")
		}
		sb.WriteString(f.String())
	}
	return sb.String()
}

const findingClass = "base-pick-includes-intra-compacting-file"

func (r *runner) viol(class, info string) {
	r.nViol++
	if class == findingClass {
		r.nFinding++
	}
	if r.reported[class] {
		return
	}
	r.reported[class] = true
	cs := Case{Files: r.specs, Menu: r.menu, Check: class, Info: info}
	if r.marks != nil {
		cs.Marks = append([]int{}, r.marks...)
		if r.menu >= 0 {
			cs.Base = menuSpec(baseMenus[r.menu])
		}
	}
	stage := r.stage
	if r.stDepth > 0 {
		stage += fmt.Sprintf(" minDepth=%d", r.stDepth)
	}
	if r.stEusn > 0 {
		stage += fmt.Sprintf(" earliestUnflushedSeqNum=%d", r.stEusn)
	}
	stage += r.stExtra
	if r.stNext != 0 {
		stage += " -> compaction " + r.maskStr(r.stNext) + " started, next pick"
	}
	desc := fmt.Sprintf("L0={%s} marks=%v lbase=%v stage=%s: %s", r.describeFiles(), cs.Marks, cs.Base, stage, info)
	r.logf("VIOLATION %s: %s", class, desc)
	r.c.Violation(class, desc, cs)
}

func (r *runner) out(s string) { r.outcomes[s]++ }

func limitStr(k base.InternalKey) string {
	if k.Kind() == base.InternalKeyKindInvalid {
		return "unbounded"
	}
	return string(k.UserKey)
}

func (r *runner) maskStr(mask uint32) string {
	var parts []string
	for _, f := range r.files {
		if mask&(1<<uint(f.idx)) != 0 {
			parts = append(parts, f.String())
		}
	}
	return "{" + strings.Join(parts, " ") + "}"
}

func lcfMask(lcf *manifest.L0CompactionFiles) uint32 {
	var m uint32
	for _, f := range lcf.Files {
		m |= 1 << uint(f.TableNum-1)
	}
	return m
}

func (r *runner) metas(order []int) []*manifest.TableMetadata {
	out := make([]*manifest.TableMetadata, len(order))
	for i, j := range order {
		out[i] = r.files[j].meta
	}
	return out
}

func (r *runner) build() {
	r.files = make([]*mfile, len(r.specs))
	l0 := make([]*manifest.TableMetadata, len(r.specs))
	for i, s := range r.specs {
		f := &mfile{idx: i, x: keyIdx(s.Lo), y: keyIdx(s.Hi), low: s.Low, high: s.High}
		f.meta = newMeta(i+1, f.x, f.y, f.low, f.high, uint64(48+24*i))
		r.files[i] = f
		l0[i] = f.meta
	}
	r.o = manifest.NewL0Organizer(base.DefaultComparer, flushSplitBytes)
	var lv [manifest.NumLevels][]*manifest.TableMetadata
	lv[0] = l0
	r.v = manifest.NewVersionForTesting(base.DefaultComparer, r.o, lv)
	r.trans++
}

// check 1
func (r *runner) checkSoundness(o *manifest.L0Organizer, v *manifest.Version) {
	r.stage, r.stDepth, r.stEusn, r.stExtra = "sublevel-soundness", 0, 0, ""
	if err := v.CheckOrdering(); err != nil {
		r.viol("checkordering-failed", "Version.CheckOrdering: "+err.Error())
	}
	seen := make([]int, len(r.files))
	for sl := range o.Levels {
		var prev *mfile
		for m := range o.Levels[sl].All() {
			f := r.files[int(m.TableNum)-1]
			seen[f.idx]++
			if got := o.SubLevelOf(m); got != sl {
				r.viol("sublevel-views-disagree", fmt.Sprintf("file %s is listed in sublevel %d but SubLevelOf says %d", f, sl, got))
			}
			if prev != nil && !(prev.y < f.x) {
				r.viol("sublevel-files-overlap-or-unsorted", fmt.Sprintf("sublevel %d lists %s before %s", sl, prev, f))
			}
			prev = f
		}
	}
	for i, n := range seen {
		if n != 1 {
			r.viol("sublevel-file-count", fmt.Sprintf("file %s appears %d times in the sublevels", r.files[i], n))
		}
	}
	for _, f := range r.files {
		for _, g := range r.files {
			if f.older(g) && f.overlaps(g) {
				sf, sg := o.SubLevelOf(f.meta), o.SubLevelOf(g.meta)
				if !(sf < sg) {
					r.viol("sublevel-order", fmt.Sprintf("%s (older) is in sublevel %d, overlapping newer %s in sublevel %d", f, sf, g, sg))
				}
			}
		}
	}
	if v.L0SublevelFiles == nil || len(v.L0SublevelFiles) != len(o.Levels) {
		r.viol("sublevel-views-disagree", "Version.L0SublevelFiles not set from the organizer")
	}
}

// incremental construction through the DB's path: VersionEdit -> BulkVersionEdit.Accumulate/Apply ->
// L0Organizer.PrepareUpdate/PerformUpdate. batches lists the file indices added per step.
func (r *runner) incremental(batches [][]int) (*manifest.L0Organizer, *manifest.Version, error) {
	o := manifest.NewL0Organizer(base.DefaultComparer, flushSplitBytes)
	v := manifest.NewInitialVersion(base.DefaultComparer)
	for _, b := range batches {
		ve := &manifest.VersionEdit{}
		for _, j := range b {
			ve.NewTables = append(ve.NewTables, manifest.NewTableEntry{Level: 0, Meta: r.files[j].meta})
		}
		var bve manifest.BulkVersionEdit
		if err := bve.Accumulate(ve); err != nil {
			return nil, nil, err
		}
		nv, err := bve.Apply(v, 0)
		if err != nil {
			return nil, nil, err
		}
		o.PerformUpdate(o.PrepareUpdate(&bve, nv), nv)
		r.trans++
		v = nv
	}
	return o, v, nil
}

func (r *runner) compareWithScratch(o2 *manifest.L0Organizer, how string) bool {
	ok := true
	for _, f := range r.files {
		if a, b := r.o.SubLevelOf(f.meta), o2.SubLevelOf(f.meta); a != b {
			r.viol("incremental-sublevel-differs", fmt.Sprintf("%s: file %s: scratch sublevel %d, incremental %d", how, f, a, b))
			ok = false
		}
	}
	if a, b := r.o.String(), o2.String(); a != b {
		r.viol("incremental-describe-differs", fmt.Sprintf("%s: scratch:\n%s\nincremental:\n%s", how, a, b))
		ok = false
	}
	if !r.o.VerifL0StateEqual(o2) {
		r.viol("incremental-state-differs", fmt.Sprintf("%s: scratch:\n%s\nincremental:\n%s", how, r.o.VerifDumpL0State(), o2.VerifDumpL0State()))
		ok = false
	}
	return ok
}

func permutations(n int, f func(p []int)) {
	p := make([]int, n)
	for i := range p {
		p[i] = i
	}
	var rec func(i int)
	rec = func(i int) {
		if i == n {
			f(p)
			return
		}
		for j := i; j < n; j++ {
			p[i], p[j] = p[j], p[i]
			rec(i + 1)
			p[i], p[j] = p[j], p[i]
		}
	}
	rec(0)
}

// check 2
func (r *runner) checkIncremental() {
	k := len(r.files)
	// all compositions of the seqnum-ordered list into consecutive batches: the addL0Files path
	for cut := uint32(0); cut < 1<<uint(k-1); cut++ {
		var batches [][]int
		cur := []int{0}
		for j := 1; j < k; j++ {
			if cut&(1<<uint(j-1)) != 0 {
				batches = append(batches, cur)
				cur = nil
			}
			cur = append(cur, j)
		}
		batches = append(batches, cur)
		how := fmt.Sprintf("batches %v (seqnum order)", batches)
		r.stage = "incremental " + how
		o2, v2, err := r.incremental(batches)
		r.evals++
		if err != nil {
			r.viol("incremental-error", how+": "+err.Error())
			continue
		}
		ok := r.compareWithScratch(o2, how)
		if cut == 1<<uint(k-1)-1 {
			r.oInc = o2 // one file at a time
			r.checkSoundness(o2, v2)
		}
		if ok {
			r.out("incremental:equal")
		} else {
			r.out("incremental:DIFFERENT")
		}
		r.logf("incremental %s -> equal=%v", how, ok)
	}
	// one file at a time in every order: out-of-order additions must fall back to a rebuild
	if k > 1 {
		permutations(k, func(p []int) {
			sorted := sort.IntsAreSorted(p)
			if sorted {
				return // covered above
			}
			batches := make([][]int, k)
			for i, j := range p {
				batches[i] = []int{j}
			}
			how := fmt.Sprintf("one at a time in order %v", p)
			r.stage = "incremental " + how
			o2, _, err := r.incremental(batches)
			r.evals++
			if err != nil {
				r.viol("incremental-error", how+": "+err.Error())
				return
			}
			if r.compareWithScratch(o2, how) {
				r.out("incremental-permuted:equal")
			} else {
				r.out("incremental-permuted:DIFFERENT")
			}
		})
	}
}

// deriveInProgress computes, from the model only, the in-progress compaction list the DB would pass
// to InitCompactingFileInfo and whether (marks, menu) is a consistent state: files compacting to Lbase
// form key-connected groups (one compaction each); the compaction's bounds are the hull of its L0
// files and of the Lbase files that hull overlaps, all of which must then be compacting themselves.
// With single=true all files compacting to Lbase belong to ONE compaction (ExtendL0ForBaseCompactionTo
// adds key-disjoint files to a compaction); the second result is then the number of key-connected
// groups that were merged (the variant is only distinct when it is > 1).
func (r *runner) deriveInProgress(menu []baseFile, single bool) ([]ipc, int, bool) {
	var out []ipc
	groups := 0
	for _, kind := range []int{1, 2} {
		var buf [4]*mfile
		fs := buf[:0]
		for _, f := range r.files {
			if f.mark == kind {
				fs = append(fs, f)
			}
		}
		for i := 1; i < len(fs); i++ { // insertion sort by left bound
			for j := i; j > 0 && fs[j].x < fs[j-1].x; j-- {
				fs[j], fs[j-1] = fs[j-1], fs[j]
			}
		}
		for i := 0; i < len(fs); {
			lo, hi := fs[i].x, fs[i].y
			j := i + 1
			for j < len(fs) && (fs[j].x <= hi || (single && kind == 1)) {
				if fs[j].x > hi {
					groups++
				}
				if fs[j].y > hi {
					hi = fs[j].y
				}
				j++
			}
			i = j
			if kind == 1 {
				groups++
				elo, ehi := lo, hi
				for _, b := range menu {
					if overlap(lo, hi, b.x, b.y) {
						if !b.compacting {
							return nil, 0, false
						}
						if b.x < elo {
							elo = b.x
						}
						if b.y > ehi {
							ehi = b.y
						}
					}
				}
				lo, hi = elo, ehi
			}
			out = append(out, ipc{lo, hi, kind == 2})
		}
	}
	return out, groups, true
}

func toL0Compactions(in []ipc) []manifest.L0Compaction {
	out := make([]manifest.L0Compaction, len(in))
	for i, c := range in {
		out[i] = manifest.L0Compaction{Bounds: base.UserKeyBoundsInclusive(keyBytes[c.lo], keyBytes[c.hi]), IsIntraL0: c.intra}
	}
	return out
}

func (r *runner) setMarks(marks []int) {
	for i, f := range r.files {
		f.mark = marks[i]
		f.meta.CompactionState = manifest.CompactionStateNotCompacting
		f.meta.IsIntraL0Compacting = false
		if marks[i] != 0 {
			f.meta.CompactionState = manifest.CompactionStateCompacting
			f.meta.IsIntraL0Compacting = marks[i] == 2
		}
	}
}

// marksConsistent: a file compacting to Lbase drags every older file it overlaps along (otherwise the
// running compaction itself would already break the invariant, see baseCompactionUsingSeed).
func (r *runner) marksConsistent() bool {
	for _, b := range r.files {
		if b.mark != 1 {
			continue
		}
		for _, g := range r.files {
			if g.mark != 1 && g.older(b) && g.overlaps(b) {
				return false
			}
		}
	}
	return true
}

func (r *runner) hull(mask uint32) (int, int) {
	lo, hi := 99, -1
	for _, f := range r.files {
		if mask&(1<<uint(f.idx)) != 0 {
			if f.x < lo {
				lo = f.x
			}
			if f.y > hi {
				hi = f.y
			}
		}
	}
	return lo, hi
}

// stackedInSeedInterval recognises the shape of the finding "PickBaseCompaction stacks the files of the
// seed interval without looking at their compaction state": on some key of p the oldest file is picked
// and idle (the seed) and everything between it and p is picked as well.
func (r *runner) stackedInSeedInterval(mask uint32, p *mfile) bool {
	for u := p.x; u <= p.y; u++ {
		var oldest *mfile
		all := true
		for _, f := range r.files { // oldest first
			if f.x <= u && u <= f.y && f.older(p) {
				if oldest == nil {
					oldest = f
				}
				if mask&(1<<uint(f.idx)) == 0 {
					all = false
				}
			}
		}
		if oldest != nil && all && oldest.mark == 0 {
			return true
		}
	}
	return false
}

func (r *runner) maxStack(mask uint32) int {
	best := 0
	for u := 0; u < 4; u++ {
		n := 0
		for _, f := range r.files {
			if mask&(1<<uint(f.idx)) != 0 && f.x <= u && u <= f.y {
				n++
			}
		}
		if n > best {
			best = n
		}
	}
	return best
}

// checkPick is the independent oracle: it simulates executing the picked compaction on the model.
// prev != 0: lcf is the result of extending the already checked pick prev; only what the extension added
// is judged (problems of prev itself have been reported under their own class).
func (r *runner) checkPick(pfx string, intra bool, lcf *manifest.L0CompactionFiles, depth int, eusn uint64, menu []baseFile, inprog []ipc, prev uint32) {
	mask := lcfMask(lcf)
	if len(lcf.Files) == 0 {
		r.viol(pfx+"empty-pick", "a non-nil pick has no files")
		return
	}
	if len(lcf.FilesIncluded) != len(lcf.Files) {
		r.viol(pfx+"lcf-inconsistent", fmt.Sprintf("Files=%s but FilesIncluded has %d entries", r.maskStr(mask), len(lcf.FilesIncluded)))
	}
	for _, m := range lcf.Files {
		if _, ok := lcf.FilesIncluded[m.TableNum]; !ok {
			r.viol(pfx+"lcf-inconsistent", fmt.Sprintf("file %d in Files but not in FilesIncluded", m.TableNum))
		}
	}
	var outHigh uint64
	for _, p := range r.files {
		if mask&(1<<uint(p.idx)) == 0 {
			continue
		}
		if p.high > outHigh {
			outHigh = p.high
		}
		if prev&(1<<uint(p.idx)) != 0 {
			continue
		}
		if p.mark != 0 || p.meta.IsCompacting() {
			if !intra && p.mark == 2 && r.stackedInSeedInterval(mask, p) {
				// own class (no prefix): baseCompactionUsingSeed stacks the files of the seed interval
				// without looking at their compaction state; only files of LOWER sublevels go through
				// extendFiles, which does look.
				r.viol(findingClass, fmt.Sprintf("%sbase pick %s includes %s which is already compacting (intra-L0)", pfx, r.maskStr(mask), p))
			} else {
				r.viol(pfx+"picked-compacting-file", fmt.Sprintf("pick %s includes %s which is already compacting", r.maskStr(mask), p))
			}
		}
		if intra && p.high >= eusn {
			r.viol(pfx+"intra-picked-unflushed-seqnum", fmt.Sprintf("pick %s with earliestUnflushedSeqNum=%d includes %s", r.maskStr(mask), eusn, p))
		}
		if !intra {
			for _, c := range inprog {
				if !c.intra && overlap(p.x, p.y, c.lo, c.hi) {
					r.viol(pfx+"base-pick-inside-inprogress-base", fmt.Sprintf("pick %s: %s overlaps the bounds [%s,%s] of a running L0->Lbase compaction",
						r.maskStr(mask), p, keyBytes[c.lo], keyBytes[c.hi]))
				}
			}
		}
	}
	if depth > 0 && prev == 0 && r.maxStack(mask) < depth {
		r.viol(pfx+"pick-below-min-depth", fmt.Sprintf("pick %s stacks fewer than minCompactionDepth=%d files on every key", r.maskStr(mask), depth))
	}
	proper := false
	for _, g := range r.files {
		if mask&(1<<uint(g.idx)) != 0 {
			continue
		}
		for _, p := range r.files {
			if mask&(1<<uint(p.idx)) == 0 || !p.overlaps(g) {
				continue
			}
			proper = true
			if prev&(1<<uint(p.idx)) != 0 {
				continue
			}
			if !intra {
				// p's data moves below all of L0: every L0 file that stays and overlaps p must be newer.
				if g.older(p) {
					r.viol(pfx+"base-leaves-older-file", fmt.Sprintf("pick %s moves %s to Lbase but leaves the older overlapping %s in L0", r.maskStr(mask), p, g))
				}
			} else {
				// p's data moves into an output whose largest seqnum is outHigh (stacked by that seqnum):
				// the order of g relative to p must be the order of g relative to the output.
				if p.older(g) && outHigh > g.high {
					r.viol(pfx+"intra-output-above-newer-file", fmt.Sprintf("pick %s: output gets seqnum %d and lands above unpicked %s, but carries the older overlapping %s",
						r.maskStr(mask), outHigh, g, p))
				}
			}
		}
	}
	if proper {
		r.nontrivial = true
	}
	if !intra {
		lo, hi := r.hull(mask)
		plo, phi := r.hull(prev)
		for _, b := range menu {
			if b.compacting && overlap(lo, hi, b.x, b.y) && !(prev != 0 && overlap(plo, phi, b.x, b.y)) {
				r.viol(pfx+"base-pick-overlaps-compacting-lbase", fmt.Sprintf("pick %s [%s,%s] overlaps Lbase file [%s,%s] which is compacting",
					r.maskStr(mask), keyBytes[lo], keyBytes[hi], keyBytes[b.x], keyBytes[b.y]))
			}
		}
	}
	if err := r.o.VerifCheckCompaction(lcf); err != nil {
		r.logf("pebble checkCompaction: %v", err)
		if intra && eusn <= r.files[len(r.files)-1].high {
			// the helper rejects any candidate whose key range also holds a file at/above the
			// threshold, picked or not; not informative
			r.ccUnflushed++
			return
		}
		r.ccErr++
		ccMu.Lock()
		if len(ccExamples) < 6 && r.nViol == 0 {
			ccExamples = append(ccExamples, fmt.Sprintf("L0={%s} marks=%v %s%s pick %s", r.describeFiles(), r.marks, pfx, r.stage, r.maskStr(mask)))
		}
		ccMu.Unlock()
	} else {
		r.ccOK++
	}
}

func (r *runner) pickBase(o *manifest.L0Organizer, depth int, baseSlice manifest.LevelSlice) *manifest.L0CompactionFiles {
	lg := &r.lg
	lg.errs = lg.errs[:0]
	lcf := o.PickBaseCompaction(lg, depth, baseSlice, baseLevel, nil)
	r.trans++
	if len(lg.errs) > 0 {
		r.viol("pick-logged-internal-error", strings.Join(lg.errs, "; "))
	}
	return lcf
}

type menuState struct {
	files []baseFile
	metas []*manifest.TableMetadata
	slice manifest.LevelSlice
}

func (r *runner) newMenuState(mi int) *menuState {
	if r.menus[mi] != nil {
		return r.menus[mi] // startAndRepick restores the flags it flips
	}
	ms := &menuState{files: append([]baseFile{}, baseMenus[mi]...)}
	r.menus[mi] = ms
	for i, b := range ms.files {
		m := newMeta(100+i, b.x, b.y, 1, 2, 1000)
		if b.compacting {
			m.CompactionState = manifest.CompactionStateCompacting
		}
		ms.metas = append(ms.metas, m)
	}
	ms.slice = manifest.NewLevelSliceKeySorted(base.DefaultComparer.Compare, ms.metas)
	return ms
}

// startAndRepick marks the picked files as compacting the way DB.addInProgressCompaction does, tells
// the organizer (UpdateStateForStartedCompaction) and checks the picks that would be made next.
func (r *runner) startAndRepick(intra bool, lcf *manifest.L0CompactionFiles, ms *menuState, inprog []ipc) {
	mask := lcfMask(lcf)
	r.stNext = mask
	lo, hi := r.hull(mask)
	var flipped []int
	menu := ms.files
	if !intra {
		// the Lbase files the compaction overlaps become inputs
		elo, ehi := lo, hi
		for i := range menu {
			if overlap(lo, hi, menu[i].x, menu[i].y) {
				if !menu[i].compacting {
					menu[i].compacting = true
					ms.metas[i].CompactionState = manifest.CompactionStateCompacting
					flipped = append(flipped, i)
				}
				if menu[i].x < elo {
					elo = menu[i].x
				}
				if menu[i].y > ehi {
					ehi = menu[i].y
				}
			}
		}
		lo, hi = elo, ehi
	}
	var picked []*manifest.TableMetadata
	for _, f := range r.files {
		if mask&(1<<uint(f.idx)) != 0 {
			if intra {
				f.mark = 2
			} else {
				f.mark = 1
			}
			f.meta.CompactionState = manifest.CompactionStateCompacting
			f.meta.IsIntraL0Compacting = intra
			picked = append(picked, f.meta)
		}
	}
	if err := r.o.UpdateStateForStartedCompaction([]manifest.LevelSlice{manifest.NewLevelSliceSeqSorted(picked)}, !intra); err != nil {
		r.viol("update-state-error", err.Error())
	}
	r.trans++
	inprog2 := append(append([]ipc{}, inprog...), ipc{lo, hi, intra})
	if nb := r.pickBase(r.o, 1, ms.slice); nb != nil {
		if r.verbose {
			r.logf("   next base pick %s", r.maskStr(lcfMask(nb)))
		}
		r.checkPick("next-", false, nb, 1, 0, menu, inprog2, 0)
		r.out("next-base:picked")
	} else {
		r.out("next-base:nil")
	}
	maxSeq := r.files[len(r.files)-1].high + 1
	ni := r.o.PickIntraL0Compaction(base.SeqNum(maxSeq), 1, nil)
	r.trans++
	if ni != nil {
		if r.verbose {
			r.logf("   next intra pick %s", r.maskStr(lcfMask(ni)))
		}
		r.checkPick("next-", true, ni, 1, maxSeq, menu, inprog2, 0)
		r.out("next-intra:picked")
	} else {
		r.out("next-intra:nil")
	}
	r.evals++
	// restore
	for _, i := range flipped {
		menu[i].compacting = false
		ms.metas[i].CompactionState = manifest.CompactionStateNotCompacting
	}
	r.setMarks(r.marks)
	r.o.InitCompactingFileInfo(toL0Compactions(inprog))
	r.trans++
	r.stNext = 0
}

// check 3, Lbase picks for one (marking, menu)
func (r *runner) checkBasePicks(mi int) {
	r.checkBasePicksGrouped(mi, false)
	r.checkBasePicksGrouped(mi, true)
}

func (r *runner) checkBasePicksGrouped(mi int, single bool) {
	ms := r.newMenuState(mi)
	inprog, groups, ok := r.deriveInProgress(ms.files, single)
	if single && groups < 2 {
		return // same state as single=false
	}
	if !ok {
		r.out("menu-inconsistent-with-marking:skipped")
		return
	}
	if single {
		r.out("marking-as-one-multi-range-base-compaction:checked")
	}
	r.menu = mi
	r.inprog = inprog
	l0c := toL0Compactions(inprog)
	r.o.InitCompactingFileInfo(l0c)
	r.oInc.InitCompactingFileInfo(l0c)
	r.trans += 2
	r.stage, r.stDepth, r.stEusn, r.stExtra = "InitCompactingFileInfo", 0, 0, ""
	if !r.o.VerifL0StateEqual(r.oInc) {
		r.viol("incremental-state-differs-after-init", fmt.Sprintf("scratch:\n%s\nincremental:\n%s", r.o.VerifDumpL0State(), r.oInc.VerifDumpL0State()))
	}
	observeState(r.o.VerifL0StateHash())
	if r.verbose {
		r.logf("--- marks=%v menu=%d %v inprogress=%v\n%s%s", r.marks, mi, menuSpec(ms.files), inprog, r.o.String(), r.o.VerifDumpL0State())
	}
	depths := []int{1}
	if r.thorough {
		depths = []int{1, 2}
	}
	started := map[uint32]bool{}
	for _, depth := range depths {
		r.stage, r.stDepth, r.stEusn, r.stExtra = "PickBaseCompaction", depth, 0, ""
		lcf := r.pickBase(r.o, depth, ms.slice)
		lcf2 := r.pickBase(r.oInc, depth, ms.slice)
		r.evals++
		if (lcf == nil) != (lcf2 == nil) || (lcf != nil && lcfMask(lcf) != lcfMask(lcf2)) {
			r.viol("incremental-pick-differs", "scratch and incremental organizers pick different base compactions")
			lcf2 = nil
		}
		if lcf == nil {
			r.out("base:nil")
			r.logf("base pick depth %d: nil", depth)
			continue
		}
		r.out("base:picked")
		before := lcfMask(lcf)
		v0 := r.nViol
		if r.verbose {
			r.logf("base pick depth %d: %s", depth, r.maskStr(before))
		}
		r.checkPick("", false, lcf, depth, 0, ms.files, inprog, 0)

		// ExtendL0ForBaseCompactionTo, the way pickedTableCompaction.maybeGrowL0ForBase calls it: the
		// exclusive limits are the neighbours of the overlapped Lbase files. With no overlapped Lbase
		// file the DB skips the call; the API allows it with unbounded limits, which is what we do.
		lo, hi := r.hull(before)
		smallest, largest := base.InvalidInternalKey, base.InvalidInternalKey
		first, last := -1, -1
		for i, b := range ms.files {
			if overlap(lo, hi, b.x, b.y) {
				if first < 0 {
					first = i
				}
				last = i
			}
		}
		if first >= 0 {
			if first > 0 {
				smallest = ms.metas[first-1].Largest()
			}
			if last < len(ms.files)-1 {
				largest = ms.metas[last+1].Smallest()
			}
		} else if len(ms.files) > 0 {
			// Lbase is not empty but nothing is overlapped: the DB does not extend (it hopes for a move
			// compaction) and unbounded limits would be wrong, they could reach other Lbase files.
			r.out("extend:not-called-no-lbase-overlap")
			if !started[before] && r.nViol == v0 {
				started[before] = true
				r.startAndRepick(false, lcf, ms, inprog)
			}
			continue
		}
		r.stExtra = " + ExtendL0ForBaseCompactionTo(" + limitStr(smallest) + "," + limitStr(largest) + ")"
		grew := r.o.ExtendL0ForBaseCompactionTo(smallest, largest, lcf)
		r.trans++
		after := lcfMask(lcf)
		if r.verbose {
			r.logf("  extend -> grew=%v %s", grew, r.maskStr(after))
		}
		if lcf2 != nil {
			grew2 := r.oInc.ExtendL0ForBaseCompactionTo(smallest, largest, lcf2)
			r.trans++
			if grew != grew2 || after != lcfMask(lcf2) {
				r.viol("incremental-pick-differs", "scratch and incremental organizers extend the base compaction differently")
			}
		}
		if before&^after != 0 {
			r.viol("extend-dropped-files", fmt.Sprintf("before %s after %s", r.maskStr(before), r.maskStr(after)))
		}
		if grew != (after != before) {
			r.viol("extend-return-value", fmt.Sprintf("returned %v but files went from %s to %s", grew, r.maskStr(before), r.maskStr(after)))
		}
		if grew {
			r.out("extend:grew")
		} else {
			r.out("extend:same")
		}
		r.checkPick("extended-", false, lcf, depth, 0, ms.files, inprog, before)
		// the extension must not touch further Lbase files
		lo2, hi2 := r.hull(after)
		for i, b := range ms.files {
			if overlap(lo2, hi2, b.x, b.y) && (first < 0 || i < first || i > last) {
				r.viol("extend-touches-more-lbase", fmt.Sprintf("extension from %s to %s now overlaps Lbase file [%s,%s]",
					r.maskStr(before), r.maskStr(after), keyBytes[b.x], keyBytes[b.y]))
			}
		}
		if !started[after] && r.nViol == v0 {
			// (a pick that is already wrong is not started)
			started[after] = true
			r.startAndRepick(false, lcf, ms, inprog)
		}
	}
}

// check 3, intra-L0 picks for one marking
func (r *runner) checkIntraPicks() {
	r.menu = 0
	ms := r.newMenuState(0)
	inprog, _, _ := r.deriveInProgress(nil, false)
	r.inprog = inprog
	l0c := toL0Compactions(inprog)
	r.o.InitCompactingFileInfo(l0c)
	r.oInc.InitCompactingFileInfo(l0c)
	r.trans += 2
	k := len(r.files)
	// thresholds: everything flushed first, then below each file (newest first). Files at or above the
	// threshold exist only as ingested files (single seqnum) above an unflushed memtable.
	thresholds := []uint64{r.files[k-1].high + 1}
	for j := k - 1; j >= 0; j-- {
		if r.files[j].low != r.files[j].high {
			break
		}
		thresholds = append(thresholds, r.files[j].high)
	}
	depths := []int{1, 2}
	if r.thorough {
		depths = []int{1, 2, 4}
	}
	started := map[uint32]bool{}
	for _, t := range thresholds {
		for _, depth := range depths {
			if depth > k {
				continue
			}
			r.stage, r.stDepth, r.stEusn, r.stExtra = "PickIntraL0Compaction", depth, t, ""
			lcf := r.o.PickIntraL0Compaction(base.SeqNum(t), depth, nil)
			lcf2 := r.oInc.PickIntraL0Compaction(base.SeqNum(t), depth, nil)
			r.trans += 2
			r.evals++
			if (lcf == nil) != (lcf2 == nil) || (lcf != nil && lcfMask(lcf) != lcfMask(lcf2)) {
				r.viol("incremental-pick-differs", "scratch and incremental organizers pick different intra-L0 compactions")
			}
			if lcf == nil {
				r.out("intra:nil")
				r.logf("intra pick t=%d depth %d: nil", t, depth)
				continue
			}
			r.out("intra:picked")
			if r.verbose {
				r.logf("intra pick t=%d depth %d: %s", t, depth, r.maskStr(lcfMask(lcf)))
			}
			if !lcf.VerifIsIntraL0() {
				r.viol("intra-pick-kind", "PickIntraL0Compaction returned a candidate not flagged intra-L0")
			}
			v0 := r.nViol
			r.checkPick("", true, lcf, depth, t, nil, inprog, 0)
			if m := lcfMask(lcf); !started[m] && r.nViol == v0 {
				started[m] = true
				r.startAndRepick(true, lcf, ms, inprog)
			}
		}
	}
}

func (r *runner) run() {
	defer func() {
		if p := recover(); p != nil {
			r.viol("panic", fmt.Sprintf("panic: %v", p))
		}
	}()
	r.stage = "build from scratch"
	r.build()
	r.logf("files: %s\n%s%s", r.describeFiles(), r.o.String(), r.o.VerifDumpL0State())
	observeState(r.o.VerifL0StateHash() ^ 0x5555)
	r.evals++
	r.checkSoundness(r.o, r.v)
	r.checkIncremental()
	if r.oInc == nil {
		return
	}
	k := len(r.files)
	rad := make([]int, k)
	for i := range rad {
		rad[i] = 3
	}
	vlib.Product(rad, func(d []int) {
		if r.only != nil {
			if r.only.Marks == nil {
				return
			}
			for i := range d {
				if d[i] != r.only.Marks[i] {
					return
				}
			}
		}
		r.marks = append(r.marks[:0], d...)
		r.setMarks(r.marks)
		if !r.marksConsistent() {
			r.out("marking-not-downward-closed:skipped")
			return
		}
		r.out("marking:checked")
		r.checkIntraPicks()
		for mi := range baseMenus {
			if r.only != nil && r.only.Menu >= 0 && r.only.Menu != mi {
				continue
			}
			r.checkBasePicks(mi)
		}
	})
	r.marks = nil
	r.menu = -1
	r.setMarks(make([]int, k))
}

func runFiles(c *vlib.Ctx, specs []FileSpec, only *Case, verbose bool) *runner {
	r := &runner{c: c, specs: specs, only: only, verbose: verbose, menu: -1,
		reported: map[string]bool{}, outcomes: map[string]int64{}, thorough: c.Thorough()}
	r.run()
	c.Eval(r.evals)
	c.Trans(r.trans)
	for k, n := range r.outcomes {
		c.OutcomeN(k, n)
	}
	c.OutcomeN("pebble-checkCompaction-on-pick:ok", r.ccOK)
	if r.ccUnflushed > 0 {
		c.OutcomeN("pebble-checkCompaction-on-pick:error-because-of-unflushed-threshold", r.ccUnflushed)
	}
	if r.ccErr > 0 {
		c.OutcomeN("pebble-checkCompaction-on-pick:error", r.ccErr)
	}
	return r
}

func TestCheck(t *testing.T) {
	vlib.Main(t, "C16", func(c *vlib.Ctx) {
		if c.ReplayPath() != "" {
			var cs Case
			if err := c.LoadReplay(&cs); err != nil {
				t.Fatal(err)
			}
			r := runFiles(c, cs.Files, &cs, true)
			fmt.Printf("replay: %d violations\n", r.nViol)
			return
		}
		maxK, singleK := 3, 4
		if c.Thorough() {
			maxK, singleK = 4, 0
		}
		layouts := genLayouts(maxK, singleK)
		perK := map[int]int{}
		nested := 0
		for _, l := range layouts {
			perK[int(l.k)]++
			for j := 0; j < int(l.k); j++ {
				if l.mode[j] >= 2 {
					nested++
					break
				}
			}
		}
		done, complete := c.Each(len(layouts), func(i int) {
			l := layouts[i]
			specs := l.specs()
			r := runFiles(c, specs, nil, false)
			// non-trivial: at least two files overlap in key space AND some pick left behind a file that
			// overlaps a picked file (so the closure oracle had to decide something).
			if r.nontrivial {
				c.Nontrivial(vlib.Hash("layout", i))
			}
			switch {
			case r.nViol == 0:
				c.Outcome("layout:all-checks-pass")
			case r.nViol == r.nFinding:
				c.Outcome("layout:all-pass-except-class-" + findingClass)
			default:
				c.Outcome("layout:VIOLATION")
			}
			if i%3001 == 17 {
				sub := make([]int, len(r.files))
				for j, f := range r.files {
					sub[j] = r.o.SubLevelOf(f.meta)
				}
				c.Sample(map[string]any{"files": specs, "describe": r.describeFiles(), "sublevels": sub, "violations_of_class_" + findingClass: r.nFinding, "other_violations": r.nViol - r.nFinding})
			}
		})
		for i := range stateShards {
			for h := range stateShards[i].m {
				c.State(h)
			}
		}
		if !complete {
			c.Incomplete(fmt.Sprintf("budget expired after %d of %d file sets (sets are ordered by size; all smaller sizes complete)", done, len(layouts)))
		}
		if len(ccExamples) > 0 {
			c.Note("pebble_checkCompaction_disagreements", ccExamples)
		}
		if singleK > maxK {
			c.Note("scope_extra", fmt.Sprintf("plus all %d sets of %d files in which every file has a single seqnum", perK[singleK], singleK))
		}
		c.Note("scope", fmt.Sprintf("file sets of <=%d L0 files with every legal seqnum shape: %d layouts in total (by size %v, %d with nested seqnum ranges); per layout: all 2^(k-1) batch splits + all k! insertion orders; all 3^k markings (base markings downward closed) x %d Lbase menus x min depths; intra-L0 thresholds: all legal",
			maxK, len(layouts), perK, nested, len(baseMenus)))
	})
}
