// C21: WAL failover replays each written batch exactly once, in order. Engine D1 on the real
// wal.failoverWriter over two directories of a crashable MemFS: the user thread (WriteRecord x2-3
// with sync, switchToNewDir at every position, Close), every goroutine the writer spawns (one flush
// loop per physical log, asynchronous creators/closers), every FS call a scheduling point ("a
// stalled disk is a preempted thread inside an FS call"), write/sync/create errors as environment
// choices. After every execution the logical WAL is read back with the real Scan + OpenForRead.
package c21

import (
	"encoding/binary"
	"fmt"
	"os"
	"sort"
	"strings"
	"sync"
	"testing"

	"github.com/cockroachdb/pebble/internal/verif/d1x"
	"github.com/cockroachdb/pebble/internal/verif/vlib"
	"github.com/cockroachdb/pebble/internal/verif/vsched"
	"github.com/cockroachdb/pebble/internal/verif/vsync"
	"github.com/cockroachdb/pebble/vfs"
	"github.com/cockroachdb/pebble/vfs/errorfs"
	"github.com/cockroachdb/pebble/wal"
)

// rec builds a valid batch representation (the logical reader deduplicates by batch sequence
// number): header = seqnum (8 bytes LE) + count (4 bytes LE), then one SET.
func rec(seq uint64, key string) []byte {
	b := make([]byte, 12, 12+3+len(key))
	binary.LittleEndian.PutUint64(b[:8], seq)
	binary.LittleEndian.PutUint32(b[8:12], 1)
	b = append(b, 1 /* InternalKeyKindSet */, byte(len(key)))
	b = append(b, key...)
	b = append(b, 1, 'v')
	return b
}

type step struct {
	kind string // w (write+sync), n (write no sync), s0/s1 (switch to dir),
	seq  uint64
}

type scen struct {
	name  string
	steps []step
	errs  bool
	wsync bool // WAL-sync chunk format
	// watch: at the very step that acknowledges a synced record (the WaitGroup reaching zero) the
	// strict crash image is taken on the acknowledging thread: the record must be readable from
	// what is durable at that moment, not only once Close has finished.
	watch bool
}

type h struct {
	sc        scen
	mem       *vfs.MemFS
	fs        vfs.FS
	injected  int
	fw        *wal.VerifFW
	wgs       map[uint64]*sync.WaitGroup
	errs      map[uint64]*error
	werr      map[uint64]error
	closeErr  error
	closed    bool
	stopped   bool
	swErr     []error
	qlen      int
	ackViol   string
	ackChecks int
	created   chan struct{}
}

func (s *h) Setup() {
	s.mem = vfs.NewCrashableMem()
	for _, d := range []string{"pri", "sec"} {
		if err := s.mem.MkdirAll(d, 0o755); err != nil {
			panic(err)
		}
	}
	f, _ := s.mem.OpenDir("")
	f.Sync()
	f.Close()
	s.fs = errorfs.Wrap(s.mem, errorfs.InjectorFunc(func(op errorfs.Op) error {
		t := vsched.Cur()
		if t == nil {
			return nil
		}
		if !op.Kind.IsWrite() {
			return nil
		}
		t.EnvPoint(fmt.Sprintf("fs.%v", op.Kind))
		if s.sc.errs && s.injected == 0 {
			switch op.Kind {
			case errorfs.OpCreate, errorfs.OpFileWrite, errorfs.OpFileSync, errorfs.OpFileSyncData, errorfs.OpFileSyncTo:
				if strings.HasSuffix(op.Path, ".log") && vsched.Choose(2, "fs-error") == 1 {
					s.injected++
					return errorfs.ErrInjected
				}
			}
		}
		return nil
	}))
	s.wgs, s.errs, s.werr = map[uint64]*sync.WaitGroup{}, map[uint64]*error{}, map[uint64]error{}
	for _, st := range s.sc.steps {
		if st.kind == "w" {
			wg := &sync.WaitGroup{}
			wg.Add(1)
			s.wgs[st.seq] = wg
			if s.sc.watch {
				vsync.SetOnZero(wg, s.ackOracle(st.seq))
			}
			s.errs[st.seq] = new(error)
		}
	}
}

// ackOracle runs on the thread that acknowledges record seq, at the acknowledging step.
func (s *h) ackOracle(seq uint64) func() {
	return func() {
		if *s.errs[seq] != nil || s.ackViol != "" {
			return
		}
		s.ackChecks++
		us := s.mem.VerifCrashUnits()
		recs, segs, err := wal.VerifReadBack(s.mem.VerifCrashClone(us, make([]bool, len(us))), 7)
		if err != nil {
			s.ackViol = fmt.Sprintf("crash image at the acknowledgement of record %d does not read back: %v (segments %v)", seq, err, segs)
			return
		}
		var got []uint64
		for _, r := range recs {
			got = append(got, seqOf(r))
		}
		if os.Getenv("VERIF_C21_DEBUG") != "" {
			fmt.Printf("ORACLE ack of %d: strict crash image reads back %v in %v\n", seq, got, segs)
		}
		for _, q := range got {
			if q == seq {
				return
			}
		}
		s.ackViol = fmt.Sprintf("record %d was acknowledged as synced, but the strict crash image taken at that moment reads back %v (segments %v)", seq, got, segs)
	}
}

func (s *h) Threads() []func() {
	return []func(){func() {
		s.created = make(chan struct{}, 16)
		fw, err := wal.VerifNewFailoverWriterCreated(s.fs, 7, s.sc.wsync, s.created)
		if err != nil {
			panic(err)
		}
		s.fw = fw
		for _, st := range s.sc.steps {
			switch st.kind {
			case "w":
				_, err := fw.Write(rec(st.seq, fmt.Sprintf("k%d", st.seq)), s.wgs[st.seq], s.errs[st.seq])
				s.werr[st.seq] = err
			case "n":
				_, err := fw.Write(rec(st.seq, fmt.Sprintf("k%d", st.seq)), nil, nil)
				s.werr[st.seq] = err
			case "wait":
				// wait for every acknowledgement requested so far BEFORE Close (Close syncs and
				// acknowledges the last index itself, which would hide a lost wake-up)
				for _, st2 := range s.sc.steps {
					if st2.kind == "w" && s.werr[st2.seq] == nil {
						if _, started := s.werr[st2.seq]; started {
							s.wgs[st2.seq].Wait()
						}
					}
				}
			case "c":
				// wait until one more physical writer has been created and installed (the writer's own
				// test hook; a real channel: the scheduler sees this thread durably blocked)
				<-s.created
			case "s0":
				s.swErr = append(s.swErr, fw.Switch(0))
			case "s1":
				s.swErr = append(s.swErr, fw.Switch(1))
			}
		}
		_, s.closeErr = fw.Close()
		s.closed = true
		for _, wg := range s.wgs {
			wg.Wait()
		}
		fw.Stop()
		s.qlen = fw.QueueLen()
		s.stopped = true
	}}
}

func (s *h) Teardown(bool) {}

func seqOf(b []byte) uint64 {
	if len(b) < 12 {
		return 0
	}
	return binary.LittleEndian.Uint64(b[:8])
}

func judge(hh vsched.Harness, x *vsched.Exec) (string, string, string) {
	s := hh.(*h)
	if !s.closed || !s.stopped {
		return "hang", "close-or-stop-did-not-return", fmt.Sprintf("closed=%v stopped=%v", s.closed, s.stopped)
	}
	if s.ackViol != "" {
		return "bad", "acknowledged-before-durable", s.ackViol
	}
	written := map[uint64]bool{}
	var order []uint64
	acked := map[uint64]bool{}
	for _, st := range s.sc.steps {
		if st.kind == "w" || st.kind == "n" {
			written[st.seq] = true
			order = append(order, st.seq)
			if s.werr[st.seq] != nil && s.injected == 0 {
				return "err", "write-error-without-fault", fmt.Sprintf("WriteRecord(%d): %v", st.seq, s.werr[st.seq])
			}
			if st.kind == "w" && *s.errs[st.seq] == nil {
				acked[st.seq] = true
			}
			if st.kind == "w" && *s.errs[st.seq] != nil && s.injected == 0 {
				return "err", "sync-error-without-fault", fmt.Sprintf("record %d: %v", st.seq, *s.errs[st.seq])
			}
		}
	}
	if s.closeErr != nil && s.injected == 0 {
		return "err", "close-error-without-fault", s.closeErr.Error()
	}
	if s.qlen != 0 && s.injected == 0 {
		// (after an injected I/O error the slots of unsynced records stay taken; the DB is fail-stop
		// at that point and the property does not speak about the semaphore, so this is only
		// demanded in fault-free executions)
		return "sem", "sync-queue-semaphore-leak", fmt.Sprintf("%d sync-queue slots still taken after Close and Stop", s.qlen)
	}
	check := func(what string, fs vfs.FS, mustHave map[uint64]bool, complete bool) (string, string, string) {
		recs, segs, err := wal.VerifReadBack(fs, 7)
		if err != nil {
			return "", "readback-error", fmt.Sprintf("%s: %v (segments %v)", what, err, segs)
		}
		var got []uint64
		seen := map[uint64]int{}
		for _, r := range recs {
			q := seqOf(r)
			got = append(got, q)
			seen[q]++
			if !written[q] {
				return "", "record-never-written", fmt.Sprintf("%s: read back a record with seqnum %d that was never written (%v)", what, q, got)
			}
		}
		for q, n := range seen {
			if n > 1 {
				return "", "record-replayed-twice", fmt.Sprintf("%s: seqnum %d returned %d times (%v), segments %v", what, q, n, got, segs)
			}
		}
		if !sort.SliceIsSorted(got, func(i, j int) bool { return got[i] < got[j] }) {
			return "", "records-out-of-order", fmt.Sprintf("%s: %v, segments %v", what, got, segs)
		}
		for q := range mustHave {
			if seen[q] == 0 {
				return "", "acknowledged-record-lost", fmt.Sprintf("%s: acknowledged synced record %d is missing; read back %v, segments %v", what, q, got, segs)
			}
		}
		if complete {
			for _, q := range order {
				if seen[q] == 0 {
					return "", "record-lost-after-clean-close", fmt.Sprintf("%s: record %d missing after a successful Close; read back %v, segments %v", what, q, got, segs)
				}
			}
		}
		// a record may only be missing if every later one is missing too (a prefix), unless faults hit
		if s.injected == 0 {
			gap := false
			for _, q := range order {
				if seen[q] == 0 {
					gap = true
				} else if gap {
					return "", "hole-in-logical-wal", fmt.Sprintf("%s: %v has a hole (written %v), segments %v", what, got, order, segs)
				}
			}
		}
		return fmt.Sprintf("%v in %v", got, segs), "", ""
	}
	out, class, desc := check("live directories", s.mem, acked, s.closeErr == nil && s.injected == 0)
	if class != "" {
		return "bad", class, desc
	}
	// the strict crash image: nothing unsynced survives; every acknowledged synced record is there
	us := s.mem.VerifCrashUnits()
	_, class, desc = check("strict crash image", s.mem.VerifCrashClone(us, make([]bool, len(us))), acked, false)
	if class != "" {
		return "bad", class, desc
	}
	return fmt.Sprintf("%s acked=%d injected=%d ack-time crash images checked=%d", out, len(acked), s.injected, s.ackChecks), "", ""
}

func mk(sc scen, qb, tb int, w float64) d1x.Scenario {
	sc.watch = true // the acknowledgement-time oracle adds no scheduling points
	env := 0
	if sc.errs {
		env = 1 // one injected fault at every position, on top of the preemption bound
	}
	return d1x.Scenario{Name: sc.name, QuickBound: qb, ThoroughBound: tb, QuickEnv: env, ThoroughEnv: env, Weight: w, Judge: judge, MaxSteps: 100000,
		New: func() vsched.Harness { return &h{sc: sc} }}
}

func TestCheck(t *testing.T) {
	vlib.Main(t, "C21", func(c *vlib.Ctx) {
		W := func(q uint64) step { return step{"w", q} }
		N := func(q uint64) step { return step{"n", q} }
		S1, S0, C := step{kind: "s1"}, step{kind: "s0"}, step{kind: "c"}
		sc := []d1x.Scenario{
			mk(scen{name: "w-switch-w", steps: []step{W(10), S1, W(11)}}, 0, 1, 3),
			mk(scen{name: "w-w-switch", steps: []step{W(10), W(11), S1}}, -1, 1, 2),                         // thorough only
			mk(scen{name: "switch-w-w", steps: []step{S1, W(10), W(11)}}, -1, 1, 1),                         // thorough only
			mk(scen{name: "w-switch-w-switchback-w", steps: []step{W(10), S1, W(11), S0, W(12)}}, -1, 0, 2), // thorough only: two switches, ~60 000 hand-off orders
			mk(scen{name: "nosync-switch-w", steps: []step{N(10), S1, W(11)}}, 0, 1, 1),
			mk(scen{name: "w-switch-w-errors", steps: []step{W(10), S1, W(11)}, errs: true}, 0, 1, 3),
			mk(scen{name: "w-switch-w-walsync-format", steps: []step{W(10), S1, W(11)}, wsync: true}, 0, 1, 1),
			mk(scen{name: "no-switch-2w", steps: []step{W(10), W(11)}}, 2, 3, 1),
			mk(scen{name: "2w-wait-acks-then-close", steps: []step{W(10), W(11), {kind: "wait"}}}, 2, 3, 2),
			mk(scen{name: "w-switch-w-wait-acks", steps: []step{W(10), S1, W(11), {kind: "wait"}}}, 0, 1, 2),
			// each record is handed to exactly one physical writer: the first only to the primary's,
			// the second only to the secondary's (the user waits for each writer to be installed)
			mk(scen{name: "created-w-switch-created-w", steps: []step{C, W(10), S1, C, W(11)}}, 0, 1, 3),
			mk(scen{name: "created-w-switch-created-w-errors", steps: []step{C, W(10), S1, C, W(11)}, errs: true}, 0, 1, 2),
			mk(scen{name: "created-w-switch-created-w-switchback-w", steps: []step{C, W(10), S1, C, W(11), S0, C, W(12)}}, -1, 0, 2),
		}
		d1x.Run(t, c, sc)
	})
}
