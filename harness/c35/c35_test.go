// C35: the shipped comparers (base.DefaultComparer, testkeys.Comparer, cockroachkvs.Comparer) satisfy
// the documented base.Comparer contract on finite, colliding key sets: every key, every ordered pair,
// every ordered triple; and the cockroachkvs columnar key schema (key writer + key seeker) seeks and
// materialises consistently with cockroachkvs.Comparer for every sorted subset of a block universe.
//
// The oracle is the doc comments of internal/base/comparer.go (Compare, Equal, AbbreviatedKey,
// Separator, Successor, ImmediateSuccessor, Split properties 1-3, ComparePointSuffixes,
// CompareRangeSuffixes) and of colblk.KeySeeker (SeekGE, IsLowerBound, MaterializeUserKey).
package c35

import (
	"bytes"
	"encoding/hex"
	"fmt"
	"runtime/debug"
	"slices"
	"strings"
	"sync"
	"testing"

	"github.com/cockroachdb/crlib/crbytes"
	"github.com/cockroachdb/pebble/cockroachkvs"
	"github.com/cockroachdb/pebble/internal/base"
	"github.com/cockroachdb/pebble/internal/testkeys"
	"github.com/cockroachdb/pebble/internal/verif/vlib"
	"github.com/cockroachdb/pebble/sstable/block"
	"github.com/cockroachdb/pebble/sstable/blockiter"
	"github.com/cockroachdb/pebble/sstable/colblk"
)

// Case is the replay artefact: one family, one kind of check, the keys (hex) it is run on.
type Case struct {
	Family string   `json:"family"`
	Kind   string   `json:"kind"` // unary | pair | triple | sufpair | suftriple | block | checkcomparer
	Keys   []string `json:"keys"` // hex
	Shown  []string `json:"shown,omitempty"`
}

type fail struct{ class, desc string }

// family is one comparer together with its finite universe of valid keys.
type family struct {
	name     string
	cmp      *base.Comparer
	keys     [][]byte // valid full keys, simplest first
	suffixes [][]byte // valid suffixes, the empty one first
	// Arguments for base.CheckComparer. ccPrefixes is closed under removal of leading bytes so that
	// the random tail CheckComparer appends is always already present (its verdict is deterministic).
	ccPrefixes, ccSuffixes [][]byte
	// separatorNeedsPrefix excludes Separator calls where a key has an empty prefix (testkeys: such
	// keys are not produced by the package's generators and Separator("@1","a@1") panics "empty keys"
	// because the prefix is delegated to DefaultComparer.Separator; see the rule text).
	separatorNeedsPrefix bool
	// cockroachkvs only: the seek probes of the block phase.
	probes [][]byte
}

func hx(k []byte) string { return hex.EncodeToString(k) }

func hxs(ks ...[]byte) []string {
	out := make([]string, len(ks))
	for i, k := range ks {
		out[i] = hx(k)
	}
	return out
}

// ---------------------------------------------------------------- key universes

func defaultFamily() *family {
	f := &family{name: "default", cmp: base.DefaultComparer}
	alpha := []byte{0x00, 'a', 0xFF}
	f.keys = append(f.keys, []byte{})
	var rec func(prefix []byte, d int)
	for l := 1; l <= 3; l++ {
		rec = func(prefix []byte, d int) {
			if d == l {
				f.keys = append(f.keys, slices.Clone(prefix))
				return
			}
			for _, b := range alpha {
				rec(append(prefix, b), d+1)
			}
		}
		rec(nil, 0)
	}
	// A few longer keys around the 8-byte AbbreviatedKey boundary and the 0xFF carry of Separator.
	for _, s := range []string{
		"aaaaaaa", "aaaaaaaa", "aaaaaaaaa", "aaaaaaaab", "aaaaaaaa\x00", "aaaaaaa\xff", "aaaaaaa\xff\xff",
		"\xff\xff\xff\xff\xff\xff\xff\xff", "\xff\xff\xff\xff\xff\xff\xff\xff\xff", "a\xff\xff\xffb", "b\x00\x00\x00\x00\x00\x00\x00\x00",
		"black", "blue",
	} {
		f.keys = append(f.keys, []byte(s))
	}
	f.suffixes = [][]byte{{}}
	f.ccPrefixes = tailClosure([][]byte{{}, []byte("a"), []byte("a\x00"), []byte("a\xff"), []byte("aa"), []byte("\xff"), []byte("\x00"), []byte("aaaaaaaab")})
	f.ccSuffixes = [][]byte{{}}
	return f
}

func testkeysFamily() *family {
	f := &family{name: "testkeys", cmp: testkeys.Comparer, separatorNeedsPrefix: true}
	prefixes := []string{"", "a", "ab", "b", "a\x00", "aaaaaaaa", "aaaaaaaab", "z"}
	f.suffixes = [][]byte{{}}
	for _, t := range []int64{1, 2, 10, 100, 0, 9223372036854775807} {
		f.suffixes = append(f.suffixes, testkeys.Suffix(t))
	}
	// The "_synthetic" tail is the package's model of the CockroachDB synthetic bit: ignored by
	// Compare/ComparePointSuffixes, a tie-breaker for CompareRangeSuffixes.
	f.suffixes = append(f.suffixes, []byte("@1_synthetic"), []byte("@2_synthetic"), []byte("@100_synthetic"))
	for _, p := range prefixes {
		for _, s := range f.suffixes {
			f.keys = append(f.keys, slices.Concat([]byte(p), s))
		}
	}
	f.ccPrefixes = tailClosure([][]byte{[]byte("a"), []byte("ab"), []byte("b"), []byte("abc"), []byte("aaaaaaaab")})
	f.ccSuffixes = slices.Clone(f.suffixes[1:])
	return f
}

type crdbVersion struct {
	name    string
	wall    uint64
	logical uint32
	raw     []byte // if non-nil: version bytes passed to cockroachkvs.EncodeKey
}

func mvccRaw(wall uint64, logical uint32, synthetic bool) []byte {
	// The legacy forms (explicit zero logical, synthetic bit) are not produced by EncodeMVCCKey any
	// more; they are built from the canonical encoding through cockroachkvs.EncodeKey, like the
	// package's own tests do.
	k := cockroachkvs.EncodeMVCCKey(nil, nil, wall, 1)
	v := slices.Clone(k[1 : len(k)-1]) // 12 bytes: wall + logical(=1)
	v[8], v[9], v[10], v[11] = byte(logical>>24), byte(logical>>16), byte(logical>>8), byte(logical)
	if synthetic {
		v = append(v, 1)
	}
	return v
}

func lockRaw(strength byte, fill byte, last byte) []byte {
	v := bytes.Repeat([]byte{fill}, 17)
	v[0] = strength
	v[16] = last
	return v
}

var crdbVersions = []crdbVersion{
	{name: "none"},
	{name: "w1", wall: 1},
	{name: "w2", wall: 2},
	{name: "w256", wall: 256},
	{name: "w1,l1", wall: 1, logical: 1},
	{name: "w1,l2", wall: 1, logical: 2},
	{name: "w2,l1", wall: 2, logical: 1},
	{name: "w1,l0-explicit", raw: mvccRaw(1, 0, false)},
	{name: "w1,l0,synthetic", raw: mvccRaw(1, 0, true)},
	{name: "w1,l1,synthetic", raw: mvccRaw(1, 1, true)},
	{name: "w2,l0,synthetic", raw: mvccRaw(2, 0, true)},
	{name: "w0,l1", wall: 0, logical: 1},
	{name: "lock-01", raw: lockRaw(0x01, 0x00, 0x01)},
	{name: "lock-03ff", raw: lockRaw(0x03, 0xff, 0xff)},
	{name: "lock-zero", raw: bytes.Repeat([]byte{0}, 17)},
}

var crdbRoachKeys = []string{"", "a", "a\x00", "ab", "b", "a\xff", "\x00", "\xff", "aaaaaaaa", "aaaaaaaab"}

// Roach keys 1..crdbBlockRoachKeys form the block universe. The empty roach key is not a legal block
// row: colblk.PrefixBytesBuilder.Put requires a non-empty key (asserted in invariants builds; without
// them DataBlockEncoder.Finish panics "unreachable" when every row of the block has an empty prefix).
const crdbBlockRoachKeys = 5

// blockUniverse returns the keys of roach keys 1..n x all versions, sorted by Compare (ties keep the
// generation order).
func (f *family) blockUniverse(n int) [][]byte {
	var out [][]byte
	for _, rk := range crdbRoachKeys[1 : n+1] {
		for _, v := range crdbVersions {
			out = append(out, crdbKey([]byte(rk), v))
		}
	}
	slices.SortStableFunc(out, f.cmp.Compare)
	return out
}

func crdbKey(roachKey []byte, v crdbVersion) []byte {
	if v.raw != nil {
		return cockroachkvs.EncodeKey(nil, roachKey, v.raw)
	}
	return cockroachkvs.EncodeMVCCKey(nil, roachKey, v.wall, v.logical)
}

func cockroachFamily() *family {
	c := cockroachkvs.Comparer
	f := &family{name: "cockroachkvs", cmp: &c}
	// The empty key is accepted by Compare/Equal/Split/Successor/ValidateKey (index separators of
	// empty tables); it takes part in the order checks but not in Separator (contract: len>0) nor as
	// a block row or probe. Keys with the empty roach key are probes but not block rows.
	f.keys = append(f.keys, []byte{})
	for _, v := range crdbVersions {
		k := crdbKey([]byte("x"), v)
		f.suffixes = append(f.suffixes, slices.Clone(k[2:]))
	}
	for _, rk := range crdbRoachKeys {
		for _, v := range crdbVersions {
			k := crdbKey([]byte(rk), v)
			f.keys = append(f.keys, k)
			f.probes = append(f.probes, k)
		}
	}
	var pfx [][]byte
	for _, rk := range crdbRoachKeys {
		pfx = append(pfx, append([]byte(rk), 0))
	}
	f.ccPrefixes = tailClosure(pfx)
	f.ccSuffixes = slices.Clone(f.suffixes[1:])
	return f
}

// tailClosure adds every non-empty proper tail p[i:] (i>=1) of every prefix.
func tailClosure(ps [][]byte) [][]byte {
	seen := map[string]bool{}
	var out [][]byte
	add := func(p []byte) {
		if !seen[string(p)] {
			seen[string(p)] = true
			out = append(out, p)
		}
	}
	for _, p := range ps {
		add(p)
	}
	for _, p := range ps {
		for i := 1; i < len(p); i++ {
			add(p[i:])
		}
	}
	return out
}

// ---------------------------------------------------------------- checks

// probe carries the name of the comparer method being called (for panic classification) and the
// number of calls made.
type probe struct {
	stage string
	calls int
}

func sign3(v int) bool { return v == -1 || v == 0 || v == 1 }

func (f *family) valid(k []byte) error {
	return f.cmp.ValidateKey.Validate(k)
}

// guard runs fn and converts a panic into a failure of class panic-<stage>.
func guard(p *probe, fn func() []fail) (fs []fail) {
	defer func() {
		if r := recover(); r != nil {
			fs = append(fs, fail{"panic-" + p.stage, fmt.Sprintf("panic in %s: %v\n%s", p.stage, r, panicFrames())})
		}
	}()
	return fn()
}

// panicFrames returns the Pebble frames of the stack of a recovered panic.
func panicFrames() string {
	var out []string
	for _, l := range strings.Split(string(debug.Stack()), "\n") {
		if strings.Contains(l, "/repo/") || strings.Contains(l, "pebble/") && !strings.Contains(l, "verif") {
			out = append(out, strings.TrimSpace(l))
		}
		if len(out) >= 12 {
			break
		}
	}
	return strings.Join(out, " | ")
}

func (f *family) splitOK(k []byte, p *probe) (int, bool) {
	p.stage = "Split"
	p.calls++
	n := f.cmp.Split(k)
	return n, n >= 0 && n <= len(k)
}

var dstSeed = []byte("XY")

func (f *family) unary(k []byte, p *probe) (fs []fail) {
	C := f.cmp
	add := func(class, format string, args ...any) {
		fs = append(fs, fail{class, fmt.Sprintf(format, args...)})
	}
	p.stage = "ValidateKey"
	p.calls++
	if err := f.valid(k); err != nil {
		add("generated-key-invalid", "ValidateKey(%q) = %v for a key of the generator", k, err)
	}
	p.stage = "Compare"
	p.calls += 2
	if v := C.Compare(k, k); v != 0 {
		add("compare-not-reflexive", "Compare(%q,%q)=%d", k, k, v)
	}
	p.stage = "Equal"
	if !C.Equal(k, k) {
		add("equal-vs-compare", "Equal(%q,%q)=false", k, k)
	}
	n, ok := f.splitOK(k, p)
	if !ok {
		add("split-range", "Split(%q)=%d outside [0,%d]", k, n, len(k))
		return fs
	}
	prefix, suffix := k[:n:n], k[n:]
	if m, ok := f.splitOK(prefix, p); !ok || m != len(prefix) {
		add("split-not-idempotent", "Split(%q)=%d but Split of its prefix %q = %d, want %d", k, n, prefix, m, len(prefix))
	}
	if len(suffix) > 0 {
		// Split property 1.
		p.stage = "Compare"
		p.calls++
		if v := C.Compare(prefix, k); v >= 0 {
			add("split-prefix-not-first", "Compare(prefix %q, key %q)=%d, want <0", prefix, k, v)
		}
	}
	// AbbreviatedKey: deterministic, and does not depend on the suffix ordering in the wrong way is
	// checked pairwise; here only that it does not panic.
	p.stage = "AbbreviatedKey"
	p.calls++
	_ = C.AbbreviatedKey(k)

	// Successor: Compare(k, s) <= 0, s valid; k may be the empty slice.
	p.stage = "Successor"
	p.calls += 2
	s := C.Successor(nil, k)
	s2 := C.Successor(slices.Clone(dstSeed), k)
	if !bytes.Equal(s2, slices.Concat(dstSeed, s)) {
		add("dst-append", "Successor(%q, %q)=%q but Successor(nil, ..)=%q", dstSeed, k, s2, s)
	}
	p.stage = "ValidateKey(Successor)"
	if err := f.valid(s); err != nil {
		add("successor-invalid-key", "Successor(%q)=%q is not a valid key: %v", k, s, err)
	}
	p.stage = "Compare(k,Successor)"
	p.calls++
	if v := C.Compare(k, s); v > 0 {
		add("successor-lt-a", "Successor(%q)=%q but Compare(a, successor)=%d, want <=0", k, s, v)
	}

	if n == len(k) && C.ImmediateSuccessor != nil {
		p.stage = "ImmediateSuccessor"
		p.calls += 2
		is := C.ImmediateSuccessor(nil, k)
		is2 := C.ImmediateSuccessor(slices.Clone(dstSeed), k)
		if !bytes.Equal(is2, slices.Concat(dstSeed, is)) {
			add("dst-append", "ImmediateSuccessor(%q, %q)=%q but ImmediateSuccessor(nil, ..)=%q", dstSeed, k, is2, is)
		}
		p.stage = "ValidateKey(ImmediateSuccessor)"
		if err := f.valid(is); err != nil {
			add("immsucc-invalid-key", "ImmediateSuccessor(%q)=%q is not a valid key: %v", k, is, err)
		}
		if m, ok := f.splitOK(is, p); !ok || m != len(is) {
			add("immsucc-not-prefix", "ImmediateSuccessor(%q)=%q has Split=%d, want %d", k, is, m, len(is))
		}
		p.stage = "Compare(k,ImmediateSuccessor)"
		p.calls++
		if v := C.Compare(k, is); v >= 0 {
			add("immsucc-not-greater", "ImmediateSuccessor(%q)=%q but Compare(a, k)=%d, want <0", k, is, v)
		}
	}

	// FormatKey must not panic. fmt recovers panics of Format methods and prints them in-line, so
	// the output is inspected as well.
	p.stage = "FormatKey"
	p.calls++
	for _, verb := range []string{"%s", "%v"} {
		out := fmt.Sprintf(verb, C.FormatKey(k))
		if strings.Contains(out, "PANIC=") || strings.Contains(out, "%!") {
			add("formatkey-panic", "FormatKey(%q) formatted with %s gives %q", k, verb, out)
		}
	}
	return fs
}

func (f *family) pair(a, b []byte, p *probe) (fs []fail) {
	C := f.cmp
	add := func(class, format string, args ...any) {
		fs = append(fs, fail{class, fmt.Sprintf(format, args...)})
	}
	p.stage = "Compare"
	p.calls += 2
	ab, ba := C.Compare(a, b), C.Compare(b, a)
	if !sign3(ab) {
		add("compare-not-normalized", "Compare(%q,%q)=%d, want -1, 0 or +1", a, b, ab)
	}
	if (ab < 0) != (ba > 0) || (ab == 0) != (ba == 0) {
		add("compare-not-antisymmetric", "Compare(%q,%q)=%d but Compare(b,a)=%d", a, b, ab, ba)
	}
	p.stage = "Equal"
	p.calls++
	if eq := C.Equal(a, b); eq != (ab == 0) {
		add("equal-vs-compare", "Equal(%q,%q)=%t but Compare=%d", a, b, eq, ab)
	}
	sa, oka := f.splitOK(a, p)
	sb, okb := f.splitOK(b, p)
	if oka && okb {
		pa, pb := a[:sa:sa], b[:sb:sb]
		pc := bytes.Compare(pa, pb)
		want := pc
		if pc == 0 {
			p.stage = "ComparePointSuffixes"
			p.calls++
			want = C.ComparePointSuffixes(a[sa:], b[sb:])
		}
		if ab != want {
			add("compare-vs-split-formula", "Compare(%q,%q)=%d but bytes.Compare(prefixes %q,%q)=%d and the documented formula gives %d", a, b, ab, pa, pb, pc, want)
		}
		// Split property 2, stated through Compare on the prefix keys.
		p.stage = "Compare(prefixes)"
		p.calls++
		pp := C.Compare(pa, pb)
		if ab <= 0 && pp > 0 {
			add("split-prefix-order", "Compare(%q,%q)=%d <= 0 but Compare(prefix(a),prefix(b))=%d > 0", a, b, ab, pp)
		}
		if pp < 0 && ab >= 0 {
			add("split-prefix-order", "Compare(prefix(a),prefix(b))=%d < 0 but Compare(%q,%q)=%d", pp, a, b, ab)
		}
		// ImmediateSuccessor minimality against every generated prefix key.
		if sa == len(a) && sb == len(b) && ab < 0 && C.ImmediateSuccessor != nil {
			p.stage = "ImmediateSuccessor"
			p.calls++
			is := C.ImmediateSuccessor(nil, a)
			p.stage = "Compare(k2,ImmediateSuccessor)"
			p.calls++
			if v := C.Compare(b, is); v < 0 {
				add("immsucc-not-minimal", "ImmediateSuccessor(%q)=%q but the prefix key %q lies strictly between", a, is, b)
			}
		}
	}
	p.stage = "AbbreviatedKey"
	p.calls += 2
	xa, xb := C.AbbreviatedKey(a), C.AbbreviatedKey(b)
	if (xa < xb && ab >= 0) || (xa > xb && ab <= 0) {
		add("abbrev-not-monotone", "AbbreviatedKey(%q)=%#x, AbbreviatedKey(%q)=%#x but Compare(a,b)=%d", a, xa, b, xb, ab)
	}
	if ab < 0 && len(a) > 0 && len(b) > 0 && !(f.separatorNeedsPrefix && (sa == 0 || sb == 0)) {
		p.stage = "Separator"
		p.calls += 2
		s := C.Separator(nil, a, b)
		s2 := C.Separator(slices.Clone(dstSeed), a, b)
		if !bytes.Equal(s2, slices.Concat(dstSeed, s)) {
			add("dst-append", "Separator(%q, %q, %q)=%q but Separator(nil, ..)=%q", dstSeed, a, b, s2, s)
		}
		p.stage = "ValidateKey(Separator)"
		if err := f.valid(s); err != nil {
			add("separator-invalid-key", "Separator(%q,%q)=%q is not a valid key: %v", a, b, s, err)
		}
		p.stage = "Compare(a,Separator)"
		p.calls++
		if v := C.Compare(a, s); v > 0 {
			add("separator-lt-a", "Separator(%q,%q)=%q but Compare(a, sep)=%d, want <=0", a, b, s, v)
		}
		p.stage = "Compare(Separator,b)"
		p.calls++
		if v := C.Compare(s, b); v >= 0 {
			add("separator-ge-b", "Separator(%q,%q)=%q but Compare(sep, b)=%d, want <0", a, b, s, v)
		}
	}
	return fs
}

func (f *family) triple(a, b, c []byte, p *probe) (fs []fail) {
	C := f.cmp
	p.stage = "Compare"
	p.calls += 3
	ab, bc, ac := C.Compare(a, b), C.Compare(b, c), C.Compare(a, c)
	if ab <= 0 && bc <= 0 {
		strict := ab < 0 || bc < 0
		if (strict && ac >= 0) || (!strict && ac != 0) {
			fs = append(fs, fail{"compare-not-transitive", fmt.Sprintf("Compare(%q,%q)=%d, Compare(%q,%q)=%d but Compare(%q,%q)=%d", a, b, ab, b, c, bc, a, c, ac)})
		}
	}
	return fs
}

func (f *family) sufPair(a, b []byte, p *probe) (fs []fail) {
	C := f.cmp
	add := func(class, format string, args ...any) {
		fs = append(fs, fail{class, fmt.Sprintf(format, args...)})
	}
	p.stage = "ComparePointSuffixes"
	p.calls += 2
	pab, pba := C.ComparePointSuffixes(a, b), C.ComparePointSuffixes(b, a)
	p.stage = "CompareRangeSuffixes"
	p.calls += 2
	rab, rba := C.CompareRangeSuffixes(a, b), C.CompareRangeSuffixes(b, a)
	if !sign3(pab) || pab != -pba {
		add("pointsuffix-not-antisymmetric", "ComparePointSuffixes(%x,%x)=%d, reversed %d", a, b, pab, pba)
	}
	if !sign3(rab) || rab != -rba {
		add("rangesuffix-not-antisymmetric", "CompareRangeSuffixes(%x,%x)=%d, reversed %d", a, b, rab, rba)
	}
	if bytes.Equal(a, b) && (pab != 0 || rab != 0) {
		add("suffix-not-reflexive", "suffix %x: ComparePointSuffixes=%d CompareRangeSuffixes=%d against itself", a, pab, rab)
	}
	if len(a) == 0 && len(b) > 0 {
		if pab >= 0 {
			add("pointsuffix-empty-not-first", "ComparePointSuffixes(empty,%x)=%d, want <0", b, pab)
		}
		if rab >= 0 {
			add("rangesuffix-empty-not-first", "CompareRangeSuffixes(empty,%x)=%d, want <0", b, rab)
		}
	}
	// CompareRangeSuffixes may only be stricter: it may order suffixes that ComparePointSuffixes
	// calls equal, never reverse or merge an order ComparePointSuffixes defines.
	if pab != 0 && rab != pab {
		add("rangesuffix-not-a-refinement", "ComparePointSuffixes(%x,%x)=%d but CompareRangeSuffixes=%d", a, b, pab, rab)
	}
	return fs
}

func (f *family) sufTriple(a, b, c []byte, p *probe) (fs []fail) {
	for _, x := range []struct {
		name string
		fn   func(a, b []byte) int
	}{{"ComparePointSuffixes", f.cmp.ComparePointSuffixes}, {"CompareRangeSuffixes", f.cmp.CompareRangeSuffixes}} {
		p.stage = x.name
		p.calls += 3
		ab, bc, ac := x.fn(a, b), x.fn(b, c), x.fn(a, c)
		if ab <= 0 && bc <= 0 {
			strict := ab < 0 || bc < 0
			if (strict && ac >= 0) || (!strict && ac != 0) {
				fs = append(fs, fail{"suffix-not-transitive", fmt.Sprintf("%s(%x,%x)=%d, (%x,%x)=%d but (%x,%x)=%d", x.name, a, b, ab, b, c, bc, a, c, ac)})
			}
		}
	}
	return fs
}

// ---------------------------------------------------------------- columnar block

type blockWorker struct {
	enc      colblk.DataBlockEncoder
	dec      colblk.DataBlockDecoder
	it       colblk.DataBlockIter
	inited   bool
	evals    int64
	trans    int64
	outcomes map[string]int64
}

func (w *blockWorker) init() {
	if w.inited {
		return
	}
	w.enc.Init(&cockroachkvs.KeySchema, colblk.NoTieringColumns())
	w.it.InitOnce(&cockroachkvs.KeySchema, &cockroachkvs.Comparer, nil, colblk.NoTieringColumns())
	w.outcomes = map[string]int64{}
	w.inited = true
}

// block builds a columnar data block with the cockroachkvs key schema from rows (sorted, row i gets
// sequence number len(rows)-i so that Equal user keys are in valid internal-key order) and compares
// the key writer, the key seeker and the data block iterator with cockroachkvs.Comparer.
func (w *blockWorker) block(f *family, rows [][]byte, p *probe, verbose bool) (fs []fail, blk []byte) {
	C := f.cmp
	w.init()
	add := func(class, format string, args ...any) {
		fs = append(fs, fail{class, fmt.Sprintf(format, args...)})
	}
	n := len(rows)
	w.enc.Reset()
	maxLen := 0
	var mbuf []byte
	for i, k := range rows {
		p.stage = "KeyWriter.ComparePrev"
		p.calls++
		kcmp := w.enc.KeyWriter.ComparePrev(k)
		wantCmp := 1
		if i > 0 {
			wantCmp = C.Compare(k, rows[i-1])
		}
		if int(kcmp.UserKeyComparison) != wantCmp || int(kcmp.PrefixLen) != C.Split(k) {
			add("keywriter-compareprev", "row %d key %x: ComparePrev gives UserKeyComparison=%d PrefixLen=%d, comparer gives %d and Split=%d",
				i, k, kcmp.UserKeyComparison, kcmp.PrefixLen, wantCmp, C.Split(k))
		}
		if i > 0 {
			samePrefix := bytes.Equal(k[:C.Split(k)], rows[i-1][:C.Split(rows[i-1])])
			if kcmp.PrefixEqual() != samePrefix {
				add("keywriter-compareprev", "row %d key %x: ComparePrev PrefixEqual=%t, want %t", i, k, kcmp.PrefixEqual(), samePrefix)
			}
		}
		p.stage = "DataBlockEncoder.Add"
		p.calls++
		ik := base.MakeInternalKey(k, base.SeqNum(n-i), base.InternalKeyKindSet)
		w.enc.Add(ik, k, block.InPlaceValuePrefix(false), kcmp, false, base.KVMeta{})
		p.stage = "KeyWriter.MaterializeKey"
		p.calls++
		mbuf = w.enc.MaterializeLastUserKey(mbuf[:0])
		if !C.Equal(k, mbuf) {
			add("keywriter-materialize", "row %d: key writer materialises %x for %x (not Equal)", i, mbuf, k)
		}
		maxLen = max(maxLen, len(k))
	}
	p.stage = "DataBlockEncoder.Finish"
	p.calls++
	raw, last := w.enc.Finish(n, w.enc.Size())
	if !C.Equal(last.UserKey, rows[n-1]) {
		add("keywriter-materialize", "Finish returns last key %x, want Equal to %x", last.UserKey, rows[n-1])
	}
	blk = crbytes.CopyAligned(raw)
	p.stage = "DataBlockDecoder.Init"
	p.calls++
	bd := w.dec.Init(&cockroachkvs.KeySchema, blk)
	if bd.Rows() != n {
		add("block-rows", "decoded block has %d rows, want %d", bd.Rows(), n)
		return fs, blk
	}
	meta := &colblk.KeySeekerMetadata{}
	p.stage = "InitKeySeekerMetadata"
	cockroachkvs.KeySchema.InitKeySeekerMetadata(meta, &w.dec, bd)
	ks := cockroachkvs.KeySchema.KeySeeker(meta)

	// Materialisation: sequential (prevRow=row-1) and random access (prevRow=-1, descending).
	p.stage = "KeySeeker.MaterializeUserKey"
	var seqIt, rndIt colblk.PrefixBytesIter
	seqIt.Init(maxLen, blockiter.SyntheticPrefix(nil))
	rndIt.Init(maxLen, blockiter.SyntheticPrefix(nil))
	for i := 0; i < n; i++ {
		p.calls++
		got := ks.MaterializeUserKey(&seqIt, i-1, i)
		if !C.Equal(got, rows[i]) || len(got) > len(rows[i]) {
			add("materialize-not-equal", "MaterializeUserKey(prev=%d,row=%d)=%x, want Equal to (and not longer than) %x", i-1, i, got, rows[i])
		}
		if verbose {
			fmt.Printf("  row %d: %x  materialised %x\n", i, rows[i], got)
		}
	}
	for i := n - 1; i >= 0; i-- {
		p.calls++
		got := ks.MaterializeUserKey(&rndIt, -1, i)
		if !C.Equal(got, rows[i]) || len(got) > len(rows[i]) {
			add("materialize-not-equal", "MaterializeUserKey(prev=-1,row=%d)=%x, want Equal to (and not longer than) %x", i, got, rows[i])
		}
	}

	// The real iterator over the same block.
	p.stage = "DataBlockIter.Init"
	if err := w.it.Init(&w.dec, bd, blockiter.NoTransforms, colblk.NoTieringColumns()); err != nil {
		add("iter-init", "DataBlockIter.Init: %v", err)
		return fs, blk
	}
	defer w.it.Close()
	p.stage = "DataBlockIter.First/Next"
	i := 0
	for kv := w.it.First(); kv != nil; kv = w.it.Next() {
		p.calls++
		if i >= n || !C.Equal(kv.K.UserKey, rows[i]) || int(kv.K.SeqNum()) != n-i {
			add("iter-scan", "scan position %d yields %x#%d, want %x#%d", i, kv.K.UserKey, kv.K.SeqNum(), rows[min(i, n-1)], n-i)
			break
		}
		i++
	}
	if i != n && len(fs) == 0 {
		add("iter-scan", "scan yields %d keys, want %d", i, n)
	}

	for _, q := range f.probes {
		// Oracle: first row whose key is >= q according to the comparer.
		want := n
		for j := 0; j < n; j++ {
			if C.Compare(rows[j], q) >= 0 {
				want = j
				break
			}
		}
		p.stage = "KeySeeker.SeekGE"
		p.calls++
		row, eqPrefix := ks.SeekGE(q, -1, 0)
		if verbose {
			fmt.Printf("  SeekGE(%x) = (%d,%t) want row %d\n", q, row, eqPrefix, want)
		}
		if row != want {
			add("seekge-row", "rows %v: SeekGE(%x) = row %d, the comparer says %d", hxs(rows...), q, row, want)
		} else if row < n {
			wantEq := bytes.Equal(rows[row][:C.Split(rows[row])], q[:C.Split(q)])
			if eqPrefix != wantEq {
				add("seekge-equalprefix", "rows %v: SeekGE(%x) = (row %d, equalPrefix %t), want equalPrefix %t", hxs(rows...), q, row, eqPrefix, wantEq)
			}
			if wantEq {
				w.outcomes["block/seek-hit-same-prefix"]++
			} else {
				w.outcomes["block/seek-hit-other-prefix"]++
			}
		} else {
			w.outcomes["block/seek-past-end"]++
		}
		p.stage = "KeySeeker.IsLowerBound"
		p.calls++
		lb := ks.IsLowerBound(q, nil)
		wantLB := C.Compare(rows[0], q) >= 0
		if lb && !wantLB {
			add("islowerbound-false-positive", "rows %v: IsLowerBound(%x)=true but row 0 sorts before it", hxs(rows...), q)
		} else if !lb && wantLB {
			add("islowerbound-false-negative", "rows %v: IsLowerBound(%x)=false but every row is >= it", hxs(rows...), q)
		}
		p.stage = "DataBlockIter.SeekGE"
		p.calls++
		kv := w.it.SeekGE(q, base.SeekGEFlagsNone)
		switch {
		case kv == nil && want != n:
			add("iter-seekge", "rows %v: iterator SeekGE(%x) = nil, want row %d", hxs(rows...), q, want)
		case kv != nil && (want == n || int(kv.K.SeqNum()) != n-want || !C.Equal(kv.K.UserKey, rows[want])):
			add("iter-seekge", "rows %v: iterator SeekGE(%x) = %x#%d, want row %d", hxs(rows...), q, kv.K.UserKey, kv.K.SeqNum(), want)
		}
	}
	return fs, blk
}

// ---------------------------------------------------------------- enumeration helpers

func binom(n, k int) int {
	if k < 0 || k > n {
		return 0
	}
	r := 1
	for i := 1; i <= k; i++ {
		r = r * (n - k + i) / i
	}
	return r
}

// unrank writes the r-th (lexicographic) k-subset of {0..n-1} into out.
func unrank(r, n, k int, out []int) {
	x := 0
	for i := 0; i < k; i++ {
		for {
			c := binom(n-x-1, k-i-1)
			if r < c {
				out[i] = x
				x++
				break
			}
			r -= c
			x++
		}
	}
}

func decodeKeys(hexes []string) ([][]byte, error) {
	out := make([][]byte, len(hexes))
	for i, h := range hexes {
		b, err := hex.DecodeString(h)
		if err != nil {
			return nil, err
		}
		out[i] = b
	}
	return out, nil
}

func (f *family) shown(ks ...[]byte) []string {
	out := make([]string, len(ks))
	for i, k := range ks {
		out[i] = func() (s string) {
			defer func() {
				if recover() != nil {
					s = fmt.Sprintf("%q", k)
				}
			}()
			return fmt.Sprint(f.cmp.FormatKey(k))
		}()
	}
	return out
}

func runCheckComparer(f *family) (fs []fail) {
	p := &probe{stage: "CheckComparer"}
	return guard(p, func() []fail {
		if err := base.CheckComparer(f.cmp, slices.Clone(f.ccPrefixes), slices.Clone(f.ccSuffixes)); err != nil {
			return []fail{{"checkcomparer", "base.CheckComparer: " + err.Error()}}
		}
		return nil
	})
}

// runCase executes one replay artefact and returns its failures.
func runCase(fams map[string]*family, cs Case, verbose bool) ([]fail, error) {
	f := fams[cs.Family]
	if f == nil {
		return nil, fmt.Errorf("unknown family %q", cs.Family)
	}
	ks, err := decodeKeys(cs.Keys)
	if err != nil {
		return nil, err
	}
	need := map[string]int{"unary": 1, "pair": 2, "triple": 3, "sufpair": 2, "suftriple": 3}
	if n, ok := need[cs.Kind]; ok && len(ks) != n {
		return nil, fmt.Errorf("kind %s needs %d keys", cs.Kind, n)
	}
	p := &probe{}
	switch cs.Kind {
	case "unary":
		return guard(p, func() []fail { return f.unary(ks[0], p) }), nil
	case "pair":
		return guard(p, func() []fail { return f.pair(ks[0], ks[1], p) }), nil
	case "triple":
		return guard(p, func() []fail { return f.triple(ks[0], ks[1], ks[2], p) }), nil
	case "sufpair":
		return guard(p, func() []fail { return f.sufPair(ks[0], ks[1], p) }), nil
	case "suftriple":
		return guard(p, func() []fail { return f.sufTriple(ks[0], ks[1], ks[2], p) }), nil
	case "block":
		if len(ks) == 0 {
			return nil, fmt.Errorf("block needs rows")
		}
		w := &blockWorker{}
		return guard(p, func() []fail { fs, _ := w.block(f, ks, p, verbose); return fs }), nil
	case "checkcomparer":
		return runCheckComparer(f), nil
	}
	return nil, fmt.Errorf("unknown kind %q", cs.Kind)
}

// ---------------------------------------------------------------- main

func TestCheck(t *testing.T) {
	vlib.Main(t, "C35", func(c *vlib.Ctx) {
		fams := map[string]*family{}
		order := []*family{defaultFamily(), testkeysFamily(), cockroachFamily()}
		for _, f := range order {
			fams[f.name] = f
		}
		if c.ReplayPath() != "" {
			var cs Case
			if err := c.LoadReplay(&cs); err != nil {
				t.Fatal(err)
			}
			fs, err := runCase(fams, cs, true)
			if err != nil {
				t.Fatal(err)
			}
			fmt.Printf("replay %s/%s keys=%v shown=%v: %d failure(s)\n", cs.Family, cs.Kind, cs.Keys, cs.Shown, len(fs))
			for _, x := range fs {
				fmt.Printf("  %s: %s\n", x.class, x.desc)
				c.Violation(x.class, cs.Family+": "+x.desc, cs)
			}
			c.Eval(1)
			return
		}

		report := func(f *family, kind string, fs []fail, ks ...[]byte) {
			if len(fs) == 0 {
				return
			}
			cs := Case{Family: f.name, Kind: kind, Keys: hxs(ks...), Shown: f.shown(ks...)}
			for _, x := range fs {
				c.Violation(x.class, f.name+": "+x.desc, cs)
			}
		}
		var mu sync.Mutex
		outcomes := map[string]int64{}
		flush := func(local map[string]int64) {
			mu.Lock()
			for k, v := range local {
				outcomes[k] += v
			}
			mu.Unlock()
		}
		scope := map[string]any{}
		complete := true

		for _, f := range order {
			if !complete {
				break
			}
			f := f
			nk, ns := len(f.keys), len(f.suffixes)
			C := f.cmp

			// CheckComparer (Pebble's own mini suite) on the family's prefix/suffix lists.
			fs := runCheckComparer(f)
			c.Eval(1)
			c.Trans(1)
			report(f, "checkcomparer", fs)
			if len(fs) == 0 {
				c.Outcome(f.name + "/checkcomparer-ok")
			}

			// Unary checks and, with the same outer index, all ordered pairs and triples.
			done, ok := c.Each(nk, func(i int) {
				a := f.keys[i]
				p := &probe{}
				local := map[string]int64{}
				var evals int64
				fs := guard(p, func() []fail { return f.unary(a, p) })
				report(f, "unary", fs, a)
				evals++
				if sa := C.Split(a); sa == len(a) {
					local[f.name+"/unary-prefix-key"]++
				} else {
					local[f.name+"/unary-suffixed-key"]++
				}
				for j := 0; j < nk; j++ {
					b := f.keys[j]
					fs := guard(p, func() []fail { return f.pair(a, b, p) })
					report(f, "pair", fs, a, b)
					evals++
					ab := C.Compare(a, b)
					sa, sb := C.Split(a), C.Split(b)
					pa, pb := a[:sa], b[:sb]
					switch {
					case bytes.Equal(a, b):
						local[f.name+"/pair-identical"]++
					case ab == 0:
						local[f.name+"/pair-equal-different-bytes"]++
					case bytes.Equal(pa, pb):
						local[f.name+"/pair-same-prefix-suffix-decides"]++
					case bytes.HasPrefix(pa, pb) || bytes.HasPrefix(pb, pa):
						local[f.name+"/pair-prefix-of-prefix"]++
					default:
						local[f.name+"/pair-prefixes-diverge"]++
					}
					if !bytes.Equal(a, b) && (bytes.HasPrefix(pa, pb) || bytes.HasPrefix(pb, pa)) {
						c.Nontrivial(vlib.Hash(f.name, "pair", a, b))
					}
					var sep []byte
					if ab < 0 && len(a) > 0 && len(b) > 0 && !(f.separatorNeedsPrefix && (sa == 0 || sb == 0)) {
						sep = func() (s []byte) {
							defer func() { _ = recover() }()
							return C.Separator(nil, a, b)
						}()
						switch {
						case bytes.Equal(sep, a):
							local[f.name+"/separator-is-a"]++
						case len(sep) < len(a):
							local[f.name+"/separator-shortened"]++
						default:
							local[f.name+"/separator-other"]++
						}
					}
					c.State(vlib.Hash(f.name, "pair", a, b, ab, sep))
					if (i*nk+j)%7919 == 7 {
						c.Sample(map[string]any{"family": f.name, "kind": "pair", "a": hx(a), "b": hx(b), "compare": ab, "separator": hx(sep)})
					}
					for k := 0; k < nk; k++ {
						cc := f.keys[k]
						fs := guard(p, func() []fail { return f.triple(a, b, cc, p) })
						if len(fs) > 0 {
							report(f, "triple", fs, a, b, cc)
						}
						evals++
					}
				}
				local[f.name+"/triples"] += int64(nk) * int64(nk)
				c.Eval(int(evals))
				c.Trans(p.calls)
				flush(local)
			})
			scope[f.name+".keys"] = nk
			scope[f.name+".pairs"] = nk * nk
			scope[f.name+".triples"] = nk * nk * nk
			if !ok {
				c.Incomplete(fmt.Sprintf("budget expired in family %s after %d of %d outer keys of the pair/triple enumeration; earlier families complete", f.name, done, nk))
				complete = false
				break
			}

			// Suffix pairs and triples.
			done, ok = c.Each(ns, func(i int) {
				a := f.suffixes[i]
				p := &probe{}
				var evals int64
				for j := 0; j < ns; j++ {
					b := f.suffixes[j]
					fs := guard(p, func() []fail { return f.sufPair(a, b, p) })
					report(f, "sufpair", fs, a, b)
					evals++
					pc := C.ComparePointSuffixes(a, b)
					rc := C.CompareRangeSuffixes(a, b)
					c.State(vlib.Hash(f.name, "sufpair", a, b, pc, rc))
					if pc == 0 && rc != 0 {
						c.Nontrivial(vlib.Hash(f.name, "sufpair", a, b))
						c.Outcome(f.name + "/suffix-pair-range-stricter-than-point")
					} else if pc == 0 {
						c.Outcome(f.name + "/suffix-pair-equal")
					} else {
						c.Outcome(f.name + "/suffix-pair-ordered")
					}
					for k := 0; k < ns; k++ {
						cc := f.suffixes[k]
						fs := guard(p, func() []fail { return f.sufTriple(a, b, cc, p) })
						report(f, "suftriple", fs, a, b, cc)
						evals++
					}
				}
				c.Eval(int(evals))
				c.Trans(p.calls)
			})
			scope[f.name+".suffixes"] = ns
			if !ok {
				c.Incomplete(fmt.Sprintf("budget expired in family %s after %d of %d outer suffixes", f.name, done, ns))
				complete = false
				break
			}
		}

		// Columnar blocks (cockroachkvs only): for each plan, every subset of the plan's sorted block
		// universe of size 1..maxRows, smallest first.
		if complete {
			f := fams["cockroachkvs"]
			type blockPlan struct {
				roachKeys int // roach keys 1..roachKeys of crdbRoachKeys
				maxRows   int
			}
			plans := []blockPlan{{crdbBlockRoachKeys, 4}}
			if c.Thorough() {
				plans = []blockPlan{{crdbBlockRoachKeys, 5}, {len(crdbRoachKeys) - 1, 4}}
			}
			workers := make(chan *blockWorker, 64)
			var all []*blockWorker
			for i := 0; i < 64; i++ {
				w := &blockWorker{}
				all = append(all, w)
				workers <- w
			}
			var planNotes []string
			for _, pl := range plans {
				universe := f.blockUniverse(pl.roachKeys)
				u, maxRows := len(universe), pl.maxRows
				sorted := true
				for i := 1; i < u; i++ {
					if f.cmp.Compare(universe[i-1], universe[i]) > 0 {
						sorted = false
					}
				}
				if !sorted {
					c.Incomplete("block universe cannot be sorted with the comparer; block phase skipped")
					break
				}
				var offs []int
				total := 0
				for k := 1; k <= maxRows; k++ {
					offs = append(offs, total)
					total += binom(u, k)
				}
				done, ok := c.Each(total, func(i int) {
					w := <-workers
					defer func() { workers <- w }()
					k := maxRows
					for k > 1 && i < offs[k-1] {
						k--
					}
					var idx [8]int
					unrank(i-offs[k-1], u, k, idx[:k])
					rows := make([][]byte, k)
					for j := 0; j < k; j++ {
						rows[j] = universe[idx[j]]
					}
					p := &probe{}
					var blk []byte
					fs := guard(p, func() []fail {
						fs, b := w.block(f, rows, p, false)
						blk = b
						return fs
					})
					if len(fs) > 0 {
						// report each class once per block
						seen := map[string]bool{}
						var uniq []fail
						for _, x := range fs {
							if !seen[x.class] {
								seen[x.class] = true
								uniq = append(uniq, x)
							}
						}
						report(f, "block", uniq, rows...)
					}
					w.evals++
					w.trans += int64(p.calls)
					shared, equalKeys, kinds := false, false, map[int]bool{}
					for j := 0; j < k; j++ {
						s := f.cmp.Split(rows[j])
						kinds[len(rows[j])-s] = true
						if j > 0 && bytes.Equal(rows[j][:s], rows[j-1][:f.cmp.Split(rows[j-1])]) {
							shared = true
							if f.cmp.Compare(rows[j], rows[j-1]) == 0 {
								equalKeys = true
							}
						}
					}
					switch {
					case equalKeys:
						w.outcomes["block/has-equal-user-keys"]++
					case shared:
						w.outcomes["block/has-shared-prefix"]++
					default:
						w.outcomes["block/all-prefixes-distinct"]++
					}
					h := vlib.Hash("block", blk)
					if shared && len(kinds) > 1 {
						c.Nontrivial(h)
					}
					c.State(h)
					if i%200003 == 100011 {
						c.Sample(map[string]any{"family": f.name, "kind": "block", "rows": hxs(rows...), "shown": f.shown(rows...), "block_bytes": len(blk)})
					}
				})
				planNotes = append(planNotes, fmt.Sprintf("universe %d keys (%d roach keys x %d versions), rows 1..%d: %d/%d blocks, %d probes each",
					u, pl.roachKeys, len(crdbVersions), maxRows, done, total, len(f.probes)))
				if !ok {
					c.Incomplete(fmt.Sprintf("budget expired after %d of %d blocks of the plan (universe %d, rows<=%d; subsets enumerated by size, smallest first); all pair/triple phases and earlier block plans complete", done, total, u, maxRows))
					break
				}
			}
			scope["cockroachkvs.blocks"] = planNotes
			for _, w := range all {
				c.Eval(int(w.evals))
				c.Trans(int(w.trans))
				flush(w.outcomes)
			}
		}
		for k, v := range outcomes {
			c.OutcomeN(k, v)
		}
		c.Note("scope", scope)
	})
}
