// Package sst holds two checks that share the key universe, writer-option space and table builder of
// universe_test.go:
//
//	C25  SSTables read back exactly what was written, under any writer options   (c25_test.go)
//	C27  Corrupted table and blob files never yield wrong data                     (c27_test.go)
//
// The check is selected by c.Prop (VERIF_PROP).
package sst

import (
	"fmt"
	"math/bits"
	"runtime"
	"runtime/debug"
	"sync"
	"testing"

	"github.com/cockroachdb/pebble/internal/verif/vlib"
	"github.com/cockroachdb/pebble/sstable"
)

// Case is the replay artefact of both checks.
type Case struct {
	Check string     `json:"check"` // C25 | C27
	Spec  *TableSpec `json:"spec,omitempty"`
	Deep  bool       `json:"deep,omitempty"`
	What  string     `json:"what,omitempty"`
	// C27
	Corruption *Corruption `json:"corruption,omitempty"`
}

func TestCheck(t *testing.T) {
	// The harness allocates many short-lived objects with a tiny live heap; Pebble's sync.Pools (block
	// buffers, filter builders) are emptied by every GC cycle. Collect by heap size, not by growth.
	// A never-touched (hence non-resident) pointer-free ballast makes the collector run once per
	// ~ballast bytes allocated.
	ballast := make([]byte, 256<<20)
	defer runtime.KeepAlive(ballast)
	debug.SetGCPercent(100)
	vlib.Main(t, "C25", func(c *vlib.Ctx) {
		if c.ReplayPath() != "" {
			var cs Case
			if err := c.LoadReplay(&cs); err != nil {
				t.Fatal(err)
			}
			replay(c, cs)
			return
		}
		switch c.Prop {
		case "C25":
			runC25(c)
		case "C27":
			runC27(c)
		default:
			t.Fatalf("harness sst does not implement %s", c.Prop)
		}
	})
}

func replay(c *vlib.Ctx, cs Case) {
	c.Eval(1)
	c.Trans(1)
	switch cs.Check {
	case "C25":
		fmt.Printf("table: %s\ndeep checks: %v\n", cs.Spec, cs.Deep)
		res := checkTable(*cs.Spec, cs.Deep, true)
		fmt.Printf("outcome: %s (%d operations)\n", res.outcome, res.ops)
		if res.fl != nil {
			fmt.Printf("replay: FAIL class=%s\n%s\n", res.fl.class, res.fl.desc)
			c.Violation(res.fl.class, res.fl.desc, cs)
		} else {
			fmt.Println("replay: ok")
		}
	case "C27":
		replayC27(c, cs)
	default:
		c.T.Fatalf("unknown check %q", cs.Check)
	}
}

// reporter limits the number of reports built per class (vlib keeps 5 artefacts per class).
type reporter struct {
	mu sync.Mutex
	n  map[string]int
}

func (r *reporter) ok(class string) bool {
	r.mu.Lock()
	defer r.mu.Unlock()
	if r.n == nil {
		r.n = map[string]int{}
	}
	r.n[class]++
	return r.n[class] <= 6
}

func spanConfigs() [][2]uint32 {
	var out [][2]uint32
	for rk := uint32(0); rk < 1<<uint(len(rkUniverse)); rk++ {
		for rd := uint32(0); rd < 1<<uint(len(rdUniverse)); rd++ {
			out = append(out, [2]uint32{rd, rk})
		}
	}
	return out
}

// nontrivial: at least two written points share a prefix (hence prefix compression, same-prefix
// flags, value-block eligibility and version ordering matter).
func nontrivial(s TableSpec) bool {
	es := s.ents()
	for i := 1; i < len(es); i++ {
		if string(prefixOf([]byte(es[i].U))) == string(prefixOf([]byte(es[i-1].U))) {
			return true
		}
	}
	return false
}

func runC25(c *vlib.Ctx) {
	maxPoints, maxDev := 5, 1
	if c.Thorough() {
		maxPoints, maxDev = 6, 2
	}
	subs := subsets(len(universe), maxPoints)
	opts := optionSets(maxDev)
	spans := spanConfigs()
	var rep reporter
	var mu sync.Mutex
	var tables, deepTables, filterHits, nilPrefix, valBlockTables, twoLevelTables, multiBlockTables, maxSize int64
	n := len(subs) * len(opts)
	done, complete := c.Each(n, func(i int) {
		// subsets vary slowest so that an expired budget leaves the smaller subsets complete over
		// every option set.
		si, oi := i/len(opts), i%len(opts)
		var lt, ld, lf, ln, lv, l2, lm, lmax int64
		for k, sp := range spans {
			spec := TableSpec{Points: subs[si], RD: sp[0], RK: sp[1], O: opts[oi]}
			deep := k == (si+oi)%len(spans)
			res := checkTable(spec, deep, false)
			c.Eval(1)
			c.Trans(res.ops)
			c.Outcome(res.outcome)
			lt++
			if deep {
				ld++
			}
			lf += res.filterHits
			ln += int64(res.nilPrefix)
			if res.valBlocks > 0 {
				lv++
			}
			if res.twoLevel {
				l2++
			}
			if res.dataBlocks > 1 {
				lm++
			}
			if int64(res.size) > lmax {
				lmax = int64(res.size)
			}
			if res.size > 0 {
				c.State(res.fileHash)
			}
			if nontrivial(spec) {
				c.Nontrivial(vlib.Hash("C25", spec.Points, spec.RD, spec.RK, fmt.Sprint(spec.O)))
			}
			if res.fl != nil && rep.ok(res.fl.class) {
				c.Violation(res.fl.class, fmt.Sprintf("table %s: %s", spec, res.fl.desc),
					Case{Check: "C25", Spec: &spec, Deep: deep, What: spec.String()})
			}
			if deep && i%4099 == 17 {
				c.Sample(map[string]any{"table": spec.String(), "file_bytes": res.size, "operations": res.ops, "outcome": res.outcome})
			}
		}
		mu.Lock()
		tables += lt
		deepTables += ld
		filterHits += lf
		nilPrefix += ln
		valBlockTables += lv
		twoLevelTables += l2
		multiBlockTables += lm
		if lmax > maxSize {
			maxSize = lmax
		}
		mu.Unlock()
	})
	if !complete {
		full := int(done) / len(opts)
		sz := 0
		if full > 0 {
			sz = bits.OnesCount32(subs[full-1])
		}
		c.Incomplete(fmt.Sprintf("budget expired after %d of %d (point subset x option set) items; about the first %d point subsets (sizes <= %d) were covered over every option set and span configuration", done, n, full, sz))
	}
	var fmts []string
	for _, f := range allFormats() {
		fmts = append(fmts, sstable.TableFormat(f).String())
	}
	c.Note("scope", map[string]any{
		"point_universe":        len(universe),
		"point_subsets":         fmt.Sprintf("%d subsets of <= %d entries", len(subs), maxPoints),
		"span_configurations":   fmt.Sprintf("%d = all subsets of %d range tombstones x all subsets of %d range-key span", len(spans), len(rdUniverse), len(rkUniverse)),
		"option_sets":           fmt.Sprintf("%d = 2 bases + <= %d deviations each", len(opts), maxDev),
		"formats":               fmts,
		"tables_written":        tables,
		"tables_deep_checked":   deepTables,
		"items_done":            done,
		"items_total":           n,
		"largest_table_bytes":   maxSize,
		"seek_probes":           len(probes),
		"bound_keys":            len(boundKeys),
		"base_A":                baseA.String(),
		"base_B":                baseB.String(),
	})
	c.Note("nonvacuity", map[string]any{
		"filter_exclusions":                       filterHits,
		"prefix_seeks_returning_nil_before_a_key": nilPrefix,
		"tables_with_values_in_value_blocks":      valBlockTables,
		"tables_with_two_level_index":             twoLevelTables,
		"tables_with_several_data_blocks":         multiBlockTables,
	})
}
