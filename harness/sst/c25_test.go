// C25: SSTables read back exactly what was written, under any writer options.
package sst

import (
	"bytes"
	"context"
	"fmt"
	"runtime/debug"
	"sync"

	"github.com/cockroachdb/pebble/internal/base"
	"github.com/cockroachdb/pebble/internal/keyspan"
	"github.com/cockroachdb/pebble/internal/testkeys"
	"github.com/cockroachdb/pebble/sstable"
	"github.com/cockroachdb/pebble/sstable/block"
)

type failure struct {
	class string
	desc  string
}

// tableResult is what one (spec, depth) evaluation reports back to the enumerator.
type tableResult struct {
	fl         *failure
	outcome    string
	ops        int
	fileHash   uint64
	size       int
	filterHits int64
	nilPrefix  int // SeekPrefixGE calls that returned nil although a key >= the seek key exists
	valBlocks  uint64
	twoLevel   bool
	dataBlocks uint64
}

// opd describes one iterator operation; it is formatted only when reported.
type opd struct {
	pre  string // operations before, e.g. "First();Next()x3;"
	name string // e.g. "SeekGE"
	key  []byte // argument, nil for none
	tail string // e.g. ";Next()"
}

func (o opd) String() string {
	s := o.pre + o.name
	if o.key != nil {
		s += fmt.Sprintf("(%q)", o.key)
	} else {
		s += "()"
	}
	return s + o.tail
}

type checker struct {
	m      *model
	it     sstable.Iterator
	ops    int
	fl     *failure
	trace  []string // verbose op log (replay only)
	verb   bool
	lower  []byte
	upper  []byte
	nilPfx int
}

func (c *checker) failf(class, format string, args ...any) {
	if c.fl == nil {
		c.fl = &failure{class, fmt.Sprintf(format, args...)}
	}
}

func kvString(kv *base.InternalKV) string {
	if kv == nil {
		return "<nil>"
	}
	v, _, err := kv.Value(nil)
	if err != nil {
		return fmt.Sprintf("%s#%d,%s=<value error %v>", kv.K.UserKey, kv.K.SeqNum(), kv.K.Kind(), err)
	}
	return ent{string(kv.K.UserKey), uint64(kv.K.SeqNum()), kv.K.Kind(), v}.String()
}

func (c *checker) wantString(i int) string {
	if i < 0 {
		return "<nil>"
	}
	return c.m.ents[i].String()
}

// expect compares an iterator result with model entry `want` (-1: exhausted). Returns true if it
// matched.
func (c *checker) expect(class string, op opd, kv *base.InternalKV, want int) bool {
	c.ops++
	if c.verb {
		c.trace = append(c.trace, fmt.Sprintf("[%q,%q) %s -> %s (model %s)", c.lower, c.upper, op, kvString(kv), c.wantString(want)))
	}
	ok := true
	if want < 0 {
		if kv != nil {
			ok = false
		} else if err := c.it.Error(); err != nil {
			c.failf("iterator-error", "bounds [%q,%q) %s: iterator error %v", c.lower, c.upper, op, err)
			return false
		}
	} else if kv == nil {
		ok = false
		if err := c.it.Error(); err != nil {
			c.failf("iterator-error", "bounds [%q,%q) %s: iterator error %v", c.lower, c.upper, op, err)
			return false
		}
	} else {
		e := &c.m.ents[want]
		if !bytes.Equal(kv.K.UserKey, c.m.keys[want]) || uint64(kv.K.SeqNum()) != e.Seq || kv.K.Kind() != e.Kind {
			ok = false
		} else {
			v, _, err := kv.Value(nil)
			if err != nil {
				c.failf("value-error", "bounds [%q,%q) %s: value of %s: %v", c.lower, c.upper, op, e, err)
				return false
			}
			if !bytes.Equal(v, e.Val) {
				ok = false
			}
		}
	}
	if !ok {
		c.failf(class, "bounds [%q,%q) %s returned %s, model says %s", c.lower, c.upper, op, kvString(kv), c.wantString(want))
	}
	return ok
}

func (c *checker) setBounds(l, u []byte) {
	c.lower, c.upper = l, u
	c.it.SetBounds(l, u)
}

// first positions at the first entry inside the bounds respecting the caller-side contract.
func (c *checker) first() (*base.InternalKV, opd) {
	if c.lower != nil {
		return c.it.SeekGE(c.lower, base.SeekGEFlagsNone), opd{name: "SeekGE", key: c.lower}
	}
	return c.it.First(), opd{name: "First"}
}

func (c *checker) last() (*base.InternalKV, opd) {
	if c.upper != nil {
		return c.it.SeekLT(c.upper, base.SeekLTFlagsNone), opd{name: "SeekLT", key: c.upper}
	}
	return c.it.Last(), opd{name: "Last"}
}

func (c *checker) firstIdx() int {
	if c.lower != nil {
		return c.m.seekGE(c.lower, c.upper)
	}
	if len(c.m.ents) > 0 && c.m.inBounds(0, nil, c.upper) {
		return 0
	}
	return -1
}

func (c *checker) lastIdx() int {
	if c.upper != nil {
		return c.m.seekLT(c.upper, c.lower)
	}
	if n := len(c.m.ents); n > 0 && c.m.inBounds(n-1, c.lower, nil) {
		return n - 1
	}
	return -1
}

// nextIdx / prevIdx: model of Next (checks the upper bound) and Prev (checks the lower bound).
func (c *checker) nextIdx(i int) int {
	if i+1 < len(c.m.ents) && (c.upper == nil || cmp(c.m.keys[i+1], c.upper) < 0) {
		return i + 1
	}
	return -1
}

func (c *checker) prevIdx(i int) int {
	if i-1 >= 0 && (c.lower == nil || cmp(c.m.keys[i-1], c.lower) >= 0) {
		return i - 1
	}
	return -1
}

// scanForward: full forward scan inside the current bounds, then (turn) one Prev from the exhausted
// position, which the InternalIterator contract allows.
func (c *checker) scanForward(class string, turn bool) {
	kv, op := c.first()
	want := c.firstIdx()
	last := -1
	for {
		if !c.expect(class, op, kv, want) || want < 0 {
			break
		}
		last = want
		want = c.nextIdx(want)
		kv, op = c.it.Next(), opd{pre: "...;", name: "Next"}
	}
	if c.fl != nil || !turn {
		return
	}
	// The iterator is positioned after `last`. Prev returns the entry before the position, subject
	// to the lower bound: `last` itself, or nothing when the scan was empty (every entry before the
	// position is then below the lower bound).
	c.expect(class, opd{pre: "forward scan to exhaustion;", name: "Prev"}, c.it.Prev(), last)
}

func (c *checker) scanBackward(class string, turn bool) {
	kv, op := c.last()
	want := c.lastIdx()
	last := -1
	for {
		if !c.expect(class, op, kv, want) || want < 0 {
			break
		}
		last = want
		want = c.prevIdx(want)
		kv, op = c.it.Prev(), opd{pre: "...;", name: "Prev"}
	}
	if c.fl != nil || !turn {
		return
	}
	c.expect(class, opd{pre: "backward scan to exhaustion;", name: "Next"}, c.it.Next(), last)
}

// seeks inside the current bounds: SeekGE/SeekLT for every probe p with lower <= p <= upper.
func (c *checker) seeks(class string, keys [][]byte, follow bool) {
	for _, k := range keys {
		if c.lower != nil && cmp(k, c.lower) < 0 || c.upper != nil && cmp(k, c.upper) > 0 {
			continue
		}
		w := c.m.seekGE(k, c.upper)
		if !c.expect(class, opd{name: "SeekGE", key: k}, c.it.SeekGE(k, base.SeekGEFlagsNone), w) {
			return
		}
		if follow && w >= 0 {
			if !c.expect(class, opd{name: "SeekGE", key: k, tail: ";Next()"}, c.it.Next(), c.nextIdx(w)) {
				return
			}
		}
		w = c.m.seekLT(k, c.lower)
		if !c.expect(class, opd{name: "SeekLT", key: k}, c.it.SeekLT(k, base.SeekLTFlagsNone), w) {
			return
		}
		if follow && w >= 0 {
			if !c.expect(class, opd{name: "SeekLT", key: k, tail: ";Prev()"}, c.it.Prev(), c.prevIdx(w)) {
				return
			}
		}
	}
}

// prefixSeeks: SeekPrefixGE(prefix(p), p) for every probe inside the bounds. Oracle (InternalIterator
// contract): if the first entry >= p inside the bounds has the prefix it must be returned; otherwise
// the iterator returns nil (filter exclusion / strict prefix mode) or that first entry. While the
// returned entries have the prefix, Next must follow the model; the first entry without the prefix
// may be replaced by nil; no call after that.
func (c *checker) prefixSeeks(class string, keys [][]byte, flags base.SeekGEFlags, follow bool) {
	name := "SeekPrefixGE"
	if flags.TrySeekUsingNext() {
		name = "SeekPrefixGE[try-seek-using-next]"
	}
	for _, k := range keys {
		if c.lower != nil && cmp(k, c.lower) < 0 || c.upper != nil && cmp(k, c.upper) > 0 {
			continue
		}
		prefix := prefixOf(k)
		op := opd{name: name, key: k}
		kv := c.it.SeekPrefixGE(prefix, k, flags)
		w := c.m.seekGE(k, c.upper)
		for {
			if w >= 0 && bytes.Equal(prefixOf(c.m.keys[w]), prefix) {
				if !c.expect(class, op, kv, w) {
					return
				}
			} else {
				// no (further) entry with the prefix: nil or the first entry beyond the prefix.
				if kv == nil {
					if w >= 0 {
						c.nilPfx++
					}
					c.expect(class, op, kv, -1)
				} else {
					c.expect(class, op, kv, w)
				}
				break
			}
			if !follow {
				break
			}
			w = c.nextIdx(w)
			op.tail += ";Next()"
			kv = c.it.Next()
		}
		if c.fl != nil {
			return
		}
	}
}

func spanList(u []mspan, mask uint32) []mspan {
	var out []mspan
	for _, s := range pick(u, mask) {
		out = append(out, canonModelSpan(s))
	}
	return out
}

// spanMatches compares a span read back with a written one without allocating: same bounds and the
// same multiset of keys (row-oriented formats reorder the keys of one sequence number).
func spanMatches(s *keyspan.Span, w *mspan) bool {
	if string(s.Start) != w.Start || string(s.End) != w.End || len(s.Keys) != len(w.Keys) {
		return false
	}
	var used [16]bool
	for _, k := range s.Keys {
		found := false
		for j, wk := range w.Keys {
			if !used[j] && uint64(k.SeqNum()) == wk.Seq && k.Kind() == wk.Kind && string(k.Suffix) == wk.Suffix && string(k.Value) == wk.Value {
				used[j] = true
				found = true
				break
			}
		}
		if !found {
			return false
		}
	}
	// keys must come back in descending trailer order
	for i := 1; i < len(s.Keys); i++ {
		if s.Keys[i-1].Trailer < s.Keys[i].Trailer {
			return false
		}
	}
	return true
}

// checkSpans compares a raw fragment iterator with the written spans: First/Next, Last/Prev and
// SeekGE/SeekLT at every probe.
func checkSpans(what string, it keyspan.FragmentIterator, want []mspan, ops *int) *failure {
	if it == nil {
		if len(want) != 0 {
			return &failure{"span-mismatch", fmt.Sprintf("%s iterator is nil but %d spans were written", what, len(want))}
		}
		return nil
	}
	defer it.Close()
	if len(want) == 0 {
		return &failure{"span-mismatch", fmt.Sprintf("%s iterator is not nil but no span was written", what)}
	}
	cmpOne := func(op string, key []byte, step int, s *keyspan.Span, err error, w int) *failure {
		*ops++
		desc := func() string {
			if key != nil {
				return fmt.Sprintf("%s(%q)", op, key)
			}
			return fmt.Sprintf("%s step %d", op, step)
		}
		if err != nil {
			return &failure{"span-error", fmt.Sprintf("%s %s: %v", what, desc(), err)}
		}
		if w < 0 || w >= len(want) {
			if s != nil {
				return &failure{"span-mismatch", fmt.Sprintf("%s %s returned %s, model says <nil>", what, desc(), canonSpan(s))}
			}
			return nil
		}
		if s == nil {
			return &failure{"span-mismatch", fmt.Sprintf("%s %s returned <nil>, model says %s", what, desc(), want[w])}
		}
		if !spanMatches(s, &want[w]) {
			return &failure{"span-mismatch", fmt.Sprintf("%s %s returned %s, model says %s", what, desc(), canonSpan(s), want[w])}
		}
		return nil
	}
	s, err := it.First()
	for i := 0; i <= len(want); i++ {
		if f := cmpOne("forward", nil, i, s, err, i); f != nil {
			return f
		}
		if i < len(want) {
			s, err = it.Next()
		}
	}
	s, err = it.Last()
	for i := len(want) - 1; i >= -1; i-- {
		if f := cmpOne("backward", nil, i, s, err, i); f != nil {
			return f
		}
		if i >= 0 {
			s, err = it.Prev()
		}
	}
	for _, k := range probeKeys {
		w := len(want)
		for i := range want {
			if cmp([]byte(want[i].End), k) > 0 {
				w = i
				break
			}
		}
		s, err = it.SeekGE(k)
		if f := cmpOne("SeekGE", k, 0, s, err, w); f != nil {
			return f
		}
		w = -1
		for i := len(want) - 1; i >= 0; i-- {
			if cmp([]byte(want[i].Start), k) < 0 {
				w = i
				break
			}
		}
		s, err = it.SeekLT(k)
		if f := cmpOne("SeekLT", k, 0, s, err, w); f != nil {
			return f
		}
	}
	return nil
}

func isDelete(k base.InternalKeyKind) bool {
	return k == base.InternalKeyKindDelete || k == base.InternalKeyKindSingleDelete || k == base.InternalKeyKindDeleteSized
}

// checkProps: sanity of the persisted properties against what was written.
func checkProps(s TableSpec, r *sstable.Reader, res *tableResult) *failure {
	p, err := r.ReadPropertiesBlock(context.Background(), nil)
	if err != nil {
		return &failure{"props-error", fmt.Sprintf("ReadPropertiesBlock: %v", err)}
	}
	ents := s.ents()
	var rdKeys, dels, merges, sets, unsets, rkdels uint64
	for _, sp := range pick(rdUniverse, s.RD) {
		rdKeys += uint64(len(sp.Keys))
	}
	for _, e := range ents {
		if isDelete(e.Kind) {
			dels++
		}
		if e.Kind == base.InternalKeyKindMerge {
			merges++
		}
	}
	for _, sp := range pick(rkUniverse, s.RK) {
		for _, k := range sp.Keys {
			switch k.Kind {
			case base.InternalKeyKindRangeKeySet:
				sets++
			case base.InternalKeyKindRangeKeyUnset:
				unsets++
			case base.InternalKeyKindRangeKeyDelete:
				rkdels++
			}
		}
	}
	bad := func(name string, got, want uint64) *failure {
		return &failure{"props-mismatch", fmt.Sprintf("property %s = %d, written %d", name, got, want)}
	}
	if p.NumEntries != uint64(len(ents))+rdKeys {
		return bad("NumEntries", p.NumEntries, uint64(len(ents))+rdKeys)
	}
	if p.NumDeletions != dels+rdKeys {
		return bad("NumDeletions", p.NumDeletions, dels+rdKeys)
	}
	if p.NumRangeDeletions != rdKeys {
		return bad("NumRangeDeletions", p.NumRangeDeletions, rdKeys)
	}
	if p.NumMergeOperands != merges {
		return bad("NumMergeOperands", p.NumMergeOperands, merges)
	}
	// The row-oriented writer counts the encoded range-key records (one per kind and sequence
	// number), the columnar one counts keys; both are >= 1 per kind present and <= the key count.
	for _, c := range []struct {
		name      string
		got, want uint64
	}{{"NumRangeKeySets", p.NumRangeKeySets, sets}, {"NumRangeKeyUnsets", p.NumRangeKeyUnsets, unsets}, {"NumRangeKeyDels", p.NumRangeKeyDels, rkdels}} {
		if c.got > c.want || (c.want > 0) != (c.got > 0) {
			return bad(c.name, c.got, c.want)
		}
	}
	// The row-oriented writer emits one empty data block for a table without points.
	if (len(ents) > 0 && p.NumDataBlocks == 0) || p.NumDataBlocks > uint64(max(len(ents), 1)) {
		return bad("NumDataBlocks", p.NumDataBlocks, uint64(len(ents)))
	}
	if p.ComparerName != testkeys.Comparer.Name {
		return &failure{"props-mismatch", fmt.Sprintf("ComparerName %q", p.ComparerName)}
	}
	if s.O.Filter == "none" && p.FilterFamily != "" {
		return &failure{"props-mismatch", fmt.Sprintf("FilterFamily %q with filter option %s and %d points", p.FilterFamily, s.O.Filter, len(ents))}
	}
	if p.NumValuesInValueBlocks > uint64(len(ents)) || (p.NumValuesInValueBlocks > 0 && (s.O.NoVB || s.O.TF < int(sstable.TableFormatPebblev3))) {
		return bad("NumValuesInValueBlocks", p.NumValuesInValueBlocks, 0)
	}
	res.valBlocks = p.NumValuesInValueBlocks
	res.twoLevel = p.IndexPartitions > 0
	res.dataBlocks = p.NumDataBlocks
	return nil
}

func checkMeta(s TableSpec, meta *sstable.WriterMetadata) *failure {
	ents := s.ents()
	if meta.HasPointKeys != (len(ents) > 0) {
		return &failure{"meta-mismatch", fmt.Sprintf("HasPointKeys=%v with %d points", meta.HasPointKeys, len(ents))}
	}
	if len(ents) > 0 {
		f, l := ents[0], ents[len(ents)-1]
		if string(meta.SmallestPoint.UserKey) != f.U || uint64(meta.SmallestPoint.SeqNum()) != f.Seq || meta.SmallestPoint.Kind() != f.Kind {
			return &failure{"meta-mismatch", fmt.Sprintf("SmallestPoint %s, first written %s", meta.SmallestPoint, f)}
		}
		if string(meta.LargestPoint.UserKey) != l.U || uint64(meta.LargestPoint.SeqNum()) != l.Seq || meta.LargestPoint.Kind() != l.Kind {
			return &failure{"meta-mismatch", fmt.Sprintf("LargestPoint %s, last written %s", meta.LargestPoint, l)}
		}
	}
	lo, hi, any := uint64(0), uint64(0), false
	upd := func(q uint64) {
		if !any || q < lo {
			lo = q
		}
		if !any || q > hi {
			hi = q
		}
		any = true
	}
	for _, e := range ents {
		upd(e.Seq)
	}
	for _, sp := range append(pick(rdUniverse, s.RD), pick(rkUniverse, s.RK)...) {
		for _, k := range sp.Keys {
			upd(k.Seq)
		}
	}
	if any && (uint64(meta.SeqNums.Low) != lo || uint64(meta.SeqNums.High) != hi) {
		return &failure{"meta-mismatch", fmt.Sprintf("SeqNums [%d,%d], written [%d,%d]", meta.SeqNums.Low, meta.SeqNums.High, lo, hi)}
	}
	if rd := pick(rdUniverse, s.RD); meta.HasRangeDelKeys != (len(rd) > 0) {
		return &failure{"meta-mismatch", fmt.Sprintf("HasRangeDelKeys=%v with %d tombstones", meta.HasRangeDelKeys, len(rd))}
	} else if len(rd) > 0 {
		if string(meta.SmallestRangeDel.UserKey) != rd[0].Start || string(meta.LargestRangeDel.UserKey) != rd[len(rd)-1].End {
			return &failure{"meta-mismatch", fmt.Sprintf("range-del bounds %s..%s", meta.SmallestRangeDel, meta.LargestRangeDel)}
		}
	}
	if rk := pick(rkUniverse, s.RK); meta.HasRangeKeys != (len(rk) > 0) {
		return &failure{"meta-mismatch", fmt.Sprintf("HasRangeKeys=%v with %d range keys", meta.HasRangeKeys, len(rk))}
	} else if len(rk) > 0 {
		if string(meta.SmallestRangeKey.UserKey) != rk[0].Start || string(meta.LargestRangeKey.UserKey) != rk[len(rk)-1].End {
			return &failure{"meta-mismatch", fmt.Sprintf("range-key bounds %s..%s", meta.SmallestRangeKey, meta.LargestRangeKey)}
		}
	}
	return nil
}

func toKeys(ss []string) [][]byte {
	out := make([][]byte, len(ss))
	for i, s := range ss {
		out[i] = []byte(s)
	}
	return out
}

var (
	probeKeys    = toKeys(probes)
	probeKeysRev = func() [][]byte {
		r := toKeys(probes)
		for i, j := 0, len(r)-1; i < j; i, j = i+1, j-1 {
			r[i], r[j] = r[j], r[i]
		}
		return r
	}()
	boundKeyBytes  = toKeys(boundKeys)
	prefixKeyBytes = toKeys(prefixProbes)
)

// Block buffers of the main point iterator come from a block.BufferPool (the path compaction
// iterators use) in the deep checks, and from the allocator (the path of an iterator without a block
// cache) in the light checks and for the per-bound-pair iterators of the deep checks. Nothing is ever
// cached: every block access reads, validates and decompresses the block again.
var bufferPools = sync.Pool{New: func() any {
	p := new(block.BufferPool)
	p.Init(8, block.ForCompaction)
	return p
}}

// checkTable writes one table and runs the light checks (deep=false) or all checks (deep=true).
func checkTable(s TableSpec, deep bool, verbose bool) (res tableResult) {
	var c *checker
	defer func() {
		if r := recover(); r != nil {
			res.fl = &failure{"panic", fmt.Sprintf("panic: %v\n%s", r, debug.Stack())}
			res.outcome = "panic"
		}
		if c != nil {
			res.ops += c.ops
			res.nilPrefix = c.nilPfx
			if verbose {
				for _, l := range c.trace {
					fmt.Println("  " + l)
				}
			}
		}
	}()
	fail := func(f *failure) tableResult {
		res.fl = f
		res.outcome = f.class
		return res
	}
	data, meta, err := build(s)
	if err != nil {
		if s.RK != 0 && s.O.TF < int(sstable.TableFormatPebblev2) {
			// Documented: range keys need TableFormatPebblev2.
			res.outcome = "writer-rejects-range-keys-before-v2"
			return res
		}
		return fail(&failure{"writer-error", fmt.Sprintf("writer: %v", err)})
	}
	if s.RK != 0 && s.O.TF < int(sstable.TableFormatPebblev2) {
		return fail(&failure{"writer-accepts-unsupported", "range keys accepted in a format older than Pebblev2"})
	}
	res.size = len(data)
	res.fileHash = hashBytes(data)
	if verbose {
		fmt.Printf("table: %d bytes\n", len(data))
	}
	if f := checkMeta(s, meta); f != nil {
		return fail(f)
	}
	var fm sstable.FilterMetricsTracker
	r, err := openTable(data, &fm)
	if err != nil {
		return fail(&failure{"open-error", fmt.Sprintf("NewReader: %v", err)})
	}
	defer r.Close()
	if tf, err := r.TableFormat(); err != nil || int(tf) != s.O.TF {
		return fail(&failure{"format-mismatch", fmt.Sprintf("reader reports format %s (%v)", tf, err)})
	}
	if f := checkProps(s, r, &res); f != nil {
		return fail(f)
	}
	// Range deletions and range keys.
	ctx := context.Background()
	rdi, err := r.NewRawRangeDelIter(ctx, sstable.NoFragmentTransforms, sstable.NoReadEnv)
	if err != nil {
		return fail(&failure{"span-error", fmt.Sprintf("NewRawRangeDelIter: %v", err)})
	}
	if f := checkSpans("range-del", rdi, spanList(rdUniverse, s.RD), &res.ops); f != nil {
		return fail(f)
	}
	rki, err := r.NewRawRangeKeyIter(ctx, sstable.NoFragmentTransforms, sstable.NoReadEnv)
	if err != nil {
		return fail(&failure{"span-error", fmt.Sprintf("NewRawRangeKeyIter: %v", err)})
	}
	if f := checkSpans("range-key", rki, spanList(rkUniverse, s.RK), &res.ops); f != nil {
		return fail(f)
	}

	// Point iterators.
	m := newModel(s.ents())
	env := sstable.NoReadEnv
	var pool *block.BufferPool
	if deep {
		pool = bufferPools.Get().(*block.BufferPool)
		env.Block.BufferPool = pool
	}
	it, err := r.NewPointIter(ctx, sstable.IterOptions{
		FilterBlockSizeLimit: sstable.AlwaysUseFilterBlock,
		Env:                  env,
		ReaderProvider:       sstable.MakeTrivialReaderProvider(r),
		BlobContext:          sstable.AssertNoBlobHandles,
	})
	if err != nil {
		return fail(&failure{"open-error", fmt.Sprintf("NewPointIter: %v", err)})
	}
	c = &checker{m: m, it: it, verb: verbose}
	finished := false
	defer func() {
		if c.it != nil {
			if err := c.it.Close(); err != nil && res.fl == nil {
				res.fl = &failure{"iterator-error", fmt.Sprintf("Close: %v", err)}
			}
		}
		if pool != nil && finished {
			bufferPools.Put(pool)
		}
	}()
	finish := func() tableResult {
		finished = true
		res.filterHits = fm.Load().Hits
		if c.fl != nil {
			res.fl = c.fl
			res.outcome = c.fl.class
			return res
		}
		if res.outcome == "" {
			res.outcome = "ok"
		}
		return res
	}
	// Light checks: unbounded scans in both directions with a turn at the end, seeks at every probe.
	c.scanForward("scan-mismatch", true)
	if c.fl != nil {
		return finish()
	}
	c.scanBackward("scan-mismatch", true)
	if c.fl != nil {
		return finish()
	}
	c.seeks("seek-mismatch", probeKeys, false)
	if c.fl != nil || !deep {
		return finish()
	}

	// ---- deep checks ----
	// (1) seeks with a follow-up step, descending order too.
	c.seeks("seek-mismatch", probeKeys, true)
	c.seeks("seek-mismatch", probeKeysRev, false)
	// ascending SeekGE with TrySeekUsingNext (valid: keys ascend, no positioning in between).
	for i, k := range probeKeys {
		fl := base.SeekGEFlagsNone
		if i > 0 {
			fl = fl.EnableTrySeekUsingNext()
		}
		if !c.expect("seek-mismatch", opd{name: "SeekGE[try-seek-using-next]", key: k}, c.it.SeekGE(k, fl), m.seekGE(k, nil)) {
			return finish()
		}
	}
	// (2) direction changes at every position.
	for i := range m.ents {
		kv := c.it.First()
		for j := 0; j < i; j++ {
			kv = c.it.Next()
		}
		pre := fmt.Sprintf("First();Next()x%d;", i)
		if !c.expect("scan-mismatch", opd{pre: pre, name: "(position)"}, kv, i) {
			return finish()
		}
		if !c.expect("scan-mismatch", opd{pre: pre, name: "Prev"}, c.it.Prev(), i-1) {
			return finish()
		}
		if !c.expect("scan-mismatch", opd{pre: pre + "Prev();", name: "Next"}, c.it.Next(), i) {
			return finish()
		}
		kv = c.it.Last()
		for j := len(m.ents) - 1; j > i; j-- {
			kv = c.it.Prev()
		}
		pre = fmt.Sprintf("Last();Prev()x%d;", len(m.ents)-1-i)
		if !c.expect("scan-mismatch", opd{pre: pre, name: "(position)"}, kv, i) {
			return finish()
		}
		w := i + 1
		if w >= len(m.ents) {
			w = -1
		}
		if !c.expect("scan-mismatch", opd{pre: pre, name: "Next"}, c.it.Next(), w) {
			return finish()
		}
		if !c.expect("scan-mismatch", opd{pre: pre + "Next();", name: "Prev"}, c.it.Prev(), i) {
			return finish()
		}
	}
	// (3) NextPrefix from every entry.
	for i := range m.ents {
		k := m.keys[i]
		j := m.seekGE(k, nil)
		if !c.expect("seek-mismatch", opd{name: "SeekGE", key: k}, c.it.SeekGE(k, base.SeekGEFlagsNone), j) {
			return finish()
		}
		// position exactly at entry i (several versions of one user key).
		for ; j < i; j++ {
			c.it.Next()
		}
		succ := testkeys.Comparer.ImmediateSuccessor(nil, prefixOf(k))
		if !c.expect("next-prefix-mismatch", opd{pre: "at " + m.ents[i].String() + ": ", name: "NextPrefix", key: succ}, c.it.NextPrefix(succ), m.seekGE(succ, nil)) {
			return finish()
		}
	}
	// (4) prefix seeks, unbounded.
	c.prefixSeeks("prefix-seek-mismatch", probeKeys, base.SeekGEFlagsNone, true)
	if c.fl != nil {
		return finish()
	}
	c.prefixSeeks("prefix-seek-mismatch", prefixKeyBytes, base.SeekGEFlagsNone, true)
	if c.fl != nil {
		return finish()
	}
	// ascending prefix seeks with TrySeekUsingNext, no stepping in between.
	c.it.SeekPrefixGE(prefixOf(probeKeys[0]), probeKeys[0], base.SeekGEFlagsNone)
	c.prefixSeeks("prefix-seek-mismatch", probeKeys[1:], base.SeekGEFlagsNone.EnableTrySeekUsingNext(), false)
	if c.fl != nil {
		return finish()
	}
	// (5) all lower/upper bound pairs on the same iterator (SetBounds), caller-side contract
	// respected: SeekGE(lower) instead of First, SeekLT(upper) instead of Last, seek keys in bounds.
	bk := boundKeyBytes
	for li := -1; li < len(bk); li++ {
		for ui := li + 1; ui <= len(bk); ui++ {
			if li < 0 && ui == len(bk) {
				continue
			}
			var l, u []byte
			if li >= 0 {
				l = bk[li]
			}
			if ui < len(bk) {
				u = bk[ui]
			}
			c.setBounds(l, u)
			c.scanForward("bounded-mismatch", true)
			if c.fl != nil {
				return finish()
			}
			c.scanBackward("bounded-mismatch", true)
			if c.fl != nil {
				return finish()
			}
			c.seeks("bounded-mismatch", bk, false)
			if c.fl != nil {
				return finish()
			}
			c.prefixSeeks("bounded-prefix-seek-mismatch", bk, base.SeekGEFlagsNone, true)
			if c.fl != nil {
				return finish()
			}
		}
	}
	// (6) sliding windows: bounds that move monotonically forward, then backward (exercises the
	// iterator's bounds-monotonicity fast paths).
	for width := 1; width <= 3; width++ {
		for i := 0; i+width < len(bk); i++ {
			c.setBounds(bk[i], bk[i+width])
			c.scanForward("bounded-mismatch", false)
			if c.fl != nil {
				return finish()
			}
		}
		for i := len(bk) - 1 - width; i >= 0; i-- {
			c.setBounds(bk[i], bk[i+width])
			c.scanBackward("bounded-mismatch", false)
			if c.fl != nil {
				return finish()
			}
		}
	}
	c.setBounds(nil, nil)
	// (7) a fresh iterator per bound pair through Reader.NewIter (bounds given at creation).
	c.it.Close()
	c.it = nil
	for li := 0; li < len(bk); li += 2 {
		for ui := li + 1; ui < len(bk); ui += 3 {
			it2, err := r.NewIter(sstable.NoTransforms, bk[li], bk[ui], sstable.AssertNoBlobHandles)
			if err != nil {
				return fail(&failure{"open-error", fmt.Sprintf("NewIter: %v", err)})
			}
			c.it, c.lower, c.upper = it2, bk[li], bk[ui]
			c.scanForward("bounded-mismatch", false)
			c.scanBackward("bounded-mismatch", false)
			c.seeks("bounded-mismatch", bk, true)
			c.it.Close()
			c.it = nil
			if c.fl != nil {
				return finish()
			}
		}
	}
	return finish()
}

func hashBytes(b []byte) uint64 {
	h := uint64(14695981039346656037)
	for _, c := range b {
		h = (h ^ uint64(c)) * 1099511628211
	}
	return h
}
