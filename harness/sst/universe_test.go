// Shared by C25 and C27: the key universe, the writer-option space, the table builder (raw writer)
// and the sorted-list model.
package sst

import (
	"context"
	"fmt"
	"math/bits"
	"sort"
	"strings"

	"github.com/cockroachdb/pebble/internal/base"
	"github.com/cockroachdb/pebble/internal/keyspan"
	"github.com/cockroachdb/pebble/internal/testkeys"
	"github.com/cockroachdb/pebble/objstorage"
	"github.com/cockroachdb/pebble/sstable"
	"github.com/cockroachdb/pebble/sstable/block"
	"github.com/cockroachdb/pebble/sstable/colblk"
	"github.com/cockroachdb/pebble/sstable/tablefilters"
	"github.com/cockroachdb/pebble/sstable/tablefilters/binaryfuse"
	"github.com/cockroachdb/pebble/sstable/tablefilters/bloom"
)

var cmp = testkeys.Comparer.Compare
var split = testkeys.Comparer.Split

// One key schema shared by every writer and reader (Appendix A: columnar formats need the same
// KeySchema on both sides).
var keySchema = colblk.DefaultKeySchema(testkeys.Comparer, 16)
var keySchemas = sstable.MakeKeySchemas(&keySchema)

// ---------------------------------------------------------------------------------------------
// Universe

type ent struct {
	U    string
	Seq  uint64
	Kind base.InternalKeyKind
	Val  []byte
}

func (e ent) String() string {
	v := string(e.Val)
	if len(v) > 12 {
		v = fmt.Sprintf("<%d bytes %08x>", len(v), hash32(e.Val))
	}
	return fmt.Sprintf("%s#%d,%s=%q", e.U, e.Seq, e.Kind, v)
}

func hash32(b []byte) uint32 {
	h := uint32(2166136261)
	for _, c := range b {
		h = (h ^ uint32(c)) * 16777619
	}
	return h
}

func pattern(n int, salt int) []byte {
	b := make([]byte, n)
	for i := range b {
		b[i] = byte('a' + (i*7+i/13+salt)%26)
	}
	return b
}

// The point universe, in internal-key order (user key ascending by testkeys.Comparer, then sequence
// number descending). Prefixes b, bc, bcd share bytes; prefix b has four versions (one without a
// suffix); user keys b@5, bc@7 and c@2 have two internal versions each.
var universe = []ent{
	{"b", 20, base.InternalKeyKindSet, []byte("vb")},           // bare prefix key
	{"b@9", 18, base.InternalKeyKindSet, []byte("v-b9")},       // short
	{"b@5", 17, base.InternalKeyKindSet, pattern(100, 0)},      // multi-block for block sizes 1/32; value-block eligible after a SET of prefix b
	{"b@5", 11, base.InternalKeyKindDelete, nil},               // older version of the same user key
	{"b@1", 15, base.InternalKeyKindMerge, []byte("m")},        // MERGE
	{"bc@7", 14, base.InternalKeyKindSet, []byte{}},            // empty value
	{"bc@7", 6, base.InternalKeyKindSingleDelete, nil},         // SINGLEDEL below a SET
	{"bc@3", 13, base.InternalKeyKindSet, []byte("v-bc3")},     // value-block eligible directly after SET bc@7
	{"bcd@4", 12, base.InternalKeyKindSet, pattern(300, 5)},    // multi-block
	{"c@2", 10, base.InternalKeyKindSet, []byte("vc")},         //
	{"c@2", 5, base.InternalKeyKindSet, pattern(40, 11)},       // same user key, older SET: value-block eligible
}

// Seek probes: every universe user key and keys in every gap (all valid testkeys).
var probes = []string{
	"a", "b", "b@10", "b@9", "b@7", "b@5", "b@3", "b@1", "b@0", "bb", "bc", "bc@9", "bc@7", "bc@5",
	"bc@3", "bc@1", "bcc", "bcd", "bcd@9", "bcd@4", "bcd@1", "bd", "c", "c@5", "c@2", "c@1", "d",
}

// Bound candidates (a subset of the probes: all universe user keys and one key per prefix gap).
var boundKeys = []string{
	"a", "b", "b@9", "b@7", "b@5", "b@1", "bb", "bc@7", "bc@3", "bcc", "bcd@4", "bd", "c@2", "d",
}

// Prefixes for SeekPrefixGE: present and absent ones.
var prefixProbes = []string{"a", "b", "bb", "bc", "bcd", "bd", "c", "d"}

type mkey struct {
	Seq    uint64
	Kind   base.InternalKeyKind
	Suffix string
	Value  string
}

type mspan struct {
	Start, End string
	Keys       []mkey // trailer descending
}

func (s mspan) String() string {
	var b strings.Builder
	fmt.Fprintf(&b, "[%s,%s){", s.Start, s.End)
	for i, k := range s.Keys {
		if i > 0 {
			b.WriteByte(' ')
		}
		fmt.Fprintf(&b, "#%d,%s", k.Seq, k.Kind)
		if k.Suffix != "" || k.Value != "" {
			fmt.Fprintf(&b, "(%s=%s)", k.Suffix, k.Value)
		}
	}
	b.WriteByte('}')
	return b.String()
}

// Range tombstone universe: fragmented, T1 abuts T2; T2 carries two sequence numbers.
var rdUniverse = []mspan{
	{"b", "b@5", []mkey{{Seq: 9, Kind: base.InternalKeyKindRangeDelete}}},
	{"b@5", "bcd", []mkey{{Seq: 16, Kind: base.InternalKeyKindRangeDelete}, {Seq: 3, Kind: base.InternalKeyKindRangeDelete}}},
}

// Range key universe: one span with two SETs sharing a sequence number, an UNSET and a DEL.
var rkUniverse = []mspan{
	{"b@9", "c", []mkey{
		{Seq: 19, Kind: base.InternalKeyKindRangeKeySet, Suffix: "@5", Value: "rk5"},
		{Seq: 19, Kind: base.InternalKeyKindRangeKeySet, Suffix: "@3", Value: ""},
		{Seq: 8, Kind: base.InternalKeyKindRangeKeyUnset, Suffix: "@1"},
		{Seq: 2, Kind: base.InternalKeyKindRangeKeyDelete},
	}},
	// a RANGEKEYDEL that is NEWER than other keys of its fragment (what a flush writes when a
	// snapshot sits between them), followed by two older sequence-number groups
	{"c", "d", []mkey{
		{Seq: 12, Kind: base.InternalKeyKindRangeKeyDelete},
		{Seq: 9, Kind: base.InternalKeyKindRangeKeySet, Suffix: "@4", Value: "x"},
		{Seq: 9, Kind: base.InternalKeyKindRangeKeyUnset, Suffix: "@2"},
		{Seq: 4, Kind: base.InternalKeyKindRangeKeySet, Suffix: "@4", Value: "old"},
	}},
}

// ---------------------------------------------------------------------------------------------
// Writer options

type Opts struct {
	TF     int    `json:"tf"`  // sstable.TableFormat
	BS     int    `json:"bs"`  // block size
	IBS    int    `json:"ibs"` // index block size
	RI     int    `json:"ri"`  // restart interval
	Comp   string `json:"comp"`
	Filter string `json:"filter"`
	NoVB   bool   `json:"novb"`
}

func (o Opts) String() string {
	return fmt.Sprintf("format=%s block=%d index-block=%d restart=%d compression=%s filter=%s disable-value-blocks=%v",
		sstable.TableFormat(o.TF), o.BS, o.IBS, o.RI, o.Comp, o.Filter, o.NoVB)
}

var compressions = map[string]*block.CompressionProfile{
	"none": block.NoCompression, "snappy": block.SnappyCompression, "zstd": block.ZstdCompression, "minlz": block.MinLZCompression,
}

func filterPolicy(name string) base.TableFilterPolicy {
	switch name {
	case "none":
		return base.NoFilterPolicy
	case "bloom":
		return bloom.FilterPolicy(10)
	case "fuse":
		return binaryfuse.FilterPolicy(8)
	}
	panic("unknown filter " + name)
}

func (o Opts) writerOptions() sstable.WriterOptions {
	return sstable.WriterOptions{
		TableFormat:          sstable.TableFormat(o.TF),
		BlockSize:            o.BS,
		IndexBlockSize:       o.IBS,
		BlockRestartInterval: o.RI,
		Compression:          compressions[o.Comp],
		FilterPolicy:         filterPolicy(o.Filter),
		DisableValueBlocks:   o.NoVB,
		Comparer:             testkeys.Comparer,
		KeySchema:            &keySchema,
	}
}

// Every table format the sstable package writes.
func allFormats() []int {
	var f []int
	for tf := sstable.TableFormatLevelDB; tf <= sstable.TableFormatMax; tf++ {
		f = append(f, int(tf))
	}
	return f
}

// Two base option sets; deviations change one dimension to another value of its domain.
var baseA = Opts{TF: int(sstable.TableFormatMax), BS: 32, IBS: 1, RI: 16, Comp: "snappy", Filter: "bloom"}
var baseB = Opts{TF: int(sstable.TableFormatPebblev4), BS: 4096, IBS: 4096, RI: 1, Comp: "none", Filter: "none"}

type deviation struct {
	dim   int
	apply func(o *Opts)
	name  string
}

func deviations(b Opts) []deviation {
	var d []deviation
	for _, tf := range allFormats() {
		if tf != b.TF {
			tf := tf
			d = append(d, deviation{0, func(o *Opts) { o.TF = tf }, "format"})
		}
	}
	for _, v := range []int{1, 32, 4096} {
		if v != b.BS {
			v := v
			d = append(d, deviation{1, func(o *Opts) { o.BS = v }, "block"})
		}
	}
	for _, v := range []int{1, 4096} {
		if v != b.IBS {
			v := v
			d = append(d, deviation{2, func(o *Opts) { o.IBS = v }, "index-block"})
		}
	}
	for _, v := range []int{1, 16} {
		if v != b.RI {
			v := v
			d = append(d, deviation{3, func(o *Opts) { o.RI = v }, "restart"})
		}
	}
	for _, v := range []string{"none", "snappy", "zstd", "minlz"} {
		if v != b.Comp {
			v := v
			d = append(d, deviation{4, func(o *Opts) { o.Comp = v }, "compression"})
		}
	}
	for _, v := range []string{"none", "bloom", "fuse"} {
		if v != b.Filter {
			v := v
			d = append(d, deviation{5, func(o *Opts) { o.Filter = v }, "filter"})
		}
	}
	d = append(d, deviation{6, func(o *Opts) { o.NoVB = !o.NoVB }, "value-blocks"})
	return d
}

// optionSets returns, simplest first: the bases, then base + 1 deviation, then base + 2 deviations
// in different dimensions (maxDev = 2), without duplicates.
func optionSets(maxDev int) []Opts {
	seen := map[Opts]bool{}
	var out []Opts
	add := func(o Opts) {
		if !seen[o] {
			seen[o] = true
			out = append(out, o)
		}
	}
	bases := []Opts{baseA, baseB}
	for _, b := range bases {
		add(b)
	}
	for _, b := range bases {
		for _, d := range deviations(b) {
			o := b
			d.apply(&o)
			add(o)
		}
	}
	if maxDev >= 2 {
		for _, b := range bases {
			ds := deviations(b)
			for i := range ds {
				for j := i + 1; j < len(ds); j++ {
					if ds[i].dim == ds[j].dim {
						continue
					}
					o := b
					ds[i].apply(&o)
					ds[j].apply(&o)
					add(o)
				}
			}
		}
	}
	return out
}

// subsets returns every mask over n bits with popcount <= k, smaller sets first.
func subsets(n, k int) []uint32 {
	var out []uint32
	for m := uint32(0); m < 1<<uint(n); m++ {
		if bits.OnesCount32(m) <= k {
			out = append(out, m)
		}
	}
	sort.SliceStable(out, func(i, j int) bool { return bits.OnesCount32(out[i]) < bits.OnesCount32(out[j]) })
	return out
}

// ---------------------------------------------------------------------------------------------
// Table spec, builder, model

type TableSpec struct {
	Points uint32 `json:"points"` // mask over universe
	RD     uint32 `json:"rd"`     // mask over rdUniverse
	RK     uint32 `json:"rk"`     // mask over rkUniverse
	O      Opts   `json:"opts"`
}

func (s TableSpec) ents() []ent {
	var out []ent
	for i, e := range universe {
		if s.Points&(1<<uint(i)) != 0 {
			out = append(out, e)
		}
	}
	return out
}

func pick(u []mspan, mask uint32) []mspan {
	var out []mspan
	for i, e := range u {
		if mask&(1<<uint(i)) != 0 {
			out = append(out, e)
		}
	}
	return out
}

func (s TableSpec) String() string {
	var b strings.Builder
	b.WriteString("points{")
	for i, e := range s.ents() {
		if i > 0 {
			b.WriteString("  ")
		}
		b.WriteString(e.String())
	}
	b.WriteString("} rangedels{")
	for _, sp := range pick(rdUniverse, s.RD) {
		b.WriteString(sp.String())
	}
	b.WriteString("} rangekeys{")
	for _, sp := range pick(rkUniverse, s.RK) {
		b.WriteString(sp.String())
	}
	b.WriteString("} ")
	b.WriteString(s.O.String())
	return b.String()
}

func toSpan(m mspan) keyspan.Span {
	sp := keyspan.Span{Start: []byte(m.Start), End: []byte(m.End)}
	for _, k := range m.Keys {
		key := keyspan.Key{Trailer: base.MakeTrailer(base.SeqNum(k.Seq), k.Kind)}
		if k.Kind == base.InternalKeyKindRangeKeySet || k.Kind == base.InternalKeyKindRangeKeyUnset {
			key.Suffix = []byte(k.Suffix)
		}
		if k.Kind == base.InternalKeyKindRangeKeySet {
			key.Value = []byte(k.Value)
		}
		sp.Keys = append(sp.Keys, key)
	}
	return sp
}

// build writes the table with the raw writer and returns the file bytes.
func build(s TableSpec) (data []byte, meta *sstable.WriterMetadata, err error) {
	obj := &objstorage.MemObj{}
	w := sstable.NewRawWriter(obj, s.O.writerOptions())
	closed := false
	defer func() {
		if !closed {
			_ = w.Close()
		}
	}()
	for _, e := range s.ents() {
		if err = w.Add(base.MakeInternalKey([]byte(e.U), base.SeqNum(e.Seq), e.Kind), e.Val, false, base.KVMeta{}); err != nil {
			return nil, nil, err
		}
	}
	for _, sp := range pick(rdUniverse, s.RD) {
		if err = w.EncodeSpan(toSpan(sp)); err != nil {
			return nil, nil, err
		}
	}
	for _, sp := range pick(rkUniverse, s.RK) {
		if err = w.EncodeSpan(toSpan(sp)); err != nil {
			return nil, nil, err
		}
	}
	closed = true
	if err = w.Close(); err != nil {
		return nil, nil, err
	}
	meta, err = w.Metadata()
	if err != nil {
		return nil, nil, err
	}
	return obj.Data(), meta, nil
}

// memReadable serves a byte slice (not copied) as an objstorage.Readable.
type memReadable struct{ data []byte }

func (m *memReadable) ReadAt(_ context.Context, p []byte, off int64) error {
	if off < 0 || off+int64(len(p)) > int64(len(m.data)) {
		return fmt.Errorf("read past the end of object")
	}
	copy(p, m.data[off:])
	return nil
}
func (m *memReadable) Close() error { return nil }
func (m *memReadable) Size() int64  { return int64(len(m.data)) }
func (m *memReadable) NewReadHandle(objstorage.ReadBeforeSize) objstorage.ReadHandle {
	return (*memReadHandle)(m)
}

type memReadHandle memReadable

func (h *memReadHandle) ReadAt(ctx context.Context, p []byte, off int64) error {
	return (*memReadable)(h).ReadAt(ctx, p, off)
}
func (h *memReadHandle) Close() error                                 { return nil }
func (h *memReadHandle) SetupForCompaction()                          {}
func (h *memReadHandle) RecordCacheHit(context.Context, int64, int64) {}

// openTable opens a reader on the bytes: no block cache at all, so every block access re-reads and
// re-validates the block.
func openTable(data []byte, fm *sstable.FilterMetricsTracker) (*sstable.Reader, error) {
	return sstable.NewReader(context.Background(), &memReadable{data}, sstable.ReaderOptions{
		Comparer:             testkeys.Comparer,
		KeySchemas:           keySchemas,
		FilterDecoders:       tablefilters.Decoders,
		FilterMetricsTracker: fm,
	})
}

// Sorted-list model of the points.
type model struct {
	ents []ent
	keys [][]byte // user keys of ents
}

func newModel(ents []ent) *model {
	m := &model{ents: ents, keys: make([][]byte, len(ents))}
	for i, e := range ents {
		m.keys[i] = []byte(e.U)
	}
	return m
}

// seekGE: first entry with user key >= k; -1 if none or if it is >= upper.
func (m *model) seekGE(k []byte, upper []byte) int {
	for i, u := range m.keys {
		if cmp(u, k) >= 0 {
			if upper != nil && cmp(u, upper) >= 0 {
				return -1
			}
			return i
		}
	}
	return -1
}

// seekLT: last entry with user key < k; -1 if none or if it is < lower.
func (m *model) seekLT(k []byte, lower []byte) int {
	for i := len(m.keys) - 1; i >= 0; i-- {
		u := m.keys[i]
		if cmp(u, k) < 0 {
			if lower != nil && cmp(u, lower) < 0 {
				return -1
			}
			return i
		}
	}
	return -1
}

func (m *model) inBounds(i int, lower, upper []byte) bool {
	if i < 0 || i >= len(m.ents) {
		return false
	}
	u := m.keys[i]
	return (lower == nil || cmp(u, lower) >= 0) && (upper == nil || cmp(u, upper) < 0)
}

func prefixOf(k []byte) []byte { return k[:split(k)] }


// canonical form of a span read back from a fragment iterator.
func canonSpan(s *keyspan.Span) mspan {
	out := mspan{Start: string(s.Start), End: string(s.End)}
	for _, k := range s.Keys {
		out.Keys = append(out.Keys, mkey{Seq: uint64(k.SeqNum()), Kind: k.Kind(), Suffix: string(k.Suffix), Value: string(k.Value)})
	}
	sortKeys(out.Keys)
	return out
}

func sortKeys(ks []mkey) {
	sort.SliceStable(ks, func(i, j int) bool {
		a, b := ks[i], ks[j]
		if a.Seq != b.Seq {
			return a.Seq > b.Seq
		}
		if a.Kind != b.Kind {
			return a.Kind > b.Kind
		}
		if a.Suffix != b.Suffix {
			return a.Suffix < b.Suffix
		}
		return a.Value < b.Value
	})
}

func canonModelSpan(s mspan) mspan {
	out := mspan{Start: s.Start, End: s.End, Keys: append([]mkey(nil), s.Keys...)}
	sortKeys(out.Keys)
	return out
}

func spanEq(a, b mspan) bool {
	if a.Start != b.Start || a.End != b.End || len(a.Keys) != len(b.Keys) {
		return false
	}
	for i := range a.Keys {
		if a.Keys[i] != b.Keys[i] {
			return false
		}
	}
	return true
}
