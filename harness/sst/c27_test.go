// C27: corrupted table and blob files never yield wrong data.
//
// A fixed plan of read operations (open, properties, forward and backward scan, SeekGE / SeekLT /
// SeekPrefixGE at every universe key, raw range-del and range-key iterators; for blob files: every
// value fetched by handle) is run on the intact file (baseline) and on the file with one byte
// changed. Every operation group of the corrupted run must either equal the baseline or report an
// error; what an operation group returned before it reported an error must be a prefix of the
// baseline. No cache is used, so every block access re-reads and re-validates the block.
package sst

import (
	"context"
	"encoding/hex"
	"fmt"
	"runtime/debug"
	"strings"
	"sync"

	"github.com/cockroachdb/pebble/internal/base"
	"github.com/cockroachdb/pebble/internal/keyspan"
	"github.com/cockroachdb/pebble/internal/verif/vlib"
	"github.com/cockroachdb/pebble/objstorage"
	"github.com/cockroachdb/pebble/sstable"
	"github.com/cockroachdb/pebble/sstable/blob"
	"github.com/cockroachdb/pebble/sstable/block"
)

type Corruption struct {
	Kind    string      `json:"kind"` // sst | blob
	Name    string      `json:"name"`
	Legacy  bool        `json:"legacy,omitempty"`
	FileHex string      `json:"file_hex"` // the intact file
	Off     int         `json:"offset"`
	Pat     string      `json:"pattern"` // xor01 | xor80 | xorff | zero
	Handles [][2]uint32 `json:"handles,omitempty"`
}

var patterns = []string{"xor01", "xor80", "xorff", "zero"}

func applyPattern(b byte, pat string) byte {
	switch pat {
	case "xor01":
		return b ^ 0x01
	case "xor80":
		return b ^ 0x80
	case "xorff":
		return b ^ 0xff
	case "zero":
		return 0
	}
	panic("unknown pattern " + pat)
}

type group struct {
	name  string
	items []string
	err   string
}

type observation struct {
	openErr string
	groups  []group
}

const maxItems = 64

func kvItem(kv *base.InternalKV) (string, error) {
	v, _, err := kv.Value(nil)
	if err != nil {
		return "", err
	}
	return fmt.Sprintf("%q#%d,%d=%x", kv.K.UserKey, kv.K.SeqNum(), kv.K.Kind(), v), nil
}

func spanItem(s *keyspan.Span) string {
	var b strings.Builder
	fmt.Fprintf(&b, "%q-%q:", s.Start, s.End)
	for _, k := range s.Keys {
		fmt.Fprintf(&b, "{%d,%d,%q,%q}", k.SeqNum(), k.Kind(), k.Suffix, k.Value)
	}
	return b.String()
}

// observeSST runs the read plan on a table file. Panics propagate to the caller.
func observeSST(data []byte) (o observation) {
	ctx := context.Background()
	r, err := openTable(data, nil)
	if err != nil {
		o.openErr = err.Error()
		return o
	}
	defer r.Close()
	add := func(g group) { o.groups = append(o.groups, g) }

	g := group{name: "properties"}
	if p, err := r.ReadPropertiesBlock(ctx, nil); err != nil {
		g.err = err.Error()
	} else {
		tf, _ := r.TableFormat()
		g.items = []string{fmt.Sprintf("format=%s entries=%d deletions=%d rangedels=%d merges=%d datablocks=%d valuesinvalueblocks=%d rksets=%d comparer=%s filter=%s schema=%s indextype=%d partitions=%d",
			tf, p.NumEntries, p.NumDeletions, p.NumRangeDeletions, p.NumMergeOperands, p.NumDataBlocks, p.NumValuesInValueBlocks,
			p.NumRangeKeySets, p.ComparerName, p.FilterFamily, p.KeySchemaName, p.IndexType, p.IndexPartitions)}
	}
	add(g)

	it, iterErr := r.NewPointIter(ctx, sstable.IterOptions{
		FilterBlockSizeLimit: sstable.AlwaysUseFilterBlock,
		ReaderProvider:       sstable.MakeTrivialReaderProvider(r),
		BlobContext:          sstable.AssertNoBlobHandles,
	})
	if iterErr == nil {
		defer it.Close()
	}
	// one positioned result
	single := func(name string, f func() *base.InternalKV) {
		g := group{name: name}
		if iterErr != nil {
			g.err = iterErr.Error()
			add(g)
			return
		}
		kv := f()
		if kv == nil {
			if err := it.Error(); err != nil {
				g.err = err.Error()
			} else {
				g.items = []string{"<nil>"}
			}
		} else if s, err := kvItem(kv); err != nil {
			g.err = err.Error()
		} else {
			g.items = []string{s}
		}
		add(g)
	}
	scan := func(name string, first, next func() *base.InternalKV) {
		g := group{name: name}
		if iterErr != nil {
			g.err = iterErr.Error()
			add(g)
			return
		}
		kv := first()
		for kv != nil && len(g.items) < maxItems {
			s, err := kvItem(kv)
			if err != nil {
				g.err = err.Error()
				break
			}
			g.items = append(g.items, s)
			kv = next()
		}
		if kv == nil && g.err == "" {
			if err := it.Error(); err != nil {
				g.err = err.Error()
			}
		}
		add(g)
	}
	scan("forward-scan", func() *base.InternalKV { return it.First() }, func() *base.InternalKV { return it.Next() })
	scan("backward-scan", func() *base.InternalKV { return it.Last() }, func() *base.InternalKV { return it.Prev() })
	for _, p := range probes {
		k := []byte(p)
		single("SeekGE("+p+")", func() *base.InternalKV { return it.SeekGE(k, base.SeekGEFlagsNone) })
		single("SeekLT("+p+")", func() *base.InternalKV { return it.SeekLT(k, base.SeekLTFlagsNone) })
	}
	for _, p := range prefixProbes {
		k := []byte(p)
		single("SeekPrefixGE("+p+")", func() *base.InternalKV { return it.SeekPrefixGE(k, k, base.SeekGEFlagsNone) })
	}
	spans := func(name string, mk func() (keyspan.FragmentIterator, error)) {
		g := group{name: name}
		fi, err := mk()
		if err != nil {
			g.err = err.Error()
			add(g)
			return
		}
		if fi == nil {
			g.items = []string{"<no block>"}
			add(g)
			return
		}
		defer fi.Close()
		s, err := fi.First()
		for s != nil && err == nil && len(g.items) < maxItems {
			g.items = append(g.items, spanItem(s))
			s, err = fi.Next()
		}
		if err != nil {
			g.err = err.Error()
		}
		add(g)
	}
	spans("range-dels", func() (keyspan.FragmentIterator, error) {
		return r.NewRawRangeDelIter(ctx, sstable.NoFragmentTransforms, sstable.NoReadEnv)
	})
	spans("range-keys", func() (keyspan.FragmentIterator, error) {
		return r.NewRawRangeKeyIter(ctx, sstable.NoFragmentTransforms, sstable.NoReadEnv)
	})
	return o
}

// ---- blob files ----

type BlobSpec struct {
	Format int
	Comp   string
	BS     int
}

func (b BlobSpec) String() string {
	return fmt.Sprintf("blob file format=%s compression=%s block=%d", blob.FileFormat(b.Format), b.Comp, b.BS)
}

var blobValues = [][]byte{
	[]byte("v"), []byte("short-value"), pattern(100, 3), []byte("second"), pattern(300, 9), []byte("x"), pattern(40, 1), []byte("last-value"),
	// values of EQUAL length in different blocks: a value sliced out of the wrong (stale) block
	// passes every length check
	pattern(40, 2), []byte("w"), pattern(100, 4), pattern(300, 5),
}

func buildBlob(s BlobSpec) ([]byte, [][2]uint32, error) {
	obj := &objstorage.MemObj{}
	w := blob.NewFileWriter(base.DiskFileNum(7), obj, blob.FileWriterOptions{
		Format:        blob.FileFormat(s.Format),
		Compression:   compressions[s.Comp],
		FlushGovernor: block.MakeFlushGovernor(s.BS, 90, 0, nil),
	})
	var hs [][2]uint32
	for _, v := range blobValues {
		h := w.AddValue(v, false)
		hs = append(hs, [2]uint32{uint32(h.BlockID), uint32(h.ValueID)})
	}
	if _, err := w.Close(); err != nil {
		return nil, nil, err
	}
	return obj.Data(), hs, nil
}

type identityMapping struct{}

func (identityMapping) Lookup(id base.BlobFileID) (base.ObjectInfo, bool) {
	return base.ObjectInfoLiteral{FileType: base.FileTypeBlob, DiskFileNum: base.DiskFileNum(id)}, true
}

type oneReader struct{ r *blob.FileReader }

func (p oneReader) GetValueReader(context.Context, base.ObjectInfo, block.InitFileReadStats) (blob.ValueReader, func(), error) {
	return p.r, func() {}, nil
}

func observeBlob(data []byte, handles [][2]uint32) (o observation) {
	ctx := context.Background()
	r, err := blob.NewFileReader(ctx, &memReadable{data}, blob.FileReaderOptions{})
	if err != nil {
		o.openErr = err.Error()
		return o
	}
	defer r.Close()
	g := group{name: "properties"}
	if p, err := r.ReadProperties(ctx); err != nil {
		g.err = err.Error()
	} else {
		g.items = []string{fmt.Sprintf("format=%s %s", r.FormatVersion(), p.String())}
	}
	o.groups = append(o.groups, g)
	// all values through one fetcher (keeps the current block between fetches)
	g = group{name: "fetch-all"}
	func() {
		var f blob.ValueFetcher
		f.Init(identityMapping{}, oneReader{r}, block.ReadEnv{}, 1)
		defer f.Close()
		for _, h := range handles {
			v, _, err := f.Fetch(ctx, base.BlobFileID(7), blob.BlockID(h[0]), blob.BlockValueID(h[1]))
			if err != nil {
				g.err = err.Error()
				return
			}
			g.items = append(g.items, fmt.Sprintf("%x", v))
		}
	}()
	o.groups = append(o.groups, g)
	// all values through ONE fetcher that keeps going after errors: every handle is fetched twice in
	// a row (a caller retrying after an error), in handle order and then in reverse order; whatever a
	// failed read leaves behind in the fetcher must not make a later fetch return another block's
	// bytes. One group per (handle, attempt): each either reports an error or equals the baseline.
	func() {
		var f blob.ValueFetcher
		f.Init(identityMapping{}, oneReader{r}, block.ReadEnv{}, 1)
		defer f.Close()
		order := make([]int, 0, 2*len(handles))
		for i := range handles {
			order = append(order, i)
		}
		for i := len(handles) - 1; i >= 0; i-- {
			order = append(order, i)
		}
		for pos, i := range order {
			h := handles[i]
			for attempt := 1; attempt <= 2; attempt++ {
				g := group{name: fmt.Sprintf("sticky-fetcher step %d attempt %d: fetch(block %d, value %d)", pos, attempt, h[0], h[1])}
				v, _, err := f.Fetch(ctx, base.BlobFileID(7), blob.BlockID(h[0]), blob.BlockValueID(h[1]))
				if err != nil {
					g.err = err.Error()
				} else {
					g.items = append(g.items, fmt.Sprintf("%x", v))
				}
				o.groups = append(o.groups, g)
			}
		}
	}()
	// every value through a fresh fetcher
	for i, h := range handles {
		g := group{name: fmt.Sprintf("fetch(block %d, value %d)", h[0], h[1])}
		func() {
			var f blob.ValueFetcher
			f.Init(identityMapping{}, oneReader{r}, block.ReadEnv{}, 1)
			defer f.Close()
			v, _, err := f.Fetch(ctx, base.BlobFileID(7), blob.BlockID(h[0]), blob.BlockValueID(h[1]))
			if err != nil {
				g.err = err.Error()
				return
			}
			g.items = append(g.items, fmt.Sprintf("%x", v))
		}()
		_ = i
		o.groups = append(o.groups, g)
	}
	return o
}

// ---- comparison ----

// judge compares a corrupted run with the baseline.
// outcome: identical | error-at-open | error-at-read | silent-difference | wrong-data-before-error
func judge(baseO, got observation) (outcome, detail string) {
	if got.openErr != "" {
		return "error-at-open", got.openErr
	}
	if len(got.groups) != len(baseO.groups) {
		return "silent-difference", fmt.Sprintf("%d operation groups instead of %d", len(got.groups), len(baseO.groups))
	}
	firstErr := ""
	for i := range got.groups {
		b, g := baseO.groups[i], got.groups[i]
		if g.err != "" {
			if firstErr == "" {
				firstErr = g.name + ": " + g.err
			}
			if len(g.items) > len(b.items) {
				return "wrong-data-before-error", fmt.Sprintf("%s returned %d results %v and then the error %q; intact file: %v", g.name, len(g.items), g.items, g.err, b.items)
			}
			for j := range g.items {
				if g.items[j] != b.items[j] {
					return "wrong-data-before-error", fmt.Sprintf("%s returned %v and then the error %q; intact file: %v", g.name, g.items, g.err, b.items)
				}
			}
			continue
		}
		same := len(g.items) == len(b.items)
		for j := 0; same && j < len(g.items); j++ {
			same = g.items[j] == b.items[j]
		}
		if !same {
			return "silent-difference", fmt.Sprintf("%s returned %v without any error; intact file: %v", g.name, g.items, b.items)
		}
	}
	if firstErr != "" {
		return "error-at-read", firstErr
	}
	return "identical", ""
}

func errKind(msg string) string {
	switch {
	case strings.Contains(msg, "checksum mismatch"), strings.Contains(msg, "footer checksum"), strings.Contains(msg, "footer corrupted"):
		return "checksum"
	default:
		return "other"
	}
}

type cfile struct {
	tf      int
	short   string
	kind    string // sst | blob
	legacy  bool
	name    string
	data    []byte
	handles [][2]uint32
	baseO   observation
}

func (f *cfile) observe(data []byte) observation {
	if f.kind == "blob" {
		return observeBlob(data, f.handles)
	}
	return observeSST(data)
}

// runOne evaluates one corruption. data is a private copy of the intact file.
func runOne(f *cfile, data []byte, off int, pat string) (outcome, detail string) {
	orig := data[off]
	nb := applyPattern(orig, pat)
	if nb == orig {
		return "noop", ""
	}
	data[off] = nb
	defer func() { data[off] = orig }()
	defer func() {
		if r := recover(); r != nil {
			outcome, detail = "panic", fmt.Sprintf("panic: %v\n%s", r, debug.Stack())
		}
	}()
	got := f.observe(data)
	return judge(f.baseO, got)
}

func mask(idx ...int) uint32 {
	var m uint32
	for _, i := range idx {
		m |= 1 << uint(i)
	}
	return m
}

// The C27 file list.
func c27Files(thorough bool) ([]*cfile, error) {
	type ks struct {
		name       string
		points     uint32
		rd, rk     uint32
	}
	kFull := ks{"six points of three prefixes, two tombstones, one range-key span", mask(0, 1, 2, 3, 5, 9), 3, 1}
	kVals := ks{"seven points with large and value-block values, one tombstone", mask(1, 2, 5, 7, 8, 9, 10), 2, 0}
	kSmall := ks{"two points", mask(1, 9), 0, 0}
	o1 := Opts{BS: 32, IBS: 1, RI: 16, Comp: "snappy", Filter: "bloom"}
	o2 := Opts{BS: 4096, IBS: 4096, RI: 16, Comp: "none", Filter: "none"}
	o3 := Opts{BS: 1, IBS: 4096, RI: 1, Comp: "zstd", Filter: "fuse"}
	o4 := Opts{BS: 32, IBS: 1, RI: 16, Comp: "minlz", Filter: "bloom", NoVB: true}
	o5 := Opts{BS: 4096, IBS: 1, RI: 1, Comp: "snappy", Filter: "bloom"}
	type pair struct {
		k ks
		o Opts
	}
	var cur, leg []pair
	if !thorough {
		cur = []pair{{kFull, o1}, {kFull, o2}, {kFull, o3}, {kVals, o4}, {kVals, o5}, {kSmall, o2}}
		leg = []pair{{kFull, o1}}
	} else {
		for _, k := range []ks{kFull, kVals, kSmall} {
			for _, o := range []Opts{o1, o2, o3, o4, o5} {
				cur = append(cur, pair{k, o})
			}
		}
		leg = []pair{{kFull, o1}, {kVals, o2}, {kFull, o3}, {kVals, o4}, {kSmall, o2}}
	}
	var files []*cfile
	addSST := func(p pair, tf sstable.TableFormat, legacy bool) error {
		spec := TableSpec{Points: p.k.points, RD: p.k.rd, RK: p.k.rk, O: p.o}
		spec.O.TF = int(tf)
		if tf < sstable.TableFormatPebblev2 {
			spec.RK = 0
		}
		data, _, err := build(spec)
		if err != nil {
			return fmt.Errorf("building %s: %v", spec, err)
		}
		files = append(files, &cfile{kind: "sst", legacy: legacy, name: spec.String(), data: data, tf: int(tf), short: p.k.name})
		return nil
	}
	for tf := sstable.TableFormatPebblev6; tf <= sstable.TableFormatMax; tf++ {
		for _, p := range cur {
			if err := addSST(p, tf, false); err != nil {
				return nil, err
			}
		}
	}
	blobs := []BlobSpec{{int(blob.FileFormatV1), "snappy", 64}, {int(blob.FileFormatV2), "none", 64}}
	if thorough {
		blobs = append(blobs, BlobSpec{int(blob.FileFormatV1), "none", 4096}, BlobSpec{int(blob.FileFormatV2), "snappy", 64},
			BlobSpec{int(blob.FileFormatV2), "zstd", 32}, BlobSpec{int(blob.FileFormatV2), "minlz", 128})
	}
	for _, b := range blobs {
		data, hs, err := buildBlob(b)
		if err != nil {
			return nil, fmt.Errorf("building %s: %v", b, err)
		}
		files = append(files, &cfile{kind: "blob", name: b.String(), data: data, handles: hs})
	}
	for tf := sstable.TableFormatLevelDB; tf < sstable.TableFormatPebblev6; tf++ {
		for _, p := range leg {
			if err := addSST(p, tf, true); err != nil {
				return nil, err
			}
		}
	}
	// baselines
	for _, f := range files {
		f.baseO = f.observe(f.data)
		if f.baseO.openErr != "" {
			return nil, fmt.Errorf("intact file %s does not open: %s", f.name, f.baseO.openErr)
		}
		for _, g := range f.baseO.groups {
			if g.err != "" {
				return nil, fmt.Errorf("intact file %s: %s: %s", f.name, g.name, g.err)
			}
		}
	}
	return files, nil
}

func runC27(c *vlib.Ctx) {
	files, err := c27Files(c.Thorough())
	if err != nil {
		c.Incomplete("harness: " + err.Error())
		return
	}
	type item struct{ f, off int }
	var items []item
	var nCur, nBlob, nLeg int
	var bytesCur, bytesBlob, bytesLeg int
	for fi, f := range files {
		for off := range f.data {
			items = append(items, item{fi, off})
		}
		switch {
		case f.legacy:
			nLeg++
			bytesLeg += len(f.data)
		case f.kind == "blob":
			nBlob++
			bytesBlob += len(f.data)
		default:
			nCur++
			bytesCur += len(f.data)
		}
	}
	var rep reporter
	bufPool := sync.Pool{New: func() any { return make([]byte, 0, 8192) }}
	var legacyExamples sync.Map
	done, complete := c.Each(len(items), func(i int) {
		defer debug.SetPanicOnFault(debug.SetPanicOnFault(true))
		it := items[i]
		f := files[it.f]
		buf := append(bufPool.Get().([]byte)[:0], f.data...)
		defer bufPool.Put(buf)
		label := f.kind
		if f.legacy {
			label = "legacy"
		}
		for _, pat := range patterns {
			outcome, detail := runOne(f, buf, it.off, pat)
			c.Eval(1)
			c.Trans(len(f.baseO.groups) + 1)
			key := label + ":" + outcome
			if outcome == "error-at-open" || outcome == "error-at-read" {
				key += "(" + errKind(detail) + ")"
			}
			c.Outcome(key)
			if outcome == "noop" {
				continue
			}
			c.State(vlib.Hash("C27", it.f, outcome, detail))
			if outcome != "error-at-open" && outcome != "panic" {
				c.Nontrivial(vlib.Hash("C27", it.f, it.off, pat))
			}
			bad := outcome == "silent-difference" || outcome == "wrong-data-before-error" || outcome == "panic"
			if !bad {
				continue
			}
			if f.legacy {
				switch outcome {
				case "silent-difference":
					c.NoteAdd("legacy_silent_differences", 1)
				case "wrong-data-before-error":
					c.NoteAdd("legacy_wrong_data_before_error", 1)
				case "panic":
					c.NoteAdd("legacy_panics", 1)
				}
				if _, loaded := legacyExamples.LoadOrStore(fmt.Sprintf("%d/%s", f.tf, outcome), true); !loaded {
					d, _, _ := strings.Cut(detail, "\n")
					if len(d) > 400 {
						d = d[:400]
					}
					c.Note(fmt.Sprintf("legacy_example_%s_format%d", outcome, f.tf), fmt.Sprintf("%s %s: offset %d of %d bytes, %s: %s", sstable.TableFormat(f.tf), f.short, it.off, len(f.data), pat, d))
				}
				continue
			}
			class := f.kind + "-" + outcome
			if rep.ok(class) {
				c.Violation(class, fmt.Sprintf("%s (%d bytes): byte at offset %d changed from %02x to %02x (%s): %s", f.name, len(f.data), it.off, f.data[it.off], applyPattern(f.data[it.off], pat), pat, detail),
					Case{Check: "C27", What: f.name, Corruption: &Corruption{Kind: f.kind, Name: f.name, FileHex: hex.EncodeToString(f.data), Off: it.off, Pat: pat, Handles: f.handles}})
			}
		}
		if i%2503 == 11 {
			o, d := runOne(f, buf, it.off, "xor01")
			if len(d) > 200 {
				d = d[:200]
			}
			c.Sample(map[string]any{"file": f.name, "file_bytes": len(f.data), "offset": it.off, "pattern": "xor01", "outcome": o, "detail": d})
		}
	})
	if !complete {
		c.Incomplete(fmt.Sprintf("budget expired after %d of %d (file, offset) items; files are processed in order: current-format tables, blob files, legacy tables", done, len(items)))
	}
	c.Note("scope", map[string]any{
		"current_format_tables": fmt.Sprintf("%d tables (Pebblev6..%s), %d bytes, every offset x %v", nCur, sstable.TableFormatMax, bytesCur, patterns),
		"blob_files":            fmt.Sprintf("%d blob files, %d bytes, every offset x %v", nBlob, bytesBlob, patterns),
		"legacy_tables":         fmt.Sprintf("%d tables (LevelDB..Pebblev5, information only), %d bytes", nLeg, bytesLeg),
		"operation_groups":      len(files[0].baseO.groups),
	})
	// make sure the note exists even when it is zero
	c.NoteAdd("legacy_silent_differences", 0)
	c.NoteAdd("legacy_panics", 0)
}

func replayC27(c *vlib.Ctx, cs Case) {
	cr := cs.Corruption
	data, err := hex.DecodeString(cr.FileHex)
	if err != nil {
		c.T.Fatal(err)
	}
	f := &cfile{kind: cr.Kind, legacy: cr.Legacy, name: cr.Name, data: data, handles: cr.Handles}
	f.baseO = f.observe(data)
	fmt.Printf("file: %s (%d bytes)\nintact file:\n", cr.Name, len(data))
	for _, g := range f.baseO.groups {
		fmt.Printf("  %s: %v %s\n", g.name, g.items, g.err)
	}
	buf := append([]byte(nil), data...)
	fmt.Printf("corruption: offset %d, %s: %02x -> %02x\n", cr.Off, cr.Pat, data[cr.Off], applyPattern(data[cr.Off], cr.Pat))
	outcome, detail := runOne(f, buf, cr.Off, cr.Pat)
	fmt.Printf("outcome: %s\n%s\n", outcome, detail)
	if outcome == "silent-difference" || outcome == "wrong-data-before-error" || outcome == "panic" {
		fmt.Printf("replay: FAIL class=%s-%s\n", cr.Kind, outcome)
		if !cr.Legacy {
			c.Violation(cr.Kind+"-"+outcome, detail, cs)
		}
	} else {
		fmt.Println("replay: ok")
	}
}
