// C43: I/O faults never cause wrong results or inconsistent state. Engine B (fault enumeration): a
// history runs on a real DB over MemFS behind errorfs; an error is injected at EVERY single FS call
// position (all pairs of positions among the first calls in the thorough tier); every API result is
// an error or the model's answer; a Fatalf is fail-stop (treated as a crash there); after the
// faults stop the live directory and the strict crash image both reopen to a consistent prefix
// that contains everything acknowledged as durable.
package faults

import (
	"fmt"
	"strings"
	"sync"
	"sync/atomic"
	"testing"

	"github.com/cockroachdb/pebble"
	"github.com/cockroachdb/pebble/internal/verif/crashx"
	"github.com/cockroachdb/pebble/internal/verif/hx"
	"github.com/cockroachdb/pebble/internal/verif/vlib"
	"github.com/cockroachdb/pebble/vfs"
	"github.com/cockroachdb/pebble/vfs/errorfs"
)

var universe = []string{"a", "b", "c"}
var bounds = []string{"a", "b", "c", "z"}

func sub(ops ...hx.Op) []hx.Op { return ops }

var (
	setAs   = hx.Op{K: "set", Key: "a", Sync: true}
	setA    = hx.Op{K: "set", Key: "a"}
	setBs   = hx.Op{K: "set", Key: "b", Sync: true}
	delAs   = hx.Op{K: "del", Key: "a", Sync: true}
	mergeB  = hx.Op{K: "merge", Key: "b"}
	flush   = hx.Op{K: "flush"}
	compact = hx.Op{K: "compact"}
	ingB    = hx.Op{K: "ingest", Sub: sub(hx.Op{K: "set", Key: "b"})}
	ingA    = hx.Op{K: "ingest", Sub: sub(hx.Op{K: "set", Key: "a"})}
	exAB    = hx.Op{K: "excise", Key: "a", End: "b"}
	drAC    = hx.Op{K: "delrange", Key: "a", End: "c", Sync: true}
	read    = hx.Op{K: "read"}
	reopen  = hx.Op{K: "reopen"}
	setCs   = hx.Op{K: "set", Key: "c", Sync: true}
	// an ordinary batch whose WAL record spans three 32 KiB blocks: a read fault while the log is
	// replayed can then land in the middle of a record
	padA = hx.Op{K: "batch", Sub: sub(hx.Op{K: "set", Key: "a"}), Pad: 70000, Sync: true}
)

var curated = [][]hx.Op{
	{setAs, setBs, flush, delAs, flush, compact, read},
	{setAs, flush, ingB, read, exAB, read, setBs},
	{setA, mergeB, flush, setAs, compact, read, drAC, flush},
	{setAs, flush, setBs, flush, compact, reopen, read, ingA},
	{setAs, ingA, read, flush, compact, delAs, read},
	{setBs, padA, setCs, reopen, read, delAs, read},
}

type Case struct {
	Cfg    hx.Config `json:"cfg"`
	Hist   []hx.Op   `json:"hist"`
	Faults []int     `json:"faults"` // 1-based positions of FS calls (counted from the end of Open) that fail
}

type injector struct {
	n              atomic.Int64
	fail           map[int64]bool
	enabled        atomic.Bool
	mu             sync.Mutex
	hit            []string
	skippedDirSync int
}

func (in *injector) MaybeError(op errorfs.Op) error {
	if !in.enabled.Load() {
		return nil
	}
	k := in.n.Add(1)
	if in.fail[k] {
		if (op.Kind == errorfs.OpFileSync || op.Kind == errorfs.OpFileSyncData || op.Kind == errorfs.OpFileSyncTo) && !strings.Contains(op.Path, ".") && !strings.Contains(op.Path, "MANIFEST") && !strings.Contains(op.Path, "OPTIONS") {
			// A failed fsync of a DIRECTORY is fail-stop by design: atomicfs.Marker.SyncDir (and the
			// directory syncs of the WAL/objstorage layers) panic on purpose ("fsync errors are
			// unrecoverable"), possibly on a background goroutine, which would take the harness
			// process down. Such positions are counted, not executed.
			in.mu.Lock()
			in.skippedDirSync++
			in.mu.Unlock()
			return nil
		}
		in.mu.Lock()
		in.hit = append(in.hit, fmt.Sprintf("#%d %v %s", k, op.Kind, op.Path))
		in.mu.Unlock()
		return errorfs.ErrInjected
	}
	return nil
}
func (in *injector) String() string { return "verif-fault-injector" }

type fatalLogger struct {
	fatal chan string
	once  sync.Once
}

func (fatalLogger) Infof(string, ...interface{})  {}
func (fatalLogger) Errorf(string, ...interface{}) {}
func (l *fatalLogger) Fatalf(f string, a ...interface{}) {
	msg := fmt.Sprintf(f, a...)
	l.once.Do(func() { l.fatal <- msg })
	// Fatalf is called with DB mutexes held and must not return: fail-stop. The goroutine is parked
	// for good and the DB instance abandoned.
	select {}
}

type outcome struct {
	calls    int64
	fatal    string
	hit      []string
	viol     string
	class    string
	result   string
	panicked string
	dirSync  int
}

// candidates: after an operation returned an error it may or may not have taken effect.
type cand struct {
	m   *hx.Model
	ops []int
}

// resilientScan looks every key of the universe (and the padding key) up with SeekGE + ValueAndErr on
// ONE iterator; an error (positioning or value read) is followed by one more SeekGE of the same key
// on the same iterator. ok=false: an error persisted (an error answer is allowed).
func resilientScan(d *pebble.DB) (state string, ok bool) {
	it, err := d.NewIter(nil)
	if err != nil {
		return "", false
	}
	defer it.Close()
	var kvs []hx.KV
	for _, k := range append(append([]string{}, universe...), hx.PadKey) {
		done := false
		for attempt := 0; attempt < 2 && !done; attempt++ {
			valid := it.SeekGE([]byte(k))
			if err := it.Error(); err != nil {
				continue
			}
			if !valid || string(it.Key()) != k {
				done = true // absent
				break
			}
			v, err := it.ValueAndErr()
			if err != nil {
				continue
			}
			kvs = append(kvs, hx.KV{K: k, V: hx.Val(v)})
			done = true
		}
		if !done {
			return "", false
		}
	}
	if it.Error() != nil {
		return "", false
	}
	return hx.PointsString(kvs), true
}

func runOnce(cfg hx.Config, hist []hx.Op, faults []int, verbose bool) (out outcome) {
	mem := vfs.NewCrashableMem()
	in := &injector{fail: map[int64]bool{}}
	for _, f := range faults {
		in.fail[int64(f)] = true
	}
	fs := errorfs.Wrap(mem, in)
	lg := &fatalLogger{fatal: make(chan string, 1)}
	o := cfg.Options(fs)
	o.Logger = lg
	done := make(chan struct{})
	var durable []bool // per op (1-based index-1): acknowledged durable
	cands := []cand{{m: hx.NewModel(bounds...)}}
	var x *hx.X
	// st guards cands/durable/inflight: after a Fatalf on a background goroutine the history
	// goroutine may still be running; the verdict uses the state frozen at that moment.
	var st sync.Mutex
	frozen := false
	inflight := 0
	violate := func(class, msg string) {
		if out.viol == "" {
			out.class, out.viol = class, msg
		}
	}
	checkRead := func(i int) {
		// one iterator that keeps going after errors: every key is looked up with SeekGE and its
		// value read; after an error the SAME iterator re-seeks the same key once. What it reports
		// without a final error must be a state the model allows.
		if g, ok := resilientScan(x.D); ok {
			found := false
			for _, c := range cands {
				if hx.PointsString(c.m.Points()) == g {
					found = true
				}
			}
			if !found {
				var w []string
				for _, c := range cands {
					w = append(w, "{"+hx.PointsString(c.m.Points())+"}")
				}
				violate("wrong-read-result", fmt.Sprintf("step %d: an iterator that re-seeks after an error reported {%s} and no error; allowed: %v", i, g, w))
				return
			}
		}
		got, err := hx.ObservePoints(x.D, universe)
		if err != nil {
			if strings.Contains(err.Error(), "differ") || strings.Contains(err.Error(), "but scan has") {
				violate("inconsistent-read", fmt.Sprintf("step %d: %v", i, err))
			}
			return // an error answer is allowed
		}
		g := hx.PointsString(got)
		for _, c := range cands {
			if hx.PointsString(c.m.Points()) == g {
				return
			}
		}
		var w []string
		for _, c := range cands {
			w = append(w, "{"+hx.PointsString(c.m.Points())+"}")
		}
		violate("wrong-read-result", fmt.Sprintf("step %d: read returned {%s} without error; allowed: %v", i, g, w))
	}
	go func() {
		defer close(done)
		defer func() {
			if r := recover(); r != nil {
				s := fmt.Sprint(r)
				if strings.Contains(s, "injected error") {
					out.fatal = "panic wrapping the injected error: " + s
					return
				}
				out.panicked = s
			}
		}()
		var err error
		x, err = hx.OpenWith("db", o)
		if err != nil {
			out.viol, out.class = "open failed without faults: "+err.Error(), "open-error"
			return
		}
		x.FS = mem // harness-side I/O (building tables to ingest) is not subject to faults
		in.enabled.Store(true)
		for idx, op := range hist {
			i := idx + 1
			st.Lock()
			if frozen {
				st.Unlock()
				return
			}
			durable = append(durable, false)
			inflight = i
			st.Unlock()
			switch op.K {
			case "read":
				checkRead(i)
				continue
			case "reopen":
				if err := x.D.Close(); err != nil {
					// Close failed: the instance is gone; everything acknowledged must still be there
					x2, err2 := hx.OpenWith("db", o)
					if err2 != nil {
						out.result = fmt.Sprintf("close error %v then reopen error %v", err, err2)
						return
					}
					x2.FS = mem
					x = x2
					continue
				}
				for j := range durable {
					durable[j] = true
				}
				x2, err := hx.OpenWith("db", o)
				if err != nil {
					out.result = "reopen under fault failed: " + err.Error()
					x = nil
					return
				}
				x2.FS = mem
				x = x2
				continue
			}
			err := x.Apply(i, op)
			if verbose {
				fmt.Printf("op %d %s -> %v (calls so far %d)\n", i, op, err, in.n.Load())
			}
			st.Lock()
			if frozen {
				st.Unlock()
				return
			}
			inflight = 0
			st.Unlock()
			if err == nil {
				for k := range cands {
					cands[k].m.Apply(op, fmt.Sprintf("v%d", i))
					cands[k].ops = append(cands[k].ops, i)
				}
				switch op.K {
				case "flush":
					for j := range durable {
						durable[j] = true
					}
				case "ingest", "excise", "ingestexcise":
					durable[idx] = true
				case "compact":
				default:
					if op.Sync {
						durable[idx] = true
					}
				}
				continue
			}
			if op.K == "flush" || op.K == "compact" {
				continue // no logical effect either way
			}
			// the failed op may or may not have taken effect
			n := len(cands)
			for k := 0; k < n; k++ {
				c2 := cand{m: cands[k].m.Clone(), ops: append(append([]int{}, cands[k].ops...), i)}
				c2.m.Apply(op, fmt.Sprintf("v%d", i))
				cands = append(cands, c2)
			}
		}
		in.enabled.Store(false)
		checkRead(len(hist) + 1)
		if err := x.D.CheckLevels(nil); err != nil {
			violate("checklevels-after-fault", err.Error())
		}
	}()
	select {
	case <-done:
	case msg := <-lg.fatal:
		out.fatal = msg
	}
	st.Lock()
	frozen = true
	if out.fatal != "" && inflight > 0 && inflight <= len(hist) {
		// the operation that was in flight when the DB stopped may or may not have taken effect
		op := hist[inflight-1]
		switch op.K {
		case "read", "reopen", "flush", "compact":
		default:
			n := len(cands)
			for k := 0; k < n; k++ {
				c2 := cand{m: cands[k].m.Clone(), ops: append(append([]int{}, cands[k].ops...), inflight)}
				c2.m.Apply(op, fmt.Sprintf("v%d", inflight))
				cands = append(cands, c2)
			}
		}
	}
	for len(durable) < len(hist) {
		durable = append(durable, false)
	}
	st.Unlock()
	in.enabled.Store(false)
	out.calls = in.n.Load()
	in.mu.Lock()
	out.hit = append([]string(nil), in.hit...)
	out.dirSync = in.skippedDirSync
	in.mu.Unlock()
	if out.viol != "" || out.panicked != "" {
		if out.fatal == "" && x != nil {
			x.D.Close()
		}
		return out
	}
	// Recovery: the strict crash image (nothing unsynced survives) and, when the instance is still
	// usable, the live directory after Close.
	judge := func(what string, img vfs.FS) {
		y, err := hx.Open(img, "db", cfg)
		if err != nil {
			violate("reopen-failed-after-fault", fmt.Sprintf("%s: %v", what, err))
			return
		}
		pts, rerr := hx.ObservePoints(y.D, universe)
		cerr := y.D.CheckLevels(nil)
		y.D.Close()
		if rerr != nil || cerr != nil {
			violate("read-after-recovery", fmt.Sprintf("%s: %v %v", what, rerr, cerr))
			return
		}
		g := hx.PointsString(pts)
		// allowed: a prefix (in op order) of some candidate's applied ops that contains every
		// acknowledged-durable op
		for _, c := range cands {
			mm := hx.NewModel(bounds...)
			need := 0
			for _, i := range c.ops {
				if durable[i-1] {
					need = i
				}
			}
			if need == 0 && hx.PointsString(mm.Points()) == g {
				return
			}
			for _, i := range c.ops {
				mm.Apply(hist[i-1], fmt.Sprintf("v%d", i))
				if i >= need && hx.PointsString(mm.Points()) == g {
					return
				}
			}
		}
		violate("recovery-not-a-durable-prefix", fmt.Sprintf("%s recovers {%s}; durable ops %v", what, g, durable))
	}
	us := mem.VerifCrashUnits()
	judge("strict crash image", mem.VerifCrashClone(us, make([]bool, len(us))))
	if out.fatal == "" && x != nil {
		if err := x.D.Close(); err == nil {
			all := make([]bool, len(us))
			us2 := mem.VerifCrashUnits()
			all = make([]bool, len(us2))
			for i := range all {
				all[i] = true
			}
			for j := range durable {
				durable[j] = true
			}
			judge("live directory after Close", mem.VerifCrashClone(us2, all))
		}
	}
	_ = crashx.StateString
	_ = pebble.ErrNotFound
	return out
}

func TestCheck(t *testing.T) {
	vlib.Main(t, "C43", func(c *vlib.Ctx) {
		cfg := hx.Config{Name: "base"}
		if c.ReplayPath() != "" {
			var cs Case
			c.LoadReplay(&cs)
			o := runOnce(cs.Cfg, cs.Hist, cs.Faults, true)
			fmt.Printf("replay: calls=%d fatal=%q hit=%v viol=%q panic=%q\n", o.calls, o.fatal, o.hit, o.viol, o.panicked)
			c.Eval(1)
			if o.viol != "" {
				c.Violation(o.class, o.viol, cs)
			}
			return
		}
		type job struct {
			h      int
			faults []int
		}
		var jobs []job
		counts := make([]int, len(curated))
		for hi, h := range curated {
			o := runOnce(cfg, h, nil, false)
			if o.viol != "" || o.fatal != "" || o.panicked != "" {
				c.Violation("fault-free-run-fails", fmt.Sprintf("hist=[%s]: %s %s %s", hx.HistString(h), o.viol, o.fatal, o.panicked), Case{cfg, h, nil})
				return
			}
			counts[hi] = int(o.calls)
			for k := 1; k <= int(o.calls)+2; k++ {
				jobs = append(jobs, job{hi, []int{k}})
			}
			if c.Thorough() {
				lim := 45
				if lim > int(o.calls) {
					lim = int(o.calls)
				}
				for a := 1; a <= lim; a++ {
					for b := a + 1; b <= lim; b++ {
						jobs = append(jobs, job{hi, []int{a, b}})
					}
				}
			}
		}
		c.Note("fs_calls_per_history", counts)
		done, complete := c.Each(len(jobs), func(i int) {
			j := jobs[i]
			h := curated[j.h]
			o := runOnce(cfg, h, j.faults, false)
			c.Eval(1)
			c.Trans(int(o.calls))
			cs := Case{cfg, h, j.faults}
			kind := "no-effect"
			if len(o.hit) > 0 {
				kind = strings.Join(strings.Fields(o.hit[0])[1:2], "")
			}
			switch {
			case o.panicked != "":
				c.Violation("panic-under-fault", fmt.Sprintf("hist=[%s] faults at FS calls %v (%v): panic %s", hx.HistString(h), j.faults, o.hit, o.panicked), cs)
			case o.viol != "":
				c.Violation(o.class, fmt.Sprintf("hist=[%s] faults at FS calls %v (%v): %s", hx.HistString(h), j.faults, o.hit, o.viol), cs)
			case o.dirSync > 0:
				c.Outcome("not executed: directory fsync failure panics by design (fail-stop)")
			case o.fatal != "":
				c.Outcome("fatal(fail-stop) on op kind " + kind)
			default:
				c.Outcome("survived fault on op kind " + kind)
			}
			if len(o.hit) > 0 {
				c.Nontrivial(vlib.Hash(j.h, fmt.Sprint(j.faults)))
				c.State(vlib.Hash(j.h, o.hit[0], o.fatal != ""))
			}
			if i%211 == 0 {
				c.Sample(map[string]any{"hist": hx.HistString(h), "faults": j.faults, "hit": o.hit, "fatal": o.fatal})
			}
		})
		if !complete {
			c.Incomplete(fmt.Sprintf("budget expired after %d of %d fault placements", done, len(jobs)))
		}
	})
}
