// C14-inuse: sub-check of C14 ("background maintenance never changes what readers see").
//
// A compaction may drop a DEL / SINGLEDEL / RANGEDEL / RANGEKEYDEL|UNSET only where nothing lies
// beneath its output level. That decision is Version.CalculateInuseKeyRanges (internal/manifest) +
// compact.SetupTombstoneElision + the point/range tombstone eliders (internal/compact). The
// history-based C14 check (3 keys, short histories) cannot build the multi-level layouts in which
// the inclusive/exclusive end bookkeeping of that code matters, so this harness enumerates the
// layouts directly:
//
//	space A: every Version with <=2 non-overlapping files in each of L4, L5, L6,
//	space B: every Version with <=2 arbitrary (overlapping allowed) files in L0 (real L0Organizer /
//	         sublevels), <=1 file in L5 and <=2 non-overlapping files in L6,
//
// over 4 and 5 user keys (quick: 3 keys for both spaces, then 4 keys for space A with <=1 file in L4
// and <=4 files in total; the plans and their sizes are listed in TestCheck and in the evidence note "scope"); a
// file's bounds are [x,y] (inclusive largest) or
// [x,y) (largest = exclusive sentinel: a RANGEDEL end, a range-key end of a range-key-only table, or
// a range-key end of a table that also has a point key).
//
// Part 1 (pure function): for every query (level, maxLevel, [smallest,largest]) the result of
// CalculateInuseKeyRanges must be a list of valid ranges, ordered and pairwise disjoint (the
// documented precondition of compact.ElideTombstonesOutsideOf), that contains every key of every
// file in levels [level,maxLevel] that lies within [smallest,largest] (the function's documented
// contract). Key sets are compared on the probe points a, a+, b, b+, ... ("k+" = strictly between k
// and the next key): [x,k) does not contain k, [x,k] does.
//
// Part 2 (decision end to end): for every output level and every compaction key range (inclusive or
// exclusive end, as tableCompaction.bounds) the TombstoneElision pair is built exactly as
// newCompaction does (compact.SetupTombstoneElision(cmp, version, l0Organizer, outputLevel,
// bounds)) and the real eliders are asked: a point tombstone at k may be elided only if no file below
// the output level contains k; a range tombstone [s,e) only if no such file intersects [s,e);
// ElidesEverything (which also enables seqnum zeroing) only if no such file intersects the bounds.
package inuse

import (
	"fmt"
	"runtime"
	"runtime/debug"
	"sort"
	"strings"
	"sync"
	"sync/atomic"
	"testing"

	"github.com/cockroachdb/pebble/internal/base"
	"github.com/cockroachdb/pebble/internal/compact"
	"github.com/cockroachdb/pebble/internal/keyspan"
	"github.com/cockroachdb/pebble/internal/manifest"
	"github.com/cockroachdb/pebble/internal/verif/vlib"
)

// ---------------------------------------------------------------------------------------------
// key universe, probe points, shapes

const maxKeys = 5

var keyB = [maxKeys][]byte{[]byte("a"), []byte("b"), []byte("c"), []byte("d"), []byte("e")}

var cmpKeys = base.DefaultComparer.Compare

func keyIdx(k []byte) int {
	if len(k) == 1 && k[0] >= 'a' && k[0] < 'a'+maxKeys {
		return int(k[0] - 'a')
	}
	return -1
}

// A set of keys is a bit mask over the probe points: bit 2i = key i, bit 2i+1 = "just after key i".
type mask = uint16

func bits(lo, hi int) mask { return mask((1 << (hi + 1)) - (1 << lo)) }

func maskString(m mask) string {
	var b strings.Builder
	b.WriteByte('{')
	first := true
	for p := 0; p < 2*maxKeys; p++ {
		if m&(1<<p) == 0 {
			continue
		}
		if !first {
			b.WriteByte(' ')
		}
		first = false
		b.WriteByte(byte('a' + p/2))
		if p%2 == 1 {
			b.WriteByte('+')
		}
	}
	b.WriteByte('}')
	return b.String()
}

// shape is a user-key interval [X,Y] or [X,Y).
type shape struct {
	X, Y int
	Excl bool
}

func (s shape) mask() mask {
	hi := 2 * s.Y
	if s.Excl {
		hi--
	}
	return bits(2*s.X, hi)
}

func (s shape) String() string {
	if s.Excl {
		return fmt.Sprintf("[%s,%s)", keyB[s.X], keyB[s.Y])
	}
	return fmt.Sprintf("[%s,%s]", keyB[s.X], keyB[s.Y])
}

func (s shape) bounds() base.UserKeyBounds {
	return base.UserKeyBoundsEndExclusiveIf(keyB[s.X], keyB[s.Y], s.Excl)
}

// genShapes lists all n*n intervals over n keys, simplest first (narrow, left, inclusive).
func genShapes(n int) []shape {
	var out []shape
	for w := 0; w < n; w++ {
		for x := 0; x+w < n; x++ {
			out = append(out, shape{x, x + w, false})
			if w > 0 {
				out = append(out, shape{x, x + w, true})
			}
		}
	}
	return out
}

// lset is the file set of one level: up to two shape indices (position order for L1+, age order for L0).
type lset struct {
	n int
	f [2]int
}

// genLevelSets: all sets of <=2 files; overlapOK (L0) admits overlapping and identical pairs (i<=j,
// file j newer), otherwise the two files must be disjoint as key sets ([a,b) [b,c] is fine,
// [a,b] [b,c] is not) and are listed in key order. maxFiles limits the set size.
func genLevelSets(sh []shape, maxFiles int, overlapOK bool) []lset {
	out := []lset{{}}
	if maxFiles >= 1 {
		for i := range sh {
			out = append(out, lset{1, [2]int{i, 0}})
		}
	}
	if maxFiles >= 2 {
		for i := range sh {
			for j := range sh {
				if overlapOK {
					if i <= j {
						out = append(out, lset{2, [2]int{i, j}})
					}
					continue
				}
				if sh[i].X < sh[j].X && sh[i].mask()&sh[j].mask() == 0 {
					out = append(out, lset{2, [2]int{i, j}})
				}
			}
		}
	}
	return out
}

// ---------------------------------------------------------------------------------------------
// replay artefact

type FileSpec struct {
	Level int    `json:"level"`
	Lo    string `json:"lo"`
	Hi    string `json:"hi"`
	Excl  bool   `json:"hi_exclusive,omitempty"`
	// Kind: "point" (largest is a SET), "rangedel" (largest is the RANGEDEL sentinel), "rangekey"
	// (range-key-only table), "point+rangekey" (a point key at lo, range key [lo,hi)).
	Kind string `json:"kind"`
	Slot int    `json:"slot"` // 0/1: position in the level's list (L0: 0 = older)
}

type Query struct {
	Level    int    `json:"level"`
	MaxLevel int    `json:"max_level"`
	Smallest string `json:"smallest"`
	Largest  string `json:"largest"`
}

type Compaction struct {
	OutputLevel int    `json:"output_level"`
	Lo          string `json:"lo"`
	Hi          string `json:"hi"`
	Excl        bool   `json:"hi_exclusive,omitempty"`
}

// Case is enough to rebuild one Version and re-run one query / one compaction decision (or, when both
// are nil, all of them).
type Case struct {
	Keys       int         `json:"keys"`
	Files      []FileSpec  `json:"files"`
	Query      *Query      `json:"query,omitempty"`
	Compaction *Compaction `json:"compaction,omitempty"`
	Layout     string      `json:"layout,omitempty"`
	Got        string      `json:"got,omitempty"`
}

const (
	kindPoint = iota
	kindRangeDel
	kindRangeKey
	kindPointRangeKey
)

var kindNames = [...]string{"point", "rangedel", "rangekey", "point+rangekey"}

func kindOf(name string) int {
	for i, n := range kindNames {
		if n == name {
			return i
		}
	}
	panic("unknown file kind " + name)
}

// exclKind picks how an exclusive largest bound is realised, so that all three real mechanisms occur
// for every shape (flavour rotates them).
func exclKind(shapeIdx, flavour int) int { return kindRangeDel + (shapeIdx+flavour)%3 }

// ---------------------------------------------------------------------------------------------
// building real metadata / versions

type mfile struct {
	level int
	sh    shape
	kind  int
	slot  int
	m     mask
}

func (f mfile) spec() FileSpec {
	return FileSpec{Level: f.level, Lo: string(keyB[f.sh.X]), Hi: string(keyB[f.sh.Y]), Excl: f.sh.Excl, Kind: kindNames[f.kind], Slot: f.slot}
}

func fromSpec(s FileSpec) mfile {
	x, y := keyIdx([]byte(s.Lo)), keyIdx([]byte(s.Hi))
	if x < 0 || y < 0 || x > y || (s.Excl && x == y) || s.Level < 0 || s.Level >= manifest.NumLevels {
		panic(fmt.Sprintf("bad file spec %+v", s))
	}
	k := kindOf(s.Kind)
	if (k == kindPoint) == s.Excl {
		panic(fmt.Sprintf("file spec %+v: kind and exclusivity disagree", s))
	}
	sh := shape{x, y, s.Excl}
	return mfile{level: s.Level, sh: sh, kind: k, slot: s.Slot, m: sh.mask()}
}

type metaKey struct {
	level, x, y, kind, slot int
}

// wctx is per-worker state: a cache of TableMetadata objects (a TableMetadata carries a reference
// count and, in L0, per-version sublevel fields, so the objects are not shared between workers and a
// worker has at most one live Version), and local statistics.
type wctx struct {
	metas map[metaKey]*manifest.TableMetadata
	seen  map[uint64]struct{}
	pe    compact.VerifPointElider
	re    compact.VerifRangeElider
	out   keyspan.Span
	st    stats
	// outcome histogram accumulated by this worker, merged at the end of the run
	outcomes [nOutcomes]int64
}

func newWctx() *wctx {
	return &wctx{metas: map[metaKey]*manifest.TableMetadata{}, seen: map[uint64]struct{}{}}
}

var tableNumGen atomic.Uint64

func (w *wctx) meta(f mfile) *manifest.TableMetadata {
	k := metaKey{f.level, f.sh.X, f.sh.Y, f.kind, f.slot}
	if m := w.metas[k]; m != nil {
		return m
	}
	// Seqnums: deeper levels are older; in L0 slot 1 is newer than slot 0.
	seq := base.SeqNum(10*(manifest.NumLevels-f.level) + 2*f.slot + 1)
	if f.level == 0 {
		seq = base.SeqNum(100 + 10*f.slot)
	}
	m := &manifest.TableMetadata{TableNum: base.TableNum(tableNumGen.Add(1)), Size: 1024, CreationTime: 1}
	m.SeqNums.Low, m.SeqNums.High = seq, seq+1
	m.LargestSeqNumAbsolute = m.SeqNums.High
	lo, hi := keyB[f.sh.X], keyB[f.sh.Y]
	switch f.kind {
	case kindPoint:
		m.ExtendPointKeyBounds(cmpKeys,
			base.MakeInternalKey(lo, seq+1, base.InternalKeyKindSet),
			base.MakeInternalKey(hi, seq, base.InternalKeyKindSet))
	case kindRangeDel:
		// SET lo ... RANGEDEL [?,hi): the largest point-key bound is the range-deletion sentinel.
		m.ExtendPointKeyBounds(cmpKeys,
			base.MakeInternalKey(lo, seq+1, base.InternalKeyKindSet),
			base.MakeRangeDeleteSentinelKey(hi))
	case kindRangeKey:
		m.ExtendRangeKeyBounds(cmpKeys, manifest.AnyRangeKeys,
			base.MakeInternalKey(lo, seq+1, base.InternalKeyKindRangeKeySet),
			base.MakeExclusiveSentinelKey(base.InternalKeyKindRangeKeySet, hi))
	case kindPointRangeKey:
		m.ExtendPointKeyBounds(cmpKeys,
			base.MakeInternalKey(lo, seq, base.InternalKeyKindSet),
			base.MakeInternalKey(lo, seq, base.InternalKeyKindSet))
		m.ExtendRangeKeyBounds(cmpKeys, manifest.AnyRangeKeys,
			base.MakeInternalKey(lo, seq+1, base.InternalKeyKindRangeKeySet),
			base.MakeExclusiveSentinelKey(base.InternalKeyKindRangeKeyDelete, hi))
	}
	m.InitPhysicalBacking()
	w.metas[k] = m
	return m
}

// lsm is one enumerated layout together with its model (key-set masks).
type lsm struct {
	nkeys int
	files []mfile
	lvl   [manifest.NumLevels]mask // union of the file key sets per level
	v     *manifest.Version
	org   *manifest.L0Organizer
}

func (w *wctx) build(nkeys int, files []mfile) *lsm {
	l := &lsm{nkeys: nkeys, files: files}
	var lv [manifest.NumLevels][]*manifest.TableMetadata
	for _, f := range files {
		lv[f.level] = append(lv[f.level], w.meta(f))
		l.lvl[f.level] |= f.m
	}
	l.org = manifest.NewL0Organizer(base.DefaultComparer, 1<<20)
	l.v = manifest.NewVersionForTesting(base.DefaultComparer, l.org, lv)
	return l
}

func (l *lsm) layout() string {
	var b strings.Builder
	for lev := 0; lev < manifest.NumLevels; lev++ {
		first := true
		for _, f := range l.files {
			if f.level != lev {
				continue
			}
			if first {
				fmt.Fprintf(&b, "L%d:", lev)
				first = false
			}
			fmt.Fprintf(&b, " %s%s", f.sh, map[int]string{kindPoint: "", kindRangeDel: "rd", kindRangeKey: "rk", kindPointRangeKey: "p+rk"}[f.kind])
		}
		if !first {
			b.WriteString("  ")
		}
	}
	if b.Len() == 0 {
		return "(empty LSM)"
	}
	return strings.TrimSpace(b.String())
}

func (l *lsm) specs() []FileSpec {
	out := make([]FileSpec, len(l.files))
	for i, f := range l.files {
		out[i] = f.spec()
	}
	return out
}

func rangesString(rs []base.UserKeyBounds) string {
	if len(rs) == 0 {
		return "(none)"
	}
	var b strings.Builder
	for i, r := range rs {
		if i > 0 {
			b.WriteByte(' ')
		}
		b.WriteString(r.String())
	}
	return b.String()
}

// ---------------------------------------------------------------------------------------------
// the checks

type fail struct {
	class, desc string
	cs          Case
}

// stats of one work item; flushed once per item.
type stats struct {
	evals, trans int
	outcomes     [nOutcomes]int64
	fails        []fail
	nfiles, idx  int          // of the layout being checked
	more         []classCount // failures of a class beyond the first one of this layout: only counted
	nontrivial   bool
}

type classCount struct {
	class string
	n     int64
}

// first reports whether this is the layout's first failure of the class (only that one gets a
// description and a replay case; on a broken tree a layout fails dozens of checks at once).
func (st *stats) first(class string) bool {
	for i := range st.more {
		if st.more[i].class == class {
			st.more[i].n++
			return false
		}
	}
	if w, ok := vioWorst.Load(class); ok && int64(st.nfiles)<<32|int64(st.idx) > w.(*atomic.Int64).Load() {
		// five smaller counterexamples of this class are already held: only count this one
		st.more = append(st.more, classCount{class, 1})
		return false
	}
	st.more = append(st.more, classCount{class, 0})
	return true
}

// vioWorst: class -> (size<<32 | idx) of the largest of the five counterexamples held, once five are held.
var vioWorst sync.Map

const (
	oExact = iota // Part 1: result == union of the whole bounds of the files overlapping the query
	oWithin       // Part 1: contract met, result is a strict subset of that union (L0 interval clipping)
	oBroader      // Part 1: contract met, result contains a point outside that union
	oEmpty        // Part 1: nothing in use, nothing returned
	oElNothing    // Part 2: NoTombstoneElision (one in-use range contains the compaction bounds)
	oElEverything // Part 2: no in-use ranges
	oElSome       // Part 2: elision decided per key
	oPtElided     // Part 2: point tombstone decisions: elided
	oPtKept       // kept and a lower file contains the key
	oPtKeptFree   // kept although no lower file contains the key (conservative)
	oRgElided
	oRgKept
	oRgKeptFree
	nOutcomes
)

var outcomeNames = [nOutcomes]string{
	"inuse:exact-union-of-overlapping-file-bounds", "inuse:subset-of-file-bounds-(clipped)", "inuse:broader-than-file-bounds", "inuse:empty",
	"elision:nothing", "elision:everything", "elision:per-key",
	"point:elided", "point:kept-key-in-use", "point:kept-although-free",
	"range:elided", "range:kept-overlap-in-use", "range:kept-although-free",
}

// rangeMask converts a returned range into a key set; ok=false if it is not a valid range over the
// key universe.
func rangeMask(r base.UserKeyBounds) (m mask, lo, hi int, ok bool) {
	x, y := keyIdx(r.Start), keyIdx(r.End.Key)
	if x < 0 || y < 0 {
		return 0, 0, 0, false
	}
	lo, hi = 2*x, 2*y
	if r.End.Kind == base.Exclusive {
		hi--
	}
	if hi < lo {
		return 0, lo, hi, false
	}
	return bits(lo, hi), lo, hi, true
}

// structure checks the shape of an in-use range list and returns its key set.
func structure(rs []base.UserKeyBounds) (m mask, problem string) {
	prevHi := -1
	for i, r := range rs {
		rm, lo, hi, ok := rangeMask(r)
		if !ok {
			return 0, fmt.Sprintf("range #%d %s is not a valid non-empty range over the file boundary keys", i, r)
		}
		if lo <= prevHi {
			return 0, fmt.Sprintf("range #%d %s starts at or before the end of range #%d %s (ranges must be ordered and disjoint)", i, r, i-1, rs[i-1])
		}
		prevHi = hi
		m |= rm
	}
	return m, ""
}

// checkInuse: Part 1 for one query.
func (l *lsm) checkInuse(w *wctx, st *stats, level, maxLevel, s, e int) {
	got := l.v.CalculateInuseKeyRanges(l.org, level, maxLevel, keyB[s], keyB[e])
	st.evals++
	st.trans++
	q := bits(2*s, 2*e)
	var must, may mask
	nlev := 0
	for _, f := range l.files {
		if f.level < level || f.level > maxLevel {
			continue
		}
		if f.m&q != 0 {
			must |= f.m & q
			may |= f.m
		}
	}
	for lev := level; lev <= maxLevel && lev < manifest.NumLevels; lev++ {
		if l.lvl[lev]&q != 0 {
			nlev++
		}
	}
	mkCase := func() Case {
		return Case{Keys: l.nkeys, Files: l.specs(), Layout: l.layout(), Got: rangesString(got),
			Query: &Query{Level: level, MaxLevel: maxLevel, Smallest: string(keyB[s]), Largest: string(keyB[e])}}
	}
	what := func() string {
		return fmt.Sprintf("CalculateInuseKeyRanges(level=%d, maxLevel=%d, [%s,%s]) on %s returned %s", level, maxLevel, keyB[s], keyB[e], l.layout(), rangesString(got))
	}
	r, problem := structure(got)
	if problem != "" {
		if st.first("inuse-ranges-malformed") {
			st.fails = append(st.fails, fail{"inuse-ranges-malformed", what() + ": " + problem, mkCase()})
		}
		return
	}
	if miss := must &^ r; miss != 0 {
		if st.first("inuse-missing-key") {
			st.fails = append(st.fails, fail{"inuse-missing-key", what() + fmt.Sprintf(": the files of L%d..L%d contain %s inside the query range, of which %s is in no returned range (k+ = keys strictly between k and the next letter)", level, maxLevel, maskString(must), maskString(miss)), mkCase()})
		}
		return
	}
	switch {
	case r&^may != 0:
		st.outcomes[oBroader]++
	case r == 0:
		st.outcomes[oEmpty]++
	case r == may:
		st.outcomes[oExact]++
	default:
		st.outcomes[oWithin]++
	}
	if nlev >= 2 {
		st.nontrivial = true
	}
	h := (uint64(q)<<16 | uint64(must)) * 1099511628211
	for _, x := range got {
		rm, _, _, _ := rangeMask(x)
		h = (h ^ uint64(rm)) * 1099511628211
	}
	w.seen[h^0x51] = struct{}{}
}

// checkElision: Part 2 for one (output level, compaction bounds).
func (l *lsm) checkElision(w *wctx, st *stats, outLevel int, b shape) {
	bounds := b.bounds()
	dels, rks := compact.SetupTombstoneElision(cmpKeys, l.v, l.org, outLevel, bounds)
	st.evals++
	st.trans++
	startLevel := 0
	if outLevel > 0 {
		startLevel = outLevel + 1
	}
	var below mask
	for lev := startLevel; lev < manifest.NumLevels; lev++ {
		below |= l.lvl[lev]
	}
	bm := b.mask()
	mkCase := func() Case {
		return Case{Keys: l.nkeys, Files: l.specs(), Layout: l.layout(), Got: dels.String(),
			Compaction: &Compaction{OutputLevel: outLevel, Lo: string(keyB[b.X]), Hi: string(keyB[b.Y]), Excl: b.Excl}}
	}
	what := func() string {
		return fmt.Sprintf("compaction into L%d with bounds %s on %s: SetupTombstoneElision = {%s} / {%s}", outLevel, b, l.layout(), dels, rks)
	}
	switch {
	case dels.ElidesNothing():
		st.outcomes[oElNothing]++
	case dels.ElidesEverything():
		st.outcomes[oElEverything]++
	default:
		st.outcomes[oElSome]++
	}
	// ElidesEverything makes the compaction the bottommost data layer (seqnum zeroing).
	if (dels.ElidesEverything() || rks.ElidesEverything()) && below&bm != 0 {
		if st.first("elides-everything-over-live-data") {
			st.fails = append(st.fails, fail{"elides-everything-over-live-data", what() + fmt.Sprintf(": claims that every tombstone can be elided (bottommost data layer), but levels L%d..L6 contain %s inside the compaction bounds", startLevel, maskString(below&bm)), mkCase()})
		}
		return
	}
	if rs := dels.VerifInUseRanges(); len(rs) > 0 {
		if _, problem := structure(rs); problem != "" {
			if st.first("inuse-ranges-malformed") {
				st.fails = append(st.fails, fail{"inuse-ranges-malformed", what() + ": " + problem, mkCase()})
			}
			return
		}
	}

	// Point tombstones. (a) every key alone with a fresh elider, (b) all keys of the bounds in order
	// through one elider (the way compact.Iter uses it).
	var seqEl compact.VerifPointElider
	seqEl.Init(cmpKeys, dels)
	for k := b.X; k <= b.Y; k++ {
		if bm&(1<<(2*k)) == 0 {
			continue // exclusive end key
		}
		w.pe.Init(cmpKeys, dels)
		e1 := w.pe.ShouldElide(keyB[k])
		e2 := seqEl.ShouldElide(keyB[k])
		st.trans += 2
		inUse := below&(1<<(2*k)) != 0
		if (e1 || e2) && inUse {
			how := "asked alone"
			if !e1 {
				how = "asked after the smaller keys of the bounds"
			}
			if st.first("elide-point-tombstone-over-live-key") {
				st.fails = append(st.fails, fail{"elide-point-tombstone-over-live-key", what() + fmt.Sprintf(": a DEL/SINGLEDEL of %q (%s) would be elided although a file in L%d..L6 contains %q: the older value resurfaces", keyB[k], how, startLevel, keyB[k]), mkCase()})
			}
			return
		}
		switch {
		case e1:
			st.outcomes[oPtElided]++
		case inUse:
			st.outcomes[oPtKept]++
		default:
			st.outcomes[oPtKeptFree]++
		}
	}

	// Range tombstones [s,e) inside the bounds: (a) every span alone, for the RANGEDEL and the range
	// key elision; (b) the unit spans in order through one elider and through the real
	// RangeDelSpanCompactor.
	for s := b.X; s < b.Y; s++ {
		for e := s + 1; e <= b.Y; e++ {
			sm := bits(2*s, 2*e-1)
			w.re.Init(cmpKeys, dels)
			e1 := w.re.ShouldElide(keyB[s], keyB[e])
			w.re.Init(cmpKeys, rks)
			e2 := w.re.ShouldElide(keyB[s], keyB[e])
			st.trans += 2
			inUse := below&sm != 0
			if (e1 || e2) && inUse {
				which := "RANGEDEL"
				if !e1 {
					which = "RANGEKEYDEL/UNSET"
				}
				if st.first("elide-range-tombstone-over-live-key") {
					st.fails = append(st.fails, fail{"elide-range-tombstone-over-live-key", what() + fmt.Sprintf(": a %s [%s,%s) would be elided although files in L%d..L6 contain %s inside it", which, keyB[s], keyB[e], startLevel, maskString(below&sm)), mkCase()})
				}
				return
			}
			switch {
			case e1:
				st.outcomes[oRgElided]++
			case inUse:
				st.outcomes[oRgKept]++
			default:
				st.outcomes[oRgKeptFree]++
			}
		}
	}
	if b.X < b.Y {
		var seqR compact.VerifRangeElider
		seqR.Init(cmpKeys, dels)
		sc := compact.MakeRangeDelSpanCompactor(cmpKeys, base.DefaultComparer.Equal, nil, dels)
		for s := b.X; s < b.Y; s++ {
			sm := bits(2*s, 2*s+1)
			e1 := seqR.ShouldElide(keyB[s], keyB[s+1])
			in := keyspan.Span{Start: keyB[s], End: keyB[s+1], KeysOrder: keyspan.ByTrailerDesc,
				Keys: []keyspan.Key{{Trailer: base.MakeTrailer(50, base.InternalKeyKindRangeDelete)}}}
			sc.Compact(&in, &w.out)
			e2 := w.out.Empty()
			st.trans += 2
			if (e1 || e2) && below&sm != 0 {
				how := "rangeTombstoneElider asked in order"
				if !e1 {
					how = "RangeDelSpanCompactor.Compact"
				}
				if st.first("elide-range-tombstone-over-live-key") {
					st.fails = append(st.fails, fail{"elide-range-tombstone-over-live-key", what() + fmt.Sprintf(": the fragment RANGEDEL [%s,%s) (%s) would be elided although files in L%d..L6 contain %s inside it", keyB[s], keyB[s+1], how, startLevel, maskString(below&sm)), mkCase()})
				}
				return
			}
		}
	}
	if below&bm != 0 && below&bm != bm {
		st.nontrivial = true
	}
	h := (uint64(outLevel)<<40 | uint64(bm)<<20 | uint64(below&bm)) * 1099511628211
	for _, r := range dels.VerifInUseRanges() {
		rm, _, _, _ := rangeMask(r)
		h = (h ^ uint64(rm)) * 1099511628211
	}
	if dels.ElidesNothing() {
		h ^= 0x77
	}
	w.seen[h] = struct{}{}
}

// maxLevel values used with level 0 (L1..L4 are empty in those layouts).
var l0MaxLevels = []int{0, 3, 5, 6}

// runAll runs every query and every compaction decision of the harness scope on one layout.
func (l *lsm) runAll(w *wctx, st *stats, levels []int, outLevels []int, shapes []shape) {
	n := l.nkeys
	for _, level := range levels {
		maxLevels := []int{}
		if level == 0 {
			maxLevels = l0MaxLevels
		} else {
			for m := level; m < manifest.NumLevels; m++ {
				maxLevels = append(maxLevels, m)
			}
		}
		for _, maxLevel := range maxLevels {
			for s := 0; s < n; s++ {
				for e := s; e < n; e++ {
					l.checkInuse(w, st, level, maxLevel, s, e)
				}
			}
		}
	}
	for _, ol := range outLevels {
		for _, b := range shapes {
			l.checkElision(w, st, ol, b)
		}
	}
}

// ---------------------------------------------------------------------------------------------
// driver

// Violations are collected and reported smallest layout first (fewest files, then enumeration
// order), at most 5 per class: with 16 workers the first one found is not the smallest one.
type pending struct {
	size, idx int
	f         fail
}

var (
	vioMu      sync.Mutex
	vioBest    = map[string][]pending{}
	vioTotal   = map[string]int64{}
	vioEmitted = map[string]int{}
)

func report(st *stats, idx int) {
	vioMu.Lock()
	defer vioMu.Unlock()
	for _, m := range st.more {
		vioTotal[m.class] += m.n
	}
	for _, f := range st.fails {
		vioTotal[f.class]++
		p := pending{len(f.cs.Files), idx, f}
		l := vioBest[f.class]
		pos := sort.Search(len(l), func(i int) bool {
			return l[i].size > p.size || (l[i].size == p.size && l[i].idx > p.idx)
		})
		if pos >= 5 {
			continue
		}
		l = append(l, pending{})
		copy(l[pos+1:], l[pos:])
		l[pos] = p
		if len(l) > 5 {
			l = l[:5]
		}
		vioBest[f.class] = l
		if len(l) == 5 {
			w, _ := vioWorst.LoadOrStore(f.class, new(atomic.Int64))
			w.(*atomic.Int64).Store(int64(l[4].size)<<32 | int64(l[4].idx))
		}
	}
}

// emit hands the collected violations to vlib (called after every plan).
func emit(c *vlib.Ctx) {
	vioMu.Lock()
	defer vioMu.Unlock()
	classes := make([]string, 0, len(vioBest))
	for k := range vioBest {
		classes = append(classes, k)
	}
	sort.Strings(classes)
	for _, k := range classes {
		for _, p := range vioBest[k] {
			if vioEmitted[k] >= 5 {
				break
			}
			vioEmitted[k]++
			c.Violation(p.f.class, p.f.desc, p.f.cs)
		}
		delete(vioBest, k)
	}
	for k, n := range vioTotal {
		c.Note("violating_checks_"+k, n)
	}
}

func replay(c *vlib.Ctx, cs Case) {
	w := newWctx()
	files := make([]mfile, len(cs.Files))
	for i, s := range cs.Files {
		files[i] = fromSpec(s)
	}
	n := cs.Keys
	if n < 2 || n > maxKeys {
		n = maxKeys
	}
	l := w.build(n, files)
	fmt.Printf("layout: %s\nversion:\n%s", l.layout(), l.v.DebugString())
	if err := l.v.CheckOrdering(); err != nil {
		fmt.Printf("note: Version.CheckOrdering: %v\n", err)
	}
	st := &stats{}
	shapes := genShapes(n)
	switch {
	case cs.Query != nil:
		q := cs.Query
		s, e := keyIdx([]byte(q.Smallest)), keyIdx([]byte(q.Largest))
		got := l.v.CalculateInuseKeyRanges(l.org, q.Level, q.MaxLevel, keyB[s], keyB[e])
		fmt.Printf("CalculateInuseKeyRanges(level=%d, maxLevel=%d, [%s,%s]) = %s\n", q.Level, q.MaxLevel, q.Smallest, q.Largest, rangesString(got))
		l.checkInuse(w, st, q.Level, q.MaxLevel, s, e)
	case cs.Compaction != nil:
		k := cs.Compaction
		b := shape{keyIdx([]byte(k.Lo)), keyIdx([]byte(k.Hi)), k.Excl}
		dels, rks := compact.SetupTombstoneElision(cmpKeys, l.v, l.org, k.OutputLevel, b.bounds())
		fmt.Printf("SetupTombstoneElision(outputLevel=%d, bounds=%s) = {%s} / {%s}\n", k.OutputLevel, b, dels, rks)
		l.checkElision(w, st, k.OutputLevel, b)
	default:
		l.runAll(w, st, []int{0, 1, 2, 3, 4, 5, 6}, []int{0, 1, 2, 3, 4, 5, 6}, shapes)
	}
	for _, f := range st.fails {
		fmt.Printf("replay: FAIL class=%s\n  %s\n", f.class, f.desc)
	}
	if len(st.fails) == 0 {
		fmt.Printf("replay: ok (%d checks)\n", st.evals)
	}
	report(st, 0)
	emit(c)
	c.Eval(max(st.evals, 1))
	c.Trans(max(st.trans, 1))
	c.State(1)
}

func TestCheck(t *testing.T) {
	vlib.Main(t, "C14-inuse", func(c *vlib.Ctx) {
		if c.ReplayPath() != "" {
			var cs Case
			if err := c.LoadReplay(&cs); err != nil {
				t.Fatal(err)
			}
			replay(c, cs)
			return
		}
		// Version.Overlaps allocates a few hundred bytes per call and the live heap is tiny: without a
		// ballast the collector runs every few MiB and most of the time goes into recycling spans.
		ballast := make([]byte, 384<<20)
		defer runtime.KeepAlive(ballast)
		debug.SetGCPercent(100)
		// plans: name, #keys, #flavours, the levels (slowest to fastest varying) with the maximal
		// number of files per level, the query levels of Part 1 and the output levels of Part 2.
		type levelDim struct {
			level, maxFiles int
		}
		type plan struct {
			name      string
			n         int
			fl        []int // flavours (rotations of the realisation of exclusive ends) to run
			dims      []levelDim
			maxTotal  int // layouts with more files in total are outside the plan (0 = no limit)
			qLevels   []int
			outLevels []int
		}
		lowQ, lowOut := []int{4, 5, 6}, []int{3, 4, 5, 6}
		var plans []plan
		if !c.Thorough() {
			plans = []plan{
				// smallest spaces first: on a starved machine the 3-key plans still complete
				{"A3q", 3, []int{0}, []levelDim{{4, 2}, {5, 2}, {6, 2}}, 0, lowQ, lowOut},
				{"B3q", 3, []int{0}, []levelDim{{0, 2}, {5, 1}, {6, 2}}, 0, []int{0}, []int{0}},
				{"A4q", 4, []int{0}, []levelDim{{4, 1}, {5, 2}, {6, 2}}, 4, lowQ, lowOut},
			}
		} else {
			plans = []plan{
				// every space in one flavour first, the other two rotations of the 4-key spaces last
				{"A4", 4, []int{0}, []levelDim{{4, 2}, {5, 2}, {6, 2}}, 0, lowQ, lowOut},
				{"B4", 4, []int{0}, []levelDim{{0, 2}, {5, 1}, {6, 2}}, 0, []int{0}, []int{0}},
				{"A5", 5, []int{0}, []levelDim{{4, 1}, {5, 2}, {6, 2}}, 0, lowQ, lowOut},
				{"B5", 5, []int{0}, []levelDim{{0, 2}, {5, 1}, {6, 1}}, 0, []int{0}, []int{0}},
				{"A4-rot", 4, []int{1, 2}, []levelDim{{4, 2}, {5, 2}, {6, 2}}, 0, lowQ, lowOut},
				{"B4-rot", 4, []int{1, 2}, []levelDim{{0, 2}, {5, 1}, {6, 2}}, 0, []int{0}, []int{0}},
			}
		}

		var ctxMu sync.Mutex
		var ctxs []*wctx
		pool := sync.Pool{New: func() any {
			w := newWctx()
			ctxMu.Lock()
			ctxs = append(ctxs, w)
			ctxMu.Unlock()
			return w
		}}
		var sanity atomic.Int64
		var versions atomic.Int64
		var scope []string
		stopped := false

		for _, pl := range plans {
			n := pl.n
			shapes := genShapes(n)
			sets := make([][]lset, len(pl.dims))
			total := len(pl.fl)
			var dimDesc []string
			for d, dim := range pl.dims {
				sets[d] = genLevelSets(shapes, dim.maxFiles, dim.level == 0)
				total *= len(sets[d])
				dimDesc = append(dimDesc, fmt.Sprintf("L%d<=%d files (%d sets)", dim.level, dim.maxFiles, len(sets[d])))
			}
			nq := 0
			for _, ql := range pl.qLevels {
				if ql == 0 {
					nq += len(l0MaxLevels)
				} else {
					nq += manifest.NumLevels - ql
				}
			}
			// decode: the last level varies fastest; the empty set and single files come first
			decode := func(idx int) (pick [4]int, flavour, nfiles int) {
				r := idx
				for d := len(pl.dims) - 1; d >= 0; d-- {
					pick[d] = r % len(sets[d])
					r /= len(sets[d])
					nfiles += sets[d][pick[d]].n
				}
				return pick, r, nfiles
			}
			nLayouts := total
			if pl.maxTotal > 0 {
				nLayouts = 0
				for idx := 0; idx < total; idx++ {
					if _, _, nf := decode(idx); nf <= pl.maxTotal {
						nLayouts++
					}
				}
				dimDesc = append(dimDesc, fmt.Sprintf("<=%d files in total", pl.maxTotal))
			}
			desc := fmt.Sprintf("plan %s: %d keys, %d shapes, flavour(s) %v, %s = %d layouts x (%d (level,maxLevel) pairs x %d key ranges + %d output levels x %d compaction bounds)",
				pl.name, n, len(shapes), pl.fl, strings.Join(dimDesc, ", "), nLayouts, nq, n*(n+1)/2, len(pl.outLevels), len(shapes))
			if stopped {
				scope = append(scope, desc+" NOT RUN (budget)")
				continue
			}
			done, complete := c.EachNamed(pl.name, total, func(idx int) {
				var buf [8]mfile
				fs := buf[:0]
				pick, flavour, nfiles := decode(idx)
				if pl.maxTotal > 0 && nfiles > pl.maxTotal {
					return
				}
				for d, dim := range pl.dims {
					ls := sets[d][pick[d]]
					for j := 0; j < ls.n; j++ {
						sh := shapes[ls.f[j]]
						kind := kindPoint
						if sh.Excl {
							kind = exclKind(ls.f[j]+j+dim.level, pl.fl[flavour])
						}
						fs = append(fs, mfile{level: dim.level, sh: sh, kind: kind, slot: j, m: sh.mask()})
					}
				}
				w := pool.Get().(*wctx)
				defer pool.Put(w)
				l := w.build(n, fs)
				versions.Add(1)
				if err := l.v.CheckOrdering(); err != nil {
					// the harness must only build versions Pebble considers well-formed
					if sanity.Add(1) == 1 {
						c.Incomplete(fmt.Sprintf("harness built an ill-formed version (%s): %v", l.layout(), err))
					}
					return
				}
				st := &w.st
				*st = stats{fails: st.fails[:0], more: st.more[:0], nfiles: len(fs), idx: idx}
				l.runAll(w, st, pl.qLevels, pl.outLevels, shapes)
				c.Eval(st.evals)
				c.Trans(st.trans + 1)
				for i, cnt := range st.outcomes {
					w.outcomes[i] += cnt
				}
				if st.nontrivial {
					h := uint64(14695981039346656037) ^ uint64(n)
					for _, f := range fs {
						h = (h ^ uint64(f.level<<12|f.sh.X<<8|f.sh.Y<<4|f.kind<<1|f.slot)) * 1099511628211
						if f.sh.Excl {
							h = (h ^ 0x9e37) * 1099511628211
						}
					}
					c.Nontrivial(h)
				}
				if len(st.fails) > 0 {
					report(st, idx)
				}
				if idx%20011 == 4999 {
					c.Sample(Case{Keys: n, Files: l.specs(), Layout: l.layout()})
				}
			})
			emit(c)
			if !complete {
				stopped = true
				c.Incomplete(fmt.Sprintf("budget expired in plan %s after %d of %d enumeration indices (every layout that was started was checked for all its queries and compactions; earlier plans are complete, later plans were not run)", pl.name, done, total))
				desc += fmt.Sprintf(" INCOMPLETE (%d done)", done)
			}
			scope = append(scope, desc)
		}
		for _, w := range ctxs {
			for h := range w.seen {
				c.State(h)
			}
			for i, cnt := range w.outcomes {
				if cnt != 0 {
					c.OutcomeN(outcomeNames[i], cnt)
				}
			}
		}
		c.Note("scope", strings.Join(scope, "; "))
		c.Note("versions_built", versions.Load())
	})
}
