// C24-faults: sub-check of C24 (atomic markers). Engine B, fault enumeration: every short script of
// Marker.Move / RemoveObsolete / Close+LocateMarker runs on the real vfs/atomicfs code over a
// crashable MemFS behind an FS wrapper that (a) fails ONE chosen FS call position of the marker
// code (two in the deeper plans), either before the call is performed or after it was performed
// ("the error does not guarantee that it did not happen"), (b) returns directory listings sorted
// ascending or descending (the listing order is an environment choice; the marker code must be
// right for every order) and (c) takes the crash images of MemFS's crash model before every
// mutating call and after every operation. The caller's reaction to an error is enumerated as well:
// retry the same call, or give up and go on with the next operation (a Move of another value).
//
// Oracle (property C24 + the doc comment of Marker.Move: "If Move returns a nil error, the new marker
// value is guaranteed to be persisted to stable storage. If Move returns an error, the current value
// of the marker may be the old value or the new value. Callers may retry a Move error."):
// allowed = {value of the last Move that returned nil} + {values of the Moves that returned an
// error (or died in the by-design panic of a failed directory sync) since then} + {value of the
// Move in flight}. Every read of the marker - ReadMarker and a fresh LocateMarker on the live
// directory after every operation, under both listing orders, and on every crash image, also after
// RemoveObsolete and after a further Move on the image - must return an allowed value, and
// LocateMarker must never fail without an injected fault.
package c24f

import (
	"encoding/json"
	"fmt"
	"runtime/debug"
	"sort"
	"strings"
	"sync"
	"testing"

	"github.com/cockroachdb/errors"
	"github.com/cockroachdb/pebble/internal/verif/vlib"
	"github.com/cockroachdb/pebble/vfs"
	"github.com/cockroachdb/pebble/vfs/atomicfs"
)

const (
	dirName    = "d"
	markerName = "mk"
)

// Fault fails the Pos-th (1-based) FS call made by the marker code after the initial LocateMarker.
// After=false: the call is not performed; After=true: it is performed and then reported as failed.
type Fault struct {
	Pos   int  `json:"pos"`
	After bool `json:"after,omitempty"`
}

// Case is one execution (the replay artefact).
type Case struct {
	// Script symbols: "mA" "mB" "mC" = Move(value), "R" = RemoveObsolete, "L" = Close + LocateMarker
	// (a fresh Marker on the same directory, as a reopened process would do).
	Script   []string `json:"script"`
	ListDesc bool     `json:"list_desc"` // directory listings sorted descending (else ascending) for the script's own calls
	Faults   []Fault  `json:"faults,omitempty"`
	// Retry[i]: what the caller does when Move/RemoveObsolete returns the error caused by Faults[i]:
	// retry the same call (true) or go on with the next operation (false; also beyond the slice).
	Retry []bool `json:"retry,omitempty"`
}

func (cs Case) String() string {
	b, _ := json.Marshal(cs)
	return string(b)
}

var errInjected = errors.New("verif: injected I/O error")

type opKind int

const (
	kCreate opKind = iota
	kFileSync
	kFileClose
	kRemove
	kDirSync
	kList
	kOpenDir
)

var kindNames = [...]string{"Create", "FileSync", "FileClose", "Remove", "DirSync", "List", "OpenDir"}

func (k opKind) String() string { return kindNames[k] }

// modeMatters: for these calls "performed, then reported as failed" differs from "not performed".
func (k opKind) modeMatters() bool {
	return k == kCreate || k == kFileSync || k == kRemove || k == kDirSync
}

// ---------------------------------------------------------------------------------------------
// FS wrappers.

// ordFS only fixes the listing order (used for reads that are not part of the script).
type ordFS struct {
	vfs.FS
	desc bool
}

func sortNames(ls []string, desc bool) {
	sort.Strings(ls)
	if desc {
		for i, j := 0, len(ls)-1; i < j; i, j = i+1, j-1 {
			ls[i], ls[j] = ls[j], ls[i]
		}
	}
}

func (o ordFS) List(dir string) ([]string, error) {
	ls, err := o.FS.List(dir)
	if err != nil {
		return nil, err
	}
	sortNames(ls, o.desc)
	return ls, nil
}

// faultFS is the FS the script's Marker runs on.
type faultFS struct {
	vfs.FS // the MemFS
	e      *exec
}

// point is called before every FS call of the marker code. It returns 0 (no fault), 1 (fail without
// performing) or 2 (perform, then fail).
func (e *exec) point(k opKind, path string) int {
	if !e.enabled {
		return 0
	}
	e.calls++
	if (k == kCreate || k == kFileSync || k == kRemove || k == kDirSync) && e.calls > e.lastFault {
		e.capture(fmt.Sprintf("before call %d %v %s", e.calls, k, path))
	}
	for _, f := range e.cs.Faults {
		if f.Pos == e.calls {
			e.hits = append(e.hits, hit{e.calls, k, f.After, path})
			e.faultInCall = true
			switch k {
			case kFileSync:
				e.fileSyncFailedInCall = true
			case kDirSync:
				e.dirSyncFailedInCall = true
			}
			if e.verbose {
				fmt.Printf("    call %d %v %s: FAULT (after=%v)\n", e.calls, k, path, f.After)
			}
			if f.After && k.modeMatters() {
				return 2
			}
			return 1
		}
	}
	if e.verbose {
		fmt.Printf("    call %d %v %s\n", e.calls, k, path)
	}
	return 0
}

func (f *faultFS) Create(name string, cat vfs.DiskWriteCategory) (vfs.File, error) {
	switch f.e.point(kCreate, name) {
	case 1:
		return nil, errInjected
	case 2:
		if g, err := f.FS.Create(name, cat); err == nil {
			g.Close()
		}
		return nil, errInjected
	}
	g, err := f.FS.Create(name, cat)
	if err != nil {
		return nil, err
	}
	return &faultFile{File: g, e: f.e, path: name}, nil
}

func (f *faultFS) Remove(name string) error {
	switch f.e.point(kRemove, name) {
	case 1:
		return errInjected
	case 2:
		f.FS.Remove(name)
		return errInjected
	}
	return f.FS.Remove(name)
}

func (f *faultFS) List(dir string) ([]string, error) {
	if f.e.point(kList, dir) != 0 {
		return nil, errInjected
	}
	ls, err := f.FS.List(dir)
	if err != nil {
		return nil, err
	}
	sortNames(ls, f.e.cs.ListDesc)
	return ls, nil
}

func (f *faultFS) OpenDir(name string) (vfs.File, error) {
	if f.e.point(kOpenDir, name) != 0 {
		return nil, errInjected
	}
	g, err := f.FS.OpenDir(name)
	if err != nil {
		return nil, err
	}
	return &faultFile{File: g, e: f.e, path: name, dir: true}, nil
}

type faultFile struct {
	vfs.File
	e      *exec
	path   string
	dir    bool
	closed bool
}

func (f *faultFile) Sync() error {
	k := kFileSync
	if f.dir {
		k = kDirSync
	}
	switch f.e.point(k, f.path) {
	case 1:
		return errInjected
	case 2:
		f.File.Sync()
		return errInjected
	}
	return f.File.Sync()
}

func (f *faultFile) Close() error {
	if f.closed {
		return nil // a second Close is the marker code's business only on the real handle
	}
	if f.dir {
		// closing the directory handle is not a fault position
		f.closed = true
		return f.File.Close()
	}
	failed := f.e.point(kFileClose, f.path) != 0
	f.closed = true
	err := f.File.Close() // the handle is released either way
	if failed {
		return errInjected
	}
	return err
}

// ---------------------------------------------------------------------------------------------
// Judging crash images. What a reader finds in an image is a pure function of the image's content,
// so the verdict is computed once per distinct image (content hash) and shared.

type imgRes struct {
	val   [2]string // marker value read with ascending / descending listings
	ok    [2]bool   // val[o] was read
	class string    // image-inherent problem ("" = none)
	desc  string
}

var imgCache sync.Map // uint64 -> *imgRes
var ordName = [2]string{"ascending", "descending"}

// cloneFS copies a crash image (in which everything is synced) so that it can be modified.
func cloneFS(m *vfs.MemFS) *vfs.MemFS {
	us := m.VerifCrashUnits()
	return m.VerifCrashClone(us, make([]bool, len(us)))
}

// liveCopy rebuilds the live content of the marker directory (marker files are empty: the names are
// the content) in a fresh, fully synced MemFS: what a new process finds when nothing crashed.
func liveCopy(m *vfs.MemFS) *vfs.MemFS {
	n := vfs.NewCrashableMem()
	if err := n.MkdirAll(dirName, 0o755); err != nil {
		panic(err)
	}
	ls, err := m.List(dirName)
	if err != nil {
		panic(err)
	}
	for _, name := range ls {
		f, err := n.Create(n.PathJoin(dirName, name), vfs.WriteCategoryUnspecified)
		if err != nil {
			panic(err)
		}
		f.Sync()
		f.Close()
	}
	for _, d := range []string{"", dirName} {
		f, err := n.OpenDir(d)
		if err != nil {
			panic(err)
		}
		f.Sync()
		f.Close()
	}
	return n
}

func dirListing(fs vfs.FS) string {
	ls, _ := fs.List(dirName)
	sort.Strings(ls)
	return "[" + strings.Join(ls, " ") + "]"
}

// readAll reads the marker from fs (never modified: all work happens on clones) under both listing
// orders: ReadMarker, a fresh LocateMarker, RemoveObsolete on it, and a further Move.
func readAll(fs *vfs.MemFS) *imgRes {
	r := &imgRes{}
	fail := func(class, format string, a ...any) *imgRes {
		if r.class == "" {
			r.class, r.desc = class, fmt.Sprintf(format, a...)+"; directory "+dirListing(fs)
		}
		return r
	}
	for o := 0; o < 2; o++ {
		ord := ordName[o]
		func() {
			defer func() {
				if p := recover(); p != nil {
					fail("panic-reading-marker", "%s listing: panic %v", ord, p)
				}
			}()
			v, err := atomicfs.ReadMarker(ordFS{fs, o == 1}, dirName, markerName)
			if err != nil {
				fail("read-marker-error", "%s listing: ReadMarker: %v", ord, err)
				return
			}
			r.val[o], r.ok[o] = v, true
			w := ordFS{cloneFS(fs), o == 1}
			m, v2, err := atomicfs.LocateMarker(w, dirName, markerName)
			if err != nil {
				fail("locate-error", "%s listing: LocateMarker: %v", ord, err)
				return
			}
			defer m.Close()
			if v2 != v {
				fail("locate-disagrees-with-read", "%s listing: ReadMarker=%q LocateMarker=%q", ord, v, v2)
				return
			}
			if err := m.RemoveObsolete(); err != nil {
				fail("remove-obsolete-error", "%s listing: RemoveObsolete after LocateMarker: %v", ord, err)
				return
			}
			if v3, err := atomicfs.ReadMarker(w, dirName, markerName); err != nil || v3 != v {
				fail("remove-obsolete-changes-marker", "%s listing: LocateMarker=%q, after RemoveObsolete ReadMarker=%q err=%v (directory then %s)", ord, v, v3, err, dirListing(w))
				return
			}
			// the process continues: a further Move must win over whatever files are there
			if err := m.Move("Z"); err != nil {
				fail("later-move-error", "%s listing: Move(Z) after LocateMarker: %v", ord, err)
				return
			}
			v4, err := atomicfs.ReadMarker(w, dirName, markerName)
			if err == nil && v4 == "Z" {
				if err = m.RemoveObsolete(); err == nil {
					v4, err = atomicfs.ReadMarker(w, dirName, markerName)
				}
			}
			if err != nil || v4 != "Z" {
				fail("later-move-shadowed", "%s listing: after LocateMarker=%q, Move(Z) [, RemoveObsolete] the marker reads %q err=%v (directory then %s)", ord, v, v4, err, dirListing(w))
			}
		}()
	}
	if r.class == "" && r.val[0] != r.val[1] {
		fail("marker-depends-on-listing-order", "the marker reads %q with ascending and %q with descending directory listings (two marker files tie for newest)", r.val[0], r.val[1])
	}
	return r
}

// ---------------------------------------------------------------------------------------------
// One execution.

type hit struct {
	call  int
	kind  opKind
	after bool
	path  string
}

func (h hit) String() string {
	mode := "not performed"
	if h.after && h.kind.modeMatters() {
		mode = "performed, then reported failed"
	}
	return fmt.Sprintf("call %d %v %s (%s)", h.call, h.kind, h.path, mode)
}

type violation struct{ class, desc string }

type exec struct {
	cs      Case
	mem     *vfs.MemFS
	fs      *faultFS
	verbose bool
	enabled bool

	calls                int
	hits                 []hit
	faultInCall          bool
	fileSyncFailedInCall bool
	dirSyncFailedInCall  bool
	asked                []int // indices of the faults after which the caller had to decide (retry / go on)
	surfaced             int   // faults that reached the caller as an error or as the by-design panic
	panics               int   // by-design directory-sync panics

	acked    string   // value of the last Move that returned nil ("" initially)
	maybe    []string // values of failed Moves since then
	inflight *string
	step     string // description of where the script is

	images, imgJudged int
	maxUnits          int
	newStates         []uint64
	viols             []violation
	label             []string
	// Everything before the last fault position is the same execution as the one with that fault
	// removed (enumerated and judged on its own): the checks start at the last fault.
	lastFault int
}

func (e *exec) allowed() []string {
	a := append([]string{e.acked}, e.maybe...)
	if e.inflight != nil {
		a = append(a, *e.inflight)
	}
	return a
}

func in(v string, set []string) bool {
	for _, s := range set {
		if s == v {
			return true
		}
	}
	return false
}

func (e *exec) violate(class, format string, a ...any) {
	d := fmt.Sprintf(format, a...)
	for _, v := range e.viols {
		if v.class == class {
			return
		}
	}
	var hs []string
	for _, h := range e.hits {
		hs = append(hs, h.String())
	}
	e.viols = append(e.viols, violation{class, fmt.Sprintf("%s [%s; faults hit: %v] %s", e.cs, e.step, hs, d)})
	if e.verbose {
		fmt.Printf("  VIOLATION %s: %s\n", class, d)
	}
}

// capture judges every crash image of this instant: all subsets of the unsynced units (MemFS's
// crash model: unsynced directory entries and unsynced 4KiB file blocks survive independently;
// unsynced removals never survive), the strict image (nothing unsynced survives) first.
func (e *exec) capture(at string) {
	allowed := e.allowed()
	during := e.inflight != nil
	e.mem.VerifCrashEnum(func(units []vfs.VerifCrashUnit, clone func([]bool) *vfs.MemFS) {
		n := len(units)
		e.maxUnits = max(e.maxUnits, n)
		keep := make([]bool, n)
		one := func() {
			kept := 0
			for i, u := range units {
				if keep[i] {
					kept++
					if u.Dep >= 0 && !keep[u.Dep] {
						return
					}
				}
			}
			img := clone(keep)
			h := img.VerifHash()
			e.images++
			var r *imgRes
			if c, ok := imgCache.Load(h); ok {
				r = c.(*imgRes)
			} else {
				r = readAll(img)
				if _, loaded := imgCache.LoadOrStore(h, r); !loaded {
					e.newStates = append(e.newStates, h)
				}
				e.imgJudged++
			}
			what := fmt.Sprintf("crash image %s with %d of %d unsynced units surviving %v", at, kept, n, unitNames(units, keep))
			if e.verbose {
				fmt.Printf("      %s: reads %q/%q, allowed %q %s\n", what, r.val[0], r.val[1], allowed, r.class)
			}
			for o := 0; o < 2; o++ {
				if r.ok[o] && !in(r.val[o], allowed) {
					class := "stale-marker-after-crash"
					if during {
						class = "crash-during-move-neither-old-nor-new"
					}
					e.violate(class, "%s: the marker reads %q (%s listing), allowed values %q; directory %s", what, r.val[o], ordName[o], allowed, dirListing(img))
					return
				}
			}
			if r.class != "" {
				e.violate(r.class+"-after-crash", "%s: %s", what, r.desc)
			}
		}
		one() // strict
		if n == 0 {
			return
		}
		if n <= 6 {
			for m := 1; m < 1<<uint(n); m++ {
				for i := 0; i < n; i++ {
					keep[i] = m&(1<<uint(i)) != 0
				}
				one()
			}
			return
		}
		// more than 6 unsynced units never occurs inside the stated bounds; stay exhaustive for the
		// subsets within one flip of none / all and say so
		e.label = append(e.label, "capped-subsets")
		for _, base := range []bool{true, false} {
			for i := -1; i < n; i++ {
				for k := range keep {
					keep[k] = base
				}
				if i >= 0 {
					keep[i] = !base
				} else if !base {
					continue
				}
				one()
			}
		}
	})
}

func unitNames(units []vfs.VerifCrashUnit, keep []bool) []string {
	var out []string
	for i, u := range units {
		if keep[i] {
			out = append(out, strings.TrimPrefix(u.Path, "/"+dirName+"/"))
		}
	}
	return out
}

// afterOp: the checks made after every operation returned: live directory under both listing
// orders (ReadMarker, fresh LocateMarker, RemoveObsolete and a further Move on a copy of the live
// directory), then the crash images.
func (e *exec) afterOp() {
	if e.calls < e.lastFault {
		return // judged in the execution that shares this prefix
	}
	allowed := e.allowed()
	live := liveCopy(e.mem) // the live directory: everything, synced or not
	h := live.VerifHash()
	var r *imgRes
	if c, ok := imgCache.Load(h); ok {
		r = c.(*imgRes)
	} else {
		r = readAll(live)
		if _, loaded := imgCache.LoadOrStore(h, r); !loaded {
			e.newStates = append(e.newStates, h)
		}
	}
	if e.verbose {
		fmt.Printf("    live directory %s reads %q/%q, allowed %q %s\n", dirListing(live), r.val[0], r.val[1], allowed, r.class)
	}
	stale := false
	for o := 0; o < 2 && !stale; o++ {
		if r.ok[o] && !in(r.val[o], allowed) {
			stale = true
			e.violate("stale-marker-live", "the live directory %s reads %q (%s listing), allowed values %q", dirListing(live), r.val[o], ordName[o], allowed)
		}
	}
	if !stale && r.class != "" {
		e.violate(r.class+"-live", "live directory: %s", r.desc)
	}
	e.capture("after " + e.step)
}

// guard runs f and reports a panic.
func guard(f func() error) (err error, pan any) {
	defer func() {
		if p := recover(); p != nil {
			pan = p
		}
	}()
	return f(), nil
}

// retry: the caller's reaction to an error, indexed by the fault that caused it (the latest hit).
func (e *exec) retry() bool {
	i := len(e.hits) - 1
	e.asked = append(e.asked, i)
	return i >= 0 && i < len(e.cs.Retry) && e.cs.Retry[i]
}

func (e *exec) askedFor(i int) bool {
	for _, a := range e.asked {
		if a == i {
			return true
		}
	}
	return false
}

// locate opens a fresh Marker through the faulting FS; an injected fault makes the caller retry.
func (e *exec) locate() *atomicfs.Marker {
	for attempt := 0; ; attempt++ {
		e.faultInCall = false
		var m *atomicfs.Marker
		var v string
		err, pan := guard(func() (err error) {
			m, v, err = atomicfs.LocateMarker(e.fs, dirName, markerName)
			return err
		})
		if pan != nil {
			e.violate("panic", "LocateMarker panics: %v", pan)
			return nil
		}
		if err != nil {
			if !e.faultInCall || attempt > len(e.cs.Faults) {
				e.violate("locate-error", "LocateMarker fails without an injected fault: %v; directory %s", err, dirListing(e.mem))
				return nil
			}
			e.surfaced++
			if e.verbose {
				fmt.Printf("  LocateMarker -> %v (retrying)\n", err)
			}
			continue
		}
		if e.verbose {
			fmt.Printf("  LocateMarker -> %q\n", v)
		}
		if !in(v, e.allowed()) {
			e.violate("stale-marker-live", "LocateMarker (listing descending=%v) returns %q, allowed values %q; directory %s", e.cs.ListDesc, v, e.allowed(), dirListing(e.mem))
		}
		return m
	}
}

func (e *exec) addMaybe(v string) {
	if v != e.acked && !in(v, e.maybe) {
		e.maybe = append(e.maybe, v)
	}
}

func run(cs Case, verbose bool) *exec {
	e := &exec{cs: cs, verbose: verbose}
	if !verbose { // a replay judges the whole execution
		for _, f := range cs.Faults {
			e.lastFault = max(e.lastFault, f.Pos)
		}
	}
	e.mem = vfs.NewCrashableMem()
	if err := e.mem.MkdirAll(dirName, 0o755); err != nil {
		panic(err)
	}
	for _, d := range []string{"", dirName} { // the directory itself is durable before the marker is used
		f, err := e.mem.OpenDir(d)
		if err != nil {
			panic(err)
		}
		f.Sync()
		f.Close()
	}
	e.fs = &faultFS{FS: e.mem, e: e}
	e.step = "initial LocateMarker"
	m := e.locate()
	if m == nil {
		return e
	}
	e.enabled = true
	defer func() {
		e.enabled = false
		if m != nil {
			guard(m.Close)
		}
	}()
	for i := 0; i < len(cs.Script) && len(e.viols) == 0; i++ {
		op := cs.Script[i]
		for attempt := 1; ; attempt++ {
			e.step = fmt.Sprintf("op %d %s attempt %d", i+1, op, attempt)
			e.faultInCall, e.fileSyncFailedInCall, e.dirSyncFailedInCall = false, false, false
			again := false
			switch op[0] {
			case 'm':
				v := op[1:]
				e.inflight = &v
				err, pan := guard(func() error { return m.Move(v) })
				e.inflight = nil
				if e.verbose {
					fmt.Printf("  %s: Move(%q) -> err=%v panic=%v\n", e.step, v, err, pan)
				}
				switch {
				case pan != nil && !e.dirSyncFailedInCall:
					e.violate("panic", "Move(%q) panics: %v", v, pan)
				case pan != nil:
					// "If an error occurs while syncing the directory, Move panics": fail-stop by
					// design. The process is gone; the directory is left as it is (judged live and as
					// crash images with the Move unacknowledged) and a new process takes over.
					e.panics++
					e.surfaced++
					e.addMaybe(v)
					e.afterOp()
					guard(m.Close)
					e.step += " (restart after the by-design panic)"
					if m = e.locate(); m == nil {
						return e
					}
				case err != nil && !e.faultInCall:
					e.violate("move-error-without-fault", "Move(%q) returns %v although no fault was injected into this call", v, err)
				case err != nil:
					e.surfaced++
					e.addMaybe(v)
					e.afterOp()
					e.noteRead(v)
					again = e.retry()
				default:
					if e.fileSyncFailedInCall {
						e.violate("move-acked-although-marker-file-sync-failed", "Move(%q) returns nil although the Sync of the new marker file failed in this call: the contract promises that a nil return means persisted", v)
					}
					e.acked, e.maybe = v, nil
					e.afterOp()
				}
			case 'R':
				err, pan := guard(m.RemoveObsolete)
				if e.verbose {
					fmt.Printf("  %s: RemoveObsolete -> err=%v panic=%v\n", e.step, err, pan)
				}
				switch {
				case pan != nil:
					e.violate("panic", "RemoveObsolete panics: %v", pan)
				case err != nil && !e.faultInCall:
					e.violate("remove-obsolete-error-without-fault", "RemoveObsolete returns %v although no fault was injected into this call", err)
				case err != nil:
					e.surfaced++
					e.afterOp()
					again = e.retry()
				default:
					e.afterOp()
				}
			case 'L':
				guard(m.Close)
				if m = e.locate(); m == nil {
					return e
				}
				e.afterOp()
			}
			if !again || len(e.viols) > 0 {
				break
			}
		}
	}
	return e
}

// noteRead records, for the outcome histogram, what the marker reads right after a failed Move.
func (e *exec) noteRead(attempted string) {
	v, err := atomicfs.ReadMarker(ordFS{e.mem, false}, dirName, markerName)
	switch {
	case err != nil:
	case v == attempted && v != e.acked:
		e.label = append(e.label, "failed-move-reads-new")
	default:
		e.label = append(e.label, "failed-move-reads-old")
	}
}

func (e *exec) outcome() string {
	if len(e.hits) == 0 {
		return "no fault hit"
	}
	var parts []string
	for _, h := range e.hits {
		mode := ""
		if h.kind.modeMatters() && len(e.hits) == 1 { // keep the histogram of two-fault runs readable
			mode = map[bool]string{false: "(not performed)", true: "(performed)"}[h.after]
		}
		parts = append(parts, h.kind.String()+mode)
	}
	s := "fault " + strings.Join(parts, "+")
	switch {
	case e.panics > 0:
		s += " -> by-design panic (fail-stop), restart"
	case e.surfaced == 0:
		s += " -> absorbed (no error returned)"
	default:
		s += " -> error returned"
	}
	seen := map[string]bool{}
	for _, l := range e.label {
		if !seen[l] {
			seen[l] = true
			s += " " + l
		}
	}
	return s
}

// ---------------------------------------------------------------------------------------------
// Enumeration.

var values = []string{"A", "B", "C"}
var interludes = [][]string{nil, {"R"}, {"L"}, {"L", "R"}}

// scripts of exactly d Moves: every value sequence (both lexicographic orders between consecutive
// values, and repeats), after every Move one of the interludes -, R, L, L R.
func scriptCount(d int) int {
	n := 1
	for i := 0; i < d; i++ {
		n *= len(values) * len(interludes)
	}
	return n
}

func scriptDecode(i, d int) []string {
	k := len(values) * len(interludes)
	sym := make([]int, d)
	for j := d - 1; j >= 0; j-- {
		sym[j] = i % k
		i /= k
	}
	var s []string
	for _, x := range sym {
		// simplest first: interlude varies slowest inside a position
		s = append(s, "m"+values[x%len(values)])
		s = append(s, interludes[x/len(values)]...)
	}
	return s
}

type plan struct {
	d      int
	faults int
}

type tally struct {
	evals, trans, images, judged int64
	maxUnits                     int
	outcomes                     map[string]int64
}

// explore runs every fault placement of one (script, listing order) and returns through t.
func explore(c *vlib.Ctx, script []string, desc bool, nf int, t *tally, sample bool) {
	report := func(e *exec) {
		for _, h := range e.newStates {
			c.State(h)
		}
		if nf > 1 && len(e.cs.Faults) < nf {
			return // counted and judged by the plan with fewer faults over the same scripts
		}
		t.evals++
		t.trans += int64(e.calls)
		t.images += int64(e.images)
		t.maxUnits = max(t.maxUnits, e.maxUnits)
		t.judged += int64(e.imgJudged)
		t.outcomes[e.outcome()]++
		if e.surfaced > 0 {
			c.Nontrivial(vlib.Hash(e.cs.String()))
		}
		for _, v := range e.viols {
			c.Violation(v.class, v.desc, e.cs)
		}
	}
	var rec func(prefix Case, from, upto int, left int)
	// rec enumerates the next fault at every call position in (from, upto] of the execution `prefix`
	rec = func(prefix Case, from, upto int, left int) {
		for pos := from + 1; pos <= upto; pos++ {
			for mode := 0; mode < 2; mode++ {
				cs := prefix
				cs.Faults = append(append([]Fault(nil), prefix.Faults...), Fault{Pos: pos, After: mode == 1})
				cs.Retry = append(append([]bool(nil), prefix.Retry...), false)
				e := run(cs, false)
				if len(e.hits) != len(cs.Faults) {
					// the position was not reached (cannot happen: the execution is deterministic up
					// to it); count it so that it would be noticed
					t.outcomes["fault position not reached"]++
					break
				}
				if mode == 1 && !e.hits[len(e.hits)-1].kind.modeMatters() {
					break // same execution as mode 0
				}
				report(e)
				if sample && pos == from+2 {
					c.Sample(map[string]any{"case": cs, "faults_hit": fmt.Sprint(e.hits), "outcome": e.outcome(), "fs_calls": e.calls})
				}
				if left > 1 {
					rec(cs, pos, e.calls, left-1)
				}
				if e.askedFor(len(cs.Faults) - 1) {
					// the caller saw an error: the other reaction (retry the same call)
					cs2 := cs
					cs2.Retry = append(append([]bool(nil), prefix.Retry...), true)
					e2 := run(cs2, false)
					report(e2)
					if left > 1 {
						rec(cs2, pos, e2.calls, left-1)
					}
				}
			}
		}
	}
	base := Case{Script: script, ListDesc: desc}
	e0 := run(base, false)
	report(e0)
	rec(base, 0, e0.calls, nf)
}

func hasL(script []string) bool {
	for _, s := range script {
		if s == "L" {
			return true
		}
	}
	return false
}

func TestCheck(t *testing.T) {
	vlib.Main(t, "C24", func(c *vlib.Ctx) {
		if c.ReplayPath() != "" {
			var cs Case
			if err := c.LoadReplay(&cs); err != nil {
				c.Incomplete("cannot load the replay artefact: " + err.Error())
				return
			}
			fmt.Printf("replay %s\n", cs)
			e := run(cs, true)
			c.Eval(1)
			c.Trans(e.calls)
			fmt.Printf("outcome: %s; %d FS calls, %d crash images\n", e.outcome(), e.calls, e.images)
			for _, v := range e.viols {
				c.Violation(v.class, v.desc, cs)
			}
			return
		}
		debug.SetGCPercent(800) // tiny live heap, allocation-heavy (one MemFS clone per crash image)
		// simplest first: one fault on short scripts, then deeper, then two faults
		plans := []plan{{1, 1}, {2, 1}, {3, 1}, {1, 2}, {2, 2}}
		if c.Thorough() {
			plans = []plan{{1, 1}, {2, 1}, {3, 1}, {1, 2}, {2, 2}, {4, 1}, {3, 2}}
		}
		var scope []string
		var mu sync.Mutex
		total := tally{outcomes: map[string]int64{}}
		for _, p := range plans {
			n := scriptCount(p.d) * 2
			var pe, pi int64
			done, complete := c.EachNamed(fmt.Sprintf("d%d-f%d", p.d, p.faults), n, func(i int) {
				script := scriptDecode(i/2, p.d)
				desc := i%2 == 1
				if desc && !hasL(script) {
					// without a LocateMarker inside the script the listing order only matters to the
					// readers, and every read is made under both orders anyway
					return
				}
				lt := tally{outcomes: map[string]int64{}}
				explore(c, script, desc, p.faults, &lt, i%397 == 5)
				c.Eval(int(lt.evals))
				c.Trans(int(lt.trans))
				mu.Lock()
				pe += lt.evals
				pi += lt.images
				total.images += lt.images
				total.maxUnits = max(total.maxUnits, lt.maxUnits)
				total.judged += lt.judged
				for k, v := range lt.outcomes {
					total.outcomes[k] += v
				}
				mu.Unlock()
			})
			s := fmt.Sprintf("%d Moves x %s: %d scripts x listing orders -> %d executions, %d crash images", p.d, map[int]string{1: "0..1 faults", 2: "exactly 2 faults"}[p.faults], scriptCount(p.d), pe, pi)
			if !complete {
				c.Incomplete(fmt.Sprintf("budget expired in plan (%d Moves, %s) after %d of %d (script, listing order) items; completely covered: %v", p.d, map[int]string{1: "0..1 faults", 2: "exactly 2 faults"}[p.faults], done, n, scope))
				scope = append(scope, s+" (INCOMPLETE)")
				break
			}
			scope = append(scope, s)
		}
		for k, v := range total.outcomes {
			c.OutcomeN(k, v)
		}
		c.Note("max_unsynced_units_at_a_crash_point", total.maxUnits)
		c.NoteAdd("crash_images_judged", total.images)
		c.NoteAdd("crash_image_verdicts_computed", total.judged)
		c.Note("scope", strings.Join(scope, "; "))
	})
}
