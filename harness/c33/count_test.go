package c33

import (
	"fmt"
	"os"
	"testing"
)

func countFam(f family) (n, nMemExtra int) {
	opts := levelOptions(f.maxVers, true)
	var rec func(d, npts, ntombs, ndup, nfiles int, topSingle bool)
	rec = func(d, npts, ntombs, ndup, nfiles int, topSingle bool) {
		if d == f.levels {
			if ntombs < f.minTombs || npts == 0 {
				return
			}
			n++
			if topSingle {
				nMemExtra++
			}
			return
		}
		for _, o := range opts {
			if npts+o.npts > f.maxPts || ntombs+o.ntombs > f.maxTombs || ndup+o.ndup > f.maxDup || nfiles+len(o.files) > f.maxFiles {
				continue
			}
			if f.maxTotal > 0 && npts+o.npts+ntombs+o.ntombs > f.maxTotal {
				continue
			}
			ts := topSingle
			if d == 0 {
				ts = len(o.files) == 1
			}
			rec(d+1, npts+o.npts, ntombs+o.ntombs, ndup+o.ndup, nfiles+len(o.files), ts)
		}
	}
	rec(0, 0, 0, 0, 0, false)
	return
}

// TestCount prints family sizes (development aid; not part of the check).
func TestCount(t *testing.T) {
	if os.Getenv("C33_COUNT") == "" {
		t.Skip()
	}
	fmt.Println("level options:", len(levelOptions(2, true)), len(levelOptions(1, true)))
	for _, L := range []int{1, 2, 3} {
		for _, tot := range []int{2, 3, 4, 5} {
			for _, mt := range []int{1, 2, 3} {
				for _, md := range []int{0, 1} {
					f := family{levels: L, maxVers: 2, maxPts: 9, maxTombs: mt, maxDup: md, maxFiles: 6, maxTotal: tot}
					n, m := countFam(f)
					f.minTombs = 1
					n1, m1 := countFam(f)
					fmt.Printf("L=%d total<=%d tombs<=%d dup<=%d: %d +mem %d (with >=1 tomb: %d +mem %d)\n", L, tot, mt, md, n, m, n1, m1)
				}
			}
		}
	}
}
