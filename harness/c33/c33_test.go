// C33: merged internal iteration over levels matches the model.
//
// Small LSM layouts (<= 3 levels x <= 2 disjoint files per level, point entries over the user keys
// a,b,c with seqnums that respect the level invariant, 0-1 range tombstones per file) are built as
// REAL sstables (sstable.RawWriter on a vfs.MemFS, tombstones through keyspan.Fragmenter exactly as
// level_iter_test.go / merging_iter_test.go do), opened with sstable.NewReader, and wired into the
// real levelIter / mergingIter stack the way DB.constructPointIter wires it (export file
// /verif/export/root/zz_verif_c33.go). Optionally the newest level is a real memTable. For every
// layout, every bound pair and every read seqnum of a menu, EVERY call sequence the
// internalIterator contract permits (depth 3 quick / 4 thorough) over {First, Last, Next, Prev,
// SeekGE(k), SeekLT(k), SeekPrefixGE(k), NextPrefix} (k in a,b,c,d; plus the TrySeekUsingNext
// variants of the two forward seeks where the caller may set the flag) is executed on a fresh
// iterator and every returned entry (user key, seqnum, kind, value) is compared with a cursor over
// the model stream (model_test.go).
package c33

import (
	"bytes"
	"context"
	"fmt"
	"runtime/debug"
	"sync"
	"sync/atomic"
	"testing"
	"time"

	"github.com/cockroachdb/pebble"
	"github.com/cockroachdb/pebble/internal/base"
	"github.com/cockroachdb/pebble/internal/cache"
	"github.com/cockroachdb/pebble/internal/keyspan"
	"github.com/cockroachdb/pebble/internal/manifest"
	"github.com/cockroachdb/pebble/internal/sstableinternal"
	"github.com/cockroachdb/pebble/internal/verif/vlib"
	"github.com/cockroachdb/pebble/objstorage"
	"github.com/cockroachdb/pebble/objstorage/objstorageprovider"
	"github.com/cockroachdb/pebble/sstable"
	"github.com/cockroachdb/pebble/sstable/tablefilters/bloom"
	"github.com/cockroachdb/pebble/vfs"
)

var comparer = base.DefaultComparer

func kindOf(s string) base.InternalKeyKind {
	switch s {
	case "SET":
		return base.InternalKeyKindSet
	case "DEL":
		return base.InternalKeyKindDelete
	case "MERGE":
		return base.InternalKeyKindMerge
	case "SINGLEDEL":
		return base.InternalKeyKindSingleDelete
	}
	panic("kind " + s)
}

func valueOf(p Pt) string {
	if p.Kind == "SET" || p.Kind == "MERGE" {
		return fmt.Sprintf("v-%s-%d", p.K, p.Seq)
	}
	return ""
}

// ---------------------------------------------------------------------------------------------
// Building the real stack.

var fileNumCounter atomic.Uint64

type builtLSM struct {
	stack   *pebble.VerifC33Stack
	levels  []pebble.VerifC33Level
	readers []*sstable.Reader
	mems    []*pebble.VerifC33Mem
	ch      *cache.Handle
	nums    []base.DiskFileNum
}

func (b *builtLSM) close() {
	for _, r := range b.readers {
		r.Close()
	}
	for _, n := range b.nums {
		b.ch.EvictFile(n)
	}
	for _, m := range b.mems {
		m.Free()
	}
}

var memOpts = func() *pebble.Options {
	o := &pebble.Options{}
	o.EnsureDefaults()
	return o
}()

func buildTable(fs vfs.FS, ch *cache.Handle, f File, bloomOn bool, tableNum base.TableNum) (pebble.VerifC33Table, base.DiskFileNum, error) {
	var zero pebble.VerifC33Table
	name := fmt.Sprintf("t%d", tableNum)
	wf, err := fs.Create(name, vfs.WriteCategoryUnspecified)
	if err != nil {
		return zero, 0, err
	}
	wo := sstable.WriterOptions{Comparer: comparer, TableFormat: sstable.TableFormatMax}
	if bloomOn {
		wo.FilterPolicy = bloom.FilterPolicy(10)
	}
	w := sstable.NewRawWriter(objstorageprovider.NewFileWritable(wf), wo)
	for _, p := range f.Pts {
		ik := base.MakeInternalKey([]byte(p.K), base.SeqNum(p.Seq), kindOf(p.Kind))
		if err := w.Add(ik, []byte(valueOf(p)), false /* forceObsolete */, base.KVMeta{}); err != nil {
			return zero, 0, err
		}
	}
	if f.Tomb != nil {
		var frags []keyspan.Span
		fr := keyspan.Fragmenter{Cmp: comparer.Compare, Format: comparer.FormatKey,
			Emit: func(s keyspan.Span) { frags = append(frags, s) }}
		fr.Add(keyspan.Span{Start: []byte(f.Tomb.S), End: []byte(f.Tomb.E),
			Keys: []keyspan.Key{{Trailer: base.MakeTrailer(base.SeqNum(f.Tomb.Seq), base.InternalKeyKindRangeDelete)}}})
		fr.Finish()
		for _, s := range frags {
			if err := w.EncodeSpan(s); err != nil {
				return zero, 0, err
			}
		}
	}
	if err := w.Close(); err != nil {
		return zero, 0, err
	}
	wm, err := w.Metadata()
	if err != nil {
		return zero, 0, err
	}
	rf, err := fs.Open(name)
	if err != nil {
		return zero, 0, err
	}
	readable, err := objstorage.NewSimpleReadable(rf)
	if err != nil {
		return zero, 0, err
	}
	ro := sstable.ReaderOptions{Comparer: comparer, FilterDecoders: []base.TableFilterDecoder{bloom.Decoder}}
	dfn := base.DiskFileNum(fileNumCounter.Add(1))
	if ch != nil {
		ro.CacheOpts = sstableinternal.CacheOptions{CacheHandle: ch, FileNum: dfn}
	}
	r, err := sstable.NewReader(context.Background(), readable, ro)
	if err != nil {
		readable.Close()
		return zero, 0, err
	}
	m := &manifest.TableMetadata{TableNum: tableNum, Size: wm.Size}
	if wm.HasPointKeys {
		m.ExtendPointKeyBounds(comparer.Compare, wm.SmallestPoint, wm.LargestPoint)
	}
	if wm.HasRangeDelKeys {
		m.ExtendPointKeyBounds(comparer.Compare, wm.SmallestRangeDel, wm.LargestRangeDel)
	}
	m.SeqNums = wm.SeqNums
	m.LargestSeqNumAbsolute = wm.SeqNums.High
	m.InitPhysicalBacking()
	return pebble.VerifC33Table{Meta: m, Reader: r}, dfn, nil
}

func buildLSM(l LSM, bloomOn bool, ch *cache.Handle) (*builtLSM, error) {
	b := &builtLSM{ch: ch}
	fs := vfs.NewMem()
	tn := base.TableNum(1)
	for _, lv := range l.Levels {
		if lv.Mem {
			m := pebble.VerifC33NewMem(memOpts, 64<<10)
			b.mems = append(b.mems, m)
			f := lv.Files[0]
			for _, p := range f.Pts {
				var bt pebble.Batch
				var err error
				switch p.Kind {
				case "SET":
					err = bt.Set([]byte(p.K), []byte(valueOf(p)), nil)
				case "MERGE":
					err = bt.Merge([]byte(p.K), []byte(valueOf(p)), nil)
				case "DEL":
					err = bt.Delete([]byte(p.K), nil)
				case "SINGLEDEL":
					err = bt.SingleDelete([]byte(p.K), nil)
				}
				if err == nil {
					err = m.Apply(&bt, base.SeqNum(p.Seq))
				}
				if err != nil {
					b.close()
					return nil, err
				}
			}
			if f.Tomb != nil {
				var bt pebble.Batch
				err := bt.DeleteRange([]byte(f.Tomb.S), []byte(f.Tomb.E), nil)
				if err == nil {
					err = m.Apply(&bt, base.SeqNum(f.Tomb.Seq))
				}
				if err != nil {
					b.close()
					return nil, err
				}
			}
			b.levels = append(b.levels, pebble.VerifC33Level{Mem: m})
			continue
		}
		var vl pebble.VerifC33Level
		for _, f := range lv.Files {
			t, dfn, err := buildTable(fs, ch, f, bloomOn, tn)
			tn++
			if err != nil {
				b.close()
				return nil, err
			}
			b.readers = append(b.readers, t.Reader)
			b.nums = append(b.nums, dfn)
			vl.Tables = append(vl.Tables, t)
		}
		b.levels = append(b.levels, vl)
	}
	b.stack = pebble.VerifC33NewStack(comparer, b.levels)
	return b, nil
}

// ---------------------------------------------------------------------------------------------
// Executing one call sequence on the real stack.

type failure struct {
	class string
	desc  string
	step  int
}

var keyBytes = map[string][]byte{"a": []byte("a"), "b": []byte("b"), "c": []byte("c"), "d": []byte("d")}

func bnd(s string) []byte {
	if s == "" {
		return nil
	}
	return keyBytes[s]
}

func snapSeq(s uint64) base.SeqNum {
	if s == 0 {
		return base.SeqNumMax
	}
	return base.SeqNum(s)
}

func fmtKV(kv *base.InternalKV) string {
	if kv == nil {
		return "nil"
	}
	v, _, err := kv.Value(nil)
	if err != nil {
		return kv.K.String() + ":<" + err.Error() + ">"
	}
	return kv.K.String() + ":" + string(v)
}

func fmtPt(p *Pt) string {
	if p == nil {
		return "nil"
	}
	return fmt.Sprintf("%s#%d,%s:%s", p.K, p.Seq, p.Kind, valueOf(*p))
}

// runSeq executes ops on a fresh iterator and compares each result with exp. It returns the first
// disagreement (nil if none). Panics are reported as class "panic".
func runSeq(b *builtLSM, reuse *pebble.VerifC33Iter, cs *Case, ops []Op, exp []*Pt, verbose bool) (fail *failure) {
	it := b.stack.NewIter(reuse, bnd(cs.Lower), bnd(cs.Upper), snapSeq(cs.Snap))
	stepNo := 0
	defer func() {
		if r := recover(); r != nil {
			fail = &failure{class: "panic", desc: fmt.Sprintf("step %d (%s): panic: %v\n%s", stepNo, ops[stepNo], r, debug.Stack()), step: stepNo}
			return
		}
		if err := it.Close(); err != nil && fail == nil {
			fail = &failure{class: "iter-error", desc: "Close: " + err.Error(), step: len(ops)}
		}
	}()
	iter := it.Iter
	var last *base.InternalKV
	var succ [2]byte
	for i, op := range ops {
		stepNo = i
		var kv *base.InternalKV
		var flags base.SeekGEFlags
		if op.TSUN {
			flags = flags.EnableTrySeekUsingNext()
		}
		switch op.K {
		case "first":
			kv = iter.First()
		case "last":
			kv = iter.Last()
		case "next":
			kv = iter.Next()
		case "prev":
			kv = iter.Prev()
		case "seekge":
			kv = iter.SeekGE(keyBytes[op.Key], flags)
		case "seeklt":
			kv = iter.SeekLT(keyBytes[op.Key], base.SeekLTFlagsNone)
		case "seekprefixge":
			kv = iter.SeekPrefixGE(keyBytes[op.Key], keyBytes[op.Key], flags)
		case "nextprefix":
			// succKey = ImmediateSuccessor of the current prefix (DefaultComparer: key + 0x00).
			succ[0], succ[1] = last.K.UserKey[0], 0
			kv = iter.NextPrefix(succ[:])
		}
		last = kv
		if verbose {
			fmt.Printf("  step %d %-18s got %-28s want %-28s\n", i, op, fmtKV(kv), fmtPt(exp[i]))
		}
		e := exp[i]
		if kv == nil {
			if err := iter.Error(); err != nil {
				return &failure{class: "iter-error", desc: fmt.Sprintf("step %d (%s): iterator error %v", i, op, err), step: i}
			}
			if e != nil {
				return &failure{class: "missing-entry", desc: fmt.Sprintf("step %d (%s): got nil, want %s", i, op, fmtPt(e)), step: i}
			}
			continue
		}
		if e != nil && string(kv.K.UserKey) == e.K && uint64(kv.K.SeqNum()) == e.Seq && kv.K.Kind() == kindOf(e.Kind) {
			v, _, err := kv.Value(nil)
			if err != nil || !bytes.Equal(v, []byte(valueOf(*e))) {
				return &failure{class: "wrong-value", desc: fmt.Sprintf("step %d (%s): got %s, want %s", i, op, fmtKV(kv), fmtPt(e)), step: i}
			}
			continue
		}
		class := "wrong-position"
		switch classify(cs.LSM, cs.Lower, cs.Upper, cs.Snap, string(kv.K.UserKey), uint64(kv.K.SeqNum())) {
		case stDeleted:
			class = "returned-deleted-entry"
		case stInvisible:
			class = "returned-invisible-entry"
		case stOutOfBounds:
			class = "returned-out-of-bounds-entry"
		case stUnknown:
			class = "returned-unknown-entry"
		}
		return &failure{class: class, desc: fmt.Sprintf("step %d (%s): got %s, want %s", i, op, fmtKV(kv), fmtPt(e)), step: i}
	}
	return nil
}

// ---------------------------------------------------------------------------------------------
// Hang detection: mergingIter's tombstone-driven re-seeks rely on a progress argument; a broken one
// shows up as an endless loop, not as a wrong answer. Every worker publishes the sequence it is
// executing; a watchdog reports a sequence that has been running for more than hangAfter.

const hangAfter = 20 * time.Second

type worker struct {
	bc *cache.Cache
	// tick is incremented before every executed sequence; busy is set while one is running.
	tick atomic.Uint64
	busy atomic.Bool
	cur  atomic.Pointer[running]
}

type running struct {
	cs  *Case
	ops []Op
}

type workerPool struct {
	mu   sync.Mutex
	all  []*worker
	free []*worker
}

func (p *workerPool) get() *worker {
	p.mu.Lock()
	defer p.mu.Unlock()
	if n := len(p.free); n > 0 {
		w := p.free[n-1]
		p.free = p.free[:n-1]
		return w
	}
	w := &worker{bc: cache.NewWithShards(4<<20, 1)}
	p.all = append(p.all, w)
	return w
}

func (p *workerPool) put(w *worker) {
	p.mu.Lock()
	p.free = append(p.free, w)
	p.mu.Unlock()
}

// watch polls the workers; on a hang it records a violation and ends the process (the stuck
// goroutine cannot be unwound).
func (p *workerPool) watch(c *vlib.Ctx) {
	type obs struct {
		tick  uint64
		since time.Time
	}
	seen := map[*worker]obs{}
	for {
		time.Sleep(time.Second)
		p.mu.Lock()
		ws := append([]*worker(nil), p.all...)
		p.mu.Unlock()
		now := time.Now()
		for _, w := range ws {
			t := w.tick.Load()
			o, ok := seen[w]
			if !ok || o.tick != t || !w.busy.Load() {
				seen[w] = obs{t, now}
				continue
			}
			if now.Sub(o.since) > hangAfter {
				r := w.cur.Load()
				rc := *r.cs
				rc.Ops = append([]Op(nil), r.ops...)
				c.Violation("hang", rc.String()+": the call sequence did not return within "+hangAfter.String()+" (endless loop)", rc)
				c.Incomplete("stopped at the first hang: " + rc.String())
				c.WriteAndExit()
			}
		}
	}
}

// ---------------------------------------------------------------------------------------------
// Exploring every permitted call sequence of one (layout, bounds, snapshot).

type tripleStats struct {
	seqs   int64
	calls  int64
	states map[uint64]struct{}
	outc   [len(opNames)][2]int64 // per call kind: returned nil / returned an entry (model view)
}

var opNames = [...]string{"first", "last", "next", "prev", "seekge", "seeklt", "seekprefixge", "nextprefix", "seekge+tsun", "seekprefixge+tsun"}

func opIndex(o Op) int {
	switch o.K {
	case "first":
		return 0
	case "last":
		return 1
	case "next":
		return 2
	case "prev":
		return 3
	case "seekge":
		if o.TSUN {
			return 8
		}
		return 4
	case "seeklt":
		return 5
	case "seekprefixge":
		if o.TSUN {
			return 9
		}
		return 6
	}
	return 7
}

// explore runs every contract-permitted sequence of exactly `depth` calls (shorter sequences are
// their prefixes and are checked on the way). If prefixOnly, only sequences that contain a
// SeekPrefixGE are executed (used for the second, bloom-less build of the same layout).
func explore(c *vlib.Ctx, w *worker, b *builtLSM, cs Case, depth int, tsun, prefixOnly bool, ts *tripleStats) {
	v := view(cs.LSM, cs.Lower, cs.Upper, cs.Snap)
	ops := make([]Op, depth)
	exp := make([]*Pt, depth)
	hasPrefix := make([]bool, depth+1)
	vh := vlib.Hash(cs.LSM.String(), cs.Lower, cs.Upper, cs.Snap)
	reuse := &pebble.VerifC33Iter{}
	w.cur.Store(&running{cs: &cs, ops: ops})
	var rec func(d int, st mstate)
	rec = func(d int, st mstate) {
		for _, op := range legalOps(v, st, cs.Lower, cs.Upper, tsun) {
			ns, e := step(v, st, op)
			ops[d], exp[d] = op, e
			hasPrefix[d+1] = hasPrefix[d] || op.K == "seekprefixge"
			if ts.states != nil {
				ts.states[vh^uint64(ns.idx+2)*0x9e3779b97f4a7c15^uint64(uint8(ns.dir))<<56^uint64(len(ns.prefix))<<48] = struct{}{}
			}
			if d+1 < depth {
				rec(d+1, ns)
				continue
			}
			if prefixOnly && !hasPrefix[d+1] {
				continue
			}
			ts.seqs++
			ts.calls += int64(depth)
			for i := 0; i < depth; i++ {
				j := 0
				if exp[i] != nil {
					j = 1
				}
				ts.outc[opIndex(ops[i])][j]++
			}
			w.tick.Add(1)
			w.busy.Store(true)
			f := runSeq(b, reuse, &cs, ops, exp, false)
			w.busy.Store(false)
			if f != nil {
				// re-execute (on a newly allocated iterator) before reporting
				if f2 := runSeq(b, nil, &cs, ops, exp, false); f2 == nil || f2.class != f.class {
					c.Incomplete("violation did not reproduce: " + f.desc)
					continue
				}
				rc := cs
				rc.Ops, f = minimize(b, &cs, v, ops[:f.step+1], f)
				c.Violation(f.class, rc.String()+": "+f.desc, rc)
			}
		}
	}
	rec(0, mstate{idx: -1})
}

// minimize returns the shortest suffix of ops (a failing sequence, failing at its last call) that
// is itself a permitted sequence and still fails at its last call, with that failure.
func minimize(b *builtLSM, cs *Case, v []Pt, ops []Op, f *failure) ([]Op, *failure) {
	for s := len(ops) - 1; s >= 1; s-- {
		cand := ops[s:]
		exp := make([]*Pt, len(cand))
		st := mstate{idx: -1}
		ok := true
		for i, op := range cand {
			legal := false
			for _, lo := range legalOps(v, st, cs.Lower, cs.Upper, true) {
				if lo == op {
					legal = true
				}
			}
			if !legal {
				ok = false
				break
			}
			st, exp[i] = step(v, st, op)
		}
		if !ok {
			continue
		}
		if f2 := runSeq(b, nil, cs, cand, exp, false); f2 != nil && f2.step == len(cand)-1 && f2.class != "panic" {
			return append([]Op(nil), cand...), f2
		}
	}
	return append([]Op(nil), ops...), f
}

// nontrivial: at least one point entry that is visible at the read seqnum and inside the bounds
// is deleted by a visible range tombstone, and the expected stream is not empty.
func nontrivial(l LSM, lo, hi string, snap uint64) bool {
	s := effSnap(snap)
	tombs := allTombs(l)
	del := false
	for _, p := range allPoints(l) {
		if p.Seq >= s || (lo != "" && p.K < lo) || (hi != "" && p.K >= hi) {
			continue
		}
		if deletedBy(p, tombs, s) {
			del = true
		}
	}
	return del && len(view(l, lo, hi, snap)) > 0
}

// plan = one family explored with one depth.
type plan struct {
	fam    family
	depth  int
	bounds []bound
	intra  bool // intra-band snapshots
	tsun   bool
	nobloo bool // additionally run the SeekPrefixGE sequences on a bloom-less build
}

func plans(thorough bool) []plan {
	b15 := allBounds()
	b5 := []bound{{"", ""}, {"b", ""}, {"", "c"}, {"b", "c"}, {"a", "d"}}
	fam := func(name string, levels, maxTotal, maxTombs, minTombs int, mem bool) family {
		return family{name: name, levels: levels, maxVers: 2, maxPts: 9, maxTombs: maxTombs, minTombs: minTombs,
			maxDup: 1, maxFiles: 2 * levels, maxTotal: maxTotal, mem: mem}
	}
	memOnly := func(f family) family { f.onlyMem = true; return f }
	if !thorough {
		return []plan{
			{fam: fam("1-level/<=3 entries", 1, 3, 2, 0, true), depth: 3, bounds: b15, tsun: true},
			{fam: fam("2-level/<=3 entries/<=1 tombstone", 2, 3, 1, 0, false), depth: 3, bounds: b15, tsun: true},
			{fam: memOnly(fam("2-level/<=3 entries/<=1 tombstone/newest level a memtable", 2, 3, 1, 0, false)), depth: 3, bounds: b5, tsun: true},
			{fam: fam("2-level/3 entries/2 tombstones", 2, 3, 2, 2, false), depth: 3, bounds: b5, tsun: true},
		}
	}
	return []plan{
		{fam: fam("1-level/<=4 entries", 1, 4, 2, 0, true), depth: 3, bounds: b15, intra: true, tsun: true, nobloo: true},
		{fam: fam("2-level/<=3 entries", 2, 3, 2, 0, true), depth: 3, bounds: b15, intra: true, tsun: true, nobloo: true},
		{fam: fam("3-level/<=3 entries", 3, 3, 2, 0, true), depth: 3, bounds: b15, intra: true, tsun: true, nobloo: true},
		{fam: fam("1-level/<=3 entries", 1, 3, 2, 0, true), depth: 4, bounds: b15, tsun: true, nobloo: true},
		{fam: fam("2-level/<=3 entries/1 tombstone", 2, 3, 1, 1, false), depth: 4, bounds: b5, tsun: true, nobloo: true},
		{fam: fam("2-level/<=4 entries/<=1 tombstone", 2, 4, 1, 0, false), depth: 3, bounds: b15, tsun: true, nobloo: true},
		{fam: fam("3-level/<=4 entries/1 tombstone", 3, 4, 1, 1, false), depth: 3, bounds: b5, tsun: true, nobloo: true},
	}
}

func TestCheck(t *testing.T) {
	vlib.Main(t, "C33", func(c *vlib.Ctx) {
		debug.SetGCPercent(800)
		// One small block cache per worker (a shared one makes the workers contend on the shard
		// locks): work items borrow a worker from this pool.
		pool := &workerPool{}
		go pool.watch(c)
		if c.ReplayPath() != "" {
			var cs Case
			if err := c.LoadReplay(&cs); err != nil {
				t.Fatal(err)
			}
			w := pool.get()
			ch := w.bc.NewHandle()
			defer ch.Close()
			replay(c, w, cs, ch)
			c.Eval(1)
			return
		}
		var planNotes []string
		for _, p := range plans(c.Thorough()) {
			lsms := enumerate(p.fam)
			n := len(lsms)
			done, complete := c.Each(n, func(i int) {
				l := lsms[i]
				w := pool.get()
				defer pool.put(w)
				ch := w.bc.NewHandle()
				defer ch.Close()
				b, err := buildLSM(l, true, ch)
				if err != nil {
					c.Violation("build-error", l.String()+": "+err.Error(), Case{LSM: l, Bloom: true})
					return
				}
				defer b.close()
				var b2 *builtLSM
				if p.nobloo {
					if b2, err = buildLSM(l, false, ch); err != nil {
						c.Violation("build-error", l.String()+": "+err.Error(), Case{LSM: l})
						return
					}
					defer b2.close()
				}
				ts := &tripleStats{states: map[uint64]struct{}{}}
				for _, snap := range snapshots(l, p.intra) {
					for _, bd := range p.bounds {
						cs := Case{LSM: l, Bloom: true, Lower: bd.lo, Upper: bd.hi, Snap: snap}
						explore(c, w, b, cs, p.depth, p.tsun, false, ts)
						if b2 != nil {
							cs.Bloom = false
							st := ts.states
							ts.states = nil
							explore(c, w, b2, cs, p.depth, p.tsun, true, ts)
							ts.states = st
						}
						c.Eval(1)
						if nontrivial(l, bd.lo, bd.hi, snap) {
							c.Nontrivial(vlib.Hash(l.String(), bd.lo, bd.hi, snap))
						}
					}
				}
				c.Trans(int(ts.calls))
				c.NoteAdd("sequences", ts.seqs)
				for h := range ts.states {
					c.State(h)
				}
				for k := range ts.outc {
					if ts.outc[k][0] > 0 {
						c.OutcomeN(opNames[k]+"->nil", ts.outc[k][0])
					}
					if ts.outc[k][1] > 0 {
						c.OutcomeN(opNames[k]+"->entry", ts.outc[k][1])
					}
				}
				if i%211 == 0 {
					var stream []string
					for _, e := range view(l, "", "", 0) {
						stream = append(stream, e.String())
					}
					c.Sample(map[string]any{"plan": p.fam.name, "layout": l, "layout_text": l.String(),
						"expected_stream_unbounded_max_seqnum": stream, "sequences_executed": ts.seqs})
				}
			})
			planNotes = append(planNotes, fmt.Sprintf("%s (%+v) depth %d, %d bound pairs, intra-band snapshots %v, tsun %v, bloom-less rerun %v: %d/%d layouts", p.fam.name, p.fam, p.depth, len(p.bounds), p.intra, p.tsun, p.nobloo, done, n))
			if !complete {
				c.Incomplete(fmt.Sprintf("budget expired in plan %s after %d of %d layouts (every explored layout was explored with all its bound pairs, snapshots and call sequences); all earlier plans complete", p.fam.name, done, n))
				break
			}
		}
		c.Note("plans", planNotes)
		c.Note("scope", "see plans: layouts per family x bound pairs x read seqnums x every contract-permitted call sequence of the stated depth; evaluations = (layout, bounds, seqnum) triples; transitions = iterator calls executed; the note 'sequences' is the number of call sequences executed")
	})
}

func replay(c *vlib.Ctx, w *worker, cs Case, ch *cache.Handle) {
	fmt.Printf("replay: %s\n", cs)
	b, err := buildLSM(cs.LSM, cs.Bloom, ch)
	if err != nil {
		c.Violation("build-error", err.Error(), cs)
		return
	}
	defer b.close()
	for i, lv := range b.levels {
		for _, t := range lv.Tables {
			fmt.Printf("  level %d table %s: %s - %s\n", i, t.Meta.TableNum, t.Meta.Smallest(), t.Meta.Largest())
		}
	}
	v := view(cs.LSM, cs.Lower, cs.Upper, cs.Snap)
	fmt.Printf("  model stream: ")
	for i := range v {
		fmt.Printf("%s ", fmtPt(&v[i]))
	}
	fmt.Println()
	exp := make([]*Pt, len(cs.Ops))
	st := mstate{idx: -1}
	for i, op := range cs.Ops {
		legal := false
		for _, lo := range legalOps(v, st, cs.Lower, cs.Upper, true) {
			if lo == op {
				legal = true
			}
		}
		if !legal {
			fmt.Printf("  step %d (%s) is outside the call contract in this state; nothing to check\n", i, op)
			return
		}
		st, exp[i] = step(v, st, op)
	}
	w.cur.Store(&running{cs: &cs, ops: cs.Ops})
	w.tick.Add(1)
	w.busy.Store(true)
	f := runSeq(b, nil, &cs, cs.Ops, exp, true)
	w.busy.Store(false)
	if f != nil {
		fmt.Printf("replay: FAIL class=%s %s\n", f.class, f.desc)
		c.Violation(f.class, cs.String()+": "+f.desc, cs)
	} else {
		fmt.Printf("replay: agree\n")
	}
	c.Trans(len(cs.Ops))
	c.State(vlib.Hash(cs.String()))
}
