package c33

import (
	"sort"
)

// ---------------------------------------------------------------------------------------------
// Layout enumeration.
//
// A level is described abstractly (sequence numbers relative to the level's band) and then placed
// into a band so that the LSM level invariant holds strongly: with L levels, level i (0 = newest)
// owns the seqnums (L-1-i)*10 + {1..8}; every entry of level i is newer than every entry of every
// level below it. Inside a band: the newer version of a user key has offset 6, the older one 3; a
// range tombstone has offset 8 (newer than every point of its level), 5 (between the two versions;
// only generated when its file holds an older version inside the span) or 1 (older than every
// point of its level, so it deletes only entries of lower levels; only generated when its file
// holds a point inside the span, otherwise it is equivalent to offset 8). Layouts without any
// point entry are skipped.

var ukeys = []string{"a", "b", "c"}

// The tombstone span menu.
var spans = [][2]string{{"a", "b"}, {"a", "c"}, {"b", "c"}, {"b", "d"}, {"c", "d"}}

var kindMenu = []string{"SET", "DEL", "MERGE", "SINGLEDEL"}

type aPt struct {
	k   int // index into ukeys
	off uint64
}
type aTomb struct {
	s, e string
	off  uint64
}
type aFile struct {
	pts  []aPt
	tomb *aTomb
}
type aLevel struct {
	files  []aFile
	npts   int
	ntombs int
	ndup   int // user keys with two versions
}

func (l aLevel) key() string {
	s := ""
	for _, f := range l.files {
		s += "{"
		for _, p := range f.pts {
			s += ukeys[p.k] + string(rune('0'+p.off))
		}
		if f.tomb != nil {
			s += "[" + f.tomb.s + f.tomb.e + string(rune('0'+f.tomb.off))
		}
		s += "}"
	}
	return s
}

func tombOptions(pts []aPt, lo, hi string) []*aTomb {
	// lo: spans must start at or after lo ("" = no constraint); hi: must end at or before hi.
	out := []*aTomb{nil}
	for _, sp := range spans {
		if lo != "" && sp[0] < lo {
			continue
		}
		if hi != "" && sp[1] > hi {
			continue
		}
		// Offsets 5 and 1 differ from 8 only through the file's own points inside the span.
		offs := []uint64{8}
		inSpan, oldInSpan := false, false
		for _, p := range pts {
			if sp[0] <= ukeys[p.k] && ukeys[p.k] < sp[1] {
				inSpan = true
				if p.off == 3 {
					oldInSpan = true
				}
			}
		}
		if oldInSpan {
			offs = []uint64{8, 5, 1}
		} else if inSpan {
			offs = []uint64{8, 1}
		}
		for _, o := range offs {
			out = append(out, &aTomb{s: sp[0], e: sp[1], off: o})
		}
	}
	return out
}

// levelOptions enumerates every abstract level with at most maxVers versions per user key,
// 1 or (if twoFiles) 2 disjoint files, 0-1 tombstones per file; simplest (fewest entries) first.
func levelOptions(maxVers int, twoFiles bool) []aLevel {
	seen := map[string]bool{}
	var out []aLevel
	add := func(l aLevel) {
		for _, f := range l.files {
			if len(f.pts) == 0 && f.tomb == nil {
				return
			}
		}
		l.npts, l.ntombs, l.ndup = 0, 0, 0
		for _, f := range l.files {
			l.npts += len(f.pts)
			if f.tomb != nil {
				l.ntombs++
			}
			for i := 1; i < len(f.pts); i++ {
				if f.pts[i].k == f.pts[i-1].k {
					l.ndup++
				}
			}
		}
		k := l.key()
		if seen[k] {
			return
		}
		seen[k] = true
		out = append(out, l)
	}
	for ca := 0; ca <= maxVers; ca++ {
		for cb := 0; cb <= maxVers; cb++ {
			for cc := 0; cc <= maxVers; cc++ {
				cnt := []int{ca, cb, cc}
				mk := func(from, to int) []aPt {
					var pts []aPt
					for k := from; k < to; k++ {
						if cnt[k] >= 1 {
							pts = append(pts, aPt{k, 6})
						}
						if cnt[k] >= 2 {
							pts = append(pts, aPt{k, 3})
						}
					}
					return pts
				}
				// one file
				all := mk(0, 3)
				for _, t := range tombOptions(all, "", "") {
					add(aLevel{files: []aFile{{pts: all, tomb: t}}})
				}
				if !twoFiles {
					continue
				}
				// two files split at user key s: file 1 holds keys < s, file 2 keys >= s.
				for si := 1; si <= 2; si++ {
					s := ukeys[si]
					p1, p2 := mk(0, si), mk(si, 3)
					for _, t1 := range tombOptions(p1, "", s) {
						for _, t2 := range tombOptions(p2, s, "") {
							add(aLevel{files: []aFile{{pts: p1, tomb: t1}, {pts: p2, tomb: t2}}})
						}
					}
				}
			}
		}
	}
	sort.SliceStable(out, func(i, j int) bool {
		si, sj := out[i].npts+out[i].ntombs, out[j].npts+out[j].ntombs
		if si != sj {
			return si < sj
		}
		return len(out[i].files) < len(out[j].files)
	})
	return out
}

// family is a stated thinning of the layout space.
type family struct {
	name     string
	levels   int  // exact number of (non-empty) levels
	maxVers  int  // versions per user key per level
	maxPts   int  // total point entries in the layout
	maxTombs int  // total range tombstones in the layout
	minTombs int  // at least this many tombstones (a family may concentrate on tombstone layouts)
	maxDup   int  // user keys (per level, summed) that have two versions
	maxFiles int  // total number of files
	maxTotal int  // total number of entries (points + tombstones); 0 = no cap
	mem      bool // additionally: every layout whose newest level is a single file, with that level as a memtable
	onlyMem  bool // only those memtable variants
}

func materialize(levels []aLevel, memTop bool) LSM {
	L := len(levels)
	var l LSM
	for i, al := range levels {
		base := uint64(L-1-i) * 10
		lv := Level{Mem: memTop && i == 0}
		for _, af := range al.files {
			var f File
			vers := 0
			for j, p := range af.pts {
				if j > 0 && af.pts[j-1].k == p.k {
					vers++
				} else {
					vers = 0
				}
				f.Pts = append(f.Pts, Pt{K: ukeys[p.k], Seq: base + p.off, Kind: kindMenu[(i+p.k+vers)%len(kindMenu)]})
			}
			if af.tomb != nil {
				f.Tomb = &Tomb{S: af.tomb.s, E: af.tomb.e, Seq: base + af.tomb.off}
			}
			lv.Files = append(lv.Files, f)
		}
		l.Levels = append(l.Levels, lv)
	}
	return l
}

// enumerate lists the layouts of a family, simplest first.
func enumerate(f family) []LSM {
	opts := levelOptions(f.maxVers, true)
	var out []LSM
	cur := make([]aLevel, 0, f.levels)
	var rec func(npts, ntombs, ndup, nfiles int)
	rec = func(npts, ntombs, ndup, nfiles int) {
		if len(cur) == f.levels {
			if ntombs < f.minTombs || npts == 0 {
				return
			}
			if !f.onlyMem {
				out = append(out, materialize(cur, false))
			}
			if (f.mem || f.onlyMem) && len(cur[0].files) == 1 {
				out = append(out, materialize(cur, true))
			}
			return
		}
		for _, o := range opts {
			if npts+o.npts > f.maxPts || ntombs+o.ntombs > f.maxTombs || ndup+o.ndup > f.maxDup || nfiles+len(o.files) > f.maxFiles {
				continue
			}
			if f.maxTotal > 0 && npts+o.npts+ntombs+o.ntombs > f.maxTotal {
				continue
			}
			cur = append(cur, o)
			rec(npts+o.npts, ntombs+o.ntombs, ndup+o.ndup, nfiles+len(o.files))
			cur = cur[:len(cur)-1]
		}
	}
	rec(0, 0, 0, 0)
	sort.SliceStable(out, func(i, j int) bool { return lsmSize(out[i]) < lsmSize(out[j]) })
	return out
}

func lsmSize(l LSM) int {
	return len(allPoints(l)) + len(allTombs(l))
}

// Bound pairs: none, and every lower < upper over {a,b,c,d} incl. one-sided.
type bound struct{ lo, hi string }

func allBounds() []bound {
	ks := []string{"", "a", "b", "c", "d"}
	out := []bound{{"", ""}}
	for _, lo := range ks {
		for _, hi := range ks {
			if lo == "" && hi == "" {
				continue
			}
			if lo != "" && hi != "" && lo >= hi {
				continue
			}
			out = append(out, bound{lo, hi})
		}
	}
	return out
}

// snapshots returns the read-seqnum menu for a layout: 0 (= max: sees everything), "sees only
// levels >= i" for every i >= 1, and (if intra) two thresholds inside the band of the newest
// level (hide its offset-8 tombstone only; hide everything but its older versions and offset-1
// tombstone). Menu entries that give the same visible entry/tombstone set as an earlier one are
// dropped.
func snapshots(l LSM, intra bool) []uint64 {
	L := len(l.Levels)
	cands := []uint64{0}
	for i := 1; i < L; i++ {
		cands = append(cands, uint64(L-i)*10)
	}
	if intra {
		top := uint64(L-1) * 10
		cands = append(cands, top+7, top+4)
	}
	var out []uint64
	seen := map[string]bool{}
	for _, s := range cands {
		sig := ""
		es := effSnap(s)
		for _, p := range allPoints(l) {
			if p.Seq < es {
				sig += p.String() + ";"
			}
		}
		for _, t := range allTombs(l) {
			if t.Seq < es {
				sig += t.String() + ";"
			}
		}
		if seen[sig] {
			continue
		}
		seen[sig] = true
		out = append(out, s)
	}
	return out
}
