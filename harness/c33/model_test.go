package c33

import (
	"fmt"
	"sort"
	"strings"
)

// ---------------------------------------------------------------------------------------------
// The layout description (also the replay artefact).

// Pt is one point entry.
type Pt struct {
	K    string `json:"k"`
	Seq  uint64 `json:"seq"`
	Kind string `json:"kind"` // SET | MERGE | DEL | SINGLEDEL
}

// Tomb is one range tombstone [S,E)#Seq.
type Tomb struct {
	S   string `json:"s"`
	E   string `json:"e"`
	Seq uint64 `json:"seq"`
}

// File is one sstable (or the content of a memtable level).
type File struct {
	Pts  []Pt  `json:"pts,omitempty"` // user key ascending, seqnum descending
	Tomb *Tomb `json:"tomb,omitempty"`
}

// Level is one merging level: Mem => a real memTable holding Files[0], else a levelIter over
// the disjoint, key-sorted Files.
type Level struct {
	Mem   bool   `json:"mem,omitempty"`
	Files []File `json:"files"`
}

// LSM: Levels[0] is the newest.
type LSM struct {
	Levels []Level `json:"levels"`
}

func (p Pt) String() string   { return fmt.Sprintf("%s#%d,%s", p.K, p.Seq, p.Kind) }
func (t Tomb) String() string { return fmt.Sprintf("[%s,%s)#%d", t.S, t.E, t.Seq) }

func (f File) String() string {
	var parts []string
	for _, p := range f.Pts {
		parts = append(parts, p.String())
	}
	if f.Tomb != nil {
		parts = append(parts, f.Tomb.String())
	}
	return "{" + strings.Join(parts, " ") + "}"
}

func (l LSM) String() string {
	var sb strings.Builder
	for i, lv := range l.Levels {
		if i > 0 {
			sb.WriteString(" / ")
		}
		if lv.Mem {
			sb.WriteString("mem")
		}
		for _, f := range lv.Files {
			sb.WriteString(f.String())
		}
	}
	return sb.String()
}

// Op is one positioning call.
type Op struct {
	K   string `json:"op"`            // first last next prev seekge seeklt seekprefixge nextprefix
	Key string `json:"key,omitempty"` // seek key
	// TSUN: the seek carries base.SeekGEFlags.TrySeekUsingNext (generated only where the contract
	// allows the caller to set it).
	TSUN bool `json:"tsun,omitempty"`
}

func (o Op) String() string {
	s := o.K
	if o.Key != "" {
		s += "(" + o.Key + ")"
	}
	if o.TSUN {
		s += "+tsun"
	}
	return s
}

func opsString(ops []Op) string {
	var parts []string
	for _, o := range ops {
		parts = append(parts, o.String())
	}
	return strings.Join(parts, " ")
}

// Case is the replay artefact: one layout, one bound pair, one read seqnum, one op sequence.
type Case struct {
	LSM   LSM    `json:"lsm"`
	Bloom bool   `json:"bloom"`
	Lower string `json:"lower,omitempty"`
	Upper string `json:"upper,omitempty"`
	Snap  uint64 `json:"snap"` // 0 = base.SeqNumMax (sees everything)
	Ops   []Op   `json:"ops"`
}

func (c Case) String() string {
	snap := "max"
	if c.Snap != 0 {
		snap = fmt.Sprint(c.Snap)
	}
	return fmt.Sprintf("lsm=%s bloom=%v bounds=[%s,%s) snapshot=%s ops=[%s]", c.LSM, c.Bloom, orDash(c.Lower), orDash(c.Upper), snap, opsString(c.Ops))
}

func orDash(s string) string {
	if s == "" {
		return "-"
	}
	return s
}

// ---------------------------------------------------------------------------------------------
// The model: "internal-key reader". The expected stream is the list, sorted by (user key asc,
// seqnum desc), of all point entries of all levels that are visible at the read seqnum and not
// deleted by a visible range tombstone with a larger seqnum covering their user key. The
// iterator positions are a cursor over that list restricted to [lower, upper).

const snapMax = ^uint64(0)

func effSnap(s uint64) uint64 {
	if s == 0 {
		return snapMax
	}
	return s
}

type entryStatus int

const (
	stLive entryStatus = iota
	stInvisible
	stDeleted
	stOutOfBounds
	stUnknown
)

// allPoints returns every point entry of the layout.
func allPoints(l LSM) []Pt {
	var out []Pt
	for _, lv := range l.Levels {
		for _, f := range lv.Files {
			out = append(out, f.Pts...)
		}
	}
	return out
}

func allTombs(l LSM) []Tomb {
	var out []Tomb
	for _, lv := range l.Levels {
		for _, f := range lv.Files {
			if f.Tomb != nil {
				out = append(out, *f.Tomb)
			}
		}
	}
	return out
}

func deletedBy(p Pt, tombs []Tomb, snap uint64) bool {
	for _, t := range tombs {
		if t.Seq < snap && t.S <= p.K && p.K < t.E && p.Seq < t.Seq {
			return true
		}
	}
	return false
}

// view computes the expected stream for (layout, bounds, snapshot).
func view(l LSM, lower, upper string, snap uint64) []Pt {
	s := effSnap(snap)
	tombs := allTombs(l)
	var out []Pt
	for _, p := range allPoints(l) {
		if p.Seq >= s {
			continue
		}
		if lower != "" && p.K < lower {
			continue
		}
		if upper != "" && p.K >= upper {
			continue
		}
		if deletedBy(p, tombs, s) {
			continue
		}
		out = append(out, p)
	}
	sort.Slice(out, func(i, j int) bool {
		if out[i].K != out[j].K {
			return out[i].K < out[j].K
		}
		return out[i].Seq > out[j].Seq
	})
	return out
}

// classify says why an entry returned by the implementation is not the expected one.
func classify(l LSM, lower, upper string, snap uint64, k string, seq uint64) entryStatus {
	s := effSnap(snap)
	for _, p := range allPoints(l) {
		if p.K == k && p.Seq == seq {
			if p.Seq >= s {
				return stInvisible
			}
			if (lower != "" && k < lower) || (upper != "" && k >= upper) {
				return stOutOfBounds
			}
			if deletedBy(p, allTombs(l), s) {
				return stDeleted
			}
			return stLive
		}
	}
	return stUnknown
}

// mstate is the cursor state of the model plus what the call contract depends on.
type mstate struct {
	idx     int    // -1 = before the first entry, len(view) = after the last
	dir     int8   // direction of the last call: +1 forward, -1 backward, 0 = no call yet
	lastNil bool   // the last call returned nil
	prefix  string // non-empty: prefix iteration mode (SeekPrefixGE was the last absolute call)
	// For TrySeekUsingNext legality: the last absolute call and whether only Next calls followed it.
	absK     string // "seekge" | "seekprefixge" | other
	absKey   string
	onlyNext bool
}

var seekKeys = []string{"a", "b", "c", "d"}

func inBounds(k, lower, upper string) bool {
	if lower != "" && k < lower {
		return false
	}
	if upper != "" && k > upper {
		return false
	}
	return true
}

func seekGEIdx(v []Pt, k string) int {
	return sort.Search(len(v), func(i int) bool { return v[i].K >= k })
}

// legalOps lists, simplest first, the calls the internalIterator contract permits in state st.
func legalOps(v []Pt, st mstate, lower, upper string, tsun bool) []Op {
	ops := make([]Op, 0, 20)
	if lower == "" {
		ops = append(ops, Op{K: "first"})
	}
	if upper == "" {
		ops = append(ops, Op{K: "last"})
	}
	if st.dir != 0 {
		// Next: not after a forward call that returned nil (this also covers an exhausted prefix).
		if !(st.dir > 0 && st.lastNil) {
			ops = append(ops, Op{K: "next"})
		}
		// Prev: not in prefix mode, not after a backward call that returned nil.
		if st.prefix == "" && !(st.dir < 0 && st.lastNil) {
			ops = append(ops, Op{K: "prev"})
		}
	}
	for _, k := range seekKeys {
		if inBounds(k, lower, upper) {
			ops = append(ops, Op{K: "seekge", Key: k})
		}
	}
	for _, k := range seekKeys {
		if inBounds(k, lower, upper) {
			ops = append(ops, Op{K: "seeklt", Key: k})
		}
	}
	for _, k := range seekKeys {
		if inBounds(k, lower, upper) {
			ops = append(ops, Op{K: "seekprefixge", Key: k})
		}
	}
	// NextPrefix: only after a forward call that returned an entry, never in prefix mode.
	if st.dir > 0 && !st.lastNil && st.prefix == "" {
		ops = append(ops, Op{K: "nextprefix"})
	}
	if tsun && st.onlyNext {
		switch st.absK {
		case "seekge":
			// SeekGE(k0) [Next]* SeekGE(k, TrySeekUsingNext) with k0 <= k, never exhausted, and the
			// cursor not beyond the first entry >= k.
			if st.dir > 0 && !st.lastNil {
				for _, k := range seekKeys {
					if inBounds(k, lower, upper) && st.absKey <= k && st.idx <= seekGEIdx(v, k) {
						ops = append(ops, Op{K: "seekge", Key: k, TSUN: true})
					}
				}
			}
		case "seekprefixge":
			// SeekPrefixGE(k0) [Next]* SeekPrefixGE(k, TrySeekUsingNext) with k0 < k (what
			// pebble.Iterator does; the result of the first seek may be nil).
			for _, k := range seekKeys {
				if inBounds(k, lower, upper) && st.absKey < k {
					ops = append(ops, Op{K: "seekprefixge", Key: k, TSUN: true})
				}
			}
		}
	}
	return ops
}

// step applies op to the model and returns the new state and the expected entry (nil = exhausted).
func step(v []Pt, st mstate, op Op) (mstate, *Pt) {
	n := len(v)
	ns := st
	switch op.K {
	case "first":
		ns = mstate{idx: 0, dir: +1, absK: "first", onlyNext: true}
	case "last":
		ns = mstate{idx: n - 1, dir: -1, absK: "last", onlyNext: true}
	case "seekge":
		ns = mstate{idx: seekGEIdx(v, op.Key), dir: +1, absK: "seekge", absKey: op.Key, onlyNext: true}
	case "seeklt":
		ns = mstate{idx: seekGEIdx(v, op.Key) - 1, dir: -1, absK: "seeklt", absKey: op.Key, onlyNext: true}
	case "seekprefixge":
		ns = mstate{idx: seekGEIdx(v, op.Key), dir: +1, prefix: op.Key, absK: "seekprefixge", absKey: op.Key, onlyNext: true}
	case "next":
		if ns.idx < n {
			ns.idx++
		}
		ns.dir = +1
	case "prev":
		if ns.idx >= 0 {
			ns.idx--
		}
		ns.dir = -1
		ns.onlyNext = false
	case "nextprefix":
		cur := v[ns.idx].K
		for ns.idx < n && v[ns.idx].K == cur {
			ns.idx++
		}
		ns.dir = +1
		ns.onlyNext = false
	default:
		panic("unknown op " + op.K)
	}
	if ns.idx < 0 || ns.idx >= n {
		ns.lastNil = true
		return ns, nil
	}
	if ns.prefix != "" && v[ns.idx].K != ns.prefix {
		// Prefix mode: the strict top-level iterator returns nil once the prefix is left.
		ns.lastNil = true
		return ns, nil
	}
	ns.lastNil = false
	return ns, &v[ns.idx]
}
