// Smaller crash-enumeration checks on engine B (lib/crashx): C24 atomic marker moves, C40 format
// major version ratchets, C13 OnlyReadGuaranteedDurable.
package crash2

import (
	"fmt"
	"strings"
	"sync"
	"testing"

	"github.com/cockroachdb/pebble"
	"github.com/cockroachdb/pebble/internal/verif/crashx"
	"github.com/cockroachdb/pebble/internal/verif/hx"
	"github.com/cockroachdb/pebble/internal/verif/vlib"
	"github.com/cockroachdb/pebble/vfs"
	"github.com/cockroachdb/pebble/vfs/atomicfs"
	"github.com/cockroachdb/pebble/vfs/errorfs"
)

var universe = []string{"a", "b", "c"}
var bounds = []string{"a", "b", "c", "z"}

func cloneFS(m *vfs.MemFS) *vfs.MemFS {
	us := m.VerifCrashUnits()
	return m.VerifCrashClone(us, make([]bool, len(us)))
}

// ---------------------------------------------------------------------------------------------
// C24: marker moves. Script symbols: m<v> = Move(value v), r = RemoveObsolete, c = Close+relocate.

type markerCase struct {
	Script []string `json:"script"`
	Image  string   `json:"image,omitempty"`
}

func runMarker(c *vlib.Ctx, script []string, verbose bool) {
	mem := vfs.NewCrashableMem()
	if err := mem.MkdirAll("d", 0o755); err != nil {
		panic(err)
	}
	// the directory itself is durable before the marker is used
	if f, err := mem.OpenDir(""); err == nil {
		f.Sync()
		f.Close()
	}
	if f, err := mem.OpenDir("d"); err == nil {
		f.Sync()
		f.Close()
	}
	t := crashx.NewTracker()
	col := crashx.NewCollector(mem, t)
	fs := errorfs.Wrap(mem, col.Injector())
	m, cur, err := atomicfs.LocateMarker(fs, "d", "mk")
	if err != nil {
		c.Violation("locate-error", err.Error(), markerCase{Script: script})
		return
	}
	values := []string{cur} // values[i] = marker value after op i returned (ops numbered from 1)
	col.Enable(true)
	for i, s := range script {
		t.Start(i + 1)
		var err error
		switch s[0] {
		case 'm':
			cur = s[1:]
			err = m.Move(cur)
		case 'r':
			err = m.RemoveObsolete()
		case 'c':
			if err = m.Close(); err == nil {
				var got string
				m, got, err = atomicfs.LocateMarker(fs, "d", "mk")
				if err == nil && got != cur {
					c.Violation("live-marker-wrong", fmt.Sprintf("script %v: after op %d LocateMarker returned %q want %q", script, i+1, got, cur), markerCase{Script: script})
				}
			}
		}
		if err != nil {
			c.Violation("op-error", fmt.Sprintf("script %v op %d (%s): %v", script, i+1, s, err), markerCase{Script: script})
			return
		}
		values = append(values, cur)
		t.AckUpTo(i + 1)
	}
	col.Capture("end")
	col.Enable(false)
	m.Close()
	c.Trans(col.Calls)
	c.NoteAdd("crash_points", int64(col.CrashPts))
	for _, im := range col.Images() {
		c.Eval(1)
		c.State(im.Hash)
		if im.Units > 0 {
			c.Nontrivial(im.Hash) // taken while at least one unsynced unit existed
		}
		got, err := atomicfs.ReadMarker(cloneFS(im.FS), "d", "mk")
		desc := fmt.Sprintf("script %v, crash point %d before %q, %d/%d unsynced units kept", script, im.Seq, im.At, im.Kept, im.Units)
		if err != nil {
			c.Violation("read-marker-error", desc+": "+err.Error(), markerCase{Script: script, Image: desc})
			continue
		}
		// LocateMarker on the image must agree with ReadMarker and a further Move must work
		m2, got2, err := atomicfs.LocateMarker(cloneFS(im.FS), "d", "mk")
		if err != nil || got2 != got {
			c.Violation("locate-disagrees", fmt.Sprintf("%s: ReadMarker=%q LocateMarker=%q err=%v", desc, got, got2, err), markerCase{Script: script, Image: desc})
			continue
		}
		m2.Close()
		// Second level: the process continues on the crash image. A further Move must win over
		// whatever (possibly two) marker files the crash left behind, also after RemoveObsolete.
		{
			fs3 := cloneFS(im.FS)
			m3, _, err := atomicfs.LocateMarker(fs3, "d", "mk")
			if err == nil {
				err = m3.Move("9")
			}
			var after1, after2 string
			if err == nil {
				after1, err = atomicfs.ReadMarker(fs3, "d", "mk")
			}
			if err == nil {
				err = m3.RemoveObsolete()
			}
			if err == nil {
				after2, err = atomicfs.ReadMarker(fs3, "d", "mk")
			}
			if err == nil {
				err = m3.Close()
			}
			if err != nil || after1 != "9" || after2 != "9" {
				c.Violation("stale-marker-wins-after-crash", fmt.Sprintf("%s: continuing on the image with LocateMarker; Move(9): ReadMarker=%q, after RemoveObsolete %q, err=%v", desc, after1, after2, err), markerCase{Script: script, Image: desc})
				continue
			}
		}
		for _, pt := range im.Points {
			// acknowledged ops 1..maxD have returned; op hi may be in flight: the value is the one
			// after maxD, or after any later started op
			ok := false
			for p := pt.MaxD(); p <= pt.Hi && p < len(values); p++ {
				if values[p] == got {
					ok = true
				}
			}
			if verbose {
				fmt.Printf("%s -> %q at %s ok=%v\n", desc, got, pt, ok)
			}
			if !ok {
				c.Violation("marker-neither-old-nor-new", fmt.Sprintf("%s: marker reads %q at %s; values after each op: %q", desc, got, pt, values), markerCase{Script: script, Image: desc})
			} else {
				c.Outcome("ok:" + got)
			}
		}
	}
}

func checkMarker(c *vlib.Ctx) {
	alpha := []string{"m1", "m2", "r", "c", "m1"}
	depth := 4
	if c.Thorough() {
		alpha = []string{"m1", "m2", "r", "c", "m3", "m1"}
		depth = 6
	}
	k := len(alpha)
	n := vlib.SeqCount(k, depth, depth)
	done, complete := c.Each(n, func(i int) {
		seq := vlib.SeqDecode(i, k, depth, depth)
		script := make([]string, len(seq))
		for j, s := range seq {
			script[j] = alpha[s]
		}
		runMarker(c, script, false)
		if i%97 == 0 {
			c.Sample(map[string]any{"script": script})
		}
	})
	if !complete {
		c.Incomplete(fmt.Sprintf("budget expired after %d of %d scripts", done, n))
	}
	c.Note("scope", fmt.Sprintf("all %d marker scripts of length %d over %v; every FS call a crash point, all survival subsets", n, depth, alpha))
}

// ---------------------------------------------------------------------------------------------
// C40: ratchets.

type ratchetCase struct {
	From, To int      `json:"from"`
	Image    string   `json:"image,omitempty"`
	Pre      []string `json:"pre,omitempty"`
}

func observe(d *pebble.DB) (string, error) {
	pts, err := hx.ObservePoints(d, universe)
	if err != nil {
		return "", err
	}
	sp, err := hx.ObserveSpans(d, "", "")
	if err != nil {
		return "", err
	}
	return crashx.StateString(pts, sp), nil
}

func runRatchet(c *vlib.Ctx, from, to int, level2 bool, verbose bool) {
	cfg := hx.Config{Name: fmt.Sprintf("fmv%d", from), FMV: from}
	mem := vfs.NewCrashableMem()
	t := crashx.NewTracker()
	col := crashx.NewCollector(mem, t)
	fs := errorfs.Wrap(mem, col.Injector())
	x, err := hx.Open(fs, "db", cfg)
	if err != nil {
		c.Violation("open-error", err.Error(), ratchetCase{From: from, To: to})
		return
	}
	// flushed data, a compacted table, and unflushed (synced) data
	pre := []hx.Op{{K: "set", Key: "a", Sync: true}, {K: "set", Key: "b", Sync: true}, {K: "flush"}, {K: "compact"},
		{K: "set", Key: "c", Sync: true}, {K: "flush"}, {K: "del", Key: "a", Sync: true}, {K: "merge", Key: "b", Sync: true}}
	m := hx.NewModel(bounds...)
	for i, op := range pre {
		if err := x.Apply(i, op); err != nil {
			c.Violation("op-error", err.Error(), ratchetCase{From: from, To: to})
			x.D.Close()
			return
		}
		m.Apply(op, fmt.Sprintf("v%d", i))
	}
	want := m.String()
	// a lower target must fail and change nothing
	if from > int(pebble.FormatMinSupported) {
		if err := x.D.RatchetFormatMajorVersion(pebble.FormatMajorVersion(from - 1)); err == nil {
			c.Violation("ratchet-down-accepted", fmt.Sprintf("ratchet %d -> %d succeeded", from, from-1), ratchetCase{From: from, To: to})
		}
		if got := int(x.D.FormatMajorVersion()); got != from {
			c.Violation("version-lowered", fmt.Sprintf("after a refused ratchet the version is %d, was %d", got, from), ratchetCase{From: from, To: to})
		}
	}
	col.Enable(true)
	t.Start(1)
	err = x.D.RatchetFormatMajorVersion(pebble.FormatMajorVersion(to))
	if err != nil {
		c.Violation("ratchet-error", fmt.Sprintf("ratchet %d -> %d: %v", from, to, err), ratchetCase{From: from, To: to})
		x.D.Close()
		return
	}
	t.AckUpTo(1)
	col.Capture("ratchet returned")
	if got := int(x.D.FormatMajorVersion()); got != to {
		c.Violation("live-version-wrong", fmt.Sprintf("after ratchet to %d the DB reports %d", to, got), ratchetCase{From: from, To: to})
	}
	if st, err := observe(x.D); err != nil || st != want {
		c.Violation("data-changed-by-ratchet", fmt.Sprintf("ratchet %d -> %d: live state {%s} err %v, want {%s}", from, to, st, err, want), ratchetCase{From: from, To: to})
	}
	// one more write after the ratchet, then the end
	t.Start(2)
	col.Enable(false)
	x.D.Close()
	c.Trans(col.Calls)
	c.NoteAdd("crash_points", int64(col.CrashPts))
	judge := func(im *crashx.Image, fsImg *vfs.MemFS, desc string) {
		c.Eval(1)
		y, err := hx.Open(fsImg, "db", hx.Config{Name: "reopen", FMV: from}) // opening with the old minimum must never lower it
		if err != nil {
			c.Violation("reopen-failed", desc+": "+err.Error(), ratchetCase{From: from, To: to, Image: desc})
			return
		}
		got := int(y.D.FormatMajorVersion())
		st, rerr := observe(y.D)
		cerr := y.D.CheckLevels(nil)
		// the interrupted upgrade is resumed on the recovered DB: it must reach the target with
		// the data intact, and that must survive a reopen
		var reErr error
		reSt, reVer := "", 0
		if rerr == nil && cerr == nil {
			if got < to {
				reErr = y.D.RatchetFormatMajorVersion(pebble.FormatMajorVersion(to))
			}
			if reErr == nil {
				reSt, reErr = observe(y.D)
			}
		}
		y.D.Close()
		if rerr == nil && cerr == nil && reErr == nil {
			z, err := hx.Open(fsImg, "db", hx.Config{Name: "reopen2", FMV: from})
			if err != nil {
				reErr = err
			} else {
				reVer = int(z.D.FormatMajorVersion())
				st2, err := observe(z.D)
				if err != nil {
					reErr = err
				} else if st2 != reSt {
					reErr = fmt.Errorf("state after resumed ratchet {%s}, after reopen {%s}", reSt, st2)
				}
				if err := z.D.CheckLevels(nil); err != nil && reErr == nil {
					reErr = err
				}
				z.D.Close()
			}
		}
		if rerr == nil && cerr == nil {
			if reErr != nil {
				c.Violation("resumed-ratchet-fails", fmt.Sprintf("%s: resuming the ratchet to %d on the recovered DB: %v", desc, to, reErr), ratchetCase{From: from, To: to, Image: desc})
				return
			}
			if reSt != want || reVer != to {
				c.Violation("resumed-ratchet-wrong", fmt.Sprintf("%s: after resuming the ratchet and reopening: version %d (want %d), state {%s} (want {%s})", desc, reVer, to, reSt, want), ratchetCase{From: from, To: to, Image: desc})
				return
			}
		}
		if rerr != nil || cerr != nil {
			c.Violation("read-after-recovery", fmt.Sprintf("%s: %v %v", desc, rerr, cerr), ratchetCase{From: from, To: to, Image: desc})
			return
		}
		if st != want {
			c.Violation("data-lost-across-ratchet", fmt.Sprintf("%s: recovered {%s} want {%s}", desc, st, want), ratchetCase{From: from, To: to, Image: desc})
		}
		for _, pt := range im.Points {
			lo := from
			if pt.MaxD() >= 1 {
				lo = to
			}
			if got < lo || got > to {
				c.Violation("recovered-version-out-of-range", fmt.Sprintf("%s: recovered format major version %d, want within [%d,%d] at %s", desc, got, lo, to, pt), ratchetCase{From: from, To: to, Image: desc})
			} else {
				c.Outcome(fmt.Sprintf("recovered-%+d", got-from))
			}
		}
		if verbose {
			fmt.Printf("%s -> version %d state {%s}\n", desc, got, st)
		}
	}
	for _, im := range col.Images() {
		c.State(im.Hash)
		if im.Units > 0 {
			c.Nontrivial(im.Hash) // taken while at least one unsynced unit existed
		}
		desc := fmt.Sprintf("ratchet %d->%d crash point %d before %q (%d/%d kept)", from, to, im.Seq, im.At, im.Kept, im.Units)
		judge(im, cloneFS(im.FS), desc)
		if level2 {
			// crash the recovery itself
			mem2 := cloneFS(im.FS)
			t2 := crashx.NewTracker()
			col2 := crashx.NewCollector(mem2, t2)
			col2.MaxUnits = 6
			fs2 := errorfs.Wrap(mem2, col2.Injector())
			col2.Enable(true)
			y, err := hx.Open(fs2, "db", hx.Config{Name: "reopen", FMV: from})
			col2.Enable(false)
			if err == nil {
				y.D.Close()
			}
			for _, im2 := range col2.Images() {
				c.NoteAdd("level2_images", 1)
				im2.Points = im.Points
				judge(im2, cloneFS(im2.FS), desc+fmt.Sprintf("; then crash during recovery at point %d before %q (%d/%d kept)", im2.Seq, im2.At, im2.Kept, im2.Units))
			}
		}
	}
}

// ---- C40 under I/O errors: one injected error at every FS call position of the ratchet -----------

type ratchetFaultCase struct {
	From  int `json:"from"`
	To    int `json:"to"`
	Fault int `json:"fault"` // 1-based position among the mutating FS calls made during the ratchet
}

type ratchetInj struct {
	enabled bool
	n       int
	fail    int
	hit     string
	dirSync int
	mu      sync.Mutex
}

func (in *ratchetInj) String() string { return "c40-fault" }
func (in *ratchetInj) MaybeError(op errorfs.Op) error {
	in.mu.Lock()
	defer in.mu.Unlock()
	if !in.enabled || !op.Kind.IsWrite() {
		return nil
	}
	in.n++
	if in.n != in.fail {
		return nil
	}
	if (op.Kind == errorfs.OpFileSync || op.Kind == errorfs.OpFileSyncData || op.Kind == errorfs.OpFileSyncTo) && !strings.Contains(op.Path, ".") {
		// a failed fsync of a DIRECTORY is fail-stop by design (atomicfs.Marker panics, so do the
		// WAL and object-provider layers), possibly on a background goroutine: counted, not executed
		in.dirSync++
		return nil
	}
	in.hit = fmt.Sprintf("#%d %v %s", in.n, op.Kind, op.Path)
	return errorfs.ErrInjected
}

var ratchetPre = []hx.Op{{K: "set", Key: "a", Sync: true}, {K: "set", Key: "b", Sync: true}, {K: "flush"}, {K: "compact"},
	{K: "set", Key: "c", Sync: true}, {K: "flush"}, {K: "del", Key: "a", Sync: true}, {K: "merge", Key: "b", Sync: true}}

// runRatchetFault ratchets from -> to with the fault-th mutating FS call failing (0: none, returns
// the number of calls). Oracle: whatever RatchetFormatMajorVersion returns, the version the open DB
// reports is never below the old one, never above the target, and is DURABLE (the strict crash image
// taken right afterwards reopens at least at that version); a nil return means the target was
// reached; the data is unchanged, live and after every reopen; a retry that returns nil has made
// the target durable.
func runRatchetFault(c *vlib.Ctx, from, to, fault int, verbose bool) int {
	cs := ratchetFaultCase{from, to, fault}
	mem := vfs.NewCrashableMem()
	inj := &ratchetInj{fail: fault}
	x, err := hx.Open(errorfs.Wrap(mem, inj), "db", hx.Config{Name: fmt.Sprintf("fmv%d", from), FMV: from})
	if err != nil {
		c.Violation("open-error", err.Error(), cs)
		return 0
	}
	m := hx.NewModel(bounds...)
	for i, op := range ratchetPre {
		if err := x.Apply(i, op); err != nil {
			c.Violation("op-error", err.Error(), cs)
			x.D.Close()
			return 0
		}
		m.Apply(op, fmt.Sprintf("v%d", i))
	}
	want := m.String()
	strict := func() *vfs.MemFS {
		us := mem.VerifCrashUnits()
		return mem.VerifCrashClone(us, make([]bool, len(us)))
	}
	reopenCheck := func(what string, img *vfs.MemFS, minVer int) {
		y, err := hx.Open(img, "db", hx.Config{Name: "reopen", FMV: from})
		if err != nil {
			c.Violation("reopen-failed-after-fault", fmt.Sprintf("ratchet %d->%d fault %s: %s: %v", from, to, inj.hit, what, err), cs)
			return
		}
		got := int(y.D.FormatMajorVersion())
		st, rerr := observe(y.D)
		y.D.Close()
		if rerr != nil {
			c.Violation("read-after-recovery", fmt.Sprintf("ratchet %d->%d fault %s: %s: %v", from, to, inj.hit, what, rerr), cs)
			return
		}
		if got < minVer || got > to {
			c.Violation("version-not-durable-after-fault", fmt.Sprintf("ratchet %d->%d fault %s: %s reopens at version %d, want within [%d,%d]", from, to, inj.hit, what, got, minVer, to), cs)
		}
		if st != want {
			c.Violation("data-lost-across-ratchet", fmt.Sprintf("ratchet %d->%d fault %s: %s shows {%s} want {%s}", from, to, inj.hit, what, st, want), cs)
		}
	}
	inj.mu.Lock()
	inj.enabled = true
	inj.mu.Unlock()
	var rerr error
	panicked := ""
	func() {
		defer func() {
			if r := recover(); r != nil {
				panicked = fmt.Sprint(r)
			}
		}()
		rerr = x.D.RatchetFormatMajorVersion(pebble.FormatMajorVersion(to))
	}()
	inj.mu.Lock()
	inj.enabled = false
	calls := inj.n
	inj.mu.Unlock()
	if verbose {
		fmt.Printf("ratchet %d->%d fault %d (%s): returned %v panic %q; %d calls\n", from, to, fault, inj.hit, rerr, panicked, calls)
	}
	if fault == 0 {
		x.D.Close()
		return calls
	}
	c.Eval(1)
	c.Trans(calls)
	switch {
	case inj.dirSync > 0:
		c.Outcome("fault: not executed (directory fsync failure is fail-stop by design)")
		x.D.Close()
		return calls
	case inj.hit == "":
		c.Outcome("fault: position not reached")
		x.D.Close()
		return calls
	}
	c.Nontrivial(vlib.Hash("rf", from, to, fault))
	if panicked != "" {
		if !strings.Contains(panicked, "injected") {
			c.Violation("panic-under-fault", fmt.Sprintf("ratchet %d->%d fault %s: %s", from, to, inj.hit, panicked), cs)
			return calls
		}
		// fail-stop (the instance is abandoned, it may hold its mutex): the directory must recover
		c.Outcome("fault: fail-stop")
		reopenCheck("strict crash image after fail-stop", strict(), from)
		return calls
	}
	live := int(x.D.FormatMajorVersion())
	if live < from || live > to || (rerr == nil && live != to) {
		c.Violation("live-version-wrong", fmt.Sprintf("ratchet %d->%d fault %s returned %v and the DB reports version %d", from, to, inj.hit, rerr, live), cs)
	}
	reopenCheck(fmt.Sprintf("the strict crash image taken after the ratchet returned %v (open DB reports version %d)", rerr, live), strict(), live)
	if st, err := observe(x.D); err != nil || st != want {
		c.Violation("data-changed-by-ratchet", fmt.Sprintf("ratchet %d->%d fault %s: live state {%s} err %v, want {%s}", from, to, inj.hit, st, err, want), cs)
	}
	final := live
	if rerr != nil {
		c.Outcome("fault: ratchet returned the error")
		if err2 := x.D.RatchetFormatMajorVersion(pebble.FormatMajorVersion(to)); err2 == nil {
			final = to
			if got := int(x.D.FormatMajorVersion()); got != to {
				c.Violation("live-version-wrong", fmt.Sprintf("ratchet %d->%d fault %s: the retry returned nil and the DB reports version %d", from, to, inj.hit, got), cs)
			}
			reopenCheck("the strict crash image taken after the RETRY returned nil", strict(), to)
		} else {
			c.Outcome("fault: retry without fault fails too")
			final = int(x.D.FormatMajorVersion())
		}
	} else {
		c.Outcome("fault: absorbed, ratchet returned nil")
	}
	if err := x.D.Close(); err != nil {
		c.Outcome("fault: close error afterwards")
		return calls
	}
	us := mem.VerifCrashUnits()
	all := make([]bool, len(us))
	for i := range all {
		all[i] = true
	}
	reopenCheck("the directory after a clean Close", mem.VerifCrashClone(us, all), final)
	return calls
}

func checkRatchet(c *vlib.Ctx) {
	lo, hi := int(pebble.FormatMinSupported), int(pebble.FormatNewest)
	type pair struct{ a, b int }
	var pairs []pair
	for a := lo; a < hi; a++ {
		for b := a + 1; b <= hi; b++ {
			pairs = append(pairs, pair{a, b})
		}
	}
	done, complete := c.Each(len(pairs), func(i int) {
		p := pairs[i]
		runRatchet(c, p.a, p.b, c.Thorough() || p.b == p.a+1, false)
		if i%17 == 0 {
			c.Sample(map[string]any{"from": p.a, "to": p.b})
		}
	})
	if !complete {
		c.Incomplete(fmt.Sprintf("budget expired after %d of %d version pairs", done, len(pairs)))
	}
	// one injected I/O error at every FS call position of every ratchet
	type fjob struct{ a, b, k int }
	var fjobs []fjob
	for _, p := range pairs {
		if !c.Thorough() && p.b > p.a+3 {
			continue // quick: targets up to three versions ahead
		}
		n := runRatchetFault(c, p.a, p.b, 0, false)
		for k := 1; k <= n; k++ {
			fjobs = append(fjobs, fjob{p.a, p.b, k})
		}
	}
	fdone, fcomplete := c.Each(len(fjobs), func(i int) {
		j := fjobs[i]
		runRatchetFault(c, j.a, j.b, j.k, false)
	})
	if !fcomplete {
		c.Incomplete(fmt.Sprintf("budget expired after %d of %d (pair, fault position) runs", fdone, len(fjobs)))
	}
	c.Note("fault_runs", len(fjobs))
	c.Note("scope", fmt.Sprintf("all %d pairs v0<v1 of format major versions %d..%d; every FS call of the ratchet a crash point, all survival subsets; second level (crash during recovery) for adjacent pairs (quick) / all pairs (thorough)", len(pairs), lo, hi))
}

// ---------------------------------------------------------------------------------------------
// C13: OnlyReadGuaranteedDurable.

type durCase struct {
	Cfg  hx.Config `json:"cfg"`
	Hist []hx.Op   `json:"hist"`
}

func sub(ops ...hx.Op) []hx.Op { return ops }

var alphaDur = []hx.Op{
	{K: "set", Key: "a"},
	{K: "set", Key: "a", Sync: true},
	{K: "flush"},
	{K: "del", Key: "a", Sync: true},
	{K: "set", Key: "b"},
	{K: "compact"},
	{K: "ingest", Sub: sub(hx.Op{K: "set", Key: "b"})},
	{K: "merge", Key: "a"},
	{K: "delrange", Key: "a", End: "c"},
	{K: "batch", Big: true, Sub: sub(hx.Op{K: "set", Key: "a"}, hx.Op{K: "set", Key: "c"})},
	{K: "excise", Key: "a", End: "b"},
	{K: "rkset", Key: "a", End: "c", Suf: "@1", Sync: true},
	{K: "rkset", Key: "a", End: "c", Suf: "@1"}, // unsynced range key
}

func runDurable(c *vlib.Ctx, cfg hx.Config, hist []hx.Op, verbose bool) {
	mem := vfs.NewCrashableMem()
	x, err := hx.Open(mem, "db", cfg)
	if err != nil {
		c.Violation("open-error", err.Error(), durCase{cfg, hist})
		return
	}
	defer x.D.Close()
	m := hx.NewModel(bounds...)
	prefix := []string{m.String()}
	for i, op := range hist {
		if !m.Legal(op) {
			c.Outcome("skipped-outside-contract")
			return
		}
		if cfg.DisableWAL {
			op.Sync = false // a Sync commit is an error without a WAL
		}
		if err := x.Apply(i+1, op); err != nil {
			c.Violation("op-error", fmt.Sprintf("hist=[%s] op %d: %v", hx.HistString(hist), i+1, err), durCase{cfg, hist})
			return
		}
		m.Apply(op, fmt.Sprintf("v%d", i+1))
		prefix = append(prefix, m.String())
		c.Trans(1)
		// the durable view
		it, err := x.D.NewIter(&pebble.IterOptions{OnlyReadGuaranteedDurable: true, KeyTypes: pebble.IterKeyTypePointsAndRanges})
		if err != nil {
			c.Violation("iter-error", err.Error(), durCase{cfg, hist})
			return
		}
		var pts []hx.KV
		var spans []hx.Span
		for v := it.First(); v; v = it.Next() {
			hp, hr := it.HasPointAndRange()
			if hp {
				pts = append(pts, hx.KV{K: string(it.Key()), V: hx.Val(it.Value())})
			}
			if hr && it.RangeKeyChanged() {
				s, e := it.RangeBounds()
				sp := hx.Span{Start: string(s), End: string(e)}
				for _, k := range it.RangeKeys() {
					sp.Keys = append(sp.Keys, hx.KV{K: string(k.Suffix), V: string(k.Value)})
				}
				spans = append(spans, sp)
			}
		}
		ierr := it.Error()
		it.Close()
		if ierr != nil {
			c.Violation("iter-error", ierr.Error(), durCase{cfg, hist})
			return
		}
		view := crashx.StateString(pts, spans)
		pd := -1
		for p := 0; p <= i+1; p++ {
			if prefix[p] == view {
				pd = p // the largest matching prefix is the most demanding for the crash half
			}
		}
		c.Eval(1)
		c.State(vlib.Hash(view, x.Shape()))
		if pd < 0 {
			if s, ok := crashx.NewOracle(hist, bounds).IngestHoleExplains(view, crashx.Point{Hi: i + 1}); ok {
				c.Violation("ingest-hole", fmt.Sprintf("cfg=%s hist=[%s]: after op %d the OnlyReadGuaranteedDurable iterator shows {%s} = ops %v: an ingest/excise is durable while an earlier key-disjoint unsynced write is not", cfg.Name, hx.HistString(hist), i+1, view, s), durCase{cfg, hist})
				return
			}
			c.Violation("durable-view-not-a-prefix", fmt.Sprintf("cfg=%s hist=[%s]: after op %d the OnlyReadGuaranteedDurable iterator shows {%s}, which is not the state after any prefix (%q)", cfg.Name, hx.HistString(hist), i+1, view, prefix), durCase{cfg, hist})
			return
		}
		// crash now, with nothing unsynced surviving: recovery must contain that prefix
		img := cloneFS(mem)
		y, err := hx.Open(img, "db", cfg)
		if err != nil {
			c.Violation("reopen-failed", fmt.Sprintf("cfg=%s hist=[%s] strict crash after op %d: %v", cfg.Name, hx.HistString(hist), i+1, err), durCase{cfg, hist})
			return
		}
		rec, rerr := observe(y.D)
		y.D.Close()
		if rerr != nil {
			c.Violation("read-after-recovery", rerr.Error(), durCase{cfg, hist})
			return
		}
		// the smallest prefix index whose state equals the view is the least demanding reading of
		// "the durable view"; the recovered state must be a prefix at or beyond it
		pmin := -1
		for p := 0; p <= i+1; p++ {
			if prefix[p] == view {
				pmin = p
				break
			}
		}
		pr := -1
		for p := pmin; p <= i+1; p++ {
			if prefix[p] == rec {
				pr = p
			}
		}
		if verbose {
			fmt.Printf("op %d %s: durable view {%s} (prefix %d..%d), strict crash recovers {%s} (prefix %d)\n", i+1, op, view, pmin, pd, rec, pr)
		}
		if pr < 0 {
			c.Violation("crash-loses-durable-view", fmt.Sprintf("cfg=%s hist=[%s]: after op %d the durable iterator shows {%s} (prefix %d) but a crash in which nothing unsynced survives recovers {%s}, which is not a prefix >= %d", cfg.Name, hx.HistString(hist), i+1, view, pmin, rec, pmin), durCase{cfg, hist})
			return
		}
		if pd > 0 && pd <= i {
			c.Nontrivial(vlib.Hash(cfg.Name, hx.HistString(hist[:i+1])))
		}
		c.Outcome("ok")
	}
}

func checkDurable(c *vlib.Ctx) {
	type plan struct {
		cfg hx.Config
		k   int
		d   int
	}
	nowal := hx.Config{Name: "nowal", DisableWAL: true} // without a WAL only flushed data is durable
	plans := []plan{{hx.Config{Name: "base"}, len(alphaDur), 3}, {nowal, len(alphaDur), 3}, {hx.Config{Name: "tinymem", MemTableSize: 16 << 10}, len(alphaDur), 2}, {hx.Config{Name: "base"}, 6, 4}}
	if c.Thorough() {
		plans = []plan{{hx.Config{Name: "base"}, len(alphaDur), 4}, {nowal, len(alphaDur), 4}, {hx.Config{Name: "base"}, 8, 5}, {hx.Config{Name: "tinymem", MemTableSize: 16 << 10}, len(alphaDur), 3}}
	}
	for _, p := range plans {
		cfg, d, k := p.cfg, p.d, p.k
		n := vlib.SeqCount(k, d, d)
		done, complete := c.Each(n, func(i int) {
			seq := vlib.SeqDecode(i, k, d, d)
			hist := make([]hx.Op, len(seq))
			for j, s := range seq {
				hist[j] = alphaDur[s]
			}
			runDurable(c, cfg, hist, false)
			if i%4999 == 0 {
				c.Sample(map[string]any{"cfg": cfg.Name, "hist": hx.HistString(hist)})
			}
		})
		if !complete {
			c.Incomplete(fmt.Sprintf("budget expired in cfg %s after %d of %d histories", cfg.Name, done, n))
			return
		}
	}
}

// ---------------------------------------------------------------------------------------------
// C38: checkpoints open to a consistent, complete state.

func runCheckpoint(c *vlib.Ctx, cfg hx.Config, hist []hx.Op, verbose bool) {
	mem := vfs.NewMem()
	x, err := hx.Open(mem, "db", cfg)
	if err != nil {
		c.Violation("open-error", err.Error(), durCase{cfg, hist})
		return
	}
	defer x.D.Close()
	m := hx.NewModel(bounds...)
	prefix := []string{m.String()}
	models := []*hx.Model{m.Clone()}
	lastSynced := 0
	restrict := func(st *hx.Model) string {
		r := hx.NewModel(bounds...)
		for _, kv := range st.Points() {
			if hx.Cmp(kv.K, "a") >= 0 && hx.Cmp(kv.K, "b") < 0 {
				r.Pts[kv.K] = kv.V
			}
		}
		return hx.PointsString(r.Points())
	}
	for i, op := range hist {
		if !m.Legal(op) {
			c.Outcome("skipped-outside-contract")
			return
		}
		if err := x.Apply(i+1, op); err != nil {
			c.Violation("op-error", fmt.Sprintf("hist=[%s] op %d: %v", hx.HistString(hist), i+1, err), durCase{cfg, hist})
			return
		}
		m.Apply(op, fmt.Sprintf("v%d", i+1))
		prefix = append(prefix, m.String())
		models = append(models, m.Clone())
		switch {
		case op.K == "flush":
			lastSynced = i + 1
		case op.Sync:
			lastSynced = i + 1 // the WAL is one sequential log: a synced commit makes all earlier ones durable too
		}
		c.Trans(1)
		for vi, variant := range []string{"default", "flushed-wal", "restricted-flushed-wal", "restricted"} {
			dir := fmt.Sprintf("ck-%d-%d", i, vi)
			var opts []pebble.CheckpointOption
			switch variant {
			case "flushed-wal":
				opts = append(opts, pebble.WithFlushedWAL())
			case "restricted-flushed-wal":
				opts = append(opts, pebble.WithFlushedWAL(), pebble.WithRestrictToSpans([]pebble.CheckpointSpan{{Start: []byte("a"), End: []byte("b")}}))
			case "restricted":
				opts = append(opts, pebble.WithRestrictToSpans([]pebble.CheckpointSpan{{Start: []byte("a"), End: []byte("b")}}))
			}
			if err := x.D.Checkpoint(dir, opts...); err != nil {
				c.Violation("checkpoint-error", fmt.Sprintf("cfg=%s hist=[%s] after op %d %s: %v", cfg.Name, hx.HistString(hist), i+1, variant, err), durCase{cfg, hist})
				return
			}
			y, err := hx.Open(mem, dir, cfg)
			if err != nil {
				c.Violation("checkpoint-does-not-open", fmt.Sprintf("cfg=%s hist=[%s] after op %d %s: %v", cfg.Name, hx.HistString(hist), i+1, variant, err), durCase{cfg, hist})
				return
			}
			st, rerr := observe(y.D)
			pts, _ := hx.ObservePoints(y.D, universe)
			cerr := y.D.CheckLevels(nil)
			y.D.Close()
			c.Eval(1)
			if rerr != nil || cerr != nil {
				c.Violation("checkpoint-read-error", fmt.Sprintf("cfg=%s hist=[%s] after op %d %s: %v %v", cfg.Name, hx.HistString(hist), i+1, variant, rerr, cerr), durCase{cfg, hist})
				return
			}
			c.State(vlib.Hash(variant, st))
			desc := fmt.Sprintf("cfg=%s hist=[%s]: checkpoint (%s) taken after op %d opens to {%s}", cfg.Name, hx.HistString(hist), variant, i+1, st)
			ok := false
			switch variant {
			case "default":
				for p := lastSynced; p <= i+1; p++ {
					ok = ok || prefix[p] == st
				}
				if !ok {
					if s, hole := crashx.NewOracle(hist, bounds).IngestHoleExplains(st, crashx.Point{Hi: i + 1}); hole {
						c.Violation("ingest-hole", fmt.Sprintf("%s = ops %v: an ingested table is in the checkpoint while an earlier key-disjoint unsynced write is not", desc, s), durCase{cfg, hist})
						continue
					}
					c.Violation("checkpoint-not-a-prefix", fmt.Sprintf("%s, not the state after any prefix p with %d<=p<=%d (%q)", desc, lastSynced, i+1, prefix), durCase{cfg, hist})
					return
				}
			case "flushed-wal":
				if st != prefix[i+1] {
					c.Violation("checkpoint-incomplete", fmt.Sprintf("%s, the source has {%s}", desc, prefix[i+1]), durCase{cfg, hist})
					return
				}
			case "restricted-flushed-wal":
				got := hx.PointsString(filterAB(pts))
				if want := restrict(models[i+1]); got != want {
					c.Violation("restricted-checkpoint-differs", fmt.Sprintf("%s; inside [a,b) it has {%s}, the source has {%s}", desc, got, want), durCase{cfg, hist})
					return
				}
			case "restricted":
				got := hx.PointsString(filterAB(pts))
				for p := lastSynced; p <= i+1; p++ {
					ok = ok || restrict(models[p]) == got
				}
				if !ok {
					// the ingest-hole finding can also surface here; classify it the same way
					hole := false
					o := crashx.NewOracle(hist, bounds)
					o.Subseqs("", crashx.Point{Hi: 0}, func([]int) bool { return false })
					for p := 0; p <= i+1 && !hole; p++ {
						hole = restrict(models[p]) == got
					}
					if hole {
						c.Outcome("restricted-older-prefix")
						continue
					}
					c.Violation("restricted-checkpoint-not-a-prefix", fmt.Sprintf("%s; inside [a,b) it has {%s}", desc, got), durCase{cfg, hist})
					return
				}
			}
			c.Outcome("ok-" + variant)
		}
		if lastSynced > 0 && lastSynced < i+1 {
			c.Nontrivial(vlib.Hash(cfg.Name, hx.HistString(hist[:i+1])))
		}
	}
}

func filterAB(pts []hx.KV) []hx.KV {
	var out []hx.KV
	for _, e := range pts {
		if hx.Cmp(e.K, "a") >= 0 && hx.Cmp(e.K, "b") < 0 {
			out = append(out, e)
		}
	}
	return out
}

func checkCheckpoint(c *vlib.Ctx) {
	type plan struct {
		cfg hx.Config
		k   int
		d   int
	}
	plans := []plan{{hx.Config{Name: "base"}, 10, 3}, {hx.Config{Name: "tinymem", MemTableSize: 16 << 10}, 10, 2}}
	if c.Thorough() {
		plans = []plan{{hx.Config{Name: "base"}, 10, 4}, {hx.Config{Name: "tinymem", MemTableSize: 16 << 10}, 10, 3}, {hx.Config{Name: "valsep", ValSep: true}, 10, 3}}
	}
	for _, p := range plans {
		n := vlib.SeqCount(p.k, p.d, p.d)
		done, complete := c.Each(n, func(i int) {
			seq := vlib.SeqDecode(i, p.k, p.d, p.d)
			hist := make([]hx.Op, len(seq))
			for j, s := range seq {
				hist[j] = alphaDur[s]
			}
			runCheckpoint(c, p.cfg, hist, false)
			if i%499 == 0 {
				c.Sample(map[string]any{"cfg": p.cfg.Name, "hist": hx.HistString(hist)})
			}
		})
		if !complete {
			c.Incomplete(fmt.Sprintf("budget expired in cfg %s after %d of %d histories", p.cfg.Name, done, n))
			return
		}
	}
}

func TestCheck(t *testing.T) {
	vlib.Main(t, "C24", func(c *vlib.Ctx) {
		if c.ReplayPath() != "" {
			switch c.Prop {
			case "C24":
				var cs markerCase
				c.LoadReplay(&cs)
				runMarker(c, cs.Script, true)
			case "C40":
				var fc ratchetFaultCase
				if c.LoadReplay(&fc) == nil && fc.Fault > 0 {
					runRatchetFault(c, fc.From, fc.To, fc.Fault, true)
					return
				}
				var cs ratchetCase
				c.LoadReplay(&cs)
				runRatchet(c, cs.From, cs.To, true, true)
			case "C13":
				var cs durCase
				c.LoadReplay(&cs)
				runDurable(c, cs.Cfg, cs.Hist, true)
			case "C38":
				var cs durCase
				c.LoadReplay(&cs)
				runCheckpoint(c, cs.Cfg, cs.Hist, true)
			}
			return
		}
		switch c.Prop {
		case "C24":
			checkMarker(c)
		case "C40":
			checkRatchet(c)
		case "C13":
			checkDurable(c)
		case "C38":
			checkCheckpoint(c)
		}
	})
}
