// C02: iterator positioning matches the model for every sequence of positioning calls.
//
// For every LSM state of a deterministic, capped selection (states_test.go: all write histories of
// depth <= 3 over a 15-symbol alphabet on testkeys keys with suffixes, three bases, a pairwise
// feature cover of the reached shape classes, plus four hand-built shapes, each under two DB
// configurations) and every initial bound pair, EVERY sequence of exactly d calls of the
// positioning alphabet whose results the API defines is executed on a fresh pebble.Iterator (points
// only) and compared, call by call, with the iterator model of model_test.go. The model's state
// machine decides which calls are defined next (model.legal lists the exclusions).
package c02

import (
	"bytes"
	"fmt"
	"runtime/debug"
	"sort"
	"strings"
	"sync"
	"sync/atomic"
	"testing"

	"github.com/cockroachdb/pebble"
	"github.com/cockroachdb/pebble/internal/verif/hx"
	"github.com/cockroachdb/pebble/internal/verif/vlib"
)

// ---------------------------------------------------------------------------------------------
// Alphabets
// ---------------------------------------------------------------------------------------------

// Probe keys: universe keys and keys in the gaps between them.
//
//	a < a@3 < [a@2] < a@1 < [b] < b@2 < c < [c@5]
var probes = []string{"a@3", "a@2", "b", "b@2", "c"}

// extra probes of the thorough depth-3 alphabet: the smallest key and a key behind the largest
var probesExtra = []string{"a", "c@5"}

// Bound pairs ("" = no bound). Initial option sets = no bounds, [a@1,-) and the four pairs.
var boundPairs = [][2]string{
	{"a@3", "c"}, // suffixed lower bound, bare upper bound
	{"a", "b@2"}, // suffixed upper bound: NextPrefix is an error
	{"b", ""},    // lower bound only, in a gap, with the prefix of the next key
	{"", "b"},    // upper bound only, in a gap
}

// Bound pairs of the depth-5 plan (re-bounding to disjoint windows inside one table): an iterator
// positioned under one window, moved to a window entirely on one side of it, asked for a prefix the
// table's bloom filter excludes (which positions nothing), moved to a window in between, and asked
// for its first/last key.
var boundPairsD5 = [][2]string{
	{"", "a@3"},    // holds a only
	{"b@2", ""},    // holds b@2, c
	{"a@3", "b@2"}, // holds a@3, a@1 - between the two
	{"c", ""},
}

var initialBounds = [][2]string{{"", ""}, {"a@1", ""}, boundPairs[0], boundPairs[1], boundPairs[2], boundPairs[3]}

func allKeys() []string {
	ks := append([]string{}, universe...)
	ks = append(ks, probes...)
	ks = append(ks, probesExtra...)
	for _, b := range append(append(append([][2]string{}, boundPairs...), initialBounds...), boundPairsD5...) {
		ks = append(ks, b[0], b[1])
	}
	return ks
}

// alphabet builds the call alphabet, simplest first.
//
//	seek:   keys of SeekGE / SeekLT / SeekPrefixGE
//	lim:    limits of NextWithLimit / PrevWithLimit
//	pairs:  "all" = every (key, limit) pair of probes x lim for Seek{GE,LT}WithLimit,
//	        "ordered" = pairs with the limit beyond the key in the direction of the call,
//	        "few" = two pairs per direction
//	nb:     number of bound pairs used by SetBounds
//	setopt: SetOptions symbols (clear bounds, set pair 1, same bounds)
func alphabet(seek, seekLT, lim []string, pairs string, nb int, setopt int) []Call {
	a := []Call{{Op: "First"}, {Op: "Last"}, {Op: "Next"}, {Op: "Prev"}, {Op: "NextPrefix"}}
	for _, k := range seek {
		a = append(a, Call{Op: "SeekGE", K: k})
	}
	for _, k := range seekLT {
		a = append(a, Call{Op: "SeekLT", K: k})
	}
	for _, k := range seek {
		a = append(a, Call{Op: "SeekPrefixGE", K: k})
	}
	for _, l := range lim {
		a = append(a, Call{Op: "NextWithLimit", L: l})
	}
	for _, l := range lim {
		a = append(a, Call{Op: "PrevWithLimit", L: l})
	}
	for i := 0; i < nb; i++ {
		a = append(a, Call{Op: "SetBounds", Lo: boundPairs[i][0], Hi: boundPairs[i][1]})
	}
	if setopt >= 1 {
		a = append(a, Call{Op: "SetOptions"}) // clears the bounds
	}
	if setopt >= 2 {
		a = append(a, Call{Op: "SetOptions", Lo: boundPairs[1][0], Hi: boundPairs[1][1]})
	}
	if setopt >= 3 {
		a = append(a, Call{Op: "SetOptionsSame"})
	}
	less := func(x, y string) bool { return cmpKeys([]byte(x), []byte(y)) < 0 }
	switch pairs {
	case "all":
		for _, k := range probes {
			for _, l := range lim {
				a = append(a, Call{Op: "SeekGEWithLimit", K: k, L: l})
			}
		}
		for _, k := range probes {
			for _, l := range lim {
				a = append(a, Call{Op: "SeekLTWithLimit", K: k, L: l})
			}
		}
	case "ordered":
		for _, k := range probes {
			for _, l := range lim {
				if less(k, l) {
					a = append(a, Call{Op: "SeekGEWithLimit", K: k, L: l})
				}
			}
		}
		for _, k := range probes {
			for _, l := range lim {
				if less(l, k) {
					a = append(a, Call{Op: "SeekLTWithLimit", K: k, L: l})
				}
			}
		}
	case "few":
		a = append(a,
			Call{Op: "SeekGEWithLimit", K: "a@2", L: "b"},
			Call{Op: "SeekGEWithLimit", K: "a@3", L: "c"},
			Call{Op: "SeekLTWithLimit", K: "c", L: "b"},
			Call{Op: "SeekLTWithLimit", K: "b@2", L: "a@3"})
	}
	return a
}

type plan struct {
	name    string
	alpha   []Call
	depth   int
	nStates int         // the plan runs on the first nStates states (hand-built first, then the picked histories)
	init    [][2]string // initial bound pairs (nil = initialBounds)
}

// d5Plan is the targeted depth-5 plan: absolute positioning, prefix seeks for prefixes some tables
// lack, and SetBounds over windows that are disjoint from or nested between one another.
func d5Plan(nStates int) plan {
	a := []Call{{Op: "First"}, {Op: "Last"},
		{Op: "SeekGE", K: "a@3"}, {Op: "SeekLT", K: "b@2"}, {Op: "SeekLT", K: "c"},
		{Op: "SeekPrefixGE", K: "b"}, {Op: "SeekPrefixGE", K: "c"}}
	for _, b := range boundPairsD5 {
		a = append(a, Call{Op: "SetBounds", Lo: b[0], Hi: b[1]})
	}
	a = append(a, Call{Op: "SetBounds", Lo: boundPairs[3][0], Hi: boundPairs[3][1]}, Call{Op: "SetBounds", Lo: boundPairs[2][0], Hi: boundPairs[2][1]})
	return plan{name: "d5-rebound-prefix", alpha: a, depth: 5, nStates: nStates, init: [][2]string{{"", ""}, boundPairsD5[0], boundPairsD5[1]}}
}

// Number of picked write histories (each is built under both configurations) per tier.
const (
	quickHistories    = 12
	thoroughHistories = 32
)

// limits of the quick alphabet
var quickLimits = []string{"a@2", "b", "c"}

func plans(thorough bool) []plan {
	nHand := len(handShapes) * len(stateConfigs)
	if !thorough {
		return []plan{{name: "d3", alpha: alphabet(probes, probes, quickLimits, "ordered", 4, 3), depth: 3, nStates: nHand + 2*quickHistories}, d5Plan(nHand)}
	}
	d3 := alphabet(probes, probes, probes, "ordered", 4, 3)
	wide := append(append([]string{}, probes...), probesExtra...)
	return []plan{
		{name: "d3", alpha: d3, depth: 3, nStates: nHand + 2*thoroughHistories},
		d5Plan(nHand + 2*8),
		{name: "d3-wide", alpha: alphabet(wide, wide, probes, "all", 4, 3), depth: 3, nStates: nHand + 2*4},
		{name: "d4-core", alpha: alphabet(probes, []string{"a@2", "b@2", "c"}, []string{"a@2", "b@2"}, "few", 2, 1), depth: 4, nStates: nHand + 2*16},
	}
}

// ---------------------------------------------------------------------------------------------
// One sequence against Pebble and the model
// ---------------------------------------------------------------------------------------------

// Case is the replay artefact: one state, one initial bound pair, one call sequence.
type Case struct {
	State StateSpec `json:"state"`
	Lower string    `json:"lower,omitempty"`
	Upper string    `json:"upper,omitempty"`
	Calls []Call    `json:"calls"`
	Step  int       `json:"step"`
}

type failure struct {
	class string
	desc  string
	step  int
}

// worker-local scratch and counters
type local struct {
	m        model
	seqs     int64
	calls    int64
	outcomes [8]int64
	states   map[uint64]struct{}
	nontriv  map[uint64]struct{}
}

const (
	ocValid = iota
	ocExhausted
	ocAtLimit
	ocAtLimitNoKey // IterAtLimit although no visible in-bounds key remains in that direction
	ocValidBeyondLimit
	ocError
	ocInvalidated
	ocSeqAgree
)

var ocNames = []string{"call:valid", "call:exhausted", "call:at-limit", "call:at-limit-without-remaining-key",
	"call:valid-beyond-limit", "call:predicted-error", "call:invalidated-by-SetBounds/SetOptions", "sequence:agree"}

func vsName(v pebble.IterValidityState) string {
	switch v {
	case pebble.IterValid:
		return "IterValid"
	case pebble.IterExhausted:
		return "IterExhausted"
	case pebble.IterAtLimit:
		return "IterAtLimit"
	}
	return fmt.Sprint(int(v))
}

func b2v(b bool) pebble.IterValidityState {
	if b {
		return pebble.IterValid
	}
	return pebble.IterExhausted
}

// execCall performs c on it. isLimit reports whether the call returned an IterValidityState.
func execCall(t *keytab, it *pebble.Iterator, m *model, c *ccall) (got pebble.IterValidityState, isLimit bool) {
	switch c.op {
	case opFirst:
		return b2v(it.First()), false
	case opLast:
		return b2v(it.Last()), false
	case opNext:
		return b2v(it.Next()), false
	case opPrev:
		return b2v(it.Prev()), false
	case opNextPrefix:
		return b2v(it.NextPrefix()), false
	case opSeekGE:
		return b2v(it.SeekGE(t.b(c.k))), false
	case opSeekLT:
		return b2v(it.SeekLT(t.b(c.k))), false
	case opSeekPrefixGE:
		return b2v(it.SeekPrefixGE(t.b(c.k))), false
	case opNextLimit:
		return it.NextWithLimit(t.b(c.l)), true
	case opPrevLimit:
		return it.PrevWithLimit(t.b(c.l)), true
	case opSeekGELimit:
		return it.SeekGEWithLimit(t.b(c.k), t.b(c.l)), true
	case opSeekLTLimit:
		return it.SeekLTWithLimit(t.b(c.k), t.b(c.l)), true
	case opSetBounds:
		it.SetBounds(t.b(c.lo), t.b(c.hi))
	case opSetOptions:
		it.SetOptions(&pebble.IterOptions{LowerBound: t.b(c.lo), UpperBound: t.b(c.hi)})
	case opSetOptionsSame:
		// m already holds the current bounds (SetOptionsSame does not change them)
		it.SetOptions(&pebble.IterOptions{LowerBound: t.b(m.lo), UpperBound: t.b(m.hi)})
	}
	return pebble.IterExhausted, false
}

// runSeq executes calls on a fresh iterator over st with initial bounds [lo,hi) and compares every
// call with the model. It returns nil if everything agrees. After the return lc.m holds the model
// state after the last call (used by the enumerator to decide which calls are defined next).
func runSeq(t *keytab, st *stateRT, lo, hi int, calls []ccall, lc *local, trace *strings.Builder) (fl *failure) {
	step := 0
	defer func() {
		if r := recover(); r != nil {
			fl = &failure{"panic", fmt.Sprintf("panic at call %d: %v\n%s", step, r, debug.Stack()), step}
		}
	}()
	m := &lc.m
	m.reset(t, st.all, lo, hi)
	it, err := st.x.D.NewIter(&pebble.IterOptions{LowerBound: t.b(lo), UpperBound: t.b(hi)})
	if err != nil {
		return &failure{"newiter-error", err.Error(), 0}
	}
	closed := false
	defer func() {
		if !closed {
			func() {
				defer func() { recover() }()
				it.Close()
			}()
		}
	}()
	bad := func(class, format string, a ...any) *failure {
		return &failure{class, fmt.Sprintf("call %d %s: ", step, t.decompile(calls[step])) + fmt.Sprintf(format, a...), step}
	}
	for step = 0; step < len(calls); step++ {
		c := &calls[step]
		if !m.legal(c) {
			return bad("nondeterministic", "the call was defined in an earlier execution of the same prefix but is not now (model at %s)", m.cursorString())
		}
		ex := m.apply(c)
		got, isLimit := execCall(t, it, m, c)
		lc.calls++
		var key, val []byte
		if got == pebble.IterValid && ex.kind != exInvalidate {
			key, val = it.Key(), it.Value()
		}
		if trace != nil {
			fmt.Fprintf(trace, "  call %d %-28s -> %s", step, t.decompile(*c), vsName(got))
			if got == pebble.IterValid {
				fmt.Fprintf(trace, " %s=%s", key, val)
			}
			fmt.Fprintf(trace, "   | model: ")
			switch ex.kind {
			case exExact:
				if ex.valid {
					fmt.Fprintf(trace, "valid %s=%s", ex.e.key, ex.e.val)
				} else {
					fmt.Fprintf(trace, "exhausted")
				}
			case exLimit:
				if ex.nOK {
					fmt.Fprintf(trace, "next visible in-bounds key %s=%s, IterAtLimit allowed=%v", ex.e.key, ex.e.val, ex.atLimitOK)
				} else {
					fmt.Fprintf(trace, "no visible in-bounds key in that direction (IterExhausted or IterAtLimit)")
				}
			case exError:
				fmt.Fprintf(trace, "error")
			case exInvalidate:
				fmt.Fprintf(trace, "invalidated, bounds [%s,%s)", t.s(m.lo), t.s(m.hi))
			}
			fmt.Fprintf(trace, "   err=%v\n", it.Error())
		}
		// 1. Properties that hold whatever the model says.
		if got == pebble.IterValid && ex.kind != exInvalidate {
			if lb := t.b(m.lo); lb != nil && cmpKeys(key, lb) < 0 {
				return bad("key-outside-bounds", "returned key %s below the lower bound %s", key, lb)
			}
			if ub := t.b(m.hi); ub != nil && cmpKeys(key, ub) >= 0 {
				return bad("key-outside-bounds", "returned key %s at/above the upper bound %s", key, ub)
			}
			if m.prefix >= 0 {
				want := t.pfxB[m.prefix]
				if !bytes.Equal(prefixOf(key), want) {
					return bad("foreign-prefix-in-prefix-mode", "returned key %s in prefix mode for prefix %s", key, want)
				}
			}
		}
		// 2. The model's prediction.
		switch ex.kind {
		case exExact:
			if isLimit {
				panic("c02: exact expectation for a limit call")
			}
			if (got == pebble.IterValid) != ex.valid {
				if ex.valid {
					return bad("position-mismatch", "returned false (err=%v), the model is on %s=%s", it.Error(), ex.e.key, ex.e.val)
				}
				return bad("position-mismatch", "returned %s=%s, the model is exhausted", key, val)
			}
			if it.Valid() != ex.valid {
				return bad("valid-mismatch", "the call returned %v but Valid()=%v", ex.valid, it.Valid())
			}
			if ex.valid {
				if !bytes.Equal(key, ex.e.key) {
					return bad("position-mismatch", "returned key %s, the model is on %s", key, ex.e.key)
				}
				if !bytes.Equal(val, ex.e.val) {
					return bad("value-mismatch", "key %s has value %q, the model has %q", key, val, ex.e.val)
				}
				lc.outcomes[ocValid]++
			} else {
				lc.outcomes[ocExhausted]++
			}
			if err := it.Error(); err != nil {
				return bad("unexpected-error", "Error()=%v", err)
			}
		case exLimit:
			if !isLimit {
				panic("c02: limit expectation for a plain call")
			}
			switch got {
			case pebble.IterValid:
				if !ex.nOK {
					return bad("position-mismatch", "returned %s=%s, the model has no visible in-bounds key in that direction", key, val)
				}
				if !bytes.Equal(key, ex.e.key) {
					return bad("position-mismatch", "returned key %s, the next visible in-bounds key of the model is %s", key, ex.e.key)
				}
				if !bytes.Equal(val, ex.e.val) {
					return bad("value-mismatch", "key %s has value %q, the model has %q", key, val, ex.e.val)
				}
				if ex.atLimitOK {
					lc.outcomes[ocValidBeyondLimit]++
				} else {
					lc.outcomes[ocValid]++
				}
			case pebble.IterExhausted:
				if ex.nOK {
					return bad("position-mismatch", "returned IterExhausted (err=%v), the model's next visible in-bounds key is %s", it.Error(), ex.e.key)
				}
				lc.outcomes[ocExhausted]++
			case pebble.IterAtLimit:
				if !ex.atLimitOK {
					return bad("limit-paused-before-limit", "returned IterAtLimit for limit %s although the next visible in-bounds key %s is inside the limit", t.s(c.l), ex.e.key)
				}
				if ex.nOK {
					lc.outcomes[ocAtLimit]++
				} else {
					lc.outcomes[ocAtLimitNoKey]++
				}
			default:
				return bad("position-mismatch", "returned unknown validity state %d", got)
			}
			m.settle(ex, got)
			if err := it.Error(); err != nil {
				return bad("unexpected-error", "Error()=%v", err)
			}
		case exError:
			if got != pebble.IterExhausted {
				return bad("missing-error", "returned %s, the API documents an error for this call", vsName(got))
			}
			if it.Error() == nil {
				return bad("missing-error", "Error()=nil, the API documents an error for this call")
			}
			lc.outcomes[ocError]++
		case exInvalidate:
			if it.Valid() {
				return bad("valid-after-setbounds", "Valid()=true after %s; the iterator must be invalidated until it is repositioned", opNames[c.op])
			}
			lc.outcomes[ocInvalidated]++
		}
	}
	step = len(calls) - 1
	errNow := it.Error()
	switch m.errSt {
	case errNone:
		if errNow != nil {
			return bad("unexpected-error", "Error()=%v at the end of the sequence", errNow)
		}
	case errYes:
		if errNow == nil {
			return bad("missing-error", "Error()=nil at the end of the sequence although a call failed and no absolute positioning followed")
		}
	}
	closed = true
	cerr := it.Close()
	if m.errSt == errNone && cerr != nil {
		return bad("close-error", "Close()=%v", cerr)
	}
	if m.errSt == errYes && cerr == nil {
		return bad("missing-error", "Close()=nil although the iterator held an error")
	}
	lc.outcomes[ocSeqAgree]++
	return nil
}

// nontrivial rule for a 2-call prefix (every such prefix is extended by every defined call): the
// state holds an internal key that is not visible, and the two calls contain a direction switch, a
// limit call, a relative move in prefix mode, or a bounds change followed by a reposition.
func nontrivialPrefix(st *stateRT, a, b *ccall) bool {
	if !st.invisible {
		return false
	}
	da, db := dirOf(a.op), dirOf(b.op)
	if da != 0 && db != 0 && da != db && !isAbsolute(b.op) {
		return true
	}
	if a.op == opSeekGELimit || a.op == opSeekLTLimit || b.op == opNextLimit || b.op == opPrevLimit {
		return true
	}
	if a.op == opSeekPrefixGE && !isAbsolute(b.op) && !isConfig(b.op) {
		return true
	}
	if isConfig(a.op) && a.op != opSetOptionsSame && isAbsolute(b.op) {
		return true
	}
	if (a.op == opSeekGE && b.op == opSeekGE || a.op == opSeekPrefixGE && b.op == opSeekPrefixGE) && a.k < b.k {
		return true // monotone seeks: TrySeekUsingNext
	}
	return false
}

// explore runs every defined sequence of exactly depth calls that starts with seq[:n] (n >= 1).
type explorer struct {
	c     *vlib.Ctx
	t     *keytab
	st    *stateRT
	sid   int
	bi    int
	lo    int
	hi    int
	alpha []ccall
	depth int
	lc    *local
	seq   []ccall
	legal [][]int
	stop  *atomic.Bool
}

func (e *explorer) report(fl *failure, n int) {
	cs := Case{State: e.st.spec, Lower: e.t.s(e.lo), Upper: e.t.s(e.hi), Step: fl.step}
	for _, c := range e.seq[:n] {
		cs.Calls = append(cs.Calls, e.t.decompile(c))
	}
	var names []string
	for _, c := range cs.Calls {
		names = append(names, c.String())
	}
	// re-execute before reporting
	if fl.class != "nondeterministic" {
		for k := 0; k < 2; k++ {
			var l2 local
			if f2 := runSeq(e.t, e.st, e.lo, e.hi, e.seq[:n], &l2, nil); f2 == nil || f2.class != fl.class {
				e.c.Incomplete(fmt.Sprintf("violation did not reproduce: state %s bounds [%s,%s) calls %s: %s", e.st.spec.Name, cs.Lower, cs.Upper, strings.Join(names, " "), fl.desc))
				return
			}
		}
	}
	e.c.Violation(fl.class, fmt.Sprintf("state %s {%s} built by [%s] (cfg %s), iterator bounds [%s,%s), calls: %s: %s",
		e.st.spec.Name, entString(e.st.all), hx.HistString(e.st.spec.Hist), e.st.spec.Cfg.Name, cs.Lower, cs.Upper, strings.Join(names, " "), fl.desc), cs)
}

func entString(es []ent) string {
	var b strings.Builder
	for i, e := range es {
		if i > 0 {
			b.WriteByte(' ')
		}
		fmt.Fprintf(&b, "%s=%s", e.key, e.val)
	}
	return b.String()
}

func (e *explorer) rec(n int) {
	if e.stop.Load() {
		return
	}
	fl := runSeq(e.t, e.st, e.lo, e.hi, e.seq[:n], e.lc, nil)
	if fl != nil {
		e.report(fl, n)
		return // do not extend a failing prefix
	}
	m := &e.lc.m
	if n < e.depth || e.depth < 3 {
		e.lc.states[vlib.Hash(e.sid, m.lo, m.hi, m.cursorString())] = struct{}{}
	}
	if n == 2 && nontrivialPrefix(e.st, &e.seq[0], &e.seq[1]) {
		e.lc.nontriv[vlib.Hash(e.sid, e.bi, e.seq[0], e.seq[1])] = struct{}{}
	}
	if n == e.depth {
		e.lc.seqs++
		return
	}
	lg := e.legal[n][:0]
	for i := range e.alpha {
		if m.legal(&e.alpha[i]) {
			lg = append(lg, i)
		}
	}
	e.legal[n] = lg
	for _, i := range lg {
		e.seq[n] = e.alpha[i]
		e.rec(n + 1)
	}
}

func parallel(workers, n int, f func(i int)) {
	var next atomic.Int64
	var wg sync.WaitGroup
	for w := 0; w < workers; w++ {
		wg.Add(1)
		go func() {
			defer wg.Done()
			for {
				i := int(next.Add(1) - 1)
				if i >= n {
					return
				}
				f(i)
			}
		}()
	}
	wg.Wait()
}

func TestCheck(t *testing.T) {
	vlib.Main(t, "C02", func(c *vlib.Ctx) {
		kt := newKeytab(allKeys())
		if c.ReplayPath() != "" {
			var cs Case
			if err := c.LoadReplay(&cs); err != nil {
				t.Fatal(err)
			}
			st, err := buildState(kt, cs.State)
			if err != nil {
				t.Fatal(err)
			}
			defer st.x.D.Close()
			var calls []ccall
			for _, cl := range cs.Calls {
				calls = append(calls, kt.compile(cl))
			}
			var tr strings.Builder
			var lc local
			fl := runSeq(kt, st, kt.r(cs.Lower), kt.r(cs.Upper), calls, &lc, &tr)
			fmt.Printf("replay: state %s cfg %s\n  history: %s\n  visible: %s\n%s\n  iterator bounds [%s,%s)\n%s",
				cs.State.Name, cs.State.Cfg.Name, hx.HistString(cs.State.Hist), entString(st.all), st.shape, cs.Lower, cs.Upper, tr.String())
			if fl != nil {
				fmt.Printf("replay: VIOLATION class=%s %s\n", fl.class, fl.desc)
				c.Violation(fl.class, fl.desc, cs)
			} else {
				fmt.Printf("replay: agrees with the model\n")
			}
			c.Eval(1)
			c.Trans(len(calls))
			return
		}

		// ---- states
		nPick := quickHistories
		if c.Thorough() {
			nPick = thoroughHistories
		}
		picked, nHist, nDistinct, nClasses := discoverStates(c, nPick)
		var specs []StateSpec
		for _, h := range handShapes {
			for _, cfg := range stateConfigs {
				specs = append(specs, StateSpec{Name: cfg.Name + "/hand/" + h.name, Cfg: cfg, Hist: h.ops})
			}
		}
		for _, p := range picked {
			for _, cfg := range stateConfigs {
				specs = append(specs, StateSpec{Name: cfg.Name + "/" + p.Name, Cfg: cfg, Hist: p.Hist})
			}
		}
		states := make([]*stateRT, len(specs))
		var buildErr atomic.Value
		parallel(c.Workers(), len(specs), func(i int) {
			st, err := buildState(kt, specs[i])
			if err != nil {
				buildErr.Store(fmt.Sprintf("state %s [%s]: %v", specs[i].Name, hx.HistString(specs[i].Hist), err))
				return
			}
			states[i] = st
		})
		if e := buildErr.Load(); e != nil {
			c.Incomplete("building a state failed (C01's business, not decided here): " + e.(string))
			return
		}
		defer func() {
			for _, st := range states {
				st.x.D.Close()
			}
		}()
		nInv := 0
		var stateNames []string
		for _, st := range states {
			if st.invisible {
				nInv++
			}
			stateNames = append(stateNames, fmt.Sprintf("%s {%s}", st.spec.Name, entString(st.all)))
		}

		// ---- sequences
		var mu sync.Mutex
		var planNotes []string
		var totalSeqs, totalCalls int64
		var stop atomic.Bool
		for _, p := range plans(c.Thorough()) {
			alpha := make([]ccall, len(p.alpha))
			for i, cl := range p.alpha {
				alpha[i] = kt.compile(cl)
			}
			// first calls: absolute positioning and SetBounds/SetOptions (relative moves on a
			// never-positioned iterator are not defined)
			var first []int
			for i := range alpha {
				if isAbsolute(alpha[i].op) || isConfig(alpha[i].op) {
					first = append(first, i)
				}
			}
			pst := states
			if p.nStates < len(pst) {
				pst = pst[:p.nStates]
			}
			initialBounds := initialBounds
			if p.init != nil {
				initialBounds = p.init
			}
			nItems := len(pst) * len(initialBounds) * len(first)
			var planSeqs atomic.Int64
			done, complete := c.Each(nItems, func(i int) {
				// the state varies fastest so that concurrent workers use different DBs
				sid := i % len(pst)
				bi := (i / len(pst)) % len(initialBounds)
				fi := i / (len(pst) * len(initialBounds))
				lc := &local{states: map[uint64]struct{}{}, nontriv: map[uint64]struct{}{}}
				e := &explorer{c: c, t: kt, st: states[sid], sid: sid, bi: bi,
					lo: kt.r(initialBounds[bi][0]), hi: kt.r(initialBounds[bi][1]),
					alpha: alpha, depth: p.depth, lc: lc, seq: make([]ccall, p.depth), legal: make([][]int, p.depth+1), stop: &stop}
				e.seq[0] = alpha[first[fi]]
				e.rec(1)
				c.Eval(int(lc.seqs))
				c.Trans(int(lc.calls))
				planSeqs.Add(lc.seqs)
				for k, n := range lc.outcomes {
					if n > 0 {
						c.OutcomeN(ocNames[k], n)
					}
				}
				for h := range lc.states {
					c.State(h)
				}
				for h := range lc.nontriv {
					c.Nontrivial(h)
				}
				if lc.seqs > 0 && i%997 == 0 {
					var names []string
					for _, cl := range e.seq {
						names = append(names, kt.decompile(cl).String())
					}
					c.Sample(map[string]any{"state": states[sid].spec.Name, "history": hx.HistString(states[sid].spec.Hist),
						"visible": entString(states[sid].all), "bounds": initialBounds[bi], "last_sequence_of_item": strings.Join(names, " "),
						"sequences_in_item": lc.seqs})
				}
				mu.Lock()
				totalSeqs += lc.seqs
				totalCalls += lc.calls
				mu.Unlock()
				if c.NViolations() >= 40 {
					stop.Store(true)
				}
			})
			planNotes = append(planNotes, fmt.Sprintf("%s: first %d states, alphabet %d (%d usable as first call), depth %d: %d of %d (state, bounds, first call) items, %d full-depth sequences",
				p.name, len(pst), len(alpha), len(first), p.depth, done, nItems, planSeqs.Load()))
			if !complete {
				c.Incomplete(fmt.Sprintf("budget expired in plan %s after %d of %d (state, bounds, first call) items; every earlier plan is complete", p.name, done, nItems))
				break
			}
			if stop.Load() {
				c.Incomplete("stopped after 40 violations")
				break
			}
		}
		// the reads must not have changed the LSM
		for _, st := range states {
			if s := st.x.Shape(); s != st.shape {
				c.Incomplete(fmt.Sprintf("state %s changed its LSM shape during the run:\n%s\nnow\n%s", st.spec.Name, st.shape, s))
			}
		}
		sort.Strings(stateNames)
		c.Note("plans", planNotes)
		c.Note("states", fmt.Sprintf("%d LSM states (%d with an invisible internal key) = (%d hand-built + %d write histories picked from %d distinct (visible state, LSM shape, memtable) signatures in %d shape classes reached by %d enumerated histories) x %d DB configurations; x %d initial bound pairs",
			len(states), nInv, len(handShapes), len(picked), nDistinct, nClasses, nHist, len(stateConfigs), len(initialBounds)))
		c.Note("state_list", stateNames)
		c.Note("scope", fmt.Sprintf("%d full-depth call sequences, %d iterator calls, every call compared with the model", totalSeqs, totalCalls))
	})
}
