package c02

import (
	"fmt"
	"regexp"
	"sort"
	"strings"

	"github.com/cockroachdb/pebble/internal/verif/hx"
	"github.com/cockroachdb/pebble/internal/verif/vlib"
	"github.com/cockroachdb/pebble/vfs"
)

// The key universe of the LSM states (testkeys order: a < a@3 < a@1 < b@2 < c).
var universe = []string{"a", "a@3", "a@1", "b@2", "c"}

// Write alphabet of the state enumeration, simplest first.
var writeAlphabet = []hx.Op{
	{K: "set", Key: "a"},
	{K: "set", Key: "a@3"},
	{K: "set", Key: "a@1"},
	{K: "set", Key: "b@2"},
	{K: "set", Key: "c"},
	{K: "flush"},
	{K: "del", Key: "a@3"},
	{K: "del", Key: "b@2"},
	{K: "merge", Key: "a@1"},
	{K: "merge", Key: "c"},
	{K: "compact"},
	{K: "delrange", Key: "a@3", End: "b@2"},
	{K: "delrange", Key: "a", End: "c"},
	{K: "ingest", Sub: []hx.Op{{K: "set", Key: "a@1"}, {K: "set", Key: "c"}}},
	{K: "ingest", Sub: []hx.Op{{K: "del", Key: "a@3"}, {K: "set", Key: "b@2"}}},
}

// Two DB configurations: one table per flush/level, and one table and one block per key (level
// iterators and two-level indexes cross a file/block boundary on every step). No WAL and a 16 KiB
// memtable only because opening thousands of DBs is otherwise dominated by clearing WAL buffers and
// memtable arenas; neither is visible to an iterator.
var stateConfigs = []hx.Config{
	{Name: "base", DisableWAL: true, MemTableSize: 16 << 10},
	{Name: "tiny", DisableWAL: true, MemTableSize: 16 << 10, TinyFiles: true, BlockSize: 1},
}

// Bases from which the write histories start.
type base struct {
	name  string
	ops   []hx.Op
	depth int
}

var bases = []base{
	{"empty", nil, 3},
	{"l6-all", []hx.Op{
		{K: "set", Key: "a"}, {K: "set", Key: "a@3"}, {K: "set", Key: "a@1"}, {K: "set", Key: "b@2"}, {K: "set", Key: "c"},
		{K: "flush"}, {K: "compact"}}, 2},
	{"l6+l0", []hx.Op{
		{K: "set", Key: "a"}, {K: "set", Key: "a@1"}, {K: "set", Key: "c"}, {K: "flush"}, {K: "compact"},
		{K: "set", Key: "a@3"}, {K: "set", Key: "b@2"}, {K: "set", Key: "c"}, {K: "flush"}}, 2},
}

// Hand-built start shapes.
var handShapes = []struct {
	name string
	ops  []hx.Op
}{
	// memtable + two L0 files; a@3 shadowed twice, b@2 deleted in the newer file, c deleted in the memtable
	{"mem+l0x2-shadowed-deleted", []hx.Op{
		{K: "set", Key: "a@3"}, {K: "set", Key: "a@1"}, {K: "set", Key: "b@2"}, {K: "set", Key: "c"}, {K: "flush"},
		{K: "set", Key: "a@3"}, {K: "del", Key: "b@2"}, {K: "set", Key: "a"}, {K: "flush"},
		{K: "set", Key: "a@3"}, {K: "del", Key: "c"}, {K: "merge", Key: "a@1"}}},
	// range deletion in L0 over L6, one covered key resurrected in the memtable
	{"rangedel-over-l6", []hx.Op{
		{K: "set", Key: "a"}, {K: "set", Key: "a@3"}, {K: "set", Key: "a@1"}, {K: "set", Key: "b@2"}, {K: "set", Key: "c"},
		{K: "flush"}, {K: "compact"},
		{K: "delrange", Key: "a@3", End: "b@2"}, {K: "flush"}, {K: "set", Key: "a@1"}}},
	// merge operands of one key spread over L6, L0 and the memtable, next to plain keys
	{"merge-stack", []hx.Op{
		{K: "merge", Key: "a@1"}, {K: "set", Key: "b@2"}, {K: "flush"}, {K: "compact"},
		{K: "merge", Key: "a@1"}, {K: "merge", Key: "c"}, {K: "flush"},
		{K: "merge", Key: "a@1"}, {K: "set", Key: "a@3"}, {K: "merge", Key: "b@2"}}},
	// three consecutive deleted keys between two live ones (sparse key space: limits pause on
	// invisible keys, the SeekGE no-op optimisation, TrySeekUsingNext over tombstones)
	// one table (with its bloom filter) that lacks the prefix c, c only in the memtable
	{"l6-table-without-c", []hx.Op{
		{K: "set", Key: "a"}, {K: "set", Key: "a@3"}, {K: "set", Key: "a@1"}, {K: "set", Key: "b@2"},
		{K: "flush"}, {K: "compact"}, {K: "set", Key: "c"}}},
	// one L0 table that lacks the prefix b
	{"l0-table-without-b", []hx.Op{
		{K: "set", Key: "a"}, {K: "set", Key: "a@3"}, {K: "set", Key: "a@1"}, {K: "set", Key: "c"}, {K: "flush"}}},
	{"tombstone-run", []hx.Op{
		{K: "set", Key: "a"}, {K: "set", Key: "a@3"}, {K: "set", Key: "a@1"}, {K: "set", Key: "b@2"}, {K: "set", Key: "c"},
		{K: "flush"}, {K: "compact"},
		{K: "del", Key: "a@3"}, {K: "del", Key: "a@1"}, {K: "flush"}, {K: "del", Key: "b@2"}}},
}

// StateSpec names one LSM state: configuration + the write history that builds it.
type StateSpec struct {
	Name string    `json:"name"`
	Cfg  hx.Config `json:"cfg"`
	Hist []hx.Op   `json:"hist"`
}

// stateRT is a built state: the open DB and the model's visible entries.
type stateRT struct {
	spec      StateSpec
	x         *hx.X
	all       []ent
	shape     string
	invisible bool // the LSM holds at least one internal key that is not visible (tombstone, shadowed version, merge operand)
}

var (
	reFileNum = regexp.MustCompile(`\d{6}:`)
	reSeqNum  = regexp.MustCompile(`#\d+`)
)

func normShape(s string) string {
	return reSeqNum.ReplaceAllString(reFileNum.ReplaceAllString(s, ""), "")
}

// buildState executes the history on a fresh in-memory DB and the hx model, checks that the DB shows
// the model's state and returns both.
func buildState(t *keytab, spec StateSpec) (*stateRT, error) {
	x, err := hx.Open(vfs.NewMem(), "db", spec.Cfg)
	if err != nil {
		return nil, err
	}
	m := hx.NewModel("a", "c", "z")
	writes := map[string]int{}
	invisible := false
	for i, op := range spec.Hist {
		if err := x.Apply(i, op); err != nil {
			x.D.Close()
			return nil, fmt.Errorf("step %d %s: %v", i, op, err)
		}
		// An ingestion that overlaps the memtable is queued as a flushable and flushed in the
		// background: wait (clock-free) so that the state the iterators see is always the same.
		x.D.VerifWaitIdle()
		m.Apply(op, fmt.Sprintf("v%d", i))
		var touched []hx.Op
		if op.K == "ingest" {
			touched = op.Sub
		} else {
			touched = []hx.Op{op}
		}
		for _, s := range touched {
			switch s.K {
			case "set", "merge":
				writes[s.Key]++
				if writes[s.Key] > 1 {
					invisible = true
				}
			case "del", "delrange":
				invisible = true
			}
		}
	}
	if d := hx.CompareLatest(x.D, m, universe, false); d != "" {
		x.D.Close()
		return nil, fmt.Errorf("state does not show the model's content: %s", d)
	}
	st := &stateRT{spec: spec, x: x, shape: x.Shape(), invisible: invisible}
	for _, p := range m.Points() {
		st.all = append(st.all, ent{rank: t.r(p.K), key: []byte(p.K), val: []byte(p.V)})
	}
	return st, nil
}

// candidate is one state reached by the enumeration.
type candidate struct {
	spec  StateSpec
	order int    // enumeration order
	sig   string // fine signature: visible keys + normalised LSM shape + unflushed writes
	class string // shape class (conjunction of the state's features) used to spread the capped selection
}

func histKinds(h []hx.Op) (del, rdel, merge, ingest bool) {
	for _, o := range h {
		switch o.K {
		case "del":
			del = true
		case "delrange":
			rdel = true
		case "merge":
			merge = true
		case "ingest":
			ingest = true
		}
	}
	return
}

// describe executes a history and returns the signature/class of the state after every step >= from.
func describe(cfg hx.Config, hist []hx.Op, from int) (sigs, classes []string, err error) {
	x, err := hx.Open(vfs.NewMem(), "db", cfg)
	if err != nil {
		return nil, nil, err
	}
	defer x.D.Close()
	m := hx.NewModel("a", "c", "z")
	var mem []string
	for i, op := range hist {
		if err := x.Apply(i, op); err != nil {
			return nil, nil, fmt.Errorf("step %d %s: %v", i, op, err)
		}
		x.D.VerifWaitIdle()
		m.Apply(op, fmt.Sprintf("v%d", i))
		switch op.K {
		case "flush", "compact":
			mem = mem[:0]
		case "ingest":
			// an ingestion that overlaps the memtable flushes it first
			for _, s := range op.Sub {
				for _, w := range mem {
					if strings.Contains(w, " "+s.Key) {
						mem = mem[:0]
						break
					}
				}
			}
		default:
			mem = append(mem, op.String())
		}
		if i+1 < from {
			continue
		}
		shape := normShape(x.Shape())
		var vis []string
		for _, p := range m.Points() {
			v := "s"
			if len(p.V) > 3 { // merged values are concatenations
				v = "m"
			}
			vis = append(vis, p.K+v)
		}
		sig := cfg.Name + "|" + strings.Join(vis, ",") + "|" + shape + "|" + strings.Join(mem, ";")
		nl0 := strings.Count(shape, "L0.")
		l6 := strings.Contains(shape, "L6:")
		del, rdel, mrg, ing := histKinds(hist[from-1 : i+1])
		// Features of the state; the class is their conjunction. The selection covers feature
		// pairs (see discoverStates).
		vb := "vis=0"
		if len(vis) >= 3 {
			vb = "vis>=3"
		} else if len(vis) >= 1 {
			vb = "vis=1..2"
		}
		feats := []string{vb, fmt.Sprintf("l0=%d", min(nl0, 3)), "last=" + op.K}
		if len(mem) > 0 {
			feats = append(feats, "mem")
		}
		if l6 {
			feats = append(feats, "l6")
		}
		for name, b := range map[string]bool{"del": del, "rangedel": rdel, "merge": mrg, "ingest": ing} {
			if b {
				feats = append(feats, name)
			}
		}
		sort.Strings(feats)
		class := strings.Join(feats, ",")
		sigs = append(sigs, sig)
		classes = append(classes, class)
	}
	return sigs, classes, nil
}

// discoverStates enumerates every write history (bases x alphabet^depth, executed under the first
// configuration), keeps the first history (enumeration order) of each distinct signature, groups
// them by shape class and picks up to limit classes by a greedy pairwise cover of their features, so
// that the capped selection is deterministic and spread over the shape classes.
func discoverStates(c *vlib.Ctx, limit int) (picked []StateSpec, nHist, nDistinct, nClasses int) {
	type job struct {
		b    base
		hist []hx.Op
	}
	cfg := stateConfigs[0]
	var jobs []job
	k := len(writeAlphabet)
	for _, b := range bases {
		n := vlib.SeqCount(k, b.depth, b.depth)
		for i := 0; i < n; i++ {
			seq := vlib.SeqDecode(i, k, b.depth, b.depth)
			h := append([]hx.Op{}, b.ops...)
			for _, s := range seq {
				h = append(h, writeAlphabet[s])
			}
			jobs = append(jobs, job{b, h})
		}
	}
	type res struct {
		sigs, classes []string
		err           error
	}
	results := make([]res, len(jobs))
	// Not budget-limited and not sharded: the selection must be the same in every run.
	parallel(c.Workers(), len(jobs), func(i int) {
		j := jobs[i]
		from := len(j.b.ops) + 1
		if len(j.b.ops) > 0 {
			from = len(j.b.ops) // the base itself is a candidate too
		}
		var r res
		r.sigs, r.classes, r.err = describe(cfg, j.hist, from)
		results[i] = r
	})
	seen := map[string]bool{}
	byClass := map[string][]candidate{}
	var classOrder []string
	order := 0
	for i, r := range results {
		if r.err != nil {
			c.Incomplete(fmt.Sprintf("state enumeration: history [%s] failed: %v", hx.HistString(jobs[i].hist), r.err))
			continue
		}
		j := jobs[i]
		from := len(j.hist) - len(r.sigs)
		for s := range r.sigs {
			order++
			if seen[r.sigs[s]] {
				continue
			}
			seen[r.sigs[s]] = true
			h := append([]hx.Op{}, j.hist[:from+s+1]...)
			cl := r.classes[s]
			cl = j.b.name + "|" + cl
			if _, ok := byClass[cl]; !ok {
				classOrder = append(classOrder, cl)
			}
			byClass[cl] = append(byClass[cl], candidate{
				spec:  StateSpec{Name: fmt.Sprintf("%s/%d", j.b.name, order), Hist: h},
				order: order, sig: r.sigs[s], class: cl})
		}
	}
	// One candidate per class (its first history in enumeration order). Greedy pairwise coverage:
	// repeatedly pick the candidate that covers the most not yet covered pairs of (base, feature)
	// and (feature, feature); ties go to the earlier class. When nothing new can be covered the
	// covered set is cleared and the selection continues with the remaining candidates.
	type cand struct {
		c     candidate
		pairs []string
	}
	var pool []cand
	for _, cl := range classOrder {
		c0 := byClass[cl][0]
		bf := strings.SplitN(cl, "|", 2)
		fs := append([]string{"base=" + bf[0]}, strings.Split(bf[1], ",")...)
		var ps []string
		for a := 0; a < len(fs); a++ {
			for b := a + 1; b < len(fs); b++ {
				ps = append(ps, fs[a]+"&"+fs[b])
			}
		}
		pool = append(pool, cand{c0, ps})
	}
	covered := map[string]bool{}
	used := make([]bool, len(pool))
	for len(picked) < limit && len(picked) < len(pool) {
		best, bestGain := -1, 0
		for i, p := range pool {
			if used[i] {
				continue
			}
			g := 0
			for _, x := range p.pairs {
				if !covered[x] {
					g++
				}
			}
			if g > bestGain {
				best, bestGain = i, g
			}
		}
		if best < 0 {
			covered = map[string]bool{}
			continue
		}
		used[best] = true
		for _, x := range pool[best].pairs {
			covered[x] = true
		}
		picked = append(picked, pool[best].c.spec)
	}
	return picked, len(jobs), len(seen), len(classOrder)
}
