package c02

import (
	"bytes"
	"sort"

	"github.com/cockroachdb/pebble"
	"github.com/cockroachdb/pebble/internal/testkeys"
)

// ---------------------------------------------------------------------------------------------
// Key table: every key that occurs anywhere (state keys, probe keys, bound keys) gets a rank in the
// testkeys order and a prefix id, so that the model works on small integers.
// ---------------------------------------------------------------------------------------------

func cmpKeys(a, b []byte) int { return testkeys.Comparer.Compare(a, b) }

func prefixOf(k []byte) []byte { return k[:testkeys.Comparer.Split(k)] }

type keytab struct {
	keys [][]byte
	rank map[string]int
	pfx  []int // prefix id of keys[i]
	suff []bool
	pfxB [][]byte // prefix bytes by prefix id
}

func newKeytab(all []string) *keytab {
	seen := map[string]bool{}
	t := &keytab{rank: map[string]int{}}
	for _, k := range all {
		if k != "" && !seen[k] {
			seen[k] = true
			t.keys = append(t.keys, []byte(k))
		}
	}
	sort.Slice(t.keys, func(i, j int) bool { return cmpKeys(t.keys[i], t.keys[j]) < 0 })
	pid := map[string]int{}
	for i, k := range t.keys {
		t.rank[string(k)] = i
		p := string(prefixOf(k))
		if _, ok := pid[p]; !ok {
			pid[p] = len(pid)
			t.pfxB = append(t.pfxB, []byte(p))
		}
		t.pfx = append(t.pfx, pid[p])
		t.suff = append(t.suff, len(p) != len(k))
	}
	return t
}

// r returns the rank of key k; "" is -1 (nil key / no bound).
func (t *keytab) r(k string) int {
	if k == "" {
		return -1
	}
	v, ok := t.rank[k]
	if !ok {
		panic("c02: key " + k + " is not in the key table")
	}
	return v
}

func (t *keytab) b(rank int) []byte {
	if rank < 0 {
		return nil
	}
	return t.keys[rank]
}

func (t *keytab) s(rank int) string {
	if rank < 0 {
		return ""
	}
	return string(t.keys[rank])
}

// ---------------------------------------------------------------------------------------------
// Calls
// ---------------------------------------------------------------------------------------------

const (
	opFirst = iota
	opLast
	opNext
	opPrev
	opNextPrefix
	opSeekGE
	opSeekLT
	opSeekPrefixGE
	opNextLimit
	opPrevLimit
	opSeekGELimit
	opSeekLTLimit
	opSetBounds
	opSetOptions
	opSetOptionsSame // SetOptions with the bounds the iterator currently has (fast path)
)

var opNames = []string{"First", "Last", "Next", "Prev", "NextPrefix", "SeekGE", "SeekLT", "SeekPrefixGE",
	"NextWithLimit", "PrevWithLimit", "SeekGEWithLimit", "SeekLTWithLimit", "SetBounds", "SetOptions", "SetOptionsSame"}

// Call is the replayable form of one iterator call.
type Call struct {
	Op string `json:"op"`
	K  string `json:"k,omitempty"`  // seek key
	L  string `json:"l,omitempty"`  // limit
	Lo string `json:"lo,omitempty"` // SetBounds/SetOptions lower ("" = nil)
	Hi string `json:"hi,omitempty"`
}

func (c Call) String() string {
	switch c.Op {
	case "SeekGE", "SeekLT", "SeekPrefixGE":
		return c.Op + "(" + c.K + ")"
	case "NextWithLimit", "PrevWithLimit":
		return c.Op + "(" + c.L + ")"
	case "SeekGEWithLimit", "SeekLTWithLimit":
		return c.Op + "(" + c.K + "," + c.L + ")"
	case "SetBounds", "SetOptions":
		return c.Op + "[" + c.Lo + "," + c.Hi + ")"
	}
	return c.Op + "()"
}

// ccall is the compiled form.
type ccall struct {
	op     int
	k, l   int // ranks, -1 = none
	lo, hi int
}

func (t *keytab) compile(c Call) ccall {
	op := -1
	for i, n := range opNames {
		if n == c.Op {
			op = i
		}
	}
	if op < 0 {
		panic("c02: unknown op " + c.Op)
	}
	return ccall{op: op, k: t.r(c.K), l: t.r(c.L), lo: t.r(c.Lo), hi: t.r(c.Hi)}
}

func (t *keytab) decompile(c ccall) Call {
	return Call{Op: opNames[c.op], K: t.s(c.k), L: t.s(c.l), Lo: t.s(c.lo), Hi: t.s(c.hi)}
}

func isAbsolute(op int) bool {
	switch op {
	case opFirst, opLast, opSeekGE, opSeekLT, opSeekPrefixGE, opSeekGELimit, opSeekLTLimit:
		return true
	}
	return false
}

func isConfig(op int) bool { return op == opSetBounds || op == opSetOptions || op == opSetOptionsSame }

// direction of a positioning call: +1 forward, -1 backward, 0 none
func dirOf(op int) int {
	switch op {
	case opFirst, opNext, opNextPrefix, opSeekGE, opSeekPrefixGE, opNextLimit, opSeekGELimit:
		return 1
	case opLast, opPrev, opSeekLT, opPrevLimit, opSeekLTLimit:
		return -1
	}
	return 0
}

// ---------------------------------------------------------------------------------------------
// The iterator model: sorted slice of visible entries + cursor (on an element or in a gap between
// two elements) + bounds + prefix mode.
// ---------------------------------------------------------------------------------------------

type ent struct {
	rank int
	key  []byte
	val  []byte
}

const (
	errNone = iota
	errYes
	errUnknown // an error state followed by SetBounds/SetOptions: Error() is not predicted
)

type model struct {
	t          *keytab
	all        []ent // every visible entry of the state, sorted
	lo, hi     int   // bounds as ranks, -1 = none
	hiSuffixed bool
	inb        []ent // all ∩ [lo,hi)
	pbuf       []ent
	cur        []ent // working slice: inb, or inb ∩ prefix in prefix mode
	positioned bool  // an absolute positioning call succeeded since creation / the last SetBounds/SetOptions
	errSt      int
	prefix     int // -1 = not in prefix mode
	onElem     bool
	idx        int  // element index, or gap index g (between cur[g-1] and cur[g])
	atLimit    bool // in a gap because a limit call answered IterAtLimit
	lastDir    int
}

func (m *model) reset(t *keytab, all []ent, lo, hi int) {
	m.t = t
	m.all = all
	m.positioned = false
	m.errSt = errNone
	m.prefix = -1
	m.onElem = false
	m.idx = 0
	m.atLimit = false
	m.lastDir = 0
	m.setBounds(lo, hi)
}

func (m *model) setBounds(lo, hi int) {
	m.lo, m.hi = lo, hi
	m.hiSuffixed = hi >= 0 && m.t.suff[hi]
	m.inb = m.inb[:0]
	for _, e := range m.all {
		if lo >= 0 && e.rank < lo {
			continue
		}
		if hi >= 0 && e.rank >= hi {
			continue
		}
		m.inb = append(m.inb, e)
	}
	m.cur = m.inb
}

// legal reports whether the API defines the result of c in the current state.
//
// Not generated (undefined / unsupported by the API):
//   - relative moves (Next, Prev, NextPrefix, NextWithLimit, PrevWithLimit) before the first absolute
//     positioning call, after SetBounds/SetOptions without an absolute reposition, or while the
//     iterator holds an error;
//   - Prev / PrevWithLimit in prefix mode ("not supported");
//   - NextPrefix at an IterAtLimit position (documented as non-deterministic).
func (m *model) legal(c *ccall) bool {
	if isAbsolute(c.op) || isConfig(c.op) {
		return true
	}
	if !m.positioned || m.errSt != errNone {
		return false
	}
	switch c.op {
	case opPrev, opPrevLimit:
		return m.prefix < 0
	case opNextPrefix:
		return !m.atLimit
	}
	return true
}

const (
	exExact      = iota // validity and, if valid, the entry are determined
	exLimit             // best-effort limit call: a set of answers is acceptable
	exError             // the call must fail: returns false/IterExhausted and Error() != nil
	exInvalidate        // SetBounds/SetOptions: Valid() must be false afterwards
)

type expect struct {
	kind      int
	valid     bool // exExact
	e         ent  // exExact && valid; exLimit && nOK: the entry a Valid answer must show
	n         int  // exLimit: index of the next visible in-bounds entry in the direction of the call
	nOK       bool // exLimit: that entry exists
	atLimitOK bool // exLimit: IterAtLimit is acceptable (n does not exist or lies at/beyond the limit)
	fwd       bool
}

func lowerBound(s []ent, rank int) int {
	i := 0
	for i < len(s) && s[i].rank < rank {
		i++
	}
	return i
}

func (m *model) absolute() {
	m.positioned = true
	m.errSt = errNone
	m.prefix = -1
	m.atLimit = false
	m.cur = m.inb
}

func (m *model) landFwd(n int) expect {
	m.atLimit = false
	m.lastDir = 1
	if n < len(m.cur) {
		m.onElem, m.idx = true, n
		return expect{kind: exExact, valid: true, e: m.cur[n]}
	}
	m.onElem, m.idx = false, len(m.cur)
	return expect{kind: exExact}
}

func (m *model) landBack(n int) expect {
	m.atLimit = false
	m.lastDir = -1
	if n >= 0 {
		m.onElem, m.idx = true, n
		return expect{kind: exExact, valid: true, e: m.cur[n]}
	}
	m.onElem, m.idx = false, 0
	return expect{kind: exExact}
}

func (m *model) fail() expect {
	m.errSt = errYes
	m.onElem = false
	m.atLimit = false
	return expect{kind: exError}
}

func (m *model) limitFwd(n int, limit int) expect {
	m.lastDir = 1
	ex := expect{kind: exLimit, n: n, fwd: true}
	if n < len(m.cur) {
		ex.nOK = true
		ex.e = m.cur[n]
		ex.atLimitOK = m.cur[n].rank >= limit // the limit is exclusive going forward
	} else {
		ex.atLimitOK = true
	}
	return ex
}

func (m *model) limitBack(n int, limit int) expect {
	m.lastDir = -1
	ex := expect{kind: exLimit, n: n, fwd: false}
	if n >= 0 {
		ex.nOK = true
		ex.e = m.cur[n]
		ex.atLimitOK = m.cur[n].rank < limit // the limit is inclusive going backward
	} else {
		ex.atLimitOK = true
	}
	return ex
}

// settle moves the cursor according to the (acceptable) answer Pebble gave to a limit call.
func (m *model) settle(ex expect, got pebble.IterValidityState) {
	m.atLimit = false
	switch got {
	case pebble.IterValid:
		m.onElem, m.idx = true, ex.n
	case pebble.IterExhausted:
		m.onElem = false
		if ex.fwd {
			m.idx = len(m.cur)
		} else {
			m.idx = 0
		}
	case pebble.IterAtLimit:
		m.onElem = false
		m.atLimit = true
		if ex.fwd {
			m.idx = len(m.cur)
			if ex.nOK {
				m.idx = ex.n
			}
		} else {
			m.idx = 0
			if ex.nOK {
				m.idx = ex.n + 1
			}
		}
	}
}

func (m *model) nextIdx() int {
	if m.onElem {
		return m.idx + 1
	}
	return m.idx
}

func (m *model) prevIdx() int { return m.idx - 1 } // same for element i and gap i

// apply advances the model over c (which must be legal) and returns what the call must answer.
func (m *model) apply(c *ccall) expect {
	switch c.op {
	case opFirst:
		m.absolute()
		return m.landFwd(0)
	case opLast:
		m.absolute()
		return m.landBack(len(m.cur) - 1)
	case opSeekGE:
		// clamping to [lower, upper] is implied by searching the in-bounds slice
		m.absolute()
		return m.landFwd(lowerBound(m.cur, c.k))
	case opSeekLT:
		m.absolute()
		return m.landBack(lowerBound(m.cur, c.k) - 1)
	case opSeekGELimit:
		m.absolute()
		return m.limitFwd(lowerBound(m.cur, c.k), c.l)
	case opSeekLTLimit:
		m.absolute()
		return m.limitBack(lowerBound(m.cur, c.k)-1, c.l)
	case opSeekPrefixGE:
		m.absolute()
		p := m.t.pfx[c.k]
		m.prefix = p
		// A seek key outside the bounds is moved to the bound if the bound has the same prefix,
		// otherwise the call fails.
		if m.lo >= 0 && c.k < m.lo && m.t.pfx[m.lo] != p {
			return m.fail()
		}
		if m.hi >= 0 && c.k > m.hi && m.t.pfx[m.hi] != p {
			return m.fail()
		}
		m.pbuf = m.pbuf[:0]
		for _, e := range m.inb {
			if m.t.pfx[e.rank] == p {
				m.pbuf = append(m.pbuf, e)
			}
		}
		m.cur = m.pbuf
		return m.landFwd(lowerBound(m.cur, c.k))
	case opNext:
		return m.landFwd(m.nextIdx())
	case opPrev:
		return m.landBack(m.prevIdx())
	case opNextPrefix:
		if m.hiSuffixed {
			return m.fail() // documented: error with an upper bound that carries a suffix
		}
		if m.prefix >= 0 {
			// documented: exhausts the iterator in prefix mode
			return m.landFwd(len(m.cur))
		}
		if !m.onElem {
			return m.landFwd(m.idx)
		}
		p := m.t.pfx[m.cur[m.idx].rank]
		n := m.idx + 1
		for n < len(m.cur) && m.t.pfx[m.cur[n].rank] == p {
			n++
		}
		return m.landFwd(n)
	case opNextLimit:
		if m.prefix >= 0 {
			return m.fail() // "cannot use limit with prefix iteration"
		}
		return m.limitFwd(m.nextIdx(), c.l)
	case opPrevLimit:
		return m.limitBack(m.prevIdx(), c.l)
	case opSetBounds, opSetOptions, opSetOptionsSame:
		if c.op != opSetOptionsSame {
			m.setBounds(c.lo, c.hi)
		}
		m.positioned = false
		m.prefix = -1
		m.onElem = false
		m.atLimit = false
		m.cur = m.inb
		if m.errSt == errYes {
			m.errSt = errUnknown
		}
		return expect{kind: exInvalidate}
	}
	panic("c02: model cannot apply op")
}

// cursorString describes the model position (for state hashing and replays).
func (m *model) cursorString() string {
	var b bytes.Buffer
	if !m.positioned {
		b.WriteString("unpositioned")
	} else if m.errSt == errYes {
		b.WriteString("error")
	} else if m.onElem {
		b.WriteString("on ")
		b.Write(m.cur[m.idx].key)
	} else {
		b.WriteString("gap ")
		if m.idx > 0 {
			b.Write(m.cur[m.idx-1].key)
		} else {
			b.WriteString("-inf")
		}
		b.WriteString("|")
		if m.idx < len(m.cur) {
			b.Write(m.cur[m.idx].key)
		} else {
			b.WriteString("+inf")
		}
		if m.atLimit {
			b.WriteString(" paused")
		}
	}
	if m.prefix >= 0 {
		b.WriteString(" prefix-mode")
	}
	return b.String()
}
