// Package hist is the general engine-A harness: histories over a write alphabet extended with
// reader-management symbols (snapshots, iterators, clones, EFOS) and maintenance symbols, executed
// on a real DB with a set of monitors evaluated after EVERY operation. Each property it serves
// (C03, C04, C14, C15, C36, C37, C39, C44, C45, C47) is a plan: alphabet + configurations + depth +
// monitor set.
package hist

import (
	"bytes"
	"context"
	"fmt"
	"sort"
	"strings"
	"sync"

	"github.com/cockroachdb/pebble"
	"github.com/cockroachdb/pebble/internal/verif/hx"
	"github.com/cockroachdb/pebble/internal/verif/vlib"
	"github.com/cockroachdb/pebble/vfs"
)

var universe = []string{"a", "b", "c"}
var bounds = []string{"a", "b", "c", "z"}

type span struct{ lo, hi string }

type reader struct {
	kind    string // snap, iter, clone, efos
	m       *hx.Model
	snap    *pebble.Snapshot
	it      *pebble.Iterator
	efos    *pebble.EventuallyFileOnlySnapshot
	excised []span // spans excised after a classic snapshot was opened (documented exception)
	born    int
	live    map[string]bool // table/blob files of the version this reader pinned (C39)
}

type monitors struct {
	latest    bool // C01-style latest-state comparison (points + range keys)
	readers   bool // C03/C04/C37: every open reader against its creation-time model
	levels    bool // C15: CheckLevels + independent LSM invariant checker
	removes   bool // C39: intercepted Remove must not hit a live file; no dead file lingers
	scanInt   bool // C45: ScanInternal replay epilogue
	closeLeak bool // C47: Close releases everything
	lazy      bool // C44: also read through LazyValue
}

type run struct {
	c       *vlib.Ctx
	cfg     hx.Config
	mon     monitors
	x       *hx.X
	m       *hx.Model
	readers []*reader
	rmu     sync.Mutex // guards the readers slice against the file-removal monitor (cleanup goroutine)
	fs      *trackFS
	kinds   map[string]int // compaction kinds observed
	kmu     sync.Mutex
	verbose bool
	step    int
}

type failure struct {
	class, desc string
	step        int
}

func inSpan(k string, s span) bool { return hx.Cmp(k, s.lo) >= 0 && hx.Cmp(k, s.hi) < 0 }

// compareReader checks one open reader against its creation-time model.
func (r *run) compareReader(rd *reader) string {
	want := rd.m.Points()
	var got []hx.KV
	var err error
	switch rd.kind {
	case "snap":
		// inside a span excised later the snapshot's view is unspecified (a Get and a scan may even
		// disagree while the excise's flush is settling): cross-check Get only outside such spans.
		uni := universe
		if len(rd.excised) > 0 {
			uni = nil
			for _, k := range universe {
				ex := false
				for _, s := range rd.excised {
					ex = ex || inSpan(k, s)
				}
				if !ex {
					uni = append(uni, k)
				}
			}
		}
		got, err = hx.ObservePoints(rd.snap, uni)
	case "efos":
		got, err = hx.ObservePoints(rd.efos, universe)
	case "iter", "clone":
		got, err = driveIter(rd.it)
	}
	if err != nil {
		return fmt.Sprintf("%s opened at step %d: read error: %v", rd.kind, rd.born, err)
	}
	if rd.kind == "efos" {
		// only the protected range [a,c) is promised
		got = filter(got, span{"a", "c"})
		want = filter(want, span{"a", "c"})
	}
	if len(rd.excised) > 0 {
		// documented exception: data inside a span excised later may disappear from a classic
		// snapshot; whatever is still visible there must be the snapshot's own value.
		wm := map[string]string{}
		for _, e := range want {
			wm[e.K] = e.V
		}
		var g2, w2 []hx.KV
		for _, e := range got {
			ex := false
			for _, s := range rd.excised {
				if inSpan(e.K, s) {
					ex = true
				}
			}
			if ex {
				if wm[e.K] != e.V {
					return fmt.Sprintf("%s opened at step %d: inside an excised span it shows %s=%s, its own state had %q", rd.kind, rd.born, e.K, e.V, wm[e.K])
				}
				continue
			}
			g2 = append(g2, e)
		}
		for _, e := range want {
			ex := false
			for _, s := range rd.excised {
				if inSpan(e.K, s) {
					ex = true
				}
			}
			if !ex {
				w2 = append(w2, e)
			}
		}
		got, want = g2, w2
	}
	if g, w := hx.PointsString(got), hx.PointsString(want); g != w {
		return fmt.Sprintf("%s opened at step %d shows {%s}, the state at its creation was {%s}", rd.kind, rd.born, g, w)
	}
	return ""
}

func filter(kv []hx.KV, s span) []hx.KV {
	var out []hx.KV
	for _, e := range kv {
		if inSpan(e.K, s) {
			out = append(out, e)
		}
	}
	return out
}

// driveIter re-drives an already open iterator through every positioning style and returns what it
// shows; an error is returned if the styles disagree.
func driveIter(it *pebble.Iterator) ([]hx.KV, error) {
	var fwd, bwd []hx.KV
	for v := it.First(); v; v = it.Next() {
		fwd = append(fwd, hx.KV{K: string(it.Key()), V: hx.Val(it.Value())})
	}
	if err := it.Error(); err != nil {
		return nil, err
	}
	for v := it.Last(); v; v = it.Prev() {
		bwd = append(bwd, hx.KV{K: string(it.Key()), V: hx.Val(it.Value())})
	}
	if err := it.Error(); err != nil {
		return nil, err
	}
	if len(fwd) != len(bwd) {
		return fwd, fmt.Errorf("forward %v and backward %v scans differ", fwd, bwd)
	}
	for i := range fwd {
		if fwd[i] != bwd[len(bwd)-1-i] {
			return fwd, fmt.Errorf("forward %v and backward %v scans differ", fwd, bwd)
		}
	}
	have := map[string]string{}
	for _, e := range fwd {
		have[e.K] = e.V
	}
	for _, k := range universe {
		ok := it.SeekGE([]byte(k))
		v, present := have[k]
		if present {
			if !ok || string(it.Key()) != k || hx.Val(it.Value()) != v {
				return fwd, fmt.Errorf("SeekGE(%s) did not land on %s=%s", k, k, v)
			}
		} else if ok && string(it.Key()) == k {
			return fwd, fmt.Errorf("SeekGE(%s) found %s=%s which the scan did not show", k, k, it.Value())
		}
	}
	return fwd, it.Error()
}

// apply executes one symbol: a write/maintenance op of hx, or a reader-management symbol.
func (r *run) apply(i int, op hx.Op) (skip bool, err error) {
	skip, err = r.apply1(i, op)
	if err == nil && !skip && r.cfg.Auto() {
		// also after reader-management symbols: closing a snapshot resolves pending deletion hints
		// and schedules delete-only compactions
		r.x.D.VerifWaitIdle()
	}
	return skip, err
}

func (r *run) apply1(i int, op hx.Op) (skip bool, err error) {
	d := r.x.D
	count := func(kind string) int {
		n := 0
		for _, rd := range r.readers {
			if rd.kind == kind {
				n++
			}
		}
		return n
	}
	closeFirst := func(kind string) (bool, error) {
		for j, rd := range r.readers {
			if rd.kind == kind || (kind == "iter" && rd.kind == "clone") {
				// unregister the reader BEFORE closing it: Close releases its files, and the deletion
				// they become eligible for may run (on the cleanup goroutine) before Close returns -
				// the live-file monitor must not count the reader as a holder any more
				r.rmu.Lock()
				r.readers = append(r.readers[:j], r.readers[j+1:]...)
				r.rmu.Unlock()
				var err error
				switch rd.kind {
				case "snap":
					err = rd.snap.Close()
				case "iter", "clone":
					err = rd.it.Close()
				case "efos":
					err = rd.efos.Close()
				}
				return false, err
			}
		}
		return true, nil
	}
	newReader := func(kind string) *reader {
		rd := &reader{kind: kind, m: r.m.Clone(), born: i}
		// Only iterators pin the files of the version they were created on. A classic snapshot pins
		// a sequence number (compactions keep its data but may replace the files), and an EFOS pins
		// a version only from its file-only transition on.
		if r.mon.removes && kind == "iter" {
			rd.live = r.liveFiles()
		}
		return rd
	}
	switch op.K {
	case "snap":
		if count("snap") >= 2 {
			return true, nil
		}
		rd := newReader("snap")
		rd.snap = d.NewSnapshot()
		r.rmu.Lock()
		r.readers = append(r.readers, rd)
		r.rmu.Unlock()
		return false, nil
	case "closesnap":
		return closeFirst("snap")
	case "closesnapnew":
		// closes the NEWEST open snapshot (closesnap closes the oldest)
		for j := len(r.readers) - 1; j >= 0; j-- {
			if r.readers[j].kind == "snap" {
				err := r.readers[j].snap.Close()
				r.rmu.Lock()
				r.readers = append(r.readers[:j], r.readers[j+1:]...)
				r.rmu.Unlock()
				return false, err
			}
		}
		return true, nil
	case "iter":
		if count("iter")+count("clone") >= 2 {
			return true, nil
		}
		rd := newReader("iter")
		it, err := d.NewIter(nil)
		if err != nil {
			return false, err
		}
		rd.it = it
		r.rmu.Lock()
		r.readers = append(r.readers, rd)
		r.rmu.Unlock()
		return false, nil
	case "snapiter":
		// an iterator created ON the first open snapshot (it shows the snapshot's state and, like any
		// iterator, keeps showing it after the snapshot itself has been closed)
		if count("iter")+count("clone") >= 2 {
			return true, nil
		}
		for _, p := range r.readers {
			if p.kind == "snap" && len(p.excised) == 0 {
				it, err := p.snap.NewIter(nil)
				if err != nil {
					return false, err
				}
				rd := &reader{kind: "iter", m: p.m, born: i, it: it}
				if r.mon.removes {
					rd.live = r.liveFiles()
				}
				r.rmu.Lock()
				r.readers = append(r.readers, rd)
				r.rmu.Unlock()
				return false, nil
			}
		}
		return true, nil
	case "clone":
		if count("iter")+count("clone") >= 3 {
			return true, nil
		}
		for _, p := range r.readers {
			if p.kind == "iter" {
				it, err := p.it.Clone(pebble.CloneOptions{})
				if err != nil {
					return false, err
				}
				rd := &reader{kind: "clone", m: p.m, born: i, it: it, live: p.live}
				r.rmu.Lock()
				r.readers = append(r.readers, rd)
				r.rmu.Unlock()
				return false, nil
			}
		}
		return true, nil
	case "closeiter":
		return closeFirst("iter")
	case "efos":
		if count("efos") >= 1 {
			return true, nil
		}
		rd := newReader("efos")
		rd.efos = d.NewEventuallyFileOnlySnapshot([]pebble.KeyRange{{Start: []byte("a"), End: []byte("c")}})
		r.rmu.Lock()
		r.readers = append(r.readers, rd)
		r.rmu.Unlock()
		return false, nil
	case "closeefos":
		return closeFirst("efos")
	case "waitefos":
		r.x.Release() // waits for a flush
		for _, rd := range r.readers {
			if rd.kind == "efos" {
				// only meaningful once nothing it needs is unflushed: flush first, then wait
				if err := d.Flush(); err != nil {
					return false, err
				}
				return false, rd.efos.WaitForFileOnlySnapshot(context.Background(), 0)
			}
		}
		return true, nil
	case "ratchet":
		r.x.Release() // a migration may wait for a flush
		v := d.FormatMajorVersion()
		if v >= pebble.FormatNewest {
			return true, nil
		}
		return false, d.RatchetFormatMajorVersion(v + 1)
	case "waitidle":
		r.x.Release()
		d.VerifWaitIdle()
		return false, nil
	}
	if !r.m.Legal(op) || !r.cfg.Supports(op) {
		return true, nil
	}
	if err := r.x.Apply(i, op); err != nil {
		return false, err
	}
	r.m.Apply(op, fmt.Sprintf("v%d", i))
	if op.K == "excise" || op.K == "ingestexcise" {
		for _, rd := range r.readers {
			if rd.kind == "snap" {
				rd.excised = append(rd.excised, span{op.Key, op.End})
			}
		}
	}
	if r.cfg.Auto() {
		d.VerifWaitIdle()
	}
	return false, nil
}

// checkAll runs the enabled monitors; returns the first failure.
func (r *run) checkAll(i int, op hx.Op) *failure {
	if r.mon.latest {
		if d := hx.CompareLatest(r.x.D, r.m, universe, true); d != "" {
			return &failure{"latest-state-mismatch", fmt.Sprintf("after step %d (%s): %s", i, op, d), i}
		}
	}
	if r.mon.readers {
		for _, rd := range r.readers {
			if d := r.compareReader(rd); d != "" {
				return &failure{rd.kind + "-view-changed", fmt.Sprintf("after step %d (%s): %s", i, op, d), i}
			}
		}
	}
	if r.mon.lazy {
		if d := r.compareLazy(); d != "" {
			return &failure{"lazy-value-mismatch", fmt.Sprintf("after step %d (%s): %s", i, op, d), i}
		}
	}
	if r.mon.levels {
		if d := r.checkLSM(); d != "" {
			return &failure{"level-invariant", fmt.Sprintf("after step %d (%s): %s", i, op, d), i}
		}
	}
	if r.mon.removes {
		if d := r.fs.takeViolation(); d != "" {
			return &failure{"live-file-removed", fmt.Sprintf("during step %d (%s): %s", i, op, d), i}
		}
	}
	return nil
}

func (r *run) compareLazy() string {
	it, err := r.x.D.NewIter(nil)
	if err != nil {
		return err.Error()
	}
	defer it.Close()
	want := r.m.Points()
	i := 0
	for v := it.First(); v; v = it.Next() {
		lv := it.LazyValue()
		val, _, err := lv.Value(nil)
		if err != nil {
			return "LazyValue: " + err.Error()
		}
		if i >= len(want) || want[i].K != string(it.Key()) || want[i].V != hx.Val(val) {
			return fmt.Sprintf("LazyValue of %s = %q, want %v", it.Key(), val, want)
		}
		if !bytes.Equal(val, it.Value()) {
			return fmt.Sprintf("LazyValue %q differs from Value %q at %s", val, it.Value(), it.Key())
		}
		i++
	}
	if i != len(want) {
		return fmt.Sprintf("iterator shows %d keys, want %d", i, len(want))
	}
	return ""
}

func (r *run) closeReaders() error {
	var first error
	for _, rd := range r.readers {
		var err error
		switch rd.kind {
		case "snap":
			err = rd.snap.Close()
		case "iter", "clone":
			err = rd.it.Close()
		case "efos":
			err = rd.efos.Close()
		}
		if err != nil && first == nil {
			first = err
		}
	}
	r.rmu.Lock()
	r.readers = nil
	r.rmu.Unlock()
	return first
}

func (r *run) noteKinds() {
	r.kmu.Lock()
	defer r.kmu.Unlock()
	for k, n := range r.kinds {
		r.c.NoteAdd("compactions_"+k, int64(n))
	}
}

// histRun executes one history with the given monitors.
func histRun(c *vlib.Ctx, cfg hx.Config, mon monitors, pre, hist []hx.Op, verbose bool) (f *failure, skippedAt int, shapeHashes []uint64) {
	r := &run{c: c, cfg: cfg, mon: mon, m: hx.NewModel(bounds...), kinds: map[string]int{}, verbose: verbose}
	mem := vfs.NewMem()
	r.fs = newTrackFS(mem, r)
	o := cfg.Options(r.fs)
	o.EventListener = &pebble.EventListener{
		BlobFileRewriteEnd: func(info pebble.BlobFileRewriteInfo) {
			r.kmu.Lock()
			r.kinds["blob-file-rewrite/blob-file-rewrite"]++
			r.kmu.Unlock()
		},
		CompactionEnd: func(info pebble.CompactionInfo) {
			r.kmu.Lock()
			r.kinds[info.Reason+"/"+kindOf(info)]++
			r.kmu.Unlock()
		},
	}
	var leak *leakState
	var sharedCache *pebble.Cache
	var sharedFC *pebble.FileCache
	if cfg.SharedCaches {
		// caches owned by the harness and shared with the DB: Close must give back exactly the
		// references it took and leave no file of the DB open in the shared file cache
		sharedCache = pebble.NewCache(1 << 20)
		sharedFC = pebble.NewFileCache(1, 64)
		o.Cache = sharedCache
		o.FileCache = sharedFC
		defer func() {
			sharedFC.Unref()
			sharedCache.Unref()
		}()
	}
	if mon.closeLeak {
		leak = beginLeakCheck() // after the harness-owned caches (their goroutines are not the DB's)
	}
	x, err := hx.OpenWith("db", o)
	if err != nil {
		return &failure{"open-error", err.Error(), 0}, -1, nil
	}
	r.x = x
	all := append(append([]hx.Op{}, pre...), hist...)
	skippedAt = -1
	for i, op := range all {
		r.step = i
		skip, err := r.apply(i, op)
		if skip {
			skippedAt = i - len(pre)
			break
		}
		if err != nil {
			r.closeReaders()
			x.CloseDB()
			return &failure{"op-error", fmt.Sprintf("step %d (%s): %v", i, op, err), i}, -1, nil
		}
		c.Trans(1)
		if verbose {
			fmt.Printf("step %d %-30s model {%s} readers=%d\n%s\n", i, op.String(), r.m.String(), len(r.readers), x.Shape())
		}
		if f := r.checkAll(i, op); f != nil {
			r.closeReaders()
			x.CloseDB()
			return f, -1, nil
		}
		if i >= len(pre) {
			shapeHashes = append(shapeHashes, vlib.Hash(r.m.String(), x.Shape(), len(r.readers)))
		}
	}
	if mon.scanInt && skippedAt < 0 {
		if d := r.scanInternalReplay(); d != "" {
			r.closeReaders()
			x.CloseDB()
			return &failure{"scaninternal-replay-mismatch", d, len(all)}, -1, nil
		}
	}
	if err := r.closeReaders(); err != nil {
		x.CloseDB()
		return &failure{"reader-close-error", err.Error(), len(all)}, skippedAt, shapeHashes
	}
	if mon.removes && skippedAt < 0 {
		if d := r.checkNoDeadFiles(); d != "" {
			x.CloseDB()
			return &failure{"dead-file-lingers", d, len(all)}, -1, nil
		}
	}
	r.noteKinds()
	if err := x.CloseDB(); err != nil {
		return &failure{"close-error", err.Error(), len(all)}, skippedAt, shapeHashes
	}
	if mon.closeLeak && sharedCache != nil {
		if n := sharedCache.VerifRefs(); n != 1 {
			return &failure{"cache-reference-leak", fmt.Sprintf("after Close the shared block cache has %d references, the harness holds 1", n), len(all)}, skippedAt, shapeHashes
		}
	}
	if mon.closeLeak && skippedAt < 0 {
		if cls, d := leak.check(r); d != "" {
			return &failure{cls, d, len(all)}, skippedAt, shapeHashes
		}
	}
	return nil, skippedAt, shapeHashes
}

func kindOf(info pebble.CompactionInfo) string {
	s := info.String()
	// "[JOB n] compacted(kind) ..." : the kind is in the first parenthesis
	if i := strings.Index(s, "("); i >= 0 {
		if j := strings.Index(s[i:], ")"); j > 0 {
			return s[i+1 : i+j]
		}
	}
	return "?"
}

func sortedKeys(m map[string]bool) []string {
	var ks []string
	for k := range m {
		ks = append(ks, k)
	}
	sort.Strings(ks)
	return ks
}
