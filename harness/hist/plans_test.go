package hist

import (
	"fmt"
	"os"
	"strings"
	"testing"

	"github.com/cockroachdb/pebble/internal/verif/hx"
	"github.com/cockroachdb/pebble/internal/verif/vlib"
)

func sub(ops ...hx.Op) []hx.Op { return ops }

var (
	setA, setB, setC = hx.Op{K: "set", Key: "a"}, hx.Op{K: "set", Key: "b"}, hx.Op{K: "set", Key: "c"}
	delA, delB       = hx.Op{K: "del", Key: "a"}, hx.Op{K: "del", Key: "b"}
	mergeA, mergeB   = hx.Op{K: "merge", Key: "a"}, hx.Op{K: "merge", Key: "b"}
	sdelA            = hx.Op{K: "sdel", Key: "a"}
	drAC, drAB, drBC = hx.Op{K: "delrange", Key: "a", End: "c"}, hx.Op{K: "delrange", Key: "a", End: "b"}, hx.Op{K: "delrange", Key: "b", End: "c"}
	flush, compact   = hx.Op{K: "flush"}, hx.Op{K: "compact"}
	compactAB        = hx.Op{K: "compact", Key: "a", End: "b"}
	ingA             = hx.Op{K: "ingest", Sub: sub(hx.Op{K: "set", Key: "a"})}
	ingB             = hx.Op{K: "ingest", Sub: sub(hx.Op{K: "set", Key: "b"})}
	ingBdr           = hx.Op{K: "ingest", Sub: sub(hx.Op{K: "set", Key: "b"}, hx.Op{K: "delrange", Key: "a", End: "b"})}
	ingRK            = hx.Op{K: "ingest", Sub: sub(hx.Op{K: "set", Key: "c"}, hx.Op{K: "rkset", Key: "a", End: "c", Suf: "@1"})}
	ing2             = hx.Op{K: "ingest", Sub: sub(hx.Op{K: "set", Key: "a"}, hx.Op{K: "set", Key: "c"})}
	exAB, exBC       = hx.Op{K: "excise", Key: "a", End: "b"}, hx.Op{K: "excise", Key: "b", End: "c"}
	exAC             = hx.Op{K: "excise", Key: "a", End: "c"}
	ingExAC          = hx.Op{K: "ingestexcise", Key: "a", End: "c", Sub: sub(hx.Op{K: "set", Key: "b"})}
	// an ingested table whose largest point key equals the (exclusive) excise end
	ingExACc        = hx.Op{K: "ingestexcise", Key: "a", End: "c", Sub: sub(hx.Op{K: "set", Key: "b"}, hx.Op{K: "set", Key: "c"})}
	batchAB         = hx.Op{K: "batch", Sub: sub(hx.Op{K: "set", Key: "a"}, hx.Op{K: "del", Key: "b"})}
	batchBig        = hx.Op{K: "batch", Big: true, Sub: sub(hx.Op{K: "set", Key: "a"}, hx.Op{K: "set", Key: "c"})}
	rksAC           = hx.Op{K: "rkset", Key: "a", End: "c", Suf: "@1"}
	rkdAB           = hx.Op{K: "rkdel", Key: "a", End: "b"}
	snap, closesnap = hx.Op{K: "snap"}, hx.Op{K: "closesnap"}
	iter, closeiter = hx.Op{K: "iter"}, hx.Op{K: "closeiter"}
	clone           = hx.Op{K: "clone"}
	efos, closeefos = hx.Op{K: "efos"}, hx.Op{K: "closeefos"}
	waitefos        = hx.Op{K: "waitefos"}
	ratchet         = hx.Op{K: "ratchet"}
	// hold: flushes are held back (queued memtables, large batches and flushable ingests with their
	// excise spans stay in the flushable queue, reads go through them); release: let them go and
	// wait. flush/compact/waitefos/ratchet/close release by themselves.
	hold, release = hx.Op{K: "hold"}, hx.Op{K: "release"}
	snapiter      = hx.Op{K: "snapiter"}
)

// bulk pre-state for value separation: 60 keys k00..k59 with 200-byte distinct values (every 5th
// one tiny and inline) written as one batch and flushed: a blob file of several 4 KiB value blocks.
func bulkPre() []hx.Op {
	var sub []hx.Op
	for i := 0; i < 60; i++ {
		v := fmt.Sprintf("value-of-k%02d|", i) + strings.Repeat(string(rune('a'+i%26)), 190)
		if i%5 == 0 {
			v = fmt.Sprintf("t%02d", i)
		}
		sub = append(sub, hx.Op{K: "set", Key: fmt.Sprintf("k%02d", i), Val: v})
	}
	return []hx.Op{{K: "batch", Sub: sub}, flush}
}

func sized(k string, n int) hx.Op { return hx.Op{K: "set", Key: k, Val: strings.Repeat("x", n)} }

type plan struct {
	name  string
	cfg   hx.Config
	mon   monitors
	pre   []hx.Op
	alpha []hx.Op
	depth int
	// nontrivial: the history must contain one symbol of each group
	need [][]string
}

var (
	baseCfg  = hx.Config{Name: "base"}
	auto     = hx.Config{Name: "autocompact", AutoCompact: true, TinyFiles: true}
	autoSt   = hx.Config{Name: "autocompact-tablestats", AutoCompact: true, TinyFiles: true, TableStats: true}
	autoDef  = hx.Config{Name: "default-thresholds-tablestats", AutoDefault: true, TableStats: true}
	tinyLB   = hx.Config{Name: "tiny-lbase-manual", TinyLBase: true}
	shared   = hx.Config{Name: "shared-caches-valsep", SharedCaches: true, ValSep: true}
	valsep   = hx.Config{Name: "valsep", ValSep: true}
	valsepAC = hx.Config{Name: "valsep-autocompact", ValSep: true, AutoCompact: true}
	tinyF    = hx.Config{Name: "tinyfiles", TinyFiles: true}
	fsplit   = hx.Config{Name: "flushsplit", L0Sublevels: true}
	tinyMem  = hx.Config{Name: "tiny-memtable", MemTableSize: 16 << 10}
	fmv16    = hx.Config{Name: "fmv-18", FMV: 18}
	deepQ    = hx.Config{Name: "held-flushes", DeepQueue: true}
	l0l6     = []hx.Op{setA, setB, flush, compact, setA, flush}
)

func plansFor(prop string, th bool) []plan {
	d := func(q, t int) int {
		if th {
			return t
		}
		return q
	}
	rd := monitors{latest: true, readers: true}
	maint := []string{"flush", "compact", "ingest", "excise", "ingestexcise", "ratchet"}
	switch prop {
	case "C03":
		a := []hx.Op{setA, snap, delA, flush, compact, setB, mergeA, drAC, closesnap, ingA, batchAB, sdelA, ratchet}
		ps := []plan{
			{name: "snapshots", cfg: baseCfg, mon: rd, alpha: a, depth: d(4, 5), need: [][]string{{"snap"}, maint}},
			{name: "snapshots-l0+l6", cfg: baseCfg, mon: rd, pre: l0l6, alpha: a, depth: d(3, 4), need: [][]string{{"snap"}, maint}},
			{name: "snapshots-autocompact", cfg: auto, mon: rd, alpha: a[:11], depth: d(3, 4), need: [][]string{{"snap"}}},
			// table statistics on: range-deletion hints make delete-only compactions possible, which
			// must respect open snapshots (a snapshot taken right before the DeleteRange has the
			// tombstone's own sequence number)
			{name: "snapshots-autocompact-tablestats", cfg: autoSt, mon: rd, pre: []hx.Op{setA, setB, flush}, alpha: []hx.Op{snap, drAC, flush, setA, closesnap, delA, compact, drAB}, depth: d(3, 4), need: [][]string{{"snap"}, {"delrange"}}},
			// Pebble's default compaction thresholds: after the tombstone is flushed nothing but a
			// delete-only compaction (driven by the table-stats hint) is eligible
			{name: "snapshots-default-thresholds-tablestats", cfg: autoDef, mon: rd, pre: []hx.Op{setA, setB, flush, compact}, alpha: []hx.Op{snap, drAC, flush, setA, closesnap, delA, drAB, snap}, depth: d(3, 4), need: [][]string{{"snap"}, {"delrange"}}},
			// two snapshots closed newest-first: the older one still pins what pending deletion hints
			// would otherwise be allowed to drop
			{name: "snapshots-close-newest-first", cfg: autoDef, mon: rd, pre: []hx.Op{setA, setB, flush, compact, snap}, alpha: []hx.Op{drAC, snap, flush, {K: "closesnapnew"}, closesnap, setA}, depth: d(4, 5), need: [][]string{{"closesnapnew"}, {"delrange"}}},
			{name: "snapshots-held-flushes", cfg: deepQ, mon: rd, alpha: []hx.Op{hold, setA, snap, ingA, delA, exAB, release, batchBig, closesnap, ingExAC, flush}, depth: d(4, 5), need: [][]string{{"snap"}, {"hold"}, {"ingest", "excise", "ingestexcise", "batch"}}},
			{name: "snapshots-with-excise", cfg: baseCfg, mon: rd, alpha: []hx.Op{setA, setB, snap, exAB, flush, delA, compact, ingExAC, closesnap}, depth: d(4, 5), need: [][]string{{"snap"}, {"excise", "ingestexcise"}}},
		}
		if th {
			ps = append(ps, plan{name: "snapshots-deep-2keys", cfg: baseCfg, mon: rd, alpha: []hx.Op{setA, snap, delA, flush, compact, mergeA, closesnap, drAC, setB, sdelA, ingA}, depth: 6, need: [][]string{{"snap"}, maint}},
				plan{name: "snapshots-valsep", cfg: valsepAC, mon: rd, alpha: []hx.Op{sized("a", 4), snap, sized("a", 200), flush, compact, delA, closesnap, sized("b", 3)}, depth: 5, need: [][]string{{"snap"}}},
				plan{name: "snapshots-fmv18-ratchet", cfg: fmv16, mon: rd, alpha: []hx.Op{setA, snap, ratchet, delA, flush, compact, closesnap}, depth: 5, need: [][]string{{"snap"}, {"ratchet"}}})
		}
		return ps
	case "C04":
		a := []hx.Op{setA, iter, delA, flush, compact, clone, setB, drAC, closeiter, ingA, exAB, mergeA, batchBig}
		ps := []plan{
			{name: "iterators", cfg: baseCfg, mon: rd, alpha: a, depth: d(4, 5), need: [][]string{{"iter"}, maint}},
			{name: "iterators-l0+l6", cfg: baseCfg, mon: rd, pre: l0l6, alpha: a, depth: d(3, 4), need: [][]string{{"iter"}, maint}},
			{name: "iterators-autocompact", cfg: auto, mon: rd, alpha: a[:9], depth: d(3, 4), need: [][]string{{"iter"}}},
			{name: "iterators-tinymem", cfg: tinyMem, mon: rd, alpha: a, depth: d(3, 4), need: [][]string{{"iter"}}},
			// iterators created on a snapshot that is closed while they stay open, cloned after later
			// batches overwrote part of what they show and a flush/compaction rewrote the data
			{name: "iterators-on-closed-snapshots", cfg: baseCfg, mon: rd, pre: []hx.Op{batchAB, setC, snap, snapiter, closesnap}, alpha: []hx.Op{setA, batchAB, flush, compact, clone, batchBig, delA, closeiter}, depth: d(4, 5), need: [][]string{{"clone"}, {"flush", "compact"}}},
			{name: "iterators-on-snapshots", cfg: baseCfg, mon: rd, pre: []hx.Op{batchAB, setC}, alpha: []hx.Op{snap, snapiter, closesnap, setA, flush, compact, clone}, depth: d(4, 6), need: [][]string{{"snapiter"}}},
			{name: "iterators-held-flushes", cfg: deepQ, mon: rd, alpha: []hx.Op{hold, setA, iter, ingA, delA, exAB, release, batchBig, clone, ingExAC, closeiter}, depth: d(4, 5), need: [][]string{{"iter"}, {"hold"}, {"ingest", "excise", "ingestexcise", "batch"}}},
		}
		return ps
	case "C37":
		a := []hx.Op{setA, efos, delA, flush, waitefos, exAB, setB, compact, closeefos, ingExAC, exBC, mergeA, drAC}
		return []plan{
			{name: "efos", cfg: baseCfg, mon: rd, alpha: a, depth: d(4, 5), need: [][]string{{"efos"}, {"flush", "waitefos", "excise", "ingestexcise", "compact"}}},
			{name: "efos-l0+l6", cfg: baseCfg, mon: rd, pre: l0l6, alpha: a, depth: d(3, 4), need: [][]string{{"efos"}, {"flush", "waitefos", "excise", "ingestexcise", "compact"}}},
			{name: "efos-autocompact", cfg: auto, mon: rd, alpha: a[:10], depth: d(3, 4), need: [][]string{{"efos"}}},
			{name: "efos-held-flushes", cfg: deepQ, mon: rd, alpha: []hx.Op{hold, setA, efos, ingA, delA, release, waitefos, setB, ingB, closeefos}, depth: d(4, 5), need: [][]string{{"efos"}, {"hold"}}},
		}
	case "C08-delonly", "C14-delonly":
		// Wide tombstones of BOTH kinds (RangeKeyDelete, DeleteRange) over tables that hold points and
		// range keys, with a snapshot that keeps the older tombstone's deletion hint pending: the
		// delete-only compaction machinery may drop or excise a table only if every key kind in it is
		// older than the tombstone of ITS kind. Pebble's default thresholds + table statistics.
		rkdAC := hx.Op{K: "rkdel", Key: "a", End: "c"}
		drAZ := hx.Op{K: "delrange", Key: "a", End: "z"}
		wi := hx.Op{K: "waitidle"}
		// compactions restricted to [a,c) and [c,z): the table with points and range keys and the
		// point-only table stay separate tables in L6
		cAC, cCZ := hx.Op{K: "compact", Key: "a", End: "c"}, hx.Op{K: "compact", Key: "c", End: "z"}
		pre := []hx.Op{rksAC, flush, cAC, snap, rkdAC, flush, wi, rksAC, setB, flush, cAC, wi, setC, flush, cCZ, wi}
		return []plan{
			{name: "wide-tombstones-both-kinds", cfg: autoDef, mon: rd, pre: pre,
				alpha: []hx.Op{drAZ, flush, closesnap, rkdAC, snap, setB, compact}, depth: d(3, 4), need: [][]string{{"delrange", "rkdel"}, {"flush"}}},
			{name: "wide-tombstones-both-kinds-no-snapshot", cfg: autoDef, mon: rd, pre: []hx.Op{rksAC, setB, flush, cAC, wi, setC, flush, cCZ, wi},
				alpha: []hx.Op{drAZ, flush, rkdAC, snap, closesnap, rksAC, setB}, depth: d(3, 4), need: [][]string{{"delrange", "rkdel"}, {"flush"}}},
		}
	case "C14":
		a := []hx.Op{setA, setB, delA, mergeB, drAC, flush, compact, compactAB, snap, iter, efos, ratchet, ingA}
		ps := []plan{
			{name: "maintenance-manual", cfg: fmv16, mon: rd, alpha: a, depth: d(4, 5), need: [][]string{{"snap", "iter", "efos"}, {"flush", "compact", "ratchet"}}},
			{name: "maintenance-auto", cfg: auto, mon: rd, alpha: []hx.Op{setA, setB, delA, mergeB, drAC, flush, snap, closesnap, iter, closeiter, efos}, depth: d(4, 5), need: [][]string{{"snap", "iter", "efos"}}},
			{name: "maintenance-auto-valsep", cfg: valsepAC, mon: monitors{latest: true, readers: true, lazy: true}, alpha: []hx.Op{sized("a", 4), sized("a", 200), sized("b", 3), delA, flush, snap, iter, compact, closesnap}, depth: d(4, 5), need: [][]string{{"snap", "iter"}}},
			{name: "maintenance-auto-l0+l6", cfg: auto, mon: rd, pre: l0l6, alpha: a[:11], depth: d(3, 4), need: [][]string{{"snap", "iter", "efos"}}},
			{name: "maintenance-valsep-bulk-rewrite", cfg: valsepAC, mon: monitors{latest: true, readers: true, lazy: true}, pre: bulkPre(), alpha: []hx.Op{
				{K: "delrange", Key: "k00", End: "k25"}, flush, compact, {K: "waitidle"}, snap, iter, {K: "delrange", Key: "k30", End: "k45"}, closesnap},
				depth: d(3, 4), need: [][]string{{"delrange"}, {"snap", "iter"}}},
			{name: "maintenance-default-thresholds-tablestats", cfg: autoDef, mon: rd, pre: []hx.Op{setA, setB, flush, compact}, alpha: []hx.Op{snap, drAC, flush, iter, setA, closesnap, delA, closeiter, efos}, depth: d(3, 4), need: [][]string{{"snap", "iter", "efos"}, {"delrange"}}},
			{name: "maintenance-auto-tablestats", cfg: autoSt, mon: rd, alpha: []hx.Op{setA, setB, delA, drAC, flush, snap, closesnap, iter, closeiter, mergeB}, depth: d(4, 5), need: [][]string{{"snap", "iter"}}},
		}
		return ps
	case "C15":
		lv := monitors{latest: true, levels: true}
		a := []hx.Op{setA, setB, delA, flush, ingA, drAC, compact, ingBdr, exAB, mergeA, batchBig, ing2, ingExAC, compactAB, setC, rksAC, ingRK}
		return []plan{
			{name: "levels", cfg: baseCfg, mon: lv, alpha: a, depth: d(3, 4), need: [][]string{maint}},
			{name: "levels-core-deeper", cfg: baseCfg, mon: lv, alpha: a[:10], depth: d(4, 5), need: [][]string{maint}},
			{name: "levels-flushsplit", cfg: fsplit, mon: lv, alpha: a[:13], depth: d(3, 4), need: [][]string{maint}},
			{name: "levels-tinyfiles-auto", cfg: auto, mon: lv, alpha: a[:12], depth: d(3, 4), need: [][]string{{"flush", "ingest"}}},
			{name: "levels-l0+l6", cfg: baseCfg, mon: lv, pre: l0l6, alpha: a, depth: d(2, 3), need: [][]string{maint}},
			{name: "levels-tinymem", cfg: tinyMem, mon: lv, alpha: a[:13], depth: d(3, 4), need: [][]string{maint}},
			// an older version of the excise-end key in L0 and an unflushed key inside the span (so
			// that ingest+excise takes the flushable path)
			// manual compactions with LBaseMaxBytes=1: data rests in intermediate levels, so an ingest
			// has to stop above it
			{name: "levels-intermediate", cfg: tinyLB, mon: lv, pre: []hx.Op{setA, setB, flush, compact, setB, flush, compact}, alpha: []hx.Op{ingA, ingB, setA, flush, compact, ing2, exAB, delA, ingBdr}, depth: d(3, 4), need: [][]string{{"ingest"}}},
			{name: "levels-held-flushes", cfg: deepQ, mon: lv, alpha: []hx.Op{hold, setA, setB, ingA, exAB, ingExAC, release, batchBig, flush, ingBdr, compact}, depth: d(4, 5), need: [][]string{{"hold"}, {"ingest", "excise", "ingestexcise"}}},
			{name: "levels-excise-end-key", cfg: baseCfg, mon: lv, pre: []hx.Op{setC, flush, setA}, alpha: []hx.Op{ingExACc, flush, ingExAC, compact, setC, exAB, ingA, delA}, depth: d(3, 4), need: [][]string{{"ingestexcise"}}},
		}
	case "C36":
		a := []hx.Op{setA, setB, ingA, ingB, iter, flush, ingBdr, exAB, ing2, ingExAC, ingRK, exAC, delA, compact, rksAC, closeiter, batchBig}
		return []plan{
			{name: "ingest-excise", cfg: baseCfg, mon: rd, alpha: a, depth: d(3, 4), need: [][]string{{"ingest", "ingestexcise", "excise"}}},
			{name: "ingest-excise-core-deeper", cfg: baseCfg, mon: rd, alpha: a[:11], depth: d(4, 5), need: [][]string{{"ingest", "ingestexcise", "excise"}}},
			{name: "ingest-excise-l0+l6", cfg: baseCfg, mon: rd, pre: l0l6, alpha: a, depth: d(2, 3), need: [][]string{{"ingest", "ingestexcise", "excise"}}},
			{name: "ingest-excise-tinymem", cfg: tinyMem, mon: rd, alpha: a, depth: d(3, 3), need: [][]string{{"ingest", "ingestexcise", "excise"}}},
			{name: "ingest-excise-auto", cfg: auto, mon: rd, alpha: a[:12], depth: d(3, 4), need: [][]string{{"ingest", "ingestexcise", "excise"}}},
			// excise spans that start inside existing tables/spans (left remainders), with range deletions
			// and range keys straddling the span
			{name: "excise-left-remainder", cfg: baseCfg, mon: rd, alpha: []hx.Op{drAC, rksAC, setB, flush, exBC, setA, iter, compact, ingRK, exAB}, depth: d(4, 5), need: [][]string{{"excise"}}},
			// flushes held back: an ingest or excise that overlaps the memtable is queued as a flushable
			// (with its excise span) and must already read as applied; the caller's key buffers are
			// overwritten after every call
			{name: "ingest-excise-held-flushes", cfg: deepQ, mon: rd, alpha: []hx.Op{hold, setA, setB, ingA, exAB, ingExAC, release, iter, batchBig, exBC, ingRK, setC}, depth: d(4, 5), need: [][]string{{"hold"}, {"ingest", "ingestexcise", "excise"}}},
			{name: "ingest-excise-end-key", cfg: baseCfg, mon: rd, pre: []hx.Op{setC, flush, setA}, alpha: []hx.Op{ingExACc, flush, ingExAC, compact, setC, exAB, iter, delA}, depth: d(3, 4), need: [][]string{{"ingestexcise"}}},
		}
	case "C39":
		rm := monitors{latest: true, readers: true, removes: true}
		a := []hx.Op{setA, flush, iter, compact, snap, delA, closeiter, exAB, efos, closesnap, setB, closeefos, ingA, waitefos}
		return []plan{
			{name: "files", cfg: baseCfg, mon: rm, alpha: a, depth: d(4, 5), need: [][]string{{"iter", "snap", "efos"}, {"flush", "compact", "excise"}}},
			{name: "files-l0+l6", cfg: baseCfg, mon: rm, pre: l0l6, alpha: a, depth: d(3, 4), need: [][]string{{"iter", "snap", "efos"}, {"flush", "compact", "excise"}}},
			{name: "files-auto", cfg: auto, mon: rm, alpha: a[:11], depth: d(3, 4), need: [][]string{{"iter", "snap", "efos"}}},
			{name: "files-valsep", cfg: valsepAC, mon: rm, alpha: []hx.Op{sized("a", 200), flush, iter, sized("a", 4), compact, delA, closeiter, sized("b", 300)}, depth: d(4, 5), need: [][]string{{"iter"}}},
		}
	case "C44":
		vm := monitors{latest: true, readers: true, lazy: true}
		a := []hx.Op{sized("a", 2), sized("a", 3), sized("a", 4), sized("b", 200), delA, flush, compact, snap, drAC, sized("b", 3), iter, ingA, mergeA}
		return []plan{
			{name: "valsep", cfg: valsep, mon: vm, alpha: a, depth: d(4, 5), need: [][]string{{"flush", "compact"}}},
			{name: "valsep-auto", cfg: valsepAC, mon: vm, alpha: a[:11], depth: d(4, 5), need: [][]string{{"flush"}}},
			// a multi-block blob file whose head becomes garbage: blob-file rewrites remap value
			// blocks; every key is read by Get, forward and BACKWARD scans of one iterator, LazyValue
			{name: "valsep-bulk-rewrite", cfg: valsepAC, mon: vm, pre: bulkPre(), alpha: []hx.Op{
				{K: "delrange", Key: "k00", End: "k25"}, flush, compact, {K: "waitidle"},
				{K: "delrange", Key: "k30", End: "k45"}, {K: "set", Key: "k59", Val: strings.Repeat("z", 300)}, iter, {K: "del", Key: "k27"}},
				depth: d(3, 4), need: [][]string{{"delrange"}, {"compact", "flush"}}},
			{name: "valsep-off", cfg: baseCfg, mon: vm, alpha: a[:9], depth: d(3, 4), need: [][]string{{"flush", "compact"}}},
		}
	case "C45":
		sm := monitors{latest: true, scanInt: true}
		a := []hx.Op{setA, setB, delA, flush, drAC, compact, rksAC, ingB, drAB, rkdAB, exAB, batchAB, setC, drBC}
		return []plan{
			{name: "scaninternal", cfg: baseCfg, mon: sm, alpha: a, depth: d(3, 4), need: [][]string{{"set"}}},
			{name: "scaninternal-core-deeper", cfg: baseCfg, mon: sm, alpha: a[:9], depth: d(4, 5), need: [][]string{{"set"}}},
			{name: "scaninternal-l0+l6", cfg: baseCfg, mon: sm, pre: l0l6, alpha: a, depth: d(2, 3), need: [][]string{{"set"}}},
			// ScanInternal THROUGH a snapshot / file-only snapshot that pins older versions, which
			// later writes shadow and a flush or compaction puts into the same table
			{name: "scaninternal-through-snapshots", cfg: baseCfg, mon: sm, pre: []hx.Op{setA, setB}, alpha: []hx.Op{snap, efos, setA, delB, drAC, flush, compact, rksAC, setC, closesnap}, depth: d(4, 5), need: [][]string{{"snap", "efos"}, {"flush", "compact"}}},
		}
	case "C47":
		cm := monitors{latest: true, closeLeak: true}
		a := []hx.Op{setA, flush, iter, snap, compact, delA, ingA, efos, batchBig, exAB, closeiter, closesnap}
		return []plan{
			{name: "close", cfg: baseCfg, mon: cm, alpha: a, depth: d(3, 4), need: [][]string{{"set", "ingest", "batch"}}},
			{name: "close-valsep-auto", cfg: valsepAC, mon: cm, alpha: []hx.Op{sized("a", 200), flush, iter, snap, compact, delA, sized("b", 4)}, depth: d(3, 4), need: [][]string{{"set"}}},
			{name: "close-shared-caches", cfg: shared, mon: cm, alpha: []hx.Op{sized("a", 200), flush, iter, snap, compact, delA, sized("b", 4), closeiter}, depth: d(3, 4), need: [][]string{{"set"}}},
			{name: "close-tinymem", cfg: tinyMem, mon: cm, alpha: a[:9], depth: d(3, 3), need: [][]string{{"set", "batch"}}},
		}
	}
	return nil
}

// Case is the replay artefact.
type Case struct {
	Prop string    `json:"prop"`
	Plan string    `json:"plan"`
	Cfg  hx.Config `json:"cfg"`
	Pre  []hx.Op   `json:"pre,omitempty"`
	Hist []hx.Op   `json:"hist"`
	// Index identifies the history inside its plan when the artefact was written by the worker pool
	// itself (panic / hang): the history is decoded from it on replay.
	Index int `json:"index,omitempty"`
}

func TestCheck(t *testing.T) {
	vlib.Main(t, "C03", func(c *vlib.Ctx) {
		if c.ReplayPath() != "" {
			var cs Case
			if err := c.LoadReplay(&cs); err != nil {
				t.Fatal(err)
			}
			if cs.Prop == "" {
				cs.Prop = c.Dispatch()
			}
			for _, p := range plansFor(cs.Prop, true) {
				if p.name == cs.Plan {
					if len(cs.Hist) == 0 {
						for _, q := range append(plansFor(cs.Prop, false), plansFor(cs.Prop, true)...) {
							if q.name == cs.Plan {
								seq := vlib.SeqDecode(cs.Index, len(q.alpha), q.depth, q.depth)
								if seq != nil {
									cs.Hist, cs.Cfg, cs.Pre = nil, q.cfg, q.pre
									for _, s := range seq {
										cs.Hist = append(cs.Hist, q.alpha[s])
									}
									break
								}
							}
						}
						fmt.Printf("replaying plan %s item %d = [%s]\n", cs.Plan, cs.Index, hx.HistString(cs.Hist))
					}
					f, _, _ := histRun(c, cs.Cfg, p.mon, cs.Pre, cs.Hist, true)
					c.Eval(1)
					if f != nil {
						fmt.Printf("replay: %s: %s\n", f.class, f.desc)
						c.Violation(f.class, f.desc, cs)
					} else {
						fmt.Println("replay: no failure")
					}
				}
			}
			return
		}
		var notes []string
		for _, p := range plansFor(c.Dispatch(), c.Thorough()) {
			if only := os.Getenv("VERIF_PLAN"); only != "" && only != p.name {
				continue // debugging aid: run a single plan
			}
			k := len(p.alpha)
			n := vlib.SeqCount(k, p.depth, p.depth)
			done, complete := c.EachNamed(p.name, n, func(i int) {
				seq := vlib.SeqDecode(i, k, p.depth, p.depth)
				hist := make([]hx.Op, len(seq))
				for j, s := range seq {
					hist[j] = p.alpha[s]
				}
				f, skipped, shapes := histRun(c, p.cfg, p.mon, p.pre, hist, false)
				c.Eval(1)
				for _, h := range shapes {
					c.State(h)
				}
				cs := Case{Prop: c.Dispatch(), Plan: p.name, Cfg: p.cfg, Pre: p.pre, Hist: hist}
				if f != nil {
					// re-execute before reporting
					f2, _, _ := histRun(c, p.cfg, p.mon, p.pre, hist, false)
					if f2 == nil {
						c.Incomplete(fmt.Sprintf("violation did not reproduce: plan=%s hist=[%s]: %s %s", p.name, hx.HistString(hist), f.class, f.desc))
						return
					}
					c.Violation(f.class, fmt.Sprintf("plan=%s cfg=%s pre=[%s] hist=[%s]: %s", p.name, p.cfg.Name, hx.HistString(p.pre), hx.HistString(hist), f.desc), cs)
					c.Outcome(f.class)
					return
				}
				if skipped >= 0 {
					c.Outcome("skipped-not-applicable")
					return
				}
				c.Outcome("ok")
				nt := true
				for _, group := range p.need {
					found := false
					for _, op := range hist {
						for _, g := range group {
							if op.K == g {
								found = true
							}
						}
					}
					nt = nt && found
				}
				if nt {
					c.Nontrivial(vlib.Hash(p.name, hx.HistString(hist)))
				}
				if i%7919 == 0 {
					c.Sample(map[string]any{"plan": p.name, "cfg": p.cfg.Name, "hist": hx.HistString(hist)})
				}
			})
			notes = append(notes, fmt.Sprintf("%s (cfg %s): alphabet %d depth %d: %d/%d histories", p.name, p.cfg.Name, k, p.depth, done, n))
			if !complete {
				c.Incomplete(fmt.Sprintf("budget expired in plan %s after %d of %d histories; earlier plans complete", p.name, done, n))
				break
			}
		}
		c.Note("plans", notes)
	})
}
