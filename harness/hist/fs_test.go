package hist

import (
	"fmt"
	"io"
	"os"
	"strings"
	"sync"

	"github.com/cockroachdb/pebble/internal/base"
	"github.com/cockroachdb/pebble/vfs"
)

// trackFS wraps the DB's FS: it counts open handles (C47) and judges every Remove of a table or
// blob file (C39).
type trackFS struct {
	vfs.FS
	r         *run
	mu        sync.Mutex
	open      map[*trackFile]string
	violation string
	removed   []string
}

func newTrackFS(fs vfs.FS, r *run) *trackFS {
	return &trackFS{FS: fs, r: r, open: map[*trackFile]string{}}
}

type trackFile struct {
	vfs.File
	fs *trackFS
}

func (f *trackFile) Close() error {
	f.fs.mu.Lock()
	delete(f.fs.open, f)
	f.fs.mu.Unlock()
	return f.File.Close()
}

func (t *trackFS) track(f vfs.File, err error, name string) (vfs.File, error) {
	if err != nil {
		return f, err
	}
	tf := &trackFile{File: f, fs: t}
	t.mu.Lock()
	t.open[tf] = name
	t.mu.Unlock()
	return tf, nil
}

func (t *trackFS) Create(name string, c vfs.DiskWriteCategory) (vfs.File, error) {
	f, err := t.FS.Create(name, c)
	return t.track(f, err, name)
}
func (t *trackFS) Open(name string, opts ...vfs.OpenOption) (vfs.File, error) {
	f, err := t.FS.Open(name, opts...)
	return t.track(f, err, name)
}
func (t *trackFS) OpenReadWrite(name string, c vfs.DiskWriteCategory, opts ...vfs.OpenOption) (vfs.File, error) {
	f, err := t.FS.OpenReadWrite(name, c, opts...)
	return t.track(f, err, name)
}
func (t *trackFS) OpenDir(name string) (vfs.File, error) {
	f, err := t.FS.OpenDir(name)
	return t.track(f, err, name)
}
func (t *trackFS) ReuseForWrite(oldname, newname string, c vfs.DiskWriteCategory) (vfs.File, error) {
	f, err := t.FS.ReuseForWrite(oldname, newname, c)
	return t.track(f, err, newname)
}

func (t *trackFS) openHandles() []string {
	t.mu.Lock()
	defer t.mu.Unlock()
	var out []string
	for _, n := range t.open {
		out = append(out, n)
	}
	return out
}

// Remove: a table or blob file must not be referenced by the current version nor by the version
// pinned by any open reader.
func (t *trackFS) Remove(name string) error {
	if t.r != nil && t.r.mon.removes && t.r.x != nil {
		base := t.FS.PathBase(name)
		if strings.HasSuffix(base, ".sst") || strings.HasSuffix(base, ".blob") {
			if strings.HasPrefix(name, "db/") || strings.HasPrefix(name, "db\\") {
				t.mu.Lock()
				t.removed = append(t.removed, base)
				t.mu.Unlock()
				t.r.rmu.Lock()
				rds := append([]*reader(nil), t.r.readers...)
				t.r.rmu.Unlock()
				for _, rd := range rds {
					if rd.live[base] {
						t.mu.Lock()
						if t.violation == "" {
							t.violation = fmt.Sprintf("Remove(%s) while the %s opened at step %d still pins it", name, rd.kind, rd.born)
						}
						t.mu.Unlock()
					}
				}
			}
		}
	}
	return t.FS.Remove(name)
}

func (t *trackFS) takeViolation() string {
	t.mu.Lock()
	defer t.mu.Unlock()
	v := t.violation
	t.violation = ""
	return v
}

func (t *trackFS) Unwrap() vfs.FS { return t.FS }

var _ io.Closer = (*trackFile)(nil)
var _ = os.ErrNotExist

// liveFiles returns the base names of every table backing and blob file of the current version.
func (r *run) liveFiles() map[string]bool {
	live := map[string]bool{}
	v := r.x.D.DebugCurrentVersion()
	for l := range v.Levels {
		for m := range v.Levels[l].All() {
			live[base.MakeFilename(base.FileTypeTable, m.TableBacking.DiskFileNum)] = true
		}
	}
	for bm := range v.BlobFiles.All() {
		live[base.MakeFilename(base.FileTypeBlob, bm.Physical.FileNum)] = true
	}
	return live
}

// checkNoDeadFiles: after every reader is closed and deletions have been processed, every table /
// blob file in the directory is referenced by the current version, and reopening changes nothing.
func (r *run) checkNoDeadFiles() string {
	// A flushable ingest leaves a flush running in the background: wait (clock-free) until the DB is
	// idle, then until the deletions enqueued so far have been carried out.
	r.x.D.VerifWaitIdle()
	r.x.D.TestOnlyWaitForCleaning()
	live := r.liveFiles()
	ls, err := r.fs.List("db")
	if err != nil {
		return err.Error()
	}
	// the current version must also have every file it references
	have := map[string]bool{}
	for _, n := range ls {
		have[n] = true
		if (strings.HasSuffix(n, ".sst") || strings.HasSuffix(n, ".blob")) && !live[n] {
			return fmt.Sprintf("obsolete file %s is still in the directory after all readers were closed and cleaning finished (live: %v, dir: %v)", n, sortedKeys(live), ls)
		}
	}
	for n := range live {
		if !have[n] {
			return fmt.Sprintf("live file %s is missing from the directory (dir: %v)", n, ls)
		}
	}
	return ""
}
