package hist

import (
	"context"
	"fmt"
	"runtime"
	"sort"
	"strings"
	"time"

	"github.com/cockroachdb/pebble"
	"github.com/cockroachdb/pebble/internal/base"
	"github.com/cockroachdb/pebble/rangekey"
	"github.com/cockroachdb/pebble/internal/verif/hx"
	"github.com/cockroachdb/pebble/vfs"
)

// ---- C45: ScanInternal replay ----------------------------------------------------------------

type scanItem struct {
	seq  uint64
	ord  int
	kind string
	k, e string
	suf  string
	v    string
}

var scanSpans = []span{{"a", "z"}, {"a", "b"}, {"b", "c"}, {"a", "c"}, {"b", "z"}}

// scanInternalReplay: for every span, the internal keys, range deletions and range keys produced
// by ScanInternal, written into an empty DB in sequence-number order, must give the same visible
// state inside the span as the source (the model) at the scan's sequence number.
func (r *run) scanInternalReplay() string {
	if d := r.scanInternalReplayOf("DB", r.x.D, r.m); d != "" {
		return d
	}
	// the same through every open snapshot and eventually-file-only snapshot, against the model of
	// its creation (a classic snapshot that lost a span to a later excise is skipped: documented
	// exception)
	for _, rd := range r.readers {
		switch {
		case rd.kind == "snap" && len(rd.excised) == 0:
			if d := r.scanInternalReplayOf(fmt.Sprintf("snapshot opened at step %d", rd.born), rd.snap, rd.m); d != "" {
				return d
			}
		case rd.kind == "efos":
			if d := r.scanInternalReplayOf(fmt.Sprintf("file-only snapshot opened at step %d", rd.born), rd.efos, rd.m); d != "" {
				return d
			}
		}
	}
	return ""
}

type internalScanner interface {
	ScanInternal(ctx context.Context, opts pebble.ScanInternalOptions) error
}

func (r *run) scanInternalReplayOf(what string, src internalScanner, m *hx.Model) string {
	for _, sp := range scanSpans {
		if _, isEFOS := src.(*pebble.EventuallyFileOnlySnapshot); isEFOS && (sp.lo != "a" || sp.hi != "c") {
			continue // the file-only snapshots of this harness protect [a,c) only
		} else if what != "DB" && (sp.lo != "a" || (sp.hi != "z" && sp.hi != "c")) {
			continue // two spans are enough for the readers
		}
		var items []scanItem
		ord := 0
		err := src.ScanInternal(context.Background(), pebble.ScanInternalOptions{
			IterOptions: pebble.IterOptions{KeyTypes: pebble.IterKeyTypePointsAndRanges, LowerBound: []byte(sp.lo), UpperBound: []byte(sp.hi)},
			VisitPointKey: func(key *pebble.InternalKey, value pebble.LazyValue, _ pebble.IteratorLevel) error {
				v, _, err := value.Value(nil)
				if err != nil {
					return err
				}
				ord++
				items = append(items, scanItem{seq: uint64(key.SeqNum()), ord: ord, kind: key.Kind().String(), k: string(key.UserKey), v: string(v)})
				return nil
			},
			VisitRangeDel: func(start, end []byte, seqNum base.SeqNum) error {
				ord++
				items = append(items, scanItem{seq: uint64(seqNum), ord: ord, kind: "RANGEDEL", k: string(start), e: string(end)})
				return nil
			},
			VisitRangeKey: func(start, end []byte, keys []rangekey.Key) error {
				// ScanInternal zeroes the sequence numbers of range keys and hands them over in trailer
				// order: at equal sequence numbers the kind decides (SET over UNSET over DEL), so a
				// sequential replay applies them in ascending kind order, i.e. in reverse.
				for i := len(keys) - 1; i >= 0; i-- {
					k := keys[i]
					ord++
					items = append(items, scanItem{seq: 0, ord: ord, kind: k.Kind().String(), k: string(start), e: string(end), suf: string(k.Suffix), v: string(k.Value)})
				}
				return nil
			},
		})
		if err != nil {
			return fmt.Sprintf("%s: ScanInternal[%s,%s): %v", what, sp.lo, sp.hi, err)
		}
		sort.SliceStable(items, func(i, j int) bool { return items[i].seq < items[j].seq })
		dst, err := hx.Open(vfs.NewMem(), "replay", hx.Config{Name: "replay"})
		if err != nil {
			return err.Error()
		}
		var trace []string
		for _, it := range items {
			trace = append(trace, fmt.Sprintf("%s#%d,%s", it.k, it.seq, it.kind))
			var err error
			switch it.kind {
			case "SET", "SETWITHDEL":
				err = dst.D.Set([]byte(it.k), []byte(it.v), nil)
			case "DEL", "DELSIZED", "SINGLEDEL":
				err = dst.D.Delete([]byte(it.k), nil)
			case "MERGE":
				err = dst.D.Merge([]byte(it.k), []byte(it.v), nil)
			case "RANGEDEL":
				err = dst.D.DeleteRange([]byte(it.k), []byte(it.e), nil)
			case "RANGEKEYSET":
				err = dst.D.RangeKeySet([]byte(it.k), []byte(it.e), []byte(it.suf), []byte(it.v), nil)
			case "RANGEKEYUNSET":
				err = dst.D.RangeKeyUnset([]byte(it.k), []byte(it.e), []byte(it.suf), nil)
			case "RANGEKEYDEL":
				err = dst.D.RangeKeyDelete([]byte(it.k), []byte(it.e), nil)
			default:
				err = fmt.Errorf("unexpected kind %s", it.kind)
			}
			if err != nil {
				dst.D.Close()
				return fmt.Sprintf("replaying %v: %v", it, err)
			}
		}
		got, err := hx.ObservePoints(dst.D, universe)
		spans, err2 := hx.ObserveSpans(dst.D, sp.lo, sp.hi)
		dst.D.Close()
		if err != nil || err2 != nil {
			return fmt.Sprintf("reading replayed DB: %v %v", err, err2)
		}
		want := filter(m.Points(), sp)
		got = filter(got, sp)
		if g, w := hx.PointsString(got), hx.PointsString(want); g != w {
			return fmt.Sprintf("%s, span [%s,%s): ScanInternal produced [%s]; replayed into an empty DB it shows {%s}, the source shows {%s}", what, sp.lo, sp.hi, strings.Join(trace, " "), g, w)
		}
		if g, w := hx.SpansString(spans), hx.SpansString(m.Spans(sp.lo, sp.hi)); g != w {
			return fmt.Sprintf("%s, span [%s,%s): range keys after replay %s, source %s (scan: %s)", what, sp.lo, sp.hi, g, w, strings.Join(trace, " "))
		}
	}
	return ""
}

// ---- C47: Close releases everything ----------------------------------------------------------

type leakState struct {
	goroutines int
}

func beginLeakCheck() *leakState {
	return &leakState{goroutines: runtime.NumGoroutine()}
}

// check runs after Close returned nil: no goroutines, open files or cache references are left and
// the directory reopens to the model state. A goroutine count that does not settle within a
// generous real-time deadline is reported as incomplete, never as a violation (DESIGN section 8.3).
func (l *leakState) check(r *run) (class, desc string) {
	if h := r.fs.openHandles(); len(h) > 0 {
		sort.Strings(h)
		return "open-file-after-close", fmt.Sprintf("files still open after Close: %v", h)
	}
	deadline := time.Now().Add(10 * time.Second)
	for runtime.NumGoroutine() > l.goroutines {
		if time.Now().After(deadline) {
			buf := make([]byte, 1<<16)
			n := runtime.Stack(buf, true)
			stacks := string(buf[:n])
			if strings.Contains(stacks, "cockroachdb/pebble.") || strings.Contains(stacks, "pebble/record.") || strings.Contains(stacks, "pebble/wal.") {
				// goroutines with Pebble frames survive Close for 10 s: a leak
				keep := []string{}
				for _, g := range strings.Split(stacks, "\n\n") {
					if strings.Contains(g, "pebble") && !strings.Contains(g, "internal/verif") {
						keep = append(keep, g)
					}
				}
				if len(keep) > 0 {
					return "goroutine-leak", fmt.Sprintf("%d goroutines before Open, %d ten seconds after Close; Pebble goroutines still running:\n%s", l.goroutines, runtime.NumGoroutine(), strings.Join(keep, "\n\n"))
				}
			}
			r.c.Incomplete("goroutine count did not settle after Close within 10s (no Pebble frames found)")
			break
		}
		time.Sleep(200 * time.Microsecond)
	}
	// reopen: same state, and a second Close works
	x2, err := hx.OpenWith("db", r.x.Opts)
	if err != nil {
		return "reopen-failed", err.Error()
	}
	d := hx.CompareLatest(x2.D, r.m, universe, true)
	if err := x2.D.Close(); err != nil {
		return "close-error", "second close: " + err.Error()
	}
	if d != "" {
		return "reopen-state-differs", d
	}
	if h := r.fs.openHandles(); len(h) > 0 {
		return "open-file-after-close", fmt.Sprintf("files still open after reopen+Close: %v", h)
	}
	return "", ""
}
