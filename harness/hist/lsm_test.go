package hist

import (
	"context"
	"fmt"

	"github.com/cockroachdb/pebble/internal/base"
	"github.com/cockroachdb/pebble/internal/manifest"
	"github.com/cockroachdb/pebble/objstorage"
	"github.com/cockroachdb/pebble/sstable"
)

// checkLSM is C15's monitor: Pebble's own CheckLevels and Version.CheckOrdering, plus an independent
// re-derivation of the level invariant from the files themselves:
//   - files of a level L1..L6 and of an L0 sublevel do not overlap (from the metadata);
//   - every point key of every table lies inside the table's recorded bounds and sequence range
//     (read through sstable.Reader from the backing file);
//   - for every user key, positions ordered newest to oldest (L0 sublevels high to low, then L1..L6)
//     hold strictly decreasing sequence numbers.
func (r *run) checkLSM() string {
	d := r.x.D
	d.VerifWaitIdle()
	if err := d.CheckLevels(nil); err != nil {
		return "CheckLevels: " + err.Error()
	}
	// A flushable ingest returns before its flush applies the excise; the flush may then delete a
	// file of the version being audited. Queued background work was let finish above; pin the
	// version as an iterator would so that its files stay readable.
	v, release := d.VerifPinnedVersion()
	defer release()
	if err := v.CheckOrdering(); err != nil {
		return "Version.CheckOrdering: " + err.Error()
	}
	cmp := r.x.Opts.Comparer.Compare
	type occ struct {
		pos      int
		min, max base.SeqNum
	}
	perKey := map[string][]occ{}
	nSub := len(v.L0SublevelFiles)
	subOf := map[base.TableNum]int{}
	for sl := range v.L0SublevelFiles {
		for m := range v.L0SublevelFiles[sl].All() {
			subOf[m.TableNum] = sl
		}
	}
	for l := 0; l < manifest.NumLevels; l++ {
		var prev *manifest.TableMetadata
		bySub := map[int]*manifest.TableMetadata{}
		for m := range v.Levels[l].All() {
			pos := nSub + l // L1.. after all L0 sublevels
			if l == 0 {
				sl, ok := subOf[m.TableNum]
				if !ok {
					return fmt.Sprintf("L0 file %s is in no sublevel", m.TableNum)
				}
				pos = nSub - 1 - sl
				p := bySub[sl]
				if p != nil && !disjoint(cmp, p, m) {
					return fmt.Sprintf("L0 sublevel %d: files %s and %s overlap", sl, p.TableNum, m.TableNum)
				}
				bySub[sl] = m
			} else {
				if prev != nil && !disjoint(cmp, prev, m) {
					return fmt.Sprintf("L%d: files %s and %s overlap", l, prev.TableNum, m.TableNum)
				}
				prev = m
			}
			keys, err := r.tableKeys(m)
			if err != nil {
				return fmt.Sprintf("reading table %s: %v", m.TableNum, err)
			}
			for _, k := range keys {
				uk := string(k.UserKey)
				if cmp(k.UserKey, m.Smallest().UserKey) < 0 || cmp(k.UserKey, m.Largest().UserKey) > 0 {
					return fmt.Sprintf("table %s (L%d) holds key %s outside its recorded bounds [%s,%s]", m.TableNum, l, k.Pretty(r.x.Opts.Comparer.FormatKey), m.Smallest().Pretty(r.x.Opts.Comparer.FormatKey), m.Largest().Pretty(r.x.Opts.Comparer.FormatKey))
				}
				s := k.SeqNum()
				if s < m.SeqNums.Low || s > m.SeqNums.High {
					return fmt.Sprintf("table %s (L%d) holds key %s outside its recorded sequence range [%d,%d]", m.TableNum, l, k.Pretty(r.x.Opts.Comparer.FormatKey), m.SeqNums.Low, m.SeqNums.High)
				}
				os := perKey[uk]
				if n := len(os); n > 0 && os[n-1].pos == pos {
					if s < os[n-1].min {
						os[n-1].min = s
					}
					if s > os[n-1].max {
						os[n-1].max = s
					}
				} else {
					perKey[uk] = append(os, occ{pos, s, s})
				}
			}
		}
	}
	for uk, os := range perKey {
		for i := range os {
			for j := range os {
				if os[i].pos < os[j].pos && os[i].min <= os[j].max && !(os[i].min == 0 && os[j].max == 0) {
					return fmt.Sprintf("user key %s: position %d (newer) holds seqnum %d but position %d (older) holds seqnum %d", uk, os[i].pos, os[i].min, os[j].pos, os[j].max)
				}
			}
		}
	}
	return ""
}

func disjoint(cmp base.Compare, a, b *manifest.TableMetadata) bool {
	if c := cmp(a.Largest().UserKey, b.Smallest().UserKey); c < 0 || (c == 0 && a.Largest().IsExclusiveSentinel()) {
		return true
	}
	if c := cmp(b.Largest().UserKey, a.Smallest().UserKey); c < 0 || (c == 0 && b.Largest().IsExclusiveSentinel()) {
		return true
	}
	return false
}

// tableKeys returns the point keys of table m with their effective sequence numbers, restricted to
// the table's bounds for virtual tables.
func (r *run) tableKeys(m *manifest.TableMetadata) ([]base.InternalKey, error) {
	name := r.fs.PathJoin("db", base.MakeFilename(base.FileTypeTable, m.TableBacking.DiskFileNum))
	f, err := r.fs.FS.Open(name)
	if err != nil {
		return nil, err
	}
	readable, err := objstorage.NewSimpleReadable(f)
	if err != nil {
		f.Close()
		return nil, err
	}
	return readKeys(r, readable, m)
}

func readKeys(r *run, readable objstorage.Readable, m *manifest.TableMetadata) ([]base.InternalKey, error) {
	rd, err := sstable.NewReader(context.Background(), readable, r.x.Opts.MakeReaderOptions())
	if err != nil {
		return nil, err
	}
	defer rd.Close()
	it, err := rd.NewPointIter(context.Background(), sstable.IterOptions{Transforms: sstable.NoTransforms, BlobContext: sstable.DebugHandlesBlobContext})
	if err != nil {
		return nil, err
	}
	defer it.Close()
	cmp := r.x.Opts.Comparer.Compare
	tr := m.IterTransforms()
	var out []base.InternalKey
	for kv := it.First(); kv != nil; kv = it.Next() {
		k := kv.K.Clone()
		if m.Virtual {
			if cmp(k.UserKey, m.Smallest().UserKey) < 0 {
				continue
			}
			if c := cmp(k.UserKey, m.Largest().UserKey); c > 0 || (c == 0 && m.Largest().IsExclusiveSentinel()) {
				continue
			}
		}
		if tr.SyntheticSeqNum != 0 {
			k.SetSeqNum(base.SeqNum(tr.SyntheticSeqNum))
		}
		if tr.SyntheticPrefixAndSuffix.HasPrefix() || tr.SyntheticPrefixAndSuffix.HasSuffix() {
			continue // not produced by this harness
		}
		out = append(out, k)
	}
	return out, it.Error()
}
