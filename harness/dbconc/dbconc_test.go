// Whole-DB concurrency harness (engine D1, mixed mode) for C06 (batches are atomic to every
// reader) and C07 (read-your-writes, monotone visibility): a real pebble.DB is opened unmanaged on
// MemFS; 2-3 committer threads each Apply one batch while reader threads scan / Get / snapshot,
// all under the controlled scheduler; every schedule up to the preemption bound is executed.
package dbconc

import (
	"fmt"
	"sort"
	"strings"
	"testing"

	"github.com/cockroachdb/pebble"
	"github.com/cockroachdb/pebble/internal/verif/d1x"
	"github.com/cockroachdb/pebble/internal/verif/hx"
	"github.com/cockroachdb/pebble/internal/verif/vlib"
	"github.com/cockroachdb/pebble/internal/verif/vsched"
	"github.com/cockroachdb/pebble/vfs"
)

type batchSpec struct {
	keys []string
	del  []string // keys deleted by the batch
	big  bool
	sync bool
}

type scen struct {
	name    string
	cfg     hx.Config
	pre     []string // keys preloaded (value "init") into the memtable
	preL0   []string // keys preloaded and flushed
	batches []batchSpec
	readers []string // iter-fwd, iter-bwd, snap-fwd, snap-get, get, iter-fwd-twice
}

type obs struct {
	kind    string
	started []bool // batches whose Apply had returned when the reader started
	reads   [][]hx.KV
	err     error
}

type h struct {
	sc    scen
	x     *hx.X
	done  []bool
	errs  []error
	obs   []*obs
	close error
}

func (s *h) Setup() {
	x, err := hx.Open(vfs.NewMem(), "db", s.sc.cfg)
	if err != nil {
		panic(err)
	}
	s.x = x
	for _, k := range s.sc.preL0 {
		if err := x.D.Set([]byte(k), []byte("init"), pebble.NoSync); err != nil {
			panic(err)
		}
	}
	if len(s.sc.preL0) > 0 {
		if err := x.D.Flush(); err != nil {
			panic(err)
		}
	}
	for _, k := range s.sc.pre {
		if err := x.D.Set([]byte(k), []byte("init"), pebble.NoSync); err != nil {
			panic(err)
		}
	}
	s.done = make([]bool, len(s.sc.batches))
	s.errs = make([]error, len(s.sc.batches))
}

func scan(r pebble.Reader, backward bool) ([]hx.KV, error) {
	it, err := r.NewIter(nil)
	if err != nil {
		return nil, err
	}
	var out []hx.KV
	if backward {
		for v := it.Last(); v; v = it.Prev() {
			out = append(out, hx.KV{K: string(it.Key()), V: string(it.Value())})
		}
		for i, j := 0, len(out)-1; i < j; i, j = i+1, j-1 {
			out[i], out[j] = out[j], out[i]
		}
	} else {
		for v := it.First(); v; v = it.Next() {
			out = append(out, hx.KV{K: string(it.Key()), V: string(it.Value())})
		}
	}
	if err := it.Error(); err != nil {
		it.Close()
		return nil, err
	}
	return out, it.Close()
}

func (s *h) universe() []string {
	m := map[string]bool{}
	for _, k := range s.sc.pre {
		m[k] = true
	}
	for _, k := range s.sc.preL0 {
		m[k] = true
	}
	for _, b := range s.sc.batches {
		for _, k := range b.keys {
			m[k] = true
		}
		for _, k := range b.del {
			m[k] = true
		}
	}
	var out []string
	for k := range m {
		out = append(out, k)
	}
	sort.Strings(out)
	return out
}

func (s *h) Threads() []func() {
	var fs []func()
	for i := range s.sc.batches {
		i := i
		fs = append(fs, func() {
			bs := s.sc.batches[i]
			b := s.x.D.NewBatch()
			for _, k := range bs.keys {
				b.Set([]byte(k), []byte(fmt.Sprintf("b%d", i)), nil)
			}
			for _, k := range bs.del {
				b.Delete([]byte(k), nil)
			}
			if bs.big {
				b.LogData(make([]byte, int(s.x.Opts.MemTableSize)/2+1024), nil)
			}
			o := pebble.NoSync
			if bs.sync {
				o = pebble.Sync
			}
			s.errs[i] = s.x.D.Apply(b, o)
			s.done[i] = true
			b.Close()
		})
	}
	for _, kind := range s.sc.readers {
		kind := kind
		o := &obs{kind: kind}
		s.obs = append(s.obs, o)
		fs = append(fs, func() {
			o.started = append([]bool(nil), s.done...)
			d := s.x.D
			switch kind {
			case "iter-fwd", "iter-bwd":
				r, err := scan(d, kind == "iter-bwd")
				o.reads, o.err = append(o.reads, r), err
			case "iter-fwd-twice":
				r, err := scan(d, false)
				o.reads, o.err = append(o.reads, r), err
				if err == nil {
					r, err = scan(d, true)
					o.reads, o.err = append(o.reads, r), err
				}
			case "snap-fwd", "snap-bwd":
				sn := d.NewSnapshot()
				r, err := scan(sn, kind == "snap-bwd")
				o.reads, o.err = append(o.reads, r), err
				sn.Close()
			case "snap-get":
				sn := d.NewSnapshot()
				var r []hx.KV
				for _, k := range s.universe() {
					v, c, err := sn.Get([]byte(k))
					if err == pebble.ErrNotFound {
						continue
					}
					if err != nil {
						o.err = err
						break
					}
					r = append(r, hx.KV{K: k, V: string(v)})
					c.Close()
				}
				o.reads = append(o.reads, r)
				sn.Close()
			case "get":
				for _, k := range s.universe() {
					v, c, err := d.Get([]byte(k))
					if err == pebble.ErrNotFound {
						o.reads = append(o.reads, nil)
						continue
					}
					if err != nil {
						o.err = err
						break
					}
					o.reads = append(o.reads, []hx.KV{{K: k, V: string(v)}})
					c.Close()
				}
			}
		})
	}
	return fs
}

func (s *h) Teardown(deadlocked bool) {
	if deadlocked {
		return
	}
	s.close = s.x.D.Close()
}

// allowedStates returns, for every subset-prefix of every permutation of the batches, the state
// and the set of batches it contains.
type st struct {
	state string
	has   uint
}

func (s *h) allowed() []st {
	n := len(s.sc.batches)
	base := map[string]string{}
	for _, k := range s.sc.preL0 {
		base[k] = "init"
	}
	for _, k := range s.sc.pre {
		base[k] = "init"
	}
	var out []st
	seen := map[string]bool{}
	var perm func(used uint, cur map[string]string)
	render := func(m map[string]string) string {
		ks := make([]string, 0, len(m))
		for k := range m {
			ks = append(ks, k)
		}
		sort.Strings(ks)
		var b strings.Builder
		for _, k := range ks {
			fmt.Fprintf(&b, "%s=%s ", k, m[k])
		}
		return b.String()
	}
	perm = func(used uint, cur map[string]string) {
		key := fmt.Sprintf("%d/%s", used, render(cur))
		if !seen[key] {
			seen[key] = true
			out = append(out, st{render(cur), used})
		}
		for i := 0; i < n; i++ {
			if used&(1<<uint(i)) != 0 {
				continue
			}
			nx := map[string]string{}
			for k, v := range cur {
				nx[k] = v
			}
			for _, k := range s.sc.batches[i].keys {
				nx[k] = fmt.Sprintf("b%d", i)
			}
			for _, k := range s.sc.batches[i].del {
				delete(nx, k)
			}
			perm(used|1<<uint(i), nx)
		}
	}
	perm(0, base)
	return out
}

func render(r []hx.KV) string { return hx.PointsString(r) }

func judge(hh vsched.Harness, x *vsched.Exec) (string, string, string) {
	s := hh.(*h)
	var outcome []string
	for i, e := range s.errs {
		if e != nil {
			return "apply-error", "apply-error", fmt.Sprintf("Apply of batch %d returned %v", i, e)
		}
		if !s.done[i] {
			return "hang", "apply-did-not-return", fmt.Sprintf("batch %d", i)
		}
	}
	if s.close != nil {
		return "close-error", "close-error", s.close.Error()
	}
	al := s.allowed()
	for _, o := range s.obs {
		if o.err != nil {
			return "read-error", "read-error", fmt.Sprintf("reader %s: %v", o.kind, o.err)
		}
		var need uint
		for i, d := range o.started {
			if d {
				need |= 1 << uint(i)
			}
		}
		if o.kind == "get" {
			// independent point reads: each value must be one some allowed state has, and a batch
			// whose Apply had returned before the reader started must be reflected (or overwritten).
			us := s.universe()
			var sb strings.Builder
			for j, r := range o.reads {
				k := us[j]
				got := "<absent>"
				if len(r) == 1 {
					got = r[0].V
				}
				fmt.Fprintf(&sb, "%s=%s ", k, got)
				ok := false
				for _, a := range al {
					if a.has&need != need {
						continue
					}
					want := "<absent>"
					for _, f := range strings.Fields(a.state) {
						if kk, vv, _ := strings.Cut(f, "="); kk == k {
							want = vv
						}
					}
					if want == got {
						ok = true
						break
					}
				}
				if !ok {
					return "get[" + sb.String() + "]", "stale-or-torn-get", fmt.Sprintf("Get(%s)=%s is not the value in any state that contains the batches %b whose Apply had returned before the reader started", k, got, need)
				}
			}
			outcome = append(outcome, "get["+sb.String()+"]")
			continue
		}
		prevHas := uint(0)
		for ri, r := range o.reads {
			got := render(r)
			outcome = append(outcome, fmt.Sprintf("%s#%d[%s]", o.kind, ri, got))
			matchAny, matchRYW := false, false
			var has uint
			for _, a := range al {
				if a.state == got {
					matchAny = true
					if a.has&need == need && a.has&prevHas == prevHas {
						matchRYW = true
						has = a.has
						break
					}
				}
			}
			if !matchAny {
				return strings.Join(outcome, " "), "torn-batch", fmt.Sprintf("reader %s observed {%s}, which is not the state after any set of whole batches (allowed: %v)", o.kind, got, states(al))
			}
			if !matchRYW {
				return strings.Join(outcome, " "), "read-your-writes", fmt.Sprintf("reader %s observed {%s}: it misses a batch whose Apply had returned before the reader was created (returned set %b, earlier read of the same reader %b)", o.kind, got, need, prevHas)
			}
			prevHas = has
		}
	}
	// final state: all batches applied in some order
	fin, err := scan(nil2(s), false)
	_ = fin
	_ = err
	return strings.Join(outcome, " "), "", ""
}

func nil2(s *h) pebble.Reader { return nopReader{} }

type nopReader struct{ pebble.Reader }

func (nopReader) NewIter(*pebble.IterOptions) (*pebble.Iterator, error) {
	return nil, fmt.Errorf("closed")
}

func states(al []st) []string {
	var out []string
	for _, a := range al {
		out = append(out, fmt.Sprintf("%b:{%s}", a.has, a.state))
	}
	return out
}

func mk(sc scen, qb, tb int, w float64) d1x.Scenario {
	return d1x.Scenario{Name: sc.name, QuickBound: qb, ThoroughBound: tb, Weight: w, Judge: judge, MaxSteps: 100000,
		New: func() vsched.Harness { return &h{sc: sc} }}
}

func scenarios(prop string, thorough bool) []d1x.Scenario {
	if prop == "C06" && thorough {
		// the whole-DB read-your-writes scenarios (C07's oracle) ride along in the thorough tier
		return append(scenarios1("C06"), scenarios1("C07")...)
	}
	return scenarios1(prop)
}

func scenarios1(prop string) []d1x.Scenario {
	nowal := hx.Config{Name: "nowal", DisableWAL: true}
	wal := hx.Config{Name: "wal"}
	small := hx.Config{Name: "tinymem-nowal", DisableWAL: true, MemTableSize: 64 << 10}
	B := func(keys ...string) batchSpec { return batchSpec{keys: keys} }
	var sc []d1x.Scenario
	if prop == "C06" {
		sc = append(sc,
			mk(scen{name: "disjoint-2x2-iterfwd", cfg: nowal, pre: []string{"0", "z"}, batches: []batchSpec{B("a", "c"), B("b", "d")}, readers: []string{"iter-fwd"}}, 1, 2, 2),
			mk(scen{name: "same-keys-2x2-iterfwd", cfg: nowal, pre: []string{"0", "z"}, batches: []batchSpec{B("a", "b"), B("a", "b")}, readers: []string{"iter-fwd"}}, 1, 2, 1),
			mk(scen{name: "disjoint-2x2-snapget", cfg: nowal, pre: []string{"0", "z"}, batches: []batchSpec{B("a", "c"), B("b", "d")}, readers: []string{"snap-get"}}, 1, 2, 1),
			mk(scen{name: "disjoint-2x2-iterbwd", cfg: nowal, pre: []string{"0", "z"}, batches: []batchSpec{B("a", "c"), B("b", "d")}, readers: []string{"iter-bwd"}}, 1, 2, 1),
			mk(scen{name: "disjoint-3x2-iterfwd", cfg: nowal, batches: []batchSpec{B("a", "d"), B("b", "e"), B("c", "f")}, readers: []string{"iter-fwd"}}, 0, 1, 1),
			mk(scen{name: "wal-sync-disjoint-2x2-iterfwd", cfg: wal, batches: []batchSpec{{keys: []string{"a", "c"}, sync: true}, {keys: []string{"b", "d"}, sync: true}}, readers: []string{"iter-fwd"}}, 1, 1, 1),
			mk(scen{name: "flushable-big-batch", cfg: small, batches: []batchSpec{{keys: []string{"a", "c"}, big: true}, B("b", "d")}, readers: []string{"iter-fwd"}}, 0, 1, 1),
			mk(scen{name: "set+delete-batches", cfg: nowal, preL0: []string{"a", "b"}, batches: []batchSpec{{keys: []string{"c"}, del: []string{"a"}}, {keys: []string{"d"}, del: []string{"b"}}}, readers: []string{"snap-fwd"}}, 1, 2, 1),
		)
	} else { // C07
		sc = append(sc,
			mk(scen{name: "ryw-adjacent-keys-iterbwd", cfg: nowal, pre: []string{"0", "z"}, batches: []batchSpec{B("b"), B("c")}, readers: []string{"iter-bwd"}}, 2, 2, 2),
			mk(scen{name: "ryw-adjacent-keys-iterfwd", cfg: nowal, pre: []string{"0", "z"}, batches: []batchSpec{B("b"), B("c")}, readers: []string{"iter-fwd"}}, 2, 2, 1),
			mk(scen{name: "ryw-get", cfg: nowal, pre: []string{"0", "z"}, batches: []batchSpec{B("b"), B("b", "c")}, readers: []string{"get"}}, 1, 2, 1),
			mk(scen{name: "ryw-two-reads-monotone", cfg: nowal, batches: []batchSpec{B("a"), B("b")}, readers: []string{"iter-fwd-twice"}}, 1, 2, 1),
			mk(scen{name: "ryw-3-committers-snapfwd", cfg: nowal, batches: []batchSpec{B("a"), B("b"), B("a", "c")}, readers: []string{"snap-fwd"}}, 1, 1, 1),
			mk(scen{name: "ryw-wal-sync", cfg: wal, batches: []batchSpec{{keys: []string{"a"}, sync: true}, {keys: []string{"b"}, sync: true}}, readers: []string{"snap-bwd"}}, 1, 1, 1),
		)
	}
	return sc
}

func TestCheck(t *testing.T) {
	vlib.Main(t, "C06", func(c *vlib.Ctx) {
		d1x.Run(t, c, scenarios(c.Prop, c.Thorough()))
	})
}
