// Whole-DB concurrency harness (engine D1, mixed mode) for C06 (batches are atomic to every
// reader) and C07 (read-your-writes, monotone visibility): a real pebble.DB is opened unmanaged on
// MemFS; 2-3 committer threads each Apply one batch while reader threads scan / Get / snapshot,
// all under the controlled scheduler; every schedule up to the preemption bound is executed.
package dbconc

import (
	"context"
	"fmt"
	"sort"
	"strings"
	"sync/atomic"
	"testing"

	"github.com/cockroachdb/pebble"
	"github.com/cockroachdb/pebble/internal/verif/d1x"
	"github.com/cockroachdb/pebble/internal/verif/hx"
	"github.com/cockroachdb/pebble/internal/verif/vlib"
	"github.com/cockroachdb/pebble/internal/verif/vsched"
	"github.com/cockroachdb/pebble/vfs"
)

type batchSpec struct {
	keys []string
	del  []string // keys deleted by the batch
	big  bool
	sync bool
	rk   bool // the batch also sets the range key [a,z)@5 (value b<i>)
}

const rkName = "~rangekey[a,z)@5" // how the range key appears in an observation

type scen struct {
	name    string
	cfg     hx.Config
	pre     []string // keys preloaded (value "init") into the memtable
	preL0   []string // keys preloaded and flushed
	batches []batchSpec
	readers []string // iter-fwd, iter-bwd, snap-fwd, snap-get, get, iter-fwd-twice
}

type obs struct {
	kind    string
	started []bool // batches whose Apply had returned when the reader started
	reads   [][]hx.KV
	err     error
}

type h struct {
	sc       scen
	x        *hx.X
	done     []atomic.Bool // read by readers while committers run: goes through the scheduler shims
	errs     []error
	obs      []*obs
	close    error
	final    []hx.KV
	finalErr error
}

func (s *h) Setup() {
	x, err := hx.Open(vfs.NewMem(), "db", s.sc.cfg)
	if err != nil {
		panic(err)
	}
	s.x = x
	for _, k := range s.sc.preL0 {
		if err := x.D.Set([]byte(k), []byte("init"), pebble.NoSync); err != nil {
			panic(err)
		}
	}
	if len(s.sc.preL0) > 0 {
		if err := x.D.Flush(); err != nil {
			panic(err)
		}
	}
	for _, k := range s.sc.pre {
		if err := x.D.Set([]byte(k), []byte("init"), pebble.NoSync); err != nil {
			panic(err)
		}
	}
	s.done = make([]atomic.Bool, len(s.sc.batches))
	s.errs = make([]error, len(s.sc.batches))
}

func scan(r pebble.Reader, backward bool) ([]hx.KV, error) {
	it, err := r.NewIter(nil)
	if err != nil {
		return nil, err
	}
	var out []hx.KV
	if backward {
		for v := it.Last(); v; v = it.Prev() {
			out = append(out, hx.KV{K: string(it.Key()), V: hx.Val(it.Value())})
		}
		for i, j := 0, len(out)-1; i < j; i, j = i+1, j-1 {
			out[i], out[j] = out[j], out[i]
		}
	} else {
		for v := it.First(); v; v = it.Next() {
			out = append(out, hx.KV{K: string(it.Key()), V: hx.Val(it.Value())})
		}
	}
	if err := it.Error(); err != nil {
		it.Close()
		return nil, err
	}
	return out, it.Close()
}

// scanAll scans points and range keys; a range key is reported as one entry named rkName per
// distinct span it surfaces with (name includes the bounds actually reported).
func scanAll(r pebble.Reader) ([]hx.KV, error) {
	it, err := r.NewIter(&pebble.IterOptions{KeyTypes: pebble.IterKeyTypePointsAndRanges})
	if err != nil {
		return nil, err
	}
	var out []hx.KV
	for v := it.First(); v; v = it.Next() {
		hp, hr := it.HasPointAndRange()
		if hr && it.RangeKeyChanged() {
			st, en := it.RangeBounds()
			for _, k := range it.RangeKeys() {
				out = append(out, hx.KV{K: fmt.Sprintf("~rangekey[%s,%s)%s", st, en, k.Suffix), V: string(k.Value)})
			}
		}
		if hp {
			out = append(out, hx.KV{K: string(it.Key()), V: hx.Val(it.Value())})
		}
	}
	if err := it.Error(); err != nil {
		it.Close()
		return nil, err
	}
	sort.Slice(out, func(i, j int) bool { return out[i].K < out[j].K })
	return out, it.Close()
}

func (s *h) universe() []string {
	m := map[string]bool{}
	for _, k := range s.sc.pre {
		m[k] = true
	}
	for _, k := range s.sc.preL0 {
		m[k] = true
	}
	for _, b := range s.sc.batches {
		for _, k := range b.keys {
			m[k] = true
		}
		for _, k := range b.del {
			m[k] = true
		}
	}
	var out []string
	for k := range m {
		out = append(out, k)
	}
	sort.Strings(out)
	return out
}

func (s *h) Threads() []func() {
	var fs []func()
	for i := range s.sc.batches {
		i := i
		fs = append(fs, func() {
			bs := s.sc.batches[i]
			b := s.x.D.NewBatch()
			for _, k := range bs.keys {
				b.Set([]byte(k), []byte(fmt.Sprintf("b%d", i)), nil)
			}
			for _, k := range bs.del {
				b.Delete([]byte(k), nil)
			}
			if bs.rk {
				b.RangeKeySet([]byte("a"), []byte("z"), []byte("@5"), []byte(fmt.Sprintf("b%d", i)), nil)
			}
			if bs.big {
				// a real big value: LogData does not count towards the large-batch threshold
				b.Set([]byte(hx.PadKey), []byte(strings.Repeat("p", int(s.x.Opts.MemTableSize)/2+1024)), nil)
			}
			o := pebble.NoSync
			if bs.sync {
				o = pebble.Sync
			}
			s.errs[i] = s.x.D.Apply(b, o)
			s.done[i].Store(true)
			b.Close()
		})
	}
	for _, kind := range s.sc.readers {
		kind := kind
		o := &obs{kind: kind}
		s.obs = append(s.obs, o)
		fs = append(fs, func() {
			o.started = make([]bool, len(s.done))
			for i := range s.done {
				o.started[i] = s.done[i].Load()
			}
			d := s.x.D
			switch kind {
			case "iter-fwd", "iter-bwd":
				r, err := scan(d, kind == "iter-bwd")
				o.reads, o.err = append(o.reads, r), err
			case "iterkr-fwd":
				r, err := scanAll(d)
				o.reads, o.err = append(o.reads, r), err
			case "iter-rescan":
				// C04: ONE iterator (and a clone of it) re-driven while commits go on must keep showing
				// the state of its creation
				it, err := d.NewIter(nil)
				if err != nil {
					o.err = err
					break
				}
				rescan := func(it *pebble.Iterator) []hx.KV {
					var out []hx.KV
					for v := it.First(); v; v = it.Next() {
						out = append(out, hx.KV{K: string(it.Key()), V: hx.Val(it.Value())})
					}
					return out
				}
				o.reads = append(o.reads, rescan(it))
				o.reads = append(o.reads, rescan(it))
				cl, err := it.Clone(pebble.CloneOptions{})
				if err == nil {
					o.reads = append(o.reads, rescan(cl))
					o.reads = append(o.reads, rescan(it))
					err = cl.Close()
				}
				if err == nil {
					err = it.Error()
				}
				o.err = err
				if e := it.Close(); e != nil && o.err == nil {
					o.err = e
				}
			case "iter-fwd-twice":
				r, err := scan(d, false)
				o.reads, o.err = append(o.reads, r), err
				if err == nil {
					r, err = scan(d, true)
					o.reads, o.err = append(o.reads, r), err
				}
			case "snap-fwd", "snap-bwd":
				sn := d.NewSnapshot()
				r, err := scan(sn, kind == "snap-bwd")
				o.reads, o.err = append(o.reads, r), err
				sn.Close()
			case "snap-get":
				sn := d.NewSnapshot()
				var r []hx.KV
				for _, k := range s.universe() {
					v, c, err := sn.Get([]byte(k))
					if err == pebble.ErrNotFound {
						continue
					}
					if err != nil {
						o.err = err
						break
					}
					r = append(r, hx.KV{K: k, V: hx.Val(v)})
					c.Close()
				}
				o.reads = append(o.reads, r)
				sn.Close()
			case "get":
				for _, k := range s.universe() {
					v, c, err := d.Get([]byte(k))
					if err == pebble.ErrNotFound {
						o.reads = append(o.reads, nil)
						continue
					}
					if err != nil {
						o.err = err
						break
					}
					o.reads = append(o.reads, []hx.KV{{K: k, V: string(v)}})
					c.Close()
				}
			}
		})
	}
	return fs
}

// Finish runs as a managed thread after the committers and readers are done: Close needs the
// background threads spawned during the scenario (e.g. the flush loop of a rotated WAL) to run.
func (s *h) Finish() {
	// the state every later reader sees: all batches, whole
	s.final, s.finalErr = scanAll(s.x.D)
	s.close = s.x.D.Close()
}

func (s *h) Teardown(deadlocked bool) {}

// allowedStates returns, for every subset-prefix of every permutation of the batches, the state
// and the set of batches it contains.
type st struct {
	state string
	has   uint
}

func (s *h) allowed() []st {
	n := len(s.sc.batches)
	base := map[string]string{}
	for _, k := range s.sc.preL0 {
		base[k] = "init"
	}
	for _, k := range s.sc.pre {
		base[k] = "init"
	}
	var out []st
	seen := map[string]bool{}
	var perm func(used uint, cur map[string]string)
	render := func(m map[string]string) string {
		ks := make([]string, 0, len(m))
		for k := range m {
			ks = append(ks, k)
		}
		sort.Strings(ks)
		var b strings.Builder
		for _, k := range ks {
			fmt.Fprintf(&b, "%s=%s ", k, m[k])
		}
		return b.String()
	}
	perm = func(used uint, cur map[string]string) {
		key := fmt.Sprintf("%d/%s", used, render(cur))
		if !seen[key] {
			seen[key] = true
			out = append(out, st{render(cur), used})
		}
		for i := 0; i < n; i++ {
			if used&(1<<uint(i)) != 0 {
				continue
			}
			nx := map[string]string{}
			for k, v := range cur {
				nx[k] = v
			}
			for _, k := range s.sc.batches[i].keys {
				nx[k] = fmt.Sprintf("b%d", i)
			}
			for _, k := range s.sc.batches[i].del {
				delete(nx, k)
			}
			if s.sc.batches[i].big {
				nx[hx.PadKey] = "PAD"
			}
			if s.sc.batches[i].rk {
				nx[rkName] = fmt.Sprintf("b%d", i)
			}
			perm(used|1<<uint(i), nx)
		}
	}
	perm(0, base)
	return out
}

func render(r []hx.KV) string { return hx.PointsString(r) }

func judge(hh vsched.Harness, x *vsched.Exec) (string, string, string) {
	s := hh.(*h)
	var outcome []string
	for i, e := range s.errs {
		if e != nil {
			return "apply-error", "apply-error", fmt.Sprintf("Apply of batch %d returned %v", i, e)
		}
		if !s.done[i].Load() {
			return "hang", "apply-did-not-return", fmt.Sprintf("batch %d", i)
		}
	}
	if s.close != nil {
		return "close-error", "close-error", s.close.Error()
	}
	al := s.allowed()
	for _, o := range s.obs {
		if o.err != nil {
			return "read-error", "read-error", fmt.Sprintf("reader %s: %v", o.kind, o.err)
		}
		var need uint
		for i, d := range o.started {
			if d {
				need |= 1 << uint(i)
			}
		}
		if o.kind == "get" {
			// independent point reads: each value must be one some allowed state has, and a batch
			// whose Apply had returned before the reader started must be reflected (or overwritten).
			us := s.universe()
			var sb strings.Builder
			for j, r := range o.reads {
				k := us[j]
				got := "<absent>"
				if len(r) == 1 {
					got = r[0].V
				}
				fmt.Fprintf(&sb, "%s=%s ", k, got)
				ok := false
				for _, a := range al {
					if a.has&need != need {
						continue
					}
					want := "<absent>"
					for _, f := range strings.Fields(a.state) {
						if kk, vv, _ := strings.Cut(f, "="); kk == k {
							want = vv
						}
					}
					if want == got {
						ok = true
						break
					}
				}
				if !ok {
					return "get[" + sb.String() + "]", "stale-or-torn-get", fmt.Sprintf("Get(%s)=%s is not the value in any state that contains the batches %b whose Apply had returned before the reader started", k, got, need)
				}
			}
			outcome = append(outcome, "get["+sb.String()+"]")
			continue
		}
		if o.kind == "iter-rescan" {
			for ri := 1; ri < len(o.reads); ri++ {
				if render(o.reads[ri]) != render(o.reads[0]) {
					return strings.Join(outcome, " "), "iterator-view-changed", fmt.Sprintf("an open iterator (or its clone) showed {%s} at its first scan and {%s} at re-scan %d while commits were running", render(o.reads[0]), render(o.reads[ri]), ri)
				}
			}
			o.reads = o.reads[:1]
		}
		prevHas := uint(0)
		for ri, r := range o.reads {
			got := render(r)
			outcome = append(outcome, fmt.Sprintf("%s#%d[%s]", o.kind, ri, got))
			matchAny, matchRYW := false, false
			var has uint
			for _, a := range al {
				if a.state == got {
					matchAny = true
					if a.has&need == need && a.has&prevHas == prevHas {
						matchRYW = true
						has = a.has
						break
					}
				}
			}
			if !matchAny {
				return strings.Join(outcome, " "), "torn-batch", fmt.Sprintf("reader %s observed {%s}, which is not the state after any set of whole batches (allowed: %v)", o.kind, got, states(al))
			}
			if !matchRYW {
				return strings.Join(outcome, " "), "read-your-writes", fmt.Sprintf("reader %s observed {%s}: it misses a batch whose Apply had returned before the reader was created (returned set %b, earlier read of the same reader %b)", o.kind, got, need, prevHas)
			}
			prevHas = has
		}
	}
	// final state: all batches, whole, applied in some order
	if s.finalErr != nil {
		return strings.Join(outcome, " "), "read-error", "final scan: " + s.finalErr.Error()
	}
	fin := render(s.final)
	okFinal := false
	all := uint(1)<<uint(len(s.sc.batches)) - 1
	for _, a := range al {
		if a.has == all && a.state == fin {
			okFinal = true
		}
	}
	if !okFinal {
		return strings.Join(outcome, " "), "final-state-misses-part-of-a-committed-batch", fmt.Sprintf("after every Apply returned, a fresh iterator (points and range keys) shows {%s}; allowed: %v", fin, states(al))
	}
	return strings.Join(outcome, " "), "", ""
}

func nil2(s *h) pebble.Reader { return nopReader{} }

type nopReader struct{ pebble.Reader }

func (nopReader) NewIter(*pebble.IterOptions) (*pebble.Iterator, error) {
	return nil, fmt.Errorf("closed")
}

func states(al []st) []string {
	var out []string
	for _, a := range al {
		out = append(out, fmt.Sprintf("%b:{%s}", a.has, a.state))
	}
	return out
}

func mk(sc scen, qb, tb int, w float64) d1x.Scenario {
	return d1x.Scenario{Name: sc.name, QuickBound: qb, ThoroughBound: tb, Weight: w, Judge: judge, MaxSteps: 100000,
		New: func() vsched.Harness { return &h{sc: sc} }}
}

func scenarios(prop string, thorough bool) []d1x.Scenario {
	if prop == "C06" && thorough {
		// the whole-DB read-your-writes scenarios (C07's oracle) ride along in the thorough tier
		return append(scenarios1("C06"), scenarios1("C07")...)
	}
	return scenarios1(prop)
}

// ---------------------------------------------------------------------------------------------
// C42: every unordered pair of API operations on two threads over a quiesced DB with two L0 files
// and a non-empty memtable. Results must equal one of the two sequential orders.

var pairOps = []string{"set", "get", "batch", "scan", "snapget", "metrics", "flush", "ingest", "compact", "excise", "checkpoint"}

type pairH struct {
	ops    [2]string
	x      *hx.X
	mem    *vfs.MemFS
	res    [2]string
	errs   [2]error
	done   [2]bool
	final  string
	ferr   error
	close  error
	ckst   string
	closed bool
	ssts   map[string]string
}

func (s *pairH) Setup() {
	s.mem = vfs.NewMem()
	x, err := hx.Open(s.mem, "db", hx.Config{Name: "pairs"})
	if err != nil {
		panic(err)
	}
	s.x = x
	must := func(err error) {
		if err != nil {
			panic(err)
		}
	}
	d := x.D
	must(d.Set([]byte("a"), []byte("init"), pebble.NoSync))
	must(d.Set([]byte("b"), []byte("init"), pebble.NoSync))
	must(d.Flush())
	must(d.Set([]byte("a"), []byte("init2"), pebble.NoSync))
	must(d.Flush())
	must(d.Set([]byte("c"), []byte("init"), pebble.NoSync))
	// tables to ingest are built here, outside the explored threads: writing them is not part of
	// what is being interleaved and would only multiply the scheduling points
	s.ssts = map[string]string{}
	for who := 0; who < 2; who++ {
		for _, op := range strings.Split(s.ops[who], ">") {
			var sub hx.Op
			switch op {
			case "ingest":
				sub = hx.Op{K: "set", Key: "e", Val: fmt.Sprintf("ing%d", who)}
			case "ingestexcise":
				sub = hx.Op{K: "set", Key: "b", Val: fmt.Sprintf("ie%d", who)}
			case "ingestc":
				// overlaps the memtable (c=init is unflushed): takes the flushable-ingest path, which
				// writes its own WAL record and rotates the memtable
				sub = hx.Op{K: "set", Key: "c", Val: fmt.Sprintf("ingc%d", who)}
			default:
				continue
			}
			p, err := s.x.BuildSST(hx.Op{K: "ingest", Sub: []hx.Op{sub}}, fmt.Sprintf("t%d", who))
			must(err)
			s.ssts[fmt.Sprintf("%d/%s", who, op)] = p
		}
	}
}

func pairModel0() map[string]string {
	return map[string]string{"a": "init2", "b": "init", "c": "init"}
}

func renderMap(m map[string]string) string {
	ks := make([]string, 0, len(m))
	for k := range m {
		ks = append(ks, k)
	}
	sort.Strings(ks)
	var b strings.Builder
	for _, k := range ks {
		fmt.Fprintf(&b, "%s=%s ", k, m[k])
	}
	return b.String()
}

// pairApplyModel returns the result the op reports when run on state m, and mutates m.
func pairApplyModel(op string, who int, m map[string]string) string {
	switch op {
	case "set", "setsync":
		m["b"] = fmt.Sprintf("s%d", who)
	case "batch":
		m["a"], m["d"] = fmt.Sprintf("x%d", who), fmt.Sprintf("x%d", who)
	case "get":
		return "a=" + m["a"]
	case "scan", "checkpoint":
		return renderMap(m)
	case "snapget":
		return "b=" + m["b"]
	case "ingest":
		m["e"] = fmt.Sprintf("ing%d", who)
	case "excise":
		delete(m, "b")
	case "ingestexcise":
		m["b"] = fmt.Sprintf("ie%d", who)
	case "ingestc":
		m["c"] = fmt.Sprintf("ingc%d", who)
	case "setc":
		m["c"] = fmt.Sprintf("sc%d", who)
	case "efos":
		return renderMap(m)
	}
	return ""
}

// run executes the thread's operations: "x>y" is the sequence x, y (results joined by " | ").
func (s *pairH) run(who int) {
	var results []string
	for _, op := range strings.Split(s.ops[who], ">") {
		s.res[who] = ""
		if err := s.runOp(who, op); err != nil {
			s.errs[who] = err
			break
		}
		results = append(results, s.res[who])
	}
	s.res[who] = strings.Join(results, " | ")
	s.done[who] = true
}

func (s *pairH) runOp(who int, op string) error {
	d := s.x.D
	var err error
	switch op {
	case "set":
		err = d.Set([]byte("b"), []byte(fmt.Sprintf("s%d", who)), pebble.NoSync)
	case "setsync":
		// a synced write reaches the WAL file before it returns (an unsynced one may stay in the
		// log writer's buffer, where a checkpoint copying WAL files cannot see it)
		err = d.Set([]byte("b"), []byte(fmt.Sprintf("s%d", who)), pebble.Sync)
	case "batch":
		b := d.NewBatch()
		b.Set([]byte("a"), []byte(fmt.Sprintf("x%d", who)), nil)
		b.Set([]byte("d"), []byte(fmt.Sprintf("x%d", who)), nil)
		err = d.Apply(b, pebble.NoSync)
		b.Close()
	case "get":
		v, c, e := d.Get([]byte("a"))
		if e == nil {
			s.res[who] = "a=" + string(v)
			c.Close()
		} else if e == pebble.ErrNotFound {
			s.res[who] = "a="
		}
		if e != pebble.ErrNotFound {
			err = e
		}
	case "scan":
		r, e := scan(d, false)
		s.res[who], err = render(r), e
	case "snapget":
		sn := d.NewSnapshot()
		v, c, e := sn.Get([]byte("b"))
		if e == nil {
			s.res[who] = "b=" + string(v)
			c.Close()
		} else if e == pebble.ErrNotFound {
			s.res[who] = "b="
		} else {
			err = e
		}
		sn.Close()
	case "metrics":
		_ = d.Metrics().String()
	case "flush":
		err = d.Flush()
	case "compact":
		err = d.Compact(context.Background(), []byte("a"), []byte("z"), false)
	case "ingest":
		err = d.Ingest(context.Background(), []string{s.ssts[fmt.Sprintf("%d/ingest", who)]})
	case "excise":
		err = d.Excise(context.Background(), pebble.KeyRange{Start: []byte("b"), End: []byte("c")})
	case "checkpoint":
		err = d.Checkpoint(fmt.Sprintf("ck%d", who), pebble.WithFlushedWAL())
	case "ingestc":
		err = d.Ingest(context.Background(), []string{s.ssts[fmt.Sprintf("%d/ingestc", who)]})
	case "setc":
		err = d.Set([]byte("c"), []byte(fmt.Sprintf("sc%d", who)), pebble.NoSync)
	case "ingestexcise":
		_, err = d.IngestAndExcise(context.Background(), []string{s.ssts[fmt.Sprintf("%d/ingestexcise", who)]}, nil, nil, pebble.KeyRange{Start: []byte("b"), End: []byte("c")})
	case "efos":
		// an eventually-file-only snapshot over the whole key space, read at once
		e := d.NewEventuallyFileOnlySnapshot([]pebble.KeyRange{{Start: []byte("a"), End: []byte("z")}})
		r, e2 := scan(e, false)
		s.res[who], err = render(r), e2
		if cerr := e.Close(); err == nil {
			err = cerr
		}
	}
	return err
}

func (s *pairH) Threads() []func() {
	return []func(){func() { s.run(0) }, func() { s.run(1) }}
}

func (s *pairH) Finish() {
	r, err := scan(s.x.D, false)
	s.final, s.ferr = render(r), err
	if err == nil {
		// Get must agree with the scan for every key (Get stops at the newest flushable that has
		// the key, an iterator merges by sequence number: a flushable queue out of sequence-number
		// order makes them disagree)
		have := map[string]string{}
		for _, kv := range r {
			have[kv.K] = kv.V
		}
		for _, k := range []string{"a", "b", "c", "d", "e"} {
			v, c, gerr := s.x.D.Get([]byte(k))
			got, present := "", false
			if gerr == nil {
				got, present = string(v), true
				c.Close()
			} else if gerr != pebble.ErrNotFound {
				s.ferr = gerr
				break
			}
			if w, ok := have[k]; ok != present || w != got {
				s.ferr = fmt.Errorf("Get(%s)=%q (present=%v) but the scan shows %q (present=%v)", k, got, present, w, ok)
				break
			}
		}
	}
	if s.ferr == nil {
		s.ferr = s.x.D.CheckLevels(nil)
	}
	s.close = s.x.D.Close()
	s.closed = true
}

func (s *pairH) Teardown(deadlocked bool) {
	if deadlocked || !s.closed {
		return
	}
	// checkpoints are judged by opening them
	for who, op := range s.ops {
		if op == "checkpoint" && s.errs[who] == nil && s.done[who] {
			y, err := hx.Open(s.mem, fmt.Sprintf("ck%d", who), hx.Config{Name: "pairs"})
			if err != nil {
				s.errs[who] = fmt.Errorf("checkpoint does not open: %w", err)
				continue
			}
			r, err := scan(y.D, false)
			s.res[who] = render(r)
			if err != nil {
				s.errs[who] = err
			}
			y.D.Close()
		}
	}
}

func judgePair(hh vsched.Harness, x *vsched.Exec) (string, string, string) {
	s := hh.(*pairH)
	for who := 0; who < 2; who++ {
		if !s.done[who] {
			return "hang", "operation-did-not-return", s.ops[who]
		}
		if s.errs[who] != nil {
			return "error", "operation-error", fmt.Sprintf("%s: %v", s.ops[who], s.errs[who])
		}
	}
	if s.ferr != nil {
		return "final", "final-read-or-checklevels", s.ferr.Error()
	}
	if s.close != nil {
		return "close", "close-error", s.close.Error()
	}
	out := fmt.Sprintf("%s->[%s] %s->[%s] final{%s}", s.ops[0], s.res[0], s.ops[1], s.res[1], s.final)
	// allowed: every interleaving of the two threads' operation sequences (each operation atomic)
	seqs := [2][]string{strings.Split(s.ops[0], ">"), strings.Split(s.ops[1], ">")}
	var allowed []string
	var orders [][]int
	var gen func(i, j int, cur []int)
	gen = func(i, j int, cur []int) {
		if i == len(seqs[0]) && j == len(seqs[1]) {
			orders = append(orders, append([]int{}, cur...))
			return
		}
		if i < len(seqs[0]) {
			gen(i+1, j, append(cur, 0))
		}
		if j < len(seqs[1]) {
			gen(i, j+1, append(cur, 1))
		}
	}
	gen(0, 0, nil)
	for _, order := range orders {
		m := pairModel0()
		var res [2][]string
		var next [2]int
		for _, who := range order {
			res[who] = append(res[who], pairApplyModel(seqs[who][next[who]], who, m))
			next[who]++
		}
		exp := fmt.Sprintf("%s->[%s] %s->[%s] final{%s}", s.ops[0], strings.Join(res[0], " | "), s.ops[1], strings.Join(res[1], " | "), renderMap(m))
		if exp == out {
			return out, "", ""
		}
		allowed = append(allowed, exp)
	}
	return out, "not-equivalent-to-a-sequential-order", fmt.Sprintf("observed %s; the sequential orders give %q", out, allowed)
}

func pairScenarios() []d1x.Scenario {
	heavy := map[string]bool{"flush": true, "compact": true, "ingest": true, "excise": true, "checkpoint": true}
	var sc []d1x.Scenario
	for i, a := range pairOps {
		for _, b := range pairOps[i:] {
			a, b := a, b
			qb, tb := 1, 2
			w := 4.0
			if heavy[a] || heavy[b] {
				qb, tb = 0, 1
				w = 1
			}
			sc = append(sc, d1x.Scenario{Name: "pair-" + a + "+" + b, QuickBound: qb, ThoroughBound: tb, Weight: w, Judge: judgePair, MaxSteps: 400000,
				New: func() vsched.Harness { return &pairH{ops: [2]string{a, b}} }})
		}
	}
	// Targeted extras: file-only snapshots and ingest-and-excise against the operations they
	// synchronise with, and a reader-like operation (checkpoint, file-only snapshot) against a
	// SEQUENCE of two writes on the other thread - it must observe a prefix of that sequence.
	for _, e := range [][2]string{
		{"checkpoint", "ingest>setsync"}, {"checkpoint", "setsync>ingest"}, {"checkpoint", "excise>setsync"},
		{"efos", "ingestexcise"}, {"efos", "excise"}, {"efos", "ingest>setsync"}, {"efos", "flush"}, {"efos", "batch"},
		{"ingestc", "setc"}, {"ingestc", "batch"}, {"ingestc", "flush"}, {"ingestc", "scan"},
		{"ingestexcise", "scan"}, {"ingestexcise", "snapget"}, {"ingestexcise", "set"}, {"ingestexcise", "flush"}, {"ingestexcise", "checkpoint"},
	} {
		e := e
		sc = append(sc, d1x.Scenario{Name: "pair-" + e[0] + "+" + e[1], QuickBound: 0, ThoroughBound: 1, Weight: 1, Judge: judgePair, MaxSteps: 400000,
			New: func() vsched.Harness { return &pairH{ops: e} }})
	}
	return sc
}

func scenarios1(prop string) []d1x.Scenario {
	if prop == "C22-conc" {
		return crashConcScenarios()
	}
	if prop == "C07-conc" {
		// C07 at DB level for the paths the commit-pipeline seam does not contain: ingestion allocates
		// its sequence number through AllocateSeqNum and, when it overlaps the memtable, writes its own
		// WAL record, rotates the memtable and queues a flushable - concurrently with ordinary
		// commits of the same key. Afterwards Get and a scan must agree and equal a sequential order.
		mkp := func(a, b string, qb, tb int, w float64) d1x.Scenario {
			return d1x.Scenario{Name: "pair-" + a + "+" + b, QuickBound: qb, ThoroughBound: tb, Weight: w, Judge: judgePair, MaxSteps: 400000,
				New: func() vsched.Harness { return &pairH{ops: [2]string{a, b}} }}
		}
		return []d1x.Scenario{
			mkp("ingestc", "setc", 0, 2, 8),
			mkp("ingestc", "setc>get", 0, 1, 1),
			mkp("ingestc", "batch", 0, 1, 1),
			mkp("ingest", "setc", 0, 1, 1),
			mkp("ingestexcise", "set", 0, 1, 1),
		}
	}
	if len(prop) > 3 {
		prop = prop[:3] // "C04-conc" run on its own
	}
	if prop == "C42" {
		return pairScenarios()
	}
	if prop == "C14" {
		return bgScenarios()
	}
	if prop == "C47" {
		// C47's concurrent half: a reader (file-only snapshot, iterator scan, snapshot read) is
		// created, used and CLOSED while a flush / compaction installs a new version; afterwards
		// DB.Close must return no error (a version reference leaked by a racing Close of the reader
		// shows up as "leaked iterators")
		mkp := func(a, b string, qb, tb int, w float64) d1x.Scenario {
			return d1x.Scenario{Name: "pair-" + a + "+" + b, QuickBound: qb, ThoroughBound: tb, Weight: w, Judge: judgePair, MaxSteps: 400000,
				New: func() vsched.Harness { return &pairH{ops: [2]string{a, b}} }}
		}
		return []d1x.Scenario{
			mkp("efos", "flush", 0, 2, 40),
			mkp("efos", "batch>flush", 0, 1, 1),
			mkp("scan", "flush", 0, 1, 1),
			mkp("snapget", "compact", 0, 1, 1),
			mkp("efos", "compact", 0, 1, 1),
		}
	}
	if prop == "C37" || prop == "C38" {
		// the concurrency halves of C37 / C38, run as sub-checks of those properties: the reader-like
		// operation against the writes it synchronises with, preemption bound 1 already in the quick
		// tier for the sharpest pair
		mkp := func(a, b string, qb, tb int, w float64) d1x.Scenario {
			return d1x.Scenario{Name: "pair-" + a + "+" + b, QuickBound: qb, ThoroughBound: tb, Weight: w, Judge: judgePair, MaxSteps: 400000,
				New: func() vsched.Harness { return &pairH{ops: [2]string{a, b}} }}
		}
		if prop == "C38" {
			return []d1x.Scenario{
				mkp("checkpoint", "ingest>setsync", 1, 2, 30),
				mkp("checkpoint", "setsync>ingest", 0, 1, 1),
				mkp("checkpoint", "excise>setsync", 0, 1, 1),
				mkp("checkpoint", "ingestexcise", 0, 1, 1),
				mkp("checkpoint", "batch>flush", 0, 1, 1),
			}
		}
		return []d1x.Scenario{
			mkp("efos", "ingestexcise", 1, 2, 40),
			mkp("efos", "excise", 0, 1, 1),
			mkp("efos", "ingest>setsync", 0, 1, 1),
			mkp("efos", "flush", 0, 1, 1),
			mkp("efos", "batch>compact", 0, 1, 1),
		}
	}
	nowal := hx.Config{Name: "nowal", DisableWAL: true}
	wal := hx.Config{Name: "wal"}
	small := hx.Config{Name: "tinymem-nowal", DisableWAL: true, MemTableSize: 64 << 10}
	B := func(keys ...string) batchSpec { return batchSpec{keys: keys} }
	var sc []d1x.Scenario
	if prop == "C06" {
		sc = append(sc,
			mk(scen{name: "disjoint-2x2-iterfwd", cfg: nowal, pre: []string{"0", "z"}, batches: []batchSpec{B("a", "c"), B("b", "d")}, readers: []string{"iter-fwd"}}, 1, 2, 2),
			mk(scen{name: "same-keys-2x2-iterfwd", cfg: nowal, pre: []string{"0", "z"}, batches: []batchSpec{B("a", "b"), B("a", "b")}, readers: []string{"iter-fwd"}}, 1, 2, 1),
			mk(scen{name: "disjoint-2x2-snapget", cfg: nowal, pre: []string{"0", "z"}, batches: []batchSpec{B("a", "c"), B("b", "d")}, readers: []string{"snap-get"}}, 1, 2, 1),
			mk(scen{name: "disjoint-2x2-iterbwd", cfg: nowal, pre: []string{"0", "z"}, batches: []batchSpec{B("a", "c"), B("b", "d")}, readers: []string{"iter-bwd"}}, 1, 2, 1),
			mk(scen{name: "disjoint-3x2-iterfwd", cfg: nowal, batches: []batchSpec{B("a", "d"), B("b", "e"), B("c", "f")}, readers: []string{"iter-fwd"}}, 0, 1, 1),
			mk(scen{name: "wal-sync-disjoint-2x2-iterfwd", cfg: wal, batches: []batchSpec{{keys: []string{"a", "c"}, sync: true}, {keys: []string{"b", "d"}, sync: true}}, readers: []string{"iter-fwd"}}, 1, 1, 1),
			mk(scen{name: "flushable-big-batch", cfg: small, batches: []batchSpec{{keys: []string{"a", "c"}, big: true}, B("b", "d")}, readers: []string{"iter-fwd"}}, 0, 1, 1),
			mk(scen{name: "point+rangekey-batch-iterkr", cfg: nowal, pre: []string{"0"}, batches: []batchSpec{{keys: []string{"p"}, rk: true}, B("q")}, readers: []string{"iterkr-fwd"}}, 1, 2, 2),
			mk(scen{name: "set+delete-batches", cfg: nowal, preL0: []string{"a", "b"}, batches: []batchSpec{{keys: []string{"c"}, del: []string{"a"}}, {keys: []string{"d"}, del: []string{"b"}}}, readers: []string{"snap-fwd"}}, 1, 2, 1),
		)
	} else if prop == "C04" {
		sc = append(sc,
			mk(scen{name: "iter-rescan-2x2-disjoint", cfg: nowal, pre: []string{"0", "z"}, batches: []batchSpec{B("a", "c"), B("b", "d")}, readers: []string{"iter-rescan"}}, 1, 2, 2),
			mk(scen{name: "iter-rescan-3key-batch", cfg: nowal, pre: []string{"0"}, batches: []batchSpec{B("a", "m", "y")}, readers: []string{"iter-rescan"}}, 1, 2, 2),
			mk(scen{name: "iter-rescan-flushable", cfg: small, batches: []batchSpec{{keys: []string{"a", "c"}, big: true}}, readers: []string{"iter-rescan"}}, 0, 1, 1),
		)
	} else { // C07
		sc = append(sc,
			mk(scen{name: "ryw-adjacent-keys-iterbwd", cfg: nowal, pre: []string{"0", "z"}, batches: []batchSpec{B("b"), B("c")}, readers: []string{"iter-bwd"}}, 2, 2, 2),
			mk(scen{name: "ryw-adjacent-keys-iterfwd", cfg: nowal, pre: []string{"0", "z"}, batches: []batchSpec{B("b"), B("c")}, readers: []string{"iter-fwd"}}, 2, 2, 1),
			mk(scen{name: "ryw-get", cfg: nowal, pre: []string{"0", "z"}, batches: []batchSpec{B("b"), B("b", "c")}, readers: []string{"get"}}, 1, 2, 1),
			mk(scen{name: "ryw-two-reads-monotone", cfg: nowal, batches: []batchSpec{B("a"), B("b")}, readers: []string{"iter-fwd-twice"}}, 1, 2, 1),
			mk(scen{name: "ryw-3-committers-snapfwd", cfg: nowal, batches: []batchSpec{B("a"), B("b"), B("a", "c")}, readers: []string{"snap-fwd"}}, 1, 1, 1),
			mk(scen{name: "ryw-wal-sync", cfg: wal, batches: []batchSpec{{keys: []string{"a"}, sync: true}, {keys: []string{"b"}, sync: true}}, readers: []string{"snap-bwd"}}, 1, 1, 1),
		)
	}
	return sc
}

func TestCheck(t *testing.T) {
	vlib.Main(t, "C06", func(c *vlib.Ctx) {
		d1x.Run(t, c, scenarios(c.Dispatch(), c.Thorough()))
	})
}
