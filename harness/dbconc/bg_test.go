package dbconc

import (
	"fmt"

	"github.com/cockroachdb/pebble"
	"github.com/cockroachdb/pebble/internal/base"
	"github.com/cockroachdb/pebble/internal/verif/d1x"
	"github.com/cockroachdb/pebble/internal/verif/hx"
	"github.com/cockroachdb/pebble/internal/verif/vsched"
	"github.com/cockroachdb/pebble/vfs"
)

// C14 under the controlled scheduler: ONE user thread runs a short history on a DB with automatic
// compactions and table statistics on, and reads the whole state (Get of every key, forward and
// backward scan) after every operation, against the sequential model. Everything the operations
// start in the background - the flush, the compactions it makes eligible (default, move, elision-
// only, delete-only), the table-stats job that computes the deletion hints - is a managed thread:
// every schedule within the preemption bound of the user thread and the background jobs is
// explored, so "the stats job finishes while the compaction that consumes its table is still
// running" is a schedule like any other, not a matter of timing.

type bgScen struct {
	name string
	cfg  hx.Config
	pre  []hx.Op // applied in Setup, each followed by an idle wait (unmanaged)
	hist []hx.Op
	snap int // take a snapshot before operation snap (-1: none); it is re-read after every later step
}

type bgH struct {
	sc     bgScen
	x      *hx.X
	m      *hx.Model
	snapM  *hx.Model
	viol   string
	class  string
	done   bool
	closed bool
	cerr   error
	kinds  map[string]int
}

var bgUniverse = []string{"a", "b", "c", "e", "n"}
var bgBounds = []string{"a", "b", "c", "e", "n", "z"}

func (s *bgH) Setup() {
	x, err := hx.Open(vfs.NewMem(), "db", s.sc.cfg)
	if err != nil {
		panic(err)
	}
	s.x = x
	s.m = hx.NewModel(bgBounds...)
	for i, op := range s.sc.pre {
		if err := x.Apply(1000+i, op); err != nil {
			panic(err)
		}
		s.m.Apply(op, fmt.Sprintf("v%d", 1000+i))
		x.D.VerifWaitIdle()
	}
	for i, op := range s.sc.hist {
		if op.K == "ingest" || op.K == "ingestexcise" {
			if err := x.Prebuild(i, op); err != nil {
				panic(err)
			}
		}
	}
}

func (s *bgH) fail(class, msg string) {
	if s.viol == "" {
		s.class, s.viol = class, msg
	}
}

func (s *bgH) Threads() []func() {
	return []func(){func() {
		var snap *pebble.Snapshot
		for i, op := range s.sc.hist {
			if i == s.sc.snap {
				snap = s.x.D.NewSnapshot()
				s.snapM = s.m.Clone()
			}
			if err := s.x.Apply(i, op); err != nil {
				s.fail("op-error", fmt.Sprintf("step %d (%s): %v", i, op, err))
				break
			}
			s.m.Apply(op, fmt.Sprintf("v%d", i))
			if d := hx.CompareLatest(s.x.D, s.m, bgUniverse, false); d != "" {
				s.fail("latest-state-changed-by-background-work", fmt.Sprintf("after step %d (%s), background jobs possibly still running: %s", i, op, d))
				break
			}
			if snap != nil {
				if d := hx.CompareLatest(snap, s.snapM, bgUniverse, false); d != "" {
					s.fail("snapshot-view-changed-by-background-work", fmt.Sprintf("after step %d (%s): %s", i, op, d))
					break
				}
			}
		}
		if snap != nil {
			snap.Close()
		}
		s.done = true
	}}
}

// Finish lets all background work drain (still scheduled by the explorer, but no longer branched
// on), then reads once more.
func (s *bgH) Finish() {
	s.x.D.VerifWaitIdle()
	if s.viol == "" {
		if d := hx.CompareLatest(s.x.D, s.m, bgUniverse, false); d != "" {
			s.fail("latest-state-changed-by-background-work", "after all background work finished: "+d)
		}
	}
	if s.viol == "" {
		if err := s.x.D.CheckLevels(nil); err != nil {
			s.fail("checklevels", err.Error())
		}
	}
	if s.viol == "" {
		// every table backing and blob file of the current version must exist
		v, release := s.x.D.VerifPinnedVersion()
		for l := range v.Levels {
			for m := range v.Levels[l].All() {
				name := s.x.FS.PathJoin("db", base.MakeFilename(base.FileTypeTable, m.TableBacking.DiskFileNum))
				if _, err := s.x.FS.Stat(name); err != nil {
					s.fail("live-file-deleted", fmt.Sprintf("table %s of the current version (backing %s): %v", m.TableNum, name, err))
				}
			}
		}
		release()
	}
	s.kinds = map[string]int{}
	mt := s.x.D.Metrics()
	s.kinds["default"] = int(mt.Compact.DefaultCount)
	s.kinds["delete-only"] = int(mt.Compact.DeleteOnlyCount)
	s.kinds["elision-only"] = int(mt.Compact.ElisionOnlyCount)
	s.kinds["move"] = int(mt.Compact.MoveCount)
	s.cerr = s.x.D.Close()
	s.closed = true
}

func (s *bgH) Teardown(bool) {}

func judgeBG(hh vsched.Harness, x *vsched.Exec) (string, string, string) {
	s := hh.(*bgH)
	if !s.done || !s.closed {
		return "hang", "history-or-close-did-not-return", fmt.Sprintf("done=%v closed=%v", s.done, s.closed)
	}
	if s.viol != "" {
		return "bad", s.class, s.viol
	}
	if s.cerr != nil {
		return "close", "close-error", s.cerr.Error()
	}
	return fmt.Sprintf("compactions default=%d move=%d delete-only=%d elision-only=%d", s.kinds["default"], s.kinds["move"], s.kinds["delete-only"], s.kinds["elision-only"]), "", ""
}

func bgScenarios() []d1x.Scenario {
	set := func(k string) hx.Op { return hx.Op{K: "set", Key: k} }
	flush := hx.Op{K: "flush"}
	compact := hx.Op{K: "compact"}
	// Pebble's default thresholds except an L0 threshold of 1 (every flushed table is compacted),
	// table statistics on: deletion hints and delete-only compactions are live
	cfg := hx.Config{Name: "auto-l0-1-tablestats", AutoL0: true, TableStats: true}
	old := []hx.Op{set("b"), set("n"), flush, compact}
	mkb := func(sc bgScen, qb, tb int, w float64) d1x.Scenario {
		return d1x.Scenario{Name: sc.name, QuickBound: qb, ThoroughBound: tb, Weight: w, Judge: judgeBG, MaxSteps: 2000000,
			New: func() vsched.Harness { return &bgH{sc: sc} }}
	}
	// default thresholds (no L0 compaction of a single table), delete-only compactions may excise:
	// a wide tombstone over a prefix of the one L6 table makes an excising delete-only compaction
	// eligible, which an ingest-and-excise in the middle of that table then cancels
	cfgEx := hx.Config{Name: "default-thresholds-tablestats-delonly-excise", AutoDefault: true, TableStats: true, DelOnlyExcise: true}
	wide := []hx.Op{set("a"), set("b"), set("c"), set("e"), set("n"), flush, compact}
	ingEx := hx.Op{K: "ingestexcise", Key: "e", End: "n", Sub: []hx.Op{{K: "set", Key: "e"}}}
	return []d1x.Scenario{
		mkb(bgScen{name: "bg-delrange-flush-ingestexcise-cancels-excising-compaction", cfg: cfgEx, pre: wide, snap: -1,
			hist: []hx.Op{{K: "delrange", Key: "a", End: "c"}, flush, ingEx}}, 0, 1, 3),
		// a key written after a DeleteRange, flushed together with it over old data in L6
		mkb(bgScen{name: "bg-delrange-set-flush", cfg: cfg, pre: old, snap: -1,
			hist: []hx.Op{{K: "delrange", Key: "a", End: "z"}, set("e"), flush}}, 0, 1, 3),
		// the same with a snapshot taken before the DeleteRange
		mkb(bgScen{name: "bg-snap-delrange-set-flush", cfg: cfg, pre: old, snap: 0,
			hist: []hx.Op{{K: "delrange", Key: "a", End: "z"}, set("e"), flush}}, 0, 1, 2),
		// point tombstone over L6, then the key again
		mkb(bgScen{name: "bg-del-flush-set-flush", cfg: cfg, pre: old, snap: -1,
			hist: []hx.Op{{K: "del", Key: "b"}, flush, set("b"), flush}}, -1, 0, 2), // thorough only: two flushes, ~10^5 hand-off orders
		// two flushes in a row: the second one's compaction meets the first one's output
		mkb(bgScen{name: "bg-delrange-flush-set-flush", cfg: cfg, pre: old, snap: -1,
			hist: []hx.Op{{K: "delrange", Key: "a", End: "c"}, flush, set("a"), set("n"), flush}}, -1, 0, 2), // thorough only
		// one flush: a point tombstone and a newer key over old data
		mkb(bgScen{name: "bg-del-set-flush", cfg: cfg, pre: old, snap: -1,
			hist: []hx.Op{{K: "del", Key: "b"}, set("e"), flush}}, 0, 1, 1),
		// range deletion only (the flushed table is all tombstone: delete-only / elision-only territory)
		mkb(bgScen{name: "bg-snap-delrange-flush", cfg: cfg, pre: old, snap: 0,
			hist: []hx.Op{{K: "delrange", Key: "a", End: "z"}, flush, set("c")}}, 0, 1, 1),
	}
}
