package dbconc

import (
	"context"
	"fmt"
	"sort"
	"strings"

	"github.com/cockroachdb/pebble"
	"github.com/cockroachdb/pebble/internal/verif/d1x"
	"github.com/cockroachdb/pebble/internal/verif/hx"
	"github.com/cockroachdb/pebble/internal/verif/vsched"
	"github.com/cockroachdb/pebble/vfs"
	"github.com/cockroachdb/pebble/vfs/errorfs"
)

// Crash points x schedules (sub-check C22-conc of C10 and C22). Two user threads on a DB with the
// WAL on, over a crashable MemFS: before EVERY mutating FS call of every managed thread the strict
// crash image (nothing unsynced survives) is cloned together with the set of writes acknowledged as
// synced at that moment. After the execution every distinct image is recovered with a plain Open:
// it must open, and every write that had been acknowledged as synced when the image was taken must
// be there. The version edit of a flush is written with DB.mu released, so whatever another thread
// does in that window (close an iterator, which deletes obsolete files; rotate the memtable, which
// recycles an obsolete WAL) is interleaved with it under the scheduler.

type ccImage struct {
	fs    *vfs.MemFS
	at    string
	acked []string
}

type ccH struct {
	name   string
	x      *hx.X
	mem    *vfs.MemFS
	it     *pebble.Iterator
	images []ccImage
	seen   map[uint64]bool
	acked  []string
	errs   []string
	done   [2]bool
	closed bool
	t1     func(s *ccH)
	viol   string
	class  string
	nimg   int
}

func (s *ccH) snapshotImage(op errorfs.Op) {
	us := s.mem.VerifCrashUnits()
	img := s.mem.VerifCrashClone(us, make([]bool, len(us)))
	h := img.VerifHash()
	key := h ^ uint64(len(s.acked))*0x9e3779b97f4a7c15
	if s.seen[key] {
		return
	}
	s.seen[key] = true
	s.images = append(s.images, ccImage{img, fmt.Sprintf("before %v %s", op.Kind, op.Path), append([]string(nil), s.acked...)})
}

func (s *ccH) Setup() {
	s.mem = vfs.NewCrashableMem()
	s.seen = map[uint64]bool{}
	fs := errorfs.Wrap(s.mem, errorfs.InjectorFunc(func(op errorfs.Op) error {
		if !op.Kind.IsWrite() {
			return nil
		}
		if t := vsched.Cur(); t != nil {
			t.BeginAtomic()
			s.snapshotImage(op)
			t.EndAtomic()
		}
		return nil
	}))
	x, err := hx.Open(fs, "db", hx.Config{Name: "crashconc"})
	if err != nil {
		panic(err)
	}
	x.FS = s.mem
	s.x = x
	must := func(err error) {
		if err != nil {
			panic(err)
		}
	}
	must(x.D.Set([]byte("a"), []byte("init"), pebble.Sync))
	must(x.D.Flush())
	// an iterator that pins the current version: closing it later runs deleteObsoleteFiles
	it, err := x.D.NewIter(nil)
	must(err)
	s.it = it
	// ... and make the tables it pins obsolete: overwrite, flush, compact
	must(x.D.Set([]byte("a"), []byte("init2"), pebble.Sync))
	must(x.D.Set([]byte("b"), []byte("init"), pebble.Sync))
	must(x.D.Flush())
	must(x.D.Compact(context.Background(), []byte("a"), []byte("z"), false))
	x.D.VerifWaitIdle()
	s.acked = []string{"a=init2", "b=init"}
}

func (s *ccH) Threads() []func() {
	return []func(){
		func() {
			// a synced write, then the flush that makes its WAL obsolete
			if err := s.x.D.Set([]byte("k"), []byte("kv"), pebble.Sync); err != nil {
				s.errs = append(s.errs, "Set(k): "+err.Error())
			} else {
				s.acked = append(s.acked, "k=kv")
			}
			if err := s.x.D.Flush(); err != nil {
				s.errs = append(s.errs, "Flush: "+err.Error())
			}
			s.done[0] = true
		},
		func() { s.t1(s); s.done[1] = true },
	}
}

func (s *ccH) Finish() {
	if s.it != nil {
		s.it.Close()
	}
	s.x.D.VerifWaitIdle()
	if err := s.x.D.Close(); err != nil {
		s.errs = append(s.errs, "Close: "+err.Error())
	}
	s.closed = true
}

func (s *ccH) Teardown(deadlocked bool) {
	if deadlocked || !s.closed {
		return
	}
	s.nimg = len(s.images)
	for _, im := range s.images {
		y, err := hx.Open(im.fs, "db", hx.Config{Name: "crashconc"})
		if err != nil {
			s.class, s.viol = "crash-image-does-not-open", fmt.Sprintf("strict crash image taken %s (acknowledged synced: %v): %v", im.at, im.acked, err)
			return
		}
		r, rerr := scan(y.D, false)
		y.D.Close()
		if rerr != nil {
			s.class, s.viol = "crash-image-read-error", fmt.Sprintf("strict crash image taken %s: %v", im.at, rerr)
			return
		}
		have := map[string]bool{}
		for _, kv := range r {
			have[kv.K+"="+kv.V] = true
		}
		for _, a := range im.acked {
			if !have[a] {
				s.class, s.viol = "synced-write-lost-in-crash-image", fmt.Sprintf("strict crash image taken %s recovers {%s}; %s had been acknowledged as synced", im.at, render(r), a)
				return
			}
		}
	}
}

func judgeCC(hh vsched.Harness, x *vsched.Exec) (string, string, string) {
	s := hh.(*ccH)
	if !s.done[0] || !s.done[1] || !s.closed {
		return "hang", "operation-did-not-return", fmt.Sprintf("done=%v closed=%v", s.done, s.closed)
	}
	if len(s.errs) > 0 {
		sort.Strings(s.errs)
		return "error", "operation-error", strings.Join(s.errs, "; ")
	}
	if s.viol != "" {
		return "bad", s.class, s.viol
	}
	return fmt.Sprintf("%d distinct crash images recovered", s.nimg), "", ""
}

func crashConcScenarios() []d1x.Scenario {
	mkc := func(name string, t1 func(s *ccH), qb, tb int, w float64) d1x.Scenario {
		return d1x.Scenario{Name: name, QuickBound: qb, ThoroughBound: tb, Weight: w, Judge: judgeCC, MaxSteps: 2000000,
			New: func() vsched.Harness { return &ccH{name: name, t1: t1} }}
	}
	return []d1x.Scenario{
		// the other thread closes the pinning iterator (obsolete files are deleted), writes and
		// rotates the memtable (an obsolete WAL is recycled into the new one)
		mkc("cc-flush+iterclose-set-asyncflush", func(s *ccH) {
			it := s.it
			s.it = nil
			if err := it.Close(); err != nil {
				s.errs = append(s.errs, "iter.Close: "+err.Error())
			}
			if err := s.x.D.Set([]byte("z"), []byte("zv"), pebble.NoSync); err != nil {
				s.errs = append(s.errs, "Set(z): "+err.Error())
			}
			if _, err := s.x.D.AsyncFlush(); err != nil {
				s.errs = append(s.errs, "AsyncFlush: "+err.Error())
			}
		}, 0, 2, 12),
		mkc("cc-flush+setsync-flush", func(s *ccH) {
			if err := s.x.D.Set([]byte("z"), []byte("zv"), pebble.Sync); err != nil {
				s.errs = append(s.errs, "Set(z): "+err.Error())
			} else {
				s.acked = append(s.acked, "z=zv")
			}
			if err := s.x.D.Flush(); err != nil {
				s.errs = append(s.errs, "Flush: "+err.Error())
			}
		}, 0, 1, 1),
	}
}
