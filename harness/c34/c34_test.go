// C34: the block cache returns only the latest value for the exact block.
//
// Part 1 (sequential, engine A style): every operation sequence up to the depth bound over a
// 26-symbol alphabet on a one-shard cache that fits 1-2 values, against a plain map oracle.
// Part 2 (engine D1): the read-handle turn-taking protocol of internal/cache under the controlled
// scheduler, all schedules up to the preemption bound.
//
// The package is built instrumented (sync/atomic redirected to scheduler shims); the shims fall
// through while no exploration is active, so part 1 runs as plain code.
package c34

import (
	"context"
	"errors"
	"fmt"
	"os"
	"runtime/debug"
	"strings"
	"testing"
	"unsafe"

	"github.com/cockroachdb/pebble/internal/base"
	"github.com/cockroachdb/pebble/internal/cache"
	"github.com/cockroachdb/pebble/internal/manual"
	"github.com/cockroachdb/pebble/internal/verif/d1x"
	"github.com/cockroachdb/pebble/internal/verif/vlib"
	"github.com/cockroachdb/pebble/internal/verif/vsched"
)

// ------------------------------------------------------------------------------------------------
// Part 1: sequential enumeration

type keyT struct {
	f   base.DiskFileNum
	off uint64
}

// (file1,off0), (file1,off1), (file2,off0)
var keys = []keyT{{1, 0}, {1, 1}, {2, 0}}

const (
	szNormal = 16
	szMid    = 24
	szBig    = -1 // capacity + 8: never fits
)

type sym struct {
	kind string // set get hold rel del evict close resv peek
	h    int    // handle index: 0 = h1, 1 = h2 (same cache, same file numbers)
	k    int    // key index
	f    int    // file number (evict)
	size int    // set: value size class
	n    int    // resv: bytes
	slot int    // resv: reservation slot
}

func (s sym) String() string {
	hn := fmt.Sprintf("h%d", s.h+1)
	kn := func() string { return fmt.Sprintf("(f%d,%d)", keys[s.k].f, keys[s.k].off) }
	switch s.kind {
	case "set":
		sz := "16"
		if s.size == szMid {
			sz = "24"
		} else if s.size == szBig {
			sz = "cap+8"
		}
		return fmt.Sprintf("Set(%s,%s,%sB)", hn, kn(), sz)
	case "get":
		return fmt.Sprintf("Get(%s,%s)+Release", hn, kn())
	case "hold":
		return fmt.Sprintf("GetAndHold(%s,%s)", hn, kn())
	case "peek":
		return fmt.Sprintf("Peek(%s,%s)+Release", hn, kn())
	case "rel":
		return "ReleaseHeld"
	case "del":
		return fmt.Sprintf("Delete(%s,%s)", hn, kn())
	case "evict":
		return fmt.Sprintf("EvictFile(%s,f%d)", hn, s.f)
	case "close":
		return fmt.Sprintf("Close(%s)+NewHandle", hn)
	case "resv":
		return fmt.Sprintf("ReserveToggle(%d)", s.n)
	}
	return "?"
}

// Alphabet, simplest first; the first coreN symbols are the core alphabet (one handle).
var alphabet = []sym{
	{kind: "set", k: 0, size: szNormal},
	{kind: "set", k: 1, size: szNormal},
	{kind: "set", k: 2, size: szNormal},
	{kind: "get", k: 0},
	{kind: "get", k: 1},
	{kind: "get", k: 2},
	{kind: "del", k: 0},
	{kind: "evict", f: 1},
	{kind: "hold", k: 0},
	{kind: "resv", n: 24, slot: 0},
	{kind: "del", k: 1},
	{kind: "evict", f: 2},
	// --- end of core (12)
	{kind: "hold", k: 1},
	{kind: "rel"},
	{kind: "set", h: 1, k: 0, size: szNormal},
	{kind: "get", h: 1, k: 0},
	{kind: "close", h: 1},
	{kind: "evict", h: 1, f: 1},
	{kind: "del", h: 1, k: 0},
	{kind: "hold", h: 1, k: 0},
	{kind: "peek", k: 0},
	{kind: "set", k: 0, size: szBig},
	{kind: "set", k: 1, size: szMid},
	{kind: "resv", n: 64, slot: 1},
	{kind: "del", k: 2},
	{kind: "hold", k: 2},
}

const coreN = 12

// the first midN symbols: core + hold k1, ReleaseHeld, and the second handle's Set/Get/Close/EvictFile
const midN = 18

// SeqCase is the replay artefact of part 1 (Scenario/Choices/Bound belong to part 2, see d1x.Case).
type SeqCase struct {
	Kind     string   `json:"kind,omitempty"` // "seq"
	Cap      int64    `json:"cap,omitempty"`
	Seq      []int    `json:"seq,omitempty"`
	Ops      []string `json:"ops,omitempty"`
	Scenario string   `json:"scenario,omitempty"`
	Choices  []int    `json:"choices,omitempty"`
	Bound    int      `json:"bound,omitempty"`
}

type heldT struct {
	v  *cache.Value
	b  []byte // the slice obtained when the value was acquired
	id int
}

type seqStats struct {
	ops, hits, misses, heldChecks, overshootSeqs int64
	outcomes                                     map[string]int64
}

type seqExec struct {
	cap      int64
	c        *cache.Cache
	h        [2]*cache.Handle
	latest   [2][3]int // value id most recently stored and not known to be gone; 0 = must miss
	why      [2][3]string
	sizes    []int
	nextID   int
	held     []heldT
	resv     [2]func()
	overA    bool  // the current overshoot (if any) is explained by the new-key path
	originSz int64 // size of the entry whose insertion caused it
	prevSize int64
	sawOver  bool
	nontriv  bool
	setSeen  [2][3]bool
	st       *seqStats
	verbose  bool
}

func patByte(id, j int) byte { return byte(id<<4 | j&15) }

func fill(b []byte, id int) {
	for j := range b {
		b[j] = patByte(id, j)
	}
}

func checkBytes(b []byte, id int) bool {
	for j := range b {
		if b[j] != patByte(id, j) {
			return false
		}
	}
	return true
}

func (x *seqExec) out(s string) {
	x.st.outcomes[s]++
}

var lvl = base.MakeLevel(0)

func inUse() int64 { return int64(manual.GetMetrics()[manual.BlockCacheData].InUseBytes) }

// observe compares the result of a Get/Peek with the oracle. v is not released here.
func (x *seqExec) observe(what string, h, k int, v *cache.Value) (class, desc string) {
	if v == nil {
		x.st.misses++
		x.out(what + ":miss")
		if x.latest[h][k] != 0 {
			x.latest[h][k] = 0
			x.why[h][k] = "a miss was observed (evicted)"
		}
		return "", ""
	}
	x.st.hits++
	id := x.latest[h][k]
	b := v.RawBuffer()
	if id == 0 {
		why := x.why[h][k]
		if why == "" {
			why = "never stored"
		}
		got := -1
		if len(b) > 0 {
			got = int(b[0] >> 4)
		}
		return "hit-after-removal", fmt.Sprintf("%s of h%d %v returned a value (id %d, %d bytes) although the oracle says miss: %s", what, h+1, keys[k], got, len(b), why)
	}
	if len(b) != x.sizes[id] || !checkBytes(b, id) {
		return "get-wrong-value", fmt.Sprintf("%s of h%d %v returned % x (%d bytes), want value id %d of %d bytes", what, h+1, keys[k], b, len(b), id, x.sizes[id])
	}
	x.out(what + ":hit")
	return "", ""
}

// verifyHeld re-checks every value the caller still holds: same buffer, same bytes, refcount at
// least the number of holds.
func (x *seqExec) verifyHeld(when string) (class, desc string) {
	for i, hd := range x.held {
		x.st.heldChecks++
		cur := hd.v.RawBuffer()
		if len(cur) != len(hd.b) || unsafe.SliceData(cur) != unsafe.SliceData(hd.b) {
			return "held-value-changed", fmt.Sprintf("%s: held value #%d (id %d): buffer header changed (len %d -> %d)", when, i, hd.id, len(hd.b), len(cur))
		}
		if !checkBytes(hd.b, hd.id) {
			return "held-value-changed", fmt.Sprintf("%s: held value #%d (id %d): bytes changed to % x", when, i, hd.id, hd.b)
		}
		holds := int32(0)
		for _, o := range x.held {
			if o.v == hd.v {
				holds++
			}
		}
		if r := hd.v.VerifRefs(); r < holds {
			return "refcount-low", fmt.Sprintf("%s: held value #%d (id %d) has refcount %d with %d holds outstanding", when, i, hd.id, r, holds)
		}
	}
	return "", ""
}

// churn allocates and frees a few values of the sizes in use so that memory freed too early is
// reused and overwritten (the allocator hands back the most recently freed chunk first).
func (x *seqExec) churn() {
	var p [5]*cache.Value
	p[0] = cache.Alloc(szNormal)
	p[1] = cache.Alloc(szNormal)
	p[2] = cache.Alloc(szNormal)
	p[3] = cache.Alloc(szMid)
	p[4] = cache.Alloc(int(x.cap) + 8)
	for _, v := range p {
		b := v.RawBuffer()
		for j := range b {
			b[j] = 0xEE
		}
	}
	for _, v := range p {
		cache.Free(v)
	}
}

func (x *seqExec) step(s sym) (class, desc string) {
	x.st.ops++
	var present bool
	var setSize int64
	switch s.kind {
	case "set":
		k := keys[s.k]
		pv := x.h[s.h].Peek(k.f, k.off, lvl, cache.CategoryHidden)
		present = pv != nil
		if pv != nil {
			cl, d := x.observe("prepeek", s.h, s.k, pv)
			pv.Release()
			if cl != "" {
				return cl, d
			}
		} else if x.latest[s.h][s.k] != 0 {
			x.latest[s.h][s.k] = 0
		}
		sz := s.size
		if sz == szBig {
			sz = int(x.cap) + 8
		}
		id := x.nextID
		x.nextID++
		x.sizes = append(x.sizes, sz)
		v := cache.Alloc(sz)
		fill(v.RawBuffer(), id)
		x.h[s.h].Set(k.f, k.off, v)
		v.Release()
		x.latest[s.h][s.k] = id
		x.why[s.h][s.k] = ""
		x.setSeen[s.h][s.k] = true
		setSize = int64(sz)
		if present {
			x.out("set:overwrite")
		} else {
			x.out("set:new-key")
		}
	case "get", "hold", "peek":
		k := keys[s.k]
		var v *cache.Value
		if s.kind == "peek" {
			v = x.h[s.h].Peek(k.f, k.off, lvl, cache.CategoryBackground)
		} else {
			v = x.h[s.h].Get(k.f, k.off, lvl, cache.CategorySSTableData)
		}
		if x.setSeen[s.h][s.k] {
			x.nontriv = true
		}
		cl, d := x.observe(s.kind, s.h, s.k, v)
		if cl != "" {
			v.Release()
			return cl, d
		}
		if v != nil {
			if s.kind == "hold" {
				x.held = append(x.held, heldT{v: v, b: v.RawBuffer(), id: x.latest[s.h][s.k]})
			} else {
				v.Release()
			}
		}
	case "rel":
		if cl, d := x.verifyHeld("before ReleaseHeld"); cl != "" {
			return cl, d
		}
		for _, hd := range x.held {
			hd.v.Release()
		}
		x.held = x.held[:0]
	case "del":
		k := keys[s.k]
		x.h[s.h].Delete(k.f, k.off)
		x.latest[s.h][s.k] = 0
		x.why[s.h][s.k] = "deleted"
	case "evict":
		x.h[s.h].EvictFile(base.DiskFileNum(s.f))
		for i, k := range keys {
			if int(k.f) == s.f {
				x.latest[s.h][i] = 0
				x.why[s.h][i] = "file evicted"
			}
		}
	case "close":
		x.h[s.h].Close()
		x.h[s.h] = x.c.NewHandle()
		for i := range keys {
			x.latest[s.h][i] = 0
			x.why[s.h][i] = "handle closed"
		}
	case "resv":
		if x.resv[s.slot] == nil {
			x.resv[s.slot] = x.c.Reserve(s.n)
			x.out("reserve")
		} else {
			x.resv[s.slot]()
			x.resv[s.slot] = nil
			x.out("reserve-release")
		}
	}
	if cl, d := x.verifyHeld("after " + s.String()); cl != "" {
		return cl, d
	}
	x.churn()
	if cl, d := x.verifyHeld("after " + s.String() + " and allocator churn"); cl != "" {
		return cl, d
	}
	// accounted size
	size, max := x.c.Size(), x.c.MaxSize()
	defer func() { x.prevSize = size }()
	if x.resv[0] != nil || x.resv[1] != nil {
		x.overA = false
		return "", ""
	}
	over := size - max
	if over <= 0 {
		x.overA = false
		return "", ""
	}
	x.sawOver = true
	switch {
	case s.kind == "set" && !present && over <= setSize:
		// new-key path: metaAdd evicts before inserting and not after
		x.overA = true
		x.originSz = setSize
		x.out("size-overshoot:new-key")
		return "size-overshoot-new-key-path", fmt.Sprintf("Size()=%d > MaxSize()=%d after %s of a key not present before (overshoot %d <= inserted entry %d)", size, max, s, over, setSize)
	case x.overA && size <= x.prevSize && over <= x.originSz && !(s.kind == "set" && present):
		// the same one-entry overshoot persisting through an operation that does not insert
		x.out("size-overshoot:persisting")
		return "size-overshoot-new-key-path", fmt.Sprintf("Size()=%d > MaxSize()=%d still after %s (one-entry overshoot of an earlier new-key Set, entry %d bytes, not grown)", size, max, s, x.originSz)
	}
	x.overA = false
	return "size-exceeds-capacity", fmt.Sprintf("Size()=%d > MaxSize()=%d after %s (overshoot %d; key present before: %v; previous size %d)", size, max, s, over, present, x.prevSize)
}

// finish tears the cache down while values are still held, then releases them and checks that
// all value memory went back to the allocator.
func (x *seqExec) finish(base0 int64) (class, desc string) {
	for i := range x.resv {
		if x.resv[i] != nil {
			x.resv[i]()
			x.resv[i] = nil
		}
	}
	x.h[0].Close()
	x.h[1].Close()
	if r := x.c.VerifRefs(); r != 1 {
		return "cache-refs", fmt.Sprintf("cache refcount %d after closing all handles, want 1", r)
	}
	x.c.Unref()
	if cl, d := x.verifyHeld("after destroying the cache"); cl != "" {
		return cl, d
	}
	x.churn()
	if cl, d := x.verifyHeld("after destroying the cache and allocator churn"); cl != "" {
		return cl, d
	}
	for _, hd := range x.held {
		hd.v.Release()
	}
	x.held = nil
	if d := inUse() - base0; d != 0 {
		return "value-leak", fmt.Sprintf("%d bytes of value memory still allocated after the cache was destroyed and every held value released", d)
	}
	return "", ""
}

type seqResult struct {
	class, desc string
	step        int // index of the op at which the violation occurred; len(seq) = at teardown
	nontriv     bool
	sawOver     bool
	stateHashes []uint64
}

func runSeq(capacity int64, seq []int, st *seqStats, verbose bool) (res seqResult) {
	x := &seqExec{cap: capacity, st: st, nextID: 1, sizes: []int{0}, verbose: verbose}
	base0 := inUse()
	step := 0
	defer func() {
		if r := recover(); r != nil {
			stk := string(debug.Stack())
			if len(stk) > 1500 {
				stk = stk[:1500]
			}
			res = seqResult{class: "panic", desc: fmt.Sprintf("panic at op %d: %v\n%s", step, r, stk), step: step}
		}
	}()
	x.c = cache.NewWithShards(capacity, 1)
	x.h[0] = x.c.NewHandle()
	x.h[1] = x.c.NewHandle()
	for i, si := range seq {
		step = i
		s := alphabet[si]
		cl, d := x.step(s)
		if verbose {
			sh, sc, stt, ch, cc, ct, nb := x.c.VerifCounts()
			fmt.Printf("  op %d %-28s Size=%d MaxSize=%d hot=%d/%d cold=%d/%d test=%d/%d blocks=%d held=%d %s %s\n", i, s, x.c.Size(), x.c.MaxSize(), ch, sh, cc, sc, ct, stt, nb, len(x.held), cl, d)
		}
		sh, sc, stt, _, _, _, nb := x.c.VerifCounts()
		res.stateHashes = append(res.stateHashes, vlib.Hash(capacity, fmt.Sprint(x.latest), sh, sc, stt, nb, len(x.held)))
		if cl != "" {
			known := cl == "size-overshoot-new-key-path"
			if i == len(seq)-1 || !known {
				// a violation at an inner step is the final step of a shorter enumerated sequence
				res.class, res.desc, res.step = cl, d, i
			}
			if !known {
				res.nontriv, res.sawOver = x.nontriv, x.sawOver
				return res
			}
		}
	}
	step = len(seq)
	cl, d := x.finish(base0)
	if cl != "" {
		res.class, res.desc, res.step = cl, d, len(seq)
	}
	res.nontriv, res.sawOver = x.nontriv, x.sawOver
	return res
}

func opsText(seq []int) []string {
	var s []string
	for _, i := range seq {
		s = append(s, alphabet[i].String())
	}
	return s
}

type family struct {
	name     string
	cap      int64
	k        int // the first k symbols of the alphabet
	minDepth int // sequences shorter than this are part of another family
	depth    int
}

// runSequential enumerates all families within its share of the budget.
func runSequential(c *vlib.Ctx, share float64) {
	start := vsched.RealNow()
	limit := c.BudgetSeconds() * share
	// every sequence builds a fresh cache (about 20 KB of short-lived Go memory): collect less often
	defer debug.SetGCPercent(debug.SetGCPercent(1600))
	var fams []family
	if c.Thorough() {
		fams = []family{
			{"full26-cap40", 40, len(alphabet), 1, 5},
			{"full26-cap20", 20, len(alphabet), 1, 4},
			{"mid18-cap20", 20, midN, 5, 5},
			{"core12-cap40", 40, coreN, 6, 6},
		}
	} else {
		fams = []family{
			{"full26-cap40", 40, len(alphabet), 1, 4},
			{"full26-cap20", 20, len(alphabet), 1, 3},
			{"mid18-cap20", 20, midN, 4, 4},
		}
	}
	st := &seqStats{outcomes: map[string]int64{}}
	var nseq int64
	var scope []string
	seenState := map[uint64]struct{}{}
	for _, f := range fams {
		minDepth := f.minDepth
		n := vlib.SeqCount(f.k, minDepth, f.depth)
		done, complete := 0, true
		for i := 0; i < n; i++ {
			if !c.Mine(i) {
				continue
			}
			if i&1023 == 0 && vsched.RealNow().Sub(start).Seconds() > limit {
				complete = false
				break
			}
			seq := vlib.SeqDecode(i, f.k, minDepth, f.depth)
			r := runSeq(f.cap, seq, st, false)
			done++
			nseq++
			c.Eval(1)
			c.Trans(len(seq))
			for _, h := range r.stateHashes {
				if _, ok := seenState[h]; !ok {
					seenState[h] = struct{}{}
					c.State(h)
				}
			}
			if r.nontriv {
				c.Nontrivial(vlib.Hash("seq", f.cap, fmt.Sprint(seq)))
			}
			if r.sawOver {
				st.overshootSeqs++
			}
			if r.class != "" {
				end := r.step + 1
				if end > len(seq) {
					end = len(seq)
				}
				cs := SeqCase{Kind: "seq", Cap: f.cap, Seq: seq[:end], Ops: opsText(seq[:end])}
				where := fmt.Sprintf("after op %d", r.step)
				if r.step == len(seq) {
					where = "at teardown"
				}
				c.Violation(r.class, fmt.Sprintf("cache of %d bytes, 1 shard; sequence %v; %s: %s", f.cap, cs.Ops, where, r.desc), cs)
			}
			if i%50021 == 7 {
				c.Sample(map[string]any{"part": "sequential", "cap": f.cap, "ops": opsText(seq)})
			}
		}
		if !complete {
			c.Incomplete(fmt.Sprintf("sequential family %s: budget share expired after %d of this shard's sequences (shorter sequences first)", f.name, done))
			scope = append(scope, fmt.Sprintf("%s: INCOMPLETE (%d sequences on this shard)", f.name, done))
			break
		}
		scope = append(scope, fmt.Sprintf("%s: all %d sequences of depth %d..%d over %d symbols", f.name, n, minDepth, f.depth, f.k))
	}
	for k, v := range st.outcomes {
		c.OutcomeN("seq "+k, v)
	}
	c.NoteAdd("seq_sequences", nseq)
	c.NoteAdd("seq_ops", st.ops)
	c.NoteAdd("seq_hits_checked", st.hits)
	c.NoteAdd("seq_misses", st.misses)
	c.NoteAdd("seq_held_value_checks", st.heldChecks)
	c.NoteAdd("seq_sequences_with_size_overshoot", st.overshootSeqs)
	c.Note("scope", scope)
	c.Note("seq_wall_s_shard0", fmt.Sprintf("%.1f", vsched.RealNow().Sub(start).Seconds()))
}

// ------------------------------------------------------------------------------------------------
// Part 2: read-handle turn taking under the controlled scheduler

var errRead = errors.New("injected read error")

type rscen struct {
	rkeys []int    // key index (0 or 1) of each reader thread
	turns [][]bool // per key: outcome of the n-th turn on that key; true = SetReadError (default: value)
	mut   string   // "", "evict", "delete", "set": a further thread acting on key 0
}

type readerRes struct {
	kind    string // "", "value", "err", "ctxerr", "neither"
	id      int
	hit     bool
	hadTurn bool
	done    bool
}

type rh struct {
	sc       rscen
	c        *cache.Cache
	h        *cache.Handle
	base0    int64
	inTurn   [2]int
	turnNo   [2]int
	res      []readerRes
	sets     [2][]int // ids passed to SetReadValue per key, in call order
	mutDone  bool
	viol     [2]string // class, desc: first defect seen by a thread
	ev       int
	setStart [2][]int
	setEnd   [2][]int
	mutStart int
	mutEnd   int
	// teardown observations
	finalChecked bool
	finalID      [2]int // -1 miss
	finalBad     string
	readMapLen   int
	leak         int64
}

var rkeys = []keyT{{1, 0}, {2, 0}}

func (s *rh) fail(class, desc string) {
	if s.viol[0] == "" {
		s.viol = [2]string{class, desc}
	}
}

func (s *rh) Setup() {
	s.base0 = inUse()
	s.c = cache.NewWithShards(1<<20, 1)
	s.h = s.c.NewHandle()
	s.res = make([]readerRes, len(s.sc.rkeys))
}

// point is a scheduling point of the harness itself. A bare Point (and a Yield) leaves the thread's
// history hash unchanged, so the state before and after it would alias in the explorer's state
// cache and the subtree that continues the same thread would be pruned; Observe makes them differ.
func point(kind string, tag uint64) {
	if t := vsched.Cur(); t != nil {
		t.Point(&vsched.Op{Kind: kind})
		t.Observe(tag)
	}
}

func yield(tag uint64) {
	vsched.Yield()
	if t := vsched.Cur(); t != nil {
		t.Observe(tag)
	}
}

// consume checks a value obtained by reader i, keeps it across a scheduling point, re-checks it
// and releases it.
func (s *rh) consume(i int, v *cache.Value) {
	b := v.RawBuffer()
	if len(b) != szNormal {
		s.fail("value-corrupt", fmt.Sprintf("reader %d got a value of %d bytes", i, len(b)))
		v.Release()
		return
	}
	id := int(b[0] >> 4)
	if !checkBytes(b, id) {
		s.fail("value-corrupt", fmt.Sprintf("reader %d got torn bytes % x", i, b))
	}
	s.res[i].id = id
	point("hold", 0x1002)
	cur := v.RawBuffer()
	if len(cur) != len(b) || unsafe.SliceData(cur) != unsafe.SliceData(b) || !checkBytes(b, id) {
		s.fail("held-value-changed", fmt.Sprintf("reader %d: value id %d changed while held (% x)", i, id, b))
	}
	if r := v.VerifRefs(); r < 1 {
		s.fail("refcount-low", fmt.Sprintf("reader %d: value id %d has refcount %d while held", i, id, r))
	}
	v.Release()
}

func (s *rh) reader(i int) func() {
	return func() {
		ki := s.sc.rkeys[i]
		k := rkeys[ki]
		cv, h, _, _, hit, err := s.h.GetWithReadHandle(context.Background(), k.f, k.off, lvl, cache.CategorySSTableData)
		r := &s.res[i]
		r.hit = hit
		switch {
		case err != nil:
			r.kind = "ctxerr"
			if cv != nil {
				cv.Release()
			}
		case cv != nil:
			if h.Valid() {
				s.fail("value-and-handle", fmt.Sprintf("reader %d got both a value and a valid read handle", i))
			}
			r.kind = "value"
			s.consume(i, cv)
		case !h.Valid():
			r.kind = "neither"
		default:
			r.hadTurn = true
			s.inTurn[ki]++
			if s.inTurn[ki] > 1 {
				s.fail("two-turn-holders", fmt.Sprintf("reader %d was granted the turn for key %d while another reader holds it", i, ki))
			}
			t := s.turnNo[ki]
			s.turnNo[ki]++
			isErr := t < len(s.sc.turns[ki]) && s.sc.turns[ki][t]
			// "doing the read": everyone else may run (and queue up behind this reader)
			yield(0x1001)
			s.inTurn[ki]--
			if isErr {
				r.kind = "err"
				h.SetReadError(errRead)
				break
			}
			id := 1 + i + 4*ki // distinct per reader
			v := cache.Alloc(szNormal)
			fill(v.RawBuffer(), id)
			s.sets[ki] = append(s.sets[ki], id)
			s.ev++
			s.setStart[ki] = append(s.setStart[ki], s.ev)
			h.SetReadValue(v)
			s.ev++
			s.setEnd[ki] = append(s.setEnd[ki], s.ev)
			r.kind = "value"
			s.consume(i, v)
		}
		r.done = true
	}
}

const mutID = 13

func (s *rh) mutator() {
	k := rkeys[0]
	s.ev++
	s.mutStart = s.ev
	switch s.sc.mut {
	case "evict":
		s.h.EvictFile(k.f)
	case "delete":
		s.h.Delete(k.f, k.off)
	case "set":
		v := cache.Alloc(szNormal)
		fill(v.RawBuffer(), mutID)
		s.h.Set(k.f, k.off, v)
		v.Release()
	}
	s.ev++
	s.mutEnd = s.ev
	s.mutDone = true
}

func (s *rh) Threads() []func() {
	var fs []func()
	for i := range s.sc.rkeys {
		fs = append(fs, s.reader(i))
	}
	if s.sc.mut != "" {
		fs = append(fs, s.mutator)
	}
	return fs
}

func (s *rh) allDone() bool {
	for _, r := range s.res {
		if !r.done {
			return false
		}
	}
	return s.sc.mut == "" || s.mutDone
}

func (s *rh) Teardown(deadlocked bool) {
	if deadlocked || !s.allDone() {
		return // a stuck or panicked thread may hold locks; the execution is a violation anyway
	}
	s.finalChecked = true
	defer func() {
		if r := recover(); r != nil {
			stk := string(debug.Stack())
			if len(stk) > 1500 {
				stk = stk[:1500]
			}
			s.fail("panic", fmt.Sprintf("panic in the final Get / cache teardown: %v\n%s", r, stk))
		}
	}()
	s.readMapLen = s.c.VerifReadMapLen()
	for ki, k := range rkeys {
		s.finalID[ki] = -1
		if v := s.h.Get(k.f, k.off, lvl, cache.CategorySSTableData); v != nil {
			b := v.RawBuffer()
			if len(b) != szNormal || !checkBytes(b, int(b[0]>>4)) {
				s.finalBad = fmt.Sprintf("final Get of key %d returned corrupt bytes % x", ki, b)
			} else {
				s.finalID[ki] = int(b[0] >> 4)
			}
			v.Release()
		}
	}
	s.h.Close()
	s.c.Unref()
	s.leak = inUse() - s.base0
}

func judgeR(hh vsched.Harness, x *vsched.Exec) (string, string, string) {
	s := hh.(*rh)
	var parts []string
	for i, r := range s.res {
		p := fmt.Sprintf("r%d:%s", i, r.kind)
		if r.kind == "value" {
			p += fmt.Sprintf("(%d", r.id)
			if r.hit {
				p += ",hit"
			}
			if r.hadTurn {
				p += ",own"
			}
			p += ")"
		}
		parts = append(parts, p)
	}
	out := strings.Join(parts, " ") + fmt.Sprintf(" turns=%v final=%v", s.turnNo, s.finalID)
	if s.viol[0] != "" {
		return out, s.viol[0], s.viol[1]
	}
	if !s.finalChecked {
		return out, "thread-not-finished", "a thread did not finish although no deadlock or panic was reported"
	}
	for i, r := range s.res {
		switch r.kind {
		case "value", "err":
		case "ctxerr":
			return out, "spurious-error", fmt.Sprintf("reader %d: GetWithReadHandle returned an error with a background context", i)
		default:
			return out, "no-value-no-handle", fmt.Sprintf("reader %d got neither a value nor a valid read handle (%q)", i, r.kind)
		}
	}
	for ki := range rkeys {
		// which values may a reader of this key see?
		allowed := map[int]bool{}
		for _, id := range s.sets[ki] {
			allowed[id] = true
		}
		if ki == 0 && s.sc.mut == "set" {
			allowed[mutID] = true
		}
		nReaders, nErr := 0, 0
		seen := map[int]bool{}
		for i, r := range s.res {
			if s.sc.rkeys[i] != ki {
				continue
			}
			nReaders++
			if r.kind == "err" {
				nErr++
				continue
			}
			if !allowed[r.id] {
				return out, "foreign-value", fmt.Sprintf("reader %d of key %d saw value id %d which nobody stored for that key (stored: %v)", i, ki, r.id, s.sets[ki])
			}
			seen[r.id] = true
		}
		if nReaders == 0 {
			continue
		}
		quiet := s.sc.mut == "" || ki != 0
		turns := s.turnNo[ki]
		if quiet {
			// no eviction: one successful read serves everybody
			if len(s.sets[ki]) > 1 {
				return out, "duplicate-read", fmt.Sprintf("key %d: %d readers completed SetReadValue (%v) although nothing evicts the block", ki, len(s.sets[ki]), s.sets[ki])
			}
			if len(seen) > 1 {
				return out, "readers-disagree", fmt.Sprintf("key %d: readers saw different values %v", ki, seen)
			}
			// the turn sequence must follow the script: errors until the first value, nothing after it
			firstVal := -1
			for t := 0; t < turns; t++ {
				if !(t < len(s.sc.turns[ki]) && s.sc.turns[ki][t]) {
					firstVal = t
					break
				}
			}
			if firstVal >= 0 && turns != firstVal+1 {
				return out, "turn-after-value", fmt.Sprintf("key %d: %d turns were granted, the value was stored in turn %d", ki, turns, firstVal+1)
			}
			if firstVal < 0 && turns != nReaders {
				return out, "turn-count", fmt.Sprintf("key %d: every read failed, so each of the %d readers needs exactly one turn; %d turns granted", ki, nReaders, turns)
			}
			if nErr != turns-len(s.sets[ki]) {
				return out, "turn-count", fmt.Sprintf("key %d: %d turns, %d values stored, %d errors reported", ki, turns, len(s.sets[ki]), nErr)
			}
			want := -1
			if len(s.sets[ki]) == 1 {
				want = s.sets[ki][0]
			}
			if s.finalID[ki] != want {
				return out, "final-state", fmt.Sprintf("key %d: final Get gives id %d, want %d (-1 = miss)", ki, s.finalID[ki], want)
			}
		} else {
			fin := s.finalID[0]
			last := -1
			if n := len(s.sets[0]); n > 0 {
				last = s.sets[0][n-1]
			}
			switch s.sc.mut {
			case "set":
				if fin != mutID && (fin != last || last < 0) {
					return out, "final-state", fmt.Sprintf("key 0: final Get gives id %d, want the mutator's value %d or the last read value %d", fin, mutID, last)
				}
			default:
				if fin != -1 && fin != last {
					return out, "final-state", fmt.Sprintf("key 0: final Get gives id %d, want a miss or the last stored value %d", fin, last)
				}
				if last >= 0 {
					n := len(s.sets[0])
					if s.mutEnd < s.setStart[0][n-1] && fin != last {
						return out, "final-state", fmt.Sprintf("key 0: %s finished before the last SetReadValue started, final Get gives %d want %d", s.sc.mut, fin, last)
					}
					if s.mutStart > s.setEnd[0][n-1] && fin != -1 {
						return out, "survived-removal", fmt.Sprintf("key 0: %s started after the last SetReadValue returned, but the final Get still hits (id %d)", s.sc.mut, fin)
					}
				} else if fin != -1 {
					return out, "final-state", fmt.Sprintf("key 0: nothing was stored, final Get gives id %d", fin)
				}
			}
		}
	}
	if s.finalBad != "" {
		return out, "value-corrupt", s.finalBad
	}
	if s.readMapLen != 0 {
		return out, "readmap-not-empty", fmt.Sprintf("%d read entries left in the in-flight read map after all readers finished", s.readMapLen)
	}
	if s.leak != 0 {
		return out, "value-leak", fmt.Sprintf("%d bytes of value memory still allocated after the cache was destroyed (reference counts do not balance)", s.leak)
	}
	return out, "", ""
}

func mkR(name string, sc rscen, qb, tb int, w float64) d1x.Scenario {
	for len(sc.turns) < 2 {
		sc.turns = append(sc.turns, nil)
	}
	return d1x.Scenario{Name: name, QuickBound: qb, ThoroughBound: tb, Weight: w, Judge: judgeR,
		New: func() vsched.Harness { return &rh{sc: sc} }}
}

func scenarios() []d1x.Scenario {
	E, V := true, false
	_ = V
	// Bounds follow the measured sizes (unsharded executions at bound 1 / 2 / 3): r3-value 1.9k /
	// 51k / more than 1.5M (not completable in the thorough budget), r3-err-value 2.3k / 54k, the
	// two-reader scenarios 0.5-0.7k / 5-13k / 30k to more than 150k (r2-set). Under the load of the
	// shared machine (about 1700 executions/s over 16 processes, uneven shards) roughly 400k
	// executions fit into the thorough budget.
	return []d1x.Scenario{
		mkR("r3-value", rscen{rkeys: []int{0, 0, 0}}, 1, 2, 2),
		mkR("r3-err-value", rscen{rkeys: []int{0, 0, 0}, turns: [][]bool{{E}}}, 1, 2, 2),
		mkR("r3-err-err-value", rscen{rkeys: []int{0, 0, 0}, turns: [][]bool{{E, E}}}, 1, 2, 2),
		mkR("r3-all-error", rscen{rkeys: []int{0, 0, 0}, turns: [][]bool{{E, E, E}}}, 1, 2, 2),
		mkR("r2-evictfile", rscen{rkeys: []int{0, 0}, mut: "evict"}, 2, 3, 2),
		mkR("r2-delete", rscen{rkeys: []int{0, 0}, mut: "delete"}, 1, 2, 1),
		mkR("r2-err-evictfile", rscen{rkeys: []int{0, 0}, turns: [][]bool{{E}}, mut: "evict"}, 2, 3, 2),
		mkR("r2-set", rscen{rkeys: []int{0, 0}, mut: "set"}, 1, 2, 1),
		mkR("two-keys", rscen{rkeys: []int{0, 1, 0}, turns: [][]bool{{E}, nil}}, 1, 2, 2),
	}
}

// ------------------------------------------------------------------------------------------------

func TestCheck(t *testing.T) {
	vlib.Main(t, "C34", func(c *vlib.Ctx) {
		if c.ReplayPath() != "" {
			var cs SeqCase
			if err := c.LoadReplay(&cs); err != nil {
				t.Fatal(err)
			}
			if cs.Kind == "seq" {
				st := &seqStats{outcomes: map[string]int64{}}
				fmt.Printf("replay: cache of %d bytes, 1 shard\n", cs.Cap)
				r := runSeq(cs.Cap, cs.Seq, st, true)
				fmt.Printf("replay result: class=%q step=%d %s\n", r.class, r.step, r.desc)
				c.Eval(1)
				c.Trans(len(cs.Seq))
				if r.class != "" {
					c.Violation(r.class, r.desc, cs)
				}
				return
			}
			d1x.Run(t, c, scenarios())
			return
		}
		// upper limit of part 1's share of the budget; part 2 gets whatever is left
		share := 0.45
		if c.Thorough() {
			share = 0.35
		}
		if os.Getenv("VERIF_SCENARIO") == "" {
			runSequential(c, share)
		}
		if os.Getenv("VERIF_C34_SEQONLY") != "" { // debugging aid: profile part 1 alone
			return
		}
		// hand the rest of the budget to the schedule exploration (d1x measures from its own start)
		left := c.BudgetSeconds() - vsched.RealNow().Sub(startTime).Seconds()
		if left < 5 {
			left = 5
		}
		os.Setenv("VERIF_BUDGET_S", fmt.Sprintf("%.1f", left))
		d1x.Run(t, c, scenarios())
	})
}

var startTime = vsched.RealNow()
