// C28: compression round-trips for every algorithm and setting.
//
// Layer A (internal/compression): every preset the package registers, every other zstd level
// 1..22, and adaptive compressors (the two configurations sstable/block builds for the built-in
// profiles plus three that force both branches): Compress(dst, src) followed by
// GetDecompressor(<algorithm of the returned setting>).DecompressedLen / DecompressInto must give
// back src, for three shapes of dst (nil, tiny, reused).
//
// Layer B (sstable/block): every registered compression profile, one custom profile per preset with
// MinReductionPercent=0 (so the compressed form is stored whenever it is not larger) and two custom
// adaptive profiles, x both checksum types, x block kinds {data, blob value, index}:
// PhysicalBlockMaker.Make -> WriteAndReleasePhysicalBlock -> block.Reader.Read must return the
// original bytes; the stored compression indicator must be one the profile allows for that kind;
// corrupted copies of the stored block (data bit, indicator bit, each checksum byte) must be
// rejected with a corruption error.
//
// Inputs: all strings over {0x00,'a',0xFF} up to length 8 (quick) / 11 (thorough), and the pattern
// generators zeros, period-3, counter, LCG at every length in {0..17, 255..257, 4095..4097,
// 32767..32769, 65535..65537}.
package c28

import (
	"bytes"
	"context"
	"fmt"
	"os"
	"sort"
	"strings"
	"testing"
	"time"

	"github.com/cespare/xxhash/v2"
	"github.com/cockroachdb/pebble/internal/base"
	"github.com/cockroachdb/pebble/internal/compression"
	"github.com/cockroachdb/pebble/internal/verif/vlib"
	"github.com/cockroachdb/pebble/objstorage"
	"github.com/cockroachdb/pebble/sstable/block"
	"github.com/cockroachdb/pebble/sstable/block/blockkind"
)

// ---------- inputs ----------

var alphabet = [3]byte{0x00, 'a', 0xFF}

var patternLens = func() []int {
	var ls []int
	for l := 0; l <= 17; l++ {
		ls = append(ls, l)
	}
	for _, c := range []int{256, 4096, 32768, 65536} {
		ls = append(ls, c-1, c, c+1)
	}
	return ls
}()

var patternNames = []string{"zeros", "period3", "counter", "lcg"}

func pattern(name string, n int) []byte {
	b := make([]byte, n)
	switch name {
	case "zeros":
	case "period3":
		for i := range b {
			b[i] = alphabet[i%3]
		}
	case "counter":
		for i := range b {
			b[i] = byte(i)
		}
	case "lcg":
		x := uint64(1)
		for i := range b {
			x = x*6364136223846793005 + 1442695040888963407
			b[i] = byte(x >> 56)
		}
	default:
		panic("unknown pattern " + name)
	}
	return b
}

func pow3(n int) int {
	p := 1
	for ; n > 0; n-- {
		p *= 3
	}
	return p
}

// str returns the idx-th string of length l over the alphabet (most significant symbol first).
func str(l, idx int) []byte {
	b := make([]byte, l)
	for j := l - 1; j >= 0; j-- {
		b[j] = alphabet[idx%3]
		idx /= 3
	}
	return b
}

// Group is a deterministic sequence of inputs handled by one compressor instance.
type Group struct {
	Kind   string `json:"kind"`             // str | zeros | period3 | counter | lcg | mixed
	Len    int    `json:"len,omitempty"`    // str: string length
	Prefix int    `json:"prefix,omitempty"` // str, Len > 5: index of the leading Len-5 symbols
}

type input struct {
	desc string
	data []byte
}

const strGroupSyms = 5

func (g Group) inputs() []input {
	var out []input
	switch g.Kind {
	case "str":
		free := g.Len
		if free > strGroupSyms {
			free = strGroupSyms
		}
		n := pow3(free)
		for j := 0; j < n; j++ {
			idx := g.Prefix*n + j
			d := str(g.Len, idx)
			out = append(out, input{fmt.Sprintf("str(len=%d,#%d)=%x", g.Len, idx, d), d})
		}
	case "large":
		// blocks beyond 256 KiB (the size above which compressors stop retaining scratch buffers),
		// incompressible and compressible ones alternating with small ones
		for _, pl := range []struct {
			p string
			l int
		}{{"lcg", 300000}, {"zeros", 10}, {"lcg", 299000}, {"period3", 300001}, {"lcg", 5}, {"counter", 262145}, {"lcg", 262144}} {
			out = append(out, input{fmt.Sprintf("%s(len=%d)", pl.p, pl.l), pattern(pl.p, pl.l)})
		}
	case "mixed":
		for _, l := range patternLens {
			for _, p := range patternNames {
				out = append(out, input{fmt.Sprintf("%s(len=%d)", p, l), pattern(p, l)})
			}
		}
	default:
		for _, l := range patternLens {
			out = append(out, input{fmt.Sprintf("%s(len=%d)", g.Kind, l), pattern(g.Kind, l)})
		}
	}
	return out
}

func (g Group) String() string {
	if g.Kind == "str" {
		if g.Len > strGroupSyms {
			return fmt.Sprintf("strings of length %d with leading symbols #%d", g.Len, g.Prefix)
		}
		return fmt.Sprintf("all strings of length %d", g.Len)
	}
	return g.Kind + " patterns at every listed length"
}

func (g Group) isPattern() bool { return g.Kind != "str" }

func groups(maxLen int) []Group {
	var gs []Group
	for l := 0; l <= maxLen && l <= strGroupSyms; l++ {
		gs = append(gs, Group{Kind: "str", Len: l})
	}
	for _, p := range patternNames {
		gs = append(gs, Group{Kind: p})
	}
	gs = append(gs, Group{Kind: "mixed"})
	gs = append(gs, Group{Kind: "large"})
	for l := strGroupSyms + 1; l <= maxLen; l++ {
		for p := 0; p < pow3(l-strGroupSyms); p++ {
			gs = append(gs, Group{Kind: "str", Len: l, Prefix: p})
		}
	}
	return gs
}

// ---------- targets ----------

type target struct {
	name  string
	layer string // A | B
	// layer A
	setting  *compression.Setting
	adaptive *compression.AdaptiveCompressorParams
	// smallOnly targets run on pattern groups and on strings up to length 5 only.
	smallOnly bool
	// layer B
	profile  *block.CompressionProfile
	checksum block.ChecksumType
}

func inPresets(s compression.Setting) bool {
	for _, p := range compression.VerifC28Presets() {
		if p == s {
			return true
		}
	}
	return false
}

func targets() []target {
	var ts []target
	for _, s := range compression.VerifC28Presets() {
		s := s
		ts = append(ts, target{name: "preset:" + s.String(), layer: "A", setting: &s})
	}
	for lvl := 1; lvl <= 22; lvl++ {
		s := compression.Setting{Algorithm: compression.Zstd, Level: uint8(lvl)}
		if !inPresets(s) {
			ts = append(ts, target{name: "zstd-level:" + s.String(), layer: "A", setting: &s, smallOnly: true})
		}
	}
	ad := func(fast, slow compression.Setting, cutoff float64, every int, seed uint64) {
		p := compression.AdaptiveCompressorParams{Fast: fast, Slow: slow, ReductionCutoff: cutoff,
			SampleEvery: every, SampleHalfLife: 256 * 1024, SamplingSeed: seed}
		ts = append(ts, target{layer: "A", adaptive: &p,
			name: fmt.Sprintf("adaptive:fast=%s,slow=%s,cutoff=%.2f,every=%d,seed=%d", fast, slow, cutoff, every, seed)})
	}
	// What block.MakeCompressor builds for the Fast and Balanced profiles (seed is random there).
	ad(compression.MinLZFastest, compression.ZstdLevel1, 0.30, 10, 1)
	ad(compression.MinLZFastest, compression.ZstdLevel1, 0.15, 10, 2)
	// Always sampling; never sampling after the first block; no-compression as the fast side.
	ad(compression.SnappySetting, compression.ZstdLevel3, 0.50, 1, 3)
	ad(compression.MinLZFastest, compression.MinLZBalanced, 0.01, 2, 4)
	ad(compression.NoCompression, compression.SnappySetting, 0.10, 3, 5)

	var profiles []*block.CompressionProfile
	profiles = append(profiles, block.VerifC28Profiles()...)
	for _, s := range compression.VerifC28Presets() {
		profiles = append(profiles, &block.CompressionProfile{
			Name:       "custom-minreduction0:" + s.String(),
			DataBlocks: block.SimpleCompressionSetting(s), ValueBlocks: block.SimpleCompressionSetting(s),
			OtherBlocks: s, MinReductionPercent: 0})
	}
	profiles = append(profiles,
		&block.CompressionProfile{Name: "custom-adaptive:zstd1|zstd3/snappy",
			DataBlocks:  block.AdaptiveCompressionSetting(compression.ZstdLevel1, 30),
			ValueBlocks: block.AdaptiveCompressionSetting(compression.ZstdLevel3, 15),
			OtherBlocks: compression.SnappySetting, MinReductionPercent: 0},
		&block.CompressionProfile{Name: "custom-adaptive:minlz2|zstd7/minlz1",
			DataBlocks:  block.AdaptiveCompressionSetting(compression.MinLZBalanced, 1),
			ValueBlocks: block.AdaptiveCompressionSetting(compression.ZstdLevel7, 90),
			OtherBlocks: compression.MinLZFastest, MinReductionPercent: 1})
	for _, p := range profiles {
		for _, ck := range []block.ChecksumType{block.ChecksumTypeCRC32c, block.ChecksumTypeXXHash64} {
			ts = append(ts, target{name: fmt.Sprintf("profile:%s/%s", p.Name, ck), layer: "B", profile: p, checksum: ck})
		}
	}
	return ts
}

func targetByName(name string) (target, bool) {
	for _, t := range targets() {
		if t.name == name {
			return t, true
		}
	}
	return target{}, false
}

// ---------- result plumbing ----------

type failure struct {
	class, desc string
	index       int
	input       string
}

// tally is the per-work-item accumulator (flushed into the Ctx once).
type tally struct {
	evals, trans int
	outcomes     map[string]int64
	states       map[uint64]struct{}
	nontrivial   map[uint64]struct{}
	fails        []failure
	verbose      bool
}

func newTally(verbose bool) *tally {
	return &tally{outcomes: map[string]int64{}, states: map[uint64]struct{}{}, nontrivial: map[uint64]struct{}{}, verbose: verbose}
}

func (t *tally) fail(class string, idx int, in input, format string, args ...any) {
	f := failure{class: class, index: idx, input: in.desc, desc: fmt.Sprintf("input #%d %s: ", idx, in.desc) + fmt.Sprintf(format, args...)}
	t.outcomes["FAIL:"+class]++
	if t.verbose {
		fmt.Printf("  FAIL %s: %s\n", class, f.desc)
	}
	if len(t.fails) < 64 {
		t.fails = append(t.fails, f)
	}
}

// ---------- layer A ----------

func short(b []byte) string {
	if len(b) <= 48 {
		return fmt.Sprintf("%x", b)
	}
	return fmt.Sprintf("%x...(%d bytes)", b[:48], len(b))
}

// roundTripA checks one Compress call. allowed lists the settings the compressor may report.
func roundTripA(t *tally, tname string, comp compression.Compressor, allowed []compression.Setting, dst []byte, idx int, in input, shape string) (out []byte) {
	defer func() {
		if r := recover(); r != nil {
			t.fail("compress-panic", idx, in, "%s, dst %s: panic: %v", tname, shape, r)
		}
	}()
	src := in.data
	orig := append([]byte(nil), src...)
	out, setting := comp.Compress(dst, src)
	t.trans++
	if !bytes.Equal(src, orig) {
		t.fail("compress-modified-source", idx, in, "%s, dst %s: Compress changed its input", tname, shape)
		return out
	}
	ok := false
	for _, a := range allowed {
		if a == setting {
			ok = true
		}
	}
	if !ok {
		t.fail("recorded-setting-unexpected", idx, in, "%s, dst %s: Compress reported setting %s, expected one of %v", tname, shape, setting, allowed)
		return out
	}
	d := compression.GetDecompressor(setting.Algorithm)
	defer d.Close()
	n, err := d.DecompressedLen(out)
	t.trans++
	if err != nil {
		t.fail("decompressed-len-error", idx, in, "%s, dst %s: compressed with %s to %s; DecompressedLen: %v", tname, shape, setting, short(out), err)
		return out
	}
	if n != len(src) {
		t.fail("decompressed-len-wrong", idx, in, "%s, dst %s: compressed with %s to %s; DecompressedLen = %d, input length %d", tname, shape, setting, short(out), n, len(src))
		return out
	}
	buf := make([]byte, n)
	err = d.DecompressInto(buf, out)
	t.trans++
	if err != nil {
		class := "decompress-error"
		if len(src) == 0 && setting.Algorithm == compression.Zstd {
			// Kept apart: the zstd decompressor refuses a zero-length destination, so the empty
			// string does not round-trip through the compression package (see the report).
			class = "zstd-empty-input-decompress-error"
		}
		t.fail(class, idx, in, "%s, dst %s: compressed with %s to %s; DecompressInto(len %d): %v", tname, shape, setting, short(out), n, err)
		return out
	}
	if !bytes.Equal(buf, src) {
		t.fail("roundtrip-mismatch", idx, in, "%s, dst %s: compressed with %s to %s; decompressed to %s", tname, shape, setting, short(out), short(buf))
		return out
	}
	t.outcomes["A:"+setting.String()+":roundtrip-equal"]++
	t.states[xxhash.Sum64(out)^uint64(setting.Algorithm)<<56] = struct{}{}
	if setting.Algorithm != compression.NoAlgorithm && len(src) > 0 {
		t.nontrivial[vlib.Hash("A", tname, in.desc)] = struct{}{}
	}
	return out
}

func runA(t *tally, tg target, g Group) {
	ins := g.inputs()
	if tg.adaptive != nil {
		ac := compression.NewAdaptiveCompressor(*tg.adaptive)
		defer ac.Close()
		allowed := []compression.Setting{tg.adaptive.Fast, tg.adaptive.Slow}
		// Two caller-owned destination buffers used alternately: the output of call i must still be
		// intact after call i+1 (which was given the OTHER buffer) - a compressor that hands out its
		// own scratch space would overwrite it.
		var dst [2][]byte
		var prev, prevCopy []byte
		for i, in := range ins {
			t.evals++
			out := roundTripA(t, tg.name, ac, allowed, dst[i%2], i, in, "alternating")
			if prev != nil && !bytes.Equal(prev, prevCopy) {
				t.fail("output-clobbered-by-later-compress", i, in, "%s: the bytes returned by the previous Compress call changed during this call (%s -> %s)", tg.name, short(prevCopy), short(prev))
			}
			if out != nil {
				dst[i%2] = out
				prev, prevCopy = out, append([]byte(nil), out...)
			}
		}
		return
	}
	comp := compression.GetCompressor(*tg.setting)
	defer comp.Close()
	allowed := []compression.Setting{*tg.setting}
	var reused []byte
	for i, in := range ins {
		t.evals++
		roundTripA(t, tg.name, comp, allowed, nil, i, in, "nil")
		roundTripA(t, tg.name, comp, allowed, make([]byte, 3, 5), i, in, "len3cap5")
		if out := roundTripA(t, tg.name, comp, allowed, reused, i, in, "reused"); out != nil {
			reused = out
		}
	}
}

// ---------- layer B ----------

var kindsB = []block.Kind{blockkind.SSTableData, blockkind.BlobValue, blockkind.SSTableIndex}

func allowedIndicators(p *block.CompressionProfile, k block.Kind) map[byte]bool {
	m := map[byte]bool{byte(block.NoCompressionIndicator): true}
	add := func(s compression.Setting) {
		switch s.Algorithm {
		case compression.Snappy:
			m[byte(block.SnappyCompressionIndicator)] = true
		case compression.Zstd:
			m[byte(block.ZstdCompressionIndicator)] = true
		case compression.MinLZ:
			m[byte(block.MinLZCompressionIndicator)] = true
		}
	}
	switch k {
	case blockkind.SSTableData:
		add(p.DataBlocks.Setting)
		if p.DataBlocks.AdaptiveReductionCutoffPercent != 0 {
			add(p.OtherBlocks)
		}
	case blockkind.SSTableValue, blockkind.BlobValue:
		add(p.ValueBlocks.Setting)
		if p.ValueBlocks.AdaptiveReductionCutoffPercent != 0 {
			add(p.OtherBlocks)
		}
	default:
		add(p.OtherBlocks)
	}
	return m
}

func isCorruption(err error, checked map[string]bool, where string) bool {
	checked[where] = true
	return base.IsCorruptionError(err)
}

type storedBlock struct {
	idx    int
	in     input
	kind   block.Kind
	flags  block.PhysicalBlockFlags
	offset uint64
	length uint64 // without trailer
}

func noInit(*block.Metadata, []byte) error { return nil }

func readBlock(obj *objstorage.MemObj, ck block.ChecksumType, bh block.Handle, kind block.Kind) (data []byte, err error) {
	var r block.Reader
	r.Init(obj, block.ReaderOptions{LoggerAndTracer: base.NoopLoggerAndTracer{}}, ck)
	h, err := r.Read(context.Background(), block.ReadEnv{}, nil, bh, kind, noInit)
	if err != nil {
		return nil, err
	}
	data = append([]byte{}, h.BlockData()...)
	h.Release()
	return data, nil
}

func runB(t *tally, tg target, g Group, corruptChecksumUpTo int) {
	ins := g.inputs()
	defer func() {
		if r := recover(); r != nil {
			t.fail("block-panic", -1, input{desc: g.String()}, "%s: panic: %v", tg.name, r)
		}
	}()
	var maker block.PhysicalBlockMaker
	maker.Init(tg.profile, tg.checksum, nil)
	defer maker.Close()
	obj := &objstorage.MemObj{}
	var stored []storedBlock
	var off uint64
	type pendingBlock struct {
		pb block.OwnedPhysicalBlock
		i  int
		in input
		k  block.Kind
		fl block.PhysicalBlockFlags
	}
	var pending []pendingBlock
	flushOne := func() {
		p := pending[0]
		pending = pending[1:]
		l, err := block.WriteAndReleasePhysicalBlock(p.pb, obj)
		if err != nil {
			t.fail("block-write-error", p.i, p.in, "%s kind %s: %v", tg.name, p.k, err)
			return
		}
		stored = append(stored, storedBlock{p.i, p.in, p.k, p.fl, off, uint64(l.WithoutTrailer())})
		off += uint64(l.WithTrailer())
	}
	for i, in := range ins {
		for _, k := range kindsB {
			flagSet := []block.PhysicalBlockFlags{block.NoFlags}
			if k == blockkind.SSTableIndex {
				flagSet = append(flagSet, block.DontCompress)
			}
			for _, fl := range flagSet {
				orig := append([]byte(nil), in.data...)
				pb := maker.Make(in.data, k, fl)
				t.trans++
				if !bytes.Equal(orig, in.data) {
					t.fail("compress-modified-source", i, in, "%s kind %s: Make changed its input", tg.name, k)
				}
				// like the writers' write queue: a made block is written only after two more blocks
				// have been made by the same maker
				pending = append(pending, pendingBlock{pb.Take(), i, in, k, fl})
				if len(pending) > 2 {
					flushOne()
				}
			}
		}
	}
	for len(pending) > 0 {
		flushOne()
	}
	file := obj.Data()
	if uint64(len(file)) != off {
		t.fail("block-write-length", -1, input{desc: g.String()}, "%s: wrote %d bytes, lengths sum to %d", tg.name, len(file), off)
		return
	}
	lastIdx := -1
	// errors.Is on these errors costs as much as the failed read itself, so the corruption mark is
	// verified on the first rejected read of each kind per work item.
	markChecked := map[string]bool{}
	for _, sb := range stored {
		if sb.idx != lastIdx {
			t.evals++
			lastIdx = sb.idx
		}
		bh := block.Handle{Offset: sb.offset, Length: sb.length}
		raw := file[sb.offset : sb.offset+sb.length+block.TrailerLen]
		ind := raw[sb.length]
		what := fmt.Sprintf("%s kind %s flags %d stored as %d bytes + trailer %x", tg.name, sb.kind, sb.flags, sb.length, raw[sb.length:])
		if sb.flags&block.DontCompress != 0 {
			if ind != byte(block.NoCompressionIndicator) {
				t.fail("block-indicator-unexpected", sb.idx, sb.in, "%s: DontCompress but indicator %d", what, ind)
				continue
			}
		} else if !allowedIndicators(tg.profile, sb.kind)[ind] {
			t.fail("block-indicator-unexpected", sb.idx, sb.in, "%s: indicator %d is not one the profile allows for this kind", what, ind)
			continue
		}
		indName := block.CompressionIndicator(ind).String()
		got, err := readBlock(obj, tg.checksum, bh, sb.kind)
		t.trans++
		if err != nil {
			t.fail("block-read-error", sb.idx, sb.in, "%s: Read: %v", what, err)
			continue
		}
		if !bytes.Equal(got, sb.in.data) {
			t.fail("block-read-mismatch", sb.idx, sb.in, "%s: Read returned %s", what, short(got))
			continue
		}
		t.outcomes["B:stored-"+indName+":read-equal"]++
		t.states[xxhash.Sum64(raw)] = struct{}{}
		if ind != byte(block.NoCompressionIndicator) {
			t.nontrivial[vlib.Hash("B", tg.name, sb.in.desc, sb.kind)] = struct{}{}
		}
		// Corrupted copies. A flipped bit in the first stored byte is located at once by the reader's
		// bit-flip diagnosis; flips in the indicator or the checksum field make that diagnosis scan
		// the whole block (quadratic), and every rejected read costs ~0.1 ms in error construction.
		// Hence: all positions x 2 bits for pattern blocks of at most corruptChecksumUpTo stored
		// bytes and for strings up to length 3; the first data byte for larger pattern blocks; one
		// rotating position on the data-kind block for longer strings.
		all := []int{}
		if sb.length > 0 {
			all = append(all, 0)
		}
		if sb.length > 1 {
			all = append(all, int(sb.length)-1)
		}
		for j := 0; j < block.TrailerLen; j++ {
			all = append(all, int(sb.length)+j)
		}
		var flips []int
		bits := []byte{0x01, 0x80}
		switch {
		case g.isPattern() && int(sb.length) <= corruptChecksumUpTo, !g.isPattern() && g.Len <= 3:
			flips = all
		case g.isPattern():
			flips = all[:1]
			bits = bits[:1]
		case sb.kind == blockkind.SSTableData:
			flips = []int{all[sb.idx%len(all)]}
			bits = bits[(sb.idx/len(all))%2:][:1]
		}
		for _, pos := range flips {
			for _, bit := range bits {
				cp := append([]byte(nil), raw...)
				cp[pos] ^= bit
				cobj := &objstorage.MemObj{}
				_ = cobj.Write(cp)
				where := "data"
				if pos == int(sb.length) {
					where = "indicator"
				} else if pos > int(sb.length) {
					where = "checksum"
				}
				got, err := func() (got []byte, err error) {
					defer func() {
						if r := recover(); r != nil {
							err = fmt.Errorf("PANIC: %v", r)
						}
					}()
					return readBlock(cobj, tg.checksum, block.Handle{Offset: 0, Length: sb.length}, sb.kind)
				}()
				t.trans++
				switch {
				case err == nil:
					t.fail("block-corruption-undetected", sb.idx, sb.in, "%s: byte %d (%s) xor %02x: Read returned no error (data %s)", what, pos, where, bit, short(got))
				case !markChecked[where] && !isCorruption(err, markChecked, where):
					t.fail("block-corruption-error-unmarked", sb.idx, sb.in, "%s: byte %d (%s) xor %02x: error is not marked as corruption: %v", what, pos, where, bit, err)
				default:
					t.outcomes["B:corrupt-"+where+":rejected"]++
				}
			}
		}
	}
}

// ---------- driver ----------

// Case is the replay artefact: one target applied to one input group.
type Case struct {
	Target string `json:"target"`
	Group  Group  `json:"group"`
	Index  int    `json:"first_failing_input"`
	Input  string `json:"input"`
	Tier   string `json:"tier"`
}

func runItem(tg target, g Group, thorough, verbose bool) *tally {
	t := newTally(verbose)
	if tg.layer == "A" {
		runA(t, tg, g)
	} else {
		limit := 300
		if thorough {
			limit = 4200
		}
		runB(t, tg, g, limit)
	}
	return t
}

func applicable(tg target, g Group) bool {
	if tg.smallOnly && !g.isPattern() && g.Len > strGroupSyms {
		return false
	}
	if g.Kind == "large" {
		// blocks beyond 256 KiB: the adaptive compressors, the presets, and the block profiles with
		// one checksum type (not the zstd level sweep: level 22 on 300 KB blocks costs seconds)
		switch {
		case tg.adaptive != nil:
			return true
		case tg.layer == "A":
			return !tg.smallOnly && tg.setting.Algorithm != compression.Zstd || tg.setting.Level <= 3
		default:
			return tg.checksum == block.ChecksumTypeCRC32c
		}
	}
	return true
}

func TestCheck(t *testing.T) {
	vlib.Main(t, "C28", func(c *vlib.Ctx) {
		if c.ReplayPath() != "" {
			var cs Case
			if err := c.LoadReplay(&cs); err != nil {
				t.Fatal(err)
			}
			tg, ok := targetByName(cs.Target)
			if !ok {
				t.Fatalf("unknown target %q", cs.Target)
			}
			fmt.Printf("target %s on %s\n", tg.name, cs.Group)
			r := runItem(tg, cs.Group, cs.Tier == "thorough", true)
			for _, f := range r.fails {
				c.Violation(f.class, f.desc, cs)
			}
			if len(r.fails) == 0 {
				fmt.Printf("replay: ok (%d inputs)\n", r.evals)
			} else {
				fmt.Printf("replay: FAIL (%d failures)\n", len(r.fails))
			}
			c.Eval(r.evals)
			c.Trans(r.trans)
			return
		}
		maxLen := 8
		if c.Thorough() {
			maxLen = 11
		}
		gs := groups(maxLen)
		ts := targets()
		total := len(gs) * len(ts)
		nInputs := 0
		for _, g := range gs {
			if g.Kind == "str" {
				n := g.Len
				if n > strGroupSyms {
					n = strGroupSyms
				}
				nInputs += pow3(n)
			} else if g.Kind != "mixed" {
				nInputs += len(patternLens)
			}
		}
		done, complete := c.Each(total, func(i int) {
			g := gs[i/len(ts)]
			tg := ts[i%len(ts)]
			if !applicable(tg, g) {
				return
			}
			t0 := time.Now()
			r := runItem(tg, g, c.Thorough(), false)
			if os.Getenv("C28_TIMING") != "" {
				k := strings.SplitN(tg.name, ":", 2)[0]
				if strings.HasPrefix(tg.name, "zstd-level") {
					k = tg.name
				}
				gk := g.Kind
				if gk != "str" {
					gk = "pattern"
				}
				c.NoteAdd("ms:"+k+"/"+gk, time.Since(t0).Milliseconds())
			}
			c.Eval(r.evals)
			c.Trans(r.trans)
			for k, n := range r.outcomes {
				c.OutcomeN(k, n)
			}
			for h := range r.states {
				c.State(h)
			}
			for h := range r.nontrivial {
				c.Nontrivial(h)
			}
			seen := map[string]bool{}
			for _, f := range r.fails {
				if seen[f.class] {
					continue // one artefact per class and work item; the replay prints all of them
				}
				seen[f.class] = true
				c.Violation(f.class, fmt.Sprintf("%s on %s: %s", tg.name, g, f.desc),
					Case{Target: tg.name, Group: g, Index: f.index, Input: f.input, Tier: c.Tier()})
			}
			if i%397 == 40 {
				keys := make([]string, 0, len(r.outcomes))
				for k := range r.outcomes {
					keys = append(keys, k)
				}
				sort.Strings(keys)
				c.Sample(map[string]any{"target": tg.name, "group": g.String(), "inputs": r.evals, "outcomes": keys})
			}
		})
		var names []string
		for _, tg := range ts {
			names = append(names, tg.name)
		}
		c.Note("scope", map[string]any{
			"inputs":  fmt.Sprintf("%d distinct inputs: all strings over {00,'a',FF} of length <= %d and 4 patterns x %d lengths %v (a fifth group interleaves the patterns)", nInputs, maxLen, len(patternLens), patternLens),
			"work":    fmt.Sprintf("%d of %d (group, target) items: %d input groups x %d targets (zstd levels outside the presets run on the pattern groups and strings of length <= %d only)", done, total, len(gs), len(ts), strGroupSyms),
			"targets": names,
		})
		if !complete {
			c.Incomplete(fmt.Sprintf("budget expired after %d of %d (group, target) items; items are ordered by group (short strings, patterns, then longer strings)", done, total))
		}
	})
}
