// C30: concurrent skiplist inserts are lossless and ordered. Engine D1: the real arenaskl under the
// controlled scheduler, all schedules up to the preemption bound, tower heights dictated.
package c30

import (
	"fmt"
	"sort"
	"strings"
	"sync/atomic"
	"testing"

	"github.com/cockroachdb/pebble/internal/arenaskl"
	"github.com/cockroachdb/pebble/internal/base"
	"github.com/cockroachdb/pebble/internal/verif/d1x"
	"github.com/cockroachdb/pebble/internal/verif/vlib"
	"github.com/cockroachdb/pebble/internal/verif/vsched"
)

type ins struct {
	key    string
	seq    uint64
	height uint32
}

type h struct {
	pre     []ins
	threads []ins
	// batches: each is one more inserting thread that adds its keys IN ORDER through ONE
	// arenaskl.Inserter (as memTable.apply does for a multi-key batch): the splice cached by one Add is
	// reused by the next
	batches [][]ins
	berrs   [][]error
	reader  string // "", "bwd", "fwd"
	l       *arenaskl.Skiplist
	errs    []error
	done    []atomic.Bool // read by the reader while inserters run: goes through the scheduler shims
	obs     []string      // reader observation
	sawDone []string      // keys whose Add had returned when the reader started
}

func ikey(k string, seq uint64) base.InternalKey {
	return base.MakeInternalKey([]byte(k), base.SeqNum(seq), base.InternalKeyKindSet)
}

func (s *h) Setup() {
	s.l = arenaskl.NewSkiplist(arenaskl.NewArena(make([]byte, 1<<16)), base.DefaultComparer.Compare)
	for _, p := range s.pre {
		// unmanaged: heights of pre-populated nodes come from the per-execution deterministic stream
		if err := s.l.Add(ikey(p.key, p.seq), []byte("v")); err != nil {
			panic(err)
		}
	}
	s.errs = make([]error, len(s.threads))
	s.done = make([]atomic.Bool, len(s.threads))
	s.berrs = make([][]error, len(s.batches))
}

func (s *h) Threads() []func() {
	var fs []func()
	for i := range s.threads {
		i := i
		fs = append(fs, func() {
			t := vsched.Cur()
			t.RandQueue = []uint64{uint64(arenaskl.VerifRndForHeight(s.threads[i].height)) << 32}
			s.errs[i] = s.l.Add(ikey(s.threads[i].key, s.threads[i].seq), []byte("v"))
			s.done[i].Store(true)
		})
	}
	for bi := range s.batches {
		bi := bi
		fs = append(fs, func() {
			t := vsched.Cur()
			for _, k := range s.batches[bi] {
				t.RandQueue = append(t.RandQueue, uint64(arenaskl.VerifRndForHeight(k.height))<<32)
			}
			var in arenaskl.Inserter
			for _, k := range s.batches[bi] {
				s.berrs[bi] = append(s.berrs[bi], in.Add(s.l, ikey(k.key, k.seq), []byte("v")))
			}
		})
	}
	if s.reader != "" {
		fs = append(fs, func() {
			for i := range s.done {
				if s.done[i].Load() && s.errs[i] == nil {
					s.sawDone = append(s.sawDone, fmt.Sprintf("%s#%d", s.threads[i].key, s.threads[i].seq))
				}
			}
			it := s.l.NewIter(nil, nil, nil)
			if s.reader == "bwd" {
				for kv := it.Last(); kv != nil; kv = it.Prev() {
					s.obs = append(s.obs, fmt.Sprintf("%s#%d", kv.K.UserKey, kv.K.SeqNum()))
				}
			} else {
				for kv := it.First(); kv != nil; kv = it.Next() {
					s.obs = append(s.obs, fmt.Sprintf("%s#%d", kv.K.UserKey, kv.K.SeqNum()))
				}
			}
			it.Close()
		})
	}
	return fs
}

func (s *h) Teardown(bool) {}

func less(a, b string) bool {
	// "key#seq": key ascending, seq descending
	ka, sa, _ := strings.Cut(a, "#")
	kb, sb, _ := strings.Cut(b, "#")
	if ka != kb {
		return ka < kb
	}
	var x, y int
	fmt.Sscan(sa, &x)
	fmt.Sscan(sb, &y)
	return x > y
}

func judge(hh vsched.Harness, x *vsched.Exec) (string, string, string) {
	s := hh.(*h)
	// expected final set
	want := map[string]bool{}
	for _, p := range s.pre {
		want[fmt.Sprintf("%s#%d", p.key, p.seq)] = true
	}
	okCount := map[string]int{}
	for i, t := range s.threads {
		id := fmt.Sprintf("%s#%d", t.key, t.seq)
		switch s.errs[i] {
		case nil:
			okCount[id]++
			want[id] = true
		case arenaskl.ErrRecordExists:
		default:
			return "err", "add-error", fmt.Sprintf("Add(%s) returned %v", id, s.errs[i])
		}
	}
	for bi, b := range s.batches {
		for j, t := range b {
			id := fmt.Sprintf("%s#%d", t.key, t.seq)
			if j >= len(s.berrs[bi]) {
				return "hang", "batch-insert-did-not-finish", id
			}
			if s.berrs[bi][j] != nil {
				return "err", "add-error", fmt.Sprintf("Inserter.Add(%s) returned %v", id, s.berrs[bi][j])
			}
			want[id] = true
		}
	}
	for _, t := range s.threads {
		id := fmt.Sprintf("%s#%d", t.key, t.seq)
		pre := false
		for _, p := range s.pre {
			if p.key == t.key && p.seq == t.seq {
				pre = true
			}
		}
		if pre && okCount[id] != 0 {
			return "dup", "duplicate-accepted", fmt.Sprintf("Add(%s) succeeded although the key was already present", id)
		}
		if !pre && okCount[id] != 1 {
			return "dup", "not-exactly-once", fmt.Sprintf("Add(%s) succeeded %d times", id, okCount[id])
		}
	}
	var sorted []string
	for k := range want {
		sorted = append(sorted, k)
	}
	sort.Slice(sorted, func(i, j int) bool { return less(sorted[i], sorted[j]) })
	wantS := strings.Join(sorted, " ")
	// quiescent traversals through the public iterator
	it := s.l.NewIter(nil, nil, nil)
	var f, b []string
	for kv := it.First(); kv != nil; kv = it.Next() {
		f = append(f, fmt.Sprintf("%s#%d", kv.K.UserKey, kv.K.SeqNum()))
	}
	for kv := it.Last(); kv != nil; kv = it.Prev() {
		b = append([]string{fmt.Sprintf("%s#%d", kv.K.UserKey, kv.K.SeqNum())}, b...)
	}
	it.Close()
	if g := strings.Join(f, " "); g != wantS {
		return "final", "forward-traversal-wrong", fmt.Sprintf("forward traversal [%s] want [%s]", g, wantS)
	}
	if g := strings.Join(b, " "); g != wantS {
		return "final", "backward-traversal-wrong", fmt.Sprintf("backward traversal (reversed) [%s] want [%s]", g, wantS)
	}
	// every level: forward and backward chains agree, and each is a subsequence of level 0
	fw, bw := s.l.VerifLevels()
	for lvl := range fw {
		rb := make([]string, len(bw[lvl]))
		for i, k := range bw[lvl] {
			rb[len(rb)-1-i] = k
		}
		if strings.Join(fw[lvl], ",") != strings.Join(rb, ",") {
			return "final", "level-links-disagree", fmt.Sprintf("level %d: forward %q backward(reversed) %q", lvl, fw[lvl], rb)
		}
	}
	if len(fw) > 0 && len(fw[0]) != len(sorted) {
		return "final", "level0-size", fmt.Sprintf("level 0 has %d nodes want %d", len(fw[0]), len(sorted))
	}
	// reader observation: ordered subset containing everything that was complete before it started
	outcome := "reader[" + strings.Join(s.obs, " ") + "]"
	if s.reader != "" {
		obs := append([]string(nil), s.obs...)
		if s.reader == "bwd" {
			for i, j := 0, len(obs)-1; i < j; i, j = i+1, j-1 {
				obs[i], obs[j] = obs[j], obs[i]
			}
		}
		for i := range obs {
			if !want[obs[i]] {
				return outcome, "reader-foreign-key", fmt.Sprintf("reader saw %s which was never inserted", obs[i])
			}
			if i > 0 && !less(obs[i-1], obs[i]) {
				return outcome, "reader-unordered", fmt.Sprintf("reader (%s) observation not strictly ordered: %v", s.reader, s.obs)
			}
		}
		seen := map[string]bool{}
		for _, k := range obs {
			seen[k] = true
		}
		for _, p := range s.pre {
			if id := fmt.Sprintf("%s#%d", p.key, p.seq); !seen[id] {
				return outcome, "reader-missed-present-key", fmt.Sprintf("reader (%s) %v missed pre-populated %s", s.reader, s.obs, id)
			}
		}
		// NOT part of C30 (the statement only asks for an ordered subset): a backward reader can
		// miss an insert whose Add had already returned when an adjacent insert is still between
		// its two CAS steps. It is counted in the outcome histogram; the read-your-writes
		// consequence is judged at DB level by C07.
		for _, id := range s.sawDone {
			if !seen[id] {
				outcome += " (info: misses completed " + id + ")"
			}
		}
	}
	return outcome, "", ""
}

func mk(name string, pre, th []ins, reader string, qb, tb int) d1x.Scenario {
	return d1x.Scenario{Name: name, QuickBound: qb, ThoroughBound: tb, Judge: judge,
		New: func() vsched.Harness { return &h{pre: pre, threads: th, reader: reader} }}
}

func TestCheck(t *testing.T) {
	vlib.Main(t, "C30", func(c *vlib.Ctx) {
		pre := []ins{{"a", 1, 0}, {"e", 1, 0}}
		sc := []d1x.Scenario{
			mkw("bcd-111-bwd", pre, []ins{{"b", 2, 1}, {"c", 3, 1}, {"d", 4, 1}}, "bwd", 2, 3, 4),
			mk("bcd-212-bwd", pre, []ins{{"b", 2, 2}, {"c", 3, 1}, {"d", 4, 2}}, "bwd", 1, 2),
			mk("bcd-121-fwd", pre, []ins{{"b", 2, 1}, {"c", 3, 2}, {"d", 4, 1}}, "fwd", 1, 2),
			mk("dup-bb-c", pre, []ins{{"b", 2, 1}, {"b", 2, 2}, {"c", 3, 1}}, "bwd", 1, 2),
			mk("same-user-key-seqs", pre, []ins{{"c", 5, 1}, {"c", 6, 2}, {"c", 7, 1}}, "fwd", 1, 2),
			mk("empty-list-bc", nil, []ins{{"b", 2, 2}, {"c", 3, 3}}, "bwd", 2, 3),
			// multi-key batches through one Inserter (cached splice), racing with a single Add of a
			// NEWER version of a user key the batch also writes (sequence numbers are assigned in
			// order, batches are applied concurrently)
			mkb("inserter-batch-older-version", pre, []ins{{"c", 15, 1}}, [][]ins{{{"b", 11, 1}, {"c", 12, 1}}}, "fwd", 2, 3),
			mkb("inserter-two-batches-same-keys", pre, nil, [][]ins{{{"b", 11, 1}, {"c", 12, 1}}, {{"b", 21, 1}, {"c", 22, 2}}}, "bwd", 1, 2),
			mkb("inserter-batch-three-versions", nil, []ins{{"c", 15, 2}}, [][]ins{{{"c", 11, 1}, {"c", 12, 1}, {"d", 13, 1}}}, "fwd", 1, 2),
		}
		d1x.Run(t, c, sc)
	})
}

func mkb(name string, pre, th []ins, batches [][]ins, reader string, qb, tb int) d1x.Scenario {
	return d1x.Scenario{Name: name, QuickBound: qb, ThoroughBound: tb, Judge: judge,
		New: func() vsched.Harness { return &h{pre: pre, threads: th, batches: batches, reader: reader} }}
}

func mkw(name string, pre, th []ins, reader string, qb, tb int, w float64) d1x.Scenario {
	s := mk(name, pre, th, reader, qb, tb)
	s.Weight = w
	return s
}
