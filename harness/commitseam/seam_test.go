// C07 on the commit-pipeline seam (engine D1): the real commitPipeline/commitQueue over a real
// memTable with a recording commitEnv. Cheap executions (no DB open/close) make preemption bound 2-3
// affordable; the whole-DB variant of the same oracle lives in harness/dbconc.
package commitseam

import (
	"fmt"
	"sort"
	"strings"
	"sync/atomic"
	"testing"

	"github.com/cockroachdb/pebble"
	"github.com/cockroachdb/pebble/internal/verif/d1x"
	"github.com/cockroachdb/pebble/internal/verif/vlib"
	"github.com/cockroachdb/pebble/internal/verif/vsched"
)

type bspec struct {
	keys []string
	sync bool
}

type read struct {
	visible uint64
	kvs     []pebble.VerifKV
	done    []bool // commits that had returned when this read started
}

type scen struct {
	name     string
	pre      []string
	batches  []bspec
	readers  []string // "fwd", "bwd", "fwd-bwd" (two reads by one thread)
	allocSeq bool     // one thread calls AllocateSeqNum (the ingest path)
}

type h struct {
	sc    scen
	v     *pebble.VerifPipeline
	seq   []uint64
	errs  []error
	done  []atomic.Bool // read by readers while committers run: goes through the scheduler shims
	visAt []uint64 // visible seqnum right after Commit i returned
	reads [][]read
}

func (s *h) Setup() {
	s.v = pebble.NewVerifPipeline(64 << 10)
	for _, k := range s.sc.pre {
		if _, err := s.v.Commit([]string{k}, "init", false); err != nil {
			panic(err)
		}
	}
	n := len(s.sc.batches)
	s.seq, s.errs, s.done, s.visAt = make([]uint64, n), make([]error, n), make([]atomic.Bool, n), make([]uint64, n)
	s.reads = make([][]read, len(s.sc.readers))
}

func (s *h) Threads() []func() {
	var fs []func()
	for i := range s.sc.batches {
		i := i
		fs = append(fs, func() {
			s.seq[i], s.errs[i] = s.v.Commit(s.sc.batches[i].keys, fmt.Sprintf("b%d", i), s.sc.batches[i].sync)
			s.visAt[i] = s.v.Visible()
			s.done[i].Store(true)
		})
	}
	for ri, kind := range s.sc.readers {
		ri, kind := ri, kind
		fs = append(fs, func() {
			for _, dir := range strings.Split(kind, "-") {
				r := read{done: make([]bool, len(s.done))}
				for i := range s.done {
					r.done[i] = s.done[i].Load()
				}
				r.visible, r.kvs = s.v.Scan(dir == "bwd")
				s.reads[ri] = append(s.reads[ri], r)
			}
		})
	}
	if s.sc.allocSeq {
		fs = append(fs, func() { s.v.AllocateSeqNum(2) })
	}
	return fs
}

func (s *h) Teardown(bool) {}

func judge(hh vsched.Harness, x *vsched.Exec) (string, string, string) {
	s := hh.(*h)
	var out []string
	for i := range s.sc.batches {
		if s.errs[i] != nil {
			return "err", "commit-error", s.errs[i].Error()
		}
		if !s.done[i].Load() {
			return "hang", "commit-did-not-return", fmt.Sprint(i)
		}
		// read-your-writes at the pipeline level: when Commit returns the batch is published
		end := s.seq[i] + uint64(len(s.sc.batches[i].keys))
		if s.visAt[i] < end {
			return "ryw", "visible-below-returned-commit", fmt.Sprintf("Commit %d (seq %d..%d) returned with visibleSeqNum %d", i, s.seq[i], end, s.visAt[i])
		}
	}
	// WAL order: seqnum ranges contiguous, disjoint, increasing in log order
	for i := 1; i < len(s.v.Log); i++ {
		if s.v.Log[i][0] != s.v.Log[i-1][1] && !s.sc.allocSeq {
			return "log", "seqnums-not-contiguous-in-wal-order", fmt.Sprint(s.v.Log)
		}
		if s.v.Log[i][0] < s.v.Log[i-1][1] {
			return "log", "seqnum-ranges-overlap-or-reorder", fmt.Sprint(s.v.Log)
		}
	}
	for i := 1; i < len(s.v.VisibleAtWrite); i++ {
		if s.v.VisibleAtWrite[i] < s.v.VisibleAtWrite[i-1] {
			return "vis", "visible-seqnum-decreased", fmt.Sprint(s.v.VisibleAtWrite)
		}
	}
	// every read: exactly the entries of all batches with seq < visible (published => applied and
	// readable, in both directions), plus monotone visibility within a reader thread
	for ri, rs := range s.reads {
		prevVis := uint64(0)
		for k, r := range rs {
			want := map[string]string{}
			wseq := map[string]uint64{}
			put := func(key, val string, seq uint64) {
				if seq < r.visible && seq >= wseq[key] {
					want[key], wseq[key] = val, seq
				}
			}
			for pi, key := range s.sc.pre {
				put(key, "init", uint64(10+pi)) // base.SeqNumStart == 10
			}
			for i, b := range s.sc.batches {
				for j, key := range b.keys {
					put(key, fmt.Sprintf("b%d", i), s.seq[i]+uint64(j))
				}
			}
			var ks []string
			for key := range want {
				ks = append(ks, key)
			}
			sort.Strings(ks)
			var w, g []string
			for _, key := range ks {
				w = append(w, key+"="+want[key])
			}
			for _, e := range r.kvs {
				g = append(g, e.K+"="+e.V)
			}
			out = append(out, fmt.Sprintf("r%d.%d@%d[%s]", ri, k, r.visible, strings.Join(g, " ")))
			if strings.Join(g, " ") != strings.Join(w, " ") {
				return strings.Join(out, " "), "published-batch-not-readable", fmt.Sprintf("reader %s read %d at visibleSeqNum %d saw [%s], but the batches published below that seqnum are [%s]", s.sc.readers[ri], k, r.visible, strings.Join(g, " "), strings.Join(w, " "))
			}
			for i, d := range r.done {
				if d && r.visible < s.seq[i]+uint64(len(s.sc.batches[i].keys)) {
					return strings.Join(out, " "), "read-your-writes", fmt.Sprintf("reader started after Commit %d returned but read at visibleSeqNum %d < %d", i, r.visible, s.seq[i]+uint64(len(s.sc.batches[i].keys)))
				}
			}
			if r.visible < prevVis {
				return strings.Join(out, " "), "visibility-not-monotone", fmt.Sprintf("second read at %d after first at %d", r.visible, prevVis)
			}
			prevVis = r.visible
		}
	}
	return strings.Join(out, " "), "", ""
}

func mk(sc scen, qb, tb int, w float64) d1x.Scenario {
	return d1x.Scenario{Name: sc.name, QuickBound: qb, ThoroughBound: tb, Weight: w, Judge: judge,
		New: func() vsched.Harness { return &h{sc: sc} }}
}

func TestCheck(t *testing.T) {
	vlib.Main(t, "C07", func(c *vlib.Ctx) {
		B := func(keys ...string) bspec { return bspec{keys: keys} }
		S := func(keys ...string) bspec { return bspec{keys: keys, sync: true} }
		sc := []d1x.Scenario{
			mk(scen{name: "seam-adjacent-keys-bwd", pre: []string{"0", "z"}, batches: []bspec{B("b"), B("c")}, readers: []string{"bwd"}}, 2, 3, 6),
			mk(scen{name: "seam-adjacent-keys-fwd", pre: []string{"0", "z"}, batches: []bspec{B("b"), B("c")}, readers: []string{"fwd"}}, 1, 3, 1),
			mk(scen{name: "seam-2x2-disjoint-fwd-bwd", batches: []bspec{B("a", "c"), B("b", "d")}, readers: []string{"fwd-bwd"}}, 1, 2, 2),
			mk(scen{name: "seam-3-committers-sync-mix", pre: []string{"m"}, batches: []bspec{S("a"), B("a", "b"), S("c")}, readers: []string{"bwd"}}, 1, 2, 2),
			mk(scen{name: "seam-allocseqnum", batches: []bspec{B("a"), B("b")}, readers: []string{"fwd"}, allocSeq: true}, 0, 1, 1),
		}
		d1x.Run(t, c, sc)
	})
}
