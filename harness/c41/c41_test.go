// C41: shared objects are deleted only when no provider references them. Engine D1: two or three
// real objstorage providers (each with its own MemFS directory and creator ID, each used by one
// managed thread) on ONE shared remote.NewInMem() storage whose every call is a scheduling point;
// the providers' and the store's mutexes are hooked as well (instrumented build). All schedules up
// to the preemption bound are executed; every execution is judged step by step on the exact log of
// storage calls.
//
// The store can FAIL: every remote operation a managed thread performs (CreateObject, the writer's
// Write and Close, ReadObject, ReadAt, List, Delete, Size) asks the environment (vsched.Choose)
// whether it fails; the explorer enumerates a failure at every position (one per execution, two in
// the thorough tier for the small shapes) combined with the schedules. A failed call has no effect
// on the store (a failed writer Close does NOT finalize the object); in the thorough tier Delete and
// writer Close can also fail AFTER having taken effect (lost acknowledgement).
package c41

import (
	"bytes"
	"context"
	"fmt"
	"io"
	"os"
	"sort"
	"strings"
	"testing"

	"github.com/cockroachdb/errors"
	"github.com/cockroachdb/pebble/internal/base"
	"github.com/cockroachdb/pebble/internal/verif/d1x"
	"github.com/cockroachdb/pebble/internal/verif/vlib"
	"github.com/cockroachdb/pebble/internal/verif/vsched"
	"github.com/cockroachdb/pebble/objstorage"
	"github.com/cockroachdb/pebble/objstorage/objstorageprovider"
	"github.com/cockroachdb/pebble/objstorage/remote"
	"github.com/cockroachdb/pebble/vfs"
)

// ------------------------------------------------------------------------------------------------
// The shared store: remote.NewInMem() behind a wrapper that (a) makes every call a scheduling
// point, (b) lets the environment fail it and (c) appends every call with its result to one event
// log.
//
// The log order is the real order of the operations: the vsync shims park BEFORE performing an
// operation, so after the inner store released its mutex the calling thread runs without
// interruption until the log append. Judge re-validates this on every execution by replaying the
// log against a shadow map (class harness-log-inconsistent).

type event struct {
	Prov int    // 0-based provider index
	Op   string // storage calls: create (CreateObject), write, put (writer Close: the object appears), delete, size, open, readat, list | harness: <op>-call / <op>-ret for op in create attach remove cleanup read
	Name string
	OK   bool // the call returned no error
	N    int  // list: number of results
	Inj  int  // storage calls: 0 real answer; 1 injected failure, the call had no effect; 2 injected failure reported AFTER the call took effect
}

func (e event) String() string {
	s := fmt.Sprintf("P%d %s", e.Prov+1, e.Op)
	if e.Name != "" {
		s += " " + e.Name
	}
	switch {
	case e.Inj == 1:
		return s + " -> INJECTED-ERR"
	case e.Inj == 2:
		return s + " -> done+INJECTED-ERR"
	case e.Op == "list":
		return s + fmt.Sprintf(" -> %d", e.N)
	case strings.HasSuffix(e.Op, "-call"):
		return s
	}
	if e.OK {
		return s + " -> ok"
	}
	return s + " -> err"
}

var errInjected = errors.New("c41: injected remote storage failure")

type core struct {
	inner remote.Storage
	log   []event
	// faults: the environment may fail storage calls of managed threads; ambig: Delete and writer
	// Close have a second failure mode (effect applied, failure reported).
	faults, ambig bool
	injBy         []int // number of injected failures seen by provider i so far
	// Storage-level mode (gated): a scheduling decision is taken only when every unfinished thread
	// is parked at a storage call. While one thread is "in flight" (between two of its storage
	// calls) the storage points of the others are disabled, so its mutex/atomic points are forced
	// moves; the storage points are marked Yield, so that choosing any thread is free of deviation
	// cost and bound 0 already enumerates ALL interleavings of the storage calls. Sound because the
	// code between two storage calls of a provider touches only that provider's state (one thread
	// per provider; the store is the only shared object).
	gated    bool
	solo     bool // prologue: one managed thread exists, every point is a forced move
	nthreads int
	started  int // threads that reached the gate
	passed   int // threads that passed the gate
	inflight int // provider whose thread is between two storage calls, -1: none
}

func observe(t *vsched.Thread, kind string) {
	// The explorer's state cache keys a state by the threads' history hashes, which only the
	// sync/atomic shims advance: a scheduling point that leaves the hash unchanged makes "before the
	// call" and "after the call" the same state and the cache prunes everything behind it (measured:
	// the cached run missed outcomes the cache-less run found). Hence the call is mixed into the
	// thread's history as soon as it resumes; the order of the calls of different threads is
	// captured by the inner store's hooked mutex.
	t.Observe(vlib.Hash(kind))
}

// point parks the calling managed thread before a storage call.
func (c *core) point(prov int, kind string) {
	t := vsched.Cur()
	if t == nil {
		return
	}
	if c.gated && !c.solo {
		c.inflight = -1
		t.Point(&vsched.Op{Kind: kind, Yield: true, Enabled: func() bool { return c.inflight < 0 && c.passed == c.nthreads }})
		c.inflight = prov
	} else {
		t.Point(&vsched.Op{Kind: kind})
	}
	observe(t, kind)
}

// gate is the first statement of a thread body in storage-level mode: the threads pass it one by
// one in arrival order, each running up to its first storage call, before any decision is taken.
func (c *core) gate(prov int) {
	t := vsched.Cur()
	if t == nil || !c.gated {
		return
	}
	me := c.started
	c.started++
	t.Point(&vsched.Op{Kind: "gate", Yield: true, Enabled: func() bool {
		return c.started == c.nthreads && c.inflight < 0 && c.passed == me
	}})
	c.passed++
	c.inflight = prov
	observe(t, "gate")
}

// local is a storage call without effect on the shared store (CreateObject of the in-memory store
// only allocates a local writer, Write fills its buffer): a plain scheduling point, hence a
// decision in full mode and a forced move in storage-level mode.
func (c *core) local(prov int, kind string) {
	t := vsched.Cur()
	if t == nil {
		return
	}
	t.Point(&vsched.Op{Kind: kind})
	observe(t, kind)
}

// inject asks the environment whether the storage call the calling thread is about to make fails:
// 0 no; 1 it fails without effect; 2 (modes == 3 only) it takes effect and reports failure. Only
// managed threads are asked (Setup and Teardown never see a failure). The explorer bounds the number
// of non-default answers per execution (d1x QuickEnv/ThoroughEnv), so the question is asked at
// every call: the decision sequence of an execution does not depend on the tier.
func (c *core) inject(prov int, kind string, modes int) int {
	if !c.faults || vsched.Cur() == nil {
		return 0
	}
	if !c.ambig {
		modes = 2
	}
	a := vsched.Choose(modes, "fail "+kind)
	if a != 0 {
		c.injBy[prov]++
	}
	return a
}

// pstore is provider prov's view of the shared store.
type pstore struct {
	c    *core
	prov int
}

var _ remote.Storage = (*pstore)(nil)

func (s *pstore) ev(op, name string, ok bool, n, inj int) {
	s.c.log = append(s.c.log, event{Prov: s.prov, Op: op, Name: name, OK: ok, N: n, Inj: inj})
}

func (s *pstore) Close() error { return nil }

func (s *pstore) ReadObject(ctx context.Context, name string) (remote.ObjectReader, int64, error) {
	s.c.point(s.prov, "remote.ReadObject "+name)
	if s.c.inject(s.prov, "ReadObject "+name, 2) != 0 {
		s.ev("open", name, false, 0, 1)
		return nil, 0, errInjected
	}
	r, sz, err := s.c.inner.ReadObject(ctx, name)
	s.ev("open", name, err == nil, 0, 0)
	if err != nil {
		return nil, 0, err
	}
	return &preader{s: s, name: name, r: r}, sz, nil
}

type preader struct {
	s    *pstore
	name string
	r    remote.ObjectReader
}

func (r *preader) ReadAt(ctx context.Context, p []byte, off int64) error {
	r.s.c.point(r.s.prov, "remote.ReadAt "+r.name)
	if r.s.c.inject(r.s.prov, "ReadAt "+r.name, 2) != 0 {
		r.s.ev("readat", r.name, false, 0, 1)
		return errInjected
	}
	err := r.r.ReadAt(ctx, p, off)
	r.s.ev("readat", r.name, err == nil, 0, 0)
	return err
}

// Close of a reader is local (no storage access): not a scheduling point, cannot fail.
func (r *preader) Close() error { return r.r.Close() }

func (s *pstore) CreateObject(name string) (io.WriteCloser, error) {
	s.c.local(s.prov, "remote.CreateObject "+name)
	if s.c.inject(s.prov, "CreateObject "+name, 2) != 0 {
		s.ev("create", name, false, 0, 1)
		return nil, errInjected
	}
	w, err := s.c.inner.CreateObject(name)
	s.ev("create", name, err == nil, 0, 0)
	if err != nil {
		return nil, err
	}
	return &pwriter{s: s, name: name, w: w}, nil
}

type pwriter struct {
	s      *pstore
	name   string
	w      io.WriteCloser
	closed bool
}

func (w *pwriter) Write(p []byte) (int, error) {
	w.s.c.local(w.s.prov, "remote.Write "+w.name)
	if w.s.c.inject(w.s.prov, "Write "+w.name, 2) != 0 {
		w.s.ev("write", w.name, false, 0, 1)
		return 0, errInjected
	}
	n, err := w.w.Write(p)
	w.s.ev("write", w.name, err == nil, 0, 0)
	return n, err
}

// Close is where the object becomes visible in the store. A failed Close (answer 1) does not
// finalize the upload: the object does not come into existence, and the writer is spent (a second
// Close, e.g. from an Abort path, is a no-op as for the in-memory writer).
func (w *pwriter) Close() error {
	if w.closed {
		return nil
	}
	w.closed = true
	w.s.c.point(w.s.prov, "remote.CloseWriter "+w.name)
	switch w.s.c.inject(w.s.prov, "CloseWriter "+w.name, 3) {
	case 1:
		w.s.ev("put", w.name, false, 0, 1)
		return errInjected
	case 2:
		if err := w.w.Close(); err != nil {
			panic(err)
		}
		w.s.ev("put", w.name, false, 0, 2)
		return errInjected
	}
	err := w.w.Close()
	w.s.ev("put", w.name, err == nil, 0, 0)
	return err
}

func (s *pstore) List(prefix, delimiter string) ([]string, error) {
	s.c.point(s.prov, "remote.List "+prefix)
	if s.c.inject(s.prov, "List "+prefix, 2) != 0 {
		s.ev("list", prefix, false, 0, 1)
		return nil, errInjected
	}
	res, err := s.c.inner.List(prefix, delimiter)
	s.ev("list", prefix, err == nil, len(res), 0)
	return res, err
}

func (s *pstore) Delete(name string) error {
	s.c.point(s.prov, "remote.Delete "+name)
	switch s.c.inject(s.prov, "Delete "+name, 3) {
	case 1:
		s.ev("delete", name, false, 0, 1)
		return errInjected
	case 2:
		if err := s.c.inner.Delete(name); err != nil {
			panic(err)
		}
		s.ev("delete", name, false, 0, 2)
		return errInjected
	}
	err := s.c.inner.Delete(name)
	s.ev("delete", name, err == nil, 0, 0)
	return err
}

func (s *pstore) Size(name string) (int64, error) {
	s.c.point(s.prov, "remote.Size "+name)
	if s.c.inject(s.prov, "Size "+name, 2) != 0 {
		s.ev("size", name, false, 0, 1)
		return 0, errInjected
	}
	n, err := s.c.inner.Size(name)
	s.ev("size", name, err == nil, 0, 0)
	return n, err
}

// IsNotExistError classifies an error value locally (no storage access, in every remote.Storage
// implementation): it commutes with everything, is not a scheduling point and cannot fail. An
// injected failure is NOT a not-exist error (the store did not say the object is missing).
func (s *pstore) IsNotExistError(err error) bool { return s.c.inner.IsNotExistError(err) }

// ------------------------------------------------------------------------------------------------

type step struct {
	op   string // attach | read | remove
	from int    // attach: provider whose backing is used
}

type scen struct {
	name    string
	nprov   int
	pre     []int    // providers (besides the creator P1) that attach before the threads race, each from P1's backing
	gated   bool     // storage-level mode: decisions only at storage calls, all interleavings at bound 0
	threads [][]step // threads[i] runs on provider i
	// faults: the store may fail. Then the object is created and the pre-attaches are made by the
	// first managed thread (a sequential prologue, so that the creation's and the sequential attaches'
	// storage calls can fail too) instead of by Setup, and a failed operation is retried once.
	faults  bool
	ambig   bool // Delete / writer Close may also fail after taking effect
	noretry bool // a failed operation is not retried
}

const objFileNum = base.DiskFileNum(1)

func fileNumOf(prov int) base.DiskFileNum {
	if prov == 0 {
		return objFileNum
	}
	return base.DiskFileNum(100 + prov + 1)
}

type result struct {
	CreateErr  error
	Created    bool    // Create+Write+Finish was attempted
	AttachErrs []error // one entry per AttachRemoteObjects call
	ReadErrs   []string
	RemoveErrs []error
	Done       bool // the provider's thread ran to its end
}

type h struct {
	sc       scen
	verbose  bool
	core     *core
	provs    []objstorage.Provider
	stores   []*pstore
	backing  []objstorage.RemoteObjectBacking // backing produced by provider i (handle already closed)
	data     []byte
	setupLen int // log entries written by Setup
	res      []result
	// prologue (fault scenarios): "" = completed, else what stopped it
	prologueStop string
	// filled by Teardown
	final     []string
	finalRead map[int]string // provider -> "" (identical bytes) or the failure
	closeErr  []error
	torn      bool
}

func must(err error) {
	if err != nil {
		panic(err)
	}
}

func (s *h) open(i int) objstorage.Provider {
	st := objstorageprovider.DefaultSettings(vfs.NewMem(), "")
	st.Logger = base.NoopLoggerAndTracer{}
	ps := &pstore{c: s.core, prov: i}
	s.stores = append(s.stores, ps)
	st.Remote.StorageFactory = remote.MakeSimpleFactory(map[remote.Locator]remote.Storage{
		remote.MakeLocator(""): ps,
	})
	st.Remote.CreateOnShared = remote.CreateOnSharedAll
	st.Remote.CreateOnSharedLocator = remote.MakeLocator("")
	p, err := objstorageprovider.Open(st)
	must(err)
	must(p.SetCreatorID(objstorage.CreatorID(i + 1)))
	return p
}

func (s *h) saveBacking(i int) {
	meta, err := s.provs[i].Lookup(base.FileTypeTable, fileNumOf(i))
	must(err)
	hd, err := s.provs[i].RemoteObjectBacking(&meta)
	must(err)
	b, err := hd.Get()
	must(err)
	s.backing[i] = append(objstorage.RemoteObjectBacking(nil), b...)
	// The handle is closed: from here on the backing may become invalid (objstorage.go: "only
	// guaranteed to be valid until Close is called"), which is the race under test. An open handle
	// would turn the origin's Remove into a no-op.
	hd.Close()
}

func (s *h) attach(i, from int) error {
	_, err := s.provs[i].AttachRemoteObjects([]objstorage.RemoteObjectToAttach{{
		FileNum: fileNumOf(i), FileType: base.FileTypeTable, Backing: s.backing[from],
	}})
	return err
}

// create makes P1 create the shared object: Create, one Write, Finish (Abort after a failed Write,
// as the Writable contract demands).
func (s *h) create() error {
	w, _, err := s.provs[0].Create(context.Background(), base.FileTypeTable, objFileNum, objstorage.CreateOptions{
		PreferSharedStorage: true, SharedCleanupMethod: objstorage.SharedRefTracking,
	})
	if err != nil {
		return err
	}
	if err := w.Write(append([]byte(nil), s.data...)); err != nil {
		w.Abort()
		return err
	}
	return w.Finish()
}

// readBack reads the whole object through provider i; "" means byte-identical.
func (s *h) readBack(i int) string {
	ctx := context.Background()
	r, err := s.provs[i].OpenForReading(ctx, base.FileTypeTable, fileNumOf(i), objstorage.OpenOptions{})
	if err != nil {
		return "OpenForReading: " + err.Error()
	}
	defer r.Close()
	if r.Size() != int64(len(s.data)) {
		return fmt.Sprintf("size %d, want %d", r.Size(), len(s.data))
	}
	buf := make([]byte, len(s.data))
	if err := r.ReadAt(ctx, buf, 0); err != nil {
		return "ReadAt: " + err.Error()
	}
	if !bytes.Equal(buf, s.data) {
		return "bytes differ"
	}
	return ""
}

func (s *h) Setup() {
	s.core = &core{inner: remote.NewInMem(), gated: s.sc.gated, inflight: -1, faults: s.sc.faults, ambig: s.sc.ambig, injBy: make([]int, s.sc.nprov)}
	for _, st := range s.sc.threads {
		if len(st) > 0 {
			s.core.nthreads++
		}
	}
	s.backing = make([]objstorage.RemoteObjectBacking, s.sc.nprov)
	s.res = make([]result, s.sc.nprov)
	s.data = make([]byte, 48)
	for i := range s.data {
		s.data[i] = byte(i*7 + 3)
	}
	for i := 0; i < s.sc.nprov; i++ {
		s.provs = append(s.provs, s.open(i))
	}
	if s.sc.faults {
		return // the object is created by the prologue of the first managed thread
	}
	must(s.create())
	s.saveBacking(0)
	for _, i := range s.sc.pre {
		must(s.attach(i, 0))
		s.saveBacking(i)
	}
	s.setupLen = len(s.core.log)
}

func (s *h) tev(i int, op string, ok bool) {
	s.core.log = append(s.core.log, event{Prov: i, Op: op, OK: ok})
}

// prologue runs on the first managed thread before the other threads exist (fault scenarios): P1
// creates the object, the pre-attachers attach one after the other. Every storage call can fail;
// nothing is retried here (a retried prologue would only reach the fault-free state again). A
// failed creation is followed by Remove, as the Writable contract asks of the caller. Returns
// false if the racing part cannot start.
func (s *h) prologue() bool {
	s.core.solo = true
	defer func() { s.core.solo = false }()
	r := &s.res[0]
	r.Created = true
	s.tev(0, "create-call", true)
	r.CreateErr = s.create()
	s.tev(0, "create-ret", r.CreateErr == nil)
	if r.CreateErr != nil {
		s.tev(0, "cleanup-call", true)
		err := s.provs[0].Remove(base.FileTypeTable, objFileNum)
		s.tev(0, "cleanup-ret", err == nil)
		s.prologueStop = "create-failed"
		return false
	}
	s.saveBacking(0)
	for _, i := range s.sc.pre {
		s.tev(i, "attach-call", true)
		err := s.attach(i, 0)
		s.res[i].AttachErrs = append(s.res[i].AttachErrs, err)
		s.tev(i, "attach-ret", err == nil)
		if err != nil {
			s.prologueStop = fmt.Sprintf("pre-attach-P%d-failed", i+1)
			return false
		}
		s.saveBacking(i)
	}
	return true
}

func (s *h) body(i int, steps []step) func() {
	return func() {
		r := &s.res[i]
		defer func() { s.core.inflight = -1 }()
		s.core.gate(i)
		// An operation that failed after the store failed one of its calls is retried once (the
		// caller cannot tell a transient failure from a refusal otherwise; a Remove is documented as
		// retryable). A failure without an injected fault is final.
		retry := func(f func() bool) bool {
			before := s.core.injBy[i]
			if f() {
				return true
			}
			if !s.sc.faults || s.sc.noretry || s.core.injBy[i] == before {
				return false
			}
			return f()
		}
		for _, st := range steps {
			switch st.op {
			case "attach":
				ok := retry(func() bool {
					s.tev(i, "attach-call", true)
					err := s.attach(i, st.from)
					r.AttachErrs = append(r.AttachErrs, err)
					s.tev(i, "attach-ret", err == nil)
					return err == nil
				})
				if !ok {
					r.Done = true
					return // the provider does not know the object: nothing to read or remove
				}
			case "read":
				retry(func() bool {
					s.tev(i, "read-call", true)
					msg := s.readBack(i)
					r.ReadErrs = append(r.ReadErrs, msg)
					s.tev(i, "read-ret", msg == "")
					return msg == ""
				})
			case "remove":
				retry(func() bool {
					s.tev(i, "remove-call", true)
					err := s.provs[i].Remove(base.FileTypeTable, fileNumOf(i))
					r.RemoveErrs = append(r.RemoveErrs, err)
					s.tev(i, "remove-ret", err == nil)
					return err == nil
				})
			}
		}
		r.Done = true
	}
}

func (s *h) Threads() []func() {
	var fs []func()
	for i := range s.sc.threads {
		if len(s.sc.threads[i]) == 0 {
			continue
		}
		fs = append(fs, s.body(i, s.sc.threads[i]))
	}
	if s.sc.gated {
		// Storage-level mode: the threads are spawned as a chain (thread i starts thread i+1 as its
		// first action and then waits at the gate), so that their "start" steps are forced moves
		// instead of n! equivalent orders.
		var chain func(i int) func()
		chain = func(i int) func() {
			return func() {
				if i == 0 && s.sc.faults && !s.prologue() {
					return
				}
				if i+1 < len(fs) {
					vsched.Go(chain(i + 1))
				}
				fs[i]()
			}
		}
		return []func(){chain(0)}
	}
	if s.sc.faults {
		// full mode with faults: the first thread runs the prologue and then starts the others
		return []func(){func() {
			if !s.prologue() {
				return
			}
			for _, f := range fs[1:] {
				vsched.Go(f)
			}
			fs[0]()
		}}
	}
	return fs
}

func (s *h) Teardown(deadlocked bool) {
	if deadlocked {
		return
	}
	// unmanaged from here on: the store answers truthfully
	s.final, _ = s.core.inner.List("", "")
	sort.Strings(s.final)
	s.finalRead = map[int]string{}
	for i := range s.provs {
		if _, err := s.provs[i].Lookup(base.FileTypeTable, fileNumOf(i)); err == nil {
			s.finalRead[i] = s.readBack(i)
		}
	}
	for _, p := range s.provs {
		err := p.Sync()
		if err == nil {
			err = p.Close()
		} else {
			p.Close()
		}
		s.closeErr = append(s.closeErr, err)
	}
	s.torn = true
}

// objName is the name of the shared object in the store: the first object a provider created.
func (s *h) objName() string {
	for _, e := range s.core.log {
		if e.Op == "create" {
			return e.Name
		}
	}
	return ""
}

// selfAttach reports whether provider i attaches a backing it produced itself.
func (s *h) selfAttach(i int) bool {
	for _, st := range s.sc.threads[i] {
		if st.op == "attach" && st.from == i {
			return true
		}
	}
	return false
}

func refNameOf(obj string, i int) string {
	return fmt.Sprintf("%s.ref.%d.%06d", obj, i+1, uint64(fileNumOf(i)))
}

// interleaving renders the calls with an effect on or a view of the shared store (everything but
// successful CreateObject/Write and the harness's own events) made by the threads: two executions
// with the same interleaving differ only in the order of provider-local steps.
func (s *h) interleaving() string {
	var b strings.Builder
	obj := s.objName()
	for _, e := range s.core.log[s.setupLen:] {
		switch e.Op {
		case "put", "delete", "size", "open", "readat", "list":
		case "create", "write":
			if e.Inj == 0 {
				continue
			}
		default:
			continue
		}
		b.WriteString(strings.ReplaceAll(e.String(), obj, "O"))
		b.WriteString("; ")
	}
	return b.String()
}

func (s *h) renderLog() string {
	var b strings.Builder
	obj := s.objName()
	for k, e := range s.core.log {
		if k == s.setupLen && k > 0 {
			b.WriteString(" || ")
		} else if k > 0 {
			b.WriteString("; ")
		}
		if obj != "" {
			b.WriteString(strings.ReplaceAll(e.String(), obj, "O"))
		} else {
			b.WriteString(e.String())
		}
	}
	return b.String()
}

// ctx lets judge count the distinct storage-call logs (c.State).
var ctx *vlib.Ctx

// Experiments only: C41_NOMARKERCHECK=1 switches the "success implies own marker exists" checks off,
// to see whether a defect is also caught by its consequences (deletion under a holder).
var noMarkerCheck = os.Getenv("C41_NOMARKERCHECK") != ""

func isOriginMarkerRefusal(err error) bool {
	return base.IsCorruptionError(err) && strings.Contains(err.Error(), "origin marker object")
}

// judge is the oracle. A provider HOLDS a reference from the moment its creation
// (Create+Write+Finish) or its AttachRemoteObjects reported success until a Remove of its makes its
// first call that reaches the store (a Remove whose calls all failed without effect released
// nothing). Demanded in every execution, with or without failures of the store:
//   - while a holder exists the object exists (deleted-while-referenced);
//   - a creation / an attach reports success only while the object and the provider's own marker
//     exist (otherwise nothing protects the reference it reported);
//   - a holder reads the object back byte-identically, in its thread (a read in which the store
//     failed a call may fail; its retry is judged like any read) and at the end (fault-free);
//   - an operation in which the store did not fail any call fails only in the documented way
//     (attach: origin-marker corruption error; Remove, creation, read of a holder: never).
//
// An operation that reported an error after the store failed one of its calls may leave garbage
// behind: a marker of a non-holder / the object without holders is accepted at the end only if the
// last creation/attach/Remove of that provider (for the object: of some provider) was such an
// operation. An attach refused by a store that did not fail must clean up after itself.
func judge(hh vsched.Harness, x *vsched.Exec) (outcome, class, desc string) {
	s := hh.(*h)
	if ctx != nil && s.torn {
		il := s.interleaving()
		ctx.State(vlib.Hash("interleaving", s.sc.threads, s.sc.pre, s.sc.faults, il))
		if os.Getenv("C41_DUMPLOGS") != "" {
			fmt.Printf("LOG %v %s\n", x.Choices, il)
		}
	}
	if !s.torn {
		return "no-teardown", "harness-no-teardown", "Teardown did not run"
	}
	if s.verbose {
		for k, e := range s.core.log {
			fmt.Printf("  log[%d] %s\n", k, e)
		}
		fmt.Printf("  final store: %v\n", s.final)
	}
	fail := func(cl, d string) (string, string, string) {
		return cl, cl, d + " | log: " + s.renderLog()
	}
	obj := s.objName()
	ref := func(i int) string { return refNameOf(obj, i) }
	// Step-by-step pass over the log with a shadow of the store.
	shadow := map[string]bool{}
	holder := map[int]bool{}
	if !s.sc.faults {
		holder[0] = true
		for _, i := range s.sc.pre {
			holder[i] = true
		}
	}
	deletedBy := -1
	// A reference is given up by calling Remove. The code between that call and Remove's first
	// storage call is local to the provider, so an equivalent execution has the call immediately
	// before that storage call: the provider counts as a holder until then.
	releasing := map[int]bool{}
	faultIn := map[int]bool{}    // the store failed a call of the provider's current operation
	lastErr := map[int]bool{}    // the provider's last creation/attach/Remove failed after the store failed one of its calls
	attachNo := map[int]int{}    // index of the provider's next attach result
	removeNo := map[int]int{}    // ... Remove result
	readNo := map[int]int{}      // ... read result
	attached := map[int]string{} // outcome rendering
	var faults []string
	for k, e := range s.core.log {
		exists := shadow[e.Name]
		bad := false
		// The reference is released by the first call of the Remove that reaches the store. A call the
		// store failed without effect (Inj == 1) neither changes nor observes the store, so it commutes
		// with the other providers' calls (and the state cache merges such orders): the verdict must
		// not depend on its position. A Remove that fails before any of its calls reached the store
		// has released nothing (the provider keeps the object and its marker and may retry).
		if releasing[e.Prov] {
			switch e.Op {
			case "create", "write", "put", "delete", "size", "open", "readat", "list":
				if e.Inj != 1 {
					delete(releasing, e.Prov)
					delete(holder, e.Prov)
				}
			case "remove-ret", "cleanup-ret":
				delete(releasing, e.Prov)
				if e.OK {
					delete(holder, e.Prov)
				}
			}
		}
		if e.Inj != 0 {
			faultIn[e.Prov] = true
			f := e.Op
			if e.Inj == 2 {
				f += "*"
			}
			faults = append(faults, f)
		}
		applied := e.OK || e.Inj == 2
		switch e.Op {
		case "create", "write":
			bad = e.Inj == 0 && !e.OK
		case "put":
			if applied {
				shadow[e.Name] = true
			}
		case "delete":
			if applied {
				if e.Name == obj && exists {
					deletedBy = e.Prov
				}
				delete(shadow, e.Name)
			}
			bad = e.Inj == 0 && !e.OK
		case "size", "open", "readat":
			bad = e.Inj == 0 && e.OK != exists
		case "list":
			n := 0
			for name := range shadow {
				if strings.HasPrefix(name, e.Name) {
					n++
				}
			}
			bad = e.Inj == 0 && (!e.OK || n != e.N)
		case "create-call", "attach-call", "read-call":
			faultIn[e.Prov] = false
		case "remove-call", "cleanup-call":
			faultIn[e.Prov] = false
			releasing[e.Prov] = true
		case "create-ret":
			lastErr[e.Prov] = !e.OK && faultIn[e.Prov]
			if e.OK {
				holder[e.Prov] = true
				if !shadow[obj] {
					return fail("create-succeeded-without-object", fmt.Sprintf("step %d: the creation by P%d (Create, Write, Finish) reported success but the object is not in the store", k, e.Prov+1))
				}
				if !shadow[ref(e.Prov)] && !noMarkerCheck {
					return fail("create-without-ref-marker", fmt.Sprintf("step %d: the creation by P%d reported success but its ref marker %s does not exist", k, e.Prov+1, ref(e.Prov)))
				}
			} else if !faultIn[e.Prov] {
				return fail("unexpected-create-error", fmt.Sprintf("step %d: the creation by P%d failed although the store did not fail any of its calls: %v", k, e.Prov+1, s.res[e.Prov].CreateErr))
			}
		case "cleanup-ret":
			// Remove after a failed creation: any answer is acceptable (the provider may or may not
			// know the object any more)
		case "attach-ret":
			lastErr[e.Prov] = !e.OK && faultIn[e.Prov]
			err := s.res[e.Prov].AttachErrs[attachNo[e.Prov]]
			attachNo[e.Prov]++
			if (err == nil) != e.OK {
				return fail("harness-log-inconsistent", fmt.Sprintf("step %d: attach result mismatch", k))
			}
			if e.OK {
				holder[e.Prov] = true
				attached[e.Prov] = "attached"
				if attachNo[e.Prov] > 1 {
					attached[e.Prov] = "attached-on-retry"
				}
				if !shadow[obj] {
					cl := "attach-succeeded-on-deleted-object"
					if s.selfAttach(e.Prov) {
						cl = "self-reattach-succeeds-on-deleted-object"
					}
					return fail(cl, fmt.Sprintf("step %d: AttachRemoteObjects of P%d returned nil but the object is already deleted", k, e.Prov+1))
				}
				if !shadow[ref(e.Prov)] && !noMarkerCheck {
					return fail("attach-without-ref-marker", fmt.Sprintf("step %d: AttachRemoteObjects of P%d returned nil but its ref marker %s does not exist", k, e.Prov+1, ref(e.Prov)))
				}
			} else {
				switch {
				case isOriginMarkerRefusal(err):
					attached[e.Prov] = "refused"
				case faultIn[e.Prov]:
					attached[e.Prov] = "failed"
				default:
					return fail("unexpected-attach-error", fmt.Sprintf("step %d: AttachRemoteObjects of P%d failed with something else than the origin-marker error although the store did not fail any of its calls: %v", k, e.Prov+1, err))
				}
			}
		case "remove-ret":
			lastErr[e.Prov] = !e.OK && faultIn[e.Prov]
			err := s.res[e.Prov].RemoveErrs[removeNo[e.Prov]]
			removeNo[e.Prov]++
			if !e.OK && !faultIn[e.Prov] {
				return fail("unexpected-remove-error", fmt.Sprintf("step %d: Remove of P%d failed although the store did not fail any of its calls: %v", k, e.Prov+1, err))
			}
		case "read-ret":
			msg := s.res[e.Prov].ReadErrs[readNo[e.Prov]]
			readNo[e.Prov]++
			if !e.OK && !faultIn[e.Prov] {
				return fail("held-object-unreadable", fmt.Sprintf("step %d: P%d holds a reference but could not read the object back although the store did not fail any call of the read: %s", k, e.Prov+1, msg))
			}
		default:
			bad = true
		}
		if bad {
			return fail("harness-log-inconsistent", fmt.Sprintf("step %d (%s) is inconsistent with the shadow store: the log order is not the execution order", k, e))
		}
		if k >= s.setupLen && len(holder) > 0 && !shadow[obj] {
			var hs []string
			for i := range holder {
				hs = append(hs, fmt.Sprintf("P%d", i+1))
			}
			sort.Strings(hs)
			return fail("deleted-while-referenced", fmt.Sprintf("step %d (%s): the object is gone while %v hold(s) an unreleased reference", k, e, hs))
		}
	}
	// Every thread that was started ran to its end (threads spawned by a managed thread are not
	// covered by the scheduler's deadlock detection).
	if s.prologueStop == "" {
		for i, st := range s.sc.threads {
			if len(st) > 0 && !s.res[i].Done {
				return fail("thread-did-not-finish", fmt.Sprintf("the thread of P%d did not run to its end", i+1))
			}
		}
	}
	// A failed attach leaves no metadata behind.
	var parts []string
	if s.prologueStop != "" {
		parts = append(parts, s.prologueStop)
	}
	for i := range s.res {
		st, ok := attached[i]
		if !ok {
			continue
		}
		parts = append(parts, fmt.Sprintf("P%d:%s", i+1, st))
		if st == "refused" || st == "failed" {
			if _, err := s.provs[i].Lookup(base.FileTypeTable, fileNumOf(i)); err == nil {
				return fail("failed-attach-left-metadata", fmt.Sprintf("P%d knows the object after a failed attach", i+1))
			}
		}
	}
	// Final state.
	final := map[string]bool{}
	for _, n := range s.final {
		final[n] = true
	}
	if len(final) != len(shadow) {
		return fail("harness-log-inconsistent", fmt.Sprintf("final store %v differs from the shadow", s.final))
	}
	for n := range shadow {
		if !final[n] {
			return fail("harness-log-inconsistent", fmt.Sprintf("final store %v differs from the shadow", s.final))
		}
	}
	anyErr := false
	for _, v := range lastErr {
		anyErr = anyErr || v
	}
	objExists := obj != "" && final[obj]
	switch {
	case objExists && len(holder) > 0:
		parts = append(parts, "object=kept")
	case objExists:
		parts = append(parts, "object=leaked")
	case deletedBy >= 0:
		parts = append(parts, fmt.Sprintf("object=deleted-by-P%d", deletedBy+1))
	default:
		parts = append(parts, "object=never-created")
	}
	if len(faults) > 0 {
		sort.Strings(faults) // the order of failures of different providers is not part of the outcome
		parts = append(parts, "store-failed="+strings.Join(faults, ","))
	}
	outcome = strings.Join(parts, " ")
	if objExists && len(holder) == 0 && !anyErr {
		return fail("object-leaked", "no provider holds a reference at the end and no provider's last creation/attach/Remove failed because of the store, but the object still exists")
	}
	if !objExists && len(holder) > 0 {
		return fail("deleted-while-referenced", "the object is gone at the end although a holder remains")
	}
	known := map[string]bool{obj: true}
	for i := 0; i < s.sc.nprov; i++ {
		m := ref(i)
		known[m] = true
		if final[m] && !holder[i] && !lastErr[i] {
			return fail("stray-ref-marker", fmt.Sprintf("ref marker %s of P%d remains although P%d holds no reference and its last creation/attach/Remove did not fail because of the store", m, i+1, i+1))
		}
		if !final[m] && holder[i] && !noMarkerCheck {
			return fail("holder-without-ref-marker", fmt.Sprintf("P%d holds a reference but its marker %s is gone", i+1, m))
		}
	}
	for n := range final {
		if !known[n] {
			return fail("unexpected-object", "unexpected object in the store: "+n)
		}
	}
	for i := 0; i < s.sc.nprov; i++ {
		msg, knows := s.finalRead[i]
		if holder[i] && !knows {
			return fail("provider-metadata-mismatch", fmt.Sprintf("P%d holds a reference but does not know the object (Lookup failed)", i+1))
		}
		// a provider keeps the object in its list after a failed Remove (documented: to allow a retry)
		// and may keep it after a failed creation (Writable.Finish: the caller removes it)
		if knows && !holder[i] && !lastErr[i] {
			return fail("provider-metadata-mismatch", fmt.Sprintf("P%d holds no reference and its last operation did not fail because of the store, but it still knows the object", i+1))
		}
		if holder[i] && msg != "" {
			return fail("held-object-unreadable", fmt.Sprintf("P%d holds a reference at the end but cannot read the object back from a store that does not fail: %s", i+1, msg))
		}
	}
	for i, err := range s.closeErr {
		if err != nil {
			return fail("close-error", fmt.Sprintf("P%d Sync/Close: %v", i+1, err))
		}
	}
	return outcome, "", ""
}

type plan struct {
	sc                  scen
	quick, thorough     int     // preemption bounds (storage-level mode: 0 = all interleavings)
	qenv, tenv          int     // injected store failures per execution (fault scenarios)
	weight              float64 // share of the time budget (proportional to the measured size)
	qweight             float64 // quick tier, if different
	quickTier, thorTier bool
}

func plans() []plan {
	A := func(from int) step { return step{op: "attach", from: from} }
	R := step{op: "read"}
	X := step{op: "remove"}
	// S1: the creator removes while P2 attaches from the creator's backing (and reads).
	s1 := [][]step{{X}, {A(0), R}}
	// S4: ... and the attacher gives its reference up again.
	s4 := [][]step{{X}, {A(0), R, X}}
	// S2: two attachers.
	s2 := [][]step{{X}, {A(0), R}, {A(0), R}}
	// S3: P2 attached before; P3 attaches from P2's backing while P2 and P1 remove.
	s3 := [][]step{{X}, {X}, {A(1), R}}
	// S5: S2 with attachers that remove again: the last of three must delete.
	s5 := [][]step{{X}, {A(0), X}, {A(0), X}}
	// S5r: S5 with the read between attach and remove.
	s5r := [][]step{{X}, {A(0), R, X}, {A(0), R, X}}
	// S6: S3 with an attacher that removes again (three removals, one racing attach).
	s6 := [][]step{{X}, {X}, {A(1), R, X}}
	// S7: as S3, but P3 attaches from the creator's backing while the earlier attacher P2 removes too.
	s7 := [][]step{{X}, {X}, {A(0), R}}
	// S0: the creator keeps its reference and reads while P2 attaches, reads and removes again (the
	// object must survive everything P2 does or fails to do).
	s0 := [][]step{{R}, {A(0), R, X}}
	// S8 (NOT part of a tier; VERIF_SCENARIO=S8-selfreattach only): P2, attached before, removes its
	// reference and then attaches the backing IT produced itself again under the SAME file number,
	// while P1 removes. The origin marker named by that backing is the marker the attach has just
	// re-created, so the check passes whatever happened to the object (reported as known behaviour of
	// the unchanged tree under class self-reattach-succeeds-on-deleted-object; a DB never reuses a
	// file number, see checks.d/C41.json).
	s8 := [][]step{{X}, {X, A(1)}}
	g := func(name string, nprov int, pre []int, th [][]step, w, qw float64) plan {
		return plan{sc: scen{name: name, nprov: nprov, pre: pre, threads: th, gated: true}, weight: w, qweight: qw, quickTier: qw > 0, thorTier: true}
	}
	f := func(name string, nprov int, pre []int, th [][]step, q, t int, w, qw float64) plan {
		return plan{sc: scen{name: name, nprov: nprov, pre: pre, threads: th}, quick: q, thorough: t, weight: w, qweight: qw, quickTier: true, thorTier: true}
	}
	// Fault scenarios (storage-level mode with a failing store: all interleavings x failures at every
	// position). The variants have different names because the set of answers of a Choose and the
	// retry policy differ (a replay finds its variant by name, whatever the tier):
	//   <shape>-fault    failures without effect, a failed operation is retried once
	//   <shape>-faultn   failures without effect, no retries
	//   <shape>-faultx   Delete and writer Close may also fail after taking effect; retries
	//   <shape>-faultxn  the same without retries
	// qenv/tenv: failures per execution in the quick/thorough tier; 0: the variant does not run there.
	gf := func(name string, nprov int, pre []int, th [][]step, ambig, noretry bool, qenv, tenv int, w float64) plan {
		return plan{sc: scen{name: name, nprov: nprov, pre: pre, threads: th, gated: true, faults: true, ambig: ambig, noretry: noretry},
			qenv: qenv, tenv: tenv, weight: w, quickTier: qenv > 0, thorTier: tenv > 0}
	}
	ff := func(name string, nprov int, pre []int, th [][]step, ambig bool, q, t int, quick bool, w float64) plan {
		return plan{sc: scen{name: name, nprov: nprov, pre: pre, threads: th, faults: true, ambig: ambig}, quick: q, thorough: t, qenv: 1, tenv: 1, weight: w, quickTier: quick, thorTier: !quick}
	}
	p2 := []int{1}
	// Weights = measured sizes in thousands of executions (thorough, quick; with a floor for the
	// small ones, whose cost is the start-up), so that the shares of the time budget follow the work.
	ps := []plan{
		// storage-level mode: every interleaving of the storage calls (bound 0 is already unbounded)
		g("S1-all", 2, nil, s1, 1, 2),
		g("S4-all", 2, nil, s4, 1, 2),
		g("S3-all", 3, p2, s3, 3, 4),
		g("S7-all", 3, p2, s7, 3, 4),
		g("S2-all", 3, nil, s2, 12, 14),
		g("S5-all", 3, nil, s5, 21, 0),
		g("S6-all", 3, p2, s6, 6, 0),
		g("S5r-all", 3, nil, s5r, 238, 0),
	}
	ps = append(ps, plan{sc: scen{name: "S8-selfreattach", nprov: 2, pre: p2, threads: s8, gated: true}, weight: 1})
	ps = append(ps,
		// quick tier: two failures in S0 and S1, one in S4 and (no retries) in the three-provider shape S3
		gf("S0-fault", 2, nil, s0, false, false, 2, 0, 5),
		gf("S1-fault", 2, nil, s1, false, false, 2, 0, 10),
		gf("S4-fault", 2, nil, s4, false, false, 1, 0, 3),
		gf("S3-faultn", 3, p2, s3, false, true, 1, 0, 13),
		// thorough tier: two failures incl. the lost-acknowledgement mode in the two-provider shapes;
		// one failure in the three-provider shapes (S3 with retries, and all three with the
		// lost-acknowledgement mode but without retries)
		gf("S0-faultx", 2, nil, s0, true, false, 0, 2, 6),
		gf("S1-faultx", 2, nil, s1, true, false, 0, 2, 25),
		gf("S4-faultx", 2, nil, s4, true, false, 0, 2, 40),
		gf("S3-fault", 3, p2, s3, false, false, 0, 1, 118),
		gf("S3-faultxn", 3, p2, s3, true, true, 0, 1, 16),
		gf("S7-faultxn", 3, p2, s7, true, true, 0, 1, 16),
		gf("S2-faultxn", 3, nil, s2, true, true, 0, 1, 110))
	// full mode: every hooked mutex/atomic operation is a scheduling point as well
	ps = append(ps,
		f("S1-full", 2, nil, s1, 2, 4, 10, 1),
		f("S4-full", 2, nil, s4, 2, 4, 17, 1.2),
		f("S3-full", 3, p2, s3, 1, 3, 84, 1),
		f("S2-full", 3, nil, s2, 1, 2, 12, 1),
		f("S5-full", 3, nil, s5, 1, 2, 14, 1),
		ff("S1-full-fault", 2, nil, s1, false, 1, 1, true, 1),
		ff("S4-full-fault", 2, nil, s4, false, 1, 1, true, 1),
		ff("S1-full-faultx", 2, nil, s1, true, 2, 2, false, 6),
		ff("S4-full-faultx", 2, nil, s4, true, 2, 2, false, 7))
	return ps
}

func TestCheck(t *testing.T) {
	vlib.Main(t, "C41", func(c *vlib.Ctx) {
		verbose := c.ReplayPath() != "" || os.Getenv("C41_VERBOSE") != ""
		ctx = c
		var list []d1x.Scenario
		for _, p := range plans() {
			p := p
			if c.ReplayPath() == "" && os.Getenv("VERIF_SCENARIO") == "" {
				if c.Thorough() && !p.thorTier || !c.Thorough() && !p.quickTier {
					continue
				}
			}
			if v := os.Getenv("C41_BOUND"); v != "" && !p.sc.gated { // experiments only
				fmt.Sscan(v, &p.quick)
				p.thorough = p.quick
			}
			if v := os.Getenv("C41_ENV"); v != "" && p.sc.faults { // experiments only
				fmt.Sscan(v, &p.qenv)
				p.tenv = p.qenv
			}
			w := p.weight
			if !c.Thorough() && p.qweight > 0 {
				w = p.qweight
			}
			list = append(list, d1x.Scenario{Name: p.sc.name, QuickBound: p.quick, ThoroughBound: p.thorough, QuickEnv: p.qenv, ThoroughEnv: p.tenv, Weight: w, Judge: judge,
				New: func() vsched.Harness { return &h{sc: p.sc, verbose: verbose} }})
		}
		// Thorough tier: smallest first (the weights are the measured sizes), so that a large scenario
		// that overruns its share of the budget on a loaded machine cannot starve the small ones behind
		// it (d1x deadlines are cumulative). The quick tier keeps the listed order (plain, failing
		// store, full mode; each group simplest first).
		if c.Thorough() {
			sort.SliceStable(list, func(i, j int) bool { return list[i].Weight < list[j].Weight })
		}
		// every scenario gets at least 1/25 of the budget: start-up and the determinism gate dominate
		// the small ones, and unused time passes on to the scenarios behind
		total := 0.0
		for _, sc := range list {
			total += sc.Weight
		}
		for i := range list {
			if list[i].Weight < total/25 {
				list[i].Weight = total / 25
			}
		}
		var names []string
		for _, sc := range list {
			names = append(names, sc.Name)
		}
		c.Note("scope", fmt.Sprintf("scenarios run in this tier: %v. '-all' = storage-level mode: scheduling decisions only at storage calls (provider-local code runs as forced moves), every choice free, so the reported 'bound 0' is ALL interleavings of the storage calls; '-fault*' = the same with a failing store: every storage call of a managed thread asks the environment whether it fails (no effect on the store; 'x' in the suffix: Delete and writer Close may also take effect and then report failure), '(+k injected faults)' = every placement of at most k failures combined with all interleavings, the object is created and the earlier attaches are made by the first managed thread so that they can fail too, a failed attach/read/Remove of the racing part is retried once unless the suffix has an 'n'; '-full' = every hooked mutex/atomic operation and every storage call is a scheduling point, all schedules up to the listed preemption bound ('-full-fault': plus the failures). states = distinct storage-call interleavings (calls with their results incl. injected failures, per scenario shape) + distinct outcomes.", names))
		d1x.Run(t, c, list)
	})
}
