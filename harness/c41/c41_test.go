// C41: shared objects are deleted only when no provider references them. Engine D1: two or three
// real objstorage providers (each with its own MemFS directory and creator ID, each used by one
// managed thread) on ONE shared remote.NewInMem() storage whose every call is a scheduling point;
// the providers' and the store's mutexes are hooked as well (instrumented build). All schedules up
// to the preemption bound are executed; every execution is judged step by step on the exact log of
// storage calls.
package c41

import (
	"bytes"
	"context"
	"fmt"
	"io"
	"os"
	"sort"
	"strings"
	"testing"

	"github.com/cockroachdb/pebble/internal/base"
	"github.com/cockroachdb/pebble/internal/verif/d1x"
	"github.com/cockroachdb/pebble/internal/verif/vlib"
	"github.com/cockroachdb/pebble/internal/verif/vsched"
	"github.com/cockroachdb/pebble/objstorage"
	"github.com/cockroachdb/pebble/objstorage/objstorageprovider"
	"github.com/cockroachdb/pebble/objstorage/remote"
	"github.com/cockroachdb/pebble/vfs"
)

// ------------------------------------------------------------------------------------------------
// The shared store: remote.NewInMem() behind a wrapper that (a) makes every call a scheduling
// point and (b) appends every call with its result to one event log.
//
// The log order is the real order of the operations: the vsync shims park BEFORE performing an
// operation, so after the inner store released its mutex the calling thread runs without
// interruption until the log append. Judge re-validates this on every execution by replaying the
// log against a shadow map (class harness-log-inconsistent).

type event struct {
	Prov int    // 0-based provider index; -1: harness
	Op   string // create, put (writer close: the object appears), delete, size, open, readat, list | attach-ret, remove-call, remove-ret, read-ret
	Name string
	OK   bool // the call returned no error
	N    int  // list: number of results
}

func (e event) String() string {
	s := fmt.Sprintf("P%d %s", e.Prov+1, e.Op)
	if e.Name != "" {
		s += " " + e.Name
	}
	switch e.Op {
	case "list":
		return s + fmt.Sprintf(" -> %d", e.N)
	case "remove-call":
		return s
	}
	if e.OK {
		return s + " -> ok"
	}
	return s + " -> err"
}

type core struct {
	inner remote.Storage
	log   []event
	// Storage-level mode (gated): a scheduling decision is taken only when every unfinished thread
	// is parked at a storage call. While one thread is "in flight" (between two of its storage
	// calls) the storage points of the others are disabled, so its mutex/atomic points are forced
	// moves; the storage points are marked Yield, so that choosing any thread is free of deviation
	// cost and bound 0 already enumerates ALL interleavings of the storage calls. Sound because the
	// code between two storage calls of a provider touches only that provider's state (one thread
	// per provider; the store is the only shared object).
	gated    bool
	nthreads int
	started  int // threads that reached the gate
	passed   int // threads that passed the gate
	inflight int // provider whose thread is between two storage calls, -1: none
}

func observe(t *vsched.Thread, kind string) {
	// The explorer's state cache keys a state by the threads' history hashes, which only the
	// sync/atomic shims advance: a scheduling point that leaves the hash unchanged makes "before the
	// call" and "after the call" the same state and the cache prunes everything behind it (measured:
	// the cached run missed outcomes the cache-less run found). Hence the call is mixed into the
	// thread's history as soon as it resumes; the order of the calls of different threads is
	// captured by the inner store's hooked mutex.
	t.Observe(vlib.Hash(kind))
}

// point parks the calling managed thread before a storage call.
func (c *core) point(prov int, kind string) {
	t := vsched.Cur()
	if t == nil {
		return
	}
	if c.gated {
		c.inflight = -1
		t.Point(&vsched.Op{Kind: kind, Yield: true, Enabled: func() bool { return c.inflight < 0 && c.passed == c.nthreads }})
		c.inflight = prov
	} else {
		t.Point(&vsched.Op{Kind: kind})
	}
	observe(t, kind)
}

// gate is the first statement of a thread body in storage-level mode: the threads pass it one by
// one in arrival order, each running up to its first storage call, before any decision is taken.
func (c *core) gate(prov int) {
	t := vsched.Cur()
	if t == nil || !c.gated {
		return
	}
	me := c.started
	c.started++
	t.Point(&vsched.Op{Kind: "gate", Yield: true, Enabled: func() bool {
		return c.started == c.nthreads && c.inflight < 0 && c.passed == me
	}})
	c.passed++
	c.inflight = prov
	observe(t, "gate")
}

// local is a storage call without effect on the shared store (CreateObject of the in-memory store
// only allocates a local writer, Write fills its buffer): a plain scheduling point, hence a
// decision in full mode and a forced move in storage-level mode.
func (c *core) local(prov int, kind string) {
	t := vsched.Cur()
	if t == nil {
		return
	}
	t.Point(&vsched.Op{Kind: kind})
	observe(t, kind)
}

// pstore is provider prov's view of the shared store.
type pstore struct {
	c    *core
	prov int
}

var _ remote.Storage = (*pstore)(nil)

func (s *pstore) ev(op, name string, ok bool, n int) {
	s.c.log = append(s.c.log, event{Prov: s.prov, Op: op, Name: name, OK: ok, N: n})
}

func (s *pstore) Close() error { return nil }

func (s *pstore) ReadObject(ctx context.Context, name string) (remote.ObjectReader, int64, error) {
	s.c.point(s.prov, "remote.ReadObject "+name)
	r, sz, err := s.c.inner.ReadObject(ctx, name)
	s.ev("open", name, err == nil, 0)
	if err != nil {
		return nil, 0, err
	}
	return &preader{s: s, name: name, r: r}, sz, nil
}

type preader struct {
	s    *pstore
	name string
	r    remote.ObjectReader
}

func (r *preader) ReadAt(ctx context.Context, p []byte, off int64) error {
	r.s.c.point(r.s.prov, "remote.ReadAt "+r.name)
	err := r.r.ReadAt(ctx, p, off)
	r.s.ev("readat", r.name, err == nil, 0)
	return err
}

// Close of a reader is local (no storage access): not a scheduling point.
func (r *preader) Close() error { return r.r.Close() }

func (s *pstore) CreateObject(name string) (io.WriteCloser, error) {
	s.c.local(s.prov, "remote.CreateObject "+name)
	w, err := s.c.inner.CreateObject(name)
	s.ev("create", name, err == nil, 0)
	if err != nil {
		return nil, err
	}
	return &pwriter{s: s, name: name, w: w}, nil
}

type pwriter struct {
	s    *pstore
	name string
	w    io.WriteCloser
}

func (w *pwriter) Write(p []byte) (int, error) {
	w.s.c.local(w.s.prov, "remote.Write "+w.name)
	return w.w.Write(p)
}

// Close is where the object becomes visible in the store.
func (w *pwriter) Close() error {
	w.s.c.point(w.s.prov, "remote.CloseWriter "+w.name)
	err := w.w.Close()
	w.s.ev("put", w.name, err == nil, 0)
	return err
}

func (s *pstore) List(prefix, delimiter string) ([]string, error) {
	s.c.point(s.prov, "remote.List "+prefix)
	res, err := s.c.inner.List(prefix, delimiter)
	s.ev("list", prefix, err == nil, len(res))
	return res, err
}

func (s *pstore) Delete(name string) error {
	s.c.point(s.prov, "remote.Delete "+name)
	err := s.c.inner.Delete(name)
	s.ev("delete", name, err == nil, 0)
	return err
}

func (s *pstore) Size(name string) (int64, error) {
	s.c.point(s.prov, "remote.Size "+name)
	n, err := s.c.inner.Size(name)
	s.ev("size", name, err == nil, 0)
	return n, err
}

// IsNotExistError classifies an error value locally (no storage access, in every remote.Storage
// implementation): it commutes with everything and is not a scheduling point.
func (s *pstore) IsNotExistError(err error) bool { return s.c.inner.IsNotExistError(err) }

// ------------------------------------------------------------------------------------------------

type step struct {
	op   string // attach | read | remove
	from int    // attach: provider whose backing is used
}

type scen struct {
	name    string
	nprov   int
	pre     []int    // providers (besides the creator P1) that attach in Setup, each from P1's backing
	gated   bool     // storage-level mode: decisions only at storage calls, all interleavings at bound 0
	threads [][]step // threads[i] runs on provider i
}

const objFileNum = base.DiskFileNum(1)

func fileNumOf(prov int) base.DiskFileNum {
	if prov == 0 {
		return objFileNum
	}
	return base.DiskFileNum(100 + prov + 1)
}

type result struct {
	Attached  bool // AttachRemoteObjects was called
	AttachErr error
	ReadDone  bool
	ReadErr   string
	Removed   bool // Remove was called
	RemoveErr error
}

type h struct {
	sc       scen
	verbose  bool
	core     *core
	provs    []objstorage.Provider
	stores   []*pstore
	backing  []objstorage.RemoteObjectBacking // backing produced by provider i (handle already closed)
	data     []byte
	objName  string
	setupLen int // log entries written by Setup
	res      []result
	// filled by Teardown
	final     []string
	finalRead map[int]string // provider -> "" (identical bytes) or the failure
	closeErr  []error
	torn      bool
}

func must(err error) {
	if err != nil {
		panic(err)
	}
}

func (s *h) open(i int) objstorage.Provider {
	st := objstorageprovider.DefaultSettings(vfs.NewMem(), "")
	st.Logger = base.NoopLoggerAndTracer{}
	ps := &pstore{c: s.core, prov: i}
	s.stores = append(s.stores, ps)
	st.Remote.StorageFactory = remote.MakeSimpleFactory(map[remote.Locator]remote.Storage{
		remote.MakeLocator(""): ps,
	})
	st.Remote.CreateOnShared = remote.CreateOnSharedAll
	st.Remote.CreateOnSharedLocator = remote.MakeLocator("")
	p, err := objstorageprovider.Open(st)
	must(err)
	must(p.SetCreatorID(objstorage.CreatorID(i + 1)))
	return p
}

func (s *h) saveBacking(i int) {
	meta, err := s.provs[i].Lookup(base.FileTypeTable, fileNumOf(i))
	must(err)
	hd, err := s.provs[i].RemoteObjectBacking(&meta)
	must(err)
	b, err := hd.Get()
	must(err)
	s.backing[i] = append(objstorage.RemoteObjectBacking(nil), b...)
	// The handle is closed: from here on the backing may become invalid (objstorage.go: "only
	// guaranteed to be valid until Close is called"), which is the race under test. An open handle
	// would turn the origin's Remove into a no-op.
	hd.Close()
}

func (s *h) attach(i, from int) error {
	_, err := s.provs[i].AttachRemoteObjects([]objstorage.RemoteObjectToAttach{{
		FileNum: fileNumOf(i), FileType: base.FileTypeTable, Backing: s.backing[from],
	}})
	return err
}

// readBack reads the whole object through provider i; "" means byte-identical.
func (s *h) readBack(i int) string {
	ctx := context.Background()
	r, err := s.provs[i].OpenForReading(ctx, base.FileTypeTable, fileNumOf(i), objstorage.OpenOptions{})
	if err != nil {
		return "OpenForReading: " + err.Error()
	}
	defer r.Close()
	if r.Size() != int64(len(s.data)) {
		return fmt.Sprintf("size %d, want %d", r.Size(), len(s.data))
	}
	buf := make([]byte, len(s.data))
	if err := r.ReadAt(ctx, buf, 0); err != nil {
		return "ReadAt: " + err.Error()
	}
	if !bytes.Equal(buf, s.data) {
		return "bytes differ"
	}
	return ""
}

func (s *h) Setup() {
	s.core = &core{inner: remote.NewInMem(), gated: s.sc.gated, inflight: -1}
	for _, st := range s.sc.threads {
		if len(st) > 0 {
			s.core.nthreads++
		}
	}
	s.backing = make([]objstorage.RemoteObjectBacking, s.sc.nprov)
	s.res = make([]result, s.sc.nprov)
	s.data = make([]byte, 48)
	for i := range s.data {
		s.data[i] = byte(i*7 + 3)
	}
	for i := 0; i < s.sc.nprov; i++ {
		s.provs = append(s.provs, s.open(i))
	}
	w, meta, err := s.provs[0].Create(context.Background(), base.FileTypeTable, objFileNum, objstorage.CreateOptions{
		PreferSharedStorage: true, SharedCleanupMethod: objstorage.SharedRefTracking,
	})
	must(err)
	must(w.Write(s.data))
	must(w.Finish())
	_ = meta
	s.objName = s.core.log[0].Name
	s.saveBacking(0)
	for _, i := range s.sc.pre {
		must(s.attach(i, 0))
		s.saveBacking(i)
	}
	s.setupLen = len(s.core.log)
}

func (s *h) tev(i int, op string, ok bool) {
	s.core.log = append(s.core.log, event{Prov: i, Op: op, OK: ok})
}

func (s *h) Threads() []func() {
	var fs []func()
	for i := range s.sc.threads {
		i := i
		steps := s.sc.threads[i]
		if len(steps) == 0 {
			continue
		}
		fs = append(fs, func() {
			r := &s.res[i]
			defer func() { s.core.inflight = -1 }()
			s.core.gate(i)
			for _, st := range steps {
				switch st.op {
				case "attach":
					r.Attached = true
					r.AttachErr = s.attach(i, st.from)
					s.tev(i, "attach-ret", r.AttachErr == nil)
					if r.AttachErr != nil {
						return // the provider does not know the object: nothing to read or remove
					}
				case "read":
					r.ReadErr = s.readBack(i)
					r.ReadDone = true
					s.tev(i, "read-ret", r.ReadErr == "")
				case "remove":
					r.Removed = true
					s.tev(i, "remove-call", true)
					r.RemoveErr = s.provs[i].Remove(base.FileTypeTable, fileNumOf(i))
					s.tev(i, "remove-ret", r.RemoveErr == nil)
				}
			}
		})
	}
	if s.sc.gated {
		// Storage-level mode: the threads are spawned as a chain (thread i starts thread i+1 as its
		// first action and then waits at the gate), so that their "start" steps are forced moves
		// instead of n! equivalent orders.
		var chain func(i int) func()
		chain = func(i int) func() {
			return func() {
				if i+1 < len(fs) {
					vsched.Go(chain(i + 1))
				}
				fs[i]()
			}
		}
		return []func(){chain(0)}
	}
	return fs
}

func (s *h) Teardown(deadlocked bool) {
	if deadlocked {
		return
	}
	s.final, _ = s.core.inner.List("", "")
	sort.Strings(s.final)
	s.finalRead = map[int]string{}
	for i := range s.provs {
		if _, err := s.provs[i].Lookup(base.FileTypeTable, fileNumOf(i)); err == nil {
			s.finalRead[i] = s.readBack(i)
		}
	}
	for _, p := range s.provs {
		err := p.Sync()
		if err == nil {
			err = p.Close()
		} else {
			p.Close()
		}
		s.closeErr = append(s.closeErr, err)
	}
	s.torn = true
}

func (s *h) refName(i int) string {
	return fmt.Sprintf("%s.ref.%d.%06d", s.objName, i+1, uint64(fileNumOf(i)))
}

// interleaving renders the calls with an effect on or a view of the shared store (everything but
// CreateObject and the harness's own events) made by the threads: two executions with the same
// interleaving differ only in the order of provider-local steps.
func (s *h) interleaving() string {
	var b strings.Builder
	for _, e := range s.core.log[s.setupLen:] {
		switch e.Op {
		case "put", "delete", "size", "open", "readat", "list":
			b.WriteString(strings.ReplaceAll(e.String(), s.objName, "O"))
			b.WriteString("; ")
		}
	}
	return b.String()
}

func (s *h) renderLog() string {
	var b strings.Builder
	for k, e := range s.core.log {
		if k == s.setupLen {
			b.WriteString(" || ")
		} else if k > 0 {
			b.WriteString("; ")
		}
		b.WriteString(strings.ReplaceAll(e.String(), s.objName, "O"))
	}
	return b.String()
}

// ctx lets judge count the distinct storage-call logs (c.State).
var ctx *vlib.Ctx

func judge(hh vsched.Harness, x *vsched.Exec) (outcome, class, desc string) {
	s := hh.(*h)
	if ctx != nil && s.torn {
		il := s.interleaving()
		ctx.State(vlib.Hash("interleaving", s.sc.threads, s.sc.pre, il))
		if os.Getenv("C41_DUMPLOGS") != "" {
			fmt.Printf("LOG %v %s\n", x.Choices, il)
		}
	}
	if !s.torn {
		return "no-teardown", "harness-no-teardown", "Teardown did not run"
	}
	if s.verbose {
		for k, e := range s.core.log {
			fmt.Printf("  log[%d] %s\n", k, e)
		}
		fmt.Printf("  final store: %v\n", s.final)
	}
	fail := func(cl, d string) (string, string, string) {
		return cl, cl, d + " | log: " + s.renderLog()
	}
	// Step-by-step pass over the log with a shadow of the store.
	shadow := map[string]bool{}
	holder := map[int]bool{0: true}
	for _, i := range s.sc.pre {
		holder[i] = true
	}
	deletedBy := -1
	// A reference is given up by calling Remove. The code between that call and Remove's first
	// storage call is local to the provider, so an equivalent execution has the call immediately
	// before that storage call: the provider counts as a holder until then.
	releasing := map[int]bool{}
	for k, e := range s.core.log {
		exists := shadow[e.Name]
		bad := false
		if releasing[e.Prov] {
			delete(releasing, e.Prov)
			delete(holder, e.Prov)
		}
		switch e.Op {
		case "create":
		case "put":
			if e.OK {
				shadow[e.Name] = true
			}
		case "delete":
			if e.OK {
				if e.Name == s.objName && exists {
					deletedBy = e.Prov
				}
				delete(shadow, e.Name)
			}
		case "size", "open", "readat":
			bad = e.OK != exists
		case "list":
			n := 0
			for name := range shadow {
				if strings.HasPrefix(name, e.Name) {
					n++
				}
			}
			bad = !e.OK || n != e.N
		case "attach-ret":
			if e.OK {
				holder[e.Prov] = true
				if !shadow[s.objName] {
					return fail("attach-succeeded-on-deleted-object", fmt.Sprintf("step %d: AttachRemoteObjects of P%d returned nil but the object is already deleted", k, e.Prov+1))
				}
				if !shadow[s.refName(e.Prov)] {
					return fail("attach-without-ref-marker", fmt.Sprintf("step %d: AttachRemoteObjects of P%d returned nil but its ref marker %s does not exist", k, e.Prov+1, s.refName(e.Prov)))
				}
			}
		case "remove-call":
			releasing[e.Prov] = true
		case "remove-ret":
			if !e.OK {
				return fail("unexpected-remove-error", fmt.Sprintf("step %d: Remove of P%d failed on an infallible store: %v", k, e.Prov+1, s.res[e.Prov].RemoveErr))
			}
		case "read-ret":
			if !e.OK {
				return fail("held-object-unreadable", fmt.Sprintf("step %d: P%d holds a reference but could not read the object back: %s", k, e.Prov+1, s.res[e.Prov].ReadErr))
			}
		default:
			bad = true
		}
		if bad {
			return fail("harness-log-inconsistent", fmt.Sprintf("step %d (%s) is inconsistent with the shadow store: the log order is not the execution order", k, e))
		}
		if k >= s.setupLen && len(holder) > 0 && !shadow[s.objName] {
			var hs []string
			for i := range holder {
				hs = append(hs, fmt.Sprintf("P%d", i+1))
			}
			sort.Strings(hs)
			return fail("deleted-while-referenced", fmt.Sprintf("step %d (%s): the object is gone while %v hold(s) an unreleased reference", k, e, hs))
		}
	}
	// Attach results.
	var parts []string
	for i, r := range s.res {
		if !r.Attached {
			continue
		}
		if r.AttachErr == nil {
			parts = append(parts, fmt.Sprintf("P%d:attached", i+1))
			continue
		}
		parts = append(parts, fmt.Sprintf("P%d:refused", i+1))
		if !base.IsCorruptionError(r.AttachErr) || !strings.Contains(r.AttachErr.Error(), "origin marker object") {
			return fail("unexpected-attach-error", fmt.Sprintf("P%d: AttachRemoteObjects failed with something else than the origin-marker error: %v", i+1, r.AttachErr))
		}
		if _, err := s.provs[i].Lookup(base.FileTypeTable, fileNumOf(i)); err == nil {
			return fail("failed-attach-left-metadata", fmt.Sprintf("P%d knows the object after a failed attach", i+1))
		}
	}
	// Final state.
	final := map[string]bool{}
	for _, n := range s.final {
		final[n] = true
	}
	if len(final) != len(shadow) {
		return fail("harness-log-inconsistent", fmt.Sprintf("final store %v differs from the shadow", s.final))
	}
	for n := range shadow {
		if !final[n] {
			return fail("harness-log-inconsistent", fmt.Sprintf("final store %v differs from the shadow", s.final))
		}
	}
	objExists := final[s.objName]
	if objExists {
		parts = append(parts, "object=kept")
	} else {
		parts = append(parts, fmt.Sprintf("object=deleted-by-P%d", deletedBy+1))
	}
	outcome = strings.Join(parts, " ")
	if objExists && len(holder) == 0 {
		return fail("object-leaked", "no provider holds a reference at the end but the object still exists")
	}
	if !objExists && len(holder) > 0 {
		return fail("deleted-while-referenced", "the object is gone at the end although a holder remains")
	}
	known := map[string]bool{s.objName: true}
	for i := 0; i < s.sc.nprov; i++ {
		m := s.refName(i)
		known[m] = true
		if final[m] && !holder[i] {
			return fail("stray-ref-marker", fmt.Sprintf("ref marker %s of P%d remains although P%d holds no reference", m, i+1, i+1))
		}
		if !final[m] && holder[i] {
			return fail("holder-without-ref-marker", fmt.Sprintf("P%d holds a reference but its marker %s is gone", i+1, m))
		}
	}
	for n := range final {
		if !known[n] {
			return fail("unexpected-object", "unexpected object in the store: "+n)
		}
	}
	for i := 0; i < s.sc.nprov; i++ {
		msg, knows := s.finalRead[i]
		if holder[i] != knows {
			return fail("provider-metadata-mismatch", fmt.Sprintf("P%d: holder=%v but Lookup succeeded=%v", i+1, holder[i], knows))
		}
		if holder[i] && msg != "" {
			return fail("held-object-unreadable", fmt.Sprintf("P%d holds a reference at the end but cannot read the object back: %s", i+1, msg))
		}
	}
	for i, err := range s.closeErr {
		if err != nil {
			return fail("close-error", fmt.Sprintf("P%d Sync/Close: %v", i+1, err))
		}
	}
	return outcome, "", ""
}

type plan struct {
	sc                  scen
	quick, thorough     int // preemption bounds (storage-level mode: 0 = all interleavings)
	weight              float64
	quickTier, thorTier bool
}

func plans() []plan {
	A := func(from int) step { return step{op: "attach", from: from} }
	R := step{op: "read"}
	X := step{op: "remove"}
	// S1: the creator removes while P2 attaches from the creator's backing (and reads).
	s1 := [][]step{{X}, {A(0), R}}
	// S4: ... and the attacher gives its reference up again.
	s4 := [][]step{{X}, {A(0), R, X}}
	// S2: two attachers.
	s2 := [][]step{{X}, {A(0), R}, {A(0), R}}
	// S3: P2 attached in Setup; P3 attaches from P2's backing while P2 and P1 remove.
	s3 := [][]step{{X}, {X}, {A(1), R}}
	// S5: S2 with attachers that remove again: the last of three must delete.
	s5 := [][]step{{X}, {A(0), X}, {A(0), X}}
	// S5r: S5 with the read between attach and remove.
	s5r := [][]step{{X}, {A(0), R, X}, {A(0), R, X}}
	// S6: S3 with an attacher that removes again (three removals, one racing attach).
	s6 := [][]step{{X}, {X}, {A(1), R, X}}
	// S7: as S3, but P3 attaches from the creator's backing while the earlier attacher P2 removes too.
	s7 := [][]step{{X}, {X}, {A(0), R}}
	g := func(name string, nprov int, pre []int, th [][]step, w float64, quick bool) plan {
		return plan{sc: scen{name: name, nprov: nprov, pre: pre, threads: th, gated: true}, weight: w, quickTier: quick, thorTier: true}
	}
	f := func(name string, nprov int, pre []int, th [][]step, q, t int, w float64) plan {
		return plan{sc: scen{name: name, nprov: nprov, pre: pre, threads: th}, quick: q, thorough: t, weight: w, quickTier: true, thorTier: true}
	}
	p2 := []int{1}
	return []plan{
		// storage-level mode: every interleaving of the storage calls (bound 0 is already unbounded)
		g("S1-all", 2, nil, s1, 0.2, true),
		g("S4-all", 2, nil, s4, 0.2, true),
		g("S3-all", 3, p2, s3, 1, true),
		g("S7-all", 3, p2, s7, 1, true),
		g("S2-all", 3, nil, s2, 3, true),
		g("S5-all", 3, nil, s5, 5, false),
		g("S6-all", 3, p2, s6, 3, false),
		g("S5r-all", 3, nil, s5r, 14, false),
		// full mode: every hooked mutex/atomic operation is a scheduling point as well
		f("S1-full", 2, nil, s1, 2, 4, 0.5),
		f("S4-full", 2, nil, s4, 2, 4, 0.5),
		f("S3-full", 3, p2, s3, 1, 3, 2),
		f("S2-full", 3, nil, s2, 1, 2, 1),
		f("S5-full", 3, nil, s5, 1, 2, 1),
	}
}

func TestCheck(t *testing.T) {
	vlib.Main(t, "C41", func(c *vlib.Ctx) {
		verbose := c.ReplayPath() != "" || os.Getenv("C41_VERBOSE") != ""
		ctx = c
		var list []d1x.Scenario
		for _, p := range plans() {
			p := p
			if c.ReplayPath() == "" && os.Getenv("VERIF_SCENARIO") == "" {
				if c.Thorough() && !p.thorTier || !c.Thorough() && !p.quickTier {
					continue
				}
			}
			if v := os.Getenv("C41_BOUND"); v != "" && !p.sc.gated { // experiments only
				fmt.Sscan(v, &p.quick)
				p.thorough = p.quick
			}
			list = append(list, d1x.Scenario{Name: p.sc.name, QuickBound: p.quick, ThoroughBound: p.thorough, Weight: p.weight, Judge: judge,
				New: func() vsched.Harness { return &h{sc: p.sc, verbose: verbose} }})
		}
		var names []string
		for _, sc := range list {
			names = append(names, sc.Name)
		}
		c.Note("scope", fmt.Sprintf("scenarios run in this tier: %v. '-all' = storage-level mode: scheduling decisions only at storage calls (provider-local code runs as forced moves), every choice free, so the reported 'bound 0' is ALL interleavings of the storage calls; '-full' = every hooked mutex/atomic operation and every storage call is a scheduling point, all schedules up to the listed preemption bound. states = distinct storage-call interleavings (calls with their results, per scenario shape) + distinct outcomes.", names))
		d1x.Run(t, c, list)
	})
}
