// C01: latest-state reads match a sequential key-value model, for every history of the alphabet up
// to the depth bound, under every configuration of the menu, from the empty DB and from pre-built
// LSM shapes. Engine A (DESIGN.md section 4).
package c01

import (
	"fmt"
	"strings"
	"testing"

	"github.com/cockroachdb/pebble/internal/verif/hx"
	"github.com/cockroachdb/pebble/internal/verif/vlib"
	"github.com/cockroachdb/pebble/vfs"
)

var universe = []string{"a", "b", "c"}

// Alphabet, simplest first. The first coreN symbols form the core alphabet.
var alphabet = []hx.Op{
	{K: "set", Key: "a"},
	{K: "set", Key: "b"},
	{K: "del", Key: "a"},
	{K: "merge", Key: "a"},
	{K: "flush"},
	{K: "delrange", Key: "a", End: "c"},
	{K: "compact"},
	{K: "sdel", Key: "a"},
	{K: "merge", Key: "b"},
	{K: "delrange", Key: "b", End: "c"},
	{K: "ingest", Sub: []hx.Op{{K: "set", Key: "a"}}},
	{K: "batch", Sub: []hx.Op{{K: "set", Key: "a"}, {K: "del", Key: "b"}}},
	{K: "excise", Key: "a", End: "b"},
	// --- end of core (13)
	{K: "delsized", Key: "b", N: 2},
	{K: "delsized", Key: "a", N: 100},
	{K: "delrange", Key: "a", End: "b"},
	{K: "logdata"},
	{K: "sdel", Key: "b"},
	{K: "set", Key: "c"},
	{K: "batch", Sub: []hx.Op{{K: "merge", Key: "a"}, {K: "set", Key: "b"}, {K: "delrange", Key: "b", End: "c"}}},
	{K: "batch", Big: true, Sub: []hx.Op{{K: "set", Key: "a"}, {K: "set", Key: "c"}}},
	{K: "ingest", Sub: []hx.Op{{K: "set", Key: "b"}, {K: "delrange", Key: "a", End: "b"}}},
	{K: "ingestexcise", Key: "a", End: "c", Sub: []hx.Op{{K: "set", Key: "b"}}},
	{K: "compact", Key: "a", End: "b"},
	// range keys ride along (their iterator semantics are C08's job; here: they survive every
	// maintenance path and never disturb points)
	{K: "rkset", Key: "a", End: "c", Suf: "@1"},
	{K: "rkdel", Key: "a", End: "b"},
	{K: "batch", Sub: []hx.Op{{K: "set", Key: "b"}, {K: "rkset", Key: "b", End: "z", Suf: "@2"}}},
	{K: "ingestexcise", Key: "a", End: "c", Sub: []hx.Op{{K: "set", Key: "b"}, {K: "set", Key: "c"}}}, // largest key == excise end
}

const coreN = 13

// Start shapes: op lists that build a non-initial LSM state (replayed through the model too).
var shapes = map[string][]hx.Op{
	"empty": nil,
	"l0x2+l6": {
		{K: "set", Key: "a"}, {K: "set", Key: "b"}, {K: "flush"}, {K: "compact"},
		{K: "set", Key: "a"}, {K: "flush"}, {K: "merge", Key: "b"}, {K: "del", Key: "a"}, {K: "flush"},
	},
	"rangedel-over-l6": {
		{K: "set", Key: "a"}, {K: "set", Key: "b"}, {K: "set", Key: "c"}, {K: "flush"}, {K: "compact"},
		{K: "delrange", Key: "a", End: "c"}, {K: "flush"}, {K: "set", Key: "b"},
	},
	"virtual-after-excise": {
		{K: "set", Key: "a"}, {K: "set", Key: "b"}, {K: "set", Key: "c"}, {K: "flush"},
		{K: "excise", Key: "b", End: "c"}, {K: "merge", Key: "a"},
	},
	"l6+l0+mem": {
		{K: "set", Key: "a"}, {K: "set", Key: "b"}, {K: "set", Key: "c"}, {K: "flush"}, {K: "compact"},
		{K: "set", Key: "b"}, {K: "flush"}, {K: "set", Key: "a"},
	},
	"merge-stack": {
		{K: "merge", Key: "a"}, {K: "flush"}, {K: "merge", Key: "a"}, {K: "flush"}, {K: "merge", Key: "a"},
	},
}

var shapeOrder = []string{"empty", "l0x2+l6", "rangedel-over-l6", "virtual-after-excise", "merge-stack", "l6+l0+mem"}

var configs = []hx.Config{
	{Name: "base"},
	{Name: "fmv-min", FMV: 13},
	{Name: "tiny-memtable", MemTableSize: 16 << 10},
	{Name: "valsep", ValSep: true},
	{Name: "nowal", DisableWAL: true},
	{Name: "tinyfiles", TinyFiles: true},
	{Name: "nobloom", NoBloom: true},
	{Name: "defaultcmp", DefaultCmp: true},
	{Name: "flushsplit", L0Sublevels: true},
	{Name: "blocksize1", BlockSize: 1},
	{Name: "tinymanifest", TinyManifest: true},
	{Name: "autocompact-tablestats", AutoCompact: true, TinyFiles: true, TableStats: true},
	{Name: "default-thresholds-tablestats", AutoDefault: true, TableStats: true},
}

// Case is the replay artefact.
type Case struct {
	Cfg   hx.Config `json:"cfg"`
	Shape string    `json:"shape"`
	Hist  []hx.Op   `json:"hist"`
	Step  int       `json:"step"`
}

type result struct {
	illegalAt int // -1 if the whole history was legal
	fail      string
	class     string
	step      int
}

// runHistory executes shape+hist against a fresh DB and the model, comparing after every step.
func runHistory(c *vlib.Ctx, cfg hx.Config, shape string, hist []hx.Op, verbose bool) result {
	fs := vfs.NewMem()
	x, err := hx.Open(fs, "db", cfg)
	if err != nil {
		return result{illegalAt: -1, fail: "open: " + err.Error(), class: "open-error"}
	}
	m := hx.NewModel("a", "b", "c", "z")
	pre := shapes[shape]
	all := append(append([]hx.Op{}, pre...), hist...)
	maint := false
	rewrites := false
	wrote := map[string]int{}
	for i, op := range all {
		if !m.Legal(op) {
			x.D.Close()
			return result{illegalAt: i - len(pre)}
		}
		if !cfg.Supports(op) || (cfg.DefaultCmp && hasRangeKey(op)) {
			x.D.Close()
			return result{illegalAt: i - len(pre)}
		}
		if err := x.Apply(i, op); err != nil {
			x.D.Close()
			return result{illegalAt: -1, fail: fmt.Sprintf("step %d %s: error %v", i, op, err), class: "op-error", step: i}
		}
		m.Apply(op, fmt.Sprintf("v%d", i))
		c.Trans(1)
		switch op.K {
		case "flush", "compact", "ingest", "excise", "ingestexcise":
			maint = true
		case "set", "merge", "del", "sdel", "delsized":
			wrote[op.Key]++
			if wrote[op.Key] >= 2 {
				rewrites = true
			}
		case "delrange", "batch":
			rewrites = true
		}
		if cfg.Auto() {
			x.D.VerifWaitIdle()
		}
		if d := hx.CompareLatest(x.D, m, universe, !cfg.DefaultCmp); d != "" {
			x.D.Close()
			return result{illegalAt: -1, fail: fmt.Sprintf("after step %d (%s): %s", i, op, d), class: "model-mismatch", step: i}
		}
		if i >= len(pre) {
			c.State(vlib.Hash(m.String(), x.Shape()))
		}
		if verbose {
			fmt.Printf("step %d %-40s model {%s}\n%s\n", i, op.String(), m.String(), x.Shape())
		}
	}
	if err := x.D.Close(); err != nil {
		return result{illegalAt: -1, fail: "close: " + err.Error(), class: "close-error"}
	}
	if maint && rewrites {
		c.Nontrivial(vlib.Hash(cfg.Name, shape, hx.HistString(hist)))
	}
	return result{illegalAt: -1}
}

type plan struct {
	cfg   hx.Config
	shape string
	alpha []hx.Op
	depth int
}

func TestCheck(t *testing.T) {
	vlib.Main(t, "C01", func(c *vlib.Ctx) {
		if c.ReplayPath() != "" {
			var cs Case
			if err := c.LoadReplay(&cs); err != nil {
				t.Fatal(err)
			}
			r := runHistory(c, cs.Cfg, cs.Shape, cs.Hist, true)
			fmt.Printf("replay: fail=%q\n", r.fail)
			if r.fail != "" {
				c.Violation(r.class, r.fail, cs)
			}
			c.Eval(1)
			return
		}
		var plans []plan
		if !c.Thorough() {
			plans = append(plans, plan{configs[0], "empty", alphabet, 3})
			plans = append(plans, plan{configs[0], "empty", alphabet[:coreN], 4})
			for _, cfg := range configs[1:] {
				plans = append(plans, plan{cfg, "empty", alphabet, 2})
				plans = append(plans, plan{cfg, "empty", alphabet[:coreN], 3})
			}
			for _, s := range shapeOrder[1:] {
				plans = append(plans, plan{configs[0], s, alphabet, 2})
			}
			for _, cfg := range configs[len(configs)-2:] {
				plans = append(plans, plan{cfg, "l6+l0+mem", alphabet[:coreN], 3})
			}
		} else {
			plans = append(plans, plan{configs[0], "empty", alphabet, 4})
			plans = append(plans, plan{configs[0], "empty", alphabet[:coreN], 5})
			for _, cfg := range configs[1:] {
				plans = append(plans, plan{cfg, "empty", alphabet, 3})
				plans = append(plans, plan{cfg, "empty", alphabet[:coreN], 4})
			}
			for _, s := range shapeOrder[1:] {
				plans = append(plans, plan{configs[0], s, alphabet, 3})
				for _, cfg := range configs[1:] {
					plans = append(plans, plan{cfg, s, alphabet[:coreN], 2})
				}
			}
		}
		var planNotes []string
		for _, p := range plans {
			k := len(p.alpha)
			n := vlib.SeqCount(k, p.depth, p.depth) // histories of exactly depth d; shorter ones are their prefixes
			done, complete := c.Each(n, func(i int) {
				seq := vlib.SeqDecode(i, k, p.depth, p.depth)
				hist := make([]hx.Op, len(seq))
				for j, s := range seq {
					hist[j] = p.alpha[s]
				}
				r := runHistory(c, p.cfg, p.shape, hist, false)
				c.Eval(1)
				if r.fail != "" {
					cs := Case{Cfg: p.cfg, Shape: p.shape, Hist: hist, Step: r.step}
					// re-execute before reporting (rule 4 of DESIGN section 8)
					for k := 0; k < 2; k++ {
						if r2 := runHistory(c, p.cfg, p.shape, hist, false); r2.fail == "" {
							c.Incomplete("violation did not reproduce: " + r.fail)
							return
						}
					}
					c.Violation(r.class, fmt.Sprintf("cfg=%s shape=%s hist=[%s]: %s", p.cfg.Name, p.shape, hx.HistString(hist), r.fail), cs)
				} else if r.illegalAt >= 0 {
					c.Outcome("skipped-outside-contract")
				} else {
					c.Outcome("agree")
					if i%9973 == 0 {
						c.Sample(map[string]any{"cfg": p.cfg.Name, "shape": p.shape, "hist": hx.HistString(hist)})
					}
				}
			})
			planNotes = append(planNotes, fmt.Sprintf("%s/%s: alphabet %d depth %d: %d/%d histories", p.cfg.Name, p.shape, k, p.depth, done, n))
			if !complete {
				c.Incomplete(fmt.Sprintf("budget expired in plan %s/%s alphabet %d depth %d after %d of %d histories; all earlier plans complete", p.cfg.Name, p.shape, k, p.depth, done, n))
				break
			}
		}
		c.Note("plans", planNotes)
	})
}

func hasRangeKey(op hx.Op) bool {
	if strings.HasPrefix(op.K, "rk") {
		return true
	}
	for _, s := range op.Sub {
		if hasRangeKey(s) {
			return true
		}
	}
	return false
}
