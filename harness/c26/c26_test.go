// C26: table filters never produce false negatives.
//
// Stage "filter": for every filter policy the tree offers (bloom bits/key 1..20, the adaptive bloom
// policies of DBTableFilterPolicyProgressive plus adaptive policies whose size limit actually bites,
// binary fuse with every supported fingerprint width), every key count n of the tier's size list and
// every deterministic key family, the filter is built through the real base.TableFilterWriter
// (policy.NewWriter / AddKey / Finish) and EVERY added key is queried through the real
// base.TableFilterDecoder of the family that Finish reported: MayContain must be true. The same
// writer is then reused (the interface promises that Finish resets it) for the first n/2 keys and
// checked again. 32 keys that were never added are probed as well; they may answer either way and
// only feed the non-vacuity measure (a filter that always says "maybe" would make the check vacuous).
//
// Stage "sstable": tables of a few sizes are written with every policy through sstable.Writer (row
// format Pebblev4 and the newest columnar format, testkeys comparer, two versions per prefix) and
// read back with sstable.Reader; SeekPrefixGE (the call that consults the filter) must find every
// prefix that exists in the table.
//
// This is exhaustive over sizes x parameters x key families, NOT over key sets.
package c26

import (
	"bytes"
	"context"
	"fmt"
	"sort"
	"strings"
	"sync"
	"testing"

	"github.com/cespare/xxhash/v2"
	"github.com/cockroachdb/pebble/internal/base"
	"github.com/cockroachdb/pebble/internal/testkeys"
	"github.com/cockroachdb/pebble/internal/verif/vlib"
	"github.com/cockroachdb/pebble/objstorage"
	"github.com/cockroachdb/pebble/sstable"
	"github.com/cockroachdb/pebble/sstable/block"
	"github.com/cockroachdb/pebble/sstable/colblk"
	"github.com/cockroachdb/pebble/sstable/tablefilters"
	"github.com/cockroachdb/pebble/sstable/tablefilters/binaryfuse"
	"github.com/cockroachdb/pebble/sstable/tablefilters/bloom"
)

// Case is the replay artefact: one (policy, family, n) cell.
type Case struct {
	Stage  string `json:"stage"`  // filter | sstable
	Policy string `json:"policy"` // TableFilterPolicy.Name(), resolved by tablefilters.PolicyFromName
	Family string `json:"family"`
	N      int    `json:"n"`
	Format string `json:"format,omitempty"` // sstable stage
	Key    string `json:"key,omitempty"`    // first key that was missed (informational)
	Pass   string `json:"pass,omitempty"`   // fresh | reused
}

const maxKeys = 20000

// limit1MB is the size limit used by pebble.DBTableFilterPolicyProgressive.
const limit1MB = 1024*1024 - block.AllocationOverheadAllowance

func policies() []base.TableFilterPolicy {
	var ps []base.TableFilterPolicy
	for b := uint32(1); b <= 20; b++ {
		ps = append(ps, bloom.FilterPolicy(b))
	}
	// The adaptive family the tree defines (options.go, DBTableFilterPolicyProgressive) ...
	for _, b := range []uint32{16, 14, 10, 8} {
		ps = append(ps, bloom.AdaptivePolicy(b, limit1MB))
	}
	// ... and adaptive policies whose limit is reached inside the enumerated sizes, so that the
	// bits-per-key reduction and the "no filter at all" branch are executed.
	ps = append(ps,
		bloom.AdaptivePolicy(16, 4096),
		bloom.AdaptivePolicy(10, 1024),
		bloom.AdaptivePolicy(20, 133),
		bloom.AdaptivePolicy(6, 69),
	)
	for _, fp := range binaryfuse.SupportedBitsPerFingerprint {
		ps = append(ps, binaryfuse.FilterPolicy(fp))
	}
	return ps
}

// ---- key families ----

type family struct {
	name   string
	keys   [][]byte // keys[i] is the i-th distinct key
	absent [][]byte // never added
	// order returns the sequence of AddKey calls for the first n keys.
	order func(keys [][]byte, n int) [][]byte
}

func plain(keys [][]byte, n int) [][]byte { return keys[:n] }

func twiceAdjacent(keys [][]byte, n int) [][]byte {
	out := make([][]byte, 0, 2*n)
	for _, k := range keys[:n] {
		out = append(out, k, k)
	}
	return out
}

func twicePasses(keys [][]byte, n int) [][]byte {
	out := make([][]byte, 0, 2*n)
	out = append(out, keys[:n]...)
	out = append(out, keys[:n]...)
	return out
}

// shortlex returns the i-th byte string in length-then-lexicographic order over all 256 byte values
// ("" , 00, 01, ... ff, 0000, ...).
func shortlex(i int) []byte {
	l, p := 0, 1
	for i >= p {
		i -= p
		p *= 256
		l++
	}
	b := make([]byte, l)
	for j := l - 1; j >= 0; j-- {
		b[j] = byte(i)
		i >>= 8
	}
	return b
}

var (
	famOnce sync.Once
	fams    []family
)

func families() []family {
	famOnce.Do(func() {
		longPrefix := bytes.Repeat([]byte("common/prefix/"), 8) // 112 bytes
		mk := func(f func(i int) []byte) [][]byte {
			ks := make([][]byte, maxKeys)
			for i := range ks {
				ks[i] = f(i)
			}
			return ks
		}
		counter := mk(func(i int) []byte { return []byte(fmt.Sprintf("k%08d", i)) })
		long := mk(func(i int) []byte { return append(append([]byte{}, longPrefix...), fmt.Sprintf("%08d", i)...) })
		short := mk(shortlex)
		absent := func(f func(i int) []byte) [][]byte {
			ks := make([][]byte, 32)
			for i := range ks {
				ks[i] = f(i)
			}
			return ks
		}
		absCounter := absent(func(i int) []byte { return []byte(fmt.Sprintf("x%08d", i)) })
		absLong := absent(func(i int) []byte { return append(append([]byte{}, longPrefix...), fmt.Sprintf("x%07d", i)...) })
		// shortlex(i) for i < maxKeys has length <= 2; 3-byte strings are never added.
		absShort := absent(func(i int) []byte { return []byte{0xfe, byte(i), 0x80} })
		fams = []family{
			{"counter", counter, absCounter, plain},
			{"long-common-prefix", long, absLong, plain},
			{"twice-adjacent", counter, absCounter, twiceAdjacent},
			{"twice-second-pass", counter, absCounter, twicePasses},
			{"shortlex-bytes", short, absShort, plain},
			{"bloom-hash-zero-first", hashZeroFirst(counter), absCounter, plain},
		}
	})
	return fams
}

// hashZeroFirst: the first key is the 4-byte string whose bloom hash is 0 (the zero value of every
// "last hash seen" field), followed by the counter keys. The hash value is asserted, so that a change
// of the hash function is noticed instead of silently making the family ordinary.
func hashZeroFirst(rest [][]byte) [][]byte {
	k := []byte{0x88, 0x7c, 0xf2, 0x59}
	if h := bloom.VerifHash(k); h != 0 {
		panic(fmt.Sprintf("c26: the bloom hash of % x is %#x, not 0: pick a new key for this family", k, h))
	}
	return append([][]byte{k}, rest[:len(rest)-1]...)
}

func familyByName(name string) (family, bool) {
	for _, f := range families() {
		if f.name == name {
			return f, true
		}
	}
	return family{}, false
}

func decoderFor(fam base.TableFilterFamily) base.TableFilterDecoder {
	for _, d := range tablefilters.Decoders {
		if d.Family() == fam {
			return d
		}
	}
	return nil
}

// sizes returns the key counts of a tier: every n up to dense, then every stride-th n up to max, plus
// 2^k-1, 2^k, 2^k+1 for every power of two up to maxPow (the writers collect hashes in blocks of 8192
// (binary fuse) and 16384 (bloom) entries, so those boundaries are in both tiers).
func sizes(dense, stride, max, maxPow int) []int {
	set := map[int]bool{}
	for n := 0; n <= dense; n++ {
		set[n] = true
	}
	for n := dense; n <= max; n += stride {
		set[n] = true
	}
	set[max] = true
	for p := 1; p <= maxPow; p *= 2 {
		for _, n := range []int{p - 1, p, p + 1} {
			if n >= 0 && n <= maxKeys {
				set[n] = true
			}
		}
	}
	out := make([]int, 0, len(set))
	for n := range set {
		out = append(out, n)
	}
	sort.Ints(out)
	return out
}

type failure struct {
	class, desc, key, pass string
}

type filterResult struct {
	outcome   string
	hash      uint64
	rejected  int // absent keys answered "definitely not"
	probes    int
	built     bool
	fl        *failure
	filterLen int
}

func withSuffix(prefix []byte, ts int64) []byte {
	return append(append([]byte{}, prefix...), testkeys.Suffix(ts)...)
}

// checkFilter builds and probes one (policy, family, n) cell.
func checkFilter(p base.TableFilterPolicy, f family, n int, verbose bool) (res filterResult) {
	defer func() {
		if r := recover(); r != nil {
			res.fl = &failure{class: "filter-panic", desc: fmt.Sprintf("panic: %v", r)}
			res.outcome = "panic"
		}
	}()
	w := p.NewWriter()
	var pass func(name string, n int) (built bool)
	passKeys := func(name string, keys [][]byte) (built bool) {
		n := len(keys)
		adds := f.order(keys, n)
		for _, k := range adds {
			w.AddKey(k)
		}
		res.probes += len(adds)
		data, fam, ok := w.Finish()
		if verbose {
			fmt.Printf("pass %s: n=%d AddKey calls=%d Finish ok=%v family=%q len=%d\n", name, n, len(adds), ok, fam, len(data))
		}
		if !ok {
			// No filter is written; the reader then never consults one. Not a false negative.
			return false
		}
		dec := decoderFor(fam)
		if dec == nil {
			res.fl = &failure{class: "filter-family-without-decoder", pass: name,
				desc: fmt.Sprintf("Finish reported family %q which tablefilters.Decoders does not decode", fam)}
			return true
		}
		if name == "fresh" {
			res.hash = xxhash.Sum64(data)
			res.filterLen = len(data)
		}
		for i, k := range keys {
			res.probes++
			if !dec.MayContain(data, k) {
				if res.fl == nil {
					res.fl = &failure{class: "filter-false-negative", key: fmt.Sprintf("%q", k), pass: name,
						desc: fmt.Sprintf("%s pass: key #%d %q was added (n=%d, %d AddKey calls) but %s MayContain reports absent (filter %d bytes)",
							name, i, k, n, len(adds), fam, len(data))}
				}
				if !verbose {
					return true
				}
				fmt.Printf("  false negative: key #%d %q\n", i, k)
			}
		}
		if name == "fresh" {
			for _, k := range f.absent {
				res.probes++
				if !dec.MayContain(data, k) {
					res.rejected++
				}
			}
		}
		return true
	}
	pass = func(name string, n int) bool { return passKeys(name, f.keys[:n]) }
	res.built = pass("fresh", n)
	if res.fl == nil && n >= 2 {
		pass("reused", n/2)
	}
	if res.fl == nil && n >= 2 {
		// third use of the same writer: its FIRST key is the LAST key of the previous filter (state
		// that survives Finish - a remembered last hash, a cached prefix - would be compared with it)
		passKeys("reused-from-previous-last-key", f.keys[n/2-1:n])
	}
	switch {
	case res.fl != nil:
		res.outcome = res.fl.class
	case !res.built:
		res.outcome = "no-filter-produced"
		if n == 0 {
			res.outcome = "no-filter-produced(n=0)"
		}
	default:
		res.outcome = "all-added-keys-maybe-present"
	}
	return res
}

// ---- sstable stage ----

var tableFormats = []sstable.TableFormat{sstable.TableFormatPebblev4, sstable.TableFormatMax}

func formatByName(s string) (sstable.TableFormat, bool) {
	for _, f := range tableFormats {
		if f.String() == s {
			return f, true
		}
	}
	return 0, false
}

var tkSchema = colblk.DefaultKeySchema(testkeys.Comparer, 16)

type tableResult struct {
	outcome string
	seeks   int
	hits    int64 // absent prefixes excluded by the filter
	hasFilt bool
	fl      *failure
}

// checkTable writes n prefixes x 2 versions with the given filter policy and seeks every prefix.
func checkTable(p base.TableFilterPolicy, f family, n int, tf sstable.TableFormat, verbose bool) (res tableResult) {
	defer func() {
		if r := recover(); r != nil {
			res.fl = &failure{class: "sstable-panic", desc: fmt.Sprintf("panic: %v", r)}
			res.outcome = "panic"
		}
	}()
	// testkeys prefixes must not contain '@'; all families here satisfy that except shortlex-bytes,
	// which the sstable stage does not use.
	prefixes := make([][]byte, n)
	copy(prefixes, f.keys[:n])
	sort.Slice(prefixes, func(i, j int) bool { return bytes.Compare(prefixes[i], prefixes[j]) < 0 })
	obj := &objstorage.MemObj{}
	wo := sstable.WriterOptions{
		Comparer:     testkeys.Comparer,
		KeySchema:    &tkSchema,
		TableFormat:  tf,
		FilterPolicy: p,
		BlockSize:    512, // several data blocks even for small tables
		Compression:  block.NoCompression,
	}
	w := sstable.NewWriter(obj, wo)
	for _, pre := range prefixes {
		// testkeys orders larger suffixes first.
		for _, ts := range []int64{2, 1} {
			k := withSuffix(pre, ts)
			if err := w.Set(k, []byte("v")); err != nil {
				res.fl = &failure{class: "sstable-write-error", desc: err.Error()}
				return res
			}
		}
	}
	if err := w.Close(); err != nil {
		res.fl = &failure{class: "sstable-write-error", desc: err.Error()}
		return res
	}
	var tracker sstable.FilterMetricsTracker
	r, err := sstable.NewMemReader(obj.Data(), sstable.ReaderOptions{
		Comparer:             testkeys.Comparer,
		KeySchemas:           sstable.MakeKeySchemas(&tkSchema),
		FilterDecoders:       tablefilters.Decoders,
		FilterMetricsTracker: &tracker,
	})
	if err != nil {
		res.fl = &failure{class: "sstable-open-error", desc: err.Error()}
		return res
	}
	defer r.Close()
	props, err := r.ReadPropertiesBlock(context.Background(), nil)
	if err == nil {
		res.hasFilt = props.FilterFamily != ""
	}
	if verbose {
		fmt.Printf("table: %d bytes, filter family %q, filter size %d\n", len(obj.Data()), props.FilterFamily, props.FilterSize)
	}
	it, err := r.NewIter(sstable.NoTransforms, nil, nil, sstable.AssertNoBlobHandles)
	if err != nil {
		res.fl = &failure{class: "sstable-open-error", desc: err.Error()}
		return res
	}
	defer it.Close()
	for i, pre := range prefixes {
		// Three seek keys per prefix: the bare prefix, the newest version and the oldest version.
		for _, key := range [][]byte{pre, withSuffix(pre, 2), withSuffix(pre, 1)} {
			res.seeks++
			kv := it.SeekPrefixGE(pre, key, base.SeekGEFlagsNone)
			if kv == nil || !bytes.Equal(kv.K.UserKey[:testkeys.Comparer.Split(kv.K.UserKey)], pre) {
				got := "nil"
				if kv != nil {
					got = fmt.Sprintf("%q", kv.K.UserKey)
				}
				if res.fl == nil {
					res.fl = &failure{class: "sstable-prefix-seek-misses-existing-key", key: fmt.Sprintf("%q", key),
						desc: fmt.Sprintf("SeekPrefixGE(prefix=%q, key=%q) returned %s (iterator error %v) although prefix #%d of %d is in the table (filter family %q, %d bytes)",
							pre, key, got, it.Error(), i, n, props.FilterFamily, props.FilterSize)}
				}
				if !verbose {
					return res
				}
				fmt.Printf("  miss: SeekPrefixGE(%q,%q) = %s\n", pre, key, got)
			}
		}
	}
	// Absent prefixes: either answer is fine; count how often the filter excluded them.
	for _, pre := range f.absent {
		res.seeks++
		if kv := it.SeekPrefixGE(pre, pre, base.SeekGEFlagsNone); kv != nil {
			res.fl = &failure{class: "sstable-prefix-seek-invents-key", key: fmt.Sprintf("%q", pre),
				desc: fmt.Sprintf("SeekPrefixGE(%q) returned %q for a prefix that was never written", pre, kv.K.UserKey)}
			return res
		}
	}
	res.hits = tracker.Load().Hits
	switch {
	case res.fl != nil:
		res.outcome = res.fl.class
	case res.hasFilt:
		res.outcome = "sstable:every-prefix-found(filter block present)"
	default:
		res.outcome = "sstable:every-prefix-found(no filter block)"
	}
	return res
}

func replay(c *vlib.Ctx, cs Case) {
	p, ok := tablefilters.PolicyFromName(cs.Policy)
	if !ok {
		c.T.Fatalf("unknown policy %q", cs.Policy)
	}
	f, ok := familyByName(cs.Family)
	if !ok {
		c.T.Fatalf("unknown family %q", cs.Family)
	}
	var fl *failure
	switch cs.Stage {
	case "filter":
		r := checkFilter(p, f, cs.N, true)
		fmt.Printf("outcome: %s, absent keys rejected %d/32\n", r.outcome, r.rejected)
		fl = r.fl
	case "sstable":
		tf, ok := formatByName(cs.Format)
		if !ok {
			c.T.Fatalf("unknown format %q", cs.Format)
		}
		r := checkTable(p, f, cs.N, tf, true)
		fmt.Printf("outcome: %s, filter hits on absent prefixes %d\n", r.outcome, r.hits)
		fl = r.fl
	default:
		c.T.Fatalf("unknown stage %q", cs.Stage)
	}
	if fl != nil {
		fmt.Printf("replay: FAIL class=%s\n%s\n", fl.class, fl.desc)
		c.Violation(fl.class, fl.desc, cs)
	} else {
		fmt.Printf("replay: ok\n")
	}
	c.Eval(1)
	c.Trans(1)
}

func TestCheck(t *testing.T) {
	vlib.Main(t, "C26", func(c *vlib.Ctx) {
		if c.ReplayPath() != "" {
			var cs Case
			if err := c.LoadReplay(&cs); err != nil {
				t.Fatal(err)
			}
			replay(c, cs)
			return
		}
		ps := policies()
		fs := families()
		var ns []int
		if c.Thorough() {
			ns = sizes(2000, 23, maxKeys, 16384)
		} else {
			ns = sizes(300, 37, 2000, 16384)
		}
		// ---------- stage 1: filters ----------
		// index = (size index, policy, family); sizes outermost so that the smallest counterexample is
		// found first and the work is balanced.
		total := len(ns) * len(ps) * len(fs)
		var keysProbed int64
		var mu sync.Mutex
		done, complete := c.Each(total, func(i int) {
			fi := i % len(fs)
			pi := (i / len(fs)) % len(ps)
			n := ns[i/(len(fs)*len(ps))]
			p, f := ps[pi], fs[fi]
			r := checkFilter(p, f, n, false)
			c.Eval(1)
			c.Trans(r.probes)
			c.Outcome("filter:" + kind(p) + ":" + r.outcome)
			cs := Case{Stage: "filter", Policy: p.Name(), Family: f.name, N: n}
			if r.fl != nil {
				cs.Key, cs.Pass = r.fl.key, r.fl.pass
				c.Violation(r.fl.class, fmt.Sprintf("policy %s, family %s, n=%d: %s", p.Name(), f.name, n, r.fl.desc), cs)
			}
			if r.built {
				c.State(r.hash)
				// Non-trivial: a filter over >= 2 keys that demonstrably discriminates (it rejects at
				// least one of the 32 keys that were never added).
				if n >= 2 && r.rejected > 0 {
					c.Nontrivial(vlib.Hash("filter", p.Name(), f.name, n))
				}
				c.OutcomeN("absent-probe:rejected", int64(r.rejected))
				c.OutcomeN("absent-probe:maybe(false positive)", int64(32-r.rejected))
			}
			mu.Lock()
			keysProbed += int64(n)
			mu.Unlock()
			if i%7907 == 1000 && i < 4*7907 {
				c.Sample(map[string]any{"stage": "filter", "policy": p.Name(), "family": f.name, "n": n,
					"outcome": r.outcome, "filter_bytes": r.filterLen, "absent_rejected_of_32": r.rejected})
			}
		})
		scope := map[string]any{
			"filter_stage": fmt.Sprintf("%d of %d cells = %d key counts (min %d, max %d) x %d policies x %d families; every added key queried (%d key queries on fresh filters)",
				done, total, len(ns), ns[0], ns[len(ns)-1], len(ps), len(fs), keysProbed),
			"policies": policyNames(ps),
			"families": familyNames(fs),
		}
		if !complete {
			c.Incomplete(fmt.Sprintf("budget expired in the filter stage after %d of %d cells (cells are ordered by key count, so all counts below roughly the %d-th size are complete)", done, total, int(done)/(len(ps)*len(fs))))
			c.Note("scope", scope)
			return
		}

		// ---------- stage 2: sstables ----------
		tns := []int{1, 2, 17, 300, 2000}
		if c.Thorough() {
			tns = []int{1, 2, 3, 17, 64, 300, 1000, 2000, 8191, 20000}
		}
		tfs := []family{fs[0], fs[1]} // counter, long-common-prefix; versions give the duplicates
		ttotal := len(tns) * len(ps) * len(tfs) * len(tableFormats)
		tdone, tcomplete := c.Each(ttotal, func(i int) {
			tf := tableFormats[i%len(tableFormats)]
			j := i / len(tableFormats)
			f := tfs[j%len(tfs)]
			j /= len(tfs)
			p := ps[j%len(ps)]
			n := tns[j/len(ps)]
			r := checkTable(p, f, n, tf, false)
			c.Eval(1)
			c.Trans(r.seeks)
			c.Outcome(r.outcome)
			cs := Case{Stage: "sstable", Policy: p.Name(), Family: f.name, N: n, Format: tf.String()}
			if r.fl != nil {
				cs.Key = r.fl.key
				c.Violation(r.fl.class, fmt.Sprintf("policy %s, family %s, n=%d, %s: %s", p.Name(), f.name, n, tf, r.fl.desc), cs)
				return
			}
			c.State(vlib.Hash("sstable", p.Name(), f.name, n, tf.String(), r.hasFilt, r.hits))
			c.OutcomeN("sstable:absent-prefix-excluded-by-filter", r.hits)
			// Non-trivial: the table has a filter block and the reader's filter excluded at least one
			// absent prefix, i.e. SeekPrefixGE really went through the filter.
			if r.hasFilt && r.hits > 0 && n >= 2 {
				c.Nontrivial(vlib.Hash("sstable", p.Name(), f.name, n, tf.String()))
			}
			if i%211 == 100 {
				c.Sample(map[string]any{"stage": "sstable", "policy": p.Name(), "family": f.name, "n": n, "format": tf.String(),
					"outcome": r.outcome, "absent_prefixes_excluded_by_filter_of_32": r.hits})
			}
		})
		scope["sstable_stage"] = fmt.Sprintf("%d of %d tables = prefix counts %v x %d policies x 2 families x formats %v; 2 versions per prefix, 3 SeekPrefixGE per prefix",
			tdone, ttotal, tns, len(ps), []string{tableFormats[0].String(), tableFormats[1].String()})
		if !tcomplete {
			c.Incomplete(fmt.Sprintf("budget expired in the sstable stage after %d of %d tables; the filter stage is complete", tdone, ttotal))
		}
		c.Note("scope", scope)
	})
}

// kind groups policies for the outcome histogram.
func kind(p base.TableFilterPolicy) string {
	n := p.Name()
	switch {
	case strings.HasPrefix(n, "adaptive_bloom"):
		return "adaptive-bloom"
	case strings.HasPrefix(n, "binaryfuse"):
		return "binaryfuse"
	default:
		return "bloom"
	}
}

func policyNames(ps []base.TableFilterPolicy) []string {
	var out []string
	for _, p := range ps {
		out = append(out, p.Name())
	}
	return out
}

func familyNames(fs []family) []string {
	var out []string
	for _, f := range fs {
		out = append(out, f.name)
	}
	return out
}
