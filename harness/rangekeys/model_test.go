// Package rangekeys holds the checks C08 (range keys: visible set and defragmented bounds match the
// model) and C09 (range-key masking hides exactly the points the rule says). Both run histories on
// a real pebble.DB next to hx.Model and then drive real iterators op by op next to the iterator
// model of this file.
package rangekeys

import (
	"fmt"
	"sort"
	"strconv"
	"strings"

	"github.com/cockroachdb/pebble/internal/verif/hx"
)

// IterCfg is one iterator configuration.
type IterCfg struct {
	Ranges bool   `json:"ranges_only,omitempty"` // IterKeyTypeRangesOnly; otherwise IterKeyTypePointsAndRanges
	Lower  string `json:"lower,omitempty"`
	Upper  string `json:"upper,omitempty"`
	Mask   string `json:"mask,omitempty"`   // RangeKeyMasking.Suffix ("" = masking off)
	Filter bool   `json:"filter,omitempty"` // RangeKeyMasking.Filter = testkeys masking filter
}

func (ic IterCfg) String() string {
	kt := "points+ranges"
	if ic.Ranges {
		kt = "ranges-only"
	}
	s := fmt.Sprintf("%s bounds=[%s,%s)", kt, ic.Lower, ic.Upper)
	if ic.Mask != "" {
		s += " mask=" + ic.Mask
		if ic.Filter {
			s += "+filter"
		}
	}
	return s
}

func splitKey(k string) (prefix, suffix string) {
	if i := strings.LastIndexByte(k, '@'); i >= 0 {
		return k[:i], k[i:]
	}
	return k, ""
}

// kcmp is the key order of the model, written out independently of testkeys.Comparer (and without
// allocations): prefix bytewise; the bare prefix first; then LARGER numeric suffix first.
// selfCheckKeyOrder pins it to the comparer on all keys the harness uses.
func kcmp(a, b string) int {
	ap, as := splitKey(a)
	bp, bs := splitKey(b)
	if c := strings.Compare(ap, bp); c != 0 {
		return c
	}
	switch {
	case as == bs:
		return 0
	case as == "":
		return -1
	case bs == "":
		return +1
	}
	x, y := sufNum(as), sufNum(bs)
	switch {
	case x > y:
		return -1
	case x < y:
		return +1
	}
	return 0
}

// sufNum is the numeric value of a testkeys suffix; independent of the comparer on purpose.
func sufNum(s string) int {
	if len(s) == 2 && s[0] == '@' && s[1] >= '0' && s[1] <= '9' {
		return int(s[1] - '0')
	}
	n, err := strconv.Atoi(strings.TrimPrefix(s, "@"))
	if err != nil {
		panic("bad suffix " + s)
	}
	return n
}

// hidden is the masking rule of the property statement: a point with suffix p is hidden under
// masking suffix s iff a range key with suffix r covers it and s <= r < p in suffix order. In the
// testkeys order a LARGER number sorts FIRST, so that reads num(s) >= num(r) > num(p). A point
// without suffix is never hidden.
func hidden(m *hx.Model, key, mask string) bool {
	_, p := splitKey(key)
	if p == "" || mask == "" {
		return false
	}
	for i := 0; i+1 < len(m.Bounds); i++ {
		if kcmp(m.Bounds[i], key) <= 0 && kcmp(key, m.Bounds[i+1]) < 0 {
			for r := range m.RK[i] {
				if sufNum(mask) >= sufNum(r) && sufNum(r) > sufNum(p) {
					return true
				}
			}
		}
	}
	return false
}

// view is what an iterator configuration can see: visible points inside the bounds and the maximal
// defragmented spans clipped to the bounds.
type view struct {
	pts     []hx.KV
	spans   []hx.Span
	skeys   []string // per span: rendered (suffix=value,) list
	clipped []bool   // per span: bounds differ from the unclipped maximal span
	keys    []string // sorted positions: point keys united with span starts
}

func (v *view) finish() {
	v.skeys = make([]string, len(v.spans))
	for i, s := range v.spans {
		for _, e := range s.Keys {
			v.skeys[i] += e.K + "=" + e.V + ","
		}
	}
	seen := map[string]bool{}
	v.keys = v.keys[:0]
	for _, p := range v.pts {
		if !seen[p.K] {
			seen[p.K] = true
			v.keys = append(v.keys, p.K)
		}
	}
	for _, s := range v.spans {
		if !seen[s.Start] {
			seen[s.Start] = true
			v.keys = append(v.keys, s.Start)
		}
	}
	sort.Slice(v.keys, func(i, j int) bool { return kcmp(v.keys[i], v.keys[j]) < 0 })
}

func buildView(m *hx.Model, ic IterCfg) *view {
	v := &view{spans: m.Spans(ic.Lower, ic.Upper)}
	if !ic.Ranges {
		for _, p := range m.Points() {
			if ic.Lower != "" && kcmp(p.K, ic.Lower) < 0 {
				continue
			}
			if ic.Upper != "" && kcmp(p.K, ic.Upper) >= 0 {
				continue
			}
			if hidden(m, p.K, ic.Mask) {
				continue
			}
			v.pts = append(v.pts, p)
		}
	}
	for _, s := range v.spans {
		cl := true
		for _, f := range m.Spans("", "") {
			if f.Start == s.Start && f.End == s.End {
				cl = false
			}
		}
		v.clipped = append(v.clipped, cl)
	}
	v.finish()
	return v
}

// prefixView clips the view to [prefix, ImmediateSuccessor(prefix)).
func (v *view) prefixView(prefix string) *view {
	lo, hi := prefix, prefix+"\x00"
	w := &view{}
	for _, p := range v.pts {
		if pp, _ := splitKey(p.K); pp == prefix {
			w.pts = append(w.pts, p)
		}
	}
	for i, s := range v.spans {
		st, en := s.Start, s.End
		if kcmp(st, lo) < 0 {
			st = lo
		}
		if kcmp(en, hi) > 0 {
			en = hi
		}
		if kcmp(st, en) < 0 {
			w.spans = append(w.spans, hx.Span{Start: st, End: en, Keys: s.Keys})
			w.clipped = append(w.clipped, v.clipped[i] || st != s.Start || en != s.End)
		}
	}
	w.finish()
	return w
}

func (v *view) spanAt(k string) int {
	for i := range v.spans {
		if kcmp(v.spans[i].Start, k) <= 0 && kcmp(k, v.spans[i].End) < 0 {
			return i
		}
	}
	return -1
}

func (v *view) pointAt(k string) (string, bool) {
	for _, p := range v.pts {
		if p.K == k {
			return p.V, true
		}
	}
	return "", false
}

// Obs is everything observable at one iterator position.
type Obs struct {
	Valid    bool   `json:"valid"`
	Key      string `json:"key,omitempty"`
	HasPoint bool   `json:"has_point,omitempty"`
	HasRange bool   `json:"has_range,omitempty"`
	Val      string `json:"val,omitempty"`
	Start    string `json:"start,omitempty"`
	End      string `json:"end,omitempty"`
	Keys     string `json:"keys,omitempty"` // "@2=x,@1=v0," in suffix order
	Changed  bool   `json:"changed,omitempty"`
	Err      string `json:"err,omitempty"`
	clipped  bool
}

func (o Obs) String() string {
	if o.Err != "" {
		return "error(" + o.Err + ")"
	}
	if !o.Valid {
		return "invalid"
	}
	s := fmt.Sprintf("%q", o.Key)
	if o.HasPoint {
		s += "=" + o.Val
	}
	if o.HasRange {
		s += fmt.Sprintf(" [%q,%q){%s}", o.Start, o.End, o.Keys)
	}
	if o.Changed {
		s += " changed"
	}
	return s
}

// IOp is one iterator call.
type IOp struct {
	Op  string `json:"op"` // First Last SeekGE SeekLT SeekPrefixGE Next Prev
	Key string `json:"key,omitempty"`
	kb  []byte
}

func (o IOp) String() string {
	if o.Key != "" {
		return o.Op + "(" + o.Key + ")"
	}
	return o.Op
}

// miter is the iterator model. Positions are the points united with the clipped starts of the
// spans; a forward seek into the middle of a span additionally produces a position at the
// (lower-bound-clamped) seek key. Bounds of the span reported at a position are clipped to the
// iterator bounds and, in prefix mode, to [prefix, ImmediateSuccessor(prefix)), never to the seek key.
type miter struct {
	ic     IterCfg
	base   *view
	cur    *view
	prefix bool
	valid  bool
	key    string
	exh    int    // +1 exhausted forward (after the last position), -1 exhausted backward
	prevRK string // identity (bounds) of the range key at the previous position, "" if none
	pviews map[string]*view
}

func newMiter(ic IterCfg, v *view) *miter {
	return &miter{ic: ic, base: v, cur: v, pviews: map[string]*view{}}
}

func (m *miter) at(k string, ok bool, dir int) Obs {
	var o Obs
	if !ok {
		m.valid = false
		m.exh = dir
		m.prevRK = ""
		return o
	}
	m.valid, m.key, m.exh = true, k, 0
	o.Valid, o.Key = true, k
	if v, ok := m.cur.pointAt(k); ok {
		o.HasPoint, o.Val = true, v
	}
	id := ""
	if i := m.cur.spanAt(k); i >= 0 {
		s := &m.cur.spans[i]
		o.HasRange, o.Start, o.End, o.Keys, o.clipped = true, s.Start, s.End, m.cur.skeys[i], m.cur.clipped[i]
		id = s.Start + "\x01" + s.End
	}
	if !o.HasPoint && !o.HasRange {
		panic("model: position without point and range")
	}
	o.Changed = id != m.prevRK
	m.prevRK = id
	return o
}

func (m *miter) firstGE(k string) (string, bool) {
	for _, p := range m.cur.keys {
		if kcmp(p, k) >= 0 {
			return p, true
		}
	}
	return "", false
}

func (m *miter) firstGT(k string) (string, bool) {
	for _, p := range m.cur.keys {
		if kcmp(p, k) > 0 {
			return p, true
		}
	}
	return "", false
}

func (m *miter) lastLT(k string) (string, bool) {
	for i := len(m.cur.keys) - 1; i >= 0; i-- {
		if kcmp(m.cur.keys[i], k) < 0 {
			return m.cur.keys[i], true
		}
	}
	return "", false
}

func (m *miter) seekGE(k string) Obs {
	if m.ic.Lower != "" && kcmp(k, m.ic.Lower) < 0 {
		k = m.ic.Lower
	}
	if m.ic.Upper != "" && kcmp(k, m.ic.Upper) >= 0 {
		return m.at("", false, +1)
	}
	if m.cur.spanAt(k) >= 0 {
		return m.at(k, true, 0)
	}
	p, ok := m.firstGE(k)
	return m.at(p, ok, +1)
}

// step applies op; defined=false means the call is outside what the API defines (or what this
// harness generates) in the current state and the rest of the script must be dropped.
func (m *miter) step(op IOp) (o Obs, defined bool) {
	switch op.Op {
	case "First":
		m.prefix, m.cur = false, m.base
		if len(m.cur.keys) == 0 {
			return m.at("", false, +1), true
		}
		return m.at(m.cur.keys[0], true, 0), true
	case "Last":
		m.prefix, m.cur = false, m.base
		if n := len(m.cur.keys); n > 0 {
			return m.at(m.cur.keys[n-1], true, 0), true
		}
		return m.at("", false, -1), true
	case "SeekGE":
		m.prefix, m.cur = false, m.base
		return m.seekGE(op.Key), true
	case "SeekLT":
		m.prefix, m.cur = false, m.base
		k := op.Key
		if m.ic.Upper != "" && kcmp(k, m.ic.Upper) > 0 {
			k = m.ic.Upper
		}
		p, ok := m.lastLT(k)
		return m.at(p, ok, -1), true
	case "SeekPrefixGE":
		// keys outside the bounds give an error or a clamped seek (Appendix A); not generated.
		if m.ic.Lower != "" && kcmp(op.Key, m.ic.Lower) < 0 {
			return o, false
		}
		if m.ic.Upper != "" && kcmp(op.Key, m.ic.Upper) >= 0 {
			return o, false
		}
		pre, _ := splitKey(op.Key)
		pv := m.pviews[pre]
		if pv == nil {
			pv = m.base.prefixView(pre)
			m.pviews[pre] = pv
		}
		m.prefix, m.cur = true, pv
		return m.seekGE(op.Key), true
	case "Next":
		if !m.valid {
			if m.exh == -1 && !m.prefix {
				p, ok := m.firstGE("")
				return m.at(p, ok, +1), true
			}
			return o, false
		}
		p, ok := m.firstGT(m.key)
		return m.at(p, ok, +1), true
	case "Prev":
		if m.prefix {
			return o, false
		}
		if !m.valid {
			if m.exh == +1 {
				if n := len(m.cur.keys); n > 0 {
					return m.at(m.cur.keys[n-1], true, 0), true
				}
				return m.at("", false, -1), true
			}
			return o, false
		}
		p, ok := m.lastLT(m.key)
		return m.at(p, ok, -1), true
	}
	panic("model: unknown iterator op " + op.Op)
}
