package rangekeys

import (
	"fmt"
	"runtime/debug"
	"strings"
	"sync"
	"testing"

	"github.com/cockroachdb/pebble/internal/testkeys"
	"github.com/cockroachdb/pebble/internal/verif/hx"
	"github.com/cockroachdb/pebble/internal/verif/vlib"
)

// ballast keeps the heap target large so that collections are rare and Pebble's sync.Pools (WAL
// writer blocks, iterators) stay warm; it is never touched, so it costs no resident memory.
var ballast []byte

func TestCheck(t *testing.T) {
	ballast = make([]byte, 256<<20)
	debug.SetGCPercent(100)
	vlib.Main(t, "C08", func(c *vlib.Ctx) {
		selfCheckSuffixOrder()
		selfCheckKeyOrder(append(append(append([]string{"", "z", "a@2", "b@2", "a\x00", "b\x00", "c\x00", "bb\x00"}, c08Probes...), c09Probes...), c09Points...))
		if c.ReplayPath() != "" {
			var cs Case
			if err := c.LoadReplay(&cs); err != nil {
				t.Fatal(err)
			}
			replay(c, cs)
			return
		}
		switch c.Prop {
		case "C09":
			runC09(c)
		default:
			runC08(c)
		}
	})
}

// selfCheckSuffixOrder pins the translation between the numeric rule used by the model and the
// comparer's suffix order (a larger number sorts first; the empty suffix sorts before all).
func selfCheckSuffixOrder() {
	sufs := []string{"", "@1", "@2", "@3", "@10"}
	for _, a := range sufs {
		for _, b := range sufs {
			want := 0
			switch {
			case a == b:
			case a == "":
				want = -1
			case b == "":
				want = +1
			case sufNum(a) > sufNum(b):
				want = -1
			default:
				want = +1
			}
			if g := testkeys.Comparer.ComparePointSuffixes([]byte(a), []byte(b)); g != want {
				panic(fmt.Sprintf("ComparePointSuffixes(%q,%q)=%d, harness assumes %d", a, b, g, want))
			}
			if g := testkeys.Comparer.CompareRangeSuffixes([]byte(a), []byte(b)); g != want {
				panic(fmt.Sprintf("CompareRangeSuffixes(%q,%q)=%d, harness assumes %d", a, b, g, want))
			}
		}
	}
}

// selfCheckKeyOrder pins the model's own key order to the comparer on every key in use.
func selfCheckKeyOrder(keys []string) {
	for _, a := range keys {
		for _, b := range keys {
			if g, w := kcmp(a, b), hx.Cmp(a, b); g != w {
				panic(fmt.Sprintf("kcmp(%q,%q)=%d but testkeys.Compare=%d", a, b, g, w))
			}
		}
	}
}

func itersFor(prop string) ([]IterCfg, [][]IOp) {
	if prop == "C09" {
		return c09IterList(true), scripts(c09Probes)
	}
	return c08Iters, scripts(c08Probes)
}

func classifier(prop string) func(*failure) {
	return func(f *failure) {
		// C09 drives, for every masking suffix, the iterator without the filter first: a failure on
		// the with-filter iterator means that the filter changed the result.
		if prop == "C09" && f.ic != nil && f.ic.Filter && !strings.HasPrefix(f.class, "with-filter-") {
			f.class = "with-filter-" + f.class
			f.desc = "the iterator without RangeKeyMasking.Filter agreed with the model for this masking suffix; with the filter: " + f.desc
		}
	}
}

func replay(c *vlib.Ctx, cs Case) {
	if cs.Prop == "" {
		cs.Prop = c.Prop
	}
	iters, scr := itersFor(cs.Prop)
	var st driveStats
	fmt.Printf("replay %s cfg=%s hist=[%s]\n", cs.Prop, cs.Cfg.Name, hx.HistString(cs.Hist))
	_, _, f := runFresh(c, cs, iters, scr, true, true, &st)
	c.Eval(1)
	if f != nil {
		classifier(cs.Prop)(f)
		fmt.Printf("replay: FAIL class=%s %s\n", f.class, f.desc)
		cs.Iter, cs.Script, cs.At = f.ic, f.script, f.at
		c.Violation(f.class, f.desc, cs)
		return
	}
	fmt.Println("replay: agree")
}

func violation(c *vlib.Ctx, rep Case, f *failure) {
	rep.Iter, rep.Script, rep.At = f.ic, f.script, f.at
	c.Violation(f.class, fmt.Sprintf("cfg=%s hist=[%s]: %s", rep.Cfg.Name, hx.HistString(rep.Hist), f.desc), rep)
}

type totals struct {
	mu sync.Mutex
	st driveStats
}

func (t *totals) add(s driveStats) {
	t.mu.Lock()
	t.st.calls += s.calls
	t.st.rangePos += s.rangePos
	t.st.bothPos += s.bothPos
	t.st.clipped += s.clipped
	t.st.midSeek += s.midSeek
	t.mu.Unlock()
}

func (t *totals) note(c *vlib.Ctx) {
	c.Note("iterator_calls", int64(t.st.calls))
	c.Note("positions_with_range_key", int64(t.st.rangePos))
	c.Note("positions_with_point_and_range_key", int64(t.st.bothPos))
	c.Note("positions_with_clipped_bounds", int64(t.st.clipped))
	c.Note("positions_synthesised_by_seek_into_span", int64(t.st.midSeek))
}
