package rangekeys

import (
	"fmt"
	"runtime/debug"
	"sync"
	"testing"

	"github.com/cockroachdb/pebble/internal/testkeys"
	"github.com/cockroachdb/pebble/internal/verif/hx"
	"github.com/cockroachdb/pebble/internal/verif/vlib"
)

func TestCheck(t *testing.T) {
	debug.SetGCPercent(400)
	vlib.Main(t, "C08", func(c *vlib.Ctx) {
		selfCheckSuffixOrder()
		selfCheckKeyOrder(append(append(append([]string{"", "z", "a@2", "b@2", "a\x00", "b\x00", "c\x00", "bb\x00"}, c08Probes...), c09Probes...), c09Points...))
		if c.ReplayPath() != "" {
			var cs Case
			if err := c.LoadReplay(&cs); err != nil {
				t.Fatal(err)
			}
			replay(c, cs)
			return
		}
		switch c.Prop {
		case "C09":
			runC09(c)
		default:
			runC08(c)
		}
	})
}

// selfCheckSuffixOrder pins the translation between the numeric rule used by the model and the
// comparer's suffix order (a larger number sorts first; the empty suffix sorts before all).
func selfCheckSuffixOrder() {
	sufs := []string{"", "@1", "@2", "@3", "@10"}
	for _, a := range sufs {
		for _, b := range sufs {
			want := 0
			switch {
			case a == b:
			case a == "":
				want = -1
			case b == "":
				want = +1
			case sufNum(a) > sufNum(b):
				want = -1
			default:
				want = +1
			}
			if g := testkeys.Comparer.ComparePointSuffixes([]byte(a), []byte(b)); g != want {
				panic(fmt.Sprintf("ComparePointSuffixes(%q,%q)=%d, harness assumes %d", a, b, g, want))
			}
			if g := testkeys.Comparer.CompareRangeSuffixes([]byte(a), []byte(b)); g != want {
				panic(fmt.Sprintf("CompareRangeSuffixes(%q,%q)=%d, harness assumes %d", a, b, g, want))
			}
		}
	}
}

// selfCheckKeyOrder pins the model's own key order to the comparer on every key in use.
func selfCheckKeyOrder(keys []string) {
	for _, a := range keys {
		for _, b := range keys {
			if g, w := kcmp(a, b), hx.Cmp(a, b); g != w {
				panic(fmt.Sprintf("kcmp(%q,%q)=%d but testkeys.Compare=%d", a, b, g, w))
			}
		}
	}
}

func itersFor(prop string) ([]IterCfg, [][]IOp) {
	if prop == "C09" {
		return c09IterList(true), scripts(c09Probes)
	}
	return c08Iters, scripts(c08Probes)
}

func replay(c *vlib.Ctx, cs Case) {
	if cs.Prop == "" {
		cs.Prop = c.Prop
	}
	iters, scr := itersFor(cs.Prop)
	var st driveStats
	fmt.Printf("replay %s cfg=%s hist=[%s]\n", cs.Prop, cs.Cfg.Name, hx.HistString(cs.Hist))
	_, _, f := runHistory(c, cs, iters, scr, true, true, &st)
	c.Eval(1)
	if f != nil {
		if cs.Prop == "C09" && f.ic != nil && f.ic.Filter {
			f.class = "with-filter-" + f.class
		}
		fmt.Printf("replay: FAIL class=%s %s\n", f.class, f.desc)
		cs.Iter, cs.Script, cs.At = f.ic, f.script, f.at
		c.Violation(f.class, f.desc, cs)
		return
	}
	fmt.Println("replay: agree")
}

// report re-executes a failing case twice before reporting it (DESIGN section 8 rule 4).
func report(c *vlib.Ctx, cs Case, f *failure, rerun func() *failure) {
	for k := 0; k < 2; k++ {
		if f2 := rerun(); f2 == nil || f2.class != f.class {
			c.Incomplete("violation did not reproduce: " + f.desc)
			return
		}
	}
	cs.Iter, cs.Script, cs.At = f.ic, f.script, f.at
	c.Violation(f.class, fmt.Sprintf("cfg=%s hist=[%s]: %s", cs.Cfg.Name, hx.HistString(cs.Hist), f.desc), cs)
}

type totals struct {
	mu sync.Mutex
	st driveStats
}

func (t *totals) add(s driveStats) {
	t.mu.Lock()
	t.st.calls += s.calls
	t.st.rangePos += s.rangePos
	t.st.bothPos += s.bothPos
	t.st.clipped += s.clipped
	t.st.midSeek += s.midSeek
	t.mu.Unlock()
}

func (t *totals) note(c *vlib.Ctx) {
	c.Note("iterator_calls", int64(t.st.calls))
	c.Note("positions_with_range_key", int64(t.st.rangePos))
	c.Note("positions_with_point_and_range_key", int64(t.st.bothPos))
	c.Note("positions_with_clipped_bounds", int64(t.st.clipped))
	c.Note("positions_synthesised_by_seek_into_span", int64(t.st.midSeek))
}
