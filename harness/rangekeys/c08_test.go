package rangekeys

import (
	"fmt"

	"github.com/cockroachdb/pebble/internal/verif/hx"
	"github.com/cockroachdb/pebble/internal/verif/vlib"
)

// C08 alphabet, simplest first. @1 range keys carry the per-step default value ("v<step>": a stale
// or wrongly merged value is recognisable), @2 range keys carry the fixed value "x" so that
// separately written abutting fragments are equal and MUST be reported as one span.
var c08Alphabet = []hx.Op{
	{K: "rkset", Key: "a", End: "c", Suf: "@1"},
	{K: "rkset", Key: "b", End: "d", Suf: "@1"},
	{K: "flush"},
	{K: "rkset", Key: "a", End: "d", Suf: "@2", Val: "x"},
	{K: "rkunset", Key: "b", End: "d", Suf: "@1"},
	{K: "rkdel", Key: "a", End: "c"},
	{K: "compact"},
	// --- end of the small alphabet (7)
	{K: "set", Key: "b"},
	{K: "ingest", Sub: []hx.Op{{K: "rkset", Key: "b", End: "d", Suf: "@2", Val: "x"}, {K: "set", Key: "b"}}},
	// --- end of the reduced alphabet (9)
	{K: "rkset", Key: "a", End: "d", Suf: "@1"},
	{K: "rkset", Key: "a", End: "c", Suf: "@2", Val: "x"},
	{K: "rkset", Key: "b", End: "d", Suf: "@2", Val: "x"},
	{K: "rkunset", Key: "a", End: "c", Suf: "@1"},
	{K: "rkunset", Key: "a", End: "d", Suf: "@1"},
	{K: "rkunset", Key: "a", End: "c", Suf: "@2"},
	{K: "rkunset", Key: "b", End: "d", Suf: "@2"},
	{K: "rkunset", Key: "a", End: "d", Suf: "@2"},
	{K: "rkdel", Key: "b", End: "d"},
	{K: "delrange", Key: "a", End: "d"},
	{K: "set", Key: "c@1"},
	{K: "del", Key: "b"},
	{K: "batch", Sub: []hx.Op{{K: "rkset", Key: "a", End: "c", Suf: "@1"}, {K: "rkunset", Key: "b", End: "d", Suf: "@1"}}},
}

const c08Reduced = 9
const c08Small = 7

var c08ModelBounds = []string{"a", "b", "c", "d"}

// iterator configurations: KeyTypes x bound pairs (the last pair has bounds that are not span
// boundaries).
var c08Iters = func() []IterCfg {
	var out []IterCfg
	for _, b := range [][2]string{{"", ""}, {"a", "c"}, {"b", "z"}, {"bb", "cc"}} {
		for _, r := range []bool{true, false} {
			out = append(out, IterCfg{Ranges: r, Lower: b[0], Upper: b[1]})
		}
	}
	return out
}()

// probe keys for seeks: span boundaries, middles of spans, the point keys, keys just before and
// after a point of the same prefix, the non-boundary bounds, keys beyond everything.
var c08Probes = []string{"a", "ab", "b", "b@5", "bb", "c", "c@2", "c@1", "c@0", "cc", "d", "dd"}

type c08Plan struct {
	cfg      hx.Config
	k        int // alphabet prefix length
	min, max int // history lengths
}

func isRangeKeyWrite(op hx.Op) bool {
	switch op.K {
	case "rkset", "rkunset", "rkdel":
		return true
	case "batch", "ingest":
		for _, s := range op.Sub {
			if isRangeKeyWrite(s) {
				return true
			}
		}
	}
	return false
}

func runC08(c *vlib.Ctx) {
	full := len(c08Alphabet)
	// "fast" is the base configuration without a WAL and with a 32 KiB memtable: pebble.Open of the
	// default configuration (WAL writer buffers, 256 KiB arena) cost more than half of a case, and
	// neither matters for what an iterator shows. The default configuration runs one level shallower.
	fast := hx.Config{Name: "fast(nowal,memtable32k)", DisableWAL: true, MemTableSize: 32 << 10}
	tiny := hx.Config{Name: "tinyfiles", TinyFiles: true, DisableWAL: true, MemTableSize: 32 << 10}
	split := hx.Config{Name: "flushsplit", L0Sublevels: true, DisableWAL: true, MemTableSize: 32 << 10}
	var plans []c08Plan
	if !c.Thorough() {
		plans = []c08Plan{
			{fast, full, 1, 3},
			{hx.Config{Name: "default"}, full, 1, 2},
			{tiny, full, 1, 2},
			{fast, c08Small, 4, 4},
		}
	} else {
		plans = []c08Plan{
			{fast, full, 1, 3},
			{hx.Config{Name: "default"}, full, 1, 3},
			{tiny, full, 1, 3},
			{split, full, 1, 3},
			{hx.Config{Name: "fmv-min", FMV: 13, DisableWAL: true, MemTableSize: 32 << 10}, full, 1, 3},
			{fast, full, 4, 4},
			{fast, c08Reduced, 5, 5},
			{tiny, c08Reduced, 4, 4},
		}
	}
	scr := scripts(c08Probes)
	var tot totals
	var notes []string
	for _, p := range plans {
		n := vlib.SeqCount(p.k, p.min, p.max)
		done, complete := c.Each(n, func(i int) {
			seq := vlib.SeqDecode(i, p.k, p.min, p.max)
			hist := make([]hx.Op, len(seq))
			maint, rkw := 0, 0
			for j, s := range seq {
				hist[j] = c08Alphabet[s]
				switch hist[j].K {
				case "flush", "compact", "ingest":
					maint++
				}
				if isRangeKeyWrite(hist[j]) {
					rkw++
				}
			}
			cs := Case{Prop: "C08", Cfg: p.cfg, Bounds: c08ModelBounds, Hist: hist}
			var st driveStats
			m, shape, f := runCase(c, cs, c08Iters, scr, &st, classifier("C08"))
			c.Eval(1)
			c.Trans(st.calls)
			tot.add(st)
			if f != nil {
				violation(c, cs, f)
				c.Outcome("violation:" + f.class)
				return
			}
			if m == nil {
				return // did not reproduce; recorded as incomplete
			}
			c.State(vlib.Hash(m.String(), shape))
			if maint > 0 && rkw >= 2 {
				c.Nontrivial(vlib.Hash(p.cfg.Name, hx.HistString(hist)))
			}
			c.Outcome(fmt.Sprintf("agree: %d span(s), %d point(s) visible", len(m.Spans("", "")), len(m.Pts)))
			if i%2503 == 7 {
				c.Sample(map[string]any{"cfg": p.cfg.Name, "hist": hx.HistString(hist), "model": m.String()})
			}
		})
		notes = append(notes, fmt.Sprintf("%s: alphabet %d, lengths %d..%d: %d/%d histories", p.cfg.Name, p.k, p.min, p.max, done, n))
		if !complete {
			c.Incomplete(fmt.Sprintf("budget expired in plan %s alphabet %d lengths %d..%d after %d of %d histories; all earlier plans complete", p.cfg.Name, p.k, p.min, p.max, done, n))
			break
		}
	}
	c.Note("plans", notes)
	c.Note("scope", fmt.Sprintf("per history (checked after its last op; every shorter history is enumerated on its own, so every op of every history is followed by a check): %d iterator configurations (KeyTypes {ranges-only, points+ranges} x bounds {none,[a,c),[b,z),[bb,cc)}) x (2 full scans with turn-arounds + %d seek scripts over probes %v)", len(c08Iters), len(scr), c08Probes))
	tot.note(c)
}
