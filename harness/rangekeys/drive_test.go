package rangekeys

import (
	"fmt"
	"strings"

	"github.com/cockroachdb/pebble"
	"github.com/cockroachdb/pebble/internal/verif/hx"
	"github.com/cockroachdb/pebble/internal/verif/vlib"
	"github.com/cockroachdb/pebble/sstable"
	"github.com/cockroachdb/pebble/vfs"
)

// Case is the replay artefact of both checks: a DB configuration, a history and (informational)
// the iterator configuration and call sequence on which the disagreement was seen.
type Case struct {
	Prop      string    `json:"prop"`
	Cfg       hx.Config `json:"cfg"`
	Collector bool      `json:"collector,omitempty"` // testkeys block-property collector configured
	Bounds    []string  `json:"model_bounds"`
	Hist      []hx.Op   `json:"hist"`
	Iter      *IterCfg  `json:"iter,omitempty"`
	Script    []IOp     `json:"script,omitempty"`
	At        int       `json:"at,omitempty"`
}

type failure struct {
	class, desc string
	ic          *IterCfg
	script      []IOp
	at          int
}

// One block cache for all DBs of the process (every DB gets its own handle in it): creating an
// 8 MiB cache per history dominated the profile.
var sharedCache = pebble.NewCache(64 << 20)
var sharedFileCache = pebble.NewFileCache(16, 4096)

func openDB(cfg hx.Config, collector bool) (*hx.X, error) {
	o := cfg.Options(vfs.NewMem())
	o.Cache = sharedCache
	o.FileCache = sharedFileCache
	if collector {
		o.BlockPropertyCollectors = []func() pebble.BlockPropertyCollector{sstable.NewTestKeysBlockPropertyCollector}
	}
	return hx.OpenWith("db", o)
}

func iterOptions(ic IterCfg) *pebble.IterOptions {
	o := &pebble.IterOptions{KeyTypes: pebble.IterKeyTypePointsAndRanges}
	if ic.Ranges {
		o.KeyTypes = pebble.IterKeyTypeRangesOnly
	}
	if ic.Lower != "" {
		o.LowerBound = []byte(ic.Lower)
	}
	if ic.Upper != "" {
		o.UpperBound = []byte(ic.Upper)
	}
	if ic.Mask != "" {
		o.RangeKeyMasking.Suffix = []byte(ic.Mask)
		if ic.Filter {
			o.RangeKeyMasking.Filter = func() pebble.BlockPropertyFilterMask { return sstable.NewTestKeysMaskingFilter() }
		}
	}
	return o
}

func applyReal(it *pebble.Iterator, op IOp) bool {
	if op.kb == nil && op.Key != "" {
		op.kb = []byte(op.Key)
	}
	switch op.Op {
	case "First":
		return it.First()
	case "Last":
		return it.Last()
	case "SeekGE":
		return it.SeekGE(op.kb)
	case "SeekLT":
		return it.SeekLT(op.kb)
	case "SeekPrefixGE":
		return it.SeekPrefixGE(op.kb)
	case "Next":
		return it.Next()
	case "Prev":
		return it.Prev()
	}
	panic("unknown iterator op " + op.Op)
}

func observe(it *pebble.Iterator, ret bool) Obs {
	var o Obs
	if err := it.Error(); err != nil {
		o.Err = err.Error()
		return o
	}
	if ret != it.Valid() {
		o.Err = fmt.Sprintf("positioning call returned %v but Valid()=%v", ret, it.Valid())
		return o
	}
	o.Valid = ret
	hp, hr := it.HasPointAndRange()
	o.HasPoint, o.HasRange = hp, hr
	o.Changed = it.RangeKeyChanged()
	if !ret {
		return o
	}
	o.Key = string(it.Key())
	if hp {
		v, err := it.ValueAndErr()
		if err != nil {
			o.Err = "ValueAndErr: " + err.Error()
			return o
		}
		o.Val = string(v)
	}
	s, e := it.RangeBounds()
	o.Start, o.End = string(s), string(e)
	rk := it.RangeKeys()
	if len(rk) > 0 {
		var buf [64]byte
		b := buf[:0]
		for _, k := range rk {
			b = append(append(append(append(b, k.Suffix...), '='), k.Value...), ',')
		}
		o.Keys = string(b)
	}
	if !hr && (s != nil || e != nil || len(rk) != 0) {
		o.Err = fmt.Sprintf("HasPointAndRange says no range key but RangeBounds=[%q,%q) RangeKeys=%s", s, e, o.Keys)
	}
	return o
}

// diff names the first field in which the real observation differs from the model ("" = equal).
func diff(got, want Obs) string {
	switch {
	case got.Err != "":
		return "iterator-error"
	case got.Valid != want.Valid:
		return "position-mismatch"
	case !want.Valid:
		if got.HasPoint || got.HasRange {
			return "has-point-and-range-mismatch"
		}
		if got.Changed {
			return "range-key-changed-mismatch"
		}
		return ""
	case got.Key != want.Key:
		return "position-mismatch"
	case got.HasPoint != want.HasPoint || got.HasRange != want.HasRange:
		return "has-point-and-range-mismatch"
	case got.Val != want.Val:
		return "point-value-mismatch"
	case got.Start != want.Start || got.End != want.End:
		return "range-bounds-mismatch"
	case got.Keys != want.Keys:
		return "range-keys-mismatch"
	case got.Changed != want.Changed:
		return "range-key-changed-mismatch"
	}
	return ""
}

func scriptString(s []IOp) string {
	p := make([]string, len(s))
	for i := range s {
		p[i] = s[i].String()
	}
	return strings.Join(p, " ")
}

// scripts builds the call sequences driven on every iterator besides the two full scans (see
// driveIter): every seek of every probe followed by steps in both directions (which turns around at
// every position, since every position is reachable by a seek), and runs of consecutive monotone
// seeks (the TrySeekUsingNext paths).
func scripts(probes []string) [][]IOp {
	var out [][]IOp
	N, P := IOp{Op: "Next"}, IOp{Op: "Prev"}
	for _, k := range probes {
		ge, lt, pg := IOp{Op: "SeekGE", Key: k}, IOp{Op: "SeekLT", Key: k}, IOp{Op: "SeekPrefixGE", Key: k}
		out = append(out,
			[]IOp{ge, N, N, P, P},
			[]IOp{ge, P, P, N, N},
			[]IOp{lt, N, P, P},
			[]IOp{lt, P, N, N},
			[]IOp{pg, N, N},
		)
	}
	var a, b, c []IOp
	for i, k := range probes {
		a = append(a, IOp{Op: "SeekGE", Key: k})
		b = append(b, IOp{Op: "SeekPrefixGE", Key: k})
		c = append(c, IOp{Op: "SeekLT", Key: probes[len(probes)-1-i]})
	}
	// the same runs with the bounds-violating prefix seeks removed are produced by the model's
	// "undefined" answer cutting a script short, so the prefix run is also emitted per suffix.
	out = append(out, a, c)
	for i := range b {
		out = append(out, b[i:])
	}
	for _, sc := range out {
		for i := range sc {
			if sc[i].Key != "" {
				sc[i].kb = []byte(sc[i].Key)
			}
		}
	}
	return out
}

type driveStats struct {
	calls    int
	rangePos int // positions with a range key
	bothPos  int // positions with point and range key
	clipped  int // positions whose reported bounds were clipped by iterator or prefix bounds
	midSeek  int // positions synthesised by a seek into the middle of a span
}

// driveIter runs the two full scans and all scripts on one real iterator next to the model.
func driveIter(d *pebble.DB, m *hx.Model, ic IterCfg, scr [][]IOp, st *driveStats, verbose bool) (f *failure) {
	v := buildView(m, ic)
	it, err := d.NewIter(iterOptions(ic))
	if err != nil {
		return &failure{class: "iterator-error", desc: "NewIter: " + err.Error(), ic: &ic}
	}
	defer func() {
		if err := it.Close(); err != nil && f == nil {
			f = &failure{class: "iterator-error", desc: "Iterator.Close: " + err.Error(), ic: &ic}
		}
	}()
	mi := newMiter(ic, v)
	var cur []IOp
	// do performs one call on both sides; ok=false ends the current script.
	do := func(op IOp) (want Obs, ok bool) {
		want, defined := mi.step(op)
		if !defined {
			return want, false
		}
		cur = append(cur, op)
		got := observe(it, applyReal(it, op))
		st.calls++
		if want.HasRange {
			st.rangePos++
			if want.HasPoint {
				st.bothPos++
			}
			if want.Key != want.Start && !want.HasPoint {
				st.midSeek++
			}
			if want.clipped {
				st.clipped++
			}
		}
		if verbose {
			fmt.Printf("    %-18s got %-44s want %s\n", op, got, want)
		}
		if c := diff(got, want); c != "" {
			j := len(cur) - 1
			f = &failure{class: c, ic: &ic, script: append([]IOp{}, cur...), at: j,
				desc: fmt.Sprintf("iterator {%s}: calls [%s]: call %d %s: got %s, model %s", ic, scriptString(cur), j, op, got, want)}
			return want, false
		}
		return want, true
	}
	// full scans; after forward exhaustion Prev yields the last position, after backward
	// exhaustion Next yields the first.
	for _, dir := range [][3]string{{"First", "Next", "Prev"}, {"Last", "Prev", "Next"}} {
		cur = cur[:0]
		w, ok := do(IOp{Op: dir[0]})
		for n := 0; ok && w.Valid && n < 64; n++ {
			w, ok = do(IOp{Op: dir[1]})
		}
		for _, o := range []string{dir[2], dir[2], dir[1]} {
			if !ok {
				break
			}
			_, ok = do(IOp{Op: o})
		}
		if f != nil {
			return f
		}
	}
	for _, s := range scr {
		cur = cur[:0]
		for _, op := range s {
			if _, ok := do(op); !ok {
				break
			}
		}
		if f != nil {
			return f
		}
	}
	return nil
}

// sess is one open DB next to its model.
type sess struct {
	cs   Case
	x    *hx.X
	m    *hx.Model
	step int
}

func openSess(cs Case) (*sess, error) {
	x, err := openDB(cs.Cfg, cs.Collector)
	if err != nil {
		return nil, err
	}
	return &sess{cs: cs, x: x, m: hx.NewModel(cs.Bounds...)}, nil
}

// shape is the LSM shape without file and sequence numbers: per level the files with their
// user-key bounds and key types.
func (s *sess) shape() string {
	v := s.x.D.DebugCurrentVersion()
	var b strings.Builder
	for l := range v.Levels {
		n := 0
		for t := range v.Levels[l].All() {
			if n == 0 {
				fmt.Fprintf(&b, "L%d:", l)
			}
			n++
			fmt.Fprintf(&b, " [%s,%s", t.Smallest().UserKey, t.Largest().UserKey)
			if t.HasPointKeys {
				b.WriteString(" P")
			}
			if t.HasRangeKeys {
				b.WriteString(" R")
			}
			if t.Virtual {
				b.WriteString(" V")
			}
			b.WriteString("]")
		}
		if n > 0 {
			b.WriteString("; ")
		}
	}
	return b.String()
}

// run executes hist on the DB and on the model; after the last operation (or after every operation
// when everyStep is set) every iterator configuration is driven.
func (s *sess) run(c *vlib.Ctx, hist []hx.Op, iters []IterCfg, scr [][]IOp, everyStep, verbose bool, st *driveStats) (f *failure) {
	defer func() {
		if r := recover(); r != nil {
			f = &failure{class: "panic", desc: fmt.Sprintf("panic: %v", r)}
		}
	}()
	for i, op := range hist {
		if err := s.x.Apply(s.step, op); err != nil {
			return &failure{class: "op-error", desc: fmt.Sprintf("step %d %s: %v", s.step, op, err), at: i}
		}
		s.m.Apply(op, fmt.Sprintf("v%d", s.step))
		s.step++
		c.Trans(1)
		if i < len(hist)-1 && !everyStep {
			continue
		}
		if verbose {
			fmt.Printf("after step %d %s: model {%s}\n  %s\n", s.step-1, op, s.m.String(), s.shape())
		}
		for _, ic := range iters {
			if verbose {
				fmt.Printf("  iterator {%s}\n", ic)
			}
			if f := driveIter(s.x.D, s.m, ic, scr, st, verbose); f != nil {
				f.desc = fmt.Sprintf("after step %d (%s): %s", s.step-1, op, f.desc)
				return f
			}
		}
	}
	return nil
}

// runFresh runs cs.Hist on a fresh DB. (Reusing one DB for a chain of cases separated by an excise
// of the whole key space was tried and measured: flush+excise cost as much as pebble.Open.)
func runFresh(c *vlib.Ctx, cs Case, iters []IterCfg, scr [][]IOp, everyStep, verbose bool, st *driveStats) (m *hx.Model, shape string, f *failure) {
	s, err := openSess(cs)
	if err != nil {
		return nil, "", &failure{class: "open-error", desc: err.Error()}
	}
	f = s.run(c, cs.Hist, iters, scr, everyStep, verbose, st)
	if f != nil && f.class == "panic" {
		return s.m, "", f // the DB may hold locks; leak it
	}
	if f == nil {
		shape = s.shape()
	}
	if err := s.x.D.Close(); err != nil && f == nil {
		f = &failure{class: "close-error", desc: err.Error()}
	}
	return s.m, shape, f
}

// runCase runs one case; a disagreement is re-executed twice before it is reported (DESIGN
// section 8 rule 4). m == nil && f == nil means "did not reproduce" (recorded as incomplete).
func runCase(c *vlib.Ctx, cs Case, iters []IterCfg, scr [][]IOp, st *driveStats, classify func(*failure)) (m *hx.Model, shape string, f *failure) {
	m, shape, f = runFresh(c, cs, iters, scr, false, false, st)
	if f == nil {
		return m, shape, nil
	}
	classify(f)
	for k := 0; k < 2; k++ {
		var st2 driveStats
		_, _, f2 := runFresh(c, cs, iters, scr, false, false, &st2)
		if f2 != nil {
			classify(f2)
		}
		if f2 == nil || f2.class != f.class {
			c.Incomplete("violation did not reproduce: " + f.desc)
			return nil, "", nil
		}
	}
	return nil, "", f
}
