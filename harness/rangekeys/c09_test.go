package rangekeys

import (
	"fmt"
	"math/bits"

	"github.com/cockroachdb/pebble/internal/verif/hx"
	"github.com/cockroachdb/pebble/internal/verif/vlib"
)

// C09 layout space.
var c09Points = []string{"a", "a@3", "a@2", "a@1", "b", "b@3", "b@2", "b@1"}

type rkey struct{ start, end, suf string }

var c09RangeKeys = []rkey{
	{"a", "c", "@1"}, {"a", "c", "@2"}, {"a", "c", "@3"},
	{"a", "b", "@1"}, {"a", "b", "@2"}, {"a", "b", "@3"},
}

var c09ModelBounds = []string{"a", "b", "c"}

var c09Masks = []string{"@1", "@2", "@3"}

// For every masking suffix the iterator without the filter comes first: a failure on the
// with-filter iterator therefore means "the filter changed the result".
func c09IterList(bounded bool) []IterCfg {
	var out []IterCfg
	for _, s := range c09Masks {
		for _, f := range []bool{false, true} {
			out = append(out, IterCfg{Mask: s, Filter: f})
		}
	}
	if bounded {
		for _, s := range c09Masks[2:] { // bounds that clip the masking span: largest masking suffix only
			for _, f := range []bool{false, true} {
				out = append(out, IterCfg{Mask: s, Filter: f, Lower: "a@2", Upper: "b@2"})
			}
		}
	}
	return out
}

var c09Probes = []string{"a", "a@3", "a@2", "a@1", "ab", "b", "b@3", "b@2", "b@1", "bb", "c"}

// layout is one point of the enumerated space.
type layout struct {
	pts       uint32 // subset of c09Points
	ptFlushed uint32 // subset of pts that is flushed to a table (the rest stays in the memtable)
	bs1       bool   // block size 1: every flushed point in its own data block
	rks       []int  // indices into c09RangeKeys (1 or 2)
	rkFlushed []bool
	oneTable  bool // everything that is flushed goes into ONE table instead of one table per group
}

func (l layout) hist() []hx.Op {
	var h []hx.Op
	flushedGroups := 0
	for i, r := range l.rks {
		if l.rkFlushed[i] {
			k := c09RangeKeys[r]
			h = append(h, hx.Op{K: "rkset", Key: k.start, End: k.end, Suf: k.suf})
			flushedGroups++
			if !l.oneTable {
				h = append(h, hx.Op{K: "flush"})
			}
		}
	}
	if l.ptFlushed != 0 {
		for i, p := range c09Points {
			if l.ptFlushed&(1<<uint(i)) != 0 {
				h = append(h, hx.Op{K: "set", Key: p})
			}
		}
		flushedGroups++
		if !l.oneTable {
			h = append(h, hx.Op{K: "flush"})
		}
	}
	if l.oneTable && flushedGroups > 0 {
		h = append(h, hx.Op{K: "flush"})
	}
	for i, r := range l.rks {
		if !l.rkFlushed[i] {
			k := c09RangeKeys[r]
			h = append(h, hx.Op{K: "rkset", Key: k.start, End: k.end, Suf: k.suf})
		}
	}
	for i, p := range c09Points {
		if l.pts&(1<<uint(i)) != 0 && l.ptFlushed&(1<<uint(i)) == 0 {
			h = append(h, hx.Op{K: "set", Key: p})
		}
	}
	return h
}

func (l layout) cfg() hx.Config {
	// no WAL and a small memtable: neither matters for masking, both dominate the cost of a case
	if l.bs1 {
		return hx.Config{Name: "blocksize1", BlockSize: 1, DisableWAL: true, MemTableSize: 32 << 10}
	}
	return hx.Config{Name: "blocksize-default", DisableWAL: true, MemTableSize: 32 << 10}
}

// c09Layouts enumerates the layout space, fewest points first. Quick tier: at most 3 points with one
// or two range keys, point placement "all flushed" / "all in the
// memtable", one table per flushed group. Thorough tier: at
// most 4 points, every point flushed or not individually, and for the uniform placements also the
// variant with everything flushed into ONE table.
func c09Layouts(thorough bool) []layout {
	perPoint, maxPts := thorough, 3
	if thorough {
		maxPts = 4
	}
	var rkSets [][]int
	for i := range c09RangeKeys {
		rkSets = append(rkSets, []int{i})
	}
	for i := range c09RangeKeys {
		for j := i + 1; j < len(c09RangeKeys); j++ {
			rkSets = append(rkSets, []int{i, j})
		}
	}
	var out []layout
	for np := 0; np <= maxPts; np++ {
		for pts := uint32(0); pts < 1<<uint(len(c09Points)); pts++ {
			if bits.OnesCount32(pts) != np {
				continue
			}
			// placements of the points
			var places []uint32
			if perPoint {
				for sub := pts; ; sub = (sub - 1) & pts {
					places = append(places, sub)
					if sub == 0 {
						break
					}
				}
			} else {
				places = []uint32{pts}
				if pts != 0 {
					places = append(places, 0)
				}
			}
			for _, fl := range places {
				bsOpts := []bool{true}
				if bits.OnesCount32(fl) >= 2 && (thorough || bits.OnesCount32(fl) == 2) {
					bsOpts = []bool{true, false} // several points in one block only matter with >= 2 flushed points
				}
				for _, bs1 := range bsOpts {
					for _, rs := range rkSets {
						for rp := 0; rp < 1<<uint(len(rs)); rp++ {
							rf := make([]bool, len(rs))
							groups := 0
							if fl != 0 {
								groups++
							}
							for i := range rs {
								rf[i] = rp&(1<<uint(i)) != 0
								if rf[i] {
									groups++
								}
							}
							out = append(out, layout{pts: pts, ptFlushed: fl, bs1: bs1, rks: rs, rkFlushed: rf})
							if groups >= 2 && thorough && (fl == pts || fl == 0) {
								out = append(out, layout{pts: pts, ptFlushed: fl, bs1: bs1, rks: rs, rkFlushed: rf, oneTable: true})
							}
						}
					}
				}
			}
		}
	}
	return out
}

func runC09(c *vlib.Ctx) {
	layouts := c09Layouts(c.Thorough())
	iters := c09IterList(c.Thorough())
	scr := scripts(c09Probes)
	var tot totals
	n := len(layouts)
	done, complete := c.Each(n, func(i int) {
		l := layouts[i]
		cs := Case{Prop: "C09", Cfg: l.cfg(), Collector: true, Bounds: c09ModelBounds, Hist: l.hist()}
		var st driveStats
		m, _, f := runCase(c, cs, iters, scr, &st, classifier("C09"))
		c.Eval(1)
		c.Trans(st.calls)
		tot.add(st)
		if f != nil {
			violation(c, cs, f)
			c.Outcome("violation:" + f.class)
			return
		}
		if m == nil {
			return
		}
		// which points does which masking suffix hide
		sig := ""
		maxHidden := 0
		covered := 0
		for _, s := range c09Masks {
			h := 0
			for k := range m.Pts {
				if hidden(m, k, s) {
					h++
				}
			}
			if h > maxHidden {
				maxHidden = h
			}
			sig += fmt.Sprintf("%s:%d ", s, h)
		}
		for k := range m.Pts {
			if hx.Cmp(k, "c") < 0 {
				for j := 0; j+1 < len(m.Bounds); j++ {
					if hx.Cmp(m.Bounds[j], k) <= 0 && hx.Cmp(k, m.Bounds[j+1]) < 0 && len(m.RK[j]) > 0 {
						covered++
					}
				}
			}
		}
		c.State(vlib.Hash(m.String(), sig))
		if maxHidden > 0 && maxHidden < len(m.Pts) {
			// some masking suffix hides a point and leaves another one visible
			c.Nontrivial(vlib.Hash(fmt.Sprint(l)))
		}
		c.Outcome(fmt.Sprintf("agree: %d point(s), %d covered, at most %d hidden", len(m.Pts), covered, maxHidden))
		if i%3001 == 11 {
			c.Sample(map[string]any{"cfg": cs.Cfg.Name, "hist": hx.HistString(cs.Hist), "hidden_per_mask": sig})
		}
	})
	if !complete {
		c.Incomplete(fmt.Sprintf("budget expired after %d of %d layouts (layouts are ordered by number of points; the enumeration is dealt to workers in order)", done, n))
	}
	c.Note("layouts", fmt.Sprintf("%d/%d", done, n))
	space := "point subsets (<=2 points with 1-2 range keys, 3 points with 1 range key) x placement {all flushed, all in the memtable} x block size {1; default too when exactly 2 points are flushed} x range keys each {memtable, flushed to its own table}"
	if c.Thorough() {
		space = "point subsets (<=4 points) x each point {flushed, memtable} x block size {1; default too when >=2 points are flushed} x 1-2 range keys each {memtable, flushed} x (for uniform point placements) {one table per flushed group, one table for all}"
	}
	c.Note("scope", fmt.Sprintf("layouts over points %v and range keys %v: %s; per layout %d iterators (masking suffix %v x {no filter, testkeys masking filter}%s) x (2 full scans with turn-arounds + %d seek scripts over probes %v)",
		c09Points, c09RangeKeys, space, len(iters), c09Masks, map[bool]string{true: "; bounds none and, for @3, [a@2,b@2)", false: ""}[c.Thorough()], len(scr), c09Probes))
	tot.note(c)
}
