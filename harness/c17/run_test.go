// Driving the real compact.Iter (the way internal/compact/iterator_test.go does) and checking its
// output against the model.
package c17

import (
	"encoding/binary"
	"fmt"
	"sort"
	"strconv"
	"strings"

	"github.com/cockroachdb/pebble/internal/base"
	"github.com/cockroachdb/pebble/internal/compact"
	"github.com/cockroachdb/pebble/internal/keyspan"
	"github.com/cockroachdb/pebble/internal/rangekey"
)

// stream is an input stream prepared for execution (built once, run under many configurations).
type stream struct {
	part   string
	pts    []Pt // sorted: user key ascending, Seq descending
	rdels  []RDel
	rks    []RKSpan
	kvs    []base.InternalKV
	rdFrag []keyspan.Span
	rkSpan []keyspan.Span
	keys   []string // distinct point user keys
	probes []string // user keys at which views are compared
	seqs   []uint64 // distinct sequence numbers, ascending
	valid  bool     // SingleDelete contract holds
}

var spanProbes = []string{"a", "b", "bb", "c", "cc", "d", "dd"}

func baseKind(k Kind) base.InternalKeyKind {
	switch k {
	case KSet:
		return base.InternalKeyKindSet
	case KDel:
		return base.InternalKeyKindDelete
	case KMerge:
		return base.InternalKeyKindMerge
	case KSingleDel:
		return base.InternalKeyKindSingleDelete
	case KSetWithDel:
		return base.InternalKeyKindSetWithDelete
	case KDelSized:
		return base.InternalKeyKindDeleteSized
	}
	panic("kind")
}

func modelKind(k base.InternalKeyKind) Kind {
	switch k {
	case base.InternalKeyKindSet:
		return KSet
	case base.InternalKeyKindDelete:
		return KDel
	case base.InternalKeyKindMerge:
		return KMerge
	case base.InternalKeyKindSingleDelete:
		return KSingleDel
	case base.InternalKeyKindSetWithDelete:
		return KSetWithDel
	case base.InternalKeyKindDeleteSized:
		return KDelSized
	}
	return kOther
}

func rkBaseKind(k string) base.InternalKeyKind {
	switch k {
	case "SET":
		return base.InternalKeyKindRangeKeySet
	case "UNSET":
		return base.InternalKeyKindRangeKeyUnset
	case "DEL":
		return base.InternalKeyKindRangeKeyDelete
	}
	panic("rk kind")
}

func rkModelKind(k base.InternalKeyKind) string {
	switch k {
	case base.InternalKeyKindRangeKeySet:
		return "SET"
	case base.InternalKeyKindRangeKeyUnset:
		return "UNSET"
	case base.InternalKeyKindRangeKeyDelete:
		return "DEL"
	}
	return "?" + k.String()
}

// newStream prepares a stream. pts may be in any order.
func newStream(part string, pts []Pt, rdels []RDel, rks []RKSpan) *stream {
	st := &stream{part: part, pts: pts, rdels: rdels, rks: rks}
	sortPts(st.pts)
	seqSet := map[uint64]struct{}{}
	for _, p := range st.pts {
		ik := base.MakeInternalKey([]byte(p.K), base.SeqNum(p.Seq), baseKind(p.Kind))
		var v []byte
		switch p.Kind {
		case KSet, KSetWithDel, KMerge:
			v = []byte(p.V)
		case KDelSized:
			if p.V != "" {
				n, err := strconv.ParseUint(p.V, 10, 64)
				if err != nil {
					panic(err)
				}
				v = binary.AppendUvarint(nil, n)
			}
		}
		st.kvs = append(st.kvs, base.InternalKV{K: ik, V: base.MakeInPlaceValue(v)})
		seqSet[p.Seq] = struct{}{}
		if len(st.keys) == 0 || st.keys[len(st.keys)-1] != p.K {
			st.keys = append(st.keys, p.K)
		}
	}
	if len(rdels) > 0 {
		sorted := append([]RDel(nil), rdels...)
		sort.SliceStable(sorted, func(i, j int) bool { return sorted[i].Start < sorted[j].Start })
		f := keyspan.Fragmenter{
			Cmp:    base.DefaultComparer.Compare,
			Format: base.DefaultComparer.FormatKey,
			Emit:   func(s keyspan.Span) { st.rdFrag = append(st.rdFrag, s.Clone()) },
		}
		for _, r := range sorted {
			f.Add(keyspan.Span{Start: []byte(r.Start), End: []byte(r.End),
				Keys: []keyspan.Key{{Trailer: base.MakeTrailer(base.SeqNum(r.Seq), base.InternalKeyKindRangeDelete)}}})
			seqSet[r.Seq] = struct{}{}
		}
		f.Finish()
	}
	for _, s := range rks {
		sp := keyspan.Span{Start: []byte(s.Start), End: []byte(s.End)}
		for _, k := range s.Keys {
			key := keyspan.Key{Trailer: base.MakeTrailer(base.SeqNum(k.Seq), rkBaseKind(k.Kind))}
			if k.Kind != "DEL" {
				key.Suffix = []byte(k.Suffix)
			}
			if k.Kind == "SET" {
				key.Value = []byte(k.V)
			}
			sp.Keys = append(sp.Keys, key)
			seqSet[k.Seq] = struct{}{}
		}
		keyspan.SortKeysByTrailer(sp.Keys)
		st.rkSpan = append(st.rkSpan, sp)
	}
	for s := range seqSet {
		st.seqs = append(st.seqs, s)
	}
	sort.Slice(st.seqs, func(i, j int) bool { return st.seqs[i] < st.seqs[j] })
	if len(rdels) > 0 || len(rks) > 0 {
		st.probes = spanProbes
	} else {
		st.probes = st.keys
	}
	st.valid = true
	var buf []uint64
	for _, k := range st.keys {
		buf = coverSeqs(rdels, k, buf)
		if !sdContractOK(ptsOf(st.pts, k), buf) {
			st.valid = false
		}
	}
	return st
}

func (st *stream) String() string {
	var p []string
	for _, x := range st.pts {
		p = append(p, x.String())
	}
	for _, x := range st.rdels {
		p = append(p, x.String())
	}
	for _, x := range st.rks {
		p = append(p, "rangekeys"+x.String())
	}
	return strings.Join(p, " ")
}

func (st *stream) mkCase(cfg *Cfg) Case {
	c := Case{Part: st.part, Points: st.pts, RangeDels: st.rdels, RangeKeys: st.rks, Cfg: *cfg}
	c.Cfg.Snapshots = append([]uint64{}, cfg.Snapshots...)
	return c
}

// ---------------------------------------------------------------------------------------------

type outSpan struct {
	Start, End string
	Keys       []RKey // for range tombstones Kind == "RANGEDEL"
}

func (s outSpan) String() string {
	var p []string
	for _, k := range s.Keys {
		if k.Kind == "RANGEDEL" {
			p = append(p, fmt.Sprintf("(#%d,RANGEDEL)", k.Seq))
		} else {
			p = append(p, "("+k.String()+")")
		}
	}
	return fmt.Sprintf("[%s,%s):{%s}", s.Start, s.End, strings.Join(p, " "))
}

// output is everything compact.Iter produced for one case.
type output struct {
	pts     []Pt
	rawVals [][]byte // raw value bytes of pts (DELSIZED payloads)
	rdels   []outSpan
	rkeys   []outSpan
	order   []base.InternalKey // every key returned by First/Next, in order
	err     error
	panicV  string
	nondet  int // NondeterministicSingleDeleteCallback invocations
	ineff   int
	missize int
	steps   int
}

func (o *output) String() string {
	var p []string
	for _, k := range o.order {
		p = append(p, k.String())
	}
	s := "keys: " + strings.Join(p, " ")
	for _, x := range o.rdels {
		s += "\n  rangedel span " + x.String()
	}
	for _, x := range o.rkeys {
		s += "\n  rangekey span " + x.String()
	}
	if o.err != nil {
		s += "\n  error: " + o.err.Error()
	}
	if o.panicV != "" {
		s += "\n  panic: " + o.panicV
	}
	return s
}

func elisionOf(cfg *Cfg) compact.TombstoneElision {
	switch cfg.Elision {
	case "all":
		return compact.ElideTombstonesOutsideOf(nil)
	case "inuse":
		var r []base.UserKeyBounds
		for _, u := range cfg.InUse {
			r = append(r, base.UserKeyBoundsEndExclusiveIf([]byte(u.Start), []byte(u.End), !u.Incl))
		}
		return compact.ElideTombstonesOutsideOf(r)
	}
	return compact.NoTombstoneElision()
}

// runReal runs the real compaction iterator over the stream.
func runReal(st *stream, cfg *Cfg) (o *output) {
	o = &output{}
	defer func() {
		if r := recover(); r != nil {
			o.panicV = fmt.Sprint(r)
		}
	}()
	el := elisionOf(cfg)
	snaps := make(compact.Snapshots, len(cfg.Snapshots))
	for i, s := range cfg.Snapshots {
		snaps[i] = base.SeqNum(s)
	}
	ic := compact.IterConfig{
		Comparer:                             base.DefaultComparer,
		Merge:                                base.DefaultMerger.Merge,
		Snapshots:                            snaps,
		TombstoneElision:                     el,
		RangeKeyElision:                      el,
		IsBottommostDataLayer:                cfg.Bottommost,
		IneffectualSingleDeleteCallback:      func([]byte) { o.ineff++ },
		NondeterministicSingleDeleteCallback: func([]byte) { o.nondet++ },
		MissizedDeleteCallback:               func([]byte, uint64, uint64) { o.missize++ },
	}
	var rdIter, rkIter keyspan.FragmentIterator
	if len(st.rdFrag) > 0 {
		rdIter = keyspan.NewIter(base.DefaultComparer.Compare, st.rdFrag)
	}
	if len(st.rkSpan) > 0 {
		rkIter = keyspan.NewIter(base.DefaultComparer.Compare, st.rkSpan)
	}
	it := compact.NewIter(ic, base.NewFakeIter(base.DefaultComparer, st.kvs), rdIter, rkIter)
	for kv := it.First(); kv != nil; kv = it.Next() {
		o.steps++
		uk := string(kv.K.UserKey)
		o.order = append(o.order, base.InternalKey{UserKey: []byte(uk), Trailer: kv.K.Trailer})
		kind := kv.K.Kind()
		switch {
		case kind == base.InternalKeyKindRangeDelete:
			sp := it.Span()
			os := outSpan{Start: string(sp.Start), End: string(sp.End)}
			for _, k := range sp.Keys {
				kk := "RANGEDEL"
				if k.Kind() != base.InternalKeyKindRangeDelete {
					kk = "?" + k.Kind().String()
				}
				os.Keys = append(os.Keys, RKey{Seq: uint64(k.SeqNum()), Kind: kk})
			}
			o.rdels = append(o.rdels, os)
		case rangekey.IsRangeKey(kind):
			sp := it.Span()
			os := outSpan{Start: string(sp.Start), End: string(sp.End)}
			for _, k := range sp.Keys {
				os.Keys = append(os.Keys, RKey{Seq: uint64(k.SeqNum()), Kind: rkModelKind(k.Kind()), Suffix: string(k.Suffix), V: string(k.Value)})
			}
			o.rkeys = append(o.rkeys, os)
		default:
			v, _, err := kv.Value(nil)
			if err != nil {
				o.err = err
				return o
			}
			p := Pt{K: uk, Seq: uint64(kv.K.SeqNum()), Kind: modelKind(kind)}
			switch p.Kind {
			case KSet, KSetWithDel, KMerge:
				p.V = string(v)
			}
			o.pts = append(o.pts, p)
			o.rawVals = append(o.rawVals, append([]byte(nil), v...))
		}
		if o.steps > 1000 {
			o.panicV = "iterator does not terminate (more than 1000 keys returned)"
			return o
		}
	}
	o.err = it.Error()
	if err := it.Close(); err != nil && o.err == nil {
		o.err = err
	}
	return o
}

// ---------------------------------------------------------------------------------------------

type failure struct {
	class string
	desc  string
}

func fail(class, f string, a ...any) *failure {
	return &failure{class: class, desc: fmt.Sprintf(f, a...)}
}

// outCoverSeqs returns the seqnums (descending) of output range tombstones covering k.
func outCoverSeqs(sp []outSpan, k string, buf []uint64) []uint64 {
	buf = buf[:0]
	for i := range sp {
		if sp[i].Start <= k && k < sp[i].End {
			for _, x := range sp[i].Keys {
				buf = append(buf, x.Seq)
			}
		}
	}
	sortDesc(buf)
	return buf
}

// check compares the output with the model. It returns nil if every rule holds.
func check(st *stream, cfg *Cfg, o *output, verbose bool) *failure {
	if o.panicV != "" {
		return fail("panic", "compact.Iter panicked: %s", o.panicV)
	}
	if o.err != nil {
		return fail("iter-error", "compact.Iter returned an error for a valid stream: %v", o.err)
	}
	cmp := base.DefaultComparer.Compare
	// (a) strict order of everything returned.
	for i := 1; i < len(o.order); i++ {
		if base.InternalCompare(cmp, o.order[i-1], o.order[i]) >= 0 {
			return fail("output-order", "output keys not strictly ordered: %s then %s", o.order[i-1], o.order[i])
		}
	}
	// (b) per user key: at most one point per snapshot stripe; sequence numbers preserved or zeroed
	// only in the bottom stripe of a bottommost compaction; tombstone payloads well-formed.
	for i := range o.pts {
		p := &o.pts[i]
		in := ptsOf(st.pts, p.K)
		if len(in) == 0 {
			return fail("output-foreign-key", "output key %s has a user key that is not in the input", p)
		}
		if p.Kind == kOther {
			return fail("output-kind", "output key %s#%d has an unexpected kind", p.K, p.Seq)
		}
		if p.Seq == 0 {
			if !cfg.Bottommost {
				return fail("seqnum-zeroed-not-bottommost", "output key %s has sequence number 0 although IsBottommostDataLayer is false", p)
			}
			ok := false
			for _, e := range in {
				if cfg.stripe(e.Seq) == 0 {
					ok = true
				}
			}
			if !ok {
				return fail("seqnum-zeroed-above-snapshot", "output key %s has sequence number 0 but user key %s has no input below the earliest snapshot %v", p, p.K, cfg.Snapshots)
			}
		} else {
			ok := false
			for _, e := range in {
				if e.Seq == p.Seq {
					ok = true
				}
			}
			if !ok {
				return fail("seqnum-invented", "output key %s carries a sequence number no input entry of %s has", p, p.K)
			}
		}
		if i > 0 && o.pts[i-1].K == p.K && cfg.stripe(o.pts[i-1].Seq) == cfg.stripe(p.Seq) {
			return fail("two-outputs-in-one-stripe", "output keys %s and %s are in the same snapshot stripe (snapshots %v)", o.pts[i-1], p, cfg.Snapshots)
		}
		switch p.Kind {
		case KDel, KSingleDel:
			if len(o.rawVals[i]) != 0 {
				return fail("tombstone-value", "output tombstone %s carries a value %x", p, o.rawVals[i])
			}
		case KDelSized:
			if v := o.rawVals[i]; len(v) != 0 {
				if _, n := binary.Uvarint(v); n != len(v) {
					return fail("tombstone-value", "output DELSIZED %s carries an invalid varint %x", p, v)
				}
			}
		}
	}
	// (c) span outputs: sorted, disjoint, keys ordered, one range tombstone per stripe, provenance.
	for _, spans := range [][]outSpan{o.rdels, o.rkeys} {
		for i := range spans {
			s := &spans[i]
			if s.Start >= s.End || len(s.Keys) == 0 {
				return fail("span-malformed", "output span %s is empty", s)
			}
			if i > 0 && spans[i-1].End > s.Start {
				return fail("span-order", "output spans %s and %s overlap or are out of order", spans[i-1], s)
			}
		}
	}
	for i := range o.rdels {
		s := &o.rdels[i]
		for j, k := range s.Keys {
			if k.Kind != "RANGEDEL" {
				return fail("span-kind", "range tombstone span %s holds a %s key", s, k.Kind)
			}
			if j > 0 && cfg.stripe(s.Keys[j-1].Seq) == cfg.stripe(k.Seq) {
				return fail("two-rangedels-in-one-stripe", "output span %s keeps two range tombstones of one snapshot stripe (snapshots %v)", s, cfg.Snapshots)
			}
			if j > 0 && s.Keys[j-1].Seq <= k.Seq {
				return fail("span-key-order", "keys of output span %s are not ordered", s)
			}
			ok := false
			for _, r := range st.rdels {
				if r.Seq == k.Seq && r.Start <= s.Start && s.End <= r.End {
					ok = true
				}
			}
			if !ok {
				return fail("rangedel-invented", "output span %s carries a range tombstone #%d that no input tombstone covering the span has", s, k.Seq)
			}
		}
	}
	for i := range o.rkeys {
		s := &o.rkeys[i]
		var in *RKSpan
		for j := range st.rks {
			if st.rks[j].Start == s.Start && st.rks[j].End == s.End {
				in = &st.rks[j]
			}
		}
		if in == nil {
			return fail("rangekey-span-bounds", "output range key span %s has bounds no input span has", s)
		}
		for j, k := range s.Keys {
			if j > 0 && s.Keys[j-1].Seq < k.Seq {
				return fail("span-key-order", "keys of output span %s are not ordered", s)
			}
			ok := false
			for _, x := range in.Keys {
				if x.Seq == k.Seq && x.Kind == k.Kind && x.Suffix == k.Suffix && x.V == k.V {
					ok = true
				}
			}
			if !ok {
				return fail("rangekey-invented", "output span %s carries a key (%s) its input span %s does not have", s, k, in)
			}
		}
	}
	// (d) the views.
	reads := append(append([]uint64{}, cfg.Snapshots...), inf)
	var ib, ob []uint64
	for _, k := range st.probes {
		ipts := ptsOf(st.pts, k)
		opts := ptsOf(o.pts, k)
		ib = coverSeqs(st.rdels, k, ib)
		ob = outCoverSeqs(o.rdels, k, ob)
		perm := cfg.permitted(k)
		for _, r := range reads {
			vi := readView(ipts, ib, r)
			vo := readView(opts, ob, r)
			ni, no := normalOpacity(ipts, ib, r), normalOpacity(opts, ob, r)
			class, why := compareViews(vi, vo, ni, no, perm, cfg.Bottommost)
			if verbose {
				fmt.Printf("  key %-2s read@%-8s input %-36s [resolved: %s] output %-36s [resolved: %s] %s\n", k, readName(r), vi, opNames[ni], vo, opNames[no], class)
			}
			if class != "" {
				return fail(class, "user key %q read at %s: input gives %s (with SINGLEDELs resolved: %s), output gives %s (resolved: %s): %s; elision permitted at this key: %v", k, readName(r), vi, opNames[ni], vo, opNames[no], why, perm)
			}
		}
		// (e) a future contract-abiding SINGLEDEL: if the newest entry of the key is a plain SET whose
		// predecessor in the stream is a tombstone (or nothing), the user may SingleDelete the key. The
		// SINGLEDEL annihilates a SET but turns into a DEL on a SETWITHDEL; what it then exposes must
		// not have lost a hard tombstone (the reason SETWITHDEL exists).
		if len(ipts) > 0 && ipts[0].Kind == KSet && (len(ib) == 0 || ib[0] <= ipts[0].Seq) && !perm {
			legit := len(ipts) == 1 || ipts[1].Kind == KDel || ipts[1].Kind == KDelSized || ipts[1].Kind == KSingleDel
			if !legit && len(ipts) > 1 {
				for _, s := range ib { // a covering range tombstone directly below the SET
					if s <= ipts[0].Seq && s > ipts[1].Seq {
						legit = true
					}
				}
			}
			if legit && len(opts) > 0 && (opts[0].Kind == KSet || opts[0].Kind == KSetWithDel) {
				vi := readView(ipts[1:], ib, inf)
				var vo view
				if opts[0].Kind == KSet {
					vo = readView(opts[1:], ob, inf)
				} else {
					vo = view{op: opHard, termSeq: opts[0].Seq}
				}
				if verbose {
					fmt.Printf("  key %-2s after a future SINGLEDEL: input %s output %s\n", k, vi, vo)
				}
				if vi.op == opHard && vo.op != opHard {
					return fail("setwithdel-lost", "user key %q: the newest entry is a SET directly above a tombstone; after a (contract-abiding) future SINGLEDEL the input still shadows lower levels (%s) but the output does not (%s): the SET should have become SETWITHDEL or the tombstone kept", k, vi, vo)
				}
			}
		}
		// (f) range keys at this probe key.
		if len(st.rks) > 0 || len(o.rkeys) > 0 {
			var ik, ok []RKey
			for i := range st.rks {
				if st.rks[i].Start <= k && k < st.rks[i].End {
					ik = st.rks[i].Keys
				}
			}
			for i := range o.rkeys {
				if o.rkeys[i].Start <= k && k < o.rkeys[i].End {
					ok = o.rkeys[i].Keys
				}
			}
			for _, suffix := range rkSuffixes {
				for _, r := range reads {
					si := rkView(ik, suffix, r)
					so := rkView(ok, suffix, r)
					if verbose {
						fmt.Printf("  key %-2s range-key suffix %s read@%-8s input %-20s output %-20s\n", k, suffix, readName(r), si, so)
					}
					if si.has != so.has || si.val != so.val {
						return fail("rangekey-visible-differs", "range key state at %q suffix %s read at %s: input %s, output %s", k, suffix, readName(r), si, so)
					}
					if si.opaque && !so.opaque && !perm {
						return fail("rangekey-tombstone-lost", "range key state at %q suffix %s read at %s: input %s, output %s (unset/delete lost without elision permission)", k, suffix, readName(r), si, so)
					}
					if !si.opaque && so.opaque {
						return fail("rangekey-transparent-became-opaque", "range key state at %q suffix %s read at %s: input %s, output %s", k, suffix, readName(r), si, so)
					}
				}
			}
		}
	}
	return nil
}

var rkSuffixes = []string{"@1", "@2"}

func readName(r uint64) string {
	if r == inf {
		return "latest"
	}
	return fmt.Sprintf("snap%d", r)
}
