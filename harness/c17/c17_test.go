// C17: compaction output preserves every snapshot's view.
//
// Every internal-key stream of a bounded family (one and two user keys, all point kinds, range
// tombstones, range keys) is pushed through the real compact.Iter under every snapshot list (all
// subsets of the distinct sequence numbers of the stream plus one snapshot above everything), every
// elision setting of a menu and IsBottommostDataLayer on/off. The output is compared with the
// "visible value + opacity" oracle of DESIGN.md Appendix A at every snapshot and at the latest state
// (model_test.go), plus the structural rules of the property statement (strict order, sequence
// numbers zeroed only in the bottom stripe of a bottommost compaction, one output per stripe).
package c17

import (
	"fmt"
	"hash/fnv"
	"sort"
	"strings"
	"sync"
	"testing"

	"github.com/cockroachdb/pebble/internal/verif/vlib"
)

// sym is one symbol of a point-kind alphabet (simplest first).
type sym struct {
	kind Kind
	v    string // DELSIZED payload; values of SET/SETWITHDEL/MERGE are derived from the seqnum
}

// Values are 2 bytes and user keys 1 byte, so the correct DELSIZED size is 3; 9 is a wrong size and
// "" a tombstone whose size was already consumed.
var menu8 = []sym{{KSet, ""}, {KDel, ""}, {KMerge, ""}, {KSingleDel, ""}, {KSetWithDel, ""}, {KDelSized, "3"}, {KDelSized, "9"}, {KDelSized, ""}}
var menu6 = menu8[:6]
var menu5 = []sym{{KSet, ""}, {KDel, ""}, {KMerge, ""}, {KSingleDel, ""}, {KDelSized, "3"}}
var menu5s = menu8[:5] // SETWITHDEL instead of DELSIZED

func mkPt(k string, seq uint64, s sym) Pt {
	p := Pt{K: k, Seq: seq, Kind: s.kind, V: s.v}
	switch s.kind {
	case KSet, KSetWithDel, KMerge:
		p.V = "v" + string(rune('0'+(seq/10)%10))
		if seq%10 != 0 {
			p.V = "w" + string(rune('0'+(seq/10)%10))
		}
	}
	return p
}

type elisionOpt struct {
	name  string
	inUse []InUse
}

var elisions = []elisionOpt{
	{"none", nil},
	{"all", nil},
	{"inuse", []InUse{{"b", "b", true}}},                    // contains b (and nothing else)
	{"inuse", []InUse{{"c", "d", false}}},                   // contains neither b nor d
	{"inuse", []InUse{{"a", "a", true}, {"d", "e", false}}}, // contains d, not b; two ranges
}

// part is one enumerated family of streams.
type part struct {
	name string
	n    int
	gen  func(i int) *stream // nil: index does not denote a stream of the family (counted as skipped)
	desc string
}

// mixed-radix decode
func digits(i int, radices []int) []int {
	d := make([]int, len(radices))
	for j := len(radices) - 1; j >= 0; j-- {
		d[j] = i % radices[j]
		i /= radices[j]
	}
	return d
}

// densePoints decodes index i into a dense sequence (length minLen..maxLen over menu) of entries of
// user key k at seqnums 10,20,...; idx 0.. in "shorter first" order. Length 0 is index 0 when minLen==0.
func densePoints(i int, k string, menu []sym, minLen, maxLen int) []Pt {
	if minLen == 0 {
		if i == 0 {
			return nil
		}
		i--
		minLen = 1
	}
	s := vlib.SeqDecode(i, len(menu), minLen, maxLen)
	var pts []Pt
	for j, x := range s {
		pts = append(pts, mkPt(k, uint64(10*(j+1)), menu[x]))
	}
	return pts
}

func denseCount(k, minLen, maxLen int) int {
	n := 0
	if minLen == 0 {
		n = 1
		minLen = 1
	}
	return n + vlib.SeqCount(k, minLen, maxLen)
}

type rdSpan struct{ s, e string }

// rdelConfigs lists every choice of 1..2 range tombstones (distinct seqnums) over spans x seqs.
func rdelConfigs(spans []rdSpan, seqs []uint64, withNone bool) [][]RDel {
	var out [][]RDel
	if withNone {
		out = append(out, nil)
	}
	for _, sp := range spans {
		for _, q := range seqs {
			out = append(out, []RDel{{sp.s, sp.e, q}})
		}
	}
	for i, q1 := range seqs {
		for _, q2 := range seqs[i+1:] {
			for _, s1 := range spans {
				for _, s2 := range spans {
					out = append(out, []RDel{{s1.s, s1.e, q1}, {s2.s, s2.e, q2}})
				}
			}
		}
	}
	return out
}

func menuNames(menu []sym) string {
	var p []string
	for _, m := range menu {
		n := m.kind.String()
		if m.kind == KDelSized {
			switch m.v {
			case "3":
				n += "(size right)"
			case "":
				n += "(no size)"
			default:
				n += "(size wrong)"
			}
		}
		p = append(p, n)
	}
	return "{" + strings.Join(p, ",") + "}"
}

func partOneKey(minLen, maxLen int, menu []sym) part {
	return part{
		name: fmt.Sprintf("one-key/%d-%d/%d-kinds", minLen, maxLen, len(menu)),
		n:    denseCount(len(menu), minLen, maxLen),
		gen: func(i int) *stream {
			return newStream("one-key", densePoints(i, "b", menu, minLen, maxLen), nil, nil)
		},
		desc: fmt.Sprintf("user key b, every sequence of %d..%d entries at seqnums 10,20,.. over %s", minLen, maxLen, menuNames(menu)),
	}
}

func partTwoKeys(menu []sym, slots int) part {
	rad := make([]int, 2*slots)
	n := 1
	for i := range rad {
		rad[i] = len(menu) + 1
		n *= rad[i]
	}
	return part{
		name: fmt.Sprintf("two-keys/%dx%d", slots, len(menu)),
		n:    n,
		gen: func(i int) *stream {
			d := digits(i, rad)
			var pts []Pt
			for j, x := range d {
				if x == 0 {
					continue
				}
				if j < slots {
					pts = append(pts, mkPt("b", uint64(10+20*j), menu[x-1]))
				} else {
					pts = append(pts, mkPt("d", uint64(20+20*(j-slots)), menu[x-1]))
				}
			}
			if len(pts) == 0 {
				return nil
			}
			return newStream("two-keys", pts, nil, nil)
		},
		desc: fmt.Sprintf("user keys b (seqnums 10,30,..) and d (seqnums 20,40,..), %d slots each, every slot absent or one of %d kinds (interleaved seqnums, so the snapshot stripes of the two keys differ)", slots, len(menu)),
	}
}

func partOneKeyRangeDels(maxLen int, menu []sym, spans []rdSpan, seqs []uint64) part {
	rc := rdelConfigs(spans, seqs, false)
	np := denseCount(len(menu), 0, maxLen)
	return part{
		name: fmt.Sprintf("one-key+rangedels/%d/%d-spans", maxLen, len(spans)),
		n:    np * len(rc),
		gen: func(i int) *stream {
			return newStream("one-key+rangedels", densePoints(i%np, "b", menu, 0, maxLen), rc[i/np], nil)
		},
		desc: fmt.Sprintf("user key b with 0..%d entries (%d kinds, seqnums 10,20,..) and 1..2 range tombstones (distinct seqnums) over spans %v x seqnums %v (between the point seqnums and equal to them)", maxLen, len(menu), spans, seqs),
	}
}

func partTwoKeysRangeDels(menu []sym, spans []rdSpan, seqs []uint64) part {
	rc := rdelConfigs(spans, seqs, false)
	rad := []int{len(menu) + 1, len(menu) + 1, len(menu) + 1, len(menu) + 1}
	np := rad[0] * rad[1] * rad[2] * rad[3]
	return part{
		name: "two-keys+rangedels",
		n:    np * len(rc),
		gen: func(i int) *stream {
			d := digits(i%np, rad)
			var pts []Pt
			for j, x := range d {
				if x == 0 {
					continue
				}
				if j < 2 {
					pts = append(pts, mkPt("b", uint64(10+20*j), menu[x-1]))
				} else {
					pts = append(pts, mkPt("d", uint64(20+20*(j-2)), menu[x-1]))
				}
			}
			return newStream("two-keys+rangedels", pts, rc[i/np], nil)
		},
		desc: fmt.Sprintf("user keys b (seqnums 10,30) and d (20,40), each slot absent or one of %d kinds, with 1..2 range tombstones over spans %v x seqnums %v", len(menu), spans, seqs),
	}
}

// range key sets for the mixed part (seqnums between the point seqnums)
var rkSets = [][]RKey{
	{{12, "SET", "@1", "x1"}},
	{{22, "SET", "@1", "x2"}},
	{{22, "UNSET", "@1", ""}, {12, "SET", "@1", "x1"}},
	{{22, "DEL", "", ""}, {12, "SET", "@1", "x1"}},
	{{22, "SET", "@2", "y2"}, {12, "SET", "@1", "x1"}},
	{{22, "SET", "@1", "x2"}, {12, "SET", "@1", "x1"}},
	{{12, "UNSET", "@1", ""}},
	{{12, "DEL", "", ""}},
}

func partMixed(maxLen int, menu []sym) part {
	spans := []rdSpan{{"a", "c"}, {"b", "bb"}, {"a", "b"}, {"bb", "d"}, {"b", "d"}}
	rc := rdelConfigs(spans, []uint64{5, 10, 15, 20, 25}, true)
	rc = rc[:1+len(spans)*5] // none or exactly one range tombstone
	rkb := []rdSpan{{"a", "c"}, {"b", "d"}, {"a", "b"}}
	np := denseCount(len(menu), 0, maxLen)
	nrk := len(rkb) * len(rkSets)
	return part{
		name: fmt.Sprintf("points+rangedel+rangekey/%d/%d-kinds", maxLen, len(menu)),
		n:    np * len(rc) * nrk,
		gen: func(i int) *stream {
			pi := i % np
			i /= np
			ri := i % len(rc)
			i /= len(rc)
			b := rkb[i%len(rkb)]
			ks := rkSets[i/len(rkb)]
			return newStream("points+rangedel+rangekey", densePoints(pi, "b", menu, 0, maxLen), rc[ri],
				[]RKSpan{{Start: b.s, End: b.e, Keys: append([]RKey(nil), ks...)}})
		},
		desc: fmt.Sprintf("user key b with 0..%d entries (%d kinds), 0..1 range tombstone (5 spans x seqnums 5,10,15,20,25) and one range key span (bounds [a,c) [b,d) [a,b) x %d key sets at seqnums 12/22: SET, UNSET over SET, DEL over SET, two suffixes, overwritten SET, lone UNSET, lone DEL)", maxLen, len(menu), len(rkSets)),
	}
}

// range keys in depth: span [a,c) with 4 seqnum slots, an optional second span [c,d), an optional point.
var rkKinds = []RKey{{0, "SET", "@1", ""}, {0, "SET", "@2", ""}, {0, "UNSET", "@1", ""}, {0, "UNSET", "@2", ""}, {0, "DEL", "", ""}}

func partRangeKeys(slots int) part {
	rad := make([]int, slots)
	n := 1
	for i := range rad {
		rad[i] = len(rkKinds) + 1
		n *= rad[i]
	}
	second := [][]RKey{nil, {{20, "UNSET", "@1", ""}}, {{30, "SET", "@1", "z3"}, {10, "DEL", "", ""}}}
	points := [][]Pt{nil, {{K: "b", Seq: 20, Kind: KSet, V: "v2"}}, {{K: "c", Seq: 20, Kind: KDel}}}
	return part{
		name: fmt.Sprintf("range-keys/%d", slots),
		n:    n * len(second) * len(points),
		gen: func(i int) *stream {
			d := digits(i%n, rad)
			i /= n
			var keys []RKey
			for j := slots - 1; j >= 0; j-- {
				if d[j] == 0 {
					continue
				}
				k := rkKinds[d[j]-1]
				k.Seq = uint64(10 * (j + 1))
				if k.Kind == "SET" {
					k.V = "x" + string(rune('1'+j))
				}
				keys = append(keys, k)
			}
			var rks []RKSpan
			if len(keys) > 0 {
				rks = append(rks, RKSpan{Start: "a", End: "c", Keys: keys})
			}
			if s := second[i%len(second)]; s != nil {
				rks = append(rks, RKSpan{Start: "c", End: "d", Keys: append([]RKey(nil), s...)})
			}
			if len(rks) == 0 {
				return nil
			}
			return newStream("range-keys", append([]Pt(nil), points[i/len(second)]...), nil, rks)
		},
		desc: fmt.Sprintf("range key span [a,c) with %d seqnum slots (10,20,..), every slot absent or one of {SET@1,SET@2,UNSET@1,UNSET@2,DEL}; x second span [c,d) {absent, UNSET@1#20, SET@1#30+DEL#10} x point {none, b#20 SET, c#20 DEL}", slots),
	}
}

// ---------------------------------------------------------------------------------------------

var featureNames = []string{"collapsed", "->SETWITHDEL", "MERGE->SET*", "SINGLEDEL->DEL", "DELSIZED->DEL", "seq-zeroed", "values-merged", "rangedel-dropped", "rangekey-dropped", "multi-stripe", "key-vanished", "sd-cb-ineffectual", "missized-cb", "sd-cb-nondeterministic"}

func features(st *stream, cfg *Cfg, o *output) uint32 {
	var m uint32
	if len(o.pts) < len(st.pts) {
		m |= 1
	}
	for i := range o.pts {
		p := &o.pts[i]
		if p.Seq == 0 {
			m |= 1 << 5
		} else {
			for _, e := range ptsOf(st.pts, p.K) {
				if e.Seq != p.Seq || e.Kind == p.Kind {
					continue
				}
				switch {
				case e.Kind == KMerge:
					m |= 1 << 2
				case p.Kind == KSetWithDel:
					m |= 1 << 1
				case e.Kind == KSingleDel && p.Kind == KDel:
					m |= 1 << 3
				case e.Kind == KDelSized && p.Kind == KDel:
					m |= 1 << 4
				}
			}
		}
		if len(p.V) > 2 {
			m |= 1 << 6
		}
		if i > 0 && o.pts[i-1].K == p.K {
			m |= 1 << 9
		}
	}
	nin, nout := 0, 0
	for _, f := range st.rdFrag {
		nin += len(f.Keys)
	}
	for _, f := range o.rdels {
		nout += len(f.Keys)
		if len(f.Keys) > 1 {
			m |= 1 << 9
		}
	}
	if nout < nin {
		m |= 1 << 7
	}
	nin, nout = 0, 0
	for _, f := range st.rks {
		nin += len(f.Keys)
	}
	for _, f := range o.rkeys {
		nout += len(f.Keys)
		for j := 1; j < len(f.Keys); j++ {
			if cfg.stripe(f.Keys[j].Seq) != cfg.stripe(f.Keys[j-1].Seq) {
				m |= 1 << 9
			}
		}
	}
	if nout < nin {
		m |= 1 << 8
	}
	for _, k := range st.keys {
		if len(ptsOf(o.pts, k)) == 0 {
			m |= 1 << 10
		}
	}
	if o.ineff > 0 {
		m |= 1 << 11
	}
	if o.missize > 0 {
		m |= 1 << 12
	}
	if o.nondet > 0 {
		m |= 1 << 13
	}
	return m
}

func featureLabel(m uint32) string {
	if m == 0 {
		return "agree: output identical to input"
	}
	var p []string
	for i, n := range featureNames {
		if m&(1<<uint(i)) != 0 {
			p = append(p, n)
		}
	}
	return "agree: " + strings.Join(p, ",")
}

func hashOutput(o *output) uint64 {
	h := fnv.New64a()
	var b [9]byte
	for i := range o.order {
		h.Write(o.order[i].UserKey)
		t := uint64(o.order[i].Trailer)
		for j := 0; j < 8; j++ {
			b[j] = byte(t >> (8 * j))
		}
		b[8] = 0xff
		h.Write(b[:])
	}
	for i := range o.pts {
		h.Write([]byte(o.pts[i].V))
		h.Write(o.rawVals[i])
		h.Write(b[8:])
	}
	for _, sp := range [][]outSpan{o.rdels, o.rkeys} {
		for i := range sp {
			h.Write([]byte(sp[i].Start))
			h.Write(b[8:])
			h.Write([]byte(sp[i].End))
			for _, k := range sp[i].Keys {
				t := k.Seq
				for j := 0; j < 8; j++ {
					b[j] = byte(t >> (8 * j))
				}
				h.Write(b[:])
				h.Write([]byte(k.Kind))
				h.Write([]byte(k.Suffix))
				h.Write(b[8:])
				h.Write([]byte(k.V))
			}
		}
	}
	return h.Sum64()
}

// local accumulates the statistics of one stream (flushed to the Ctx once per stream).
type local struct {
	evals, trans int64
	feat         map[uint32]int64
	states       map[uint64]struct{}
	nontrivial   bool
	sample       *Case
	vio          map[string]int64
}

type reporter struct {
	mu    sync.Mutex
	count map[string]int
}

func (r *reporter) want(class string) bool {
	r.mu.Lock()
	defer r.mu.Unlock()
	r.count[class]++
	return r.count[class] <= 8
}

// runStream runs one stream under every configuration.
func runStream(c *vlib.Ctx, st *stream, rep *reporter, loc *local) {
	cands := append(append([]uint64{}, st.seqs...), st.seqs[len(st.seqs)-1]+5)
	hasRD := len(st.rdels) > 0
	cfg := Cfg{}
	snaps := make([]uint64, 0, len(cands))
	for mask := 0; mask < 1<<uint(len(cands)); mask++ {
		snaps = snaps[:0]
		for j, s := range cands {
			if mask&(1<<uint(j)) != 0 {
				snaps = append(snaps, s)
			}
		}
		cfg.Snapshots = snaps
		for _, el := range elisions {
			cfg.Elision, cfg.InUse = el.name, el.inUse
			for b := 0; b < 2; b++ {
				cfg.Bottommost = b == 1
				// IsBottommostDataLayer promises that nothing lies below the compaction in its key range;
				// with range tombstones in the stream that is only consistent with "elide everything"
				// (zeroed points would otherwise fall under a retained range tombstone). The production
				// caller sets it only when both elisions elide everything.
				if cfg.Bottommost && hasRD && el.name != "all" {
					continue
				}
				o := runReal(st, &cfg)
				loc.evals++
				loc.trans += int64(o.steps) + 1
				if f := check(st, &cfg, o, false); f != nil {
					if loc.vio == nil {
						loc.vio = map[string]int64{}
					}
					loc.vio[f.class]++
					if rep.want(f.class) {
						// re-execute before reporting
						o2 := runReal(st, &cfg)
						if f2 := check(st, &cfg, o2, false); f2 == nil || f2.class != f.class {
							c.Incomplete("violation did not reproduce: " + f.desc)
							continue
						}
						c.Violation(f.class, fmt.Sprintf("input {%s} %s: %s; output %s", st, &cfg, f.desc, o), st.mkCase(&cfg))
					}
					continue
				}
				m := features(st, &cfg, o)
				loc.feat[m]++
				loc.states[hashOutput(o)] = struct{}{}
				if m&(1<<9) != 0 && m&(1|1<<7|1<<8) != 0 {
					loc.nontrivial = true
					if loc.sample == nil && len(snaps) >= 2 {
						cs := st.mkCase(&cfg)
						loc.sample = &cs
					}
				}
			}
		}
	}
}

func replay(c *vlib.Ctx, cs Case) {
	st := newStream(cs.Part, cs.Points, cs.RangeDels, cs.RangeKeys)
	fmt.Printf("input : %s\nconfig: %s\nSingleDelete contract holds: %v\n", st, &cs.Cfg, st.valid)
	for _, f := range st.rdFrag {
		fmt.Printf("  input range tombstone fragment %s\n", f)
	}
	o := runReal(st, &cs.Cfg)
	fmt.Printf("output %s\n", o)
	f := check(st, &cs.Cfg, o, true)
	if f != nil {
		fmt.Printf("replay: FAIL class=%s\n%s\n", f.class, f.desc)
		c.Violation(f.class, f.desc, cs)
	} else {
		fmt.Printf("replay: ok\n")
	}
	c.Eval(1)
	c.Trans(o.steps + 1)
	c.State(hashOutput(o))
}

func TestCheck(t *testing.T) {
	vlib.Main(t, "C17", func(c *vlib.Ctx) {
		if c.ReplayPath() != "" {
			var cs Case
			if err := c.LoadReplay(&cs); err != nil {
				t.Fatal(err)
			}
			replay(c, cs)
			return
		}
		rdSpans1 := []rdSpan{{"a", "c"}, {"b", "bb"}, {"a", "b"}, {"bb", "d"}, {"b", "d"}}
		rdSpans2 := []rdSpan{{"a", "c"}, {"c", "e"}, {"a", "e"}, {"b", "d"}, {"d", "e"}}
		var parts []part
		if !c.Thorough() {
			parts = []part{
				partOneKey(1, 4, menu8),
				partOneKey(5, 5, menu5[:4]),
				partTwoKeys(menu5, 2),
				partOneKeyRangeDels(2, menu5, rdSpans1, []uint64{5, 10, 15, 20, 25}),
				partOneKeyRangeDels(3, menu5, rdSpans1[:3], []uint64{15, 25}),
				partRangeKeys(3),
				partMixed(1, menu5),
				partTwoKeysRangeDels(menu5[:4], []rdSpan{{"a", "c"}, {"a", "e"}}, []uint64{15, 25}),
			}
		} else {
			parts = []part{
				partOneKey(1, 5, menu8),
				partOneKey(6, 6, menu5),
				partTwoKeys(menu5s, 3),
				partOneKeyRangeDels(3, menu6, rdSpans1, []uint64{5, 10, 15, 20, 25, 30, 35}),
				partRangeKeys(4),
				partMixed(2, menu8),
				partTwoKeysRangeDels(menu5, rdSpans2[:4], []uint64{15, 25, 35}),
			}
		}
		rep := &reporter{count: map[string]int{}}
		var notes []string
		for _, p := range parts {
			var mu sync.Mutex
			var streams, skipped, invalid, cases int64
			done, complete := c.Each(p.n, func(i int) {
				st := p.gen(i)
				if st == nil {
					mu.Lock()
					skipped++
					mu.Unlock()
					return
				}
				if !st.valid {
					mu.Lock()
					invalid++
					mu.Unlock()
					return
				}
				loc := &local{feat: map[uint32]int64{}, states: map[uint64]struct{}{}}
				runStream(c, st, rep, loc)
				c.Eval(int(loc.evals))
				c.Trans(int(loc.trans))
				for m, n := range loc.feat {
					c.OutcomeN(featureLabel(m), n)
				}
				for cl, n := range loc.vio {
					c.OutcomeN("VIOLATION "+cl, n)
				}
				for h := range loc.states {
					c.State(h)
				}
				if loc.nontrivial {
					c.Nontrivial(vlib.Hash(p.name, st.String()))
				}
				mu.Lock()
				streams++
				cases += loc.evals
				mu.Unlock()
				if i%997 == 0 && loc.sample != nil {
					c.Sample(*loc.sample)
				}
			})
			notes = append(notes, fmt.Sprintf("%s: %s. %d of %d indices done: %d streams run under %d (stream, snapshot list, elision, bottommost) cases, %d streams excluded because a SINGLEDEL violates the SingleDelete contract, %d empty", p.name, p.desc, done, p.n, streams, cases, invalid, skipped))
			if !complete {
				c.Incomplete(fmt.Sprintf("budget expired in part %s after %d of %d stream indices; all earlier parts complete", p.name, done, p.n))
				break
			}
		}
		sort.Strings(notes)
		c.Note("scope", notes)
	})
}
