// Reference model for C17: the "visible value + opacity" oracle of DESIGN.md Appendix A, extended
// to range tombstones and range keys. Nothing in this file calls into Pebble.
package c17

import (
	"encoding/json"
	"fmt"
	"sort"
	"strings"
)

// Kind is a point key kind of the model.
type Kind uint8

const (
	KSet Kind = iota
	KDel
	KMerge
	KSingleDel
	KSetWithDel
	KDelSized
	kOther // an output kind the model does not know (always a violation)
)

var kindNames = []string{"SET", "DEL", "MERGE", "SINGLEDEL", "SETWITHDEL", "DELSIZED", "?"}

func (k Kind) String() string { return kindNames[k] }

func (k Kind) MarshalJSON() ([]byte, error) { return json.Marshal(kindNames[k]) }

func (k *Kind) UnmarshalJSON(b []byte) error {
	var s string
	if err := json.Unmarshal(b, &s); err != nil {
		return err
	}
	for i, n := range kindNames {
		if n == s {
			*k = Kind(i)
			return nil
		}
	}
	return fmt.Errorf("unknown kind %q", s)
}

// Pt is one point internal key. For DELSIZED, V is the decimal size recorded in the tombstone ("" =
// a tombstone whose size was already consumed).
type Pt struct {
	K    string `json:"k"`
	Seq  uint64 `json:"seq"`
	Kind Kind   `json:"kind"`
	V    string `json:"v,omitempty"`
}

func (p Pt) String() string {
	if p.V != "" {
		return fmt.Sprintf("%s#%d,%s=%s", p.K, p.Seq, p.Kind, p.V)
	}
	return fmt.Sprintf("%s#%d,%s", p.K, p.Seq, p.Kind)
}

// RDel is one (unfragmented) range tombstone [Start,End)#Seq.
type RDel struct {
	Start string `json:"start"`
	End   string `json:"end"`
	Seq   uint64 `json:"seq"`
}

func (r RDel) String() string { return fmt.Sprintf("[%s,%s)#%d,RANGEDEL", r.Start, r.End, r.Seq) }

// RKey is one range key of a span. Kind is SET, UNSET or DEL.
type RKey struct {
	Seq    uint64 `json:"seq"`
	Kind   string `json:"kind"`
	Suffix string `json:"suffix,omitempty"`
	V      string `json:"v,omitempty"`
}

func (k RKey) String() string {
	switch k.Kind {
	case "SET":
		return fmt.Sprintf("#%d,RANGEKEYSET,%s,%s", k.Seq, k.Suffix, k.V)
	case "UNSET":
		return fmt.Sprintf("#%d,RANGEKEYUNSET,%s", k.Seq, k.Suffix)
	}
	return fmt.Sprintf("#%d,RANGEKEY%s", k.Seq, k.Kind)
}

// RKSpan is one (already fragmented) range key span; Keys are ordered by Seq descending.
type RKSpan struct {
	Start string `json:"start"`
	End   string `json:"end"`
	Keys  []RKey `json:"keys"`
}

func (s RKSpan) String() string {
	var p []string
	for _, k := range s.Keys {
		p = append(p, "("+k.String()+")")
	}
	return fmt.Sprintf("[%s,%s):{%s}", s.Start, s.End, strings.Join(p, " "))
}

// InUse is one "in use" key range of a TombstoneElision.
type InUse struct {
	Start string `json:"start"`
	End   string `json:"end"`
	Incl  bool   `json:"end_inclusive"`
}

func (u InUse) contains(k string) bool {
	if k < u.Start {
		return false
	}
	if u.Incl {
		return k <= u.End
	}
	return k < u.End
}

// Cfg is the compaction configuration of a case.
type Cfg struct {
	Snapshots  []uint64 `json:"snapshots"`
	Elision    string   `json:"elision"` // none | all | inuse
	InUse      []InUse  `json:"in_use,omitempty"`
	Bottommost bool     `json:"bottommost"`
}

func (c *Cfg) String() string {
	e := c.Elision
	if e == "inuse" {
		var p []string
		for _, u := range c.InUse {
			if u.Incl {
				p = append(p, fmt.Sprintf("[%s,%s]", u.Start, u.End))
			} else {
				p = append(p, fmt.Sprintf("[%s,%s)", u.Start, u.End))
			}
		}
		e = "outside-of " + strings.Join(p, " ")
	}
	return fmt.Sprintf("snapshots=%v elision=%s bottommost=%v", c.Snapshots, e, c.Bottommost)
}

// permitted reports whether tombstones at user key k may be elided (k lies outside every in-use range).
func (c *Cfg) permitted(k string) bool {
	switch c.Elision {
	case "all":
		return true
	case "inuse":
		for _, u := range c.InUse {
			if u.contains(k) {
				return false
			}
		}
		return true
	}
	return false
}

// stripe returns the snapshot stripe of a sequence number: the number of snapshots <= seq. Stripe 0
// is the last (bottom) stripe.
func (c *Cfg) stripe(seq uint64) int {
	n := 0
	for _, s := range c.Snapshots {
		if s <= seq {
			n++
		}
	}
	return n
}

// Case is the replay artefact: one input stream and one configuration.
type Case struct {
	Part      string   `json:"part"`
	Points    []Pt     `json:"points"`
	RangeDels []RDel   `json:"range_dels,omitempty"`
	RangeKeys []RKSpan `json:"range_keys,omitempty"`
	Cfg       Cfg      `json:"cfg"`
}

const inf = uint64(1) << 50

// ---------------------------------------------------------------------------------------------
// Point reads.

const (
	opTransparent int8 = iota // ran out of entries: lower levels shine through
	opSoft                    // ended on SINGLEDEL
	opHard                    // ended on SET/SETWITHDEL/DEL/DELSIZED/range tombstone
)

var opNames = []string{"transparent", "soft-opaque(SINGLEDEL)", "hard-opaque"}

// view is the result of reading one user key at one read point.
type view struct {
	has     bool   // a value is visible
	val     string // the visible value (merge operands concatenated oldest first)
	op      int8
	termSeq uint64 // sequence number of the entry the read ended on (opSoft/opHard by a point)
	byRange bool   // ended by a range tombstone
}

func (v view) String() string {
	s := "none"
	if v.has {
		s = fmt.Sprintf("%q", v.val)
	}
	return s + "/" + opNames[v.op]
}

// readView reads user key entries pts (sorted by Seq descending; all of one user key) under the range
// tombstones covering the key (rds: their sequence numbers, descending) at read point r: entries with
// Seq < r are visible; a point is deleted by a visible range tombstone with a strictly larger Seq.
func readView(pts []Pt, rds []uint64, r uint64) view {
	var t uint64
	hasT := false
	for _, s := range rds {
		if s < r {
			t, hasT = s, true
			break
		}
	}
	var acc []string // merge operands, newest first
	fin := func(base string, hasBase bool) (string, bool) {
		if len(acc) == 0 {
			return base, hasBase
		}
		var b strings.Builder
		b.WriteString(base)
		for i := len(acc) - 1; i >= 0; i-- {
			b.WriteString(acc[i])
		}
		return b.String(), true
	}
	for i := range pts {
		e := &pts[i]
		if e.Seq >= r {
			continue
		}
		if hasT && e.Seq < t {
			v, has := fin("", false)
			return view{has: has, val: v, op: opHard, termSeq: t, byRange: true}
		}
		switch e.Kind {
		case KMerge:
			acc = append(acc, e.V)
		case KSet, KSetWithDel:
			v, _ := fin(e.V, true)
			return view{has: true, val: v, op: opHard, termSeq: e.Seq}
		case KDel, KDelSized:
			v, has := fin("", false)
			return view{has: has, val: v, op: opHard, termSeq: e.Seq}
		case KSingleDel:
			v, has := fin("", false)
			return view{has: has, val: v, op: opSoft, termSeq: e.Seq}
		default:
			return view{has: true, val: "<unknown kind>", op: opHard, termSeq: e.Seq}
		}
	}
	v, has := fin("", false)
	if hasT {
		return view{has: has, val: v, op: opHard, termSeq: t, byRange: true}
	}
	return view{has: has, val: v, op: opTransparent}
}

// normalOpacity is the opacity of the read after SINGLEDELs have been resolved the way the
// SingleDelete contract defines them: a SINGLEDEL and the single SET directly below it annihilate
// (what lies below the pair decides), a SINGLEDEL above a DEL/DELSIZED/SETWITHDEL/range tombstone is
// a hard tombstone, a SINGLEDEL above another SINGLEDEL is ineffectual, and a SINGLEDEL with nothing
// below it in the stream is still pending (opSoft): it has to survive to meet its SET in a lower
// level. This is the opacity a compaction must at least preserve.
func normalOpacity(pts []Pt, rds []uint64, r uint64) int8 {
	var t uint64
	hasT := false
	for _, s := range rds {
		if s < r {
			t, hasT = s, true
			break
		}
	}
	pending := false
	for i := range pts {
		e := &pts[i]
		if e.Seq >= r {
			continue
		}
		if hasT && e.Seq < t {
			return opHard
		}
		switch e.Kind {
		case KMerge:
			pending = false // outside the contract (such streams are not generated): consumed like a SET
		case KSet:
			if !pending {
				return opHard
			}
			pending = false
		case KSingleDel:
			pending = true
		default:
			return opHard
		}
	}
	switch {
	case hasT:
		return opHard
	case pending:
		return opSoft
	}
	return opTransparent
}

// compareViews applies the oracle to one (key, read point). in/out are the plain reads (SINGLEDEL
// reads as a deletion), inN/outN the opacities with SINGLEDELs resolved. perm: tombstones at this
// key may be elided. bottommost: the compaction is the bottommost data layer, so a read that ends on
// an entry rewritten to sequence number zero may have gained a base (MERGE -> SET, documented).
func compareViews(in, out view, inN, outN int8, perm, bottommost bool) (class, why string) {
	if in.has != out.has || in.val != out.val {
		return "visible-value-differs", "visible value changed"
	}
	if outN < inN && !perm {
		if inN == opSoft {
			return "singledel-lost", "a SINGLEDEL that has not met its SET was dropped without elision permission"
		}
		return "opaque-became-transparent", "a tombstone or base that shadows lower levels was lost without elision permission"
	}
	if in.op == opTransparent && out.op != opTransparent {
		if bottommost && out.op == opHard && !out.byRange && out.termSeq == 0 {
			return "", ""
		}
		return "transparent-became-opaque", "a base or tombstone was invented"
	}
	return "", ""
}

// sdContractOK reports whether every SINGLEDEL of the key respects the SingleDelete contract inside
// the stream: between it and the next older DEL/DELSIZED/SINGLEDEL/covering range tombstone (or the
// end of the stream) there is at most one SET/SETWITHDEL and no MERGE. A SETWITHDEL stands for a SET
// on top of a DEL, so it closes the window. pts: one user key, Seq descending. rds: covering range
// tombstone seqnums, descending (a tombstone deletes points with a strictly smaller Seq).
func sdContractOK(pts []Pt, rds []uint64) bool {
	for i := range pts {
		if pts[i].Kind != KSingleDel {
			continue
		}
		sets := 0
		prev := pts[i].Seq
	scan:
		for j := i + 1; j < len(pts); j++ {
			e := &pts[j]
			// a covering range tombstone between prev and e (deleting e) closes the window
			for _, s := range rds {
				if s <= prev && s > e.Seq {
					break scan
				}
			}
			switch e.Kind {
			case KMerge:
				return false
			case KSet:
				sets++
			case KSetWithDel:
				sets++
				if sets > 1 {
					return false
				}
				break scan
			case KDel, KDelSized, KSingleDel:
				break scan
			}
			if sets > 1 {
				return false
			}
			prev = e.Seq
		}
	}
	return true
}

// ---------------------------------------------------------------------------------------------
// Range key reads.

type rkState struct {
	has    bool
	val    string
	opaque bool
}

// rkView reads the range-key state of one suffix under keys (Seq descending) at read point r.
func rkView(keys []RKey, suffix string, r uint64) rkState {
	for i := range keys {
		k := &keys[i]
		if k.Seq >= r {
			continue
		}
		switch k.Kind {
		case "DEL":
			return rkState{opaque: true}
		case "SET":
			if k.Suffix == suffix {
				return rkState{has: true, val: k.V, opaque: true}
			}
		case "UNSET":
			if k.Suffix == suffix {
				return rkState{opaque: true}
			}
		}
	}
	return rkState{}
}

func (s rkState) String() string {
	v := "none"
	if s.has {
		v = fmt.Sprintf("%q", s.val)
	}
	if s.opaque {
		return v + "/opaque"
	}
	return v + "/transparent"
}

// ---------------------------------------------------------------------------------------------
// helpers

func sortPts(p []Pt) {
	sort.SliceStable(p, func(i, j int) bool {
		if p[i].K != p[j].K {
			return p[i].K < p[j].K
		}
		return p[i].Seq > p[j].Seq
	})
}

func ptsOf(p []Pt, k string) []Pt {
	lo := sort.Search(len(p), func(i int) bool { return p[i].K >= k })
	hi := lo
	for hi < len(p) && p[hi].K == k {
		hi++
	}
	return p[lo:hi]
}

// coverSeqs returns the seqnums (descending) of the range tombstones covering user key k.
func coverSeqs(rd []RDel, k string, buf []uint64) []uint64 {
	buf = buf[:0]
	for _, r := range rd {
		if r.Start <= k && k < r.End {
			buf = append(buf, r.Seq)
		}
	}
	sortDesc(buf)
	return buf
}

// sortDesc sorts a tiny slice in descending order (insertion sort, no allocation).
func sortDesc(b []uint64) {
	for i := 1; i < len(b); i++ {
		for j := i; j > 0 && b[j] > b[j-1]; j-- {
			b[j], b[j-1] = b[j-1], b[j]
		}
	}
}
