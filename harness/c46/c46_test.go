// C46: Options survive a serialize/parse round trip.
//
// A case is a zero pebble.Options plus <= 2 (quick) / <= 3 (thorough) deviating fields, each taken
// from a 1-4 value menu (fields_test.go) that covers every key Options.String writes; EnsureDefaults is
// then applied (the order a Pebble user follows). For every case:
//
//	s  := o.String()
//	o2 := &Options{}; o2.Parse(s, hooks); o2.EnsureDefaults()      hooks resolve user-defined names
//
//	O1 Parse returns nil and reports no unknown key (ParseHooks.OnUnknown never fires)
//	O2 o2.String() == s
//	O3 field by field, o2 equals o on every serialised field (independent getters, at the precision
//	   String uses), so a field that String silently drops is noticed
//	O4 every (section, key, value) the getters predict for o is present in s (own INI reader)
//	O5 o2.CheckCompatibility(dir, s) and o.CheckCompatibility(dir, s) succeed; for the base and the
//	   single-deviation cases a different comparer, merger or WAL directory is rejected
package c46

import (
	"strconv"
	"fmt"
	"sort"
	"strings"
	"sync/atomic"
	"testing"

	"github.com/cockroachdb/pebble"
	"github.com/cockroachdb/pebble/cockroachkvs"
	"github.com/cockroachdb/pebble/internal/manifest"
	"github.com/cockroachdb/pebble/internal/verif/vlib"
	"github.com/cockroachdb/pebble/sstable/tablefilters"
)

// Pick names one deviation.
type Pick struct {
	Field string `json:"field"`
	Alt   string `json:"alt"`
}

// Case is the replay artefact.
type Case struct {
	Picks []Pick `json:"picks"`
}

func (c Case) String() string {
	if len(c.Picks) == 0 {
		return "defaults"
	}
	var s []string
	for _, p := range c.Picks {
		s = append(s, p.Field+"="+p.Alt)
	}
	return strings.Join(s, " + ")
}

var allFields = fields()

type choice struct{ f, a int }

func (ch choice) pick() Pick {
	return Pick{allFields[ch.f].name, allFields[ch.f].alts[ch.a].name}
}

func findChoice(p Pick) (choice, bool) {
	for fi, f := range allFields {
		if f.name != p.Field {
			continue
		}
		for ai, a := range f.alts {
			if a.name == p.Alt {
				return choice{fi, ai}, true
			}
		}
	}
	return choice{}, false
}

func construct(chs []choice) *build {
	b := &build{o: &pebble.Options{FS: memFS}}
	for _, ch := range chs {
		allFields[ch.f].alts[ch.a].apply(b)
	}
	if b.vs != nil {
		p := *b.vs
		b.o.ValueSeparationPolicy = func() pebble.ValueSeparationPolicy { return p }
	}
	b.o.EnsureDefaults()
	return b
}

// ---------- independent getters (the model of what is serialised) ----------

type kv struct{ sec, key, val string }

func model(o *pebble.Options) []kv {
	var m []kv
	add := func(sec, key string, format string, args ...any) {
		m = append(m, kv{sec, key, fmt.Sprintf(format, args...)})
	}
	O := "Options"
	add(O, "bytes_per_sync", "%d", o.BytesPerSync)
	if o.Cache != nil {
		add(O, "cache_size", "%d", o.Cache.MaxSize())
	} else {
		add(O, "cache_size", "%d", o.CacheSize)
	}
	add(O, "cleaner", "%s", o.Cleaner)
	add(O, "compaction_debt_concurrency", "%d", o.CompactionDebtConcurrency)
	add(O, "compaction_garbage_fraction_for_max_concurrency", "%.2f", o.CompactionGarbageFractionForMaxConcurrency())
	add(O, "comparer", "%s", o.Comparer.Name)
	add(O, "disable_wal", "%t", o.DisableWAL)
	if o.DisableIngestAsFlushable != nil && o.DisableIngestAsFlushable() {
		add(O, "disable_ingest_as_flushable", "true")
	}
	add(O, "flush_delay_delete_range", "%s", o.FlushDelayDeleteRange)
	add(O, "flush_delay_range_key", "%s", o.FlushDelayRangeKey)
	add(O, "flush_split_bytes", "%d", o.FlushSplitBytes)
	add(O, "format_major_version", "%d", uint64(o.FormatMajorVersion))
	add(O, "key_schema", "%s", o.KeySchema)
	add(O, "l0_compaction_concurrency", "%d", o.L0CompactionConcurrency)
	add(O, "l0_compaction_file_threshold", "%d", o.L0CompactionFileThreshold)
	add(O, "l0_compaction_threshold", "%d", o.L0CompactionThreshold)
	add(O, "l0_stop_writes_threshold", "%d", o.L0StopWritesThreshold)
	add(O, "lbase_max_bytes", "%d", o.LBaseMaxBytes)
	if o.LevelMultiplier != 10 {
		add(O, "level_multiplier", "%d", o.LevelMultiplier)
	}
	lo, hi := o.CompactionConcurrencyRange()
	add(O, "concurrent_compactions", "%d", lo)
	add(O, "max_concurrent_compactions", "%d", hi)
	add(O, "max_concurrent_downloads", "%d", o.MaxConcurrentDownloads())
	add(O, "max_manifest_file_size", "%d", o.MaxManifestFileSize)
	add(O, "max_open_files", "%d", o.MaxOpenFiles)
	add(O, "mem_table_size", "%d", o.MemTableSize)
	add(O, "mem_table_stop_writes_threshold", "%d", o.MemTableStopWritesThreshold)
	add(O, "min_deletion_rate", "%d", o.DeletionPacing.BaselineRate())
	add(O, "free_space_threshold_bytes", "%d", o.DeletionPacing.FreeSpaceThresholdBytes)
	add(O, "free_space_timeframe", "%s", o.DeletionPacing.FreeSpaceTimeframe)
	add(O, "obsolete_bytes_timeframe", "%s", o.DeletionPacing.BacklogTimeframe)
	add(O, "merger", "%s", o.Merger.Name)
	if o.MultiLevelCompactionHeuristic != nil {
		add(O, "multilevel_compaction_heuristic", "%s", o.MultiLevelCompactionHeuristic().String())
	}
	add(O, "read_compaction_rate", "%d", o.ReadCompactionRate)
	add(O, "read_sampling_multiplier", "%d", o.ReadSamplingMultiplier)
	add(O, "num_deletions_threshold", "%d", o.NumDeletionsThreshold)
	// written with %f when that round-trips, else with the shortest round-tripping representation
	// (see the "fix: Options.String keeps a small deletion_size_ratio_threshold" commit)
	if ds := fmt.Sprintf("%f", o.DeletionSizeRatioThreshold); func() bool {
		v, err := strconv.ParseFloat(ds, 32)
		return err == nil && float32(v) == o.DeletionSizeRatioThreshold
	}() {
		add(O, "deletion_size_ratio_threshold", "%s", ds)
	} else {
		add(O, "deletion_size_ratio_threshold", "%s", strconv.FormatFloat(float64(o.DeletionSizeRatioThreshold), 'g', -1, 32))
	}
	add(O, "tombstone_dense_compaction_threshold", "%f", o.TombstoneDenseCompactionThreshold())
	add(O, "table_cache_shards", "%d", o.FileCacheShards)
	add(O, "validate_on_ingest", "%t", o.ValidateOnIngest)
	add(O, "wal_dir", "%s", o.WALDir)
	add(O, "wal_bytes_per_sync", "%d", o.WALBytesPerSync)
	add(O, "secondary_cache_size_bytes", "%d", o.SecondaryCacheSizeBytes)
	add(O, "create_on_shared", "%d", int(o.CreateOnShared))
	if o.IteratorTracking.PollInterval != 0 {
		add(O, "iterator_tracking_poll_interval", "%s", o.IteratorTracking.PollInterval)
	}
	if o.IteratorTracking.MaxAge != 0 {
		add(O, "iterator_tracking_max_age", "%s", o.IteratorTracking.MaxAge)
	}
	p0, p1, p2 := pebble.VerifC46GetPrivate(o)
	if p0 {
		add(O, "disable_delete_only_compactions", "true")
	}
	if p1 {
		add(O, "disable_elision_only_compactions", "true")
	}
	if p2 {
		add(O, "disable_lazy_combined_iteration", "true")
	}
	if o.ValueSeparationPolicy != nil {
		V := "Value Separation"
		p := o.ValueSeparationPolicy()
		add(V, "enabled", "%t", p.Enabled)
		if p.Enabled {
			add(V, "minimum_size", "%d", p.MinimumSize)
			add(V, "minimum_mvcc_garbage_size", "%d", p.MinimumMVCCGarbageSize)
			add(V, "max_blob_reference_depth", "%d", p.MaxBlobReferenceDepth)
			add(V, "rewrite_minimum_age", "%s", p.RewriteMinimumAge)
			add(V, "garbage_ratio_low_priority", "%.2f", p.GarbageRatioLowPriority)
			add(V, "garbage_ratio_high_priority", "%.2f", p.GarbageRatioHighPriority)
		}
	}
	if w := o.WALFailover; w != nil {
		W := "WAL Failover"
		add(W, "secondary_dir", "%s", w.Secondary.Dirname)
		if w.Secondary.ID != "" {
			add(W, "secondary_identifier", "%s", w.Secondary.ID)
		}
		add(W, "primary_dir_probe_interval", "%s", w.PrimaryDirProbeInterval)
		add(W, "healthy_probe_latency_threshold", "%s", w.HealthyProbeLatencyThreshold)
		add(W, "healthy_interval", "%s", w.HealthyInterval)
		add(W, "unhealthy_sampling_interval", "%s", w.UnhealthySamplingInterval)
		d, _ := w.UnhealthyOperationLatencyThreshold()
		add(W, "unhealthy_operation_latency_threshold", "%s", d)
		add(W, "elevated_write_stall_threshold_lag", "%s", w.ElevatedWriteStallThresholdLag)
	}
	for i := range o.Levels {
		L := fmt.Sprintf("Level \"%d\"", i)
		l := &o.Levels[i]
		add(L, "block_restart_interval", "%d", l.BlockRestartInterval)
		add(L, "block_size", "%d", l.BlockSize)
		add(L, "block_size_threshold", "%d", l.BlockSizeThreshold)
		add(L, "compression", "%s", l.Compression().Name)
		add(L, "filter_policy", "%s", l.TableFilterPolicy().Name())
		add(L, "index_block_size", "%d", l.IndexBlockSize)
		add(L, "target_file_size", "%d", o.TargetFileSizes[i])
	}
	return m
}

// ini is a minimal reader of the OPTIONS syntax, independent of Pebble's parser.
func ini(s string) map[[2]string]string {
	out := map[[2]string]string{}
	sec := ""
	for _, line := range strings.Split(s, "\n") {
		line = strings.TrimSpace(line)
		if line == "" || line[0] == '#' || line[0] == ';' {
			continue
		}
		if line[0] == '[' && line[len(line)-1] == ']' {
			sec = line[1 : len(line)-1]
			continue
		}
		if i := strings.IndexByte(line, '='); i >= 0 {
			out[[2]string{sec, strings.TrimSpace(line[:i])}] = strings.TrimSpace(line[i+1:])
		}
	}
	return out
}

// ---------- one case ----------

type failure struct{ class, desc string }

type result struct {
	outcome string
	steps   int
	strHash uint64
	fl      *failure
	extra   []string // keys in String() the model does not know (informational)
}

func hooksFor(unknown *[]string) *pebble.ParseHooks {
	return &pebble.ParseHooks{
		NewCleaner: func(name string) (pebble.Cleaner, error) {
			if name == (verifCleaner{}).String() {
				return verifCleaner{}, nil
			}
			return nil, fmt.Errorf("unknown cleaner %q", name)
		},
		NewComparer: func(name string) (*pebble.Comparer, error) {
			switch name {
			case cockroachkvs.Comparer.Name:
				return &cockroachkvs.Comparer, nil
			case verifComparer.Name:
				return verifComparer, nil
			}
			return nil, fmt.Errorf("unknown comparer %q", name)
		},
		NewFilterPolicy: func(name string) (pebble.TableFilterPolicy, error) {
			if p, ok := tablefilters.PolicyFromName(name); ok {
				return p, nil
			}
			return nil, fmt.Errorf("unknown filter policy %q", name)
		},
		NewKeySchema: func(name string) (pebble.KeySchema, error) {
			if name == ksCRL.Name {
				return ksCRL, nil
			}
			return pebble.KeySchema{}, fmt.Errorf("unknown key schema %q", name)
		},
		NewMerger: func(name string) (*pebble.Merger, error) {
			switch name {
			case verifMerger.Name:
				return verifMerger, nil
			case verifMerger2.Name:
				return verifMerger2, nil
			}
			return nil, fmt.Errorf("unknown merger %q", name)
		},
		OnUnknown: func(name, value string) { *unknown = append(*unknown, name+"="+value) },
	}
}

const storeDir = "/data/store-1"

func firstDiff(a, b string) string {
	la, lb := strings.Split(a, "\n"), strings.Split(b, "\n")
	sec := ""
	for i := 0; i < len(la) || i < len(lb); i++ {
		var x, y string
		if i < len(la) {
			x = la[i]
		}
		if i < len(lb) {
			y = lb[i]
		}
		if strings.HasPrefix(x, "[") {
			sec = x
		}
		if x != y {
			return fmt.Sprintf("first differing line (%d, section %s): original %q, after round trip %q", i+1, sec, strings.TrimSpace(x), strings.TrimSpace(y))
		}
	}
	return "no differing line"
}

func runCase(chs []choice, negatives, verbose bool) (res result) {
	defer func() {
		if r := recover(); r != nil {
			res.fl = &failure{"panic", fmt.Sprintf("panic: %v", r)}
			res.outcome = "panic"
		}
	}()
	b := construct(chs)
	defer func() {
		for _, f := range b.close {
			f()
		}
	}()
	o := b.o
	if err := o.Validate(); err != nil {
		// Not a valid Options: outside the property.
		res.outcome = "skipped: Options.Validate rejects the combination"
		if verbose {
			fmt.Printf("Validate: %v\n", err)
		}
		return res
	}
	s := o.String()
	res.steps++
	res.strHash = vlib.Hash(s)
	if verbose {
		fmt.Printf("---- String(o) ----\n%s\n", s)
	}
	fail := func(class, format string, args ...any) result {
		res.fl = &failure{class, fmt.Sprintf(format, args...)}
		res.outcome = class
		return res
	}
	// O4: the model's lines are in the string.
	got := ini(s)
	mo := model(o)
	known := map[[2]string]bool{}
	for _, e := range mo {
		known[[2]string{e.sec, e.key}] = true
		v, ok := got[[2]string{e.sec, e.key}]
		if !ok {
			return fail("string-omits-field", "String() has no [%s] %s (expected %q)", e.sec, e.key, e.val)
		}
		if v != e.val {
			return fail("string-field-value-unexpected", "String() writes [%s] %s=%q, the field holds %q", e.sec, e.key, v, e.val)
		}
	}
	for k := range got {
		if !known[k] {
			res.extra = append(res.extra, k[0]+"."+k[1])
		}
	}
	// O1
	var unknown []string
	o2 := &pebble.Options{FS: memFS}
	err := o2.Parse(s, hooksFor(&unknown))
	res.steps++
	if err != nil {
		return fail("parse-rejects-own-string", "Parse(String(o)) = %v", err)
	}
	if len(unknown) > 0 {
		return fail("string-key-unknown-to-parse", "Parse does not know keys written by String: %v", unknown)
	}
	preDefaults := o2.String()
	o2.EnsureDefaults()
	s2 := o2.String()
	res.steps += 2
	if verbose && s2 != s {
		fmt.Printf("---- String(Parse(String(o))) ----\n%s\n", s2)
	}
	// O3 before O2 so that the field is named.
	m2 := model(o2)
	idx := map[[2]string]string{}
	for _, e := range m2 {
		idx[[2]string{e.sec, e.key}] = e.val
	}
	for _, e := range mo {
		v, ok := idx[[2]string{e.sec, e.key}]
		if !ok || v != e.val {
			class := "field-changed-by-roundtrip"
			if e.key == "deletion_size_ratio_threshold" && strings.TrimLeft(e.val, "0.") == "" {
				// %f prints a positive threshold below 5e-7 as 0.000000, which parses to 0 = "use the default".
				class = "tiny-deletion-size-ratio-threshold-becomes-default"
			}
			return fail(class, "[%s] %s: %q before, %q after Parse(String(o)) + EnsureDefaults (String() wrote %q)", e.sec, e.key, e.val, v, got[[2]string{e.sec, e.key}])
		}
	}
	if len(m2) != len(mo) {
		return fail("field-changed-by-roundtrip", "round trip has %d serialised fields, original %d; %s", len(m2), len(mo), firstDiff(s, s2))
	}
	if s2 != s {
		return fail("string-differs-after-roundtrip", "%s", firstDiff(s, s2))
	}
	// O5
	if err := o2.CheckCompatibility(storeDir, s); err != nil {
		return fail("checkcompat-rejects-own-string", "parsed options: CheckCompatibility(%q, String(o)) = %v", storeDir, err)
	}
	if err := o.CheckCompatibility(storeDir, s); err != nil {
		return fail("checkcompat-rejects-own-string", "original options: CheckCompatibility(%q, String(o)) = %v", storeDir, err)
	}
	res.steps += 2
	if negatives {
		o3 := o2.Clone()
		c := *o2.Comparer
		c.Name = "some.other.comparer"
		o3.Comparer = &c
		if o3.CheckCompatibility(storeDir, s) == nil {
			return fail("checkcompat-accepts-different-comparer", "CheckCompatibility accepted comparer %q against a string naming %q", c.Name, o2.Comparer.Name)
		}
		o3 = o2.Clone()
		mg := *o2.Merger
		mg.Name = "some.other.merger"
		o3.Merger = &mg
		if o3.CheckCompatibility(storeDir, s) == nil {
			return fail("checkcompat-accepts-different-merger", "CheckCompatibility accepted merger %q against a string naming %q", mg.Name, o2.Merger.Name)
		}
		o3 = o2.Clone()
		o3.WALDir = o2.WALDir + "-moved"
		if o3.CheckCompatibility(storeDir, s) == nil {
			return fail("checkcompat-accepts-moved-wal-dir", "CheckCompatibility accepted WALDir %q against a string with wal_dir=%q and no WALRecoveryDirs", o3.WALDir, o2.WALDir)
		}
		res.steps += 3
	}
	if preDefaults == s {
		res.outcome = "roundtrip-equal (also without EnsureDefaults on the parsed options)"
	} else {
		res.outcome = "roundtrip-equal (only after EnsureDefaults on the parsed options)"
	}
	return res
}

// ---------- driver ----------

func caseOf(chs []choice) Case {
	var c Case
	for _, ch := range chs {
		c.Picks = append(c.Picks, ch.pick())
	}
	return c
}

func TestCheck(t *testing.T) {
	if got := len(pebble.Options{}.Levels); got != manifest.NumLevels {
		t.Fatalf("levels %d", got)
	}
	vlib.Main(t, "C46", func(c *vlib.Ctx) {
		if c.ReplayPath() != "" {
			var cs Case
			if err := c.LoadReplay(&cs); err != nil {
				t.Fatal(err)
			}
			var chs []choice
			for _, p := range cs.Picks {
				ch, ok := findChoice(p)
				if !ok {
					t.Fatalf("unknown pick %+v", p)
				}
				chs = append(chs, ch)
			}
			fmt.Printf("case: %s\n", cs)
			r := runCase(chs, len(chs) <= 1, true)
			fmt.Printf("outcome: %s\n", r.outcome)
			if r.fl != nil {
				fmt.Printf("replay: FAIL class=%s\n%s\n", r.fl.class, r.fl.desc)
				c.Violation(r.fl.class, r.fl.desc, cs)
			} else {
				fmt.Printf("replay: ok\n")
			}
			c.Eval(1)
			c.Trans(r.steps)
			return
		}
		maxDev := 2
		if c.Thorough() {
			maxDev = 3
		}
		var all, regular []choice
		for fi, f := range allFields {
			for ai, a := range f.alts {
				all = append(all, choice{fi, ai})
				if !a.edge {
					regular = append(regular, choice{fi, ai})
				}
			}
		}
		var extraKeys atomic.Value
		record := func(chs []choice, r result) {
			c.Eval(1)
			c.Trans(r.steps)
			c.Outcome(r.outcome)
			cs := caseOf(chs)
			if r.fl != nil {
				c.Violation(r.fl.class, fmt.Sprintf("options {%s}: %s", cs, r.fl.desc), cs)
			}
			if r.strHash != 0 {
				c.State(r.strHash)
			}
			if len(r.extra) > 0 {
				sort.Strings(r.extra)
				extraKeys.Store(strings.Join(r.extra, ","))
			}
			// Non-trivial: at least one deviating field, a valid Options, and the round trip was judged.
			if len(chs) >= 1 && r.strHash != 0 {
				c.Nontrivial(vlib.Hash(cs.String()))
			}
			if h := vlib.Hash(cs.String()); h%1009 == 0 || (len(chs) == 1 && h%29 == 0) {
				c.Sample(map[string]any{"options": cs.String(), "outcome": r.outcome})
			}
		}
		// size 0 and 1 (including the edge alternatives), with the negative compatibility controls.
		record(nil, runCase(nil, true, false))
		c.Sample(map[string]any{"options": "defaults", "outcome": "see outcomes"})
		d1, ok1 := c.Each(len(all), func(i int) {
			chs := []choice{all[i]}
			record(chs, runCase(chs, true, false))
		})
		// size 2 (and 3): the outer index is the pair; its triples are looped inside.
		type pair struct{ i, j int }
		var pairs []pair
		for i := range regular {
			for j := i + 1; j < len(regular); j++ {
				if regular[i].f != regular[j].f {
					pairs = append(pairs, pair{i, j})
				}
			}
		}
		var nTriples atomic.Int64
		var cut atomic.Bool
		d2, ok2 := int64(0), true
		if ok1 {
			d2, ok2 = c.Each(len(pairs), func(pi int) {
				p := pairs[pi]
				chs := []choice{regular[p.i], regular[p.j]}
				record(chs, runCase(chs, false, false))
			})
		}
		// size 3: the outer index is the pair (i<j); every third choice k>j of another field is looped inside.
		d3, ok3 := int64(0), true
		if ok1 && ok2 && maxDev >= 3 {
			d3, ok3 = c.Each(len(pairs), func(pi int) {
				p := pairs[pi]
				for k := p.j + 1; k < len(regular); k++ {
					if regular[k].f == regular[p.j].f || regular[k].f == regular[p.i].f {
						continue
					}
					if c.Expired() {
						cut.Store(true)
						return
					}
					chs3 := []choice{regular[p.i], regular[p.j], regular[k]}
					record(chs3, runCase(chs3, false, false))
					nTriples.Add(1)
				}
			})
		}
		var names []string
		for _, f := range allFields {
			var as []string
			for _, a := range f.alts {
				n := a.name
				if a.edge {
					n += "(single only)"
				}
				as = append(as, n)
			}
			names = append(names, f.name+" in {"+strings.Join(as, " | ")+"}")
		}
		scope := map[string]any{
			"fields": names,
			"cases": fmt.Sprintf("defaults + %d of %d single deviations (%d fields) + %d of %d pairs of regular alternatives of different fields + %d triples (max deviations %d)",
				d1, len(all), len(allFields), d2, len(pairs), nTriples.Load(), maxDev),
		}
		if v := extraKeys.Load(); v != nil {
			scope["keys_written_by_String_outside_the_field_list"] = v
		}
		c.Note("scope", scope)
		if !ok1 || !ok2 || !ok3 || cut.Load() {
			c.Incomplete(fmt.Sprintf("budget expired: %d of %d singles, %d of %d pairs, triples of %d of %d leading pairs (%d triples) done; singles and pairs are run first", d1, len(all), d2, len(pairs), d3, len(pairs), nTriples.Load()))
		}
	})
}
